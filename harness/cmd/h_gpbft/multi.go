// multi.go — mode "multi": K consecutive instances on N real participants without faulty members. What it adds
// to the single-instance runs is participant.go's instance management: messages for a later instance are
// queued (messageQueue per instance) and drained when that instance begins, messages of finished instances are
// dropped, a decision is handed to the host and the next instance begins at the time the host returns, with a
// proposal that extends the chain just decided. Nodes progress at different speeds (a lagging node), so all of
// these paths are taken.
//
// Log format: as in main.go, with one *virtual node* per (participant, instance): id + 1000*instance. A `node`
// line for the virtual node is written when the participant fetches its proposal for that instance. `o` lines
// of kind M/A are calls that concern the participant's current instance, kind Q is a ReceiveMessage call for a
// later instance (queued; logged under the virtual node of THAT instance), kind P one for a finished instance
// (dropped; logged under the current virtual node).
package main

import (
	"bytes"
	"container/heap"
	"errors"
	"fmt"
	"math"
	"math/big"
	"strings"
	"time"

	"context"

	"github.com/filecoin-project/go-f3/certs"
	"github.com/filecoin-project/go-f3/gpbft"
	"github.com/filecoin-project/go-f3/internal/verifh/lib/bsig"
	"github.com/filecoin-project/go-f3/internal/verifh/lib/vh"
)

type itree struct {
	base     *gpbft.TipSet
	variants []*gpbft.ECChain
}

type mnet struct {
	*net
	K         int
	gap       int64
	mnodes    []*mnode
	trees     map[uint64]*itree
	unanimous bool
	dropPct   int
}

type mnode struct {
	m         *mnet
	idx       int
	id        gpbft.ActorID
	pubKey    gpbft.PubKey
	p         *gpbft.Participant
	effects   []string
	alarm     int64
	sent      map[gpbft.Instant]*gpbft.GMessage
	decisions map[uint64]*gpbft.Justification
	inputs    map[uint64]*gpbft.ECChain
	lag       int64
	power     int64
}

func (h *mnode) vid(inst uint64) uint64 { return uint64(h.id) + 1000*inst }

func (m *mnet) tree(inst uint64, h *mnode) *itree {
	if t, ok := m.trees[inst]; ok {
		return t
	}
	var base *gpbft.TipSet
	if inst == 0 {
		base = m.u.tip(int64(10+m.rng.Intn(100)), 0)
	} else {
		base = h.decisions[inst-1].Vote.Value.Head()
	}
	t := &itree{base: base}
	mk := func(tags []int) *gpbft.ECChain {
		ts := []*gpbft.TipSet{}
		for i, tg := range tags {
			ts = append(ts, m.u.tip(base.Epoch+int64(i)+1, tg))
		}
		c, err := gpbft.NewChain(base, ts...)
		if err != nil {
			panic(err)
		}
		return c
	}
	L := m.rng.Intn(5) // 0: nothing new to finalize, the proposal is the base alone
	mainTag := int(inst)*10 + 1
	main := make([]int, L)
	for i := range main {
		main[i] = mainTag
	}
	t.variants = append(t.variants, mk(main))
	for f := 1; f <= 1+m.rng.Intn(2); f++ {
		fp := m.rng.Intn(L + 1)
		fl := fp + m.rng.Intn(3)
		v := make([]int, fl)
		for i := range v {
			if i < fp {
				v[i] = mainTag
			} else {
				v[i] = mainTag + f
			}
		}
		t.variants = append(t.variants, mk(v))
	}
	m.trees[inst] = t
	return t
}

// --- gpbft.Host ---

func (h *mnode) GetProposal(_ context.Context, instance uint64) (*gpbft.SupplementalData, *gpbft.ECChain, error) {
	if instance >= uint64(h.m.K) {
		return nil, nil, errors.New("no proposal beyond the last instance of the run")
	}
	t := h.m.tree(instance, h)
	var in *gpbft.ECChain
	if h.m.unanimous {
		in = t.variants[0]
	} else {
		in = t.variants[h.m.rng.Intn(len(t.variants))]
	}
	if instance > 0 && !t.base.Equal(h.decisions[instance-1].Vote.Value.Head()) {
		// only possible after a disagreement (reported by the C01 oracle): propose from the own decision
		c, _ := gpbft.NewChain(h.decisions[instance-1].Vote.Value.Head())
		in = c
	}
	h.inputs[instance] = in
	h.m.out.Line("node %d input=%s faulty=0 power=%d inst=%d", h.vid(instance), h.m.u.chainStr(in), h.power, instance)
	s := h.m.supp
	return &s, in, nil
}
func (h *mnode) GetCommittee(_ context.Context, instance uint64) (*gpbft.Committee, error) {
	if instance >= uint64(h.m.K) {
		return nil, errors.New("no committee")
	}
	return &gpbft.Committee{PowerTable: h.m.table, Beacon: []byte(fmt.Sprintf("%s-%d", h.m.beacon, instance)), AggregateVerifier: h.m.agg}, nil
}
func (h *mnode) NetworkName() gpbft.NetworkName { return networkName }
func (h *mnode) Time() time.Time                { return time.Unix(0, h.m.now) }
func (h *mnode) SetAlarm(at time.Time) {
	if at.IsZero() {
		h.alarm = 0
		h.effects = append(h.effects, "A,0")
		return
	}
	h.alarm = at.UnixNano()
	h.effects = append(h.effects, fmt.Sprintf("A,%d", h.alarm))
}
func (h *mnode) Sign(c context.Context, k gpbft.PubKey, b []byte) ([]byte, error) {
	return h.m.sig.Sign(c, k, b)
}
func (h *mnode) Verify(k gpbft.PubKey, b, s []byte) error { return h.m.sig.Verify(k, b, s) }
func (h *mnode) Aggregate(keys []gpbft.PubKey) (gpbft.Aggregate, error) {
	return h.m.sig.Aggregate(keys)
}
func (h *mnode) MarshalPayloadForSigning(nn gpbft.NetworkName, p *gpbft.Payload) []byte {
	return p.MarshalForSigning(nn)
}
func (h *mnode) RequestBroadcast(mb *gpbft.MessageBuilder) error {
	pl := mb.Payload
	h.effects = append(h.effects, fmt.Sprintf("B,%d,%d,%s,%d,%s", pl.Round, pl.Phase,
		h.m.u.chainStr(pl.Value), b2i(mb.BeaconForTicket != nil), h.m.justStr(mb.Justification)))
	msg, err := mb.Build(ctx, h, h.id)
	if err != nil {
		if errors.Is(err, gpbft.ErrNoPower) {
			return err
		}
		h.effects = append(h.effects, "X,builderr")
		return err
	}
	inst := gpbft.Instant{ID: msg.Vote.Instance, Round: msg.Vote.Round, Phase: msg.Vote.Phase}
	if _, dup := h.sent[inst]; !dup {
		h.sent[inst] = msg
	} else {
		h.effects = append(h.effects, "X,dupslot")
	}
	h.m.mbroadcast(h, msg, false)
	return nil
}
func (h *mnode) RequestRebroadcast(instant gpbft.Instant) error {
	h.effects = append(h.effects, fmt.Sprintf("R,%d,%d", instant.Round, instant.Phase))
	if mg, ok := h.sent[instant]; ok {
		h.m.mbroadcast(h, mg, true)
	}
	return nil
}
func (h *mnode) ReceiveDecision(_ context.Context, d *gpbft.Justification) (time.Time, error) {
	h.decisions[d.Vote.Instance] = d
	h.effects = append(h.effects, "D,"+h.m.justStr(d))
	if d.Vote.Instance+1 < uint64(h.m.K) {
		return time.Unix(0, h.m.now+h.m.gap), nil
	}
	return time.Unix(0, math.MaxInt64/4), nil
}

func (m *mnet) mbroadcast(from *mnode, msg *gpbft.GMessage, re bool) {
	for _, to := range m.mnodes {
		d := int64(m.rng.Intn(int(m.delayMax)+1)) + from.lag + to.lag
		if from == to {
			d = int64(m.rng.Intn(1000))
		} else {
			if m.rng.Intn(100) < m.dropPct {
				continue // lost; rebroadcasts repair it
			}
			if m.rng.Intn(100) < 10 {
				d *= int64(2 + m.rng.Intn(10))
			}
			if m.rng.Intn(100) < 5 {
				m.push(&event{at: m.now + d + int64(m.rng.Intn(int(m.delayMax)+1)), to: to.idx, msg: msg})
			}
		}
		m.push(&event{at: m.now + d, to: to.idx, msg: msg})
	}
}

func (h *mnode) logOp(kind string, vid uint64, detail string, err error) {
	pr := h.p.Progress()
	eff := strings.Join(h.effects, " ")
	if eff == "" {
		eff = "-"
	}
	h.effects = h.effects[:0]
	es := errClass(err)
	if es != "ok" && !strings.HasPrefix(es, "late:") && err != nil {
		es += ":" + sanitize(err.Error())
	}
	h.m.out.Line("o %d %s %d %s| %s | %d,%d,%d | %s", vid, kind, h.m.now, detail, eff, pr.ID, pr.Round, int(pr.Phase), es)
}

func (h *mnode) finished() bool { return len(h.decisions) >= h.m.K }

func (m *mnet) mdeliver(to *mnode, msg *gpbft.GMessage) {
	if to.finished() {
		return
	}
	vm, err := to.p.ValidateMessage(ctx, msg)
	if err != nil {
		if errors.Is(err, gpbft.ErrValidationInvalid) {
			m.out.Line("badhonest %d from=%d %d,%d %s", to.id, msg.Sender, msg.Vote.Round, msg.Vote.Phase, sanitize(err.Error()))
		}
		return
	}
	cur := to.p.Progress().ID
	err = to.p.ReceiveMessage(ctx, vm)
	detail := m.msgStr(msg, 0) + fmt.Sprintf(",%d ", msg.Vote.Instance)
	switch {
	case msg.Vote.Instance < cur:
		to.logOp("P", to.vid(cur), detail, err)
	case msg.Vote.Instance > cur, to.inputs[cur] == nil:
		// a later instance, or the current one before it has begun (its proposal is not fetched yet): queued
		to.logOp("Q", to.vid(msg.Vote.Instance), detail, err)
	default:
		to.logOp("M", to.vid(cur), detail, err)
	}
}

func runMulti(out *vh.Out, rng *vh.Rng, runNo int) {
	base := &net{rng: rng, out: out, sig: bsig.New(), votes: map[string]map[gpbft.ActorID][]byte{},
		payloads: map[string]gpbft.Payload{}, byzSlots: map[string]bool{}, commitVal: map[uint64]*gpbft.ECChain{}}
	base.u = &universe{tips: map[string]int{}, byID: map[int]*gpbft.TipSet{}}
	m := &mnet{net: base, trees: map[uint64]*itree{}}
	N := 3 + rng.Intn(4)
	m.K = 2 + rng.Intn(2)
	style := rng.Intn(3)
	entries := make(gpbft.PowerEntries, N)
	for i := 0; i < N; i++ {
		var pw int64
		switch style {
		case 0:
			pw = 100
		case 1:
			pw = int64(1 + rng.Intn(1000))
		default:
			pw = int64(1) << uint(rng.Intn(8))
		}
		pub, _ := m.sig.GenerateKey()
		entries[i] = gpbft.PowerEntry{ID: gpbft.ActorID(100 + i), Power: gpbft.StoragePower{Int: big.NewInt(pw)}, PubKey: pub}
	}
	pt := gpbft.NewPowerTable()
	if err := pt.Add(entries...); err != nil {
		panic(err)
	}
	m.table = pt
	agg, err := m.sig.Aggregate(pt.Entries.PublicKeys())
	if err != nil {
		panic(err)
	}
	m.agg = agg
	m.beacon = []byte(fmt.Sprintf("beacon-%d", runNo))
	nextCid, err := certs.MakePowerTableCID(pt.Entries)
	if err != nil {
		panic(err)
	}
	m.supp = gpbft.SupplementalData{PowerTable: nextCid}
	// non-zero commitments: the decision's aggregate covers them, so a certificate that loses them does not verify
	for i := range m.supp.Commitments {
		m.supp.Commitments[i] = byte(rng.Intn(256))
	}
	m.unanimous = rng.Intn(3) == 0

	delta := time.Duration(20+rng.Intn(200)) * time.Millisecond
	exp := []float64{1.0, 1.3, 2.0}[rng.Intn(3)]
	qmulti := []float64{1.0, 1.5, 2.0}[rng.Intn(3)]
	lookahead := uint64(rng.Intn(6))
	rebImm := uint64(rng.Intn(5))
	rebBase := time.Duration(10+rng.Intn(300)) * time.Millisecond
	rebMax := rebBase * time.Duration(1+rng.Intn(8))
	rebExp := []float64{1.0, 1.3, 2.0}[rng.Intn(3)]
	opts := []gpbft.Option{gpbft.WithDelta(delta), gpbft.WithDeltaBackOffExponent(exp), gpbft.WithQualityDeltaMultiplier(qmulti),
		gpbft.WithMaxLookaheadRounds(lookahead), gpbft.WithRebroadcastImmediatelyAfterRound(rebImm),
		gpbft.WithRebroadcastBackoff(rebExp, 0, rebBase, rebMax)}
	m.delayMax = int64(delta) * int64(1+rng.Intn(3)) / 2
	// no loss between honest participants (the premise of C06): a participant that has left an instance never
	// resends its messages of that instance, so a lost DECIDE could strand a slower node there for good — in a
	// deployment certificate exchange, not GPBFT, gets such a node out
	m.dropPct = 0
	m.gap = int64(rng.Intn(int(2*delta) + 1))

	out.Line("run %d mode=multi N=%d style=%d unanimous=%v K=%d gap=%d", runNo, N, style, m.unanimous, m.K, m.gap)
	var tb []string
	for i, e := range pt.Entries {
		tb = append(tb, fmt.Sprintf("%d:%d", e.ID, pt.ScaledPower[i]))
	}
	out.Line("tbl %s", strings.Join(tb, ","))
	var to2, reb []string
	for r := 0; r < 48; r++ {
		d := time.Duration(float64(delta) * 1 * math.Pow(exp, float64(r)))
		to2 = append(to2, fmt.Sprint(int64(2*d)))
	}
	q2 := 2 * time.Duration(float64(delta)*qmulti*math.Pow(exp, 0))
	for a := 0; a < 48; a++ {
		nb := float64(rebBase) * math.Pow(rebExp, float64(a)) * 1.0
		if nb > float64(rebMax) {
			nb = float64(rebMax)
		}
		reb = append(reb, fmt.Sprint(int64(time.Duration(nb))))
	}
	out.Line("cfg look=%d rebimm=%d qto=%d to=%s reb=%s", lookahead, rebImm, int64(q2), strings.Join(to2, ","), strings.Join(reb, ","))

	laggard := rng.Intn(N + 1) // N = nobody lags
	for i := 0; i < N; i++ {
		sp, _ := pt.Get(entries[i].ID)
		nd := &mnode{m: m, idx: i, id: entries[i].ID, pubKey: entries[i].PubKey, sent: map[gpbft.Instant]*gpbft.GMessage{},
			decisions: map[uint64]*gpbft.Justification{}, inputs: map[uint64]*gpbft.ECChain{}, power: sp}
		if i == laggard {
			nd.lag = int64(delta) * int64(1+rng.Intn(6))
		}
		p, err := gpbft.NewParticipant(nd, opts...)
		if err != nil {
			panic(err)
		}
		nd.p = p
		startAt := int64(rng.Intn(int(3*delta) + 1))
		if i == laggard {
			startAt += nd.lag
		}
		if startAt == 0 {
			startAt = 1
		}
		if err := p.StartInstanceAt(0, time.Unix(0, startAt)); err != nil {
			panic(err)
		}
		nd.effects = nd.effects[:0]
		nd.alarm = startAt
		m.mnodes = append(m.mnodes, nd)
	}

	maxEvents := 40000 * m.K
	deadline := int64(time.Duration(3000*m.K) * delta)
	capped := 1
	for steps := 0; steps < maxEvents; steps++ {
		var an *mnode
		for _, nd := range m.mnodes {
			if nd.finished() || nd.alarm == 0 {
				continue
			}
			if an == nil || nd.alarm < an.alarm {
				an = nd
			}
		}
		var evAt int64 = math.MaxInt64
		if m.q.Len() > 0 {
			evAt = m.q[0].at
		}
		if an == nil && m.q.Len() == 0 {
			capped = 0
			break
		}
		if an != nil && an.alarm <= evAt {
			if an.alarm > m.now {
				m.now = an.alarm
			}
			an.alarm = 0
			cur := an.p.Progress().ID
			err := an.p.ReceiveAlarm(ctx)
			an.logOp("A", an.vid(cur), "", err)
		} else {
			e := heap.Pop(&m.q).(*event)
			if e.at > m.now {
				m.now = e.at
			}
			m.mdeliver(m.mnodes[e.to], e.msg)
		}
		if m.now > deadline {
			capped = 0
			break
		}
		all := true
		for _, nd := range m.mnodes {
			if !nd.finished() {
				all = false
			}
		}
		if all {
			capped = 0
			break
		}
	}

	// decisions -> certificates, instance by instance, each validated from the base of its instance
	for _, nd := range m.mnodes {
		for k := uint64(0); k < uint64(m.K); k++ {
			d := nd.decisions[k]
			if d == nil {
				pr := nd.p.Progress()
				out.Line("undecided %d round=%d phase=%d now=%d gst=0", nd.vid(k), pr.Round, pr.Phase, m.now)
				continue
			}
			out.Line("dec %d %s inst=%d supp=%d", nd.vid(k), m.justStr(d), d.Vote.Instance, b2i(d.Vote.SupplementalData.Eq(&m.supp)))
			_, signers, gerr := d.GetSigners(pt)
			verr := errors.New("signers")
			if gerr == nil {
				payload := gpbft.Payload{Instance: k, Round: 0, Phase: gpbft.DECIDE_PHASE, SupplementalData: m.supp, Value: d.Vote.Value}
				verr = m.agg.VerifyAggregate(signers, payload.MarshalForSigning(networkName), d.Signature)
			}
			diff := certs.MakePowerTableDiff(pt.Entries, pt.Entries)
			cert, cerr := certs.NewFinalityCertificate(diff, d)
			res := "ok"
			if cerr != nil {
				res = "newcert:" + sanitize(cerr.Error())
			} else {
				var buf bytes.Buffer
				_ = cert.MarshalCBOR(&buf)
				in := nd.inputs[k]
				var ibase *gpbft.TipSet
				if in != nil {
					ibase = in.Base()
				}
				next, chain, newPt, err := certs.ValidateFinalityCertificates(m.sig, networkName, pt.Entries, k, ibase, cert)
				if err != nil {
					res = "rej:" + sanitize(err.Error())
				} else if next != k+1 || !newPt.Equal(pt.Entries) || len(chain.TipSets) != len(d.Vote.Value.Suffix()) {
					res = "rej:unexpected-result"
				}
			}
			out.Line("cert %d agg=%v %s", nd.vid(k), verr == nil, res)
		}
	}
	out.Line("end %d now=%d gst=0 maxround=0 delta=%d capped=%d gstround=0 decround=0", runNo, m.now, int64(delta), capped)
}
