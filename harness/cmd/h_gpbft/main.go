// h_gpbft drives real gpbft.Participants (C01, C02, C03, C06, C07): N-node networks with a
// budgeted Byzantine adversary and an adversarial scheduler. Every API call on every honest
// participant is logged with what the participant did through its Host (the replay for the Lean
// model of gpbft.go), and every decision is turned into a finality certificate and validated.
package main

import (
	"bytes"
	"container/heap"
	"context"
	"errors"
	"fmt"
	"math"
	"math/big"
	"sort"
	"strings"
	"time"

	"github.com/filecoin-project/go-bitfield"
	"github.com/filecoin-project/go-f3/certs"
	"github.com/filecoin-project/go-f3/gpbft"
	"github.com/filecoin-project/go-f3/internal/verifh/lib/bsig"
	"github.com/filecoin-project/go-f3/internal/verifh/lib/vh"
)

const networkName = gpbft.NetworkName("verif-net")

var ctx = context.Background()

// ---------- tipsets / chains ----------

type universe struct {
	tips map[string]int // key bytes -> id
	byID map[int]*gpbft.TipSet
	next int
	ptC  gpbft.PowerEntries
}

func (u *universe) tip(epoch int64, tag int) *gpbft.TipSet {
	key := []byte(fmt.Sprintf("ts-%d-%d", epoch, tag))
	if id, ok := u.tips[string(key)]; ok {
		return u.byID[id]
	}
	ts := &gpbft.TipSet{Epoch: epoch, Key: key, PowerTable: ptCid}
	u.next++
	u.tips[string(key)] = u.next
	u.byID[u.next] = ts
	return ts
}

func (u *universe) chainStr(c *gpbft.ECChain) string {
	if c.IsZero() {
		return "_"
	}
	parts := make([]string, 0, c.Len())
	for _, ts := range c.TipSets {
		id, ok := u.tips[string(ts.Key)]
		if !ok {
			u.next++
			id = u.next
			u.tips[string(ts.Key)] = id
			u.byID[id] = ts
		}
		parts = append(parts, fmt.Sprint(id))
	}
	return strings.Join(parts, ".")
}

var ptCid = gpbft.MakeCid([]byte("verif-pt"))

// ---------- events ----------

type event struct {
	at   int64 // ns
	seq  int
	to   int // node index
	msg  *gpbft.GMessage
	kind int // 0 deliver, 1 alarm
}
type evq []*event

func (q evq) Len() int { return len(q) }
func (q evq) Less(i, j int) bool {
	return q[i].at < q[j].at || (q[i].at == q[j].at && q[i].seq < q[j].seq)
}
func (q evq) Swap(i, j int)       { q[i], q[j] = q[j], q[i] }
func (q *evq) Push(x interface{}) { *q = append(*q, x.(*event)) }
func (q *evq) Pop() interface{} {
	old := *q
	n := len(old)
	x := old[n-1]
	*q = old[:n-1]
	return x
}

// ---------- network ----------

type net struct {
	rng      *vh.Rng
	out      *vh.Out
	u        *universe
	sig      *bsig.Backend // FakeBackend whose aggregates depend on the complete committee key list (as BLS/BDN)
	table    *gpbft.PowerTable
	agg      gpbft.Aggregate
	supp     gpbft.SupplementalData
	beacon   []byte
	nodes    []*node
	q        evq
	seq      int
	now      int64
	gst      int64 // after this time: no drops, bounded delay, adversary silent
	byzActs  int   // how often the adversary acted in this run
	rawPowers string // the members' storage powers in table order
	delayMax int64
	dropPct  int
	dupPct   int
	// adversary knowledge
	votes     map[string]map[gpbft.ActorID][]byte // payload key -> signer -> sig
	payloads  map[string]gpbft.Payload
	justs     []*gpbft.Justification
	maxRound  uint64
	base      *gpbft.TipSet
	inputs    []*gpbft.ECChain
	alts      []*gpbft.ECChain
	byzSlots  map[string]bool
	commitVal map[uint64]*gpbft.ECChain
	script    bool // single-subject mode: rounds and values of the harness-made messages follow the subject
}

type node struct {
	n        *net
	idx      int
	id       gpbft.ActorID
	pubKey   gpbft.PubKey
	faulty   bool
	input    *gpbft.ECChain
	p        *gpbft.Participant
	effects  []string
	alarm    int64 // 0 = none
	sent     map[gpbft.Instant]*gpbft.GMessage
	decided  *gpbft.Justification
	started  bool
	done     bool
	decRound uint64
}

// --- gpbft.Host ---

func (h *node) GetProposal(_ context.Context, instance uint64) (*gpbft.SupplementalData, *gpbft.ECChain, error) {
	if instance != 0 {
		return nil, nil, errors.New("no proposal beyond instance 0")
	}
	s := h.n.supp
	return &s, h.input, nil
}
func (h *node) GetCommittee(_ context.Context, instance uint64) (*gpbft.Committee, error) {
	if instance != 0 {
		return nil, errors.New("no committee")
	}
	return &gpbft.Committee{PowerTable: h.n.table, Beacon: h.n.beacon, AggregateVerifier: h.n.agg}, nil
}
func (h *node) NetworkName() gpbft.NetworkName { return networkName }
func (h *node) Time() time.Time                { return time.Unix(0, h.n.now) }
func (h *node) SetAlarm(at time.Time) {
	if at.IsZero() {
		h.alarm = 0
		h.effects = append(h.effects, "A,0")
		return
	}
	h.alarm = at.UnixNano()
	h.effects = append(h.effects, fmt.Sprintf("A,%d", h.alarm))
}
func (h *node) Sign(c context.Context, k gpbft.PubKey, m []byte) ([]byte, error) {
	return h.n.sig.Sign(c, k, m)
}
func (h *node) Verify(k gpbft.PubKey, m, s []byte) error { return h.n.sig.Verify(k, m, s) }
func (h *node) Aggregate(keys []gpbft.PubKey) (gpbft.Aggregate, error) {
	return h.n.sig.Aggregate(keys)
}
func (h *node) MarshalPayloadForSigning(nn gpbft.NetworkName, p *gpbft.Payload) []byte {
	return p.MarshalForSigning(nn)
}
func (h *node) RequestBroadcast(mb *gpbft.MessageBuilder) error {
	pl := mb.Payload
	h.effects = append(h.effects, fmt.Sprintf("B,%d,%d,%s,%d,%s", pl.Round, pl.Phase,
		h.n.u.chainStr(pl.Value), b2i(mb.BeaconForTicket != nil), h.n.justStr(mb.Justification)))
	msg, err := mb.Build(ctx, h, h.id)
	if err != nil {
		if errors.Is(err, gpbft.ErrNoPower) {
			return err // a member without scaled power cannot sign; the participant carries on silently
		}
		h.effects = append(h.effects, "X,builderr")
		return err
	}
	inst := gpbft.Instant{ID: msg.Vote.Instance, Round: msg.Vote.Round, Phase: msg.Vote.Phase}
	if _, dup := h.sent[inst]; !dup {
		h.sent[inst] = msg
	} else {
		h.effects = append(h.effects, "X,dupslot")
	}
	// peers must accept what an honest participant emits (C07): checked on delivery (validation
	// failure of an honest message at a peer with the same committee is logged as `badhonest`).
	h.n.observe(msg)
	h.n.broadcast(h.idx, msg, false)
	return nil
}
func (h *node) RequestRebroadcast(instant gpbft.Instant) error {
	h.effects = append(h.effects, fmt.Sprintf("R,%d,%d", instant.Round, instant.Phase))
	if m, ok := h.sent[instant]; ok {
		h.n.broadcast(h.idx, m, true)
	}
	return nil
}
func (h *node) ReceiveDecision(_ context.Context, d *gpbft.Justification) (time.Time, error) {
	h.decided = d
	h.done = true
	h.decRound = h.p.Progress().Round
	h.effects = append(h.effects, "D,"+h.n.justStr(d))
	return time.Unix(0, math.MaxInt64/4), nil
}

func b2i(b bool) int {
	if b {
		return 1
	}
	return 0
}

func (n *net) justStr(j *gpbft.Justification) string {
	if j == nil {
		return "-"
	}
	var idx []string
	_ = j.Signers.ForEach(func(i uint64) error { idx = append(idx, fmt.Sprint(i)); return nil })
	s := strings.Join(idx, "+")
	if s == "" {
		s = "none"
	}
	return fmt.Sprintf("%d/%d/%s/%s", j.Vote.Round, j.Vote.Phase, n.u.chainStr(j.Vote.Value), s)
}

func payloadKey(p *gpbft.Payload) string {
	return string(p.MarshalForSigning(networkName))
}

// observe records everything the adversary can see on the wire.
func (n *net) observe(m *gpbft.GMessage) {
	k := payloadKey(&m.Vote)
	if n.votes[k] == nil {
		n.votes[k] = map[gpbft.ActorID][]byte{}
		n.payloads[k] = m.Vote
	}
	n.votes[k][m.Sender] = m.Signature
	if m.Justification != nil {
		n.justs = append(n.justs, m.Justification)
	}
	if m.Vote.Round > n.maxRound && m.Vote.Round < 1000 {
		n.maxRound = m.Vote.Round
	}
}

func (n *net) push(e *event) {
	n.seq++
	e.seq = n.seq
	heap.Push(&n.q, e)
}

// broadcast schedules delivery of msg from node `from` to every honest node (incl. itself).
func (n *net) broadcast(from int, msg *gpbft.GMessage, _ bool) {
	for _, to := range n.nodes {
		if to.faulty {
			continue
		}
		n.send(from, to.idx, msg)
	}
}

func (n *net) send(from, to int, msg *gpbft.GMessage) {
	d := int64(n.rng.Intn(int(n.delayMax) + 1))
	if from == to {
		d = int64(n.rng.Intn(1000))
	} else if n.now < n.gst {
		if n.rng.Intn(100) < n.dropPct {
			return
		}
		if n.rng.Intn(100) < 15 {
			d *= int64(2 + n.rng.Intn(20)) // long delay
		}
		if n.rng.Intn(100) < n.dupPct {
			n.push(&event{at: n.now + d + int64(n.rng.Intn(int(n.delayMax)+1)), to: to, msg: msg})
		}
	}
	n.push(&event{at: n.now + d, to: to, msg: msg})
}

// ---------- op execution and logging ----------

func errClass(err error) string {
	if err == nil {
		return "ok"
	}
	var pe *gpbft.PanicError
	switch {
	case errors.As(err, &pe):
		return "panic"
	case errors.Is(err, gpbft.ErrValidationWrongBase):
		return "late:wrongBase"
	case errors.Is(err, gpbft.ErrValidationWrongSupplement):
		return "late:wrongSupp"
	case errors.Is(err, gpbft.ErrReceivedInternalError):
		return "err:internal"
	default:
		return "err:other"
	}
}

func (h *node) logOp(kind string, detail string, err error) {
	pr := h.p.Progress()
	ph := int(pr.Phase)
	id := pr.ID
	eff := strings.Join(h.effects, " ")
	if eff == "" {
		eff = "-"
	}
	h.effects = h.effects[:0]
	es := errClass(err)
	if es != "ok" && !strings.HasPrefix(es, "late:") && err != nil {
		es += ":" + sanitize(err.Error())
	}
	h.n.out.Line("o %d %s %d %s| %s | %d,%d,%d | %s", h.id, kind, h.n.now, detail, eff, id, pr.Round, ph, es)
}

func sanitize(s string) string {
	s = strings.ReplaceAll(s, " ", "_")
	s = strings.ReplaceAll(s, "|", "/")
	if len(s) > 120 {
		s = s[:120]
	}
	return s
}

func (n *net) msgStr(m *gpbft.GMessage, recipientPower int64) string {
	rank := uint64(0)
	if m.Vote.Phase == gpbft.CONVERGE_PHASE {
		pw, _ := n.table.Get(m.Sender)
		r := gpbft.ComputeTicketRank(m.Ticket, pw)
		rank = math.Float64bits(r)
	}
	suppOk := m.Vote.SupplementalData.Eq(&n.supp)
	return fmt.Sprintf("%d,%d,%d,%s,%d,%s,%d", m.Sender, m.Vote.Round, m.Vote.Phase, n.u.chainStr(m.Vote.Value),
		rank, n.justStr(m.Justification), b2i(suppOk))
}

func (n *net) deliver(to *node, m *gpbft.GMessage) {
	if to.done || !to.started {
		// before start the participant queues; single-instance runs start every node at t=0 so this is
		// only reachable after the decision: nothing to deliver.
		if to.done {
			return
		}
	}
	vm, err := to.p.ValidateMessage(ctx, m)
	if err != nil {
		// honest messages must be acceptable to peers unless no longer relevant
		if !n.isByz(m.Sender) && errors.Is(err, gpbft.ErrValidationInvalid) {
			n.out.Line("badhonest %d from=%d %d,%d %s", to.id, m.Sender, m.Vote.Round, m.Vote.Phase, sanitize(err.Error()))
		}
		return
	}
	err = to.p.ReceiveMessage(ctx, vm)
	to.logOp("M", n.msgStr(m, 0)+" ", err)
}

func (n *net) isByz(id gpbft.ActorID) bool {
	for _, x := range n.nodes {
		if x.id == id {
			return x.faulty
		}
	}
	return true
}

// ---------- adversary ----------

func (n *net) byzMembers() []*node {
	var r []*node
	for _, x := range n.nodes {
		if x.faulty {
			r = append(r, x)
		}
	}
	return r
}

// tryJust builds a justification for payload p from observed votes plus Byzantine signatures.
func (n *net) tryJust(p gpbft.Payload) *gpbft.Justification {
	k := payloadKey(&p)
	sigs := map[gpbft.ActorID][]byte{}
	for id, s := range n.votes[k] {
		sigs[id] = s
	}
	bytesToSign := p.MarshalForSigning(networkName)
	for _, b := range n.byzMembers() {
		s, _ := n.sig.Sign(ctx, b.pubKey, bytesToSign)
		sigs[b.id] = s
	}
	var idxs []int
	for id := range sigs {
		idxs = append(idxs, n.table.Lookup[id])
	}
	sort.Ints(idxs)
	// random subset that is still strong: drop some signers while strong
	var pw int64
	for _, i := range idxs {
		pw += n.table.ScaledPower[i]
	}
	if !gpbft.IsStrongQuorum(pw, n.table.ScaledTotal) {
		return nil
	}
	for tries := 0; tries < 3 && len(idxs) > 1; tries++ {
		j := n.rng.Intn(len(idxs))
		if gpbft.IsStrongQuorum(pw-n.table.ScaledPower[idxs[j]], n.table.ScaledTotal) {
			pw -= n.table.ScaledPower[idxs[j]]
			idxs = append(idxs[:j:j], idxs[j+1:]...)
		}
	}
	var sg [][]byte
	var bits []uint64
	for _, i := range idxs {
		sg = append(sg, sigs[n.table.Entries[i].ID])
		bits = append(bits, uint64(i))
	}
	aggSig, err := n.agg.Aggregate(idxs, sg)
	if err != nil {
		return nil
	}
	return &gpbft.Justification{Vote: p, Signers: bitfield.NewFromSet(bits), Signature: aggSig}
}

func (n *net) randomValue() *gpbft.ECChain {
	if n.rng.Intn(9) == 0 {
		// an honest input with interior tipsets left out: same base, same head, another chain (an ECChain only
		// needs increasing epochs) — whatever identifies a chain must cover its whole content
		c := n.inputs[n.rng.Intn(len(n.inputs))]
		if c.Len() >= 3 && c.Len() <= gpbft.ChainMaxLen {
			ts := []*gpbft.TipSet{}
			for i, t := range c.TipSets {
				if i == 0 || i == c.Len()-1 || n.rng.Intn(2) == 0 {
					ts = append(ts, t)
				}
			}
			if len(ts) < c.Len() {
				if sc, err := gpbft.NewChain(ts[0], ts[1:]...); err == nil {
					return sc
				}
			}
		}
	}
	if n.script && n.rng.Intn(12) == 0 {
		return n.alts[len(n.alts)-1] // the foreign-base chain (late-binding rejection, also from the queue)
	}
	if n.script && n.rng.Intn(2) == 0 {
		// few distinct values so that quorums form: whole forks and their short prefixes
		c := n.alts[n.rng.Intn(len(n.alts))]
		if n.rng.Intn(2) == 0 {
			return c
		}
		return c.Prefix(n.rng.Intn(c.Len()))
	}
	switch n.rng.Intn(10) {
	case 0:
		return n.inputs[0].BaseChain()
	case 1, 2:
		c := n.alts[n.rng.Intn(len(n.alts))]
		return c.Prefix(n.rng.Intn(c.Len()))
	default:
		c := n.inputs[n.rng.Intn(len(n.inputs))]
		return c.Prefix(n.rng.Intn(c.Len()))
	}
}

func (n *net) byzAct() {
	byz := n.byzMembers()
	if len(byz) == 0 {
		return
	}
	n.byzActs++
	b := byz[n.rng.Intn(len(byz))]
	round := n.maxRound
	if n.script {
		for _, x := range n.nodes {
			if !x.faulty && x.p != nil {
				round = x.p.Progress().Round
			}
		}
		if n.rng.Intn(3) == 0 {
			round += uint64(1 + n.rng.Intn(2))
		}
	}
	if n.rng.Intn(4) == 0 && round > 0 {
		round--
	}
	if n.rng.Intn(6) == 0 {
		round++
	}
	phase := []gpbft.Phase{gpbft.QUALITY_PHASE, gpbft.CONVERGE_PHASE, gpbft.PREPARE_PHASE, gpbft.PREPARE_PHASE,
		gpbft.COMMIT_PHASE, gpbft.COMMIT_PHASE, gpbft.DECIDE_PHASE}[n.rng.Intn(7)]
	nvals := 1 + n.rng.Intn(2) // equivocate with up to two values for the slot
	for v := 0; v < nvals; v++ {
		val := n.randomValue()
		supp := n.supp
		if n.rng.Intn(40) == 0 {
			supp.Commitments[0] ^= 1 // foreign supplemental data
		}
		p := gpbft.Payload{Instance: 0, Round: round, Phase: phase, SupplementalData: supp, Value: val}
		var just *gpbft.Justification
		switch phase {
		case gpbft.QUALITY_PHASE:
			p.Round = 0
		case gpbft.DECIDE_PHASE:
			p.Round = 0
			// needs COMMIT quorum for val in some round
			for r := int(n.maxRound); r >= 0 && just == nil; r-- {
				just = n.tryJust(gpbft.Payload{Instance: 0, Round: uint64(r), Phase: gpbft.COMMIT_PHASE, SupplementalData: n.supp, Value: val})
			}
			if just == nil {
				continue
			}
		case gpbft.COMMIT_PHASE:
			if n.rng.Intn(2) == 0 {
				p.Value = &gpbft.ECChain{}
			} else {
				if n.script {
					// at most one non-bottom COMMIT value per round, as under any < 1/3 adversary: which of several
					// the code adopts at the end of COMMIT is Go map order (ListAllValues), a documented choice point
					if v0, ok := n.commitVal[round]; ok {
						val = v0
						p.Value = v0
					} else {
						n.commitVal[round] = val
					}
				}
				just = n.tryJust(gpbft.Payload{Instance: 0, Round: round, Phase: gpbft.PREPARE_PHASE, SupplementalData: n.supp, Value: val})
				if just == nil {
					p.Value = &gpbft.ECChain{}
				}
			}
		case gpbft.PREPARE_PHASE, gpbft.CONVERGE_PHASE:
			if phase == gpbft.PREPARE_PHASE && n.rng.Intn(8) == 0 {
				// validation has no value rule for PREPARE: a PREPARE for bottom is admitted
				p.Value = &gpbft.ECChain{}
				val = p.Value
			}
			if round == 0 {
				if phase == gpbft.CONVERGE_PHASE {
					continue
				}
			} else {
				just = n.tryJust(gpbft.Payload{Instance: 0, Round: round - 1, Phase: gpbft.PREPARE_PHASE, SupplementalData: n.supp, Value: val})
				if just == nil || n.rng.Intn(2) == 0 {
					if j2 := n.tryJust(gpbft.Payload{Instance: 0, Round: round - 1, Phase: gpbft.COMMIT_PHASE, SupplementalData: n.supp, Value: &gpbft.ECChain{}}); j2 != nil {
						just = j2
					}
				}
				if just == nil {
					continue
				}
			}
		}
		mb := &gpbft.MessageBuilder{NetworkName: networkName, PowerTable: n.table, Payload: p, Justification: just}
		if phase == gpbft.CONVERGE_PHASE {
			mb.BeaconForTicket = n.beacon
		}
		senders := []*node{b}
		if n.script && n.rng.Intn(2) == 0 {
			// a burst: the same vote from several members, so that weak and strong quorums form quickly
			for _, x := range byz {
				if x != b && n.rng.Intn(3) != 0 {
					senders = append(senders, x)
				}
			}
		}
		for _, sb := range senders {
			msg, err := mb.Build(ctx, n.sig, sb.id)
			if err != nil {
				continue
			}
			n.observe(msg)
			// selective delivery
			for _, to := range n.nodes {
				if to.faulty || n.rng.Intn(3) == 0 {
					continue
				}
				n.push(&event{at: n.now + int64(n.rng.Intn(int(n.delayMax)+1)), to: to.idx, msg: msg})
			}
		}
	}
	// replay an old observed justification inside a fresh COMMIT-bottom style message is covered above;
	// also replay a random honest message to a random node (duplicate delivery)
}

// ---------- one run ----------

func runOnce(out *vh.Out, rng *vh.Rng, runNo int, mode string) {
	n := &net{rng: rng, out: out, sig: bsig.New(), votes: map[string]map[gpbft.ActorID][]byte{},
		payloads: map[string]gpbft.Payload{}, byzSlots: map[string]bool{}, commitVal: map[uint64]*gpbft.ECChain{}}
	n.u = &universe{tips: map[string]int{}, byID: map[int]*gpbft.TipSet{}}
	N := 3 + rng.Intn(5)
	if mode == "sync" {
		N = 2 + rng.Intn(6)
	}
	// power distribution
	style := rng.Intn(5)
	if style == 4 {
		// quorum-boundary tables: three equal members and dust, scaled total not divisible by 3, so that two
		// big members weigh exactly floor(2T/3) (one short of a strong quorum) and one big member is < 1/3
		N = 4 + rng.Intn(2)
	}
	entries := make(gpbft.PowerEntries, N)
	for i := 0; i < N; i++ {
		var pw int64
		switch style {
		case 4:
			if i < 3 {
				pw = 21844
			} else {
				pw = 1
			}
		case 0:
			pw = 100
		case 1:
			pw = int64(1 + rng.Intn(1000))
		case 2: // skewed
			pw = int64(1) << uint(rng.Intn(12))
		default: // dust members
			if rng.Intn(3) == 0 {
				pw = 1
			} else {
				pw = int64(100000 + rng.Intn(100000))
			}
		}
		pub, _ := n.sig.GenerateKey()
		bp := big.NewInt(pw)
		if runNo%4 == 3 && style != 4 {
			// storage power of realistic magnitude (bytes: TiB .. EiB per member; 65535*power beyond int64 while the
			// total may still fit); derived from the run number so that the random stream of the run is unchanged
			bp.Lsh(bp, uint(33+(runNo*7)%16))
		}
		entries[i] = gpbft.PowerEntry{ID: gpbft.ActorID(100 + i), Power: gpbft.StoragePower{Int: bp}, PubKey: pub}
	}
	pt := gpbft.NewPowerTable()
	if err := pt.Add(entries...); err != nil {
		panic(err)
	}
	n.table = pt
	{
		raw := make([]string, len(pt.Entries))
		for i, e := range pt.Entries {
			raw[i] = e.Power.String()
		}
		n.rawPowers = strings.Join(raw, ",")
	}
	keys := pt.Entries.PublicKeys()
	agg, err := n.sig.Aggregate(keys)
	if err != nil {
		panic(err)
	}
	n.agg = agg
	n.beacon = []byte(fmt.Sprintf("beacon-%d", runNo))
	nextTable := pt.Entries
	nextCid, err := certs.MakePowerTableCID(nextTable)
	if err != nil {
		panic(err)
	}
	n.supp = gpbft.SupplementalData{PowerTable: nextCid}
	// non-zero commitments: the decision's aggregate covers them, so a certificate that loses them does not verify
	for i := range n.supp.Commitments {
		n.supp.Commitments[i] = byte(rng.Intn(256))
	}

	// faulty set: strictly less than a third of scaled power (async/byz mode only)
	faulty := map[int]bool{}
	if mode != "sync" {
		order := make([]int, N)
		for i := range order {
			order[i] = i
		}
		for i := N - 1; i > 0; i-- {
			j := rng.Intn(i + 1)
			order[i], order[j] = order[j], order[i]
		}
		var fp int64
		for _, i := range order {
			id := entries[i].ID
			sp, _ := pt.Get(id)
			if 3*(fp+sp) < pt.ScaledTotal && rng.Intn(3) != 0 {
				faulty[i] = true
				fp += sp
			}
		}
	}

	if mode == "script" {
		// single subject: every other member is driven by the harness (which holds all keys), so any
		// sequence of *validated* messages can reach the subject — also ones no < 1/3 adversary could
		// produce. Only the per-participant properties (C03, C07) and the model correspondence are judged.
		subject := rng.Intn(N)
		for i := 0; i < N; i++ {
			if i != subject {
				faulty[i] = true
			} else {
				delete(faulty, i)
			}
		}
	}

	// chains: a tree over a common base
	baseEpoch := int64(10 + rng.Intn(100))
	n.base = n.u.tip(baseEpoch, 0)
	mk := func(tags []int) *gpbft.ECChain {
		ts := []*gpbft.TipSet{}
		for i, t := range tags {
			ts = append(ts, n.u.tip(baseEpoch+int64(i)+1, t))
		}
		if len(ts) >= gpbft.ChainMaxLen {
			return &gpbft.ECChain{TipSets: append([]*gpbft.TipSet{n.base}, ts...)} // over-long on purpose
		}
		c, err := gpbft.NewChain(n.base, ts...)
		if err != nil {
			panic(err)
		}
		return c
	}
	L := 1 + rng.Intn(5)
	if mode != "script" && N <= 4 && rng.Intn(12) == 0 {
		// EC hands over more than the protocol maximum (128 tipsets incl. the base): the participant must cut
		// the proposal, not refuse to begin
		L = 125 + rng.Intn(12)
	}
	main := make([]int, L)
	for i := range main {
		main[i] = 0
	}
	nForks := 1 + rng.Intn(3)
	variants := [][]int{main}
	for f := 1; f <= nForks; f++ {
		fp := rng.Intn(L + 1)
		fl := fp + rng.Intn(4)
		v := make([]int, fl)
		for i := range v {
			if i < fp {
				v[i] = 0
			} else {
				v[i] = f
			}
		}
		variants = append(variants, v)
	}
	unanimous := mode == "sync" || rng.Intn(4) == 0
	n.alts = []*gpbft.ECChain{}
	for _, v := range variants {
		n.alts = append(n.alts, mk(v))
	}
	// a foreign-base chain for wrong-base injections
	fb := &gpbft.TipSet{Epoch: baseEpoch, Key: []byte("foreign-base"), PowerTable: ptCid}
	fc, _ := gpbft.NewChain(fb, &gpbft.TipSet{Epoch: baseEpoch + 1, Key: []byte("foreign-1"), PowerTable: ptCid})
	n.alts = append(n.alts, fc)

	delta := time.Duration(20+rng.Intn(200)) * time.Millisecond
	exps := []float64{1.0, 1.3, 2.0}
	exp := exps[rng.Intn(3)]
	qmulti := []float64{1.0, 1.5, 2.0}[rng.Intn(3)]
	lookahead := uint64(rng.Intn(6))
	rebImm := uint64(rng.Intn(5))
	rebBase := time.Duration(10+rng.Intn(300)) * time.Millisecond
	rebMax := rebBase * time.Duration(1+rng.Intn(8))
	rebExp := []float64{1.0, 1.3, 2.0}[rng.Intn(3)]
	opts := []gpbft.Option{gpbft.WithDelta(delta), gpbft.WithDeltaBackOffExponent(exp), gpbft.WithQualityDeltaMultiplier(qmulti),
		gpbft.WithMaxLookaheadRounds(lookahead), gpbft.WithRebroadcastImmediatelyAfterRound(rebImm),
		gpbft.WithRebroadcastBackoff(rebExp, 0, rebBase, rebMax)}

	n.delayMax = int64(delta) * int64(1+rng.Intn(3)) / 2
	n.dropPct = []int{0, 0, 5, 20, 40}[rng.Intn(5)]
	n.dupPct = []int{0, 5, 20}[rng.Intn(3)]
	if mode == "sync" {
		n.delayMax = int64(delta) / 2
		n.dropPct, n.dupPct = 0, 0
		n.gst = 0
	} else if mode == "live" {
		n.dropPct = 0
		n.gst = int64(time.Duration(rng.Intn(40)) * delta)
	} else {
		n.gst = int64(time.Duration(rng.Intn(40)) * delta)
	}
	if mode == "script" {
		n.gst = math.MaxInt64 / 2
		n.script = true
	}

	out.Line("run %d mode=%s N=%d style=%d unanimous=%v", runNo, mode, N, style, unanimous)
	var tb []string
	for i, e := range pt.Entries {
		tb = append(tb, fmt.Sprintf("%d:%d", e.ID, pt.ScaledPower[i]))
	}
	out.Line("tbl %s", strings.Join(tb, ","))
	out.Line("pow %s", n.rawPowers)
	var to2, reb []string
	for r := 0; r < 48; r++ {
		d := time.Duration(float64(delta) * 1 * math.Pow(exp, float64(r)))
		to2 = append(to2, fmt.Sprint(int64(2*d)))
	}
	q2 := 2 * time.Duration(float64(delta)*qmulti*math.Pow(exp, 0))
	for a := 0; a < 48; a++ {
		nb := float64(rebBase) * math.Pow(rebExp, float64(a)) * 1.0
		if nb > float64(rebMax) {
			nb = float64(rebMax)
		}
		reb = append(reb, fmt.Sprint(int64(time.Duration(nb))))
	}
	out.Line("cfg look=%d rebimm=%d qto=%d to=%s reb=%s", lookahead, rebImm, int64(q2), strings.Join(to2, ","), strings.Join(reb, ","))

	for i := 0; i < N; i++ {
		nd := &node{n: n, idx: i, id: entries[i].ID, pubKey: entries[i].PubKey, faulty: faulty[i], sent: map[gpbft.Instant]*gpbft.GMessage{}}
		if unanimous {
			nd.input = n.alts[0]
		} else {
			nd.input = n.alts[rng.Intn(len(variants))]
		}
		n.nodes = append(n.nodes, nd)
		if !nd.faulty {
			n.inputs = append(n.inputs, nd.input)
		}
	}
	if len(n.inputs) == 0 {
		n.inputs = append(n.inputs, n.alts[0])
	}
	for _, nd := range n.nodes {
		sp, _ := pt.Get(nd.id)
		out.Line("node %d input=%s faulty=%d power=%d", nd.id, n.u.chainStr(nd.input), b2i(nd.faulty), sp)
		if nd.faulty {
			continue
		}
		p, err := gpbft.NewParticipant(nd, opts...)
		if err != nil {
			panic(err)
		}
		nd.p = p
		// staggered starts
		startAt := int64(0)
		if mode != "sync" {
			startAt = int64(rng.Intn(int(3*delta) + 1))
		}
		if err := p.StartInstanceAt(0, time.Unix(0, startAt)); err != nil {
			panic(err)
		}
		nd.effects = nd.effects[:0]
		nd.alarm = startAt
		if startAt == 0 {
			nd.alarm = 1
		}
	}

	maxEvents := 6000
	if vh.Thorough() {
		maxEvents = 20000
	}
	if mode == "script" {
		maxEvents = 1500
	} else if mode != "byz" {
		maxEvents *= 20 // liveness runs are only cut by the time deadline or the round bound
	}
	capped := 1
	gstRound := int64(-1)
	deadline := int64(time.Duration(4000) * delta)
	nextByz := int64(0)
	for steps := 0; steps < maxEvents; steps++ {
		// next alarm among nodes vs. next event
		var an *node
		for _, nd := range n.nodes {
			if nd.faulty || nd.done || nd.alarm == 0 {
				continue
			}
			if an == nil || nd.alarm < an.alarm {
				an = nd
			}
		}
		var evAt int64 = math.MaxInt64
		if n.q.Len() > 0 {
			evAt = n.q[0].at
		}
		// adversary acts before GST
		if len(faulty) > 0 && n.now < n.gst && nextByz <= n.now {
			n.byzAct()
			nextByz = n.now + int64(rng.Intn(int(delta)+1))
			continue
		}
		if an == nil && n.q.Len() == 0 {
			capped = 0
			break
		}
		if gstRound < 0 && n.now >= n.gst {
			gstRound = int64(n.maxRound)
		}
		if gstRound >= 0 && int64(n.maxRound) > gstRound+45 {
			capped = 0 // ran past the round bound: report as is
			break
		}
		if n.script && n.maxRound > 30 {
			capped = 0
			break
		}
		if an != nil && an.alarm <= evAt {
			// alarms may fire late
			at := an.alarm
			if n.now < n.gst && rng.Intn(4) == 0 {
				at += int64(rng.Intn(int(delta)))
			}
			if at > n.now {
				n.now = at
			}
			an.alarm = 0
			an.started = true
			err := an.p.ReceiveAlarm(ctx)
			an.logOp("A", "", err)
		} else {
			e := heap.Pop(&n.q).(*event)
			if e.at > n.now {
				n.now = e.at
			}
			n.deliver(n.nodes[e.to], e.msg)
		}
		if n.now > deadline {
			capped = 0
			break
		}
		allDone := true
		for _, nd := range n.nodes {
			if !nd.faulty && !nd.done {
				allDone = false
			}
		}
		if allDone {
			capped = 0
			break
		}
	}

	// decisions -> certificates (C03)
	for _, nd := range n.nodes {
		if nd.faulty {
			continue
		}
		pr := nd.p.Progress()
		if nd.decided == nil {
			out.Line("undecided %d round=%d phase=%d now=%d gst=%d", nd.id, pr.Round, pr.Phase, n.now, n.gst)
			continue
		}
		d := nd.decided
		out.Line("dec %d %s inst=%d supp=%d", nd.id, n.justStr(d), d.Vote.Instance, b2i(d.Vote.SupplementalData.Eq(&n.supp)))
		// aggregate verifies over exactly the decided value?
		_, signers, gerr := d.GetSigners(pt)
		verr := errors.New("signers")
		if gerr == nil {
			payload := gpbft.Payload{Instance: 0, Round: 0, Phase: gpbft.DECIDE_PHASE, SupplementalData: n.supp, Value: d.Vote.Value}
			verr = n.agg.VerifyAggregate(signers, payload.MarshalForSigning(networkName), d.Signature)
		}
		// certificate path
		diff := certs.MakePowerTableDiff(pt.Entries, nextTable)
		cert, cerr := certs.NewFinalityCertificate(diff, d)
		res := "ok"
		if cerr != nil {
			res = "newcert:" + sanitize(cerr.Error())
		} else {
			var buf bytes.Buffer
			_ = cert.MarshalCBOR(&buf)
			next, chain, newPt, err := certs.ValidateFinalityCertificates(n.sig, networkName, pt.Entries, 0, n.base, cert)
			if err != nil {
				res = "rej:" + sanitize(err.Error())
			} else if next != 1 || !newPt.Equal(nextTable) || len(chain.TipSets) != len(d.Vote.Value.Suffix()) {
				res = "rej:unexpected-result"
			} else {
				for i, ts := range d.Vote.Value.Suffix() {
					if !ts.Equal(chain.TipSets[i]) {
						res = "rej:unexpected-chain"
					}
				}
			}
		}
		out.Line("cert %d agg=%v %s", nd.id, verr == nil, res)
	}
	var decRound uint64
	for _, nd := range n.nodes {
		if !nd.faulty && nd.decRound > decRound {
			decRound = nd.decRound
		}
	}
	out.Line("end %d now=%d gst=%d maxround=%d delta=%d capped=%d gstround=%d decround=%d byz=%d", runNo, n.now, n.gst, n.maxRound, int64(delta), capped, gstRound, decRound, n.byzActs)
}

func main() {
	out := vh.NewOut()
	defer out.Flush()
	rng := vh.NewRng(vh.Seed())
	runs := vh.EnvInt("VERIF_RUNS", 60)
	if vh.Thorough() {
		runs = vh.EnvInt("VERIF_RUNS", 1200)
	}
	only := vh.EnvInt("VERIF_ONLY_RUN", -1) // replay of a single run of the stream (runs are forked from the seed by index)
	for r := 0; r < runs; r++ {
		if only >= 0 && r != only {
			rng.Fork(uint64(r)) // keep the stream position: each run's generator is forked from the running state
			continue
		}
		mode := "byz"
		if r%5 == 4 {
			mode = "sync"
		} else if r%5 == 2 {
			mode = "live"
		} else if r%5 == 3 {
			mode = "script"
		} else if r%10 == 1 {
			runMulti(out, rng.Fork(uint64(r)), r)
			continue
		}
		runOnce(out, rng.Fork(uint64(r)), r, mode)
	}
}
