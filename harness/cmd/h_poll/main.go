// h_poll drives the real certificate-polling code (C20):
//
//	pupd  — the real predictor.update on reachable and arbitrary states;
//	poll  — one real Subscriber.poll against fake peers (honest / lagging / dead / evil / flaky /
//	        empty-claim servers on a libp2p mocknet) with the value it returns;
//	round — the real Subscriber.run loop on a mock clock: every timer firing is one line with the
//	        subscriber's position before/after, the time its requests took and the delay it armed;
//	loop  — per-scenario cadence summary (rounds and requests per produced certificate).
package main

import (
	"bufio"
	"context"
	"fmt"
	"math"
	"os"
	"strings"
	"sync"
	"time"

	"github.com/filecoin-project/go-f3/certexchange"
	"github.com/filecoin-project/go-f3/certexchange/polling"
	"github.com/filecoin-project/go-f3/certs"
	"github.com/filecoin-project/go-f3/certstore"
	"github.com/filecoin-project/go-f3/gpbft"
	"github.com/filecoin-project/go-f3/internal/clock"
	"github.com/filecoin-project/go-f3/internal/verifh/lib/vh"
	"github.com/filecoin-project/go-f3/sim"
	"github.com/filecoin-project/go-f3/sim/signing"
	"github.com/ipfs/go-datastore"
	ds_sync "github.com/ipfs/go-datastore/sync"
	logging "github.com/ipfs/go-log/v2"
	"github.com/libp2p/go-libp2p/core/host"
	"github.com/libp2p/go-libp2p/core/network"
	"github.com/libp2p/go-libp2p/core/protocol"
	mocknetwork "github.com/libp2p/go-libp2p/p2p/net/mock"
)

const nn gpbft.NetworkName = "verif"

// ---------------------------------------------------------------------------------------------
// predictor stream

func dur(r *vh.Rng, lo, hi int64) int64 {
	if hi <= lo {
		return lo
	}
	return lo + int64(r.U64()%uint64(hi-lo+1))
}

func b2i(b bool) int {
	if b {
		return 1
	}
	return 0
}

func predLine(out *vh.Out, p *polling.VerifPredictor, progress uint64, kind string) {
	mn, mx := p.Bounds()
	b, e, i, w := p.State()
	res := "ok"
	var next time.Duration
	func() {
		defer func() {
			if r := recover(); r != nil {
				res = "panic"
			}
		}()
		next = p.Update(progress)
	}()
	b2, e2, i2, w2 := p.State()
	out.Line("pupd %d %d %d %d %d %d %d %d %d %d %d %d %s %s", int64(mn), int64(mx), int64(b), int64(e), int64(i), b2i(w),
		progress, int64(next), int64(b2), int64(e2), int64(i2), b2i(w2), kind, res)
}

func genProgress(r *vh.Rng) uint64 {
	switch r.Intn(20) {
	case 0, 1, 2, 3, 4, 5:
		return 0
	case 6, 7, 8, 9, 10, 11:
		return 1
	case 12, 13, 14:
		return 2
	case 15, 16:
		return 3 + uint64(r.Intn(6))
	case 17:
		return 3 + uint64(r.Intn(2000))
	case 18:
		return r.U64() // anything, including values that wrap to negative durations
	default:
		return math.MaxUint64 - uint64(r.Intn(4))
	}
}

func predictorStream(out *vh.Out, r *vh.Rng, thorough bool) {
	seqs, wild := 300, 6000
	if thorough {
		seqs, wild = 6000, 200000
	}
	settings := [][3]int64{
		{int64(time.Millisecond), int64(100 * time.Millisecond), int64(time.Second)},
		{int64(time.Second), int64(30 * time.Second), int64(120 * time.Second)},
		{int64(100 * time.Millisecond), int64(time.Second), int64(10 * time.Second)},
		{1, 1, 1}, {100, 150, 200}, {99, 100, 101},
	}
	for s := 0; s < seqs; s++ {
		var mn, in, mx int64
		if s < len(settings)*4 {
			st := settings[s%len(settings)]
			mn, in, mx = st[0], st[1], st[2]
		} else {
			mn = dur(r, 1, int64(10*time.Second))
			mx = mn + dur(r, 0, int64(10*time.Minute))
			in = dur(r, mn, mx)
		}
		p := polling.VerifNewPredictor(time.Duration(mn), time.Duration(in), time.Duration(mx))
		n := 20 + r.Intn(80)
		// phases: runs of equal progress are what make the predictor explore / back off
		for k := 0; k < n; {
			pr := genProgress(r)
			run := 1 + r.Intn(6)
			for j := 0; j < run && k < n; j, k = j+1, k+1 {
				predLine(out, p, pr, "reach")
			}
		}
	}
	// arbitrary states: inside the invariant mostly, a malformed share outside (min > max, negative
	// values, huge values) — the driver then only compares with the regenerated definition.
	for s := 0; s < wild; s++ {
		var mn, mx, b, e, i int64
		kind := "wild"
		if r.Chance(3, 4) {
			mn = dur(r, 1, int64(time.Minute))
			mx = mn + dur(r, 0, int64(time.Hour))
			i = dur(r, mn, mx)
			e = dur(r, 0, mx/2)
			if r.Chance(1, 3) {
				b = dur(r, mn, 10*mx)
			}
			if r.Chance(1, 8) { // small values: integer-division corners
				mn = dur(r, 1, 300)
				mx = mn + dur(r, 0, 300)
				i = dur(r, mn, mx)
				e = dur(r, 0, mx/2)
				b = 0
				if r.Chance(1, 3) {
					b = dur(r, mn, 10*mx)
				}
			}
			kind = "inv"
		} else {
			pick := func() int64 {
				switch r.Intn(5) {
				case 0:
					return -dur(r, 0, int64(time.Hour))
				case 1:
					return dur(r, 0, 1000)
				case 2:
					return int64(r.U64() >> 6) // up to 2^58
				default:
					return dur(r, 0, int64(time.Hour))
				}
			}
			mn, mx, b, e, i = pick(), pick(), pick(), pick(), pick()
		}
		p := polling.VerifNewPredictor(time.Duration(mn), time.Duration(i), time.Duration(mx))
		p.SetState(time.Duration(b), time.Duration(e), time.Duration(i), r.Bool())
		predLine(out, p, genProgress(r), kind)
	}
}

// ---------------------------------------------------------------------------------------------
// world: one certificate chain shared by all scenarios

type world struct {
	backend *signing.FakeBackend
	pt      gpbft.PowerEntries
	chain   []*certs.FinalityCertificate
	forged  map[uint64]*certs.FinalityCertificate
}

func newWorld(r *vh.Rng, n int) *world {
	w := &world{backend: signing.NewFakeBackend(), forged: map[uint64]*certs.FinalityCertificate{}}
	w.pt = make(gpbft.PowerEntries, 7)
	for i := range w.pt {
		key, _ := w.backend.GenerateKey()
		w.pt[i] = gpbft.PowerEntry{ID: gpbft.ActorID(i + 1), Power: gpbft.NewStoragePower(int64(20 - i)), PubKey: key}
	}
	ptCid, err := certs.MakePowerTableCID(w.pt)
	must(err)
	tsg := sim.NewTipSetGenerator(r.U64() | 1)
	base := &gpbft.TipSet{Epoch: 0, Key: tsg.Sample(), PowerTable: ptCid}
	for i := 0; i < n; i++ {
		chain, err := gpbft.NewChain(base)
		must(err)
		for k := 1 + r.Intn(3); k > 0; k-- {
			chain = chain.Extend(tsg.Sample())
		}
		j, err := sim.MakeJustification(w.backend, nn, chain, uint64(i), w.pt, w.pt)
		must(err)
		c, err := certs.NewFinalityCertificate(certs.MakePowerTableDiff(w.pt, w.pt), j)
		must(err)
		w.chain = append(w.chain, c)
		base = chain.Head()
	}
	return w
}

// forgedCert is the genuine certificate of the instance with a corrupted aggregate signature.
func (w *world) forgedCert(i uint64) *certs.FinalityCertificate {
	if f, ok := w.forged[i]; ok {
		return f
	}
	if i >= uint64(len(w.chain)) {
		i = uint64(len(w.chain)) - 1
	}
	c := *w.chain[i]
	c.Signature = append([]byte{}, c.Signature...)
	c.Signature[0] ^= 0x55
	w.forged[i] = &c
	return &c
}

func must(err error) {
	if err != nil {
		panic(err)
	}
}

// ---------------------------------------------------------------------------------------------
// environment of one scenario

type srvKind int

const (
	kHonest srvKind = iota
	kLagging
	kStuck // stops receiving certificates after a while
	kDead  // resets every stream
	kFlaky // resets some streams
	kEvil  // answers with a certificate whose signature does not verify
	kEmpty // claims to have more, sends nothing
)

var kindNames = []string{"honest", "lagging", "stuck", "dead", "flaky", "evil", "empty"}

type server struct {
	kind       srvKind
	lag        int64 // ns after production at which this server has a certificate
	stuckAt    int64 // kStuck: no certificates produced after this time
	latLo      int64
	latHi      int64
	host       host.Host
	store      *certstore.Store
	synced     int // index into env.prod of the next event not yet applied
	real       network.StreamHandler
	reqs       int
	flakyEvery int
}

type prodEvent struct {
	t     int64 // ns on the mock clock
	inst  uint64
	local bool // the node's own GPBFT finishes this instance at t (if it is not behind)
}

type env struct {
	w       *world
	ctx     context.Context
	clk     *clock.Mock
	gate    sync.RWMutex
	mn      mocknetwork.Mocknet
	servers []*server
	client  *certstore.Store
	cliHost host.Host
	prod    []prodEvent
	rng     *vh.Rng

	localIdx     int
	reqs         int
	localInPoll  int // local puts that happened while requests were in flight (this round)
	localLastReq int // ... during the most recent request
}

type capHost struct {
	host.Host
	h network.StreamHandler
}

func (c *capHost) SetStreamHandler(_ protocol.ID, h network.StreamHandler) { c.h = h }

func storeNext(cs *certstore.Store) uint64 {
	if l := cs.Latest(); l != nil {
		return l.GPBFTInstance + 1
	}
	return 0
}

func (e *env) now() int64 { return e.clk.Now().UnixNano() }

// applyLocal gives the client's store the certificates its own GPBFT finished by `now`.
func (e *env) applyLocal(now int64) int {
	n := 0
	for e.localIdx < len(e.prod) && e.prod[e.localIdx].t <= now {
		ev := e.prod[e.localIdx]
		e.localIdx++
		if !ev.local {
			continue
		}
		if storeNext(e.client) == ev.inst { // a node that is behind cannot be deciding this instance
			must(e.client.Put(e.ctx, e.w.chain[ev.inst]))
			n++
		}
	}
	return n
}

func (sv *server) syncTo(e *env, now int64) {
	for sv.synced < len(e.prod) {
		ev := e.prod[sv.synced]
		if ev.t+sv.lag > now || (sv.kind == kStuck && ev.t > sv.stuckAt) {
			break
		}
		must(sv.store.Put(e.ctx, e.w.chain[ev.inst]))
		sv.synced++
	}
}

func (e *env) handler(sv *server) network.StreamHandler {
	return func(s network.Stream) {
		// wait until the harness has finished moving the clock
		e.gate.RLock()
		e.gate.RUnlock() //nolint:staticcheck
		e.reqs++
		sv.reqs++
		e.clk.Add(time.Duration(dur(e.rng, sv.latLo, sv.latHi)))
		now := e.now()
		n := e.applyLocal(now)
		e.localInPoll += n
		e.localLastReq = n
		sv.syncTo(e, now)
		switch sv.kind {
		case kDead:
			_ = s.Reset()
		case kFlaky:
			if sv.reqs%sv.flakyEvery == 0 {
				_ = s.Reset()
			} else {
				sv.real(s)
			}
		case kEvil, kEmpty:
			var req certexchange.Request
			if err := req.UnmarshalCBOR(bufio.NewReader(s)); err != nil {
				_ = s.Reset()
				return
			}
			bw := bufio.NewWriter(s)
			hdr := certexchange.ResponseHeader{PendingInstance: req.FirstInstance + 3}
			_ = hdr.MarshalCBOR(bw)
			if sv.kind == kEvil {
				_ = e.w.forgedCert(req.FirstInstance).MarshalCBOR(bw)
			}
			_ = bw.Flush()
			_ = s.Close()
		default:
			sv.real(s)
		}
	}
}

type scenario struct {
	id                int
	minI, initI, maxI int64
	kinds             []srvKind
	pattern           string
	period            int64
	prefill           int
	localMode         string
}

func newEnv(w *world, sc *scenario, r *vh.Rng) *env {
	ctx, clk := clock.WithMockClock(context.Background())
	e := &env{w: w, ctx: ctx, clk: clk, rng: r, mn: mocknetwork.New()}
	var err error
	e.cliHost, err = e.mn.GenPeer()
	must(err)
	e.client, err = certstore.CreateStore(ctx, ds_sync.MutexWrap(datastore.NewMapDatastore()), 0, w.pt)
	must(err)
	for i := 0; i < sc.prefill; i++ {
		must(e.client.Put(ctx, w.chain[i]))
	}
	for _, k := range sc.kinds {
		h, err := e.mn.GenPeer()
		must(err)
		st, err := certstore.CreateStore(ctx, ds_sync.MutexWrap(datastore.NewMapDatastore()), 0, w.pt)
		must(err)
		for i := 0; i < sc.prefill; i++ {
			must(st.Put(ctx, w.chain[i]))
		}
		sv := &server{kind: k, host: h, store: st, latLo: int64(time.Millisecond), latHi: int64(5 * time.Millisecond), flakyEvery: 2 + r.Intn(3)}
		if r.Chance(1, 5) { // slow link: tens to hundreds of milliseconds
			sv.latLo, sv.latHi = int64(20*time.Millisecond), int64(300*time.Millisecond)
		}
		switch k {
		case kLagging:
			sv.lag = dur(r, sc.period/4, 3*sc.period)
		case kStuck:
			sv.stuckAt = dur(r, 5*sc.period, 40*sc.period)
		}
		ch := &capHost{Host: h}
		srv := &certexchange.Server{NetworkName: nn, Host: ch, Store: st}
		must(srv.Start(ctx))
		sv.real = ch.h
		h.SetStreamHandler(certexchange.FetchProtocolName(nn), e.handler(sv))
		e.servers = append(e.servers, sv)
	}
	must(e.mn.LinkAll())
	must(e.mn.ConnectAllButSelf())
	return e
}

func (e *env) close() { _ = e.mn.Close() }

// production builds the schedule of certificate production for a scenario.
func production(sc *scenario, r *vh.Rng, horizon int64, maxCerts int) []prodEvent {
	var evs []prodEvent
	inst := uint64(sc.prefill)
	t := dur(r, 0, sc.period)
	local := false
	switch sc.localMode {
	case "all":
		local = true
	}
	add := func(t int64) {
		if sc.localMode == "mixed" && r.Chance(1, 6) {
			local = !local
		}
		evs = append(evs, prodEvent{t: t, inst: inst, local: local})
		inst++
	}
	for t < horizon && len(evs) < maxCerts {
		switch sc.pattern {
		case "steady":
			add(t)
			t += sc.period
		case "jitter":
			add(t)
			t += sc.period/2 + dur(r, 0, sc.period)
		case "bursty":
			k := 2 + r.Intn(4)
			for j := 0; j < k && len(evs) < maxCerts; j++ {
				add(t + int64(j))
			}
			t += int64(k) * sc.period
		case "stalled":
			// steady, then nothing for a long while, then steady again
			add(t)
			t += sc.period
			if len(evs) == 25 {
				t += 60 * sc.period
			}
		case "resumed":
			// nothing at first (node starts during an outage), then steady
			if len(evs) == 0 {
				t += 40 * sc.period
			}
			add(t)
			t += sc.period
		default:
			panic("pattern")
		}
	}
	return evs
}

func kindsString(ks []srvKind) string {
	if len(ks) == 0 {
		return "-"
	}
	p := make([]string, len(ks))
	for i, k := range ks {
		p[i] = kindNames[k]
	}
	return strings.Join(p, ",")
}

func genKinds(r *vh.Rng, n int, needHonest bool) []srvKind {
	ks := make([]srvKind, n)
	for i := range ks {
		switch r.Intn(12) {
		case 0, 1, 2, 3, 4:
			ks[i] = kHonest
		case 5, 6:
			ks[i] = kLagging
		case 7:
			ks[i] = kStuck
		case 8:
			ks[i] = kDead
		case 9:
			ks[i] = kFlaky
		case 10:
			ks[i] = kEvil
		default:
			ks[i] = kEmpty
		}
	}
	if needHonest && n > 0 {
		ks[r.Intn(n)] = kHonest
	}
	return ks
}

// ---------------------------------------------------------------------------------------------
// closed loop: the real Subscriber.run on the mock clock

var delayCh = make(chan float64, 64)

func runScenario(out *vh.Out, w *world, sc *scenario, r *vh.Rng, rounds int) {
	e := newEnv(w, sc, r)
	defer e.close()
	horizon := int64(rounds) * max(sc.period, sc.minI) * 3
	e.prod = production(sc, r, horizon, len(w.chain)-sc.prefill-1)
	rig, err := polling.VerifNewRig(e.ctx, certexchange.Client{Host: e.cliHost, NetworkName: nn}, e.client, w.backend,
		time.Duration(sc.minI), time.Duration(sc.initI), time.Duration(sc.maxI))
	must(err)
	for _, sv := range e.servers {
		rig.PeerSeen(sv.host.ID())
	}
	out.Line("rcfg sc=%d min=%d init=%d max=%d peers=%s pattern=%s period=%d local=%s next=%d", sc.id, sc.minI, sc.initI, sc.maxI,
		kindsString(sc.kinds), sc.pattern, sc.period, sc.localMode, rig.NextInstance())
	out.Line("pinit sc=%d next=%d store=%d", sc.id, rig.NextInstance(), storeNext(e.client))
	for len(delayCh) > 0 {
		<-delayCh
	}
	rig.StartRun()
	defer func() { _ = rig.StopRun() }()

	start := e.now()
	deadline := start + sc.initI
	next0 := rig.NextInstance()
	type rec struct {
		poll  int64
		end   int64 // mock-clock time at which the round's poll had returned
		adv   uint64
		reqs  int
		delay int64
	}
	var recs []rec
	select {
	case <-rig.TimerCreated():
	case <-time.After(90 * time.Second):
		out.Line("stuck sc=%d k=-1 expected=%d exited=false err=%q", sc.id, deadline, "timer never created")
		return
	}
	for k := 0; k < rounds; k++ {
		e.applyLocal(deadline)
		store0 := storeNext(e.client)
		e.reqs, e.localInPoll, e.localLastReq = 0, 0, 0
		rig.ClockCalls()
		e.gate.Lock()
		e.clk.Set(time.Unix(0, deadline))
		e.gate.Unlock()
		var v float64
		got := false
		for waited := 0; waited < 1800 && !got; waited++ {
			select {
			case v = <-delayCh:
				got = true
			case <-time.After(50 * time.Millisecond):
			}
			if _, ex := rig.Exited(); ex && !got {
				break
			}
		}
		if !got {
			err, ex := rig.Exited()
			out.Line("stuck sc=%d k=%d expected=%d exited=%v err=%q", sc.id, k, deadline, ex, fmt.Sprint(err))
			return
		}
		// what `run` asked its clock: Since(pollTime) after polling, Until(pollTime+interval)
		since, sinceArg, until, untilArg := int64(-1), int64(-1), int64(0), int64(-1)
		for _, c := range rig.ClockCalls() {
			switch c.Kind {
			case "since":
				since, sinceArg = c.Ret, c.Arg
			case "until":
				until, untilArg = c.Ret, c.Arg
			}
		}
		delay := int64(math.Round(v * 1e9))
		now := e.now()
		next1 := rig.NextInstance()
		store1 := storeNext(e.client)
		netnew := int64(store1-store0) - int64(e.localInPoll)
		out.Line("round sc=%d k=%d poll=%d next0=%d store0=%d next1=%d store1=%d netnew=%d reqs=%d lat=%d delay=%d late=%d since=%d sincearg=%d until=%d untilarg=%d",
			sc.id, k, deadline, next0, store0, next1, store1, netnew, e.reqs, now-deadline, delay, e.localLastReq, since, sinceArg, until, untilArg)
		recs = append(recs, rec{poll: deadline, end: now, adv: next1 - next0, reqs: e.reqs, delay: delay})
		next0 = next1
		deadline = now + delay
	}
	// cadence summary over the second half of the run, and over the production stall if any
	half := recs[len(recs)/2:]
	// the window opens when round half[0] has RETURNED: what was produced while its requests were in flight may have been
	// fetched by that round already, and its advance is not counted below (only half[1:] is)
	t0, t1 := half[0].end, recs[len(recs)-1].poll
	produced := 0
	for _, ev := range e.prod {
		if ev.t > t0 && ev.t <= t1 {
			produced++
		}
	}
	hr, hq := len(half)-1, 0
	var hadv uint64
	for _, x := range half[1:] {
		hq += x.reqs
		hadv += x.adv
	}
	// longest gap in production inside the observed window
	var gapStart, gapEnd int64
	for i := 1; i < len(e.prod); i++ {
		if e.prod[i].t <= t1 && e.prod[i].t-e.prod[i-1].t > gapEnd-gapStart {
			gapStart, gapEnd = e.prod[i-1].t, e.prod[i].t
		}
	}
	gapRounds := 0
	for _, x := range recs {
		if x.poll > gapStart && x.poll <= gapEnd {
			gapRounds++
		}
	}
	honest := 0
	for _, k := range sc.kinds {
		if k == kHonest {
			honest++
		}
	}
	out.Line("loop sc=%d pattern=%s local=%s period=%d min=%d init=%d max=%d honest=%d rounds=%d span=%d produced=%d got=%d reqs=%d gap=%d gaprounds=%d",
		sc.id, sc.pattern, sc.localMode, sc.period, sc.minI, sc.initI, sc.maxI, honest, hr, t1-t0, produced, hadv, hq, gapEnd-gapStart, gapRounds)
}

// ---------------------------------------------------------------------------------------------
// single polls: the real Subscriber.poll, called directly

func pollScenario(out *vh.Out, w *world, sc *scenario, r *vh.Rng, polls int) {
	e := newEnv(w, sc, r)
	defer e.close()
	e.prod = production(sc, r, int64(polls)*sc.period*4, len(w.chain)-sc.prefill-1)
	rig, err := polling.VerifNewRig(e.ctx, certexchange.Client{Host: e.cliHost, NetworkName: nn}, e.client, w.backend,
		time.Duration(sc.minI), time.Duration(sc.initI), time.Duration(sc.maxI))
	must(err)
	for _, sv := range e.servers {
		rig.PeerSeen(sv.host.ID())
	}
	out.Line("pcfg sc=%d peers=%s pattern=%s period=%d local=%s next=%d", sc.id, kindsString(sc.kinds), sc.pattern, sc.period,
		sc.localMode, rig.NextInstance())
	out.Line("pinit sc=%d next=%d store=%d", sc.id, rig.NextInstance(), storeNext(e.client))
	for k := 0; k < polls; k++ {
		// let some time pass: a fraction of a period up to a few periods
		e.clk.Add(time.Duration(dur(r, sc.period/8, 3*sc.period)))
		if r.Chance(1, 2) {
			e.applyLocal(e.now())
		}
		if r.Chance(1, 4) {
			// the run loop's first step: catch up from the store without the network
			n0, s0 := rig.NextInstance(), storeNext(e.client)
			got, err := rig.CatchUp(e.ctx)
			out.Line("catchup sc=%d k=%d next0=%d store0=%d ret=%d next1=%d err=%v", sc.id, k, n0, s0, got, rig.NextInstance(), err != nil)
		}
		next0, store0 := rig.NextInstance(), storeNext(e.client)
		e.reqs, e.localInPoll, e.localLastReq = 0, 0, 0
		var progress uint64
		var newCert bool
		res := "ok"
		h0, m0 := -1, -1
		if len(e.servers) == 1 {
			if _, h, m, _, ok := rig.PeerState(e.servers[0].host.ID()); ok {
				h0, m0 = h, m
			}
		}
		func() {
			defer func() {
				if p := recover(); p != nil {
					res = "panic"
				}
			}()
			var err error
			progress, newCert, err = rig.Poll(e.ctx)
			if err != nil {
				res = "err"
			}
		}()
		next1, store1 := rig.NextInstance(), storeNext(e.client)
		netnew := int64(store1-store0) - int64(e.localInPoll)
		out.Line("poll sc=%d k=%d next0=%d store0=%d next1=%d store1=%d netnew=%d reqs=%d late=%d ret=%d new=%d res=%s",
			sc.id, k, next0, store0, next1, store1, netnew, e.reqs, e.localLastReq, progress, b2i(newCert), res)
		if h0 >= 0 {
			// a single known peer: whatever the store gained from the network in this poll came from it — how did
			// the peer tracker record that peer? (hits/misses of its sliding window before and after)
			if _, h1, m1, _, ok := rig.PeerState(e.servers[0].host.ID()); ok {
				out.Line("pstat sc=%d k=%d netnew=%d hits0=%d misses0=%d hits1=%d misses1=%d window=%d kind=%d res=%s", sc.id, k, netnew, h0, m0, h1, m1, polling.VerifHitMissWindow, int(e.servers[0].kind), res)
			}
		}
	}
}

// ---------------------------------------------------------------------------------------------

func main() {
	logging.SetAllLoggers(logging.LevelFatal)
	out := vh.NewOut()
	defer out.Flush()
	rng := vh.NewRng(vh.Seed())
	thorough := vh.Thorough()
	only := os.Getenv("VERIF_POLL_ONLY") // pred | poll | run: one stream only (the check runs them separately)
	fPred, fWorld, fPoll, fRun := rng.Fork(1), rng.Fork(2), rng.Fork(3), rng.Fork(4)

	if only == "" || only == "pred" {
		predictorStream(out, fPred, thorough)
	}
	if only == "" || only == "pred" {
		// parameters for the model's own closed loop (evaluated by the driver, no implementation involved)
		r := fPred.Fork(77)
		n := 150
		if thorough {
			n = 3000
		}
		for i := 0; i < n; i++ {
			mn := dur(r, 100, 1000000)
			mx := mn * (8 + dur(r, 0, 2000))
			ini := dur(r, mn, mx)
			period := dur(r, 2*mn, mx/2)
			out.Line("mloop %d %d %d %d %d %d", mn, ini, mx, period, dur(r, 0, period-1), 600)
		}
	}
	if only == "pred" {
		return
	}
	polling.VerifHookDelayGauge(func(v float64) { delayCh <- v })

	nPoll, pollsPer, nRun, roundsPer := 10, 40, 22, 70
	if thorough {
		nPoll, pollsPer, nRun, roundsPer = 60, 80, 140, 120
	}
	nPoll = vh.EnvInt("VERIF_POLL_SCENARIOS", nPoll)
	nRun = vh.EnvInt("VERIF_RUN_SCENARIOS", nRun)
	roundsPer = vh.EnvInt("VERIF_RUN_ROUNDS", roundsPer)
	w := newWorld(fWorld, 4*roundsPer+3*pollsPer+600)

	settings := [][3]int64{
		{int64(time.Millisecond), int64(100 * time.Millisecond), int64(time.Second)},
		{int64(time.Second), int64(30 * time.Second), int64(120 * time.Second)},
		{int64(100 * time.Millisecond), int64(time.Second), int64(10 * time.Second)},
	}
	patterns := []string{"steady", "steady", "jitter", "bursty", "stalled", "resumed"}
	locals := []string{"none", "none", "mixed", "all"}
	id := 0
	if only == "" || only == "poll" {
		r := fPoll
		for s := 0; s < nPoll; s++ {
			st := settings[s%len(settings)]
			sc := &scenario{id: id, minI: st[0], initI: st[1], maxI: st[2], pattern: patterns[r.Intn(len(patterns))],
				localMode: locals[r.Intn(len(locals))], prefill: r.Intn(4)}
			sc.period = dur(r, 2*sc.minI, sc.maxI/2)
			npeers := r.Intn(5)
			if thorough && r.Chance(1, 6) {
				npeers = 5 + r.Intn(10)
			}
			sc.kinds = genKinds(r, npeers, r.Chance(3, 4))
			pollScenario(out, w, sc, r.Fork(uint64(id)), pollsPer)
			id++
		}
	}
	if only == "" || only == "run" {
		r := fRun
		for s := 0; s < nRun; s++ {
			st := settings[s%len(settings)]
			sc := &scenario{id: id, minI: st[0], initI: st[1], maxI: st[2], pattern: patterns[s%len(patterns)],
				localMode: locals[r.Intn(len(locals))], prefill: r.Intn(4)}
			switch r.Intn(8) {
			case 0: // production faster than the minimum interval allows
				sc.period = dur(r, sc.minI/4+1, sc.minI)
			case 1: // slower than the maximum
				sc.period = dur(r, sc.maxI, 3*sc.maxI)
			default:
				sc.period = dur(r, 2*sc.minI, sc.maxI/2)
			}
			if r.Chance(1, 6) { // random settings
				sc.minI = dur(r, int64(time.Millisecond), int64(time.Second))
				sc.maxI = sc.minI * (2 + dur(r, 0, 200))
				sc.initI = dur(r, sc.minI, sc.maxI)
				sc.period = dur(r, 2*sc.minI, sc.maxI/2)
			}
			npeers := 1 + r.Intn(4)
			if thorough && r.Chance(1, 8) {
				npeers = 5 + r.Intn(10)
			}
			sc.kinds = genKinds(r, npeers, true)
			if r.Chance(1, 12) {
				sc.kinds = nil // nobody to ask
			}
			runScenario(out, w, sc, r.Fork(uint64(id)), roundsPer)
			id++
		}
	}
}
