// h_validate drives the real gpbft message validator (through gpbft.Participant) and the pmsg
// strip/complete code on generated messages and logs, per operation, the symbolic description of the
// input together with the verdicts of a long-lived ("warm", tiny caches) participant and of fresh
// participants. Properties C05 and C13. See lean/Driver/Validate.lean for the line protocol.
package main

import (
	"bytes"
	"context"
	"errors"
	"fmt"
	"io"
	"os"
	"sort"
	"strings"
	"sync"
	"sync/atomic"
	"time"

	"github.com/filecoin-project/go-bitfield"
	"github.com/filecoin-project/go-f3/chainexchange"
	"github.com/filecoin-project/go-f3/gpbft"
	"github.com/filecoin-project/go-f3/internal/verifh/lib/vh"
	"github.com/filecoin-project/go-f3/pmsg"
	"github.com/filecoin-project/go-f3/sim/signing"
	"github.com/filecoin-project/go-state-types/big"
	"github.com/ipfs/go-cid"
	pubsub "github.com/libp2p/go-libp2p-pubsub"
	mocknet "github.com/libp2p/go-libp2p/p2p/net/mock"
	"github.com/multiformats/go-multihash"
)

var ctx = context.Background()

// liner is where a world writes its log lines (a per-world buffer, so that worlds can run in parallel and
// still be printed in order).
type liner interface {
	Line(format string, a ...any)
}

type bufLiner struct{ b bytes.Buffer }

func (l *bufLiner) Line(format string, a ...any) {
	fmt.Fprintf(&l.b, format, a...)
	l.b.WriteByte('\n')
}

// ps is one real (idle) gossipsub instance: the chain exchange constructor insists on one; nothing is ever
// published or joined, the harness feeds chains synchronously.
var ps *pubsub.PubSub
var topicSeq atomic.Int64

// mode selects the emphasis of the generated operations (and, in the driver, the active oracles).
var mode string

// ---------------------------------------------------------------------------------------------
// world: keys, committees, tipsets, chains, supplemental data, token tables

type member struct {
	id  gpbft.ActorID
	pub gpbft.PubKey
	n   int // symbolic public key id
}

type committee struct {
	c       *gpbft.Committee
	beacon  int
	members []int // table index -> member index
}

type world struct {
	rng      *vh.Rng
	out      liner
	backend  *signing.FakeBackend
	nets     []gpbft.NetworkName
	members  []member
	comts    []*committee
	instComt map[uint64]int // instance -> committee variant, absent = no committee
	maxInst  uint64
	lookback uint64
	groups   int
	setsize  int

	tips     []*gpbft.TipSet
	tipID    map[*gpbft.TipSet]int
	chains   []*gpbft.ECChain // index 0 is bottom
	validCh  []int            // indices of valid non-bottom chains
	badCh    []int            // indices of invalid chains
	supps    []gpbft.SupplementalData
	twin     map[int]int // chain index -> index of its look-alike chain
	junkKeys []gpbft.ECChainKey

	payloadSym map[string]string // signed bytes -> symbolic SigMsg
	sigSym     map[string]string // signature bytes -> token
	aggSym     map[string]string
	keySym     map[gpbft.ECChainKey]string
	garbage    map[string]int

	warm *gpbft.Participant
	cur  gpbft.Instant
}

// host stub
type host struct{ w *world }

func (h *host) GetProposal(context.Context, uint64) (*gpbft.SupplementalData, *gpbft.ECChain, error) {
	return nil, nil, errors.New("no proposal")
}
func (h *host) GetCommittee(_ context.Context, instance uint64) (*gpbft.Committee, error) {
	if v, ok := h.w.instComt[instance]; ok {
		return h.w.comts[v].c, nil
	}
	return nil, errors.New("no committee")
}
func (h *host) NetworkName() gpbft.NetworkName                      { return h.w.nets[0] }
func (h *host) RequestBroadcast(*gpbft.MessageBuilder) error        { return nil }
func (h *host) RequestRebroadcast(gpbft.Instant) error              { return nil }
func (h *host) Time() time.Time                                     { return time.Unix(0, 0) }
func (h *host) SetAlarm(time.Time)                                  {}
func (h *host) Verify(k gpbft.PubKey, msg, sig []byte) error        { return h.w.backend.Verify(k, msg, sig) }
func (h *host) Aggregate(k []gpbft.PubKey) (gpbft.Aggregate, error) { return h.w.backend.Aggregate(k) }
func (h *host) ReceiveDecision(context.Context, *gpbft.Justification) (time.Time, error) {
	return time.Time{}, nil
}

func (w *world) intern(b []byte) int {
	if n, ok := w.garbage[string(b)]; ok {
		return n
	}
	n := len(w.garbage) + 1
	if len(b) == 0 {
		n = 0
	}
	w.garbage[string(b)] = n
	return n
}

func newWorld(rng *vh.Rng, out liner) *world {
	w := &world{rng: rng, out: out, backend: signing.NewFakeBackend(),
		nets:       []gpbft.NetworkName{"verif-net", "other-net"},
		instComt:   map[uint64]int{},
		tipID:      map[*gpbft.TipSet]int{},
		payloadSym: map[string]string{}, sigSym: map[string]string{}, aggSym: map[string]string{},
		keySym: map[gpbft.ECChainKey]string{}, garbage: map[string]int{"": 0}}
	w.lookback = []uint64{1, 2, 3, 10}[rng.Intn(4)]
	w.groups = []int{1, 2, 3, 10}[rng.Intn(4)]
	w.setsize = []int{1, 2, 3, 4, 8, 64, 25000}[rng.Intn(7)]
	w.maxInst = 6

	// members: table members + outsiders
	nm := 3 + rng.Intn(5)
	nOut := 2
	for i := 0; i < nm+nOut; i++ {
		pub, _ := w.backend.GenerateKey()
		w.members = append(w.members, member{id: gpbft.ActorID(100 + 7*i + rng.Intn(5)), pub: pub, n: i + 1})
	}
	// committee variants over the first nm members (different powers => different order / thresholds)
	nv := 2 + rng.Intn(2)
	for v := 0; v < nv; v++ {
		pt := gpbft.NewPowerTable()
		var entries []gpbft.PowerEntry
		style := rng.Intn(4)
		for i := 0; i < nm; i++ {
			var p int64
			switch style {
			case 0:
				p = 10
			case 1:
				p = int64(1 + rng.Intn(20))
			case 2:
				p = int64(1) << uint(rng.Intn(12))
			default:
				p = int64(1 + rng.Intn(1000))
			}
			if i > 0 && rng.Chance(1, 4) {
				p = 1 // dust against a huge member => zero scaled power
			}
			if i == 0 && rng.Chance(1, 2) {
				p = int64(70000 * (1 + rng.Intn(3)))
			}
			if v > 0 && rng.Chance(1, 5) && len(entries) >= 3 {
				continue // member absent from this committee
			}
			entries = append(entries, gpbft.PowerEntry{ID: w.members[i].id, Power: big.NewInt(p), PubKey: w.members[i].pub})
		}
		if err := pt.Add(entries...); err != nil {
			panic(err)
		}
		agg, err := w.backend.Aggregate(pt.Entries.PublicKeys())
		if err != nil {
			panic(err)
		}
		cm := &committee{beacon: v + 1, c: &gpbft.Committee{PowerTable: pt, Beacon: []byte(fmt.Sprintf("beacon-%d", v+1)), AggregateVerifier: agg}}
		for _, e := range pt.Entries {
			for mi, m := range w.members {
				if m.id == e.ID {
					cm.members = append(cm.members, mi)
				}
			}
		}
		w.comts = append(w.comts, cm)
	}
	for inst := uint64(0); inst <= w.maxInst+w.lookback+1; inst++ {
		if rng.Chance(1, 12) {
			continue // committee unavailable
		}
		v := 0
		if rng.Chance(1, 3) {
			v = rng.Intn(nv)
		}
		w.instComt[inst] = v
	}

	// tipsets
	mkTip := func(epoch int64, keyLen int, ptKind int) *gpbft.TipSet {
		id := len(w.tips)
		key := bytes.Repeat([]byte{byte(id), byte(id >> 8), 0xab}, keyLen/3+1)[:keyLen]
		ts := &gpbft.TipSet{Epoch: epoch, Key: key}
		switch ptKind {
		case 0:
			ts.PowerTable = gpbft.MakeCid([]byte(fmt.Sprintf("pt-%d", id%3)))
		case 1: // undefined
		case 2: // too long (sha2-512 multihash)
			h, _ := multihash.Sum([]byte("x"), multihash.SHA2_512, -1)
			ts.PowerTable = cid.NewCidV1(cid.DagCBOR, h)
		}
		ts.Commitments[0] = byte(id)
		w.tipID[ts] = id
		w.tips = append(w.tips, ts)
		return ts
	}
	// a small tree: epochs 10.., two branches
	var main, fork []*gpbft.TipSet
	for i := 0; i < 6; i++ {
		main = append(main, mkTip(int64(10+i+(i/3)), 3+rng.Intn(40), 0))
	}
	for i := 0; i < 3; i++ {
		fork = append(fork, mkTip(int64(12+i), 38, 0))
	}
	tEmptyKey := mkTip(20, 0, 0)
	tLongKey := mkTip(21, 761, 0)
	tMaxKey := mkTip(22, 760, 0)
	tUndefPT := mkTip(23, 5, 1)
	tLongPT := mkTip(24, 5, 2)
	tNeg := mkTip(-1, 5, 0)
	tZero := mkTip(0, 5, 0)
	var long []*gpbft.TipSet
	for i := 0; i < 129; i++ {
		long = append(long, mkTip(int64(100+i), 4, 0))
	}
	addChain := func(valid bool, ts ...*gpbft.TipSet) int {
		c := &gpbft.ECChain{TipSets: ts}
		w.chains = append(w.chains, c)
		idx := len(w.chains) - 1
		if valid {
			w.validCh = append(w.validCh, idx)
		} else {
			w.badCh = append(w.badCh, idx)
		}
		return idx
	}
	w.chains = append(w.chains, &gpbft.ECChain{}) // 0 = bottom
	addChain(true, main[0])
	addChain(true, main[0], main[1])
	addChain(true, main[0], main[1], main[2])
	addChain(true, main[:6]...)
	addChain(true, main[0], main[1], fork[0])
	addChain(true, main[0], main[1], fork[0], fork[1], fork[2])
	addChain(true, main[1], main[2])
	addChain(true, tZero, main[0])
	addChain(true, main[0], tMaxKey)
	addChain(true, long[:128]...)
	addChain(false, long...)
	addChain(false, main[1], main[0])
	addChain(false, main[0], main[0])
	addChain(false, main[0], main[2], fork[0]) // 12, 13?, equal/decreasing epochs
	addChain(false, main[0], tEmptyKey)
	addChain(false, main[0], tLongKey)
	addChain(false, tUndefPT)
	addChain(false, main[0], tLongPT)
	addChain(false, tNeg, main[0])
	// look-alikes: a tipset with the epoch, key and power-table CID of another one and different commitments — a
	// different tipset, hence a different chain with a different key, although everything a cache or an index is
	// likely to be keyed by coincides
	twinTip := func(t *gpbft.TipSet) *gpbft.TipSet {
		ts := &gpbft.TipSet{Epoch: t.Epoch, Key: t.Key, PowerTable: t.PowerTable, Commitments: t.Commitments}
		ts.Commitments[7] ^= 0x5a
		w.tipID[ts] = len(w.tips)
		w.tips = append(w.tips, ts)
		return ts
	}
	tw1, tw2 := twinTip(main[1]), twinTip(main[2])
	w.twin = map[int]int{}
	w.twin[2] = addChain(true, main[0], tw1)
	w.twin[3] = addChain(true, main[0], main[1], tw2)
	w.twin[7] = addChain(true, tw1, main[2])
	for a, b := range w.twin {
		w.twin[b] = a
	}
	for _, c := range w.chains {
		w.keySym[c.Key()] = "c" + w.descChain(c)
	}
	for i := 0; i < 3; i++ {
		var k gpbft.ECChainKey
		for j := range k {
			k[j] = byte(rng.U64())
		}
		w.junkKeys = append(w.junkKeys, k)
	}
	// supplemental data
	for i := 0; i < 3; i++ {
		// 0 and 1 differ in the commitments only, 0 and 2 in the power-table CID only
		var s gpbft.SupplementalData
		s.Commitments[0] = byte(i % 2)
		s.PowerTable = gpbft.MakeCid([]byte(fmt.Sprintf("supp-pt-%d", i/2)))
		w.supps = append(w.supps, s)
	}
	w.supps = append(w.supps, gpbft.SupplementalData{}) // undefined CID: cannot be marshalled

	// log the world
	out.Line("world net=0 lookback=%d groups=%d setsize=%d", w.lookback, w.groups, w.setsize)
	for id, t := range w.tips {
		out.Line("tip %d %d %d %d", id, t.Epoch, len(t.Key), t.PowerTable.ByteLen())
	}
	for inst := uint64(0); inst <= w.maxInst+w.lookback+1; inst++ {
		if v, ok := w.instComt[inst]; ok {
			cm := w.comts[v]
			var es []string
			for i, e := range cm.c.PowerTable.Entries {
				es = append(es, fmt.Sprintf("%d:%d:%d", e.ID, cm.c.PowerTable.ScaledPower[i], w.members[cm.members[i]].n))
			}
			out.Line("comt %d %d %s", inst, cm.beacon, strings.Join(es, ","))
		}
	}
	var err error
	w.warm, err = gpbft.NewParticipant(&host{w},
		gpbft.WithCommitteeLookback(w.lookback),
		gpbft.WithMaxCachedInstances(w.groups),
		gpbft.WithMaxCachedMessagesPerInstance(w.setsize))
	if err != nil {
		panic(err)
	}
	return w
}

func (w *world) fresh(cur gpbft.Instant) *gpbft.Participant {
	p, err := gpbft.NewParticipant(&host{w}, gpbft.WithCommitteeLookback(w.lookback))
	if err != nil {
		panic(err)
	}
	gpbft.VerifSetProgress(p, cur.ID, cur.Round, cur.Phase)
	return p
}

// ---------------------------------------------------------------------------------------------
// symbolic descriptions (derived from the real bytes / objects)

func (w *world) descChain(c *gpbft.ECChain) string {
	if c.IsZero() {
		return "_"
	}
	parts := make([]string, len(c.TipSets))
	for i, t := range c.TipSets {
		parts[i] = fmt.Sprint(w.tipID[t])
	}
	return strings.Join(parts, ".")
}

func (w *world) descKey(k gpbft.ECChainKey) string {
	if s, ok := w.keySym[k]; ok {
		return s
	}
	return fmt.Sprintf("j%d", w.intern(k[:]))
}

func (w *world) suppID(s *gpbft.SupplementalData) int {
	for i := range w.supps {
		if w.supps[i].Commitments == s.Commitments && w.supps[i].PowerTable == s.PowerTable {
			return i
		}
	}
	panic("unknown supplemental data")
}

func (w *world) descPayload(p *gpbft.Payload) string {
	return fmt.Sprintf("%d,%d,%d,%d,%s", p.Instance, p.Round, p.Phase, w.suppID(&p.SupplementalData), w.descChain(p.Value))
}

func (w *world) descSig(b []byte) string {
	if s, ok := w.sigSym[string(b)]; ok {
		return s
	}
	return fmt.Sprintf("G,%d", w.intern(b))
}

func (w *world) descAgg(b []byte) string {
	if s, ok := w.aggSym[string(b)]; ok {
		return s
	}
	return fmt.Sprintf("G,%d", w.intern(b))
}

func encOK(m interface{ MarshalCBOR(io.Writer) error }) string {
	if m.MarshalCBOR(io.Discard) == nil {
		return "1"
	}
	return "0"
}

func (w *world) descJust(j *gpbft.Justification) string {
	if j == nil {
		return "-"
	}
	var ss []string
	_ = j.Signers.ForEach(func(i uint64) error { ss = append(ss, fmt.Sprint(i)); return nil })
	s := "-"
	if len(ss) > 0 {
		s = strings.Join(ss, "+")
	}
	return fmt.Sprintf("%s/%s/%s/%s", w.descPayload(&j.Vote), s, w.descAgg(j.Signature), encOK(j))
}

// descMsg: "<sender> <payload> <sig> <ticket> <just> <enc>"; enc is that of `whole` (the GMessage or the
// PartialGMessage whose cache key the validator computes).
func (w *world) descMsg(m *gpbft.GMessage, whole interface{ MarshalCBOR(io.Writer) error }) string {
	return fmt.Sprintf("%d %s %s %s %s %s", m.Sender, w.descPayload(&m.Vote), w.descSig(m.Signature),
		w.descSig(m.Ticket), w.descJust(m.Justification), encOK(whole))
}

// ---------------------------------------------------------------------------------------------
// signing with token bookkeeping

type keyR struct {
	chain int // >= 0: key of chains[chain]
	junk  int // > 0: junkKeys[junk-1]
}

func (w *world) keyBytes(k keyR) gpbft.ECChainKey {
	if k.junk > 0 {
		return w.junkKeys[k.junk-1]
	}
	return w.chains[k.chain].Key()
}

type payR struct {
	net   int
	inst  uint64
	round uint64
	phase uint8
	supp  int
	chain int
}

func (w *world) payload(p payR) gpbft.Payload {
	return gpbft.Payload{Instance: p.inst, Round: p.round, Phase: gpbft.Phase(p.phase),
		SupplementalData: w.supps[p.supp], Value: w.chains[p.chain]}
}

// votePayload marshals with the real code and records what the bytes mean.
func (w *world) votePayload(p payR, k keyR) []byte {
	pl := w.payload(p)
	kb := w.keyBytes(k)
	b := pl.MarshalForSigningWithValueKey(w.nets[p.net], kb)
	sym := fmt.Sprintf("V,%d,%d,%d,%d,%d,%s", p.net, p.inst, p.round, p.phase, p.supp, w.descKey(kb))
	w.recordPayload(b, sym)
	return b
}

func (w *world) recordPayload(b []byte, sym string) {
	if old, ok := w.payloadSym[string(b)]; ok && old != sym {
		w.out.Line("collision %s %s", old, sym)
	}
	w.payloadSym[string(b)] = sym
}

func (w *world) sign(mi int, payload []byte) []byte {
	sig, err := w.backend.Sign(ctx, w.members[mi].pub, payload)
	if err != nil {
		panic(err)
	}
	w.sigSym[string(sig)] = fmt.Sprintf("S,%d,%s", w.members[mi].n, w.payloadSym[string(payload)])
	return sig
}

// garbageBytes are a function of the recipe (seed), so that every build of a recipe yields the same bytes.
func (w *world) garbageBytes(kind int, seed uint64) []byte {
	g := vh.NewRng(seed)
	switch kind {
	case 2:
		return nil
	case 3:
		b := make([]byte, 97)
		for i := range b {
			b[i] = byte(g.U64())
		}
		return b
	default:
		b := make([]byte, 32)
		for i := range b {
			b[i] = byte(g.U64())
		}
		return b
	}
}

type sigR struct {
	seed   uint64
	kind   int // 0 proper, 1 garbage, 2 empty, 3 over-long
	signer int // member index
	over   payR
	key    keyR
}

type tickR struct {
	seed   uint64
	kind   int // 0 proper, 1 garbage, 2 empty, 3 over-long
	signer int
	net    int
	comt   int // committee variant whose beacon is signed
	inst   uint64
	round  uint64
}

type aggR struct {
	seed    uint64
	kind    int // 0 proper, 1 garbage, 2 empty
	comt    int
	signers []int // table indices (must be in range of comt)
	over    payR
	key     keyR
}

type justR struct {
	vote    payR
	signers []uint64
	agg     aggR
}

type msgR struct {
	sender int // member index
	vote   payR
	sig    sigR
	ticket tickR
	just   *justR
}

func (w *world) mkSig(s sigR) []byte {
	if s.kind != 0 {
		return w.garbageBytes(s.kind, s.seed)
	}
	return w.sign(s.signer, w.votePayload(s.over, s.key))
}

func (w *world) mkTicket(t tickR) []byte {
	if t.kind != 0 {
		return w.garbageBytes(t.kind, t.seed)
	}
	cm := w.comts[t.comt]
	b := gpbft.VerifVrfInput(cm.c.Beacon, t.inst, t.round, w.nets[t.net])
	w.recordPayload(b, fmt.Sprintf("R,%d,%d,%d,%d", t.net, cm.beacon, t.inst, t.round))
	return w.sign(t.signer, b)
}

func (w *world) mkAgg(a aggR) []byte {
	if a.kind != 0 {
		return w.garbageBytes(a.kind, a.seed)
	}
	cm := w.comts[a.comt]
	payload := w.votePayload(a.over, a.key)
	var mask []int
	for _, i := range a.signers {
		if i < len(cm.members) { // stacked mutations may leave indices of another committee variant
			mask = append(mask, i)
		}
	}
	sort.Ints(mask)
	sigs := make([][]byte, len(mask))
	var sym []string
	for i, idx := range mask {
		sigs[i] = w.sign(cm.members[idx], payload)
		sym = append(sym, fmt.Sprintf("%d:%d", idx, w.members[cm.members[idx]].n))
	}
	agg, err := cm.c.AggregateVerifier.Aggregate(mask, sigs)
	if err != nil {
		panic(err)
	}
	s := "-"
	if len(sym) > 0 {
		s = strings.Join(sym, "+")
	}
	w.aggSym[string(agg)] = fmt.Sprintf("A,%s,%s", s, w.payloadSym[string(payload)])
	return agg
}

// build constructs a fresh real message from a recipe (nothing is shared between two builds except
// the immutable pool objects).
func (w *world) build(r *msgR) *gpbft.GMessage {
	m := &gpbft.GMessage{Sender: w.members[r.sender].id, Vote: w.payload(r.vote)}
	m.Signature = w.mkSig(r.sig)
	m.Ticket = w.mkTicket(r.ticket)
	if r.just != nil {
		j := &gpbft.Justification{Vote: w.payload(r.just.vote), Signers: bitfield.NewFromSet(r.just.signers)}
		j.Signature = w.mkAgg(r.just.agg)
		m.Justification = j
	}
	return m
}

// ---------------------------------------------------------------------------------------------
// recipes: valid shapes and mutations

const (
	phQ = 1
	phC = 2
	phP = 3
	phM = 4 // COMMIT
	phD = 5
)

func (w *world) comtFor(inst uint64) int {
	if v, ok := w.instComt[inst]; ok {
		return v
	}
	return 0
}

// positive-power table indices of a committee
func (w *world) positives(cv int) []int {
	var r []int
	for i, p := range w.comts[cv].c.PowerTable.ScaledPower {
		if p > 0 {
			r = append(r, i)
		}
	}
	return r
}

func (w *world) power(cv int, idx []int) int64 {
	var s int64
	for _, i := range idx {
		if i < len(w.comts[cv].c.PowerTable.ScaledPower) { // stacked mutations may carry indices of another variant
			s += w.comts[cv].c.PowerTable.ScaledPower[i]
		}
	}
	return s
}

// a random minimal strong quorum (removing any member breaks it) or, sometimes, everybody.
func (w *world) quorum(cv int) []int {
	pos := w.positives(cv)
	w.shuffle(pos)
	total := w.comts[cv].c.PowerTable.ScaledTotal
	if w.rng.Chance(1, 5) {
		return pos
	}
	var q []int
	for _, i := range pos {
		q = append(q, i)
		if 3*w.power(cv, q) >= 2*total {
			break
		}
	}
	// minimise
	for i := 0; i < len(q); {
		rest := append(append([]int(nil), q[:i]...), q[i+1:]...)
		if 3*w.power(cv, rest) >= 2*total {
			q = rest
		} else {
			i++
		}
	}
	return q
}

func (w *world) shuffle(a []int) {
	for i := len(a) - 1; i > 0; i-- {
		j := w.rng.Intn(i + 1)
		a[i], a[j] = a[j], a[i]
	}
}

func u64s(a []int) []uint64 {
	r := make([]uint64, len(a))
	for i, x := range a {
		r[i] = uint64(x)
	}
	return r
}

func (w *world) justFor(cv int, vote payR) *justR {
	q := w.quorum(cv)
	return &justR{vote: vote, signers: u64s(q), agg: aggR{comt: cv, signers: q, over: vote, key: keyR{chain: vote.chain}}}
}

// genValid: a valid message of a random shape for instance inst.
func (w *world) genValid(inst uint64) *msgR {
	cv := w.comtFor(inst)
	pos := w.positives(cv)
	cm := w.comts[cv]
	sender := cm.members[pos[w.rng.Intn(len(pos))]]
	supp := w.rng.Intn(3)
	val := w.validCh[w.rng.Intn(len(w.validCh))]
	if w.rng.Chance(3, 4) {
		val = w.validCh[w.rng.Intn(6)] // mostly the short, related chains
	}
	round := uint64(w.rng.Intn(4))
	r := &msgR{sender: sender}
	mk := func(phase uint8, round uint64, chain int) payR {
		return payR{net: 0, inst: inst, round: round, phase: phase, supp: supp, chain: chain}
	}
	switch w.rng.Intn(11) {
	case 0:
		r.vote = mk(phQ, 0, val)
	case 1:
		r.vote = mk(phP, 0, val)
		if w.rng.Chance(1, 6) {
			r.vote.chain = 0
		}
	case 2: // PREPARE r>0 justified by PREPARE r-1 same value
		round++
		r.vote = mk(phP, round, val)
		r.just = w.justFor(cv, mk(phP, round-1, val))
	case 3: // PREPARE r>0 justified by COMMIT r-1 bottom
		round++
		r.vote = mk(phP, round, val)
		if w.rng.Chance(1, 6) {
			r.vote.chain = 0
		}
		r.just = w.justFor(cv, mk(phM, round-1, 0))
	case 4: // CONVERGE by PREPARE
		round++
		r.vote = mk(phC, round, val)
		r.just = w.justFor(cv, mk(phP, round-1, val))
	case 5: // CONVERGE by COMMIT bottom
		round++
		r.vote = mk(phC, round, val)
		r.just = w.justFor(cv, mk(phM, round-1, 0))
	case 6, 7: // COMMIT value
		r.vote = mk(phM, round, val)
		r.just = w.justFor(cv, mk(phP, round, val))
	case 8: // COMMIT bottom
		r.vote = mk(phM, round, 0)
	default: // DECIDE
		r.vote = mk(phD, 0, val)
		r.just = w.justFor(cv, mk(phM, round, val))
	}
	r.sig = sigR{signer: sender, over: r.vote, key: keyR{chain: r.vote.chain}}
	if r.vote.phase == phC {
		r.ticket = tickR{signer: sender, net: 0, comt: cv, inst: inst, round: r.vote.round}
	} else {
		r.ticket = tickR{kind: 2}
		if w.rng.Chance(1, 10) {
			r.ticket = tickR{signer: sender, net: 0, comt: cv, inst: inst, round: r.vote.round} // harmless extra ticket
		}
	}
	return r
}

func clone(r *msgR) *msgR {
	c := *r
	if r.just != nil {
		j := *r.just
		j.signers = append([]uint64(nil), r.just.signers...)
		j.agg.signers = append([]int(nil), r.just.agg.signers...)
		c.just = &j
	}
	return &c
}

func (w *world) otherChain(not int) int {
	if t, ok := w.twin[not]; ok && w.rng.Chance(1, 3) {
		return t
	}
	for {
		c := w.rng.Intn(len(w.chains))
		if w.rng.Chance(2, 3) {
			c = w.validCh[w.rng.Intn(6)]
		}
		if c != not {
			return c
		}
	}
}

// mutate applies one field-level corruption or recombination. `resign`: signatures / aggregates are
// recomputed over the changed content (a consistently signed but rule-breaking message) instead of being
// left over the original content (a forgery).
func (w *world) mutate(r0 *msgR) (*msgR, string) {
	r := clone(r0)
	resign := w.rng.Bool()
	cv := w.comtFor(r.vote.inst)
	cm := w.comts[cv]
	tag := ""
	setVote := func(f func(p *payR)) {
		f(&r.vote)
		if resign {
			f(&r.sig.over)
		}
	}
	setJust := func(f func(p *payR)) {
		if r.just == nil {
			return
		}
		f(&r.just.vote)
		if resign {
			f(&r.just.agg.over)
		}
	}
	nMut := 36
	k := w.rng.Intn(nMut)
	switch k {
	case 0: // sender not in table (signs with its own key if resign)
		r.sender = len(w.members) - 1 - w.rng.Intn(2)
		if resign {
			r.sig.signer = r.sender
			r.ticket.signer = r.sender
		}
		tag = "sender-outsider"
	case 1: // zero scaled power member
		for i, p := range cm.c.PowerTable.ScaledPower {
			if p == 0 {
				r.sender = cm.members[i]
				if resign {
					r.sig.signer = r.sender
					r.ticket.signer = r.sender
				}
			}
		}
		tag = "sender-zero-power"
	case 2: // another member as sender, signature unchanged (or resigned: then it is a valid message)
		r.sender = cm.members[w.rng.Intn(len(cm.members))]
		if resign {
			r.sig.signer = r.sender
			r.ticket.signer = r.sender
		}
		tag = "sender-other"
	case 3:
		d := uint64(1 + w.rng.Intn(2))
		setVote(func(p *payR) { p.inst += d })
		if resign && w.rng.Bool() {
			r.ticket.inst += d
			setJust(func(p *payR) { p.inst += d })
		}
		tag = "instance"
	case 4:
		nr := uint64(w.rng.Intn(5))
		setVote(func(p *payR) { p.round = nr })
		if resign && w.rng.Bool() {
			r.ticket.round = nr
		}
		tag = "round"
	case 5:
		np := uint8([]int{0, 1, 2, 3, 4, 5, 6, 7, 200}[w.rng.Intn(9)])
		setVote(func(p *payR) { p.phase = np })
		if np == phC && resign {
			r.ticket = tickR{signer: r.sender, net: 0, comt: cv, inst: r.vote.inst, round: r.vote.round}
		}
		tag = "phase"
	case 6:
		nc := w.otherChain(r.vote.chain)
		setVote(func(p *payR) { p.chain = nc })
		if resign {
			r.sig.key = keyR{chain: nc}
		}
		tag = "value"
	case 7:
		setVote(func(p *payR) { p.chain = 0 })
		if resign {
			r.sig.key = keyR{chain: 0}
		}
		tag = "value-bottom"
	case 8:
		nc := w.badCh[w.rng.Intn(len(w.badCh))]
		setVote(func(p *payR) { p.chain = nc })
		if resign {
			r.sig.key = keyR{chain: nc}
		}
		if r.just != nil && w.rng.Bool() {
			setJust(func(p *payR) { p.chain = nc })
			if resign {
				r.just.agg.key = keyR{chain: nc}
			}
		}
		tag = "value-malformed"
	case 9:
		ns := (r.vote.supp + 1 + w.rng.Intn(2)) % 3
		if w.rng.Chance(1, 6) {
			ns = 3
		}
		setVote(func(p *payR) { p.supp = ns })
		if w.rng.Bool() {
			setJust(func(p *payR) { p.supp = ns })
		}
		tag = "supp"
	case 10:
		r.sig.kind = 1 + w.rng.Intn(3)
		r.sig.seed = w.rng.U64()
		tag = "sig-garbage"
	case 11:
		r.sig.signer = cm.members[w.rng.Intn(len(cm.members))]
		tag = "sig-other-signer"
	case 12:
		r.sig.over.net = 1
		tag = "sig-other-net"
	case 13: // signature over a different key than the value's
		r.sig.key = keyR{chain: w.otherChain(r.vote.chain)}
		if w.rng.Chance(1, 4) {
			r.sig.key = keyR{junk: 1 + w.rng.Intn(3)}
		}
		tag = "sig-other-key"
	case 14:
		r.ticket.kind = 1 + w.rng.Intn(3)
		r.ticket.seed = w.rng.U64()
		tag = "ticket-garbage"
	case 15:
		switch w.rng.Intn(5) {
		case 0:
			r.ticket.round++
		case 1:
			r.ticket.inst++
		case 2:
			r.ticket.comt = (r.ticket.comt + 1) % len(w.comts)
		case 3:
			r.ticket.net = 1
		default:
			r.ticket.signer = cm.members[w.rng.Intn(len(cm.members))]
		}
		tag = "ticket-other"
	case 16:
		r.just = nil
		tag = "just-missing"
	case 17: // unexpected / replaced justification: a really valid one of another shape
		ph := uint8([]int{phP, phM, phQ, phD, phC}[w.rng.Intn(5)])
		v := payR{net: 0, inst: r.vote.inst, round: uint64(w.rng.Intn(4)), phase: ph, supp: r.vote.supp, chain: r.vote.chain}
		if w.rng.Bool() {
			v.chain = 0
		}
		r.just = w.justFor(cv, v)
		tag = "just-other-shape"
	case 18:
		d := uint64(1 + w.rng.Intn(2))
		if w.rng.Bool() && r.just != nil && r.just.vote.round >= d {
			setJust(func(p *payR) { p.round -= d })
		} else {
			setJust(func(p *payR) { p.round += d })
		}
		tag = "just-round"
	case 19:
		setJust(func(p *payR) { p.inst++ })
		tag = "just-instance"
	case 20:
		if r.just != nil {
			nc := w.otherChain(r.just.vote.chain)
			setJust(func(p *payR) { p.chain = nc })
			if resign {
				r.just.agg.key = keyR{chain: nc}
			}
		}
		tag = "just-value"
	case 21:
		np := uint8([]int{1, 2, 3, 4, 5, 0, 9}[w.rng.Intn(7)])
		setJust(func(p *payR) { p.phase = np })
		tag = "just-phase"
	case 22:
		if r.just != nil {
			ns := (r.just.vote.supp + 1) % 3
			setJust(func(p *payR) { p.supp = ns })
		}
		tag = "just-supp"
	case 23: // one member short of a strong quorum
		if r.just != nil && len(r.just.agg.signers) > 0 {
			q := append([]int(nil), r.just.agg.signers...)
			// drop members until below 2/3
			total := cm.c.PowerTable.ScaledTotal
			for len(q) > 0 && 3*w.power(cv, q) >= 2*total {
				i := w.rng.Intn(len(q))
				q = append(q[:i], q[i+1:]...)
			}
			r.just.signers = u64s(q)
			if resign {
				r.just.agg.signers = q
			}
		}
		tag = "just-short-quorum"
	case 24: // add a zero-power member
		if r.just != nil {
			for i, p := range cm.c.PowerTable.ScaledPower {
				if p == 0 {
					r.just.signers = append(r.just.signers, uint64(i))
					if resign {
						r.just.agg.signers = append(r.just.agg.signers, i)
					}
					break
				}
			}
		}
		tag = "just-zero-power-signer"
	case 25:
		if r.just != nil {
			r.just.signers = append(r.just.signers, uint64(len(cm.c.PowerTable.Entries)+w.rng.Intn(3)))
		}
		tag = "just-signer-out-of-range"
	case 26:
		if r.just != nil {
			r.just.agg.kind = 1 + w.rng.Intn(2)
			r.just.agg.seed = w.rng.U64()
		}
		tag = "just-agg-garbage"
	case 27: // aggregate by a different (also strong) signer set than announced
		if r.just != nil {
			r.just.agg.signers = w.positives(cv)
			if w.rng.Bool() {
				r.just.signers = u64s(w.quorum(cv))
			}
		}
		tag = "just-agg-other-signers"
	case 28:
		if r.just != nil {
			r.just.agg.key = keyR{chain: w.otherChain(r.just.agg.key.chain)}
			if w.rng.Chance(1, 4) {
				r.just.agg.key = keyR{junk: 1 + w.rng.Intn(3)}
			}
		}
		tag = "just-agg-other-key"
	case 29:
		if r.just != nil {
			r.just.agg.over.net = 1
		}
		tag = "just-agg-other-net"
	case 30: // justification aggregated under another committee variant (other table order)
		if r.just != nil && len(w.comts) > 1 {
			ov := (cv + 1) % len(w.comts)
			q := w.quorum(ov)
			r.just.agg.comt = ov
			r.just.agg.signers = q
			r.just.signers = u64s(q)
		}
		tag = "just-other-committee"
	case 31: // empty signer set
		if r.just != nil {
			r.just.signers = nil
			if resign {
				r.just.agg.signers = nil
			}
		}
		tag = "just-no-signers"
	case 32: // value swapped consistently in vote and justification, signatures over the original (or resigned => valid other message)
		nc := w.otherChain(r.vote.chain)
		oldc := r.vote.chain
		setVote(func(p *payR) { p.chain = nc })
		if resign {
			r.sig.key = keyR{chain: nc}
		}
		if r.just != nil && r.just.vote.chain == oldc {
			r.just.vote.chain = nc
			if resign {
				r.just.agg.over.chain = nc
				r.just.agg.key = keyR{chain: nc}
			}
		}
		tag = "value-swap-both"
	case 33: // round shifted consistently everywhere
		d := uint64(1 + w.rng.Intn(2))
		setVote(func(p *payR) { p.round += d })
		r.ticket.round += d
		setJust(func(p *payR) { p.round += d })
		tag = "round-shift-all"
	case 34: // huge round
		setVote(func(p *payR) { p.round = 1<<64 - 1 })
		r.ticket.round = 1<<64 - 1
		tag = "round-max"
	default: // over-long chain in justification only
		if r.just != nil {
			nc := w.badCh[w.rng.Intn(len(w.badCh))]
			setJust(func(p *payR) { p.chain = nc })
		}
		tag = "just-value-malformed"
	}
	if resign {
		tag += "+resign"
	}
	return r, tag
}

// ---------------------------------------------------------------------------------------------
// operations

func verdict(err error) string {
	var pe *gpbft.PanicError
	switch {
	case err == nil:
		return "accept"
	case errors.As(err, &pe):
		return "panic"
	case errors.Is(err, gpbft.ErrValidationInvalid):
		return "invalid"
	case errors.Is(err, gpbft.ErrValidationTooOld):
		return "tooOld"
	case errors.Is(err, gpbft.ErrValidationNotRelevant):
		return "notRelevant"
	case errors.Is(err, gpbft.ErrValidationNoCommittee):
		return "noCommittee"
	case errors.Is(err, gpbft.ErrValidationWrongBase):
		return "wrongBase"
	case errors.Is(err, gpbft.ErrValidationWrongSupplement):
		return "wrongSupp"
	default:
		return "other"
	}
}

func guard(f func() error) (v string) {
	defer func() {
		if r := recover(); r != nil {
			v = "panic"
		}
	}()
	return verdict(f())
}

func (w *world) setWarm(cur gpbft.Instant) {
	w.cur = cur
	gpbft.VerifSetProgress(w.warm, cur.ID, cur.Round, cur.Phase)
}

func progStr(c gpbft.Instant) string { return fmt.Sprintf("%d,%d,%d", c.ID, c.Round, c.Phase) }

// progress states around a message: mostly relevant ones, plus every kind of boundary.
func (w *world) genProgress(v payR) gpbft.Instant {
	cur := gpbft.Instant{ID: v.inst, Round: v.round, Phase: gpbft.Phase(1 + w.rng.Intn(5))}
	if v.round > 1<<40 {
		cur.Round = uint64(w.rng.Intn(3))
	}
	switch w.rng.Intn(12) {
	case 0, 1, 2, 3:
		cur.Phase = gpbft.Phase(1 + w.rng.Intn(4))
	case 4:
		cur.Round = v.round + 1
	case 5:
		cur.Round = v.round + 2
	case 6:
		if cur.Round > 0 {
			cur.Round--
		}
	case 7:
		cur.ID = v.inst + 1
	case 8:
		cur.ID = v.inst + 2
	case 9: // message in the future, around the look-ahead bound
		d := w.lookback - uint64(w.rng.Intn(2))
		if v.inst >= d {
			cur.ID = v.inst - d
		} else {
			cur.ID = 0
		}
		cur.Round = uint64(w.rng.Intn(3))
	case 10:
		if v.inst > 0 {
			cur.ID = v.inst - 1
		}
		cur.Round = uint64(w.rng.Intn(6))
	default:
		cur.Phase = gpbft.Phase(w.rng.Intn(7))
		cur.Round = uint64(w.rng.Intn(5))
	}
	return cur
}

// one-shot validation of a message built from recipe r, at progress cur, by the warm and a fresh participant
func (w *world) opValidate(r *msgR, cur gpbft.Instant) {
	w.setWarm(cur)
	mw := w.build(r)
	desc := w.descMsg(mw, mw)
	vw := guard(func() error { _, err := w.warm.ValidateMessage(ctx, mw); return err })
	mf := w.build(r)
	fr := w.fresh(cur)
	vf := guard(func() error { _, err := fr.ValidateMessage(ctx, mf); return err })
	cm, cj0, cj1 := w.peeks(false, mw, mw, mw.Vote.Value.Key())
	w.out.Line("v %s %s => %s %s %s %s %s %s", progStr(cur), desc, vw, vf, cm, cj0, cj1, gpbft.VerifCacheShape(w.warm))
}

func (w *world) peeks(partial bool, m *gpbft.GMessage, whole interface{ MarshalCBOR(io.Writer) error }, msgKey gpbft.ECChainKey) (string, string, string) {
	cm := gpbft.VerifPeek(w.warm, partial, false, m.Vote.Instance, whole)
	cj0, cj1 := "-", "-"
	if m.Justification != nil {
		var zero gpbft.ECChainKey
		cj0 = gpbft.VerifPeek(w.warm, partial, true, m.Vote.Instance, m.Justification, zero[:])
		cj1 = gpbft.VerifPeek(w.warm, partial, true, m.Vote.Instance, m.Justification, msgKey[:])
	}
	return cm, cj0, cj1
}

// partial-message recipe: the message is built from r, stripped by the production code, then optionally
// tampered with; x is the completing chain.
type pmR struct {
	base *msgR
	key  *keyR // announced key override
	v0   int   // placeholder vote value (-1: as stripped)
	j0   int   // placeholder justification value (-1: as stripped)
	x    int   // completing chain
}

func (w *world) buildPartial(p *pmR) *gpbft.PartialGMessage {
	m := w.build(p.base)
	pm, err := pmsg.VerifToPartial(m)
	if err != nil {
		panic(err)
	}
	if p.key != nil {
		pm.VoteValueKey = w.keyBytes(*p.key)
	}
	if p.v0 >= 0 {
		pm.Vote.Value = w.chains[p.v0]
	}
	if p.j0 >= 0 && pm.Justification != nil {
		j := *pm.Justification
		j.Vote.Value = w.chains[p.j0]
		pm.Justification = &j
	}
	return pm
}

func jvalue(w *world, m *gpbft.GMessage) string {
	if m.Justification == nil {
		return "-"
	}
	return w.descChain(m.Justification.Vote.Value)
}

func jenc(m *gpbft.GMessage) string {
	if m.Justification == nil {
		return "-"
	}
	return encOK(m.Justification)
}

// two-stage vs one-shot on the same input
func (w *world) opTwoStage(p *pmR, p1, p2 gpbft.Instant) {
	x := w.chains[p.x]
	// one in eight: the completion fills in the vote value only (justification value left as it arrived)
	complete, kind := pmsg.VerifComplete, "t"
	if w.rng.Intn(8) == 0 {
		complete, kind = pmsg.VerifCompleteValueOnly, "tt"
	}
	// (1) partial stage, warm + fresh
	w.setWarm(p1)
	pmw := w.buildPartial(p)
	desc := w.descMsg(pmw.GMessage, pmw)
	keyDesc := w.descKey(pmw.VoteValueKey)
	var pvw, pvf gpbft.PartiallyValidatedMessage
	pw := guard(func() (err error) { pvw, err = w.warm.PartiallyValidateMessage(ctx, pmw); return })
	cmP, cj0P, cj1P := w.peeks(true, pmw.GMessage, pmw, pmw.VoteValueKey)
	shapeP := gpbft.VerifCacheShape(w.warm)
	pmf := w.buildPartial(p)
	f1 := w.fresh(p1)
	pf := guard(func() (err error) { pvf, err = f1.PartiallyValidateMessage(ctx, pmf); return })
	// (2) completion by the production statements, then the full stage (on the validator's own value when
	// the partial stage accepted, otherwise on a wrapped copy so that the full stage is exercised anyway)
	if pvw == nil {
		pvw = gpbft.VerifWrapPartiallyValidated(pmw)
	}
	if pvf == nil {
		pvf = gpbft.VerifWrapPartiallyValidated(pmf)
	}
	complete(pvw.PartialMessage(), x)
	complete(pvf.PartialMessage(), x)
	w.setWarm(p2)
	gpbft.VerifSetProgress(f1, p2.ID, p2.Round, p2.Phase)
	fw := guard(func() error { _, err := w.warm.FullyValidateMessage(ctx, pvw); return err })
	ff := guard(func() error { _, err := f1.FullyValidateMessage(ctx, pvf); return err })
	// (3) one-shot validation of the completed message (fresh copy, completed the same way)
	cw := w.buildPartial(p)
	complete(cw, x)
	cjv, encC, encJC := jvalue(w, cw.GMessage), encOK(cw.GMessage), jenc(cw.GMessage)
	ow := guard(func() error { _, err := w.warm.ValidateMessage(ctx, cw.GMessage); return err })
	cmO, cj0O, cj1O := w.peeks(false, cw.GMessage, cw.GMessage, cw.Vote.Value.Key())
	cf := w.buildPartial(p)
	complete(cf, x)
	f2 := w.fresh(p2)
	of := guard(func() error { _, err := f2.ValidateMessage(ctx, cf.GMessage); return err })
	w.out.Line("%s %s %s %s %s %s %s %s %s => %s %s %s %s %s %s %s %s %s %s %s %s %s %s",
		kind, progStr(p1), progStr(p2), desc, keyDesc, w.descChain(x), cjv, encC, encJC,
		pw, pf, fw, ff, ow, of, cmP, cj0P, cj1P, shapeP, cmO, cj0O, cj1O, gpbft.VerifCacheShape(w.warm))
}

// host flow of gpbftRunner.validatePubsubMessage with the real PartialMessageManager.CompleteMessage over a
// real chain exchange that has (pre) or has not yet seen chain x: completed => ValidateMessage of the
// completed message, otherwise PartiallyValidateMessage.
func (w *world) opHost(p *pmR, cur gpbft.Instant, pre bool) {
	x := w.chains[p.x]
	run := func(part *gpbft.Participant) (string, string, string, string, string, string) {
		cx, err := chainexchange.NewPubSubChainExchange(
			chainexchange.WithProgress(func() gpbft.InstanceProgress { return gpbft.InstanceProgress{Instant: cur} }),
			chainexchange.WithPubSub(ps),
			chainexchange.WithTopicName(fmt.Sprintf("verif-validate-%d", topicSeq.Add(1))),
			chainexchange.WithTopicScoreParams(nil))
		if err != nil {
			panic(err)
		}
		pmm := pmsg.VerifNewManager(cx)
		pm := w.buildPartial(p)
		if pre && !x.IsZero() {
			cx.VerifValidateDiscover(ctx, pm.Vote.Instance, x)
		}
		var gmsg *gpbft.GMessage
		var completed bool
		v := guard(func() error {
			gmsg, completed = pmm.CompleteMessage(ctx, pm)
			if completed {
				_, err := part.ValidateMessage(ctx, gmsg)
				return err
			}
			_, err := part.PartiallyValidateMessage(ctx, pm)
			return err
		})
		if !completed || gmsg == nil {
			return "0", "-", "-", "-", "-", v
		}
		return "1", w.descChain(gmsg.Vote.Value), jvalue(w, gmsg), encOK(gmsg), jenc(gmsg), v
	}
	w.setWarm(cur)
	pm0 := w.buildPartial(p)
	desc, keyDesc := w.descMsg(pm0.GMessage, pm0), w.descKey(pm0.VoteValueKey)
	c1, cv, cjv, e1, e2, vw := run(w.warm)
	_, _, _, _, _, vf := run(w.fresh(cur))
	preS := "0"
	if pre {
		preS = "1"
	}
	// the same message when the chain becomes known only after the message arrived: partial validation, then —
	// once a prefix of x with the announced key is discovered — completion and full validation
	two := func() string {
		f3 := w.fresh(cur)
		pm := w.buildPartial(p)
		var pv gpbft.PartiallyValidatedMessage
		v := guard(func() (err error) { pv, err = f3.PartiallyValidateMessage(ctx, pm); return })
		if v != "accept" {
			return v
		}
		for _, pfx := range x.AllPrefixes() {
			if pfx.Key() == pm.VoteValueKey {
				pmsg.VerifComplete(pv.PartialMessage(), pfx)
				return guard(func() error { _, err := f3.FullyValidateMessage(ctx, pv); return err })
			}
		}
		return "pending"
	}()
	w.out.Line("h %s %s %s %s %s => %s %s %s %s %s %s %s %s %s", progStr(cur), desc, keyDesc, w.descChain(x), preS,
		c1, cv, cjv, e1, e2, vw, vf, two, gpbft.VerifCacheShape(w.warm))
}

// strip / complete round trip of a full message
func (w *world) opStrip(r *msgR, xi int) {
	m := w.build(r)
	orig := w.build(r)
	desc := w.descMsg(orig, orig)
	res := func() (s string) {
		defer func() {
			if rec := recover(); rec != nil {
				s = "panic"
			}
		}()
		pm, err := pmsg.VerifToPartial(m)
		if err != nil {
			return "err"
		}
		key := w.descKey(pm.VoteValueKey)
		pv, pjv := w.descChain(pm.Vote.Value), jvalue(w, pm.GMessage)
		pmsg.VerifComplete(pm, w.chains[xi])
		cv, cjv := w.descChain(pm.Vote.Value), jvalue(w, pm.GMessage)
		eq := "0"
		if msgEq(pm.GMessage, orig) {
			eq = "1"
		}
		return fmt.Sprintf("%s %s %s %s %s %s", key, pv, pjv, cv, cjv, eq)
	}()
	w.out.Line("s %s %s => %s", desc, w.descChain(w.chains[xi]), res)
}

func msgEq(a, b *gpbft.GMessage) bool {
	if a.Sender != b.Sender || !a.Vote.Eq(&b.Vote) || !bytes.Equal(a.Signature, b.Signature) || !bytes.Equal(a.Ticket, b.Ticket) {
		return false
	}
	if (a.Justification == nil) != (b.Justification == nil) {
		return false
	}
	if a.Justification == nil {
		return true
	}
	var ba, bb bytes.Buffer
	_ = a.Justification.Signers.MarshalCBOR(&ba)
	_ = b.Justification.Signers.MarshalCBOR(&bb)
	return a.Justification.Vote.Eq(&b.Justification.Vote) && bytes.Equal(a.Justification.Signature, b.Justification.Signature) &&
		bytes.Equal(ba.Bytes(), bb.Bytes())
}

func (w *world) opPrune() {
	next := w.cur.ID + uint64(w.rng.Intn(3))
	cur := w.warm.Progress().ID
	if err := w.warm.StartInstanceAt(next, time.Time{}); err != nil {
		w.out.Line("# StartInstanceAt error: %v", err)
	}
	w.out.Line("prune %d cur=%d => %s", next, cur, gpbft.VerifCacheShape(w.warm))
	w.cur = gpbft.Instant{ID: next}
}

// ---------------------------------------------------------------------------------------------

type item struct {
	r    *msgR
	pm   *pmR
	kind int  // 0 validate, 1 two-stage, 2 strip, 3 sequence of sub-items executed back to back, 4 host flow
	rel  bool // present at a progress where the message is relevant
	seq  []item
}

// a progress at which a message with this vote is relevant (current instance, same round, not yet at DECIDE)
func (w *world) relProgress(v payR) gpbft.Instant {
	cur := gpbft.Instant{ID: v.inst, Round: v.round, Phase: gpbft.Phase(1 + w.rng.Intn(4))}
	if w.rng.Chance(1, 4) && v.round < 1<<63 {
		cur.Round = v.round + 1
	}
	if w.rng.Chance(1, 6) && v.inst > 0 && w.lookback > 1 {
		cur = gpbft.Instant{ID: v.inst - 1, Round: uint64(w.rng.Intn(3)), Phase: gpbft.Phase(1 + w.rng.Intn(5))}
	}
	return cur
}

// twin scenarios: an accepted original immediately followed (or preceded) by a twin that must be rejected,
// each presented at a relevant progress and twice, so that anything wrongly cached or wrongly keyed shows
// up as a difference between the warm and a fresh validator.
func (w *world) scenarios(base *msgR) []item {
	var out []item
	pair := func(a, b item) {
		a.rel, b.rel = true, true
		seq := []item{a, b, b}
		if w.rng.Bool() {
			seq = []item{b, a, b, a}
		}
		out = append(out, item{kind: 3, seq: seq})
	}
	full := func(r *msgR) item { return item{r: r, kind: 0} }
	part := func(p *pmR) item { return item{pm: p, kind: 1} }
	plain := func(r *msgR) *pmR { return &pmR{base: r, v0: -1, j0: -1, x: r.vote.chain} }
	// forged twins in full mode
	{
		t := clone(base)
		switch w.rng.Intn(4) {
		case 0:
			t.sig.kind, t.sig.seed = 1, w.rng.U64()
		case 1:
			cm := w.comts[w.comtFor(base.vote.inst)]
			t.sig.signer = cm.members[w.rng.Intn(len(cm.members))]
		case 2:
			t.ticket.kind, t.ticket.seed = 1, w.rng.U64()
		default:
			t.sig.key = keyR{chain: w.otherChain(base.vote.chain)}
		}
		pair(full(base), full(t))
		pair(part(plain(base)), part(plain(t)))
	}
	if base.just != nil {
		// same justification bytes under another value: vote (and its signature) for Y, justification for X
		oc := w.otherChain(base.vote.chain)
		t := clone(base)
		t.vote.chain, t.sig.over.chain, t.sig.key = oc, oc, keyR{chain: oc}
		pair(full(base), full(t))
		// partial mode: the same stripped justification announced under the key of Y (message signed over that key)
		p := plain(t)
		p.base = clone(base)
		p.base.sig.key = keyR{chain: oc}
		p.key = &keyR{chain: oc}
		if w.rng.Bool() {
			p.x = oc
		}
		pair(part(plain(base)), part(p))
		// across namespaces: full then partial, partial then full
		pair(full(base), part(p))
		pair(part(plain(base)), full(t))
		// justification whose aggregate does not verify
		b := clone(base)
		switch w.rng.Intn(3) {
		case 0:
			b.just.agg.kind, b.just.agg.seed = 1, w.rng.U64()
		case 1:
			b.just.agg.key = keyR{chain: oc}
		default:
			cv := w.comtFor(base.vote.inst)
			q := append([]int(nil), b.just.agg.signers...)
			total := w.comts[cv].c.PowerTable.ScaledTotal
			for len(q) > 0 && 3*w.power(cv, q) >= 2*total {
				i := w.rng.Intn(len(q))
				q = append(q[:i], q[i+1:]...)
			}
			b.just.signers, b.just.agg.signers = u64s(q), q
		}
		pair(full(base), full(b))
		pair(part(plain(base)), part(plain(b)))
	}
	if base.vote.phase == phM && base.just != nil && w.rng.Chance(1, 2) {
		// COMMIT of round 2^64-1 with the PREPARE quorum of its original round
		t := clone(base)
		t.vote.round, t.sig.over.round = 1<<64-1, 1<<64-1
		out = append(out, item{kind: 3, seq: []item{{r: t, kind: 0, rel: true}, {pm: plain(t), kind: 1, rel: true}}})
	}
	if (base.vote.phase == phC || base.vote.phase == phP) && base.just != nil && w.rng.Chance(1, 2) {
		// round 0 with evidence "from the previous round" 2^64-1
		t := clone(base)
		t.vote.round, t.sig.over.round, t.ticket.round = 0, 0, 0
		t.just.vote.round, t.just.agg.over.round = 1<<64-1, 1<<64-1
		out = append(out, item{kind: 3, seq: []item{{r: t, kind: 0, rel: true}, {pm: plain(t), kind: 1, rel: true}}})
	}
	return out
}

func (w *world) run(nBase int) {
	var items []item
	for b := 0; b < nBase; b++ {
		inst := uint64(w.rng.Intn(int(w.maxInst + 1)))
		if w.rng.Chance(2, 3) {
			inst = 2 + uint64(w.rng.Intn(2)) // concentrate so that caches get hits
		}
		base := w.genValid(inst)
		fam := []*msgR{base}
		nm := 2 + w.rng.Intn(5)
		for i := 0; i < nm; i++ {
			src := fam[w.rng.Intn(len(fam))]
			if w.rng.Chance(2, 3) {
				src = base
			}
			mu, _ := w.mutate(src)
			fam = append(fam, mu)
		}
		if w.rng.Chance(1, 2) {
			items = append(items, w.scenarios(base)...)
		}
		for _, r := range fam {
			// each message is presented several times (twins before/after each other by the shuffle)
			reps := 1 + w.rng.Intn(3)
			if mode == "c13" {
				reps = w.rng.Intn(2)
			}
			for i := 0; i < reps; i++ {
				items = append(items, item{r: r, kind: 0})
			}
			// partial path
			if w.rng.Chance(2, 3) || (mode == "c13") {
				p := &pmR{base: r, v0: -1, j0: -1, x: r.vote.chain}
				switch w.rng.Intn(12) {
				case 0: // announced key of another chain; message signature over that key, justification untouched
					oc := w.otherChain(r.vote.chain)
					p.key = &keyR{chain: oc}
					rr := clone(r)
					rr.sig.key = keyR{chain: oc}
					p.base = rr
					if w.rng.Bool() {
						p.x = oc
					}
				case 1:
					p.key = &keyR{chain: w.otherChain(r.vote.chain)}
				case 2:
					p.key = &keyR{chain: 0}
				case 3:
					p.key = &keyR{junk: 1 + w.rng.Intn(3)}
					if w.rng.Bool() {
						rr := clone(r)
						rr.sig.key = *p.key
						p.base = rr
					}
				case 4:
					p.x = w.otherChain(r.vote.chain)
				case 5:
					p.x = 0
				case 6:
					p.v0 = w.rng.Intn(len(w.chains))
				case 7:
					p.j0 = w.rng.Intn(len(w.chains))
				case 8:
					p.x = w.badCh[w.rng.Intn(len(w.badCh))]
				}
				reps := 1 + w.rng.Intn(2)
				for i := 0; i < reps; i++ {
					items = append(items, item{pm: p, kind: 1})
				}
				if w.rng.Chance(1, 2) {
					items = append(items, item{pm: p, kind: 4, rel: w.rng.Bool()})
				}
			}
			if w.rng.Chance(1, 3) || (mode == "c13" && w.rng.Bool()) {
				items = append(items, item{r: r, kind: 2})
			}
		}
	}
	// shuffle within a sliding window so that family members stay close (cache hits) but in every order
	for i := range items {
		j := i + w.rng.Intn(min(40, len(items)-i))
		items[i], items[j] = items[j], items[i]
	}
	for _, it := range items {
		if w.rng.Chance(1, 60) {
			w.opPrune()
		}
		w.exec(it)
	}
	w.concurrentPhase(items)
}

func (w *world) exec(it item) {
	prog := func(v payR) gpbft.Instant {
		if it.rel {
			return w.relProgress(v)
		}
		return w.genProgress(v)
	}
	switch it.kind {
	case 0:
		w.opValidate(it.r, prog(it.r.vote))
	case 1:
		p1 := prog(it.pm.base.vote)
		p2 := p1
		if w.rng.Chance(1, 4) {
			p2 = prog(it.pm.base.vote)
		}
		w.opTwoStage(it.pm, p1, p2)
	case 2:
		xi := it.r.vote.chain
		if w.rng.Chance(1, 5) {
			xi = w.otherChain(xi)
		}
		w.opStrip(it.r, xi)
	case 4:
		w.opHost(it.pm, prog(it.pm.base.vote), w.rng.Chance(3, 4))
	case 3:
		for _, sub := range it.seq {
			w.exec(sub)
		}
	}
}

// concurrentPhase: several goroutines validate the same batch of messages on the shared warm participant
// at one fixed progress, each in its own order. Every verdict must be the one a fresh validator gives
// (history independence under concurrency). It runs last in a world: the cache afterwards depends on the
// interleaving and is not tracked.
func (w *world) concurrentPhase(items []item) {
	var batch []*msgR
	for _, it := range items {
		if it.kind == 0 && len(batch) < 24 && w.rng.Chance(1, 3) {
			batch = append(batch, it.r)
		}
	}
	if len(batch) == 0 {
		return
	}
	cur := w.relProgress(batch[0].vote)
	w.setWarm(cur)
	const workers = 6
	results := make([][]string, workers)
	var wg sync.WaitGroup
	for g := 0; g < workers; g++ {
		order := make([]int, len(batch))
		for i := range order {
			order[i] = i
		}
		w.shuffle(order)
		msgs := make([]*gpbft.GMessage, len(batch))
		for i, r := range batch {
			msgs[i] = w.build(r)
		}
		results[g] = make([]string, len(batch))
		wg.Add(1)
		go func(g int, order []int, msgs []*gpbft.GMessage) {
			defer wg.Done()
			for rep := 0; rep < 2; rep++ {
				for _, i := range order {
					v := guard(func() error { _, err := w.warm.ValidateMessage(ctx, msgs[i]); return err })
					if rep == 0 || results[g][i] == v {
						results[g][i] = v
					} else {
						results[g][i] += "/" + v
					}
				}
			}
		}(g, order, msgs)
	}
	wg.Wait()
	for i, r := range batch {
		m := w.build(r)
		seen := map[string]bool{}
		var vs []string
		for g := 0; g < workers; g++ {
			if !seen[results[g][i]] {
				seen[results[g][i]] = true
				vs = append(vs, results[g][i])
			}
		}
		sort.Strings(vs)
		fr := w.fresh(cur)
		mf := w.build(r)
		vf := guard(func() error { _, err := fr.ValidateMessage(ctx, mf); return err })
		w.out.Line("cv %s %s => %s %s", progStr(cur), w.descMsg(m, m), strings.Join(vs, "|"), vf)
	}
}

func main() {
	out := vh.NewOut()
	defer out.Flush()
	rng := vh.NewRng(vh.Seed())
	mode = os.Getenv("VERIF_VALIDATE_MODE") // "c05" | "c13" | "" (both oracles)
	if mode != "" {
		out.Line("mode %s", mode)
	}
	out.Flush()
	mn := mocknet.New()
	defer mn.Close()
	h, err := mn.GenPeer()
	if err != nil {
		panic(err)
	}
	if ps, err = pubsub.NewGossipSub(ctx, h); err != nil {
		panic(err)
	}
	worlds := vh.EnvInt("VERIF_VALIDATE_WORLDS", 100)
	bases := vh.EnvInt("VERIF_VALIDATE_BASES", 40)
	if vh.Thorough() {
		worlds = vh.EnvInt("VERIF_VALIDATE_WORLDS", 2000)
	}
	// worlds are independent (own PRNG fork, own keys, own participants): run them on a few workers and
	// print their logs in world order, so the output is the same whatever the scheduling.
	workers := vh.EnvInt("VERIF_VALIDATE_WORKERS", 6)
	rngs := make([]*vh.Rng, worlds)
	for i := range rngs {
		rngs[i] = rng.Fork(uint64(i))
	}
	bufs := make([]*bufLiner, worlds)
	done := make([]chan struct{}, worlds)
	for i := range done {
		done[i] = make(chan struct{})
	}
	next := make(chan int, worlds)
	for i := 0; i < worlds; i++ {
		next <- i
	}
	close(next)
	for k := 0; k < workers; k++ {
		go func() {
			for i := range next {
				b := &bufLiner{}
				w := newWorld(rngs[i], b)
				w.run(bases)
				bufs[i] = b
				close(done[i])
			}
		}()
	}
	for i := 0; i < worlds; i++ {
		<-done[i]
		os.Stdout.Write(bufs[i].b.Bytes())
		bufs[i] = nil
	}
}
