// h_sim drives the simulator's decision oracle (C19a):
//
//	ec    — operation sequences on a real simulated EC (begin instance / notify decision / query
//	        completion and consensus), with decisions forged by the harness;
//	vd    — the real validateDecision on a single forged decision;
//	run   — a real sim.Simulation.Run with honest gpbft participants and a harness adversary that
//	        hands a forged decision to Host.ReceiveDecision (its own host, or — for the
//	        "honest completers disagree" case — overwrites an honest participant's record).
package main

import (
	"context"
	"fmt"
	"os"
	"strings"
	"time"

	"github.com/filecoin-project/go-bitfield"
	"github.com/filecoin-project/go-f3/gpbft"
	"github.com/filecoin-project/go-f3/internal/verifh/lib/vh"
	"github.com/filecoin-project/go-f3/sim"
	"github.com/filecoin-project/go-f3/sim/adversary"
	"github.com/filecoin-project/go-f3/sim/latency"
	"github.com/filecoin-project/go-f3/sim/signing"
)

const nn gpbft.NetworkName = "verifsim"

// ---------------------------------------------------------------------------------------------
// interned tipsets / supplemental data

type pool struct {
	tips []*gpbft.TipSet // id = index+1
}

func newPool() *pool {
	p := &pool{}
	ptA, ptB := gpbft.MakeCid([]byte("pt-a")), gpbft.MakeCid([]byte("pt-b"))
	for k := 0; k < 40; k++ { // ids 1..40: a linear chain
		p.tips = append(p.tips, &gpbft.TipSet{Epoch: int64(k), Key: []byte(fmt.Sprintf("ts-%02d", k)), PowerTable: ptA})
	}
	for k := 0; k < 40; k++ { // ids 41..80: same key, other epoch
		p.tips = append(p.tips, &gpbft.TipSet{Epoch: int64(k) + 1, Key: []byte(fmt.Sprintf("ts-%02d", k)), PowerTable: ptA})
	}
	for k := 0; k < 40; k++ { // ids 81..120: same key and epoch, other power table commitment
		p.tips = append(p.tips, &gpbft.TipSet{Epoch: int64(k), Key: []byte(fmt.Sprintf("ts-%02d", k)), PowerTable: ptB})
	}
	for k := 0; k < 40; k++ { // ids 121..160: same epoch, other key (a fork)
		p.tips = append(p.tips, &gpbft.TipSet{Epoch: int64(k), Key: []byte(fmt.Sprintf("fk-%02d", k)), PowerTable: ptA})
	}
	for k := 0; k < 40; k++ { // ids 161..200: other commitments
		t := &gpbft.TipSet{Epoch: int64(k), Key: []byte(fmt.Sprintf("ts-%02d", k)), PowerTable: ptA}
		t.Commitments[0] = 1
		p.tips = append(p.tips, t)
	}
	return p
}

func (p *pool) chain(ids []int) *gpbft.ECChain {
	c := &gpbft.ECChain{}
	for _, id := range ids {
		c.TipSets = append(c.TipSets, p.tips[id-1])
	}
	return c
}

func chainStr(kind byte, ids []int) string {
	switch kind {
	case '_':
		return "_"
	case 'e':
		return "e"
	}
	s := make([]string, len(ids))
	for i, id := range ids {
		s[i] = fmt.Sprint(id)
	}
	return strings.Join(s, ".")
}

func suppOf(id int, own *gpbft.SupplementalData) gpbft.SupplementalData {
	if id == 0 && own != nil {
		return *own
	}
	return gpbft.SupplementalData{PowerTable: gpbft.MakeCid([]byte(fmt.Sprintf("other-supp-%d", id)))}
}

// ---------------------------------------------------------------------------------------------
// a decision as the harness describes it

type valueSpec struct {
	kind byte // 'c' chain, '_' nil pointer, 'e' empty non-nil chain
	ids  []int
}

type payloadSpec struct {
	inst, round uint64
	phase       gpbft.Phase
	supp        int
	val         valueSpec
}

type decSpec struct {
	vote    payloadSpec
	signers []uint64
	garbage bool        // signature bytes are random
	sigBy   []uint64    // who produced the aggregate
	sigPl   payloadSpec // what they signed
}

func (v valueSpec) String() string { return chainStr(v.kind, v.ids) }

func (p payloadSpec) String() string {
	return fmt.Sprintf("%d,%d,%d,%d,%s", p.inst, p.round, int(p.phase), p.supp, p.val)
}

func u64s(xs []uint64) string {
	if len(xs) == 0 {
		return "-"
	}
	return vh.JoinInts(xs)
}

func (d *decSpec) String() string {
	sb := u64s(d.sigBy)
	spl := d.sigPl.String()
	if d.garbage {
		sb, spl = "g", "g"
	}
	return fmt.Sprintf("di=%d ph=%d rd=%d sp=%d val=%s sg=%s sb=%s spl=%s", d.vote.inst, int(d.vote.phase), d.vote.round, d.vote.supp,
		d.vote.val, u64s(d.signers), sb, spl)
}

type world struct {
	nn      gpbft.NetworkName
	backend *signing.FakeBackend
	pool    *pool
	rng     *vh.Rng
}

func (w *world) payload(p payloadSpec, own *gpbft.SupplementalData) gpbft.Payload {
	pl := gpbft.Payload{Instance: p.inst, Round: p.round, Phase: p.phase, SupplementalData: suppOf(p.supp, own)}
	switch p.val.kind {
	case '_':
		pl.Value = nil
	case 'e':
		pl.Value = &gpbft.ECChain{}
	default:
		pl.Value = w.pool.chain(p.val.ids)
	}
	return pl
}

// build turns the description into a real justification for a given table.
func (w *world) build(d *decSpec, pt *gpbft.PowerTable, own *gpbft.SupplementalData) *gpbft.Justification {
	j := &gpbft.Justification{Vote: w.payload(d.vote, own)}
	bf, err := bitfield.NewFromSet(d.signers).Copy()
	must(err)
	j.Signers = bf
	if d.garbage {
		j.Signature = make([]byte, 32)
		for i := range j.Signature {
			j.Signature[i] = byte(w.rng.U64())
		}
		return j
	}
	signed := w.payload(d.sigPl, own)
	msg := w.backend.MarshalPayloadForSigning(w.nn, &signed)
	agg, err := w.backend.Aggregate(pt.Entries.PublicKeys())
	must(err)
	var mask []int
	var sigs [][]byte
	var kept []uint64
	for _, s := range d.sigBy {
		if s >= uint64(len(pt.Entries)) {
			continue
		}
		sig, err := w.backend.Sign(context.Background(), pt.Entries[s].PubKey, msg)
		must(err)
		mask = append(mask, int(s))
		sigs = append(sigs, sig)
		kept = append(kept, s)
	}
	// the description must say who really signed: indices outside the table the decision is built against (a
	// decision retargeted to another instance) cannot sign and are not part of the aggregate
	d.sigBy = kept
	j.Signature, err = agg.Aggregate(mask, sigs)
	must(err)
	return j
}

func must(err error) {
	if err != nil {
		panic(err)
	}
}

func errKind(msg string) string {
	switch {
	case msg == "":
		return "ok"
	case strings.Contains(msg, "non-existing instance"):
		return "noInstance"
	case strings.Contains(msg, "instance mismatch"):
		return "instanceMismatch"
	case strings.Contains(msg, "decision for wrong phase"):
		return "wrongPhase"
	case strings.Contains(msg, "decision for wrong round"):
		return "wrongRound"
	case strings.Contains(msg, "decided empty tipset"):
		return "emptyValue"
	case strings.Contains(msg, "decided tipset with wrong base"):
		return "wrongBase"
	case strings.Contains(msg, "failed to iterate over signers"):
		return "badSigner"
	case strings.Contains(msg, "decision lacks strong quorum"):
		return "noQuorum"
	case strings.Contains(msg, "invalid aggregate signature"):
		return "badSig"
	}
	return "other"
}

// ---------------------------------------------------------------------------------------------
// generators

// genTable: n participants (ids 0..n-1) with one of several power shapes.
func (w *world) genTable(n int) *gpbft.PowerTable {
	r := w.rng
	pt := gpbft.NewPowerTable()
	shape := r.Intn(6)
	entries := make([]gpbft.PowerEntry, n)
	for i := range entries {
		var pw int64
		switch shape {
		case 0:
			pw = 1
		case 1:
			pw = int64(1 + r.Intn(10))
		case 2: // one dominant participant
			pw = 1
			if i == 0 {
				pw = int64(2*n + r.Intn(3*n+1))
			}
		case 3: // dust: some members scale to zero
			pw = 1
			if i%2 == 0 {
				pw = 1 << 40
			}
		case 4:
			pw = int64(1 + r.Intn(1000000))
		default:
			pw = int64(n - i)
		}
		key, _ := w.backend.GenerateKey()
		entries[i] = gpbft.PowerEntry{ID: gpbft.ActorID(i), Power: gpbft.NewStoragePower(pw), PubKey: key}
	}
	must(pt.Add(entries...))
	return pt
}

func tableStr(pt *gpbft.PowerTable) (ids, scaled string) {
	a := make([]uint64, len(pt.Entries))
	for i, e := range pt.Entries {
		a[i] = uint64(e.ID)
	}
	return u64s(a), vh.JoinInts(pt.ScaledPower)
}

// quorumSigners picks a signer set: by table index.
func (w *world) pickSigners(pt *gpbft.PowerTable, mode int) []uint64 {
	r := w.rng
	n := len(pt.Entries)
	var out []uint64
	switch mode {
	case 0: // everybody
		for i := 0; i < n; i++ {
			out = append(out, uint64(i))
		}
	case 1: // a minimal strong quorum in table order (largest first)
		var sum int64
		for i := 0; i < n; i++ {
			out = append(out, uint64(i))
			sum += pt.ScaledPower[i]
			if gpbft.IsStrongQuorum(sum, pt.ScaledTotal) {
				break
			}
		}
	case 2: // that quorum minus its last member: just below two thirds
		out = w.pickSigners(pt, 1)
		out = out[:len(out)-1]
	case 3: // random subset
		for i := 0; i < n; i++ {
			if r.Bool() {
				out = append(out, uint64(i))
			}
		}
	case 4: // nobody
	case 5: // a single member
		out = []uint64{uint64(r.Intn(n))}
	case 6: // smallest members first until just below a strong quorum
		var sum int64
		for i := n - 1; i >= 0; i-- {
			if gpbft.IsStrongQuorum(sum+pt.ScaledPower[i], pt.ScaledTotal) {
				break
			}
			sum += pt.ScaledPower[i]
			out = append([]uint64{uint64(i)}, out...)
		}
	}
	return out
}

// genDecision: a decision for instance `inst` whose base chain is `base`; mostly valid with one
// field forged, sometimes several.
func (w *world) genDecision(inst uint64, base []int, pt *gpbft.PowerTable, nInst int) (*decSpec, string) {
	r := w.rng
	head := base[len(base)-1]
	val := []int{head}
	if head < 38 {
		for k := 1 + r.Intn(3); k > 0 && val[len(val)-1] < 39; k-- {
			val = append(val, val[len(val)-1]+1)
		}
	}
	d := &decSpec{vote: payloadSpec{inst: inst, phase: gpbft.DECIDE_PHASE, val: valueSpec{kind: 'c', ids: val}}}
	d.signers = w.pickSigners(pt, r.Intn(2))
	forge := func(k int) string {
		switch k {
		case 0:
			return "valid"
		case 1:
			d.signers = w.pickSigners(pt, 2+r.Intn(5))
			return "signers"
		case 2:
			d.vote.inst = uint64(r.Intn(nInst + 2))
			return "instance"
		case 3:
			d.vote.phase = gpbft.Phase(r.Intn(7))
			return "phase"
		case 4:
			d.vote.round = uint64(1 + r.Intn(3))
			return "round"
		case 5:
			if r.Bool() {
				d.vote.val = valueSpec{kind: '_'}
			} else {
				d.vote.val = valueSpec{kind: 'e'}
			}
			return "empty"
		case 6: // wrong base: a look-alike of the right base, its parent, its child or a fork
			alts := []int{head + 40, head + 80, head + 120, head + 160}
			if head > 1 {
				alts = append(alts, head-1)
			}
			if head < 40 {
				alts = append(alts, head+1)
			}
			nb := alts[r.Intn(len(alts))]
			nv := append([]int{nb}, val[1:]...)
			d.vote.val = valueSpec{kind: 'c', ids: nv}
			return "base"
		case 7: // signer index outside the table
			d.signers = append(d.signers, uint64(len(pt.Entries)+r.Intn(3)))
			if r.Chance(1, 4) {
				d.signers[len(d.signers)-1] = 1 << 40
			}
			return "signeridx"
		case 8:
			d.vote.supp = 1 + r.Intn(2)
			return "supp"
		}
		return "valid"
	}
	tag := forge(r.Intn(9))
	if r.Chance(1, 6) {
		tag += "+" + forge(1+r.Intn(8))
	}
	// the aggregate: normally by the claimed signers over the claimed vote
	d.sigBy, d.sigPl = append([]uint64{}, d.signers...), d.vote
	d.sigPl.val.ids = append([]int{}, d.vote.val.ids...)
	switch r.Intn(12) {
	case 0:
		d.garbage = true
		tag += "+garbage"
	case 1: // signed by other members than claimed
		d.sigBy = w.pickSigners(pt, r.Intn(7))
		tag += "+sigset"
	case 2: // signed another payload
		switch r.Intn(5) {
		case 0:
			d.sigPl.inst++
		case 1:
			d.sigPl.round++
		case 2:
			d.sigPl.phase = gpbft.COMMIT_PHASE
		case 3:
			d.sigPl.supp = d.vote.supp + 1
		default:
			if d.sigPl.val.kind == 'c' && len(d.sigPl.val.ids) > 1 {
				d.sigPl.val.ids = d.sigPl.val.ids[:len(d.sigPl.val.ids)-1]
			} else {
				d.sigPl.val = valueSpec{kind: 'c', ids: []int{head, head + 121}}
			}
		}
		tag += "+sigpayload"
	}
	return d, tag
}

// ---------------------------------------------------------------------------------------------
// direct stream

func ecStream(out *vh.Out, w *world, cases int) {
	r := w.rng
	for c := 0; c < cases; c++ {
		ec := sim.VerifNewEC(nn, w.backend)
		out.Line("ec new case=%d", c)
		nInst := 1 + r.Intn(3)
		type instInfo struct {
			base []int
			pt   *gpbft.PowerTable
			eci  *sim.ECInstance
		}
		var insts []instInfo
		base := []int{1 + r.Intn(5)}
		for k := 0; k < nInst; k++ {
			pt := w.genTable(1 + r.Intn(8))
			eci := ec.Begin(w.pool.chain(base), pt)
			ids, scaled := tableStr(pt)
			out.Line("ec begin id=%d base=%s ids=%s scaled=%s", eci.Instance, chainStr('c', base), ids, scaled)
			insts = append(insts, instInfo{base: append([]int{}, base...), pt: pt, eci: eci})
			// next base extends this one
			nb := append([]int{}, base...)
			for j := 1 + r.Intn(3); j > 0 && nb[len(nb)-1] < 36; j-- {
				nb = append(nb, nb[len(nb)-1]+1)
			}
			base = nb
		}
		ops := 6 + r.Intn(20)
		// a third of the cases record only sound decisions (for a few competing values), so that the
		// completion / consensus queries are evaluated in states a passing run can actually be in
		honestCase := r.Chance(1, 3)
		for o := 0; o < ops; o++ {
			k := r.Intn(nInst)
			in := insts[k]
			if honestCase {
				if r.Chance(1, 3) {
					w.queryLine(out, k, in.pt, in.eci)
					continue
				}
				head := in.base[len(in.base)-1]
				alts := [][]int{{head, head + 1}, {head, head + 1}, {head, head + 1, head + 2}, {head, head + 121}, {head}}
				d := &decSpec{vote: payloadSpec{inst: uint64(k), phase: gpbft.DECIDE_PHASE, val: valueSpec{kind: 'c', ids: alts[r.Intn(len(alts))]}}}
				if r.Chance(2, 3) {
					d.vote.val.ids = alts[0]
				}
				d.signers = w.pickSigners(in.pt, r.Intn(2))
				d.sigBy, d.sigPl = d.signers, d.vote
				j := w.build(d, in.pt, in.eci.SupplementalData)
				p := in.pt.Entries[r.Intn(len(in.pt.Entries))].ID
				before := ec.Errors()
				res := guard(func() string {
					ec.Notify(p, j)
					if ec.Errors() > before {
						return errKind(ec.LastError())
					}
					return "ok"
				})
				out.Line("ec notify p=%d %s forge=sound => errs=%d kind=%s errnil=%d", p, d, ec.Errors(), res, b2i(ec.ErrIsNil()))
				continue
			}
			switch r.Intn(10) {
			case 0, 1: // query completion / consensus
				w.queryLine(out, k, in.pt, in.eci)
			case 2: // the check alone, on any instance of this EC
				d, tag := w.genDecision(uint64(k), in.base, in.pt, nInst)
				j := w.build(d, in.pt, in.eci.SupplementalData)
				res := guard(func() string {
					if err := sim.VerifValidate(in.eci, j); err != nil {
						return errKind(err.Error())
					}
					return "ok"
				})
				out.Line("vd inst=%d %s forge=%s => %s", k, d, tag, res)
			default:
				d, tag := w.genDecision(uint64(k), in.base, in.pt, nInst)
				// a decision is validated against the instance it names
				tbl, own := in.pt, in.eci.SupplementalData
				if d.vote.inst < uint64(nInst) {
					tbl, own = insts[d.vote.inst].pt, insts[d.vote.inst].eci.SupplementalData
				}
				j := w.build(d, tbl, own)
				// participant: a member of the table, preferably one that has not decided yet
				p := in.pt.Entries[r.Intn(len(in.pt.Entries))].ID
				before := ec.Errors()
				res := guard(func() string {
					ec.Notify(p, j)
					if ec.Errors() > before {
						return errKind(ec.LastError())
					}
					return "ok"
				})
				out.Line("ec notify p=%d %s forge=%s => errs=%d kind=%s errnil=%d", p, d, tag, ec.Errors(), res, b2i(ec.ErrIsNil()))
			}
		}
	}
}

func (w *world) queryLine(out *vh.Out, k int, pt *gpbft.PowerTable, eci *sim.ECInstance) {
	r := w.rng
	var excl []gpbft.ActorID
	var exclU []uint64
	for _, e := range pt.Entries {
		if r.Chance(1, 5) {
			excl = append(excl, e.ID)
			exclU = append(exclU, uint64(e.ID))
		}
	}
	comp := eci.HasCompleted(excl...)
	cons, ok := eci.HasReachedConsensus(excl...)
	cs := "none"
	if ok {
		switch {
		case cons == nil:
			cs = "_"
		case cons.IsZero():
			cs = "e"
		default:
			cs = w.chainIDs(cons)
		}
	}
	out.Line("ec query inst=%d excl=%s => completed=%d consensus=%s", k, u64s(exclU), b2i(comp), cs)
}

func (w *world) chainIDs(c *gpbft.ECChain) string {
	ids := make([]int, 0, len(c.TipSets))
	for _, t := range c.TipSets {
		id := 0
		for i, pt := range w.pool.tips {
			if pt.Equal(t) {
				id = i + 1
				break
			}
		}
		ids = append(ids, id)
	}
	return chainStr('c', ids)
}

func guard(f func() string) (res string) {
	defer func() {
		if p := recover(); p != nil {
			res = "panic"
		}
	}()
	return f()
}

func b2i(b bool) int {
	if b {
		return 1
	}
	return 0
}

// ---------------------------------------------------------------------------------------------
// run stream: a real simulation with a forging adversary

type forger struct {
	id      gpbft.ActorID
	host    adversary.Host
	w       *world
	sm      **sim.Simulation
	target  uint64
	kind    string
	honest  int
	done    bool
	line    string
	victim  int
	baseIDs func(uint64) []int
	decides map[gpbft.ActorID]map[gpbft.ActorID]bool // DECIDE votes of the last instance delivered so far, per receiver
}

// AllowMessage is consulted before every delivery (the simulation never reaches its global
// stabilisation time), which gives the adversary control between any two deliveries.
func (f *forger) AllowMessage(_ gpbft.ActorID, to gpbft.ActorID, msg gpbft.GMessage) bool {
	if f.kind == "lasttick" {
		f.maybeForgeLastTick(to, msg)
		return true
	}
	f.maybeForge(msg.Vote.Instance)
	return true
}

// maybeForgeLastTick: the forged decision is slipped in during the very tick in which the last honest participant
// of the last instance decides — the delivery of the DECIDE vote that completes its strong quorum — so that the
// run is over before another message is delivered. An already recorded honest decision is replaced by one for the
// same value (agreement still holds) whose signers are just below two thirds.
func (f *forger) maybeForgeLastTick(to gpbft.ActorID, msg gpbft.GMessage) {
	if f.done || msg.Vote.Instance != f.target || msg.Vote.Phase != gpbft.DECIDE_PHASE {
		return
	}
	eci := (*f.sm).GetInstance(f.target)
	if eci == nil {
		return
	}
	if f.decides == nil {
		f.decides = map[gpbft.ActorID]map[gpbft.ActorID]bool{}
	}
	if f.decides[to] == nil {
		f.decides[to] = map[gpbft.ActorID]bool{}
	}
	f.decides[to][msg.Sender] = true
	if int(to) >= f.honest || eci.GetDecision(to) != nil {
		return
	}
	var sum int64
	for s := range f.decides[to] {
		sp, _ := eci.PowerTable.Get(s)
		sum += sp
	}
	if !gpbft.IsStrongQuorum(sum, eci.PowerTable.ScaledTotal) {
		return
	}
	victim := -1
	for idx := 0; idx < f.honest; idx++ {
		if gpbft.ActorID(idx) == to {
			continue
		}
		if eci.GetDecision(gpbft.ActorID(idx)) == nil {
			return // somebody else is still undecided: this is not the last tick
		}
		victim = idx
	}
	if victim < 0 {
		return
	}
	w := f.w
	own := eci.GetDecision(gpbft.ActorID(victim))
	base := f.baseIDs(f.target)
	head := base[len(base)-1]
	ids := []int{head, head + 1}
	if w.chainIDs(own) != chainStr('c', ids) {
		return
	}
	d := &decSpec{vote: payloadSpec{inst: f.target, phase: gpbft.DECIDE_PHASE, val: valueSpec{kind: 'c', ids: ids}}}
	d.signers = w.pickSigners(eci.PowerTable, 2)
	d.sigBy, d.sigPl = d.signers, d.vote
	j := w.build(d, eci.PowerTable, eci.SupplementalData)
	must(sim.VerifHostReceiveDecision(*f.sm, victim, j))
	f.done, f.victim = true, victim
	f.line = d.String()
}

func (f *forger) ValidateMessage(_ context.Context, msg *gpbft.GMessage) (gpbft.ValidatedMessage, error) {
	return adversary.Validated(msg), nil
}

func (f *forger) StartInstanceAt(inst uint64, _ time.Time) error {
	f.maybeForge(inst)
	return nil
}

func (f *forger) ReceiveMessage(_ context.Context, vm gpbft.ValidatedMessage) error {
	f.maybeForge(vm.Message().Vote.Instance)
	return nil
}

func (f *forger) ReceiveAlarm(context.Context) error { return nil }

func (f *forger) maybeForge(seen uint64) {
	if f.done || seen < f.target || f.kind == "lasttick" {
		return
	}
	eci := (*f.sm).GetInstance(f.target)
	if eci == nil {
		return
	}
	w := f.w
	base := f.baseIDs(f.target)
	if f.kind == "disagree" {
		// wait until some honest participant has recorded its decision, then overwrite it with a
		// perfectly justified decision for another value
		for idx := 0; idx < f.honest; idx++ {
			own := eci.GetDecision(gpbft.ActorID(idx))
			if own == nil {
				continue
			}
			head := base[len(base)-1]
			other := []int{head, head + 121}
			if w.chainIDs(own) == chainStr('c', other) {
				other = []int{head, head + 122}
			}
			d := &decSpec{vote: payloadSpec{inst: f.target, phase: gpbft.DECIDE_PHASE, val: valueSpec{kind: 'c', ids: other}}}
			d.signers = w.pickSigners(eci.PowerTable, 0)
			d.sigBy, d.sigPl = d.signers, d.vote
			j := w.build(d, eci.PowerTable, eci.SupplementalData)
			must(sim.VerifHostReceiveDecision(*f.sm, idx, j))
			f.done, f.victim = true, idx
			f.line = fmt.Sprintf("%s own=%s", d, w.chainIDs(own))
			return
		}
		return
	}
	d, _ := w.genDecision(f.target, base, eci.PowerTable, 1<<20)
	switch f.kind {
	case "valid":
		head := base[len(base)-1]
		d = &decSpec{vote: payloadSpec{inst: f.target, phase: gpbft.DECIDE_PHASE, val: valueSpec{kind: 'c', ids: []int{head, head + 1}}}}
		d.signers = w.pickSigners(eci.PowerTable, w.rng.Intn(2))
		d.sigBy, d.sigPl = d.signers, d.vote
	case "underpowered":
		head := base[len(base)-1]
		d = &decSpec{vote: payloadSpec{inst: f.target, phase: gpbft.DECIDE_PHASE, val: valueSpec{kind: 'c', ids: []int{head, head + 121}}}}
		// the adversary alone, or any set just below two thirds
		if w.rng.Bool() {
			d.signers = []uint64{uint64(eci.PowerTable.Lookup[f.id])}
		} else {
			d.signers = w.pickSigners(eci.PowerTable, []int{2, 4, 5, 6}[w.rng.Intn(4)])
		}
		d.sigBy, d.sigPl = d.signers, d.vote
	}
	if d.vote.inst != f.target {
		// NotifyDecision files a decision under the instance it names; keep it on the target unless it
		// names a non-existing one
		if (*f.sm).GetInstance(d.vote.inst) != nil {
			d.vote.inst, d.sigPl.inst = f.target, f.target
		}
	}
	tbl, own := eci.PowerTable, eci.SupplementalData
	j := w.build(d, tbl, own)
	_, err := f.host.ReceiveDecision(context.Background(), j)
	must(err)
	f.done = true
	f.line = d.String()
}

func runStream(out *vh.Out, w *world, cases int) {
	r := w.rng
	kinds := []string{"random", "random", "random", "underpowered", "underpowered", "valid", "disagree", "none", "lasttick", "lasttick"}
	for c := 0; c < cases; c++ {
		honest := 1 + r.Intn(5)
		advPower := int64(1 + r.Intn(2))
		if honest == 1 {
			advPower = 1
		}
		// honest power must keep more than two thirds so that the honest run itself succeeds
		hp := int64(1)
		if 3*advPower >= int64(honest)*hp {
			hp = 3*advPower/int64(honest) + 1
		}
		instances := uint64(1 + r.Intn(3))
		target := uint64(r.Intn(int(instances)))
		kind := kinds[r.Intn(len(kinds))]
		if kind == "lasttick" {
			target = instances - 1
			if honest < 2 {
				honest = 2 + r.Intn(4)
				hp = 1
				if 3*advPower >= int64(honest)*hp {
					hp = 3*advPower/int64(honest) + 1
				}
			}
		}
		baseIDs := []int{1 + r.Intn(3)}
		var sm *sim.Simulation
		f := &forger{w: w, sm: &sm, target: target, kind: kind, honest: honest, victim: -1}
		// the base chain of instance k: the honest participants all propose base + next tipset, so
		// instance k's base is the chain decided in k-1
		f.baseIDs = func(k uint64) []int {
			eci := sm.GetInstance(k)
			var ids []int
			for _, t := range eci.BaseChain.TipSets {
				for i, pt := range w.pool.tips {
					if pt.Equal(t) {
						ids = append(ids, i+1)
						break
					}
				}
			}
			return ids
		}
		opts := []sim.Option{
			sim.WithLatencyModeler(func() (latency.Model, error) { return latency.None, nil }),
			sim.WithECEpochDuration(30 * time.Second),
			sim.WitECStabilisationDelay(3 * time.Second),
			sim.WithGpbftOptions(gpbft.WithDelta(200*time.Millisecond), gpbft.WithDeltaBackOffExponent(1.3),
				gpbft.WithRebroadcastBackoff(1.3, 0, time.Second, 5*time.Second)),
			sim.WithSigningBackend(w.backend),
			sim.WithGlobalStabilizationTime(100000 * time.Hour),
			sim.WithBaseChain(w.pool.chain(baseIDs)),
			sim.AddHonestParticipants(honest, &poolChainGen{w: w}, sim.UniformStoragePower(gpbft.NewStoragePower(hp))),
		}
		if kind != "none" || r.Bool() {
			opts = append(opts, sim.WithAdversary(func(id gpbft.ActorID, host adversary.Host) *adversary.Adversary {
				f.id, f.host = id, host
				return &adversary.Adversary{Receiver: f, Power: gpbft.NewStoragePower(advPower), ID: id}
			}))
		}
		var err error
		sm, err = sim.NewSimulation(opts...)
		must(err)
		if kind == "none" {
			f.done = true // never forge
		}
		res := guard(func() string {
			if err := sm.Run(instances, 10); err != nil {
				return "err:" + runErrKind(err.Error())
			}
			return "noerr"
		})
		tbl := "-"
		ids := "-"
		baseS := "-"
		if eci := sm.GetInstance(target); eci != nil {
			ids, tbl = tableStr(eci.PowerTable)
			baseS = chainStr('c', f.baseIDs(target))
		}
		injected := f.done && kind != "none"
		line := f.line
		if line == "" {
			line = "di=0 ph=0 rd=0 sp=0 val=_ sg=- sb=- spl=0,0,0,0,_"
		}
		out.Line("run case=%d honest=%d hp=%d adv=%d instances=%d target=%d kind=%s injected=%d victim=%d base=%s ids=%s scaled=%s %s => %s",
			c, honest, hp, advPower, instances, target, kind, b2i(injected), f.victim, baseS, ids, tbl, line, res)
	}
}

func runErrKind(msg string) string {
	switch {
	case strings.Contains(msg, "error in decision"):
		return "decision:" + errKind(msg)
	case strings.Contains(msg, "concensus was not reached"):
		return "noconsensus"
	case strings.Contains(msg, "network is partitioned"):
		return "partitioned"
	case strings.Contains(msg, "reached maximum number"):
		return "maxrounds"
	}
	if os.Getenv("VERIF_SIM_DEBUG") != "" {
		fmt.Fprintln(os.Stderr, "RUNERR:", msg)
	}
	return "other"
}

// poolChainGen: every honest participant proposes base + the next tipset of the pool's main chain.
type poolChainGen struct{ w *world }

func (g *poolChainGen) GenerateECChain(_ uint64, base *gpbft.TipSet, _ gpbft.ActorID) *gpbft.ECChain {
	for i, t := range g.w.pool.tips[:39] {
		if t.Equal(base) {
			return g.w.pool.chain([]int{i + 1, i + 2})
		}
	}
	c, err := gpbft.NewChain(base)
	must(err)
	return c
}

func main() {
	out := vh.NewOut()
	defer out.Flush()
	rng := vh.NewRng(vh.Seed())
	thorough := vh.Thorough()
	only := os.Getenv("VERIF_SIM_ONLY")
	fEc, fRun := rng.Fork(1), rng.Fork(2)
	ecCases, runCases := 400, 150
	if thorough {
		ecCases, runCases = 8000, 2500
	}
	ecCases = vh.EnvInt("VERIF_SIM_EC", ecCases)
	runCases = vh.EnvInt("VERIF_SIM_RUNS", runCases)
	if only == "" || only == "ec" {
		ecStream(out, &world{nn: nn, backend: signing.NewFakeBackend(), pool: newPool(), rng: fEc}, ecCases)
	}
	if only == "" || only == "run" {
		runStream(out, &world{nn: "sim", backend: signing.NewFakeBackend(), pool: newPool(), rng: fRun}, runCases)
	}
}
