// h_codec drives the real encoders of go-f3 (C14): signing payloads, tipset / VRF serialisation,
// chain keys (direct, batch, cached), every generated CBOR codec with and without zstd, and the
// decoders on malformed input. One observation per line; see lean/Driver/Codec.lean for the reader.
package main

import (
	"bytes"
	"encoding/hex"
	"fmt"
	"math/big"
	"os"
	"reflect"
	"runtime"
	"strings"
	"sync"
	"sync/atomic"
	"unsafe"

	"github.com/filecoin-project/go-bitfield"
	rlepluslazy "github.com/filecoin-project/go-bitfield/rle"
	"github.com/filecoin-project/go-f3/certexchange"
	"github.com/filecoin-project/go-f3/certs"
	"github.com/filecoin-project/go-f3/certstore"
	"github.com/filecoin-project/go-f3/chainexchange"
	"github.com/filecoin-project/go-f3/gpbft"
	"github.com/filecoin-project/go-f3/internal/encoding"
	"github.com/filecoin-project/go-f3/internal/verifh/lib/vh"
	"github.com/filecoin-project/go-f3/merkle"
	gsbig "github.com/filecoin-project/go-state-types/big"
	"github.com/ipfs/go-cid"
	"github.com/klauspost/compress/zstd"
	mh "github.com/multiformats/go-multihash"
)

type cm = encoding.CBORMarshalUnmarshaler

var out *vh.Out
var thorough bool

func hx(b []byte) string {
	if len(b) == 0 {
		return "-"
	}
	return hex.EncodeToString(b)
}

// ---------------------------------------------------------------------------------------------
// canonical text of a Go value (reflection over the struct definitions that exist)

var (
	tCid      = reflect.TypeOf(cid.Cid{})
	tBig      = reflect.TypeOf(gsbig.Int{})
	tBitfield = reflect.TypeOf(bitfield.BitField{})
	tChain    = reflect.TypeOf(gpbft.ECChain{})
)

func rawRLE(v reflect.Value) []byte {
	buf := v.FieldByName("rle").FieldByName("buf")
	res := make([]byte, buf.Len())
	for i := range res {
		res[i] = byte(buf.Index(i).Uint())
	}
	return res
}

func text(sb *strings.Builder, v reflect.Value) {
	t := v.Type()
	switch {
	case t == tCid:
		c := v.Interface().(cid.Cid)
		sb.WriteString("b")
		sb.WriteString(hex.EncodeToString(c.Bytes()))
		return
	case t == tBig:
		bi := v.Interface().(gsbig.Int)
		sb.WriteString("g")
		if bi.Int == nil {
			sb.WriteString("0")
		} else {
			sb.WriteString(bi.Int.String())
		}
		return
	case t == tBitfield:
		sb.WriteString("b")
		sb.WriteString(hex.EncodeToString(rawRLE(v)))
		return
	case t == tChain:
		ts := v.FieldByName("TipSets")
		sb.WriteString("(")
		for i := 0; i < ts.Len(); i++ {
			if i > 0 {
				sb.WriteString(",")
			}
			text(sb, ts.Index(i).Elem())
		}
		sb.WriteString(")")
		return
	}
	switch v.Kind() {
	case reflect.Ptr:
		if v.IsNil() {
			if t.Elem() == tChain {
				sb.WriteString("()")
			} else {
				sb.WriteString("n")
			}
			return
		}
		text(sb, v.Elem())
	case reflect.Struct:
		sb.WriteString("(")
		first := true
		for i := 0; i < v.NumField(); i++ {
			if !t.Field(i).IsExported() {
				continue
			}
			if !first {
				sb.WriteString(",")
			}
			first = false
			text(sb, v.Field(i))
		}
		sb.WriteString(")")
	case reflect.Slice, reflect.Array:
		if t.Elem().Kind() == reflect.Uint8 {
			sb.WriteString("b")
			for i := 0; i < v.Len(); i++ {
				fmt.Fprintf(sb, "%02x", v.Index(i).Uint())
			}
			return
		}
		sb.WriteString("(")
		for i := 0; i < v.Len(); i++ {
			if i > 0 {
				sb.WriteString(",")
			}
			text(sb, v.Index(i))
		}
		sb.WriteString(")")
	case reflect.Uint8, reflect.Uint64, reflect.Uint32, reflect.Uint16, reflect.Uint:
		fmt.Fprintf(sb, "u%d", v.Uint())
	case reflect.Int64, reflect.Int, reflect.Int32:
		fmt.Fprintf(sb, "i%d", v.Int())
	case reflect.Bool:
		if v.Bool() {
			sb.WriteString("t")
		} else {
			sb.WriteString("f")
		}
	default:
		panic("text: unsupported kind " + v.Kind().String())
	}
}

func textOf(v any) string {
	var sb strings.Builder
	rv := reflect.ValueOf(v)
	if rv.Kind() == reflect.Ptr && rv.Type().Elem() != tChain {
		rv = rv.Elem()
	}
	text(&sb, rv)
	return sb.String()
}

// ---------------------------------------------------------------------------------------------
// generators

func rbytes(r *vh.Rng, n int) []byte {
	b := make([]byte, n)
	for i := 0; i < n; i += 8 {
		x := r.U64()
		for j := 0; j < 8 && i+j < n; j++ {
			b[i+j] = byte(x >> (8 * j))
		}
	}
	return b
}

func pick(r *vh.Rng, xs ...int) int { return xs[r.Intn(len(xs))] }

func genCid(r *vh.Rng) cid.Cid {
	switch r.Intn(12) {
	case 0: // CIDv0
		h, _ := mh.Sum(rbytes(r, 4), mh.SHA2_256, -1)
		return cid.NewCidV0(h)
	case 1: // identity multihash of varying length
		h, _ := mh.Sum(rbytes(r, pick(r, 0, 1, 3, 20, 60)), mh.IDENTITY, -1)
		return cid.NewCidV1(uint64(pick(r, 0x55, 0x71, 0x1234, 0x7fffffff)), h)
	case 2: // sha2-256 raw
		h, _ := mh.Sum(rbytes(r, 4), mh.SHA2_256, -1)
		return cid.NewCidV1(cid.Raw, h)
	default:
		return gpbft.MakeCid(rbytes(r, 8))
	}
}

// sizes of a tipset key: empty, tiny, one or several CIDs, the maximum and one over
func genKeyLen(r *vh.Rng, allowOver bool) int {
	n := pick(r, 1, 38, 38, 76, 114, 190, 5, 0, 255, 256, 380, 759, 760)
	if allowOver && r.Chance(1, 40) {
		n = pick(r, 761, 800, 70000)
	}
	return n
}

func genTipSet(r *vh.Rng, epoch int64, allowOver bool) *gpbft.TipSet {
	ts := &gpbft.TipSet{Epoch: epoch, Key: rbytes(r, genKeyLen(r, allowOver)), PowerTable: genCid(r)}
	if r.Chance(1, 2) {
		copy(ts.Commitments[:], rbytes(r, 32))
	}
	if len(ts.Key) == 0 && r.Bool() {
		ts.Key = nil
	}
	return ts
}

func genEpoch(r *vh.Rng) int64 {
	switch r.Intn(10) {
	case 0:
		return 0
	case 1:
		return int64(r.U64()) // any int64, negative included
	case 2:
		return int64(1)<<62 + int64(r.Intn(1000))
	case 3:
		return -1 - int64(r.Intn(300))
	case 4:
		return int64(pick(r, 23, 24, 255, 256, 65535, 65536, 4294967295, 4294967296))
	default:
		return int64(r.Intn(5_000_000))
	}
}

// chain of n tipsets; n = 0 gives nil or an empty non-nil chain
func genChain(r *vh.Rng, n int, allowOver bool) *gpbft.ECChain {
	if n == 0 {
		if r.Bool() {
			return nil
		}
		return &gpbft.ECChain{}
	}
	c := &gpbft.ECChain{TipSets: make([]*gpbft.TipSet, n)}
	e := genEpoch(r)
	light := n > 40 // long chains: mostly single-CID keys to keep lines short
	for i := range c.TipSets {
		ts := genTipSet(r, e, allowOver)
		if light && !r.Chance(1, 16) {
			ts.Key = rbytes(r, 38)
		}
		c.TipSets[i] = ts
		e += int64(1 + r.Intn(3))
	}
	return c
}

func genChainLen(r *vh.Rng) int {
	switch r.Intn(10) {
	case 0:
		return 0
	case 1:
		return 1
	case 2:
		return pick(r, 100, 127, 128, 129)
	case 3:
		return pick(r, 2, 3, 4, 5, 7, 8, 9, 15, 16, 17, 31, 32, 33, 63, 64, 65)
	default:
		return 1 + r.Intn(12)
	}
}

func genSupp(r *vh.Rng) gpbft.SupplementalData {
	var sd gpbft.SupplementalData
	if r.Chance(3, 4) {
		copy(sd.Commitments[:], rbytes(r, 32))
	}
	sd.PowerTable = genCid(r)
	return sd
}

func genU64(r *vh.Rng) uint64 {
	switch r.Intn(8) {
	case 0:
		return 0
	case 1:
		return uint64(pick(r, 23, 24, 255, 256, 65535, 65536, 4294967295, 4294967296))
	case 2:
		return r.U64()
	case 3:
		return ^uint64(0) - uint64(r.Intn(3))
	default:
		return uint64(r.Intn(100000))
	}
}

func genPayload(r *vh.Rng, allowOver bool) gpbft.Payload {
	return gpbft.Payload{
		Instance:         genU64(r),
		Round:            genU64(r),
		Phase:            gpbft.Phase(pick(r, 0, 1, 2, 3, 4, 5, 6, 7, 23, 24, 255)),
		SupplementalData: genSupp(r),
		Value:            genChain(r, genChainLen(r), allowOver),
	}
}

func genSigLen(r *vh.Rng, max int, allowOver bool) int {
	if allowOver && r.Chance(1, 30) {
		return pick(r, max+1, 2*max, 300)
	}
	return pick(r, 0, 1, max-1, max, max, max, 23, 24)
}

func genBitfield(r *vh.Rng) bitfield.BitField {
	var bits []uint64
	switch r.Intn(6) {
	case 0:
	case 1:
		bits = []uint64{uint64(r.Intn(2000))}
	case 2: // dense run
		n := r.Intn(300)
		for i := 0; i < n; i++ {
			bits = append(bits, uint64(i))
		}
	default:
		n := r.Intn(60)
		x := uint64(0)
		for i := 0; i < n; i++ {
			x += uint64(1 + r.Intn(pick(r, 2, 20, 5000)))
			bits = append(bits, x)
		}
	}
	it, err := rlepluslazy.RunsFromSlice(bits)
	if err != nil {
		panic(err)
	}
	bf, err := bitfield.NewFromIter(it)
	if err != nil {
		panic(err)
	}
	return bf
}

func genJustification(r *vh.Rng, allowOver bool) *gpbft.Justification {
	return &gpbft.Justification{Vote: genPayload(r, allowOver), Signers: genBitfield(r), Signature: rbytes(r, genSigLen(r, 96, allowOver))}
}

func nilIfEmpty(b []byte, r *vh.Rng) []byte {
	if len(b) == 0 && r.Bool() {
		return nil
	}
	return b
}

func genGMessage(r *vh.Rng, allowOver bool) *gpbft.GMessage {
	m := &gpbft.GMessage{
		Sender:    gpbft.ActorID(genU64(r)),
		Vote:      genPayload(r, allowOver),
		Signature: nilIfEmpty(rbytes(r, genSigLen(r, 96, allowOver)), r),
		Ticket:    nilIfEmpty(rbytes(r, genSigLen(r, 96, allowOver)), r),
	}
	if r.Chance(2, 3) {
		m.Justification = genJustification(r, allowOver)
	}
	return m
}

func genPartial(r *vh.Rng, allowOver bool) *gpbft.PartialGMessage {
	p := &gpbft.PartialGMessage{}
	if r.Chance(9, 10) {
		p.GMessage = genGMessage(r, allowOver)
		if r.Chance(1, 2) {
			p.VoteValueKey = p.GMessage.Vote.Value.Key()
			if r.Bool() { // the stripped form that travels on the wire
				p.GMessage.Vote.Value = &gpbft.ECChain{}
			}
		}
	}
	if r.Chance(1, 4) {
		copy(p.VoteValueKey[:], rbytes(r, 32))
	}
	return p
}

func genBig(r *vh.Rng, allowOver bool) gsbig.Int {
	var x *big.Int
	switch r.Intn(9) {
	case 0:
		return gsbig.Zero()
	case 1:
		if r.Bool() {
			return gsbig.Int{} // nil *big.Int encodes as zero
		}
		return gsbig.NewInt(1)
	case 2:
		x = new(big.Int).SetBytes(rbytes(r, 1+r.Intn(20)))
	case 3: // 127 magnitude bytes: the largest that fits with the sign byte
		b := rbytes(r, 127)
		b[0] |= 1
		x = new(big.Int).SetBytes(b)
	case 4:
		if allowOver {
			b := rbytes(r, 128) // 129 with the sign byte: must be rejected
			b[0] |= 1
			x = new(big.Int).SetBytes(b)
		} else {
			x = big.NewInt(255)
		}
	case 5:
		x = new(big.Int).Lsh(big.NewInt(1), uint(pick(r, 8, 16, 63, 64, 128)))
	default:
		x = new(big.Int).SetUint64(r.U64() >> uint(r.Intn(60)))
	}
	if r.Chance(1, 3) {
		x.Neg(x)
	}
	return gsbig.Int{Int: x}
}

func genPowerEntry(r *vh.Rng, allowOver bool) gpbft.PowerEntry {
	n := pick(r, 48, 48, 48, 0, 1, 47)
	if allowOver && r.Chance(1, 30) {
		n = 49
	}
	return gpbft.PowerEntry{ID: gpbft.ActorID(genU64(r)), Power: genBig(r, allowOver), PubKey: nilIfEmpty(rbytes(r, n), r)}
}

func genEntriesLen(r *vh.Rng) int {
	return pick(r, 0, 1, 2, 3, 5, 23, 24, 25, 60)
}

func genPowerEntries(r *vh.Rng, n int, allowOver bool) gpbft.PowerEntries {
	if n == 0 && r.Bool() {
		return nil
	}
	pe := make(gpbft.PowerEntries, n)
	for i := range pe {
		pe[i] = genPowerEntry(r, allowOver)
	}
	return pe
}

func genDelta(r *vh.Rng, allowOver bool) certs.PowerTableDelta {
	n := pick(r, 0, 0, 48, 1)
	if allowOver && r.Chance(1, 30) {
		n = 49
	}
	return certs.PowerTableDelta{ParticipantID: gpbft.ActorID(genU64(r)), PowerDelta: genBig(r, allowOver), SigningKey: nilIfEmpty(rbytes(r, n), r)}
}

func genDiff(r *vh.Rng, n int, allowOver bool) certs.PowerTableDiff {
	if n == 0 && r.Bool() {
		return nil
	}
	d := make(certs.PowerTableDiff, n)
	for i := range d {
		d[i] = genDelta(r, allowOver)
	}
	return d
}

func genCert(r *vh.Rng, allowOver bool) *certs.FinalityCertificate {
	return &certs.FinalityCertificate{
		GPBFTInstance:    genU64(r),
		ECChain:          genChain(r, genChainLen(r), allowOver),
		SupplementalData: genSupp(r),
		Signers:          genBitfield(r),
		Signature:        nilIfEmpty(rbytes(r, pick(r, 0, 96, 96, 1, 97, 300)), r),
		PowerTableDelta:  genDiff(r, genEntriesLen(r), allowOver),
	}
}

// ---------------------------------------------------------------------------------------------
// codec registry

type entry struct {
	name  string
	gen   func(r *vh.Rng, allowOver bool) cm
	fresh func() cm
	enc   func(cm) ([]byte, error)
	dec   func([]byte) (cm, error)
	zenc  func(cm) ([]byte, error)
	zdec  func([]byte) (cm, error)
	size  uintptr
}

func mk[T any, PT interface {
	*T
	cm
}](name string, gen func(r *vh.Rng, allowOver bool) *T) *entry {
	c := encoding.NewCBOR[PT]()
	z, err := encoding.NewZSTD[PT]()
	if err != nil {
		panic(err)
	}
	var zero T
	return &entry{
		name:  name,
		gen:   func(r *vh.Rng, allowOver bool) cm { return PT(gen(r, allowOver)) },
		fresh: func() cm { return PT(new(T)) },
		enc:   func(v cm) ([]byte, error) { return c.Encode(v.(PT)) },
		dec: func(b []byte) (cm, error) {
			p := PT(new(T))
			return p, c.Decode(b, p)
		},
		zenc: func(v cm) ([]byte, error) { return z.Encode(v.(PT)) },
		zdec: func(b []byte) (cm, error) {
			p := PT(new(T))
			return p, z.Decode(b, p)
		},
		size: unsafe.Sizeof(zero),
	}
}

func registry() []*entry {
	return []*entry{
		mk("gpbft.TipSet", func(r *vh.Rng, o bool) *gpbft.TipSet { return genTipSet(r, genEpoch(r), o) }),
		mk("gpbft.LegacyECChain", func(r *vh.Rng, o bool) *gpbft.LegacyECChain {
			c := genChain(r, genChainLen(r), o)
			var l gpbft.LegacyECChain
			if c != nil && (len(c.TipSets) > 0 || r.Bool()) {
				l = make(gpbft.LegacyECChain, len(c.TipSets))
				for i, ts := range c.TipSets {
					l[i] = *ts
				}
			}
			return &l
		}),
		mk("gpbft.GMessage", genGMessage),
		mk("gpbft.PartialGMessage", genPartial),
		mk("gpbft.SupplementalData", func(r *vh.Rng, o bool) *gpbft.SupplementalData { s := genSupp(r); return &s }),
		mk("gpbft.Payload", func(r *vh.Rng, o bool) *gpbft.Payload { p := genPayload(r, o); return &p }),
		mk("gpbft.Justification", genJustification),
		mk("gpbft.PowerEntry", func(r *vh.Rng, o bool) *gpbft.PowerEntry { p := genPowerEntry(r, o); return &p }),
		mk("gpbft.PowerEntries", func(r *vh.Rng, o bool) *gpbft.PowerEntries { p := genPowerEntries(r, genEntriesLen(r), o); return &p }),
		mk("certs.PowerTableDelta", func(r *vh.Rng, o bool) *certs.PowerTableDelta { p := genDelta(r, o); return &p }),
		mk("certs.PowerTableDiff", func(r *vh.Rng, o bool) *certs.PowerTableDiff { p := genDiff(r, genEntriesLen(r), o); return &p }),
		mk("certs.FinalityCertificate", genCert),
		mk("certexchange.Request", func(r *vh.Rng, o bool) *certexchange.Request {
			return &certexchange.Request{FirstInstance: genU64(r), Limit: genU64(r), IncludePowerTable: r.Bool()}
		}),
		mk("certexchange.ResponseHeader", func(r *vh.Rng, o bool) *certexchange.ResponseHeader {
			return &certexchange.ResponseHeader{PendingInstance: genU64(r), PowerTable: genPowerEntries(r, genEntriesLen(r), o)}
		}),
		mk("chainexchange.Message", func(r *vh.Rng, o bool) *chainexchange.Message {
			return &chainexchange.Message{Instance: genU64(r), Chain: genChain(r, genChainLen(r), o), Timestamp: genEpoch(r)}
		}),
		mk("certstore.SnapshotHeader", func(r *vh.Rng, o bool) *certstore.SnapshotHeader {
			return &certstore.SnapshotHeader{Version: genU64(r), FirstInstance: genU64(r), LatestInstance: genU64(r),
				InitialPowerTable: genPowerEntries(r, genEntriesLen(r), o)}
		}),
	}
}

// ---------------------------------------------------------------------------------------------
// guarded calls: panics are results; allocation is measured around the call

type res struct {
	v     cm
	err   error
	panic string
	alloc uint64
}

// measure toggles the MemStats reads (stop-the-world; only the decode streams need the numbers)
var measure = true

func guarded(f func() (cm, error)) (r res) {
	var m0, m1 runtime.MemStats
	if measure {
		runtime.ReadMemStats(&m0)
	}
	func() {
		defer func() {
			if p := recover(); p != nil {
				r.panic = strings.ReplaceAll(fmt.Sprint(p), " ", "_")
				if len(r.panic) > 80 {
					r.panic = r.panic[:80]
				}
			}
		}()
		r.v, r.err = f()
	}()
	if measure {
		runtime.ReadMemStats(&m1)
		r.alloc = m1.TotalAlloc - m0.TotalAlloc
	}
	return r
}

func safeText(v cm) (s string) {
	defer func() {
		if p := recover(); p != nil {
			s = "?" + strings.ReplaceAll(fmt.Sprint(p), " ", "_")
		}
	}()
	return textOf(v)
}

// ---------------------------------------------------------------------------------------------
// stream 1: round trips

var rtCount int

func roundTrip(e *entry, v cm) []byte {
	txt := safeText(v)
	r1 := guarded(func() (cm, error) { b, err := e.enc(v); return nil, wrap(b, err) })
	if r1.panic != "" {
		out.Line("rt %s %s => panic:%s", e.name, txt, r1.panic)
		return nil
	}
	b1, err := unwrap(r1.err)
	if err != nil {
		out.Line("rt %s %s => err dec=- det=- z=- zdet=-", e.name, txt)
		return nil
	}
	// determinism: encode twice, and re-encode what was decoded
	det := "ok"
	if b2, err := e.enc(v); err != nil || !bytes.Equal(b1, b2) {
		det = "no"
	}
	dec := "ok"
	rd := guarded(func() (cm, error) { return e.dec(b1) })
	switch {
	case rd.panic != "":
		dec = "panic:" + rd.panic
	case rd.err != nil:
		dec = "err"
	default:
		if t2 := safeText(rd.v); t2 != txt {
			dec = "neq"
		} else if b3, err := e.enc(rd.v); err != nil || !bytes.Equal(b1, b3) {
			det = "no"
		}
	}
	// zstd (quick tier: every third value; the compressor dominates the harness time)
	z, zdet := "ok", "ok"
	rtCount++
	// quick tier: the compressor dominates the harness time (every codec instance initialises its own
	// encoders), so only the two types that travel compressed in production, and every second value
	if !thorough && (rtCount%2 != 0 || (e.name != "gpbft.PartialGMessage" && e.name != "chainexchange.Message")) {
		out.Line("rt %s %s => %s dec=%s det=%s z=- zdet=-", e.name, txt, hx(b1), dec, det)
		return b1
	}
	rz := guarded(func() (cm, error) { b, err := e.zenc(v); return nil, wrap(b, err) })
	if rz.panic != "" {
		z = "panic:" + rz.panic
		zdet = "-"
	} else if zb, err := unwrap(rz.err); err != nil {
		z, zdet = "encerr", "-"
	} else {
		if zb2, err := e.zenc(v); err != nil || !bytes.Equal(zb, zb2) {
			zdet = "no"
		}
		rzd := guarded(func() (cm, error) { return e.zdec(zb) })
		switch {
		case rzd.panic != "":
			z = "panic:" + rzd.panic
		case rzd.err != nil:
			z = "err"
		default:
			if safeText(rzd.v) != txt {
				z = "neq"
			}
		}
	}
	out.Line("rt %s %s => %s dec=%s det=%s z=%s zdet=%s", e.name, txt, hx(b1), dec, det, z, zdet)
	return b1
}

type bytesErr struct{ b []byte }

func (bytesErr) Error() string { return "bytes" }
func wrap(b []byte, err error) error {
	if err != nil {
		return err
	}
	return bytesErr{b}
}
func unwrap(err error) ([]byte, error) {
	if be, ok := err.(bytesErr); ok {
		return be.b, nil
	}
	return nil, err
}

// ---------------------------------------------------------------------------------------------
// stream 2: malformed input to the decoders

// decodeLine runs the generated decoder directly on a counting reader (consumed bytes are part of the
// observation) and through encoding.CBOR (the production path); both must agree.
func decodeLine(e *entry, kind string, b []byte) {
	var used int
	r := guarded(func() (cm, error) {
		p := e.fresh()
		rd := bytes.NewReader(b)
		err := p.UnmarshalCBOR(rd)
		used = len(b) - rd.Len()
		return p, err
	})
	r2 := guarded(func() (cm, error) { return e.dec(b) })
	agree := "same"
	if (r.err == nil) != (r2.err == nil) || (r.panic == "") != (r2.panic == "") {
		agree = "paths-differ"
	}
	alloc := r.alloc
	if r2.alloc > alloc {
		alloc = r2.alloc
	}
	switch {
	case r.panic != "" || r2.panic != "":
		out.Line("dec %s %s %s => panic:%s%s alloc=%d %s", e.name, kind, hx(b), r.panic, r2.panic, alloc, agree)
	case r.err != nil:
		out.Line("dec %s %s %s => err alloc=%d %s", e.name, kind, hx(b), alloc, agree)
	default:
		out.Line("dec %s %s %s => ok %s used=%d alloc=%d %s", e.name, kind, hx(b), safeText(r.v), used, alloc, agree)
	}
}

func cborHead(maj byte, n uint64) []byte {
	switch {
	case n < 24:
		return []byte{maj<<5 | byte(n)}
	case n < 1<<8:
		return []byte{maj<<5 | 24, byte(n)}
	case n < 1<<16:
		return []byte{maj<<5 | 25, byte(n >> 8), byte(n)}
	case n < 1<<32:
		return []byte{maj<<5 | 26, byte(n >> 24), byte(n >> 16), byte(n >> 8), byte(n)}
	default:
		return []byte{maj<<5 | 27, byte(n >> 56), byte(n >> 48), byte(n >> 40), byte(n >> 32), byte(n >> 24), byte(n >> 16), byte(n >> 8), byte(n)}
	}
}

// headAt parses the CBOR head at b[i:], returning major, argument and head length (0 if malformed).
func headAt(b []byte, i int) (byte, uint64, int) {
	if i >= len(b) {
		return 0, 0, 0
	}
	maj, low := b[i]>>5, b[i]&0x1f
	var n int
	switch {
	case low < 24:
		return maj, uint64(low), 1
	case low == 24:
		n = 1
	case low == 25:
		n = 2
	case low == 26:
		n = 4
	case low == 27:
		n = 8
	default:
		return 0, 0, 0
	}
	if i+1+n > len(b) {
		return 0, 0, 0
	}
	var v uint64
	for _, x := range b[i+1 : i+1+n] {
		v = v<<8 | uint64(x)
	}
	return maj, v, 1 + n
}

// heads lists the offsets of all CBOR heads of a well-formed encoding (walking byte strings over).
func heads(b []byte) []int {
	var res []int
	i := 0
	for i < len(b) {
		maj, v, n := headAt(b, i)
		if n == 0 {
			break
		}
		res = append(res, i)
		i += n
		if maj == 2 || maj == 3 {
			if v > uint64(len(b)) {
				break
			}
			i += int(v)
		}
	}
	return res
}

// oversize probes: every length-carrying head of a valid encoding is replaced by one announcing more,
// and the input is cut right after it: a decoder that checks the limit first rejects without allocating.
func oversizeProbes(e *entry, r *vh.Rng, b []byte) {
	for _, off := range heads(b) {
		maj, v, n := headAt(b, off)
		if maj != 2 && maj != 4 {
			continue
		}
		for _, big := range []uint64{v + 1 + uint64(r.Intn(3)), 8193, 1<<21 + 1, 1 << 28} {
			if big <= v {
				continue
			}
			p := append(append([]byte{}, b[:off]...), cborHead(maj, big)...)
			decodeLine(e, fmt.Sprintf("oversize@%d:%d", off, big), p)
		}
		if maj == 2 {
			// well-formed growth of a byte string to just above each documented limit: the body is padded,
			// the rest of the valid input follows, so only the length limit can make the decoder refuse
			for _, target := range []uint64{33, 49, 97, 129, 513, 761, 32769} {
				if target <= v || (target > 500 && !r.Chance(1, 6)) || (target > 1000 && !r.Chance(1, 8)) {
					continue
				}
				q := append(append([]byte{}, b[:off]...), cborHead(maj, target)...)
				q = append(q, b[off+n:off+n+int(v)]...)
				q = append(q, rbytes(r, int(target-v))...)
				q = append(q, b[off+n+int(v):]...)
				decodeLine(e, fmt.Sprintf("grow@%d:%d", off, target), q)
			}
		}
	}
}

func mutate(r *vh.Rng, b []byte) ([]byte, string) {
	c := append([]byte{}, b...)
	if len(c) == 0 {
		return []byte{byte(r.U64())}, "rand"
	}
	choice := r.Intn(9)
	if (choice == 2 || choice == 3) && len(heads(c)) == 0 {
		choice = 0
	}
	switch choice {
	case 0: // flip one bit
		i := r.Intn(len(c))
		c[i] ^= 1 << uint(r.Intn(8))
		return c, "bit"
	case 1: // replace a byte by an interesting one
		i := r.Intn(len(c))
		c[i] = byte(pick(r, 0x00, 0x17, 0x18, 0x19, 0x1a, 0x1b, 0x1f, 0x40, 0x58, 0x59, 0x5a, 0x5b, 0x80, 0x98, 0x9a, 0x9b, 0xd8, 0xf4, 0xf5, 0xf6, 0xf7, 0xff, 0x2a, 0x12, 0x20))
		return c, "byte"
	case 2: // rewrite a head with another argument
		hs := heads(c)
		off := hs[r.Intn(len(hs))]
		maj, v, n := headAt(c, off)
		nv := []uint64{v + 1, v - 1, 0, 23, 24, 255, 256, 65535, 65536, 1 << 32, v ^ (1 << uint(r.Intn(20))), r.U64()}[r.Intn(12)]
		nb := cborHead(maj, nv)
		if r.Chance(1, 6) { // non-minimal form
			nb = []byte{maj<<5 | 25, byte(v >> 8), byte(v)}
		}
		return append(append(append([]byte{}, c[:off]...), nb...), c[off+n:]...), "head"
	case 3: // change a major type
		hs := heads(c)
		off := hs[r.Intn(len(hs))]
		c[off] = c[off]&0x1f | byte(r.Intn(8))<<5
		return c, "major"
	case 4: // delete a slice
		i := r.Intn(len(c))
		j := i + 1 + r.Intn(min(8, len(c)-i))
		return append(c[:i], c[j:]...), "del"
	case 5: // duplicate a slice
		i := r.Intn(len(c))
		j := i + 1 + r.Intn(min(16, len(c)-i))
		return append(append(append([]byte{}, c[:j]...), c[i:j]...), c[j:]...), "dup"
	case 6: // insert random bytes
		i := r.Intn(len(c) + 1)
		return append(append(append([]byte{}, c[:i]...), rbytes(r, 1+r.Intn(4))...), c[i:]...), "ins"
	case 7: // trailing garbage
		return append(c, rbytes(r, 1+r.Intn(5))...), "trail"
	default: // several bit flips
		for k := 0; k < 3; k++ {
			c[r.Intn(len(c))] ^= 1 << uint(r.Intn(8))
		}
		return c, "bits"
	}
}

// arrayLimitProbes builds well-formed arrays of exactly limit-1, limit and limit+1 elements for the three
// top-level slice types (element encodings are self-delimiting, so the input is the array head followed
// by element encodings), and a certificate whose signature is one byte above the default 2 MiB limit.
func arrayLimitProbes(r *vh.Rng, reg []*entry) {
	byName := map[string]*entry{}
	for _, e := range reg {
		byName[e.name] = e
	}
	for _, pair := range [][2]string{{"gpbft.PowerEntries", "gpbft.PowerEntry"}, {"certs.PowerTableDiff", "certs.PowerTableDelta"},
		{"gpbft.LegacyECChain", "gpbft.TipSet"}} {
		arr, el := byName[pair[0]], byName[pair[1]]
		var elems [][]byte
		for len(elems) < 7 {
			if b, err := el.enc(el.gen(r, false)); err == nil && len(b) < 120 {
				elems = append(elems, b)
			}
		}
		for _, n := range []int{8191, 8192, 8193, 8200} {
			b := cborHead(4, uint64(n))
			for i := 0; i < n; i++ {
				b = append(b, elems[r.Intn(len(elems))]...)
			}
			decodeLine(arr, fmt.Sprintf("arraygrow:%d", n), b)
		}
	}
	// long signature: only sizes are logged (the line would be 4 MB of hex)
	fc := byName["certs.FinalityCertificate"]
	for _, n := range []int{2 << 20, 2<<20 + 1} {
		c := genCert(r, false)
		c.ECChain = genChain(r, 1, false)
		c.PowerTableDelta = nil
		c.Signature = rbytes(r, 64)
		b, err := fc.enc(c)
		if err != nil {
			panic(err)
		}
		// locate the signature head (0x58 0x40) from the end and rewrite it
		idx := bytes.LastIndex(b, append([]byte{0x58, 0x40}, c.Signature...))
		if idx < 0 {
			panic("signature not found")
		}
		q := append(append([]byte{}, b[:idx]...), cborHead(2, uint64(n))...)
		q = append(q, make([]byte, n)...)
		q = append(q, b[idx+2+64:]...)
		rr := guarded(func() (cm, error) { return fc.dec(q) })
		v := "ok"
		if rr.panic != "" {
			v = "panic:" + rr.panic
		} else if rr.err != nil {
			v = "err"
		}
		out.Line("decbig certs.FinalityCertificate Signature len=%d inputlen=%d => %s alloc=%d", n, len(q), v, rr.alloc)
	}
}

// ---------------------------------------------------------------------------------------------
// stream 3: signing payloads, tipsets, VRF inputs, chain keys

func chainText(c *gpbft.ECChain) string {
	var sb strings.Builder
	if c == nil {
		return "()"
	}
	text(&sb, reflect.ValueOf(c).Elem())
	return sb.String()
}

type ptGet struct{}

func (ptGet) Get(gpbft.ActorID) (int64, gpbft.PubKey) { return 1, gpbft.PubKey{1} }

type payCase struct {
	nn     gpbft.NetworkName
	p      gpbft.Payload
	beacon []byte
}

func (pc payCase) text() string {
	return fmt.Sprintf("%s %d %d %d %s %s %s", hx([]byte(pc.nn)), pc.p.Phase, pc.p.Round, pc.p.Instance,
		hx(pc.p.SupplementalData.Commitments[:]), hx(pc.p.SupplementalData.PowerTable.Bytes()), chainText(pc.p.Value))
}

// signed returns the bytes through every route the implementation offers; "sb" reports whether
// MessageBuilder.PrepareSigningInputs and MarshalForSigningWithValueKey(Key()) agree with MarshalForSigning.
func (pc payCase) signed() ([]byte, string) {
	b := pc.p.MarshalForSigning(pc.nn)
	sbs := "ok"
	if b2 := pc.p.MarshalForSigningWithValueKey(pc.nn, pc.p.Value.Key()); !bytes.Equal(b, b2) {
		sbs = "withkey-differs"
	}
	mb := &gpbft.MessageBuilder{NetworkName: pc.nn, PowerTable: ptGet{}, Payload: pc.p, BeaconForTicket: pc.beacon}
	if sb, err := mb.PrepareSigningInputs(1); err != nil {
		sbs = "builder-error"
	} else {
		if !bytes.Equal(sb.PayloadToSign, b) {
			sbs = "builder-payload-differs"
		}
		if pc.beacon != nil && !bytes.Equal(sb.VRFToSign, gpbft.VerifVRFSigInput(pc.beacon, pc.p.Instance, pc.p.Round, pc.nn)) {
			sbs = "builder-vrf-differs"
		}
	}
	return b, sbs
}

func cloneChain(c *gpbft.ECChain) *gpbft.ECChain {
	if c == nil {
		return nil
	}
	n := &gpbft.ECChain{TipSets: make([]*gpbft.TipSet, len(c.TipSets))}
	for i, ts := range c.TipSets {
		cp := *ts
		cp.Key = append([]byte{}, ts.Key...)
		n.TipSets[i] = &cp
	}
	if len(n.TipSets) == 0 {
		n.TipSets = nil
	}
	return n
}

func flipBit(b []byte, r *vh.Rng) []byte {
	c := append([]byte{}, b...)
	c[r.Intn(len(c))] ^= 1 << uint(r.Intn(8))
	return c
}

var bitChoices = []uint{0, 1, 7, 8, 15, 16, 31, 32, 33, 47, 48, 55, 56, 62, 63}

// perturbTipSet changes exactly one field of one tipset.
func perturbTipSet(r *vh.Rng, ts *gpbft.TipSet, which int) string {
	switch which {
	case 0:
		ts.Epoch ^= int64(1) << bitChoices[r.Intn(len(bitChoices))]
		return "epoch"
	case 1:
		switch {
		case len(ts.Key) == 0 || r.Chance(1, 4):
			ts.Key = append(append([]byte{}, ts.Key...), byte(r.U64())) // longer
		case r.Chance(1, 4):
			ts.Key = append([]byte{}, ts.Key[:len(ts.Key)-1]...) // shorter
		default:
			ts.Key = flipBit(ts.Key, r)
		}
		return "key"
	case 2:
		old := ts.PowerTable
		for ts.PowerTable == old {
			ts.PowerTable = genCid(r)
		}
		return "powertable"
	default:
		b := flipBit(ts.Commitments[:], r)
		copy(ts.Commitments[:], b)
		return "commitments"
	}
}

func signingStream(r *vh.Rng, n int) {
	nets := []string{"", "f", "filecoin", "calibrationnet", "a:b", ":", "net:", "testnetnet/7", string(rbytes(r, 5))}
	for i := 0; i < n; i++ {
		pc := payCase{nn: gpbft.NetworkName(nets[r.Intn(len(nets))]), p: genPayload(r, false)}
		if r.Chance(1, 2) {
			pc.beacon = rbytes(r, pick(r, 0, 1, 32, 32, 96, 5))
		}
		if i%7 == 3 {
			pc.p.Value = genChain(r, pick(r, 100, 128, 64, 65), false)
		}
		b, sbs := pc.signed()
		out.Line("pay %s => %s %s sb=%s", pc.text(), hx(keyBytes(pc.p.Value.Key())), hx(b), sbs)

		// single-field perturbations
		emit := func(field string, q payCase) {
			b2, _ := q.signed()
			out.Line("sens %s %s => %s", field, q.text(), hx(b2))
		}
		q := pc
		long := pc.p.Value.Len() > 40 // long chains: only the chain perturbations (lines are large)
		if long {
			goto chainPerturbations
		}
		q.nn = gpbft.NetworkName(string(pc.nn) + string([]byte{byte(pick(r, ':', 'x', 0, 1, 5))}))
		emit("network", q)
		if len(pc.nn) > 0 {
			q = pc
			q.nn = gpbft.NetworkName(flipBit([]byte(pc.nn), r))
			emit("network", q)
			q.nn = pc.nn[:len(pc.nn)-1]
			emit("network", q)
		}
		for k := 0; k < 3; k++ {
			q = pc
			q.p.Instance ^= 1 << bitChoices[r.Intn(len(bitChoices))]
			emit("instance", q)
			q = pc
			q.p.Round ^= 1 << bitChoices[r.Intn(len(bitChoices))]
			emit("round", q)
		}
		q = pc
		q.p.Phase ^= 1 << uint(r.Intn(8))
		emit("phase", q)
		q = pc
		copy(q.p.SupplementalData.Commitments[:], flipBit(pc.p.SupplementalData.Commitments[:], r))
		emit("commitments", q)
		q = pc
		for q.p.SupplementalData.PowerTable == pc.p.SupplementalData.PowerTable {
			q.p.SupplementalData.PowerTable = genCid(r)
		}
		emit("powertable", q)
		// swap of two numeric fields with different values
		if pc.p.Instance != pc.p.Round {
			q = pc
			q.p.Instance, q.p.Round = pc.p.Round, pc.p.Instance
			emit("swap-instance-round", q)
		}
	chainPerturbations:
		// the chain
		if !pc.p.Value.IsZero() {
			L := pc.p.Value.Len()
			for which := 0; which < 4; which++ {
				q = pc
				q.p.Value = cloneChain(pc.p.Value)
				idx := pick(r, 0, L-1, r.Intn(L))
				f := perturbTipSet(r, q.p.Value.TipSets[idx], which)
				emit(fmt.Sprintf("tipset[%d].%s", idx, f), q)
			}
			q = pc
			q.p.Value = cloneChain(pc.p.Value)
			q.p.Value.TipSets = q.p.Value.TipSets[:L-1]
			if L == 1 {
				q.p.Value = nil
			}
			emit("chain-drop-last", q)
			q = pc
			q.p.Value = cloneChain(pc.p.Value)
			q.p.Value.TipSets = append(q.p.Value.TipSets, genTipSet(r, genEpoch(r), false))
			emit("chain-append", q)
			q = pc
			q.p.Value = cloneChain(pc.p.Value)
			q.p.Value.TipSets = append(q.p.Value.TipSets, q.p.Value.TipSets[L-1])
			emit("chain-duplicate-last", q)
			if L >= 2 {
				q = pc
				q.p.Value = cloneChain(pc.p.Value)
				q.p.Value.TipSets = q.p.Value.TipSets[1:]
				emit("chain-drop-first", q)
				j := r.Intn(L - 1)
				if !q0eq(pc.p.Value.TipSets[j], pc.p.Value.TipSets[j+1]) {
					q = pc
					q.p.Value = cloneChain(pc.p.Value)
					q.p.Value.TipSets[j], q.p.Value.TipSets[j+1] = q.p.Value.TipSets[j+1], q.p.Value.TipSets[j]
					emit(fmt.Sprintf("chain-swap[%d]", j), q)
				}
			}
			if L >= 3 {
				q = pc
				q.p.Value = cloneChain(pc.p.Value)
				j := 1 + r.Intn(L-2)
				q.p.Value.TipSets = append(q.p.Value.TipSets[:j], q.p.Value.TipSets[j+1:]...)
				emit(fmt.Sprintf("chain-drop[%d]", j), q)
			}
		} else {
			q = pc
			q.p.Value = genChain(r, 1, false)
			emit("chain-bottom-to-base", q)
		}

		// VRF input and its perturbations
		if pc.beacon != nil && !long {
			vrf := func(nn gpbft.NetworkName, beacon []byte, inst, round uint64) string {
				return fmt.Sprintf("%s %s %d %d", hx([]byte(nn)), hx(beacon), inst, round)
			}
			v0 := gpbft.VerifVRFSigInput(pc.beacon, pc.p.Instance, pc.p.Round, pc.nn)
			t0 := vrf(pc.nn, pc.beacon, pc.p.Instance, pc.p.Round)
			out.Line("vrf %s => %s", t0, hx(v0))
			vs := func(field string, nn gpbft.NetworkName, beacon []byte, inst, round uint64) {
				out.Line("vsens %s %s => %s", field, vrf(nn, beacon, inst, round), hx(gpbft.VerifVRFSigInput(beacon, inst, round, nn)))
			}
			vs("network", pc.nn+gpbft.NetworkName([]byte{byte(pick(r, ':', 'y', 0))}), pc.beacon, pc.p.Instance, pc.p.Round)
			if len(pc.nn) > 0 {
				vs("network", gpbft.NetworkName(flipBit([]byte(pc.nn), r)), pc.beacon, pc.p.Instance, pc.p.Round)
			}
			vs("beacon", pc.nn, append(append([]byte{}, pc.beacon...), byte(pick(r, ':', 0, 7))), pc.p.Instance, pc.p.Round)
			if len(pc.beacon) > 0 {
				vs("beacon", pc.nn, flipBit(pc.beacon, r), pc.p.Instance, pc.p.Round)
				vs("beacon", pc.nn, pc.beacon[:len(pc.beacon)-1], pc.p.Instance, pc.p.Round)
			}
			for k := 0; k < 3; k++ {
				vs("instance", pc.nn, pc.beacon, pc.p.Instance^1<<bitChoices[r.Intn(len(bitChoices))], pc.p.Round)
				vs("round", pc.nn, pc.beacon, pc.p.Instance, pc.p.Round^1<<bitChoices[r.Intn(len(bitChoices))])
			}
			if pc.p.Instance != pc.p.Round {
				vs("swap-instance-round", pc.nn, pc.beacon, pc.p.Round, pc.p.Instance)
			}
		}
	}
}

func q0eq(a, b *gpbft.TipSet) bool { return a.Equal(b) }

func tipsetStream(r *vh.Rng, n int) {
	for i := 0; i < n; i++ {
		ts := genTipSet(r, genEpoch(r), false)
		b0 := ts.MarshalForSigning()
		t0 := textOf(ts)
		out.Line("ts %s => %s", t0, hx(b0))
		for which := 0; which < 4; which++ {
			cp := *ts
			cp.Key = append([]byte{}, ts.Key...)
			f := perturbTipSet(r, &cp, which)
			out.Line("tsens %s %s => %s", f, textOf(&cp), hx(cp.MarshalForSigning()))
		}
	}
}

func keysOf(ks []gpbft.ECChainKey) string {
	if len(ks) == 0 {
		return "-"
	}
	parts := make([]string, len(ks))
	for i, k := range ks {
		parts[i] = hex.EncodeToString(k[:])
	}
	return strings.Join(parts, ",")
}

// chain keys three ways for every prefix, plus merkle.Tree / BatchTree on the same leaves
func keysLine(c *gpbft.ECChain) {
	L := c.Len()
	direct := make([]gpbft.ECChainKey, L)
	for i := 0; i < L; i++ {
		direct[i] = cloneChain(c).Prefix(i).Key()
	}
	batch := cloneChain(c).KeysForPrefixes()
	var cached, apfresh []gpbft.ECChainKey
	content := "ok"
	for i, p := range cloneChain(c).AllPrefixes() {
		cached = append(cached, p.Key())
		// the prefix object must hold exactly the first i+1 tipsets, and its cached key must be the key of
		// that content
		if !p.Eq(cloneChain(c).Prefix(i)) {
			content = fmt.Sprintf("allprefixes[%d]-differs-from-prefix", i)
		}
		apfresh = append(apfresh, cloneChain(p).Key())
	}
	// after the full key was cached on the parent, prefixes must still get their own keys
	parent := cloneChain(c)
	_ = parent.Key()
	warm := make([]gpbft.ECChainKey, L)
	for i := 0; i < L; i++ {
		warm[i] = parent.Prefix(i).Key()
	}
	out.Line("keys %s => direct=%s batch=%s cached=%s warm=%s full=%s apfresh=%s content=%s", chainText(c), keysOf(direct), keysOf(batch),
		keysOf(cached), keysOf(warm), hx(keyBytes(c.Key())), keysOf(apfresh), content)
}

func keyBytes(k gpbft.ECChainKey) []byte { return k[:] }

// derived chains after the parent's key was cached: the key must be that of the derived content
func derivedLines(r *vh.Rng, c *gpbft.ECChain) {
	if c.IsZero() {
		return
	}
	emit := func(op string, d *gpbft.ECChain) {
		fresh := cloneChain(d)
		out.Line("dkey %s %s => %s %s", op, chainText(d), hx(keyBytes(d.Key())), hx(keyBytes(fresh.Key())))
	}
	for _, warmParent := range []bool{true, false} {
		p := cloneChain(c)
		tag := "cold"
		if warmParent {
			_ = p.Key()
			tag = "warm"
		}
		emit("extend-"+tag, p.Extend(rbytes(r, 38), rbytes(r, 38)))
		emit("extend0-"+tag, p.Extend())
		emit("append-"+tag, p.Append(genTipSet(r, genEpoch(r), false)))
		emit("base-"+tag, p.BaseChain())
		emit("prefix-"+tag, p.Prefix(r.Intn(p.Len())))
		emit("prefixfull-"+tag, p.Prefix(p.Len()+3))
		for _, ap := range p.AllPrefixes()[:min(3, p.Len())] {
			emit("allprefixes-extend-"+tag, ap.Extend(rbytes(r, 38)))
			emit("allprefixes-prefix-"+tag, ap.Prefix(0))
		}
		// fork every cached prefix object but the longest (Append / Extend on a prefix must not write into the
		// tipsets of the parent or of the longer prefixes), then read every cached object again
		q := cloneChain(c)
		if warmParent {
			_ = q.Key()
		}
		aps := q.AllPrefixes()
		for i := 0; i+1 < len(aps); i++ {
			if r.Intn(2) == 0 {
				emit("allprefixes-fork-append-"+tag, aps[i].Append(genTipSet(r, genEpoch(r), false)))
			} else {
				emit("allprefixes-fork-extend-"+tag, aps[i].Extend(rbytes(r, 38)))
			}
		}
		for i, ap := range aps {
			if i >= 4 && i+2 < len(aps) {
				continue
			}
			op := "allprefixes-afterfork-" + tag
			if !ap.Eq(cloneChain(c).Prefix(i)) {
				op = "allprefixes-afterfork-CONTENT-CHANGED-" + tag
			}
			emit(op, ap)
		}
		emit("parent-afterfork-"+tag, q)
		// decoding into a chain object that is already in use (its key possibly cached): the object must then
		// be the decoded chain in every respect, its key included
		other := genChain(r, 1+r.Intn(4), false)
		if !other.IsZero() {
			var buf bytes.Buffer
			if err := other.MarshalCBOR(&buf); err == nil {
				tgt := cloneChain(c)
				if warmParent {
					_ = tgt.Key()
				}
				if err := tgt.UnmarshalCBOR(bytes.NewReader(buf.Bytes())); err == nil {
					emit("decode-into-used-"+tag, tgt)
				}
			}
		}
	}
}

func merkleLine(r *vh.Rng, n int) {
	vals := make([][]byte, n)
	for i := range vals {
		vals[i] = rbytes(r, pick(r, 0, 1, 31, 32, 33, 64, 65, 117, 136, 137, 200))
	}
	parts := make([]string, n)
	for i, v := range vals {
		parts[i] = hx(v)
	}
	root := merkle.Tree(vals)
	b := merkle.BatchTree(vals)
	bs := make([]string, len(b))
	for i := range b {
		bs[i] = hex.EncodeToString(b[i][:])
	}
	direct := make([]string, n)
	for i := range vals {
		d := merkle.Tree(vals[:i+1])
		direct[i] = hex.EncodeToString(d[:])
	}
	vs, bt, dt := strings.Join(parts, ","), strings.Join(bs, ","), strings.Join(direct, ",")
	if n == 0 {
		vs, bt, dt = "-", "-", "-"
	}
	out.Line("merkle %s => root=%s batch=%s direct=%s", vs, hex.EncodeToString(root[:]), bt, dt)
}

// ---------------------------------------------------------------------------------------------
// stream 4: zstd

var refDecoder *zstd.Decoder

func refDecompress(b []byte) string {
	if refDecoder == nil {
		d, err := zstd.NewReader(nil, zstd.WithDecoderMaxMemory(256<<20), zstd.WithDecoderConcurrency(1))
		if err != nil {
			panic(err)
		}
		refDecoder = d
	}
	p, err := refDecoder.DecodeAll(b, nil)
	if err != nil {
		if strings.Contains(err.Error(), "exceeded") || strings.Contains(err.Error(), "too large") || strings.Contains(err.Error(), "too big") {
			return "toolarge"
		}
		return "bad"
	}
	if len(p) > 1<<20 {
		return "toolarge"
	}
	return hx(p)
}

func zdecLine(e *entry, kind string, zb []byte) {
	r := guarded(func() (cm, error) { return e.zdec(zb) })
	plain := "-"
	if len(zb) < 1<<16 {
		plain = refDecompress(zb)
	}
	switch {
	case r.panic != "":
		out.Line("zdec %s %s %s plain=%s => panic:%s alloc=%d", e.name, kind, hx(zb), plain, r.panic, r.alloc)
	case r.err != nil:
		out.Line("zdec %s %s %s plain=%s => err alloc=%d", e.name, kind, hx(zb), plain, r.alloc)
	default:
		out.Line("zdec %s %s %s plain=%s => ok %s alloc=%d", e.name, kind, hx(zb), plain, safeText(r.v), r.alloc)
	}
}

func zbombLine(e *entry, kind string, plainSize int, zb []byte) {
	r := guarded(func() (cm, error) { return e.zdec(zb) })
	v := "ok"
	if r.panic != "" {
		v = "panic:" + r.panic
	} else if r.err != nil {
		v = "err"
	}
	out.Line("zbomb %s %s plain=%d clen=%d => %s alloc=%d", e.name, kind, plainSize, len(zb), v, r.alloc)
}

func zstdStream(r *vh.Rng, reg []*entry) {
	enc, err := zstd.NewWriter(nil)
	if err != nil {
		panic(err)
	}
	byName := map[string]*entry{}
	for _, e := range reg {
		byName[e.name] = e
	}
	targets := []*entry{byName["gpbft.PartialGMessage"], byName["chainexchange.Message"], byName["certs.FinalityCertificate"]}
	sizes := []int{1<<20 + 1, 12 << 20}
	if thorough {
		sizes = append(sizes, 64<<20, 512<<20)
	}
	for _, e := range targets {
		for _, sz := range sizes {
			plain := make([]byte, sz)
			zbombLine(e, "zeros", sz, enc.EncodeAll(plain, nil))
			// a frame that starts like a valid message and then repeats
			v := e.gen(r, false)
			b, _ := e.enc(v)
			if len(b) > 0 {
				for i := range plain {
					plain[i] = b[i%len(b)]
				}
				zbombLine(e, "repeat", sz, enc.EncodeAll(plain, nil))
			}
			// streaming writer: no content size in the frame header
			var buf bytes.Buffer
			w, _ := zstd.NewWriter(&buf)
			_, _ = w.Write(plain)
			_ = w.Close()
			zbombLine(e, "stream", sz, buf.Bytes())
		}
		// several frames that are individually below the cap
		part := enc.EncodeAll(make([]byte, 600<<10), nil)
		zbombLine(e, "multiframe", 1800<<10, bytes.Join([][]byte{part, part, part}, nil))
		// exactly at the cap: allowed to decompress; the CBOR decoder then rejects the zeros
		zbombLine(e, "atcap", 1<<20, enc.EncodeAll(make([]byte, 1<<20), nil))
	}
	// values whose CBOR form straddles the 1 MiB cap (certificate with a long signature)
	fc := byName["certs.FinalityCertificate"]
	for _, delta := range []int{-4000, -1, 0, 1, 4000} {
		c := genCert(r, false)
		c.ECChain = genChain(r, 2, false)
		c.PowerTableDelta = nil
		c.Signature = rbytes(r, 70000) // 5-byte head, like the final size
		b0, _ := fc.enc(c)
		c.Signature = rbytes(r, 70000+(1<<20)+delta-len(b0))
		b, err := fc.enc(c)
		zb, zerr := fc.zenc(c)
		verdict := "encerr"
		if zerr == nil {
			rz := guarded(func() (cm, error) { return fc.zdec(zb) })
			switch {
			case rz.panic != "":
				verdict = "panic:" + rz.panic
			case rz.err != nil:
				verdict = "decerr"
			case safeText(rz.v) != safeText(c):
				verdict = "neq"
			default:
				verdict = "ok"
			}
		}
		out.Line("zcap certs.FinalityCertificate cbor=%d cborerr=%v => %s", len(b), err != nil, verdict)
	}
	// concurrent decoding through the shared codecs (pubsub validators decode in parallel): every call must
	// still return the value that was encoded
	zconcLine(r, targets)
	// degenerate inputs a peer can send: nothing at all, a few bytes, a frame with no content
	for _, e := range targets {
		zdecLine(e, "empty", []byte{})
		zdecLine(e, "nil", nil)
		zdecLine(e, "short", []byte{0x28})
		zdecLine(e, "magic", []byte{0x28, 0xb5, 0x2f, 0xfd})
		zdecLine(e, "emptyframe", enc.EncodeAll(nil, nil))
	}
	// mutated frames of valid messages
	n := 200
	if thorough {
		n = 6000
	}
	for i := 0; i < n; i++ {
		e := targets[r.Intn(len(targets))]
		v := e.gen(r, false)
		zb, err := e.zenc(v)
		if err != nil || len(zb) > 4000 {
			continue
		}
		if i%10 == 0 {
			zdecLine(e, "valid", zb)
			continue
		}
		m, kind := mutate(r, zb)
		if r.Chance(1, 5) {
			m = m[:r.Intn(len(m)+1)]
			kind = "trunc"
		}
		zdecLine(e, kind, m)
	}
}

func zconcLine(r *vh.Rng, targets []*entry) {
	type job struct {
		e    *entry
		zb   []byte
		want string
	}
	workers, iters := 48, 120
	if thorough {
		iters = 1500
	}
	var jobs []job
	for len(jobs) < workers {
		e := targets[r.Intn(len(targets))]
		v := e.gen(r, false)
		if c, ok := v.(*certs.FinalityCertificate); ok && len(jobs)%3 == 0 {
			c.Signature = rbytes(r, 20000+r.Intn(200000)) // long, incompressible: decoding takes a while
		}
		zb, err := e.zenc(v)
		if err != nil {
			continue
		}
		jobs = append(jobs, job{e, zb, safeText(v)})
	}
	var mismatch, errs, panics atomic.Int64
	var wg sync.WaitGroup
	for _, j := range jobs {
		wg.Add(1)
		go func(j job) {
			defer wg.Done()
			for i := 0; i < iters; i++ {
				rz := guarded(func() (cm, error) { return j.e.zdec(j.zb) })
				switch {
				case rz.panic != "":
					panics.Add(1)
				case rz.err != nil:
					errs.Add(1)
				case safeText(rz.v) != j.want:
					mismatch.Add(1)
				}
			}
		}(j)
	}
	wg.Wait()
	verdict := "ok"
	if mismatch.Load()+errs.Load()+panics.Load() > 0 {
		verdict = fmt.Sprintf("mismatch=%d,err=%d,panic=%d", mismatch.Load(), errs.Load(), panics.Load())
	}
	out.Line("zconc workers=%d iters=%d => %s", workers, iters, verdict)
}

// ---------------------------------------------------------------------------------------------

func main() {
	out = vh.NewOut()
	defer out.Flush()
	rng := vh.NewRng(vh.Seed())
	thorough = vh.Thorough()
	reg := registry()
	only := os.Getenv("VERIF_CODEC_ONLY") // comma separated stream names, for debugging
	want := func(s string) bool { return only == "" || strings.Contains(","+only+",", ","+s+",") }

	parts := make([]string, len(reg))
	for i, e := range reg {
		parts[i] = fmt.Sprintf("%s=%d", e.name, e.size)
	}
	out.Line("cfg sizeof %s", strings.Join(parts, " "))

	if want("merkle") {
		r := rng.Fork(1)
		maxN := 40
		if thorough {
			maxN = 140
		}
		for n := 0; n <= maxN; n++ {
			merkleLine(r, n)
		}
		extra := []int{63, 64, 65, 127, 128, 129}
		if thorough {
			extra = []int{191, 192, 193, 255, 256, 257, 300}
		}
		for _, n := range extra {
			merkleLine(r, n)
		}
	}
	if want("keys") {
		r := rng.Fork(2)
		lens := []int{1, 2, 3, 4, 5, 6, 7, 8, 9, 12, 15, 16, 17, 24, 31, 32, 33, 48, 63, 64, 65, 96, 100, 127, 128}
		if thorough {
			lens = nil
			for n := 1; n <= 130; n++ {
				lens = append(lens, n)
			}
		}
		for _, n := range lens {
			c := genChain(r, n, false)
			keysLine(c)
			if n <= 40 || thorough {
				derivedLines(r, c)
			}
		}
		keysLine(nil)
		keysLine(&gpbft.ECChain{})
	}
	if want("sign") {
		n := 120
		if thorough {
			n = 2500
		}
		signingStream(rng.Fork(3), n)
		tipsetStream(rng.Fork(4), n*3)
	}
	var corpus [][2]any
	if want("rt") {
		r := rng.Fork(5)
		n := 45
		if thorough {
			n = 1000
		}
		measure = false
		for _, e := range reg {
			for i := 0; i < n; i++ {
				v := e.gen(r, true)
				b := roundTrip(e, v)
				if b != nil && len(b) < 6000 && len(corpus) < 200000 {
					corpus = append(corpus, [2]any{e, b})
				}
			}
		}
	}
	measure = true
	if want("dec") {
		r := rng.Fork(6)
		truncFull, probes, muts := 6, 6, 150
		if thorough {
			truncFull, probes, muts = 15, 40, 3000
		}
		perType := map[string]int{}
		for _, cb := range corpus {
			e, b := cb[0].(*entry), cb[1].([]byte)
			k := perType[e.name]
			perType[e.name]++
			if k < probes {
				oversizeProbes(e, r, b)
			}
			if k < truncFull && len(b) <= 700 {
				for i := 0; i < len(b); i++ {
					decodeLine(e, "trunc", b[:i])
				}
			} else if k < 4*truncFull {
				for j := 0; j < 12; j++ {
					decodeLine(e, "trunc", b[:r.Intn(len(b))])
				}
			}
		}
		for _, e := range reg {
			var mine [][]byte
			for _, cb := range corpus {
				if cb[0].(*entry) == e {
					mine = append(mine, cb[1].([]byte))
				}
			}
			if len(mine) == 0 {
				continue
			}
			for i := 0; i < muts; i++ {
				b := mine[r.Intn(len(mine))]
				m, kind := mutate(r, b)
				if r.Chance(1, 4) {
					m2, k2 := mutate(r, m)
					m, kind = m2, kind+"+"+k2
				}
				decodeLine(e, kind, m)
			}
			// encodings of one type fed to the decoder of another
			for i := 0; i < muts/10; i++ {
				o := corpus[r.Intn(len(corpus))]
				decodeLine(e, "foreign", o[1].([]byte))
			}
			for i := 0; i < muts/10; i++ {
				decodeLine(e, "random", rbytes(r, r.Intn(40)))
			}
		}
	}
	if want("dec") {
		arrayLimitProbes(rng.Fork(8), reg)
	}
	if want("zstd") {
		zstdStream(rng.Fork(7), reg)
	}
}
