// h_certs drives certs.ValidateFinalityCertificates, MakePowerTableDiff and ApplyPowerTableDiffs
// (C04): valid histories over evolving power tables signed with the FakeBackend, a per-field
// corruption stream, and power-table pairs / near-valid deltas.
//
// Lines (see lean/F3/Model/CertsParse.lean for the value syntax):
//
//	cid <id> <table>                         dictionary: CID id -> table
//	cert <id> <cert>                         dictionary: certificate id -> certificate
//	val <net> <next> <base> <table> <certids> => <next'> <chain'> <table'> <errclass> <callerTableUntouched>
//	apply <table> <diffs> => ok <table'> <untouched> <remake> | err <class> <untouched>
//	mkapply <a> <b> => <diff> ok <table'> <untouched> | <diff> err <class> <untouched>
package main

import (
	"bytes"
	"fmt"
	"math/big"
	"sort"
	"strings"

	"github.com/filecoin-project/go-bitfield"
	"github.com/filecoin-project/go-f3/certs"
	"github.com/filecoin-project/go-f3/gpbft"
	"github.com/filecoin-project/go-f3/internal/verifh/lib/certgen"
	"github.com/filecoin-project/go-f3/internal/verifh/lib/vh"
	gbig "github.com/filecoin-project/go-state-types/big"
	"github.com/ipfs/go-cid"
	"github.com/multiformats/go-multihash"
)

var (
	g   *certgen.Gen
	out *vh.Out
	rng *vh.Rng
)

const (
	netA gpbft.NetworkName = "vnet-a"
	netB gpbft.NetworkName = "vnet-b"
)

func classifyDiffErr(msg string) string {
	switch {
	case strings.Contains(msg, "not sorted by participant"):
		return "notSorted"
	case strings.Contains(msg, "contains an empty delta"):
		return "emptyDelta"
	case strings.Contains(msg, "includes an unchanged key"):
		return "unchangedKey"
	case strings.Contains(msg, "removes all power"):
		return "removeWithKey"
	case strings.Contains(msg, "non-positive power delta"):
		return "newNonPositive"
	case strings.Contains(msg, "empty signing key"):
		return "newNoKey"
	case strings.Contains(msg, "resulted in negative power"):
		return "negative"
	}
	return "other(" + strings.ReplaceAll(msg, " ", "_") + ")"
}

func classifyValErr(err error) string {
	if err == nil {
		return "ok"
	}
	msg := err.Error()
	switch {
	case strings.Contains(msg, "expected instance"):
		return "instance"
	case strings.Contains(msg, "invalid finality certificate at instance"):
		return "badChain"
	case strings.Contains(msg, "empty finality certificate"):
		return "emptyChain"
	case strings.Contains(msg, "base tipset does not match"):
		return "baseMismatch"
	case strings.Contains(msg, "failed to scale power table"):
		return "scale"
	case strings.Contains(msg, "but we only have"):
		return "signerRange"
	case strings.Contains(msg, "no effective power"):
		return "signerZero"
	case strings.Contains(msg, "insufficient power"):
		return "noQuorum"
	case strings.Contains(msg, "invalid signature on finality certificate"):
		return "badSig"
	case strings.Contains(msg, "failed to apply power table delta"):
		return "diff:" + classifyDiffErr(msg)
	case strings.Contains(msg, "incorrect power diff"):
		return "cidMismatch"
	}
	return "other(" + strings.ReplaceAll(msg, " ", "_") + ")"
}

// validate runs the real validator and logs one `val` line.
func validate(nn gpbft.NetworkName, table gpbft.PowerEntries, next uint64, base *gpbft.TipSet, cs []*certs.FinalityCertificate) {
	ids := g.CertIDs(cs)
	before := certgen.CloneTable(table)
	tableTxt := g.TableText(table)
	baseTxt := g.OptTipText(base)
	var (
		rnext  uint64
		rchain *gpbft.ECChain
		rtable gpbft.PowerEntries
		cls    string
	)
	func() {
		defer func() {
			if r := recover(); r != nil {
				cls = "panic(" + strings.ReplaceAll(fmt.Sprint(r), " ", "_") + ")"
			}
		}()
		var err error
		rnext, rchain, rtable, err = certs.ValidateFinalityCertificates(g.Backend, nn, table, next, base, cs...)
		cls = classifyValErr(err)
	}()
	same := certgen.SameTable(before, table)
	out.Line("val %d %d %s %s %s => %d %s %s %s %v", g.NetID(nn), next, baseTxt, tableTxt, ids,
		rnext, g.ChainText(rchain), g.TableText(rtable), cls, same)
}

func applyDiffs(a gpbft.PowerEntries, ds []certs.PowerTableDiff, remake bool) {
	before := certgen.CloneTable(a)
	aTxt := g.TableText(a)
	dtxt := "~"
	if len(ds) > 0 {
		parts := make([]string, len(ds))
		for i, d := range ds {
			parts[i] = g.DiffText(d)
		}
		dtxt = strings.Join(parts, "/")
	}
	var res gpbft.PowerEntries
	var err error
	func() {
		defer func() {
			if r := recover(); r != nil {
				err = fmt.Errorf("panic: %v", r)
			}
		}()
		res, err = certs.ApplyPowerTableDiffs(a, ds...)
	}()
	same := certgen.SameTable(before, a)
	if err != nil {
		out.Line("apply %s %s => err %s %v", aTxt, dtxt, classifyDiffErr(err.Error()), same)
		return
	}
	rm := "~"
	if remake && len(ds) == 1 {
		rm = g.DiffText(certs.MakePowerTableDiff(a, res))
	}
	out.Line("apply %s %s => ok %s %v %s", aTxt, dtxt, g.TableText(res), same, rm)
}

func mkApply(a, b gpbft.PowerEntries) certs.PowerTableDiff {
	beforeA, beforeB := certgen.CloneTable(a), certgen.CloneTable(b)
	aTxt, bTxt := g.TableText(a), g.TableText(b)
	d := certs.MakePowerTableDiff(a, b)
	res, err := certs.ApplyPowerTableDiffs(a, d)
	same := certgen.SameTable(beforeA, a) && certgen.SameTable(beforeB, b)
	if err != nil {
		out.Line("mkapply %s %s => %s err %s %v", aTxt, bTxt, g.DiffText(d), classifyDiffErr(err.Error()), same)
	} else {
		out.Line("mkapply %s %s => %s ok %s %v", aTxt, bTxt, g.DiffText(d), g.TableText(res), same)
	}
	return d
}

// ------------------------------------------------------------------------------------------------

func randHistory(first uint64, n int) *certgen.History {
	size := 1 + rng.Intn(9)
	if rng.Chance(1, 12) {
		size = 30 + rng.Intn(170)
	}
	style := []int{certgen.PowUniform, certgen.PowUniform, certgen.PowSkewed, certgen.PowMixed, certgen.PowEqual, certgen.PowHuge}[rng.Intn(6)]
	maxSuffix := 4
	if rng.Chance(1, 15) {
		maxSuffix = 127
	}
	return g.History(netA, certgen.HistOpts{N: n, First: first, TableSize: size, IDRange: size + 6, Style: style,
		ChangeProb: 45, MaxSuffix: maxSuffix})
}

func randFirst() uint64 {
	switch rng.Intn(6) {
	case 0:
		return 0
	case 1:
		return ^uint64(0) - uint64(rng.Intn(4)) // instance numbers wrapping around
	case 2:
		return rng.U64() >> uint(rng.Intn(60))
	default:
		return uint64(rng.Intn(2000))
	}
}

// dustTable: one or two dominant members and several with zero scaled power.
func dustTable() gpbft.PowerEntries {
	n := 3 + rng.Intn(5)
	t := make(gpbft.PowerEntries, 0, n)
	for i := 0; i < n; i++ {
		p := gbig.NewInt(int64(1 + rng.Intn(3)))
		if i < 1+rng.Intn(2) {
			p = gbig.Int{Int: new(big.Int).Lsh(big.NewInt(int64(1+rng.Intn(9))), uint(30+rng.Intn(60)))}
		}
		t = append(t, gpbft.PowerEntry{ID: gpbft.ActorID(1 + i*3 + rng.Intn(3)), Power: p, PubKey: g.NewKey()})
	}
	sort.Sort(t)
	return t
}

func otherTipset(ts *gpbft.TipSet) *gpbft.TipSet {
	c := certgen.CloneTip(ts)
	switch rng.Intn(4) {
	case 0:
		c.Epoch++
	case 1:
		c.Key = append(c.Key, 'x')
	case 2:
		c.Commitments[rng.Intn(32)] ^= 1
	default:
		c.PowerTable = g.TableCid(g.RandTable(2, 5, certgen.PowUniform))
	}
	return c
}

func signersOf(c *certs.FinalityCertificate) []int {
	l, _ := certgen.SignerList(c.Signers)
	o := make([]int, len(l))
	for i, x := range l {
		o[i] = int(x)
	}
	return o
}

func bigCid() cid.Cid {
	// a defined CID longer than CidMaxLen (sha2-512 digest)
	mh, _ := multihash.Sum([]byte(fmt.Sprint(rng.U64())), multihash.SHA2_512, -1)
	return cid.NewCidV1(cid.DagCBOR, mh)
}

// corruptChain applies one chain-level corruption; returns a tag.
func corruptChain(c *certs.FinalityCertificate, kind int) string {
	ch := c.ECChain
	n := len(ch.TipSets)
	switch kind {
	case 0:
		ch.TipSets[rng.Intn(n)].Epoch += int64(1 + rng.Intn(3))
		return "epoch"
	case 1:
		i := rng.Intn(n)
		ch.TipSets[i].Key = append(ch.TipSets[i].Key, byte('a'+rng.Intn(26)))
		return "tskey"
	case 2:
		ch.TipSets[rng.Intn(n)].PowerTable = g.TableCid(g.RandTable(2, 5, certgen.PowUniform))
		return "tspt"
	case 3:
		ch.TipSets[rng.Intn(n)].Commitments[rng.Intn(32)] ^= 0x40
		return "tscomm"
	case 4:
		ch.TipSets = ch.TipSets[:n-1] // drop head (may leave the empty chain)
		return "drophead"
	case 5:
		ch.TipSets = ch.TipSets[1:] // drop base
		return "dropbase"
	case 6:
		last := ch.TipSets[n-1]
		ch.TipSets = append(ch.TipSets, g.NewTipSet(last.Epoch+1+int64(rng.Intn(2)), last.PowerTable))
		return "addhead"
	case 7:
		last := ch.TipSets[n-1]
		ch.TipSets = append(ch.TipSets, g.NewTipSet(last.Epoch-int64(rng.Intn(2)), last.PowerTable)) // non-increasing epoch
		return "badepoch"
	case 8:
		ch.TipSets[rng.Intn(n)].Key = nil
		return "emptykey"
	case 9:
		ch.TipSets[rng.Intn(n)].PowerTable = cid.Undef
		return "undefpt"
	case 10:
		l := 760 + rng.Intn(3) // 760 is the longest valid tipset key
		ch.TipSets[rng.Intn(n)].Key = bytes.Repeat([]byte{byte('a' + rng.Intn(26))}, l)
		return fmt.Sprintf("keylen%d", l)
	case 11:
		ch.TipSets[rng.Intn(n)].PowerTable = bigCid()
		return "longcid"
	case 12:
		last := ch.TipSets[n-1]
		for len(ch.TipSets) < 129+rng.Intn(2) {
			last = g.NewTipSet(last.Epoch+1, last.PowerTable)
			ch.TipSets = append(ch.TipSets, last)
		}
		return "toolong"
	case 13:
		c.ECChain = &gpbft.ECChain{}
		return "emptychain"
	case 14:
		c.ECChain = nil
		return "nilchain"
	case 15:
		ch.TipSets[0].Epoch = -1 - int64(rng.Intn(2))
		return "negepoch"
	case 16:
		last := ch.TipSets[n-1]
		for len(ch.TipSets) < 128 { // exactly the maximum: still valid
			last = g.NewTipSet(last.Epoch+1, last.PowerTable)
			ch.TipSets = append(ch.TipSets, last)
		}
		return "maxlen"
	default:
		ch.TipSets[rng.Intn(n)] = nil
		return "niltip"
	}
}

const nChainCorruptions = 18

// corruptDelta applies one delta-level corruption given the table the delta applies to.
func corruptDelta(c *certs.FinalityCertificate, table gpbft.PowerEntries, kind int) string {
	d := certgen.CloneDiff(c.PowerTableDelta)
	inDelta := map[gpbft.ActorID]bool{}
	for _, x := range d {
		inDelta[x.ParticipantID] = true
	}
	var untouched []gpbft.PowerEntry
	for _, e := range table {
		if !inDelta[e.ID] {
			untouched = append(untouched, e)
		}
	}
	insertSorted := func(x certs.PowerTableDelta) {
		d = append(d, x)
		sort.SliceStable(d, func(i, j int) bool { return d[i].ParticipantID < d[j].ParticipantID })
	}
	freshID := func() gpbft.ActorID {
		for {
			id := gpbft.ActorID(1 + rng.Intn(400))
			ok := !inDelta[id]
			for _, e := range table {
				if e.ID == id {
					ok = false
				}
			}
			if ok {
				return id
			}
		}
	}
	tag := ""
	switch kind {
	case 0:
		if len(d) >= 2 {
			i := rng.Intn(len(d) - 1)
			d[i], d[i+1] = d[i+1], d[i]
			tag = "swap"
		}
	case 1:
		if len(d) >= 1 {
			i := rng.Intn(len(d))
			d = append(d[:i+1], d[i:]...)
			tag = "dup"
		}
	case 2:
		if len(untouched) > 0 {
			e := untouched[rng.Intn(len(untouched))]
			// "no key" as nil and as a zero-length, non-nil slice (what encoding/json makes of "SigningKey":"")
			var nokey []byte
			if rng.Bool() {
				nokey = []byte{}
			}
			insertSorted(certs.PowerTableDelta{ParticipantID: e.ID, PowerDelta: gbig.Zero(), SigningKey: nokey})
			tag = "zerodelta"
		} else {
			var nokey []byte
			if rng.Bool() {
				nokey = []byte{}
			}
			insertSorted(certs.PowerTableDelta{ParticipantID: freshID(), PowerDelta: gbig.Zero(), SigningKey: nokey})
			tag = "zerodelta-new"
		}
	case 3:
		if len(untouched) > 0 {
			e := untouched[rng.Intn(len(untouched))]
			insertSorted(certs.PowerTableDelta{ParticipantID: e.ID, PowerDelta: gbig.NewInt(int64(rng.Intn(2))), SigningKey: e.PubKey})
			tag = "unchangedkey"
		}
	case 4:
		insertSorted(certs.PowerTableDelta{ParticipantID: freshID(), PowerDelta: gbig.NewInt(int64(1 + rng.Intn(9)))})
		tag = "newnokey"
	case 5:
		insertSorted(certs.PowerTableDelta{ParticipantID: freshID(), PowerDelta: gbig.NewInt(-int64(rng.Intn(3))), SigningKey: g.NewKey()})
		tag = "newnonpos"
	case 6:
		if len(untouched) > 0 {
			e := untouched[rng.Intn(len(untouched))]
			insertSorted(certs.PowerTableDelta{ParticipantID: e.ID, PowerDelta: gbig.Sub(gbig.NewInt(-int64(1+rng.Intn(3))), e.Power)})
			tag = "belowzero"
		}
	case 7:
		if len(untouched) > 0 {
			e := untouched[rng.Intn(len(untouched))]
			insertSorted(certs.PowerTableDelta{ParticipantID: e.ID, PowerDelta: e.Power.Neg(), SigningKey: g.NewKey()})
			tag = "removewithkey"
		}
	case 8:
		if len(d) >= 1 {
			i := rng.Intn(len(d))
			d = append(d[:i], d[i+1:]...)
			tag = "dropentry"
		}
	case 9:
		if len(untouched) > 0 {
			e := untouched[rng.Intn(len(untouched))]
			insertSorted(certs.PowerTableDelta{ParticipantID: e.ID, PowerDelta: gbig.NewInt(int64(1 + rng.Intn(5)))})
			tag = "spurious-reweight"
		}
	case 10:
		if len(untouched) > 1 {
			e := untouched[rng.Intn(len(untouched))]
			insertSorted(certs.PowerTableDelta{ParticipantID: e.ID, PowerDelta: e.Power.Neg()})
			tag = "spurious-removal"
		}
	case 11:
		if len(d) >= 1 {
			i := rng.Intn(len(d))
			d[i].PowerDelta = gbig.Add(d[i].PowerDelta, gbig.NewInt(int64(1+rng.Intn(3))))
			tag = "amount"
		}
	case 12:
		insertSorted(certs.PowerTableDelta{ParticipantID: freshID(), PowerDelta: gbig.NewInt(int64(1 + rng.Intn(9))), SigningKey: g.NewKey()})
		tag = "spurious-add"
	case 13:
		if len(untouched) > 0 {
			e := untouched[rng.Intn(len(untouched))]
			insertSorted(certs.PowerTableDelta{ParticipantID: e.ID, PowerDelta: gbig.Zero(), SigningKey: g.NewKey()})
			tag = "spurious-rekey"
		}
	}
	if tag == "" {
		return ""
	}
	c.PowerTableDelta = d
	return tag
}

const nDeltaCorruptions = 14

// thresholdSigners returns a minimal strong signer set in a random order of accumulation: removing
// its last-added member leaves it below 2/3. Also returns that member and a non-member (or -1).
func thresholdSigners(table gpbft.PowerEntries) (set []int, last int, outsider int) {
	scaled, total, err := table.Scaled()
	if err != nil {
		return nil, -1, -1
	}
	var sum int64
	in := map[int]bool{}
	for _, i := range g.Perm(len(table)) {
		if scaled[i] == 0 {
			continue
		}
		set = append(set, i)
		in[i] = true
		sum += scaled[i]
		last = i
		if 3*sum >= 2*total {
			break
		}
	}
	if 3*sum < 2*total {
		return nil, -1, -1
	}
	outsider = -1
	for _, i := range g.Perm(len(table)) {
		if !in[i] && scaled[i] > 0 {
			outsider = i
			break
		}
	}
	sort.Ints(set)
	return set, last, outsider
}

func without(set []int, x int) []int {
	var o []int
	for _, s := range set {
		if s != x {
			o = append(o, s)
		}
	}
	return o
}

func zeroScaled(table gpbft.PowerEntries) int {
	scaled, _, err := table.Scaled()
	if err != nil {
		return -1
	}
	for _, i := range g.Perm(len(table)) {
		if scaled[i] == 0 {
			return i
		}
	}
	return -1
}

// corruptOne mutates cert j of a cloned history; returns tag ("" if not applicable).
func corruptOne(h *certgen.History, cs []*certs.FinalityCertificate, j int) (tag string) {
	// a second corruption may find the certificate already gutted (no chain, no signature): skip it
	defer func() {
		if recover() != nil {
			tag = ""
		}
	}()
	c := cs[j]
	// ECChain caches its merkle key on first use: never mutate a chain object that was already
	// signed or validated, work on a fresh copy
	c.ECChain = certgen.CloneChain(c.ECChain)
	table := h.Tables[j]
	resign := rng.Bool()
	re := func(tag string) string {
		if resign {
			g.Resign(h.NN, c, table, signersOf(c))
			return tag + "+resigned"
		}
		return tag
	}
	switch rng.Intn(9) {
	case 0: // instance
		switch rng.Intn(3) {
		case 0:
			c.GPBFTInstance++
		case 1:
			c.GPBFTInstance--
		default:
			c.GPBFTInstance = rng.U64()
		}
		return re("instance")
	case 1, 2: // chain
		tag := corruptChain(c, rng.Intn(nChainCorruptions))
		return re("chain-" + tag)
	case 3: // supplemental data
		if rng.Bool() {
			c.SupplementalData.Commitments[rng.Intn(32)] ^= 0x10
			return re("supp-commitments")
		}
		switch rng.Intn(3) {
		case 0:
			c.SupplementalData.PowerTable = g.TableCid(g.RandTable(2, 5, certgen.PowUniform))
		case 1:
			c.SupplementalData.PowerTable = g.TableCid(table) // CID of the *previous* table
		default:
			c.SupplementalData.PowerTable = cid.Undef
		}
		return re("supp-ptcid")
	case 4: // signer set
		set, last, outsider := thresholdSigners(table)
		if set == nil {
			return ""
		}
		switch rng.Intn(9) {
		case 0:
			g.Resign(h.NN, c, table, set)
			return "signers-exact-threshold"
		case 1:
			if len(set) < 2 {
				return ""
			}
			g.Resign(h.NN, c, table, without(set, last))
			return "signers-threshold-minus-one"
		case 2:
			if outsider < 0 {
				return ""
			}
			g.Resign(h.NN, c, table, append(append([]int{}, set...), outsider))
			return "signers-threshold-plus-one"
		case 3:
			z := zeroScaled(table)
			if z < 0 {
				return ""
			}
			g.Resign(h.NN, c, table, append(append([]int{}, set...), z))
			return "signers-zero-power-member"
		case 4: // out of range bit, signature over the in-range members
			extra := len(table) + []int{0, 1, 5, 1 << 20}[rng.Intn(4)]
			g.Resign(h.NN, c, table, set)
			c.Signers = certgen.Bitfield(append(append([]int{}, set...), extra))
			return "signers-out-of-range"
		case 5: // bits changed, signature kept
			if outsider < 0 {
				return ""
			}
			c.Signers = certgen.Bitfield(append(without(signersOf(c), last), outsider))
			return "signers-bits-changed"
		case 6:
			c.Signers = bitfield.New()
			return "signers-none"
		case 7: // everybody with power signs
			scaled, _, _ := table.Scaled()
			var all []int
			for i := range table {
				if scaled[i] > 0 {
					all = append(all, i)
				}
			}
			g.Resign(h.NN, c, table, all)
			return "signers-all"
		default: // below threshold, signature kept from the full set
			if len(set) < 2 {
				return ""
			}
			c.Signers = certgen.Bitfield(without(set, last))
			return "signers-dropped-bit"
		}
	case 5: // signature bytes
		switch rng.Intn(4) {
		case 0:
			c.Signature[rng.Intn(len(c.Signature))] ^= 1
		case 1:
			c.Signature = c.Signature[:len(c.Signature)-1]
		case 2:
			c.Signature = nil
		default:
			o := h.Certs[rng.Intn(len(h.Certs))]
			c.Signature = append([]byte{}, o.Signature...)
		}
		return "sigbytes"
	case 6, 7: // delta
		tag := corruptDelta(c, table, rng.Intn(nDeltaCorruptions))
		if tag == "" {
			return ""
		}
		return "delta-" + tag
	default: // wrong phase / round in the signed payload
		p := &gpbft.Payload{Instance: c.GPBFTInstance, Round: 0, Phase: gpbft.DECIDE_PHASE, SupplementalData: c.SupplementalData, Value: c.ECChain}
		switch rng.Intn(3) {
		case 0:
			p.Phase = gpbft.COMMIT_PHASE
		case 1:
			p.Round = 1
		default:
			p.SupplementalData = gpbft.SupplementalData{PowerTable: c.SupplementalData.PowerTable} // commitments dropped
			if c.SupplementalData.Commitments == ([32]byte{}) {
				p.SupplementalData.Commitments[0] = 1
			}
		}
		c.Signature = g.Sign(h.NN, table, p, signersOf(c))
		return "signed-wrong-payload"
	}
}

func cloneCerts(cs []*certs.FinalityCertificate) []*certs.FinalityCertificate {
	o := make([]*certs.FinalityCertificate, len(cs))
	for i, c := range cs {
		o[i] = certgen.CloneCert(c)
	}
	return o
}

func caseValid(h *certgen.History) {
	cs := h.Certs
	var base *gpbft.TipSet
	if rng.Bool() {
		base = h.Base
	}
	validate(h.NN, h.Tables[0], h.First, base, cs)
	// every sub-range, validated from the matching table/instance/base
	if len(cs) >= 2 {
		i := rng.Intn(len(cs))
		k := i + 1 + rng.Intn(len(cs)-i)
		var b *gpbft.TipSet
		if rng.Bool() {
			b = cs[i].ECChain.Base()
		}
		validate(h.NN, h.Tables[i], h.First+uint64(i), b, cs[i:k])
	}
}

func caseCorrupt(h *certgen.History) {
	if len(h.Certs) == 0 {
		return
	}
	cs := cloneCerts(h.Certs)
	j := rng.Intn(len(cs))
	tag := corruptOne(h, cs, j)
	if tag == "" {
		return
	}
	if rng.Chance(1, 6) && len(cs) > 1 { // second corruption elsewhere
		k := rng.Intn(len(cs))
		if t2 := corruptOne(h, cs, k); t2 != "" {
			tag += "&" + t2
		}
	}
	out.Line("# corrupt cert#%d %s", j, tag)
	var base *gpbft.TipSet
	if rng.Bool() {
		base = h.Base
	}
	validate(h.NN, h.Tables[0], h.First, base, cs)
	if j > 0 && rng.Bool() {
		// the corrupted certificate as the FIRST of the call (base-link check of the first cert)
		var b *gpbft.TipSet
		if rng.Chance(2, 3) {
			b = h.Certs[j].ECChain.Base()
		}
		validate(h.NN, h.Tables[j], h.First+uint64(j), b, cs[j:])
	}
}

func caseSequence(h, other *certgen.History) {
	cs := cloneCerts(h.Certs)
	n := len(cs)
	if n == 0 {
		return
	}
	tag := ""
	switch rng.Intn(7) {
	case 0:
		if n < 2 {
			return
		}
		i := rng.Intn(n - 1)
		cs = append(cs[:i], cs[i+1:]...)
		tag = "gap"
	case 1:
		if n < 2 {
			return
		}
		i := rng.Intn(n - 1)
		cs[i], cs[i+1] = cs[i+1], cs[i]
		tag = "swap"
	case 2:
		i := rng.Intn(n)
		cs = append(cs[:i+1], cs[i:]...)
		tag = "dup"
	case 3: // splice: certificate of another history (same instance numbers, other tables)
		if len(other.Certs) == 0 {
			return
		}
		i := rng.Intn(n)
		o := certgen.CloneCert(other.Certs[rng.Intn(len(other.Certs))])
		o.GPBFTInstance = cs[i].GPBFTInstance
		cs[i] = o
		tag = "splice-other-history"
	case 4: // splice: same history re-signed for another network
		i := rng.Intn(n)
		g.Resign(netB, cs[i], h.Tables[i], signersOf(cs[i]))
		tag = "splice-other-network"
	case 5: // relinked: cert i re-signed with a chain that does not start at the predecessor's head
		i := rng.Intn(n)
		cs[i].ECChain.TipSets[0] = otherTipset(cs[i].ECChain.TipSets[0])
		g.Resign(h.NN, cs[i], h.Tables[i], signersOf(cs[i]))
		tag = "relinked-base"
	default: // head of cert i replaced (re-signed): cert i is valid, cert i+1 no longer links
		i := rng.Intn(n)
		ch := cs[i].ECChain
		ch.TipSets[len(ch.TipSets)-1] = otherTipset(ch.TipSets[len(ch.TipSets)-1])
		if len(ch.TipSets) >= 2 && ch.TipSets[len(ch.TipSets)-1].Epoch <= ch.TipSets[len(ch.TipSets)-2].Epoch {
			ch.TipSets[len(ch.TipSets)-1].Epoch = ch.TipSets[len(ch.TipSets)-2].Epoch + 1
		}
		g.Resign(h.NN, cs[i], h.Tables[i], signersOf(cs[i]))
		tag = "replaced-head"
	}
	out.Line("# sequence %s", tag)
	var base *gpbft.TipSet
	if rng.Chance(2, 3) {
		base = h.Base
	}
	validate(h.NN, h.Tables[0], h.First, base, cs)
}

func caseCallerInputs(h, other *certgen.History) {
	cs := h.Certs
	if len(cs) == 0 {
		return
	}
	switch rng.Intn(8) {
	case 0:
		validate(h.NN, h.Tables[0], h.First+1, nil, cs)
	case 1:
		validate(h.NN, h.Tables[0], h.First-1, h.Base, cs)
	case 2:
		validate(h.NN, h.Tables[0], h.First, otherTipset(h.Base), cs)
	case 3:
		validate(netB, h.Tables[0], h.First, h.Base, cs)
	case 4:
		validate(h.NN, other.Tables[0], h.First, nil, cs)
	case 5: // caller's table with a non-positive entry
		t := certgen.CloneTable(h.Tables[0])
		t[rng.Intn(len(t))].Power = gbig.NewInt(-int64(rng.Intn(2)))
		validate(h.NN, t, h.First, nil, cs)
	case 6: // caller's table in another order (signer indices then mean other members)
		t := certgen.CloneTable(h.Tables[0])
		if len(t) >= 2 {
			i := rng.Intn(len(t) - 1)
			t[i], t[i+1] = t[i+1], t[i]
		}
		validate(h.NN, t, h.First, h.Base, cs)
	default:
		validate(h.NN, h.Tables[0], h.First, nil, nil) // no certificates at all
		validate(h.NN, nil, h.First, nil, cs)          // empty table
	}
}

func caseDust() {
	t := dustTable()
	h := g.History(netA, certgen.HistOpts{N: 1 + rng.Intn(3), First: randFirst(), Initial: t, IDRange: 30, Style: certgen.PowDust, ChangeProb: 30, MaxSuffix: 3})
	if len(h.Certs) == 0 {
		return
	}
	caseValid(h)
	for k := 0; k < 3; k++ {
		cs := cloneCerts(h.Certs)
		j := rng.Intn(len(cs))
		c := cs[j]
		table := h.Tables[j]
		z := zeroScaled(table)
		set, last, _ := thresholdSigners(table)
		if set == nil {
			return
		}
		tag := ""
		switch {
		case k == 0 && z >= 0:
			g.Resign(h.NN, c, table, append(append([]int{}, set...), z))
			tag = "zero-power-signer"
		case k == 1 && len(set) >= 2:
			g.Resign(h.NN, c, table, without(set, last))
			tag = "minus-one"
		default:
			g.Resign(h.NN, c, table, set)
			tag = "exact"
		}
		out.Line("# dust %s", tag)
		validate(h.NN, h.Tables[0], h.First, h.Base, cs)
	}
}

// ------------------------------------------------------------------------------------------------
// signer sets on the knife edge of 2/3

func composition(total, parts int) []int {
	// random composition of total into `parts` positive parts
	if parts > total {
		parts = total
	}
	cuts := map[int]bool{}
	for len(cuts) < parts-1 {
		cuts[1+rng.Intn(total-1)] = true
	}
	var cs []int
	for c := range cuts {
		cs = append(cs, c)
	}
	sort.Ints(cs)
	out := make([]int, 0, parts)
	prev := 0
	for _, c := range cs {
		out = append(out, c-prev)
		prev = c
	}
	return append(out, total-prev)
}

// knifeTable: scaled powers are exact (every power is a multiple of total/65535), the members of
// group A sum to exactly one unit below the strong-quorum threshold 43690 of 65535, one member
// weighs exactly one unit. Returns the table (canonical order) and the ids of A and of the unit member.
func knifeTable() (gpbft.PowerEntries, map[gpbft.ActorID]bool, gpbft.ActorID) {
	mult := []*big.Int{big.NewInt(1), big.NewInt(7), big.NewInt(1000), new(big.Int).Lsh(big.NewInt(3), 70)}[rng.Intn(4)]
	a := composition(43689, 1+rng.Intn(5))
	b := composition(21845, 1+rng.Intn(4))
	ids := g.Perm(len(a) + len(b) + 1 + 8)
	var t gpbft.PowerEntries
	inA := map[gpbft.ActorID]bool{}
	k := 0
	add := func(units int) gpbft.ActorID {
		id := gpbft.ActorID(1 + ids[k])
		k++
		t = append(t, gpbft.PowerEntry{ID: id, Power: gbig.Int{Int: new(big.Int).Mul(big.NewInt(int64(units)), mult)}, PubKey: g.NewKey()})
		return id
	}
	for _, u := range a {
		inA[add(u)] = true
	}
	unit := add(1)
	for _, u := range b {
		add(u)
	}
	sort.Sort(t)
	return t, inA, unit
}

// nearThreshold enumerates all signer sets of a small table and returns the heaviest set below
// the strong-quorum threshold, the lightest set at or above it, and (if any) a set on which the
// 2/3 criterion evaluated on UNSCALED power disagrees with the criterion on scaled power.
func nearThreshold(t gpbft.PowerEntries) (below, above, disagree []int, gap int64) {
	scaled, total, err := t.Scaled()
	if err != nil || len(t) > 14 {
		return nil, nil, nil, 0
	}
	totalRaw := new(big.Int)
	for _, e := range t {
		totalRaw.Add(totalRaw, e.Power.Int)
	}
	bestBelow, bestAbove := int64(-1), int64(1<<62)
	for mask := 1; mask < 1<<len(t); mask++ {
		var sum int64
		raw := new(big.Int)
		var set []int
		ok := true
		for i := range t {
			if mask&(1<<i) != 0 {
				if scaled[i] == 0 {
					ok = false
					break
				}
				sum += scaled[i]
				raw.Add(raw, t[i].Power.Int)
				set = append(set, i)
			}
		}
		if !ok {
			continue
		}
		strong := 3*sum >= 2*total
		rawStrong := new(big.Int).Mul(raw, big.NewInt(3)).Cmp(new(big.Int).Mul(totalRaw, big.NewInt(2))) >= 0
		if strong != rawStrong && disagree == nil {
			disagree = set
		}
		if strong && sum < bestAbove {
			bestAbove, above = sum, set
		}
		if !strong && sum > bestBelow {
			bestBelow, below = sum, set
		}
	}
	if above != nil && below != nil {
		gap = bestAbove - bestBelow
	}
	return
}

func certOver(t gpbft.PowerEntries, inst uint64, signers []int) (*certgen.History, *certs.FinalityCertificate) {
	h := g.History(netA, certgen.HistOpts{N: 1, First: inst, Initial: t, IDRange: 40, Style: certgen.PowUniform, ChangeProb: 30, MaxSuffix: 2})
	if len(h.Certs) == 0 {
		return nil, nil
	}
	c := certgen.CloneCert(h.Certs[0])
	g.Resign(h.NN, c, t, signers)
	return h, c
}

func caseKnife() {
	// (a) engineered: exactly one unit below / exactly at the threshold
	t, inA, unit := knifeTable()
	var a []int
	unitIdx, other := -1, -1
	for i, e := range t {
		switch {
		case inA[e.ID]:
			a = append(a, i)
		case e.ID == unit:
			unitIdx = i
		default:
			other = i
		}
	}
	inst := randFirst()
	sets := map[string][]int{"one-unit-below": a, "exactly-at": append(append([]int{}, a...), unitIdx), "above": append(append([]int{}, a...), other)}
	for _, name := range []string{"one-unit-below", "exactly-at", "above"} {
		if h, c := certOver(t, inst, sets[name]); c != nil {
			out.Line("# knife engineered %s", name)
			validate(h.NN, t, inst, h.Base, []*certs.FinalityCertificate{c})
		}
	}
	// (b) searched: small random tables with rounding in the scaling; nearest sets on both sides,
	// and sets on which scaled and unscaled 2/3 disagree
	for tries := 0; tries < 12; tries++ {
		n := 3 + rng.Intn(8)
		rt := make(gpbft.PowerEntries, 0, n)
		for i := 0; i < n; i++ {
			rt = append(rt, gpbft.PowerEntry{ID: gpbft.ActorID(1 + i), Power: gbig.NewInt(int64(1 + rng.Intn(60))), PubKey: g.NewKey()})
		}
		sort.Sort(rt)
		below, above, disagree, gap := nearThreshold(rt)
		if below == nil || above == nil {
			continue
		}
		if disagree == nil && gap > 40 && tries < 11 {
			continue
		}
		// (fixed order: the loop body consumes the random stream)
		for _, ns := range []struct {
			name string
			set  []int
		}{{"nearest-below", below}, {"nearest-above", above}, {"scaled-vs-unscaled", disagree}} {
			name, set := ns.name, ns.set
			if set == nil {
				continue
			}
			if h, c := certOver(rt, inst, set); c != nil {
				out.Line("# knife searched %s gap=%d", name, gap)
				validate(h.NN, rt, inst, nil, []*certs.FinalityCertificate{c})
			}
		}
		break
	}
}

// ------------------------------------------------------------------------------------------------
// table pairs and deltas

func illFormed(t gpbft.PowerEntries) (gpbft.PowerEntries, string) {
	t = certgen.CloneTable(t)
	if len(t) == 0 {
		return t, "empty"
	}
	i := rng.Intn(len(t))
	switch rng.Intn(5) {
	case 0:
		t[i].Power = gbig.Zero()
		return t, "zeropower"
	case 1:
		t[i].Power = gbig.NewInt(-int64(1 + rng.Intn(5)))
		return t, "negpower"
	case 2:
		t[i].PubKey = nil
		return t, "emptykey"
	case 3:
		j := rng.Intn(len(t))
		t[i], t[j] = t[j], t[i]
		return t, "unsorted"
	default:
		t = append(t, gpbft.PowerEntry{ID: t[i].ID, Power: gbig.NewInt(int64(1 + rng.Intn(9))), PubKey: g.NewKey()})
		return t, "dupid"
	}
}

func casePairs() {
	size := rng.Intn(10)
	if rng.Chance(1, 10) {
		size = 40 + rng.Intn(160)
	}
	style := rng.Intn(6)
	idRange := size + 4
	a := g.RandTable(size, idRange, style)
	var b gpbft.PowerEntries
	switch rng.Intn(4) {
	case 0:
		b = g.RandTable(rng.Intn(10), idRange, rng.Intn(6)) // independent, overlapping ids
	case 1:
		b = certgen.CloneTable(a) // identical
	default:
		b = g.Mutate(a, 1+rng.Intn(6), idRange, rng.Intn(6))
	}
	if rng.Chance(1, 3) { // order must not matter to MakePowerTableDiff
		p := g.Perm(len(b))
		nb := make(gpbft.PowerEntries, len(b))
		for i, j := range p {
			nb[i] = b[j]
		}
		b = nb
	}
	if rng.Chance(1, 5) {
		p := g.Perm(len(a))
		na := make(gpbft.PowerEntries, len(a))
		for i, j := range p {
			na[i] = a[j]
		}
		a = na
	}
	d := mkApply(a, b)
	// the delta itself, applied on its own, then near-valid variants of it
	applyDiffs(a, []certs.PowerTableDiff{d}, true)
	for k := 0; k < 3; k++ {
		c := &certs.FinalityCertificate{PowerTableDelta: certgen.CloneDiff(d)}
		if tag := corruptDelta(c, a, rng.Intn(nDeltaCorruptions)); tag != "" {
			out.Line("# delta %s", tag)
			applyDiffs(a, []certs.PowerTableDiff{c.PowerTableDelta}, true)
		}
	}
	// ill-formed first / second table
	if rng.Chance(1, 3) {
		ia, tag := illFormed(a)
		if tag == "dupid" {
			out.Line("# illformed-a %s", tag)
			applyDiffs(ia, []certs.PowerTableDiff{d}, false)
		} else {
			out.Line("# illformed-a %s", tag)
			mkApply(ia, b)
		}
	}
	if rng.Chance(1, 3) {
		ib, tag := illFormed(b)
		if tag != "dupid" {
			out.Line("# illformed-b %s", tag)
			mkApply(a, ib)
		}
	}
	// several diffs in one call (as the certificate store does), zero diffs
	if rng.Chance(1, 3) {
		c2 := g.Mutate(b, 1+rng.Intn(3), idRange, style)
		sb := certgen.CloneTable(b)
		sort.Sort(sb)
		d2 := certs.MakePowerTableDiff(sb, c2)
		applyDiffs(a, []certs.PowerTableDiff{d, d2}, false)
		applyDiffs(a, []certs.PowerTableDiff{d2, d}, false)
		applyDiffs(a, nil, false)
	}
}

func main() {
	out = vh.NewOut()
	defer out.Flush()
	rng = vh.NewRng(vh.Seed())
	g = certgen.New(out, rng)
	nHist := vh.EnvInt("VERIF_CERTS_HIST", 260)
	nPairs := vh.EnvInt("VERIF_CERTS_PAIRS", 1500)
	if vh.Thorough() {
		nHist *= 12
		nPairs *= 20
	}
	var prev *certgen.History
	for i := 0; i < nHist; i++ {
		h := randHistory(randFirst(), 1+rng.Intn(6))
		if len(h.Certs) == 0 {
			continue
		}
		if prev == nil {
			prev = h
		}
		out.Line("# history %d first=%d certs=%d table=%d", i, h.First, len(h.Certs), len(h.Tables[0]))
		caseValid(h)
		for k := 0; k < 5; k++ {
			caseCorrupt(h)
		}
		caseSequence(h, prev)
		caseSequence(h, prev)
		caseCallerInputs(h, prev)
		if i%4 == 0 {
			caseDust()
		}
		if i%2 == 0 {
			caseKnife()
		}
		prev = h
	}
	for i := 0; i < nPairs; i++ {
		casePairs()
	}
}
