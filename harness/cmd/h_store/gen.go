package main

import (
	"bytes"
	"fmt"
	"sort"
	"strings"

	"github.com/filecoin-project/go-bitfield"
	"github.com/filecoin-project/go-f3/certs"
	"github.com/filecoin-project/go-f3/gpbft"
	"github.com/filecoin-project/go-f3/internal/verifh/lib/vh"
	"github.com/ipfs/go-cid"
)

// interner gives small stable ids to byte strings (public keys, encoded tables, encoded
// certificates, CIDs) and prints a definition line the first time an id is used.
type interner struct {
	out        *vh.Out
	keys       map[string]int
	tables     map[string]int
	tableByCid map[string]int
	certsM     map[string]int
	opaque     map[string]int
	others     map[string]int
}

func newInterner(out *vh.Out) *interner {
	return &interner{out: out, keys: map[string]int{"": 0}, tables: map[string]int{}, tableByCid: map[string]int{},
		certsM: map[string]int{}, opaque: map[string]int{}, others: map[string]int{}}
}

func (in *interner) key(k []byte) int {
	if id, ok := in.keys[string(k)]; ok {
		return id
	}
	id := len(in.keys)
	in.keys[string(k)] = id
	return id
}

func (in *interner) other(s string) int {
	if id, ok := in.others[s]; ok {
		return id
	}
	id := len(in.others) + 1
	in.others[s] = id
	return id
}

func (in *interner) entriesTok(pt gpbft.PowerEntries) string {
	if len(pt) == 0 {
		return "-"
	}
	parts := make([]string, len(pt))
	for i, e := range pt {
		parts[i] = fmt.Sprintf("%d:%s:%d", e.ID, e.Power.String(), in.key(e.PubKey))
	}
	return strings.Join(parts, ";")
}

// table interns a power table by its CBOR bytes (the bytes the store writes and whose hash is the CID).
func (in *interner) table(pt gpbft.PowerEntries) int {
	var buf bytes.Buffer
	if err := pt.MarshalCBOR(&buf); err != nil {
		panic(err)
	}
	if id, ok := in.tables[buf.String()]; ok {
		return id
	}
	id := len(in.tables) + 1
	in.tables[buf.String()] = id
	in.tableByCid[gpbft.MakeCid(buf.Bytes()).String()] = id
	in.out.Line("deft %d %s", id, in.entriesTok(pt))
	return id
}

func (in *interner) tableTok(pt gpbft.PowerEntries) string { return fmt.Sprintf("T%d", in.table(pt)) }

func (in *interner) tableBytesTok(b []byte) string {
	var pt gpbft.PowerEntries
	if err := pt.UnmarshalCBOR(bytes.NewReader(b)); err != nil {
		return fmt.Sprintf("j%d", in.other("tbl:"+string(b)))
	}
	return in.tableTok(pt)
}

func (in *interner) commitTok(c cid.Cid) string {
	if !c.Defined() {
		return "?0"
	}
	if id, ok := in.tableByCid[c.String()]; ok {
		return fmt.Sprintf("T%d", id)
	}
	id, ok := in.opaque[c.String()]
	if !ok {
		id = len(in.opaque) + 1
		in.opaque[c.String()] = id
	}
	return fmt.Sprintf("?%d", id)
}

func (in *interner) deltaTok(d certs.PowerTableDiff) string {
	if len(d) == 0 {
		return "-"
	}
	parts := make([]string, len(d))
	for i, e := range d {
		parts[i] = fmt.Sprintf("%d:%s:%d", e.ParticipantID, e.PowerDelta.String(), in.key(e.SigningKey))
	}
	return strings.Join(parts, ";")
}

func chainKind(c *gpbft.ECChain) string {
	if c.IsZero() {
		return "zero"
	}
	if c.Validate() != nil {
		return "invalid"
	}
	return "ok"
}

var unencodable = 0

// cert interns a certificate by its CBOR bytes.
func (in *interner) cert(c *certs.FinalityCertificate) int {
	var buf bytes.Buffer
	var k string
	if err := c.MarshalCBOR(&buf); err != nil {
		unencodable++
		k = fmt.Sprintf("unencodable#%d", unencodable)
	} else {
		k = buf.String()
	}
	if id, ok := in.certsM[k]; ok {
		return id
	}
	id := len(in.certsM) + 1
	in.certsM[k] = id
	in.out.Line("defc %d inst=%d delta=%s commit=%s chain=%s", id, c.GPBFTInstance, in.deltaTok(c.PowerTableDelta),
		in.commitTok(c.SupplementalData.PowerTable), chainKind(c.ECChain))
	return id
}

func (in *interner) certTok(c *certs.FinalityCertificate) string {
	if c == nil {
		return "nil"
	}
	return fmt.Sprintf("c%d", in.cert(c))
}

func (in *interner) certBytesTok(b []byte) string {
	if id, ok := in.certsM[string(b)]; ok {
		return fmt.Sprintf("c%d", id)
	}
	var c certs.FinalityCertificate
	if err := c.UnmarshalCBOR(bytes.NewReader(b)); err != nil {
		return fmt.Sprintf("j%d", in.other("cert:"+string(b)))
	}
	// canonical encoding is assumed: decoded certificates re-encode to the same bytes
	var buf bytes.Buffer
	if err := c.MarshalCBOR(&buf); err != nil || !bytes.Equal(buf.Bytes(), b) {
		return fmt.Sprintf("j%d", in.other("cert-noncanonical:"+string(b)))
	}
	return in.certTok(&c)
}

// ---------------------------------------------------------------------------------------------------
// generators

func pubKey(id uint64, gen int) gpbft.PubKey { return gpbft.PubKey(fmt.Sprintf("key-%d-%d", id, gen)) }

func sortTable(pt gpbft.PowerEntries) gpbft.PowerEntries { sort.Sort(pt); return pt }

func genInitTable(rng *vh.Rng) gpbft.PowerEntries {
	n := 1 + rng.Intn(6)
	ids := perm(rng, 10)[:n]
	pt := make(gpbft.PowerEntries, 0, n)
	for _, i := range ids {
		pt = append(pt, gpbft.PowerEntry{ID: gpbft.ActorID(i + 1), Power: gpbft.NewStoragePower(int64(1 + rng.Intn(12))), PubKey: pubKey(uint64(i+1), 0)})
	}
	return sortTable(pt)
}

func copyTable(pt gpbft.PowerEntries) gpbft.PowerEntries {
	out := make(gpbft.PowerEntries, len(pt))
	copy(out, pt)
	return out
}

// nextTable evolves a table: often unchanged, otherwise a few power changes / joins / leaves / key rotations.
func nextTable(rng *vh.Rng, cur gpbft.PowerEntries) gpbft.PowerEntries {
	if rng.Chance(35, 100) {
		return cur
	}
	nt := copyTable(cur)
	for k := 1 + rng.Intn(3); k > 0; k-- {
		switch c := rng.Intn(10); {
		case c < 4 && len(nt) > 0: // power change (ties with other entries are likely: small range)
			i := rng.Intn(len(nt))
			nt[i].Power = gpbft.NewStoragePower(int64(1 + rng.Intn(12)))
		case c < 6 && len(nt) > 1: // leave
			i := rng.Intn(len(nt))
			nt = append(nt[:i:i], nt[i+1:]...)
		case c < 8: // join
			id := gpbft.ActorID(1 + rng.Intn(14))
			dup := false
			for _, e := range nt {
				dup = dup || e.ID == id
			}
			if !dup {
				nt = append(nt, gpbft.PowerEntry{ID: id, Power: gpbft.NewStoragePower(int64(1 + rng.Intn(12))), PubKey: pubKey(uint64(id), rng.Intn(3))})
			}
		case len(nt) > 0: // key rotation
			i := rng.Intn(len(nt))
			nt[i].PubKey = pubKey(uint64(nt[i].ID), 3+rng.Intn(4))
		}
	}
	return sortTable(nt)
}

func tableCid(pt gpbft.PowerEntries) cid.Cid {
	c, err := certs.MakePowerTableCID(pt)
	if err != nil {
		panic(err)
	}
	return c
}

var sigCounter = 0

func goodChain(rng *vh.Rng, inst uint64, ptc cid.Cid) *gpbft.ECChain {
	n := 1 + rng.Intn(3)
	ts := make([]*gpbft.TipSet, n)
	for i := range ts {
		ts[i] = &gpbft.TipSet{Epoch: int64(inst)*4 + int64(i), Key: gpbft.TipSetKey(fmt.Sprintf("ts-%d-%d", inst, i)), PowerTable: ptc}
	}
	return &gpbft.ECChain{TipSets: ts}
}

// mkCert builds the certificate taking table `old` to table `next` at `inst` with the repository's own
// diff / CID functions. The store does not verify signatures; signers/signature are filler.
func mkCert(rng *vh.Rng, in *interner, inst uint64, old, next gpbft.PowerEntries) *certs.FinalityCertificate {
	sigCounter++
	in.table(next)
	ptc := tableCid(next)
	return &certs.FinalityCertificate{
		GPBFTInstance:    inst,
		ECChain:          goodChain(rng, inst, ptc),
		SupplementalData: gpbft.SupplementalData{PowerTable: ptc},
		Signers:          bitfield.NewFromSet([]uint64{0}),
		Signature:        []byte(fmt.Sprintf("sig%d", sigCounter)),
		PowerTableDelta:  certs.MakePowerTableDiff(old, next),
	}
}

func cloneCert(c *certs.FinalityCertificate) *certs.FinalityCertificate {
	var buf bytes.Buffer
	if err := c.MarshalCBOR(&buf); err != nil {
		panic(err)
	}
	var d certs.FinalityCertificate
	if err := d.UnmarshalCBOR(bytes.NewReader(buf.Bytes())); err != nil {
		panic(err)
	}
	return &d
}

// breakCert returns a malformed variant of a valid successor certificate and a tag naming the defect.
func breakCert(rng *vh.Rng, in *interner, c *certs.FinalityCertificate, cur gpbft.PowerEntries, first, next uint64) (*certs.FinalityCertificate, string) {
	d := cloneCert(c)
	switch rng.Intn(13) {
	case 0:
		d.GPBFTInstance = next + 1 + uint64(rng.Intn(3))
		return d, "gap"
	case 1:
		if next > first {
			d.GPBFTInstance = first + uint64(rng.Intn(int(next-first)))
			return d, "stale-different"
		}
		d.GPBFTInstance = next + 1
		return d, "gap"
	case 2:
		if first > 0 {
			d.GPBFTInstance = uint64(rng.Intn(int(first)))
			return d, "before-first"
		}
		d.ECChain = nil
		return d, "bottom-nil"
	case 3:
		if rng.Bool() {
			d.ECChain = nil
		} else {
			d.ECChain = &gpbft.ECChain{}
		}
		return d, "bottom"
	case 4:
		ts := d.ECChain.TipSets
		if rng.Bool() || len(ts) < 2 {
			ts[0].Key = nil
		} else {
			ts[1].Epoch = ts[0].Epoch
		}
		return d, "invalid-chain"
	case 5: // commit to a CID that is nobody's table
		d.SupplementalData.PowerTable = gpbft.MakeCid([]byte(fmt.Sprintf("nobody-%d", rng.Intn(1000))))
		return d, "commit-random"
	case 6: // commit to the current table although the delta changes it (or vice versa)
		if len(d.PowerTableDelta) > 0 {
			d.SupplementalData.PowerTable = tableCid(cur)
			return d, "commit-old-table"
		}
		d.PowerTableDelta = certs.PowerTableDiff{{ParticipantID: 77, PowerDelta: gpbft.NewStoragePower(5), SigningKey: pubKey(77, 0)}}
		return d, "delta-extra"
	case 7: // change one power delta: table no longer matches the commitment (or the delta no longer applies)
		if len(d.PowerTableDelta) > 0 {
			i := rng.Intn(len(d.PowerTableDelta))
			d.PowerTableDelta[i].PowerDelta = gpbft.NewStoragePower(d.PowerTableDelta[i].PowerDelta.Int64() + int64(1+rng.Intn(3)))
			return d, "delta-power"
		}
		d.PowerTableDelta = certs.PowerTableDiff{{ParticipantID: cur[0].ID, PowerDelta: gpbft.NewStoragePower(1)}}
		return d, "delta-extra"
	case 8: // unsorted / duplicated participant
		if len(cur) > 0 {
			e := cur[rng.Intn(len(cur))]
			d.PowerTableDelta = certs.PowerTableDiff{{ParticipantID: e.ID, PowerDelta: gpbft.NewStoragePower(1)}, {ParticipantID: e.ID, PowerDelta: gpbft.NewStoragePower(-1)}}
		}
		return d, "delta-unsorted"
	case 9: // zero delta entry / unchanged key / keyless newcomer / negative power
		e := cur[rng.Intn(len(cur))]
		switch rng.Intn(4) {
		case 0:
			d.PowerTableDelta = certs.PowerTableDiff{{ParticipantID: e.ID, PowerDelta: gpbft.NewStoragePower(0)}}
		case 1:
			d.PowerTableDelta = certs.PowerTableDiff{{ParticipantID: e.ID, PowerDelta: gpbft.NewStoragePower(1), SigningKey: e.PubKey}}
		case 2:
			d.PowerTableDelta = certs.PowerTableDiff{{ParticipantID: 99, PowerDelta: gpbft.NewStoragePower(1)}}
		default:
			d.PowerTableDelta = certs.PowerTableDiff{{ParticipantID: e.ID, PowerDelta: gpbft.NewStoragePower(-1 - e.Power.Int64())}}
		}
		return d, "delta-illegal"
	case 10: // remove everybody, commit to the empty table: consistent but kills the network
		var diff certs.PowerTableDiff
		byID := copyTable(cur)
		sort.Slice(byID, func(i, j int) bool { return byID[i].ID < byID[j].ID })
		for _, e := range byID {
			diff = append(diff, certs.PowerTableDelta{ParticipantID: e.ID, PowerDelta: e.Power.Neg()})
		}
		d.PowerTableDelta = diff
		d.SupplementalData.PowerTable = tableCid(gpbft.PowerEntries{})
		in.table(gpbft.PowerEntries{})
		return d, "empties-table"
	case 11: // remove a participant while also giving it a new key
		e := cur[rng.Intn(len(cur))]
		d.PowerTableDelta = certs.PowerTableDiff{{ParticipantID: e.ID, PowerDelta: e.Power.Neg(), SigningKey: pubKey(uint64(e.ID), 9)}}
		return d, "delta-illegal"
	default: // correct delta, commitment of a *different known* table
		other := nextTable(rng, nextTable(rng, cur))
		in.table(other)
		d.SupplementalData.PowerTable = tableCid(other)
		return d, "commit-other-table"
	}
}

func perm(r *vh.Rng, n int) []int {
	p := make([]int, n)
	for i := range p {
		p[i] = i
	}
	for i := n - 1; i > 0; i-- {
		j := r.Intn(i + 1)
		p[i], p[j] = p[j], p[i]
	}
	return p
}
