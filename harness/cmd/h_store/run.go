package main

import (
	"fmt"
	"sort"

	"github.com/filecoin-project/go-f3/certs"
	"github.com/filecoin-project/go-f3/certstore"
	"github.com/filecoin-project/go-f3/gpbft"
	"github.com/filecoin-project/go-f3/internal/verifh/lib/vh"
	"github.com/ipfs/go-datastore"
)

func newSession(out *vh.Out, in *interner, rng *vh.Rng, freq uint64) *session {
	return &session{out: out, in: in, rng: rng, fds: newFaultDS(in, rng.U64()), freq: freq, subs: map[int]*subscription{}}
}

func pickFreq(rng *vh.Rng) uint64 {
	switch rng.Intn(10) {
	case 0, 1, 2:
		return 2
	case 3, 4, 5:
		return 3
	case 6, 7:
		return 7
	case 8:
		return 5
	default:
		return certstore.VerifDefaultPowerTableFrequency
	}
}

func pickFirst(rng *vh.Rng, freq uint64) uint64 {
	if freq == certstore.VerifDefaultPowerTableFrequency {
		// real period: start shortly before a boundary so that it is crossed
		return freq*uint64(rng.Intn(3)+1) - uint64(1+rng.Intn(12))
	}
	if rng.Chance(15, 100) {
		return 0
	}
	return uint64(1 + rng.Intn(20))
}

// initialised: does the datastore hold a first-instance marker (harness-side peek for generator guidance only).
func (s *session) initialised() bool {
	ok, _ := s.fds.inner.Has(ctx, dsKey("/certstore/firstInstance"))
	return ok
}

// a mutating step of a history, re-executable on a clone
type mstep struct {
	kind  string // create | ooc | open | put | delall
	first uint64
	init  gpbft.PowerEntries
	cert  *certs.FinalityCertificate
}

func (s *session) exec(m mstep, budget int) string {
	switch m.kind {
	case "create":
		return s.opCreate(m.first, m.init, budget)
	case "ooc":
		return s.opOOC(m.first, m.init, budget)
	case "open":
		return s.opOpen(budget)
	case "put":
		return s.opPut(m.cert, budget)
	case "delall":
		return s.opDeleteAll(budget)
	}
	panic("unknown step " + m.kind)
}

func (m mstep) needsHandle() bool { return m.kind == "put" || m.kind == "delall" }

// fork: a session on a copy of the datastore, with a handle iff the original has one.
func (s *session) fork(ordSeed uint64) *session {
	f := &session{out: s.out, in: s.in, rng: s.rng, fds: s.fds.clone(ordSeed), freq: s.freq, subs: map[int]*subscription{},
		first: s.first, init: s.init, next: s.next, cur: s.cur}
	if s.cs != nil {
		cs, err := certstore.OpenStore(ctx, f.fds)
		if err != nil {
			panic(fmt.Sprintf("fork: cannot reopen a copy of an open store: %v", err))
		}
		f.cs = cs
		f.setFreq()
	}
	return f
}

// enumerateCrashes: every crash point of one mutating step at the current state. For each number k
// of completed datastore writes: run the step on a copy with the budget, drop the handle, then on
// copies of the crashed datastore reopen with each variant and observe everything, and finally
// retry the step. Order: complete run first (reference "after"), k = 0 (reference "before"), then the rest.
func (s *session) enumerateCrashes(m mstep) {
	opSeed := s.rng.U64()
	s.out.Line("cbegin %s", m.kind)
	n := -1
	fullRes := ""
	pass := func(k int) {
		if m.kind == "put" && k > 0 && k < n && s.cs != nil {
			// the same failure as an I/O ERROR rather than a crash: the k-th write fails, Put returns the error
			// and the handle lives on. It must then show the state before the Put (nothing in memory may have
			// moved ahead of the datastore), and repeating the Put on the same handle must succeed.
			s.out.Line("cfork")
			e := s.fork(opSeed)
			e.exec(m, k)
			e.opObs("io")
			e.opPut(m.cert, -1)
			e.opObs("io-retry")
			e.dropHandle()
			s.out.Line("close")
		}
		s.out.Line("cfork")
		f := s.fork(opSeed)
		res := f.exec(m, k)
		if k < 0 {
			n = len(f.fds.writes)
			k = n
			fullRes = res
		}
		if f.cs != nil {
			f.dropHandle()
			s.out.Line("close")
		}
		s.out.Line("csave k=%d of=%d", k, n)
		saved := f.fds
		restore := func() *session {
			g := &session{out: s.out, in: s.in, rng: s.rng, fds: saved.clone(s.rng.U64()), freq: s.freq, subs: map[int]*subscription{},
				first: s.first, init: s.init, next: s.next, cur: s.cur}
			return g
		}
		// variant 1: OpenStore
		g := restore()
		g.opRobs("open", 0, nil, "v:open")
		// variant 2: OpenOrCreateStore with the store's own parameters (or the step's, for a creation)
		vf, vi := s.first, s.init
		if m.kind == "create" || m.kind == "ooc" {
			vf, vi = m.first, m.init
		}
		if len(vi) > 0 {
			s.out.Line("crestore")
			g = restore()
			g.opRobs("ooc", vf, vi, "v:ooc")
		}
		// retry
		s.out.Line("cretry")
		g = restore()
		switch m.kind {
		case "put":
			if g.opRobs("open", 0, nil, "") != "" && g.cs != nil {
				g.opPut(m.cert, -1)
				g.opObs("retry")
			} else {
				s.out.Line("retry-impossible")
			}
		case "create":
			// the node's idiom (store.go openCertstore): OpenStore, CreateStore if not initialised
			r := g.opRobs("open", 0, nil, "")
			if r == "err:notInitialized" {
				r = g.opCreate(m.first, m.init, -1)
			}
			if g.cs != nil {
				g.opObs("retry")
			} else if r != fullRes {
				s.out.Line("retry-impossible")
			}
		case "ooc":
			r := g.opOOC(m.first, m.init, -1)
			if g.cs != nil {
				g.opObs("retry")
			} else if r != fullRes {
				s.out.Line("retry-impossible")
			}
		case "open":
			g.opRobs("open", 0, nil, "retry")
		case "delall":
			if g.opRobs("open", 0, nil, "") != "" && g.cs != nil {
				g.opDeleteAll(-1)
			}
			g.opRobs("open", 0, nil, "retry")
		}
		g.dropHandle()
		s.out.Line("cdone")
	}
	pass(-1)
	if n > 0 {
		pass(0)
	}
	for k := 1; k < n; k++ {
		pass(k)
	}
	s.out.Line("cend")
}

type histCfg struct {
	ops       int
	crashEnum bool // enumerate every crash point of every mutating step
	crashMain int  // percent chance that a mutating step of the main line itself crashes
	label     string
}

func (s *session) readSome() {
	rng := s.rng
	lo := uint64(0)
	if s.first > 2 {
		lo = s.first - 2
	}
	span := int(s.next-lo) + 3
	pick := func() uint64 { return lo + uint64(rng.Intn(span)) }
	switch rng.Intn(8) {
	case 0, 1:
		s.opGet(pick())
	case 2:
		a := pick()
		b := a + uint64(rng.Intn(6))
		if rng.Chance(1, 8) && a > 0 {
			b = a - 1
		}
		s.opRange(a, b)
	case 3:
		s.opLatest()
	case 4, 5, 6:
		s.opPT(pick())
	default:
		if s.next >= s.first {
			s.opRange(s.first, s.next+uint64(rng.Intn(2)))
		}
	}
}

func runHistory(out *vh.Out, in *interner, rng *vh.Rng, cfg histCfg) {
	freq := pickFreq(rng)
	s := newSession(out, in, rng, freq)
	out.Line("new freq=%d %s", freq, cfg.label)
	blocked := false // a writer stuck on a subscriber channel holds the store lock for good: stop this history
	mut := func(m mstep) {
		if m.needsHandle() && s.cs == nil {
			return
		}
		if cfg.crashEnum {
			s.enumerateCrashes(m)
		}
		if cfg.crashMain > 0 && rng.Chance(cfg.crashMain, 100) {
			// the main line itself crashes somewhere inside the step and continues from there
			res := s.exec(m, rng.Intn(4))
			if res == "err:crash" {
				if s.cs != nil {
					s.opClose() // the process died: the handle is gone
				}
				// restart and look: the main line continues from whatever the crash left
				s.opRobs("open", 0, nil, "resync")
				s.opClose()
			}
			return
		}
		if s.exec(m, -1) == "err:wouldBlock" {
			blocked = true
		}
	}
	for i := 0; i < cfg.ops && !blocked; i++ {
		if s.cs == nil {
			if !s.initialised() {
				first := pickFirst(rng, freq)
				init := genInitTable(rng)
				if rng.Chance(4, 100) && len(init) > 1 && !cfg.crashEnum {
					// malformed stream: an initial table that is not in canonical order
					init[0], init[len(init)-1] = init[len(init)-1], init[0]
					out.Line("# non-canonical initial table")
				}
				switch c := rng.Intn(20); {
				case c < 2:
					mut(mstep{kind: "open"})
				case c < 3:
					s.opCreate(first, gpbft.PowerEntries{}, -1)
				case c < 4 && len(s.init) > 0: // re-create with the previous parameters (after a wipe)
					mut(mstep{kind: "ooc", first: s.first, init: s.init})
				case c < 12:
					mut(mstep{kind: "create", first: first, init: init})
				default:
					mut(mstep{kind: "ooc", first: first, init: init})
				}
			} else {
				// believed parameters (from the last time a handle was open); fall back to a probe
				switch c := rng.Intn(20); {
				case c < 9:
					mut(mstep{kind: "open"})
				case c < 15 && len(s.init) > 0:
					mut(mstep{kind: "ooc", first: s.first, init: s.init})
				case c < 16 && len(s.init) > 0:
					s.opOOC(s.first+1, s.init, -1)
				case c < 17:
					s.opOOC(s.first, genInitTable(rng), -1)
				case c < 18:
					s.opCreate(s.first, genInitTable(rng), -1)
				case c < 19 && !cfg.crashEnum:
					s.fds.resetLog()
					_ = s.fds.Put(ctx, dsKey("/tombstone"), []byte("tombstone"))
					out.Line("plant => ws=%s", s.fds.wsTok())
				default:
					mut(mstep{kind: "open"})
				}
			}
			continue
		}
		switch c := rng.Intn(100); {
		case c < 42:
			nt := nextTable(rng, s.cur)
			mut(mstep{kind: "put", cert: mkCert(rng, in, s.next, s.cur, nt)})
		case c < 54:
			nt := nextTable(rng, s.cur)
			good := mkCert(rng, in, s.next, s.cur, nt)
			bad, tag := breakCert(rng, in, good, s.cur, s.first, s.next)
			out.Line("# malformed put: %s", tag)
			mut(mstep{kind: "put", cert: bad})
		case c < 57: // stale re-put of the stored certificate itself
			if s.next > s.first {
				i := s.first + uint64(rng.Intn(int(s.next-s.first)))
				if old, err := s.cs.Get(ctx, i); err == nil {
					mut(mstep{kind: "put", cert: old})
				}
			}
		case c < 78:
			s.readSome()
		case c < 80:
			s.opObs("")
		case c < 83:
			if len(s.subs) < 3 {
				s.opSub()
			}
		case c < 88:
			if id, ok := s.pickSub(); ok {
				s.opRecv(id)
			}
		case c < 89:
			if id, ok := s.pickSub(); ok {
				s.opUnsub(id)
			}
		case c < 97:
			s.opClose()
		case c < 99:
			if cfg.ops-i < 12 || rng.Chance(1, 3) {
				mut(mstep{kind: "delall"})
			}
		default:
			s.opObs("")
		}
	}
	if blocked {
		s.cs = nil
		s.subs = map[int]*subscription{}
		return
	}
	if s.cs != nil {
		s.opObs("")
	}
	s.dropHandle()
}

// pickSub chooses a live subscription with the PRNG (never by map order).
func (s *session) pickSub() (int, bool) {
	if len(s.subs) == 0 {
		return 0, false
	}
	ids := make([]int, 0, len(s.subs))
	for id := range s.subs {
		ids = append(ids, id)
	}
	sort.Ints(ids)
	return ids[s.rng.Intn(len(ids))], true
}

func dsKey(k string) datastore.Key { return datastore.NewKey(k) }

// runLong: one store that grows beyond a thousand certificates under the default checkpoint frequency, so that range
// reads and power-table derivations span more than 1024 instances (ordinary histories stay far below), read back
// before and after reopening.
func runLong(out *vh.Out, in *interner, rng *vh.Rng) {
	freq := uint64(certstore.VerifDefaultPowerTableFrequency)
	s := newSession(out, in, rng, freq)
	out.Line("new freq=%d c09-long", freq)
	first := uint64(1 + rng.Intn(300))
	if s.exec(mstep{kind: "create", first: first, init: genInitTable(rng)}, -1) != "ok" || s.cs == nil {
		return
	}
	n := 1060 + rng.Intn(120)
	for i := 0; i < n; i++ {
		nt := s.cur
		if rng.Chance(1, 6) {
			nt = nextTable(rng, s.cur)
		}
		if s.exec(mstep{kind: "put", cert: mkCert(rng, in, s.next, s.cur, nt)}, -1) != "ok" {
			return
		}
	}
	look := func() {
		s.opRange(s.first, s.next-1)                    // everything: more than 1024 certificates
		s.opRange(s.first, s.first+1030)                // a stored stretch longer than 1024
		s.opRange(s.first+5, s.next+uint64(rng.Intn(40))) // runs past the end: must say so
		s.opRange(s.next-3, s.next-1)
		s.opPT(s.first + 1040)                       // derived over more than 1024 deltas
		s.opPT(s.next)
		s.opObs("")
	}
	look()
	s.opClose()
	if s.exec(mstep{kind: "open"}, -1) == "ok" && s.cs != nil {
		look()
	}
	s.dropHandle()
}
