package main

import (
	"fmt"
	"sync"
	"sync/atomic"

	"github.com/filecoin-project/go-f3/certs"
	"github.com/filecoin-project/go-f3/certstore"
	"github.com/filecoin-project/go-f3/gpbft"
	"github.com/filecoin-project/go-f3/internal/verifh/lib/vh"
)

// runConcurrent: one writer putting a valid history while readers and a subscriber run against the
// same store handle. Every reader checks its own observations against the generated ground truth:
// latest never goes back, every instance up to an observed latest has its certificate, every power
// table up to latest+1 is the expected one; the subscriber sees strictly increasing instances and ends
// on the last certificate. Goroutine scheduling is not reproducible, so only the verdict is logged.
func runConcurrent(out *vh.Out, in *interner, rng *vh.Rng, round int) {
	freq := pickFreq(rng)
	first := pickFirst(rng, freq)
	init := genInitTable(rng)
	n := 40 + rng.Intn(80)
	tables := []gpbft.PowerEntries{init}
	var chain []*certs.FinalityCertificate
	for i := 0; i < n; i++ {
		nt := nextTable(rng, tables[i])
		chain = append(chain, mkCert(rng, in, first+uint64(i), tables[i], nt))
		tables = append(tables, nt)
	}
	f := newFaultDS(in, rng.U64())
	f.quiet = true
	cs, err := certstore.CreateStore(ctx, &lockedDS{inner: f}, first, init)
	if err != nil {
		out.Line("conc %d => violation:create:%s", round, errKind(err))
		return
	}
	certstore.VerifSetPowerTableFrequency(cs, freq)
	var bad atomic.Value
	fail := func(format string, a ...any) { bad.CompareAndSwap(nil, fmt.Sprintf(format, a...)) }
	done := make(chan struct{})
	var wg sync.WaitGroup
	// subscriber
	ch, closer := cs.Subscribe()
	wg.Add(1)
	go func() {
		defer wg.Done()
		last := int64(-1)
		for {
			select {
			case c := <-ch:
				if int64(c.GPBFTInstance) <= last {
					fail("subscriber saw instance %d after %d", c.GPBFTInstance, last)
				}
				last = int64(c.GPBFTInstance)
				if c.GPBFTInstance == first+uint64(n-1) {
					return
				}
			case <-done:
				// drain what is left: the channel must hold the last certificate unless it was already seen
				select {
				case c := <-ch:
					last = int64(c.GPBFTInstance)
				default:
				}
				if last != int64(first+uint64(n-1)) {
					fail("subscriber ended on %d, latest is %d", last, first+uint64(n-1))
				}
				return
			}
		}
	}()
	// readers
	for r := 0; r < 4; r++ {
		seed := rng.U64()
		wg.Add(1)
		go func() {
			defer wg.Done()
			defer func() {
				if p := recover(); p != nil {
					fail("reader panic: %v", p)
				}
			}()
			lr := vh.NewRng(seed)
			seen := int64(-1)
			for {
				select {
				case <-done:
					return
				default:
				}
				lat := cs.Latest()
				cur := int64(-1)
				if lat != nil {
					cur = int64(lat.GPBFTInstance - first)
				}
				if cur < seen {
					fail("latest went back from %d to %d", seen, cur)
				}
				seen = cur
				if cur >= 0 {
					k := lr.Intn(int(cur) + 1)
					c, err := cs.Get(ctx, first+uint64(k))
					if err != nil || c.GPBFTInstance != first+uint64(k) || !c.SupplementalData.Eq(&chain[k].SupplementalData) {
						fail("get %d below observed latest %d failed or returned another certificate", k, cur)
					}
				}
				k := lr.Intn(int(cur) + 2)
				pt, err := cs.GetPowerTable(ctx, first+uint64(k))
				if err != nil || !pt.Equal(tables[k]) {
					fail("power table for offset %d (observed latest %d) wrong: %v", k, cur, err)
				}
				if cur >= 1 {
					a := lr.Intn(int(cur))
					cr, err := cs.GetRange(ctx, first+uint64(a), first+uint64(cur))
					if err != nil || len(cr) != int(cur)-a+1 {
						fail("range %d..%d incomplete below observed latest", a, cur)
					}
				}
			}
		}()
	}
	// writer
	for _, c := range chain {
		if err := cs.Put(ctx, c); err != nil {
			fail("writer: put %d: %s", c.GPBFTInstance, errKind(err))
			break
		}
	}
	close(done)
	wg.Wait()
	closer()
	if v := bad.Load(); v != nil {
		out.Line("conc %d => violation:%s", round, sanitize(v.(string)))
	} else {
		out.Line("conc %d => ok", round)
	}
}

func sanitize(s string) string {
	b := []byte(s)
	for i := range b {
		if b[i] == ' ' {
			b[i] = '_'
		}
	}
	return string(b)
}
