package main

import (
	"errors"
	"bytes"
	"encoding/binary"
	"fmt"
	"sort"
	"strings"

	"github.com/filecoin-project/go-f3/certs"
	"github.com/filecoin-project/go-f3/certstore"
	"github.com/filecoin-project/go-f3/gpbft"
	"github.com/filecoin-project/go-f3/internal/verifh/lib/vh"
	"github.com/filecoin-project/go-f3/manifest"
	"github.com/ipfs/go-cid"
	"github.com/multiformats/go-multihash"
	"golang.org/x/crypto/blake2b"
)

// rawBlock is one length-prefixed block of a snapshot: prefix bytes and body bytes.
type rawBlock struct {
	prefix []byte
	body   []byte
}

func mkBlock(body []byte) rawBlock {
	buf := make([]byte, binary.MaxVarintLen64)
	n := binary.PutUvarint(buf, uint64(len(body)))
	return rawBlock{prefix: buf[:n], body: body}
}

// splitBlocks parses exported bytes with an independent reader (uvarint + body).
func splitBlocks(b []byte) ([]rawBlock, bool) {
	var out []rawBlock
	for len(b) > 0 {
		l, n := binary.Uvarint(b)
		if n <= 0 || uint64(len(b)-n) < l {
			return out, false
		}
		out = append(out, rawBlock{prefix: b[:n], body: b[n : n+int(l)]})
		b = b[n+int(l):]
	}
	return out, true
}

func joinBlocks(bs []rawBlock) []byte {
	var buf bytes.Buffer
	for _, b := range bs {
		buf.Write(b.prefix)
		buf.Write(b.body)
	}
	return buf.Bytes()
}

// blockTok describes a block for the model: what its body decodes to and the two sizes.
func (s *session) blockTok(i int, b rawBlock) string {
	sz := fmt.Sprintf("%d:%d", len(b.prefix), len(b.body))
	if i == 0 {
		var h certstore.SnapshotHeader
		if err := h.UnmarshalCBOR(bytes.NewReader(b.body)); err == nil {
			return fmt.Sprintf("H:%d:%d:%d:%s:%s", h.Version, h.FirstInstance, h.LatestInstance, s.in.tableTok(h.InitialPowerTable), sz)
		}
		return "j:" + sz
	}
	t := s.in.certBytesTok(b.body)
	if t[0] != 'c' {
		return "j:" + sz
	}
	return t + ":" + sz
}

func (s *session) snapTok(bs []rawBlock) string {
	if len(bs) == 0 {
		return "."
	}
	toks := make([]string, len(bs))
	for i, b := range bs {
		toks[i] = s.blockTok(i, b)
	}
	return strings.Join(toks, "|")
}

type mfSpec struct {
	m   *manifest.Manifest
	tok string
}

func (s *session) mkManifest(first uint64, table gpbft.PowerEntries, withTable bool) mfSpec {
	m := &manifest.Manifest{InitialInstance: first}
	tok := fmt.Sprintf("%d:-", first)
	if withTable {
		m.InitialPowerTable = tableCid(table)
		tok = fmt.Sprintf("%d:%s", first, s.in.tableTok(table))
	}
	return mfSpec{m, tok}
}

// importAndObserve imports bytes into an empty datastore and, if accepted, opens the result and
// reports all observations plus, per instance, whether the derived next table hashes to the
// certificate's committed CID.
func (s *session) importAndObserve(head string, data []byte, mf mfSpec, ifreq uint64) string {
	target := newFaultDS(s.in, s.rng.U64())
	res := guard(func() string {
		return importErrKind(certstore.VerifImportSnapshot(ctx, bytes.NewReader(data), target, mf.m, ifreq))
	})
	if res == "err:snapHeader" && strings.Contains(head, "kind=empty-block") {
		// the raw io.EOF here is the certificate decoder's answer to a block with no bytes, not the reader's
		res = "err:snapDecode"
	}
	mtok := mf.tok
	if mf.m == nil {
		mtok = "-"
	}
	// after a rejected import no latest pointer may be left behind
	hasLatest, _ := target.inner.Has(ctx, dsKey("/certstore/latestCert"))
	s.out.Line("%s mf=%s ifreq=%d => %s latestkey=%v", head, mtok, ifreq, res, hasLatest)
	if res != "ok" {
		return res
	}
	ofreq := ifreq
	if ofreq == 0 {
		ofreq = certstore.VerifDefaultPowerTableFrequency
	}
	g := &session{out: s.out, in: s.in, rng: s.rng, fds: target, freq: ofreq, subs: map[int]*subscription{}}
	o := guard(func() string {
		cs, err := certstore.OpenStore(ctx, target)
		if err != nil {
			return errKind(err)
		}
		g.cs = cs
		g.setFreq()
		return g.obsString()
	})
	s.out.Line("iobs => %s", o)
	if g.cs != nil {
		cons := guard(func() string {
			first := g.probeFirst()
			lat := g.cs.Latest()
			var flags []string
			if lat != nil {
				for i := first; i <= lat.GPBFTInstance; i++ {
					c, err1 := g.cs.Get(ctx, i)
					pt, err2 := g.cs.GetPowerTable(ctx, i+1)
					ok := err1 == nil && err2 == nil && tableCid(pt) == c.SupplementalData.PowerTable
					if ok {
						flags = append(flags, "1")
					} else {
						flags = append(flags, "0")
					}
				}
			}
			if len(flags) == 0 {
				return "-"
			}
			return strings.Join(flags, ",")
		})
		s.out.Line("icons => %s", cons)
	}
	return res
}

func reencode(c *certs.FinalityCertificate) []byte {
	var buf bytes.Buffer
	if err := c.MarshalCBOR(&buf); err != nil {
		panic(err)
	}
	return buf.Bytes()
}

func decodeCert(b []byte) *certs.FinalityCertificate {
	var c certs.FinalityCertificate
	if err := c.UnmarshalCBOR(bytes.NewReader(b)); err != nil {
		panic(err)
	}
	return &c
}

// bumpDelta adds `by` to participant id's power delta inside a diff (inserting / removing the entry
// as needed, keeping the diff sorted and free of zero entries). ok=false if that is not expressible.
func bumpDelta(d certs.PowerTableDiff, id gpbft.ActorID, by int64) (certs.PowerTableDiff, bool) {
	out := make(certs.PowerTableDiff, 0, len(d)+1)
	done := false
	for _, e := range d {
		if e.ParticipantID == id {
			done = true
			np := gpbft.NewStoragePower(e.PowerDelta.Int64() + by)
			if np.Sign() == 0 && len(e.SigningKey) == 0 {
				continue // entry vanishes
			}
			e.PowerDelta = np
		}
		out = append(out, e)
	}
	if !done {
		out = append(out, certs.PowerTableDelta{ParticipantID: id, PowerDelta: gpbft.NewStoragePower(by)})
		sort.Slice(out, func(i, j int) bool { return out[i].ParticipantID < out[j].ParticipantID })
	}
	return out, true
}

// runSnapshotCase: build a store, export at many end points, re-import (round trip), truncate, corrupt.
func runSnapshotCase(out *vh.Out, in *interner, rng *vh.Rng, thorough bool, caseNo int) {
	freq := pickFreq(rng)
	s := newSession(out, in, rng, freq)
	out.Line("new freq=%d snapshot-case-%d", freq, caseNo)
	first := pickFirst(rng, freq)
	if first == 0 && rng.Chance(3, 4) {
		first = uint64(1 + rng.Intn(20))
	}
	init := genInitTable(rng)
	if rng.Bool() {
		s.opCreate(first, init, -1)
	} else {
		s.opOOC(first, init, -1)
	}
	n := 1 + rng.Intn(int(3*min(freq, 8))+3)
	if freq == certstore.VerifDefaultPowerTableFrequency {
		n = 4 + rng.Intn(24)
	}
	var tables []gpbft.PowerEntries // tables[i] validates instance first+i
	tables = append(tables, init)
	for i := 0; i < n; i++ {
		nt := nextTable(rng, s.cur)
		s.opPut(mkCert(rng, in, s.next, s.cur, nt), -1)
		tables = append(tables, s.cur)
	}
	s.opObs("")
	latest := s.next - 1
	// end points
	var ends []uint64
	lo := first
	if lo > 0 {
		lo--
	}
	for e := lo; e <= latest+1; e++ {
		ends = append(ends, e)
	}
	if !thorough && len(ends) > 7 {
		keep := map[uint64]bool{lo: true, first: true, latest: true, latest + 1: true}
		for len(keep) < 7 {
			keep[ends[rng.Intn(len(ends))]] = true
		}
		var k []uint64
		for _, e := range ends {
			if keep[e] {
				k = append(k, e)
			}
		}
		ends = k
	}
	for _, end := range ends {
		var buf bytes.Buffer
		var c cid.Cid
		var hdr *certstore.SnapshotHeader
		useLatest := end == latest && rng.Bool()
		if rng.Chance(1, 3) {
			// an export that fails after it has begun (end point beyond the latest certificate, or a writer that
			// gives up) on the same Store object, before the export that is judged: the digest of an export is the
			// digest of ITS bytes, whatever happened on the handle before
			guard(func() string {
				if rng.Bool() {
					var junk bytes.Buffer
					_, _, err := s.cs.ExportSnapshot(ctx, latest+1+uint64(rng.Intn(3)), &junk)
					return errKind(err)
				}
				_, _, err := s.cs.ExportSnapshot(ctx, end, &failingWriter{after: 1 + rng.Intn(200)})
				return errKind(err)
			})
		}
		res := guard(func() string {
			var err error
			if useLatest {
				c, hdr, err = s.cs.ExportLatestSnapshot(ctx, &buf)
			} else {
				c, hdr, err = s.cs.ExportSnapshot(ctx, end, &buf)
			}
			return errKind(err)
		})
		head := fmt.Sprintf("export %d", end)
		if useLatest {
			head = "exportlatest"
		}
		if res != "ok" {
			out.Line("%s => %s", head, res)
			continue
		}
		data := buf.Bytes()
		blocks, wellFramed := splitBlocks(data)
		sum := blake2b.Sum256(data)
		mh, _ := multihash.Encode(sum[:], multihash.BLAKE2B_MIN+31)
		digest := "bad"
		if c.Defined() && c.Prefix().Version == 1 && c.Prefix().Codec == cid.Raw && bytes.Equal(c.Hash(), mh) {
			digest = "ok"
		}
		out.Line("%s => ok digest=%s framed=%v hdrret=%d:%d:%d:%s snap=%s", head, digest, wellFramed, hdr.Version, hdr.FirstInstance, hdr.LatestInstance,
			s.in.tableTok(hdr.InitialPowerTable), s.snapTok(blocks))
		if !wellFramed {
			continue
		}
		snapTok := s.snapTok(blocks)
		// round trips: with and without manifest, with the store's period and with the default one
		s.importAndObserve("import kind=roundtrip snap="+snapTok+" tail=clean", data, mfSpec{}, freq)
		s.importAndObserve("import kind=roundtrip snap="+snapTok+" tail=clean", data, s.mkManifest(first, init, true), freq)
		if rng.Bool() {
			s.importAndObserve("import kind=roundtrip snap="+snapTok+" tail=clean", data, s.mkManifest(first, init, false), 0)
		}
		// manifest disagreement
		s.importAndObserve("import kind=mf-first snap="+snapTok+" tail=clean", data, s.mkManifest(first+1, init, true), freq)
		other := nextTable(rng, nextTable(rng, init))
		if !other.Equal(init) {
			s.importAndObserve("import kind=mf-table snap="+snapTok+" tail=clean", data, s.mkManifest(first, other, true), freq)
		}
		// truncation
		total := len(data)
		var cuts []int
		// thorough: every byte of every export of up to 6 KiB (larger ones: every byte of the first and
		// last 1.5 KiB plus the block edges and samples); quick: block edges and samples
		every := total <= 160 || (thorough && total <= 6144)
		if every {
			for p := 0; p < total; p++ {
				cuts = append(cuts, p)
			}
		} else {
			set := map[int]bool{0: true, 1: true, total - 1: true}
			off := 0
			for _, b := range blocks {
				for _, d := range []int{-1, 0, 1} {
					for _, p := range []int{off + d, off + len(b.prefix) + d, off + len(b.prefix) + len(b.body)/2 + d} {
						if p >= 0 && p < total {
							set[p] = true
						}
					}
				}
				off += len(b.prefix) + len(b.body)
			}
			for i := 0; i < 40; i++ {
				set[rng.Intn(total)] = true
			}
			if thorough {
				for p := 0; p < 1536 && p < total; p++ {
					set[p] = true
					set[total-1-p] = true
				}
			}
			for p := range set {
				cuts = append(cuts, p)
			}
			sort.Ints(cuts)
		}
		for _, p := range cuts {
			target := newFaultDS(s.in, 1)
			r := guard(func() string {
				return importErrKind(certstore.VerifImportSnapshot(ctx, bytes.NewReader(data[:p]), target, nil, freq))
			})
			hasLatest, _ := target.inner.Has(ctx, dsKey("/certstore/latestCert"))
			out.Line("trunc %d => %s latestkey=%v", p, r, hasLatest)
		}
		// block-level corruptions
		ncert := len(blocks) - 1
		corrupt := func(kind string, bs []rawBlock, mf mfSpec) {
			s.importAndObserve(fmt.Sprintf("import kind=%s snap=%s tail=clean", kind, s.snapTok(bs)), joinBlocks(bs), mf, freq)
		}
		cp := func() []rawBlock { return append([]rawBlock(nil), blocks...) }
		var hdrDec certstore.SnapshotHeader
		_ = hdrDec.UnmarshalCBOR(bytes.NewReader(blocks[0].body))
		encHdr := func(h certstore.SnapshotHeader) rawBlock {
			var b bytes.Buffer
			if err := h.MarshalCBOR(&b); err != nil {
				panic(err)
			}
			return mkBlock(b.Bytes())
		}
		rounds := 1
		if thorough {
			rounds = 3
		}
		for r := 0; r < rounds; r++ {
			if ncert >= 1 {
				j := 1 + rng.Intn(ncert)
				bs := cp()
				corrupt("gap", append(bs[:j:j], bs[j+1:]...), mfSpec{})
				bs = cp()
				corrupt("dup", append(bs[:j:j], append([]rawBlock{bs[j]}, bs[j:]...)...), mfSpec{})
			}
			if ncert >= 2 {
				j := 1 + rng.Intn(ncert-1)
				bs := cp()
				bs[j], bs[j+1] = bs[j+1], bs[j]
				corrupt("reorder", bs, mfSpec{})
			}
			// surplus: the store's real next certificate(s) appended, header unchanged
			if end < latest && ncert >= 1 {
				if b, err := s.fds.inner.Get(ctx, dsKey(fmt.Sprintf("/certstore/certs/%016X", end+1))); err == nil {
					corrupt("surplus", append(cp(), mkBlock(b)), mfSpec{})
				}
			}
			if ncert >= 1 { // surplus: the last certificate once more at the end
				corrupt("surplus-dup-last", append(cp(), blocks[len(blocks)-1]), mfSpec{})
			}
			// header disagreements
			for _, hk := range []string{"hdr-latest+1", "hdr-latest-1", "hdr-first+1", "hdr-first-1", "hdr-init"} {
				h := hdrDec
				switch hk {
				case "hdr-latest+1":
					h.LatestInstance++
				case "hdr-latest-1":
					if h.LatestInstance == 0 {
						continue
					}
					h.LatestInstance--
				case "hdr-first+1":
					h.FirstInstance++
				case "hdr-first-1":
					if h.FirstInstance == 0 {
						continue
					}
					h.FirstInstance--
				case "hdr-init":
					t := copyTable(h.InitialPowerTable)
					t[0].Power = gpbft.NewStoragePower(t[0].Power.Int64() + 1)
					h.InitialPowerTable = sortTable(t)
				}
				bs := cp()
				bs[0] = encHdr(h)
				corrupt(hk, bs, mfSpec{})
			}
			// a complete snapshot followed by a bare length prefix (a block announced, no body byte)
			if ncert >= 1 {
				extra := mkBlock(make([]byte, 1+rng.Intn(300))).prefix
				s.importAndObserve(fmt.Sprintf("import kind=dangling-prefix snap=%s tail=afterVarint", snapTok),
					append(append([]byte(nil), data...), extra...), mfSpec{}, freq)
				// ... and by a length prefix plus part of a body
				s.importAndObserve(fmt.Sprintf("import kind=dangling-body snap=%s tail=midBody", snapTok),
					append(append(append([]byte(nil), data...), mkBlock(make([]byte, 9)).prefix...), 1, 2, 3), mfSpec{}, freq)
			}
			// an empty block (length prefix 0) after the complete snapshot, alone or followed by surplus blocks
			if ncert >= 1 {
				corrupt("empty-block-tail", append(cp(), mkBlock([]byte{})), mfSpec{})
				corrupt("empty-block-surplus", append(append(cp(), mkBlock([]byte{})), blocks[len(blocks)-1]), mfSpec{})
				corrupt("empty-block-junk", append(append(cp(), mkBlock([]byte{})), mkBlock([]byte("junk-after-empty"))), mfSpec{})
				if ncert >= 2 {
					bs := cp()
					j := 1 + rng.Intn(ncert)
					bs = append(bs[:j], append([]rawBlock{mkBlock([]byte{})}, bs[j:]...)...)
					corrupt("empty-block-inside", bs, mfSpec{})
				}
			}
			// junk block / junk tail
			if ncert >= 1 {
				j := 1 + rng.Intn(ncert)
				bs := cp()
				bs[j] = mkBlock([]byte(fmt.Sprintf("junk-%d", rng.Intn(1000))))
				corrupt("junk-block", bs, mfSpec{})
			}
			// deltas that do not reproduce the committed tables
			if ncert >= 1 {
				// (a) one certificate's delta changed
				j := 1 + rng.Intn(ncert)
				c := decodeCert(blocks[j].body)
				tbl := tables[int(c.GPBFTInstance-first)]
				id := tbl[rng.Intn(len(tbl))].ID
				if nd, ok := bumpDelta(c.PowerTableDelta, id, int64(1+rng.Intn(3))); ok {
					c.PowerTableDelta = nd
					bs := cp()
					bs[j] = mkBlock(reencode(c))
					corrupt("delta-single", bs, mfSpec{})
				}
				// (b) one certificate's commitment changed, deltas intact
				c = decodeCert(blocks[j].body)
				c.SupplementalData.PowerTable = tableCid(other)
				bs := cp()
				bs[j] = mkBlock(reencode(c))
				corrupt("commit-single", bs, mfSpec{})
			}
			if ncert >= 2 {
				// (c) compensating pair: +x in certificate j, -x in certificate j+1
				j := 1 + rng.Intn(ncert-1)
				c1, c2 := decodeCert(blocks[j].body), decodeCert(blocks[j+1].body)
				t1 := tables[int(c1.GPBFTInstance-first)]
				t2 := tables[int(c2.GPBFTInstance-first)]
				t3 := tables[int(c2.GPBFTInstance-first)+1]
				// a participant present before, between and after, so that both changes apply
				var cand []gpbft.ActorID
				for _, e := range t1 {
					in2, in3 := false, false
					for _, f := range t2 {
						in2 = in2 || f.ID == e.ID
					}
					for _, f := range t3 {
						in3 = in3 || f.ID == e.ID
					}
					if in2 && in3 {
						cand = append(cand, e.ID)
					}
				}
				if len(cand) > 0 {
					id := cand[rng.Intn(len(cand))]
					x := int64(1 + rng.Intn(3))
					d1, ok1 := bumpDelta(c1.PowerTableDelta, id, x)
					d2, ok2 := bumpDelta(c2.PowerTableDelta, id, -x)
					if ok1 && ok2 {
						c1.PowerTableDelta, c2.PowerTableDelta = d1, d2
						bs := cp()
						bs[j], bs[j+1] = mkBlock(reencode(c1)), mkBlock(reencode(c2))
						corrupt("compdelta", bs, mfSpec{})
					}
				}
			}
		}
	}
	s.dropHandle()
}

// importErrKind: the importer returns two kinds of raw errors: the reader's EOF errors while reading the
// header block, and the CBOR decoder's errors for a block that is not a certificate.
func importErrKind(err error) string {
	switch k := errKind(err); k {
	case "err:eof":
		return "err:snapHeader"
	case "err:other":
		return "err:snapDecode"
	default:
		return k
	}
}

// failingWriter accepts `after` bytes and then fails every write.
type failingWriter struct{ after int }

func (f *failingWriter) Write(p []byte) (int, error) {
	if len(p) <= f.after {
		f.after -= len(p)
		return len(p), nil
	}
	n := f.after
	f.after = 0
	return n, errors.New("writer gave up")
}
