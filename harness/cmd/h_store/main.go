// h_store drives the real certificate store (certstore.Store, snapshot export/import) over a
// fault-injecting datastore and logs one operation per line together with what the implementation
// answered (properties C09, C10, C17). Usage: h_store <c09|c10|c17|all>.
package main

import (
	"bytes"
	"fmt"
	"os"

	"github.com/filecoin-project/go-f3/certs"
	"github.com/filecoin-project/go-f3/certstore"
	"github.com/filecoin-project/go-f3/internal/verifh/lib/vh"
)

// probeResumeInner observes which code exists: does opening a store continue a wipe whose tombstone
// lies inside the /certstore namespace (where DeleteAll writes it)?
func probeResumeInner(in *interner) (resumes bool) {
	defer func() { _ = recover() }()
	f := newFaultDS(in, 1)
	_ = f.inner.Put(ctx, dsKey("/certstore/tombstone"), []byte("tombstone"))
	_ = f.inner.Put(ctx, dsKey("/certstore/certs/0000000000000001"), []byte("x"))
	_, _ = certstore.OpenStore(ctx, f)
	has, _ := f.inner.Has(ctx, dsKey("/certstore/certs/0000000000000001"))
	return !has
}

// probeLenientEOF observes which reader exists: is a complete snapshot followed by a bare length prefix
// (a block announced, not a single body byte) taken for a complete snapshot?
func probeLenientEOF(in *interner) (lenient bool) {
	// a store too broken to be probed is described as the pinned tree; the streams below will show what is wrong
	lenient = true
	defer func() { _ = recover() }()
	f := newFaultDS(in, 1)
	rng := vh.NewRng(12345)
	init := genInitTable(rng)
	cs, err := certstore.CreateStore(ctx, f, 0, init)
	if err != nil {
		panic(err)
	}
	if err := cs.Put(ctx, mkCert(rng, in, 0, init, init)); err != nil {
		panic(err)
	}
	var buf bytes.Buffer
	if _, _, err := cs.ExportSnapshot(ctx, 0, &buf); err != nil {
		panic(err)
	}
	if certstore.VerifImportSnapshot(ctx, bytes.NewReader(buf.Bytes()), newFaultDS(in, 3), nil, 0) != nil {
		return true // the plain round trip does not even work: nothing can be concluded
	}
	data := append(buf.Bytes(), 0x05)
	return certstore.VerifImportSnapshot(ctx, bytes.NewReader(data), newFaultDS(in, 2), nil, 0) == nil
}

func main() {
	out := vh.NewOut()
	defer out.Flush()
	mode := "all"
	if len(os.Args) > 1 {
		mode = os.Args[1]
	}
	rng := vh.NewRng(vh.Seed())
	thorough := vh.Thorough()
	in := newInterner(out)
	_ = certs.PowerTableDiff{}
	out.Line("cfg resumeInner=%v defaultFreq=%d lenientEOF=%v", probeResumeInner(in), certstore.VerifDefaultPowerTableFrequency, probeLenientEOF(in))

	if mode == "c09" || mode == "all" {
		n, ops := vh.EnvInt("VERIF_STORE_HIST", 1000), 160
		if thorough {
			n, ops = vh.EnvInt("VERIF_STORE_HIST", 4000), 400
		}
		for i := 0; i < n && blockedWriters < 3; i++ {
			l := ops
			if i%5 == 0 {
				l = ops / 4
			}
			runHistory(out, in, rng.Fork(uint64(i)), histCfg{ops: l, label: fmt.Sprintf("c09-history-%d", i)})
		}
	}
	if mode == "c09" || mode == "all" {
		runLong(out, in, rng.Fork(9000000))
	}
	if mode == "c09" || mode == "conc" || mode == "all" {
		n := vh.EnvInt("VERIF_STORE_CONC", 25)
		if thorough {
			n = vh.EnvInt("VERIF_STORE_CONC", 150)
		}
		out.Line("new freq=2 concurrent-phase")
		for i := 0; i < n; i++ {
			runConcurrent(out, in, rng.Fork(uint64(3000000+i)), i)
		}
	}
	if mode == "c10" || mode == "all" {
		n, ops := vh.EnvInt("VERIF_STORE_CRASH", 500), 28
		if thorough {
			n, ops = vh.EnvInt("VERIF_STORE_CRASH", 3000), 40
		}
		for i := 0; i < n; i++ {
			runHistory(out, in, rng.Fork(uint64(1000000+i)), histCfg{ops: ops, crashEnum: true, crashMain: 15, label: fmt.Sprintf("c10-history-%d", i)})
		}
	}
	if mode == "c17" || mode == "all" {
		n := vh.EnvInt("VERIF_STORE_SNAP", 150)
		if thorough {
			n = vh.EnvInt("VERIF_STORE_SNAP", 45)
		}
		for i := 0; i < n; i++ {
			runSnapshotCase(out, in, rng.Fork(uint64(2000000+i)), thorough, i)
		}
	}
}
