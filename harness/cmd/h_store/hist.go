package main

import (
	"context"
	"errors"
	"fmt"
	"io"
	"strings"
	"time"

	"github.com/filecoin-project/go-f3/certs"
	"github.com/filecoin-project/go-f3/certstore"
	"github.com/filecoin-project/go-f3/gpbft"
	"github.com/filecoin-project/go-f3/internal/verifh/lib/vh"
	"github.com/ipfs/go-datastore"
)

var ctx = context.Background()

// blockedWriters counts Puts that did not return within a second (stuck on a subscriber channel while
// holding the store lock); a few of them are evidence enough, the remaining histories are skipped.
var blockedWriters = 0

// errKind maps the implementation's errors to the model's small enum.
func errKind(err error) string {
	if err == nil {
		return "ok"
	}
	s := err.Error()
	has := func(x string) bool { return strings.Contains(s, x) }
	switch {
	case errors.Is(err, errCrash):
		return "err:crash"
	case has("writer blocked"):
		return "err:wouldBlock"
	case has("empty initial power table"):
		return "err:emptyInitial"
	case errors.Is(err, certstore.ErrNotInitialized):
		return "err:notInitialized"
	case has("already initialized"):
		return "err:alreadyInitialized"
	case has("different initial instance"):
		return "err:firstMismatch"
	case has("wrong power table"):
		return "err:tableMismatch"
	case has("loading latest cert"):
		return "err:loadLatest"
	case has("failed to load initial power table"), has("failed to find expected power table"):
		return "err:noTable"
	case has("before the first instance"), has("only stores certificates on or after"):
		return "err:beforeFirst"
	case has("cannot return future power table"):
		return "err:future"
	case has("applying power deltas"), has("failed to apply power table delta"),
		// raw errors of certs.ApplyPowerTableDiffsToMap (the importer returns them unwrapped)
		has("not sorted by participant ID"), has("contains an empty delta"), has("includes an unchanged key"),
		has("removes all power for participant"), has("non-positive power delta"), has("empty signing key"),
		has("resulted in negative power"):
		return "err:applyDelta"
	case has("is for bottom"):
		return "err:bottom"
	case has("invalid chain in finality certificate"):
		return "err:invalidChain"
	case has("attempted to add cert at"):
		return "err:gap"
	case has("new power table differs from expected"):
		return "err:cidMismatch"
	case has("would empty the power table"):
		return "err:emptyTable"
	case has("start is larger than end"):
		return "err:rangeOrder"
	case has("is too large"):
		return "err:rangeTooLarge"
	case errors.Is(err, certstore.ErrUnknownLatestCertificate):
		return "err:unknownLatest"
	case errors.Is(err, certstore.ErrNoCertificateExtracted):
		return "err:snapNoCert"
	case has("initial instance in the snapshot"):
		return "err:manifestFirst"
	case has("initial power table CID in the snapshot"):
		return "err:manifestTable"
	case has("failed to decode snapshot header"):
		return "err:snapHeader"
	case has("is missing"):
		return "err:snapMissing"
	case has("is found, expected latest instance"):
		return "err:snapSurplus"
	case has("extracted latest instance"):
		return "err:snapLatest"
	case has("failed to decode finality certificate"):
		return "err:snapDecode"
	case errors.Is(err, certstore.ErrCertNotFound), errors.Is(err, datastore.ErrNotFound):
		return "err:notFound"
	case errors.Is(err, io.EOF), errors.Is(err, io.ErrUnexpectedEOF):
		return "err:eof"
	}
	return "err:other"
}

// session is one datastore with at most one open store handle.
type session struct {
	out  *vh.Out
	in   *interner
	rng  *vh.Rng
	fds  *faultDS
	cs   *certstore.Store
	freq uint64
	subs map[int]*subscription
	nsub int

	// generator guidance (what the harness believes; never part of a verdict)
	first   uint64
	init    gpbft.PowerEntries
	next    uint64
	cur     gpbft.PowerEntries
	history []*certs.FinalityCertificate // certificates accepted so far (index = instance - first)
}

type subscription struct {
	ch     <-chan *certs.FinalityCertificate
	closer func()
}

func guard(f func() string) (res string) {
	defer func() {
		if r := recover(); r != nil {
			res = "panic:" + strings.ReplaceAll(fmt.Sprint(r), " ", "_")
		}
	}()
	return f()
}

func (s *session) setFreq() {
	if s.cs != nil {
		certstore.VerifSetPowerTableFrequency(s.cs, s.freq)
	}
}

func bTok(budget int) string {
	if budget < 0 {
		return "-"
	}
	return fmt.Sprint(budget)
}

// mutating runs one store-opening or mutating call with a write budget and prints its line.
func (s *session) mutating(head string, budget int, call func() error) string {
	s.fds.resetLog()
	s.fds.arm(budget)
	res := guard(func() string { return errKind(call()) })
	s.fds.disarm()
	s.out.Line("%s b=%s ord=%s => %s ws=%s", head, bTok(budget), s.fds.ordTok(), res, s.fds.wsTok())
	return res
}

func (s *session) dropHandle() {
	for _, sub := range s.subs {
		sub.closer()
	}
	s.subs = map[int]*subscription{}
	s.nsub = 0
	s.cs = nil
}

func (s *session) opOpen(budget int) string {
	s.dropHandle()
	var cs *certstore.Store
	res := s.mutating("open", budget, func() (err error) { cs, err = certstore.OpenStore(ctx, s.fds); return })
	if res == "ok" {
		s.cs = cs
		s.setFreq()
		s.resync()
	}
	return res
}

func (s *session) opCreate(first uint64, init gpbft.PowerEntries, budget int) string {
	s.dropHandle()
	var cs *certstore.Store
	res := s.mutating(fmt.Sprintf("create %d %s", first, s.in.tableTok(init)), budget, func() (err error) {
		cs, err = certstore.CreateStore(ctx, s.fds, first, init)
		return
	})
	if res == "ok" {
		s.cs = cs
		s.setFreq()
		s.resync()
	}
	return res
}

func (s *session) opOOC(first uint64, init gpbft.PowerEntries, budget int) string {
	s.dropHandle()
	var cs *certstore.Store
	res := s.mutating(fmt.Sprintf("ooc %d %s", first, s.in.tableTok(init)), budget, func() (err error) {
		cs, err = certstore.OpenOrCreateStore(ctx, s.fds, first, init)
		return
	})
	if res == "ok" {
		s.cs = cs
		s.setFreq()
		s.resync()
	}
	return res
}

func (s *session) opClose() {
	s.dropHandle()
	s.out.Line("close")
}

// opPut runs Put in a goroutine so that a writer blocked on a subscriber channel is reported, not hung.
func (s *session) opPut(c *certs.FinalityCertificate, budget int) string {
	tok := s.in.certTok(c)
	res := s.mutating("put "+tok, budget, func() error {
		done := make(chan error, 1)
		go func() {
			defer func() {
				if r := recover(); r != nil {
					done <- fmt.Errorf("panic: %v", r)
				}
			}()
			done <- s.cs.Put(ctx, c)
		}()
		select {
		case err := <-done:
			return err
		case <-time.After(20 * time.Second): // a blocked writer blocks for good; a loaded machine only makes Put slow
			blockedWriters++
			return errors.New("writer blocked")
		}
	})
	if res == "ok" && c.GPBFTInstance == s.next {
		s.resync()
	}
	return res
}

func (s *session) opDeleteAll(budget int) string {
	cs := s.cs
	res := s.mutating("delall", budget, func() error { return cs.DeleteAll(ctx) })
	// the handle is stale after a wipe: drop it
	s.dropHandle()
	s.out.Line("close")
	return res
}

func (s *session) opGet(i uint64) {
	res := guard(func() string {
		c, err := s.cs.Get(ctx, i)
		if err != nil {
			return errKind(err)
		}
		return s.in.certTok(c)
	})
	s.out.Line("get %d => %s", i, res)
}

func (s *session) opLatest() {
	res := guard(func() string { return s.in.certTok(s.cs.Latest()) })
	s.out.Line("latest => %s", res)
}

func (s *session) opPT(i uint64) {
	res := guard(func() string {
		pt, err := s.cs.GetPowerTable(ctx, i)
		if err != nil {
			return errKind(err)
		}
		return s.in.tableTok(pt)
	})
	s.out.Line("pt %d => %s", i, res)
}

func (s *session) opRange(a, b uint64) {
	res := guard(func() string {
		cs, err := s.cs.GetRange(ctx, a, b)
		toks := make([]string, len(cs))
		for i := range cs {
			toks[i] = s.in.certTok(&cs[i])
		}
		l := strings.Join(toks, ",")
		if l == "" {
			l = "-"
		}
		if err != nil && cs == nil {
			return errKind(err)
		}
		return l + " " + errKind(err)
	})
	s.out.Line("range %d %d => %s", a, b, res)
}

func (s *session) opSub() {
	ch, closer := s.cs.Subscribe()
	id := s.nsub
	s.nsub++
	s.subs[id] = &subscription{ch, closer}
	s.out.Line("sub => s%d", id)
}

func (s *session) opRecv(id int) {
	sub := s.subs[id]
	res := "nil"
	select {
	case c, ok := <-sub.ch:
		if !ok {
			res = "closed"
		} else {
			res = s.in.certTok(c)
		}
	default:
	}
	s.out.Line("recv s%d => %s", id, res)
}

func (s *session) opUnsub(id int) {
	s.subs[id].closer()
	delete(s.subs, id)
	s.out.Line("unsub s%d", id)
}

// obsString: everything the API shows through the current handle: first instance (through the
// range of answers), latest, every certificate first..latest, every power table first..latest+1.
func (s *session) obsString() string {
	return guard(func() string {
		cs := s.cs
		lat := cs.Latest()
		// the first instance: smallest i for which GetPowerTable does not say "before first"
		first := s.probeFirst()
		next := first
		if lat != nil {
			next = lat.GPBFTInstance + 1
		}
		var cTok, tTok []string
		for i := first; i < next; i++ {
			c, err := cs.Get(ctx, i)
			if err != nil {
				cTok = append(cTok, "!"+errKind(err)[4:])
			} else {
				cTok = append(cTok, s.in.certTok(c))
			}
		}
		for i := first; i <= next; i++ {
			pt, err := cs.GetPowerTable(ctx, i)
			if err != nil {
				tTok = append(tTok, "!"+errKind(err)[4:])
			} else {
				tTok = append(tTok, s.in.tableTok(pt))
			}
		}
		cl := strings.Join(cTok, ",")
		if cl == "" {
			cl = "-"
		}
		return fmt.Sprintf("ok first=%d latest=%s certs=%s tables=%s", first, s.in.certTok(lat), cl, strings.Join(tTok, ","))
	})
}

// probeFirst finds the store's first instance through the public API only: GetPowerTable(i) fails with
// "before the first instance" exactly for i < first. Binary search over [0, next].
func (s *session) probeFirst() uint64 {
	cs := s.cs
	hi := uint64(0)
	if lat := cs.Latest(); lat != nil {
		hi = lat.GPBFTInstance + 1
	} else {
		// no certificate: GetPowerTable(i) succeeds only for i == first; "future" above, "before" below
		lo, up := uint64(0), uint64(1)<<40
		for lo < up {
			mid := lo + (up-lo)/2
			_, err := cs.GetPowerTable(ctx, mid)
			if err == nil {
				return mid
			}
			if errKind(err) == "err:future" {
				up = mid
			} else {
				lo = mid + 1
			}
		}
		return lo
	}
	lo := uint64(0)
	for lo < hi {
		mid := lo + (hi-lo)/2
		_, err := cs.GetPowerTable(ctx, mid)
		if err != nil && errKind(err) == "err:beforeFirst" {
			lo = mid + 1
		} else {
			hi = mid
		}
	}
	return lo
}

func (s *session) opObs(tag string) string {
	o := s.obsString()
	if tag != "" {
		s.out.Line("obs tag=%s => %s", tag, o)
	} else {
		s.out.Line("obs => %s", o)
	}
	return o
}

// opRobs: reopen with the given variant and observe everything, as one line.
// variant: "open" or "ooc".
func (s *session) opRobs(variant string, first uint64, init gpbft.PowerEntries, tag string) string {
	s.dropHandle()
	s.fds.resetLog()
	head := "robs open"
	var cs *certstore.Store
	res := guard(func() string {
		var err error
		if variant == "open" {
			cs, err = certstore.OpenStore(ctx, s.fds)
		} else {
			head = fmt.Sprintf("robs ooc %d %s", first, s.in.tableTok(init))
			cs, err = certstore.OpenOrCreateStore(ctx, s.fds, first, init)
		}
		return errKind(err)
	})
	ord, ws := s.fds.ordTok(), s.fds.wsTok()
	if res == "ok" {
		s.cs = cs
		s.setFreq()
		res = s.obsString()
		s.resync()
	}
	if tag != "" {
		head += " tag=" + tag
	}
	s.out.Line("%s ord=%s => %s ws=%s", head, ord, res, ws)
	return res
}

// resync refreshes the generator's beliefs from the implementation (not logged, not a verdict).
func (s *session) resync() {
	if s.cs == nil {
		return
	}
	defer func() { _ = recover() }()
	s.first = s.probeFirst()
	s.next = s.first
	if lat := s.cs.Latest(); lat != nil {
		s.next = lat.GPBFTInstance + 1
	}
	if pt, err := s.cs.GetPowerTable(ctx, s.next); err == nil {
		s.cur = pt
		s.in.table(pt)
	}
	if pt, err := s.cs.GetPowerTable(ctx, s.first); err == nil {
		s.init = pt
		s.in.table(pt)
	}
}
