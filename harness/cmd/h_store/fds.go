package main

import (
	"context"
	"encoding/binary"
	"errors"
	"fmt"
	"sort"
	"strconv"
	"strings"
	"sync"

	"github.com/filecoin-project/go-f3/internal/verifh/lib/vh"
	"github.com/ipfs/go-datastore"
	"github.com/ipfs/go-datastore/query"
)

var errCrash = errors.New("verif: simulated crash, write dropped")

// faultDS is the datastore handed to the certificate store: a go-datastore MapDatastore whose
// writes are counted and logged, that "crashes" after a budget of writes (the failing write and every
// later one are dropped and report an error), and whose key queries return the matching keys in an
// order drawn from a PRNG (a datastore promises no order) which is recorded.
type faultDS struct {
	inner   *datastore.MapDatastore
	in      *interner
	ordRng  *vh.Rng  // drives the query order
	budget  int      // writes still allowed; <0: unlimited
	crashed bool
	writes  []string // tokens of the writes applied since resetLog
	ordRaw  string   // key order returned by the last query without the /certstore prefix ("-": none)
	ordIn   string   // ... with the /certstore prefix
	quiet   bool     // no write log (concurrent phase)
}

func newFaultDS(in *interner, ordSeed uint64) *faultDS {
	return &faultDS{inner: datastore.NewMapDatastore(), in: in, ordRng: vh.NewRng(ordSeed), budget: -1, ordRaw: "-", ordIn: "-"}
}

func (f *faultDS) resetLog() { f.writes = nil; f.ordRaw = "-"; f.ordIn = "-" }

func (f *faultDS) arm(budget int) { f.budget = budget; f.crashed = false }
func (f *faultDS) disarm()        { f.budget = -1; f.crashed = false }

// clone copies the stored key/value pairs into a fresh datastore (unarmed, empty log).
func (f *faultDS) clone(ordSeed uint64) *faultDS {
	g := newFaultDS(f.in, ordSeed)
	res, err := f.inner.Query(context.Background(), query.Query{})
	if err != nil {
		panic(err)
	}
	es, err := res.Rest()
	if err != nil {
		panic(err)
	}
	for _, e := range es {
		v := make([]byte, len(e.Value))
		copy(v, e.Value)
		_ = g.inner.Put(context.Background(), datastore.NewKey(e.Key), v)
	}
	return g
}

// keyTok maps a raw datastore key to the model's key token.
func (f *faultDS) keyTok(k string) string {
	const ns = "/certstore"
	switch {
	case k == ns+"/latestCert":
		return "L"
	case k == ns+"/firstInstance":
		return "F"
	case k == ns+"/tombstone":
		return "X"
	case k == "/tombstone":
		return "RX"
	case strings.HasPrefix(k, ns+"/certs/") && len(k) == len(ns+"/certs/")+16:
		if n, err := strconv.ParseUint(k[len(ns+"/certs/"):], 16, 64); err == nil {
			return fmt.Sprintf("C%d", n)
		}
	case strings.HasPrefix(k, ns+"/power/") && len(k) == len(ns+"/power/")+16:
		if n, err := strconv.ParseUint(k[len(ns+"/power/"):], 16, 64); err == nil {
			return fmt.Sprintf("P%d", n)
		}
	}
	return fmt.Sprintf("O%d", f.in.other(k))
}

func (f *faultDS) valTok(ktok string, v []byte) string {
	switch ktok[0] {
	case 'L', 'F':
		if len(v) == 8 {
			return fmt.Sprint(binary.BigEndian.Uint64(v))
		}
	case 'C':
		return f.in.certBytesTok(v)
	case 'P':
		return f.in.tableBytesTok(v)
	case 'X', 'R':
		if string(v) == "tombstone" {
			return "t"
		}
	}
	return fmt.Sprintf("j%d", f.in.other("junk:"+string(v)))
}

func (f *faultDS) admit() error {
	if f.crashed || f.budget == 0 {
		f.crashed = true
		return errCrash
	}
	if f.budget > 0 {
		f.budget--
	}
	return nil
}

func (f *faultDS) Put(ctx context.Context, key datastore.Key, value []byte) error {
	if err := f.admit(); err != nil {
		return err
	}
	if !f.quiet {
		kt := f.keyTok(key.String())
		f.writes = append(f.writes, kt+"="+f.valTok(kt, value))
	}
	return f.inner.Put(ctx, key, value)
}

func (f *faultDS) Delete(ctx context.Context, key datastore.Key) error {
	if err := f.admit(); err != nil {
		return err
	}
	if !f.quiet {
		f.writes = append(f.writes, "-"+f.keyTok(key.String()))
	}
	return f.inner.Delete(ctx, key)
}

func (f *faultDS) Get(ctx context.Context, key datastore.Key) ([]byte, error) {
	return f.inner.Get(ctx, key)
}
func (f *faultDS) Has(ctx context.Context, key datastore.Key) (bool, error) {
	return f.inner.Has(ctx, key)
}
func (f *faultDS) GetSize(ctx context.Context, key datastore.Key) (int, error) {
	return f.inner.GetSize(ctx, key)
}
func (f *faultDS) Sync(ctx context.Context, prefix datastore.Key) error { return nil }
func (f *faultDS) Close() error                                       { return nil }
func (f *faultDS) Batch(ctx context.Context) (datastore.Batch, error) {
	return datastore.NewBasicBatch(f), nil
}

func (f *faultDS) Query(ctx context.Context, q query.Query) (query.Results, error) {
	res, err := f.inner.Query(ctx, q)
	if err != nil {
		return nil, err
	}
	es, err := res.Rest()
	if err != nil {
		return nil, err
	}
	sort.Slice(es, func(i, j int) bool { return es[i].Key < es[j].Key })
	for i := len(es) - 1; i > 0; i-- { // Fisher-Yates from the order PRNG
		j := f.ordRng.Intn(i + 1)
		es[i], es[j] = es[j], es[i]
	}
	toks := make([]string, len(es))
	for i, e := range es {
		toks[i] = f.keyTok(e.Key)
	}
	ord := strings.Join(toks, ",")
	if ord == "" {
		ord = "."
	}
	if strings.HasPrefix(q.Prefix, "/certstore") {
		f.ordIn = ord
	} else {
		f.ordRaw = ord
	}
	return query.ResultsWithEntries(q, es), nil
}

func (f *faultDS) wsTok() string {
	if len(f.writes) == 0 {
		return "-"
	}
	return strings.Join(f.writes, ",")
}

func (f *faultDS) ordTok() string { return f.ordRaw + "/" + f.ordIn }

var _ datastore.Batching = (*faultDS)(nil)

// lockedDS makes the datastore safe for concurrent use (the store requires a thread-safe datastore).
type lockedDS struct {
	mu    sync.RWMutex
	inner *faultDS
}

func (l *lockedDS) Put(ctx context.Context, key datastore.Key, value []byte) error {
	l.mu.Lock()
	defer l.mu.Unlock()
	return l.inner.Put(ctx, key, value)
}
func (l *lockedDS) Delete(ctx context.Context, key datastore.Key) error {
	l.mu.Lock()
	defer l.mu.Unlock()
	return l.inner.Delete(ctx, key)
}
func (l *lockedDS) Get(ctx context.Context, key datastore.Key) ([]byte, error) {
	l.mu.RLock()
	defer l.mu.RUnlock()
	return l.inner.Get(ctx, key)
}
func (l *lockedDS) Has(ctx context.Context, key datastore.Key) (bool, error) {
	l.mu.RLock()
	defer l.mu.RUnlock()
	return l.inner.Has(ctx, key)
}
func (l *lockedDS) GetSize(ctx context.Context, key datastore.Key) (int, error) {
	l.mu.RLock()
	defer l.mu.RUnlock()
	return l.inner.GetSize(ctx, key)
}
func (l *lockedDS) Query(ctx context.Context, q query.Query) (query.Results, error) {
	l.mu.Lock()
	defer l.mu.Unlock()
	return l.inner.Query(ctx, q)
}
func (l *lockedDS) Sync(ctx context.Context, prefix datastore.Key) error { return nil }
func (l *lockedDS) Close() error                                       { return nil }
