// h_inputs drives the real consensus-inputs component of the F3 host (C15) and the certificate-chain
// test generator (C19b) over one EC backend implemented by the harness: a finite block tree with
// null rounds, forks and evolving power tables.
//
//	node scenarios — consecutive instances on a real certificate store: move the EC head (forward,
//	    onto forks before/at/after the base, behind the base, hundreds of tipsets ahead), move the
//	    clock, ask the real GetProposal / GetCommittee, finalize a prefix of the proposal as a real
//	    certificate, validate the certificate with a real certchain.CertChain, and compare
//	    certchain.GetCommittee with the node's GetCommittee for the same instance;
//	gen scenarios — certificates produced by certchain.Generate, put into a real certificate store,
//	    then the same committee comparison.
package main

import (
	"bytes"
	"context"
	"fmt"
	"os"
	"strings"
	"time"

	"github.com/filecoin-project/go-bitfield"
	f3 "github.com/filecoin-project/go-f3"
	"github.com/filecoin-project/go-f3/certchain"
	"github.com/filecoin-project/go-f3/certs"
	"github.com/filecoin-project/go-f3/certstore"
	"github.com/filecoin-project/go-f3/ec"
	"github.com/filecoin-project/go-f3/gpbft"
	"github.com/filecoin-project/go-f3/internal/clock"
	"github.com/filecoin-project/go-f3/internal/verifh/lib/vh"
	"github.com/filecoin-project/go-f3/manifest"
	"github.com/filecoin-project/go-f3/sim/signing"
	"github.com/ipfs/go-cid"
	"github.com/ipfs/go-datastore"
	ds_sync "github.com/ipfs/go-datastore/sync"
	logging "github.com/ipfs/go-log/v2"
)

// ---------------------------------------------------------------------------------------------
// the EC backend: a finite parent-pointer tree

type block struct {
	id     int
	epoch  int64
	parent int // -1: genesis
	time   time.Time
	pt     int // index into tree.tables
	key    gpbft.TipSetKey
	beacon []byte
}

func (b *block) String() string       { return fmt.Sprintf("b%d@%d", b.id, b.epoch) }
func (b *block) Key() gpbft.TipSetKey { return b.key }
func (b *block) Beacon() []byte       { return b.beacon }
func (b *block) Epoch() int64         { return b.epoch }
func (b *block) Timestamp() time.Time { return b.time }

type tree struct {
	blocks   []*block
	byKey    map[string]*block
	byBeacon map[string]*block
	head     int
	tables   []gpbft.PowerEntries
	tableCID []cid.Cid
	cidIdx   map[string]int
	period   time.Duration
	t0       time.Time
}

var _ ec.Backend = (*tree)(nil)

func (t *tree) GetTipsetByEpoch(_ context.Context, epoch int64) (ec.TipSet, error) {
	cur := t.blocks[t.head]
	if epoch > cur.epoch {
		return nil, fmt.Errorf("epoch %d does not yet exist", epoch)
	}
	for cur.epoch > epoch {
		if cur.parent < 0 {
			return nil, fmt.Errorf("no tipset at or before epoch %d", epoch)
		}
		cur = t.blocks[cur.parent]
	}
	return cur, nil
}

func (t *tree) GetTipset(_ context.Context, k gpbft.TipSetKey) (ec.TipSet, error) {
	if b, ok := t.byKey[string(k)]; ok {
		return b, nil
	}
	return nil, fmt.Errorf("unknown tipset")
}

func (t *tree) GetHead(context.Context) (ec.TipSet, error) { return t.blocks[t.head], nil }

func (t *tree) GetParent(_ context.Context, ts ec.TipSet) (ec.TipSet, error) {
	b, ok := t.byKey[string(ts.Key())]
	if !ok || b.parent < 0 {
		return nil, fmt.Errorf("no parent")
	}
	return t.blocks[b.parent], nil
}

func (t *tree) GetPowerTable(_ context.Context, k gpbft.TipSetKey) (gpbft.PowerEntries, error) {
	b, ok := t.byKey[string(k)]
	if !ok {
		return nil, fmt.Errorf("unknown tipset")
	}
	return t.tables[b.pt], nil
}

func (t *tree) Finalize(context.Context, gpbft.TipSetKey) error { return nil }

func (t *tree) add(parent int, epoch int64, pt int) *block {
	id := len(t.blocks)
	b := &block{id: id, epoch: epoch, parent: parent, pt: pt,
		time:   t.t0.Add(time.Duration(epoch) * t.period),
		key:    []byte(fmt.Sprintf("tipset-key-%05d", id)),
		beacon: []byte(fmt.Sprintf("beacon-%05d", id))}
	t.blocks = append(t.blocks, b)
	t.byKey[string(b.key)] = b
	t.byBeacon[string(b.beacon)] = b
	return b
}

func (t *tree) tableID(c cid.Cid) int {
	if i, ok := t.cidIdx[c.String()]; ok {
		return i
	}
	return 999
}

func (t *tree) tableIDOf(pe gpbft.PowerEntries) int {
	c, err := certs.MakePowerTableCID(pe)
	if err != nil {
		return 998
	}
	return t.tableID(c)
}

// isAncestor: a is an ancestor of (or equal to) b
func (t *tree) isAncestor(a, b int) bool {
	for b >= 0 {
		if a == b {
			return true
		}
		b = t.blocks[b].parent
	}
	return false
}

// ---------------------------------------------------------------------------------------------

type world struct {
	backend *signing.FakeBackend
	rng     *vh.Rng
	out     *vh.Out
}

func must(err error) {
	if err != nil {
		panic(err)
	}
}

// genTables: a family of power tables that differ by power changes, additions and removals.
func (w *world) genTables(n int) []gpbft.PowerEntries {
	r := w.rng
	base := 3 + r.Intn(4)
	cur := map[int]int64{}
	for i := 0; i < base; i++ {
		cur[i] = int64(5 + r.Intn(20))
	}
	next := base
	var out []gpbft.PowerEntries
	for k := 0; k < n; k++ {
		if k > 0 {
			switch r.Intn(4) {
			case 0: // power change
				for id := range cur {
					if r.Bool() {
						cur[id] = int64(5 + r.Intn(20))
					}
				}
				cur[0]++ // make sure something changes
			case 1:
				cur[next] = int64(5 + r.Intn(20))
				next++
			case 2:
				if len(cur) > 3 {
					for id := range cur {
						if id != 0 {
							delete(cur, id)
							break
						}
					}
				} else {
					cur[0] += 3
				}
			default:
				cur[next] = int64(1 + r.Intn(3))
				next++
				cur[0] += 2
			}
		}
		pt := gpbft.NewPowerTable()
		ids := make([]int, 0, len(cur))
		for id := range cur {
			ids = append(ids, id)
		}
		// deterministic order of insertion (map iteration order must not leak into the log)
		for i := 0; i < len(ids); i++ {
			for j := i + 1; j < len(ids); j++ {
				if ids[j] < ids[i] {
					ids[i], ids[j] = ids[j], ids[i]
				}
			}
		}
		for _, id := range ids {
			must(pt.Add(gpbft.PowerEntry{ID: gpbft.ActorID(100 + id), Power: gpbft.NewStoragePower(cur[id]), PubKey: w.backend.Allow(100 + id)}))
		}
		out = append(out, pt.Entries)
	}
	return out
}

type genOpts struct {
	mainLen   int
	nulls     bool
	forks     int
	ptEvery   int64
	numTables int
}

func (w *world) genTree(o genOpts) *tree {
	r := w.rng
	t := &tree{byKey: map[string]*block{}, byBeacon: map[string]*block{}, cidIdx: map[string]int{}, period: 30 * time.Second, t0: time.Unix(1700000000, 0)}
	t.tables = w.genTables(o.numTables)
	for i, pe := range t.tables {
		c, err := certs.MakePowerTableCID(pe)
		must(err)
		t.tableCID = append(t.tableCID, c)
		if _, dup := t.cidIdx[c.String()]; !dup {
			t.cidIdx[c.String()] = i
		}
	}
	ptOf := func(epoch int64, salt int) int { return int((epoch/o.ptEvery)+int64(salt)) % len(t.tables) }
	epoch := int64(0)
	prev := -1
	var main []int
	for i := 0; i < o.mainLen; i++ {
		b := t.add(prev, epoch, ptOf(epoch, 0))
		main = append(main, b.id)
		prev = b.id
		epoch++
		if o.nulls && r.Chance(1, 5) {
			epoch += int64(1 + r.Intn(3))
		}
	}
	for f := 0; f < o.forks; f++ {
		at := main[r.Intn(len(main))]
		e := t.blocks[at].epoch
		p := at
		for k := 1 + r.Intn(20); k > 0; k-- {
			e += int64(1 + r.Intn(2))
			b := t.add(p, e, ptOf(e, 1+f))
			p = b.id
		}
	}
	t.head = main[len(main)-1]
	return t
}

func (t *tree) mainChain() []int {
	var m []int
	for _, b := range t.blocks {
		if b.parent == b.id-1 || b.parent == -1 {
			if len(m) == 0 || b.parent == m[len(m)-1] {
				m = append(m, b.id)
			}
		}
	}
	return m
}

func (t *tree) dump(out *vh.Out) {
	var sb strings.Builder
	for i, b := range t.blocks {
		if i > 0 {
			sb.WriteByte(',')
		}
		fmt.Fprintf(&sb, "%d:%d:%d:%d", b.epoch, b.parent, b.pt, b.time.Sub(t.t0).Nanoseconds())
	}
	// identical tables get the same canonical id
	canon := make([]string, len(t.tables))
	for i := range t.tables {
		canon[i] = fmt.Sprint(t.cidIdx[t.tableCID[i].String()])
	}
	out.Line("tree blocks=%s canon=%s", sb.String(), strings.Join(canon, ","))
}

// ---------------------------------------------------------------------------------------------

func errKind(err error) string {
	if err == nil {
		return "ok"
	}
	m := err.Error()
	for _, p := range [][2]string{
		{"getting boostrap base", "bootstrapBase"},
		{"getting cert for previous instance", "prevCert"},
		{"getting base TS", "baseTS"},
		{"getting head TS", "headTS"},
		{"collecting chain", "collect"},
		{"computing powertable CID for base", "basePT"},
		{"computing powertable CID for suffix", "suffixPT"},
		{"making new chain", "newChain"},
		{"getting commite for", "nextCommittee"},
		{"getting power table:", "powerTable"},
		{"getting tipset for boostrap epoch", "bootstrapTS"},
		{"getting finality certificate", "cert"},
		{"getting tipset:", "tipset"},
		{"adding entries to power table", "tableAdd"},
		{"invalid power table", "tableInvalid"},
		{"no prior finality certificate", "noPriorCert"},
	} {
		if strings.Contains(m, p[0]) {
			return p[1]
		}
	}
	if os.Getenv("VERIF_INPUTS_DEBUG") != "" {
		fmt.Fprintln(os.Stderr, "OTHER:", m)
	}
	return "other"
}

type scenario struct {
	w      *world
	t      *tree
	m      manifest.Manifest
	ctx    context.Context
	clk    *clock.Mock
	store  *certstore.Store
	in     *f3.VerifInputs
	cc     *certchain.CertChain
	ccOK   bool // certchain still holds the same certificates as the store
	latest int  // block id of the latest finalized head
	nCerts int
}

func (s *scenario) chainStr(c *gpbft.ECChain) string {
	parts := make([]string, 0, c.Len())
	for _, ts := range c.TipSets {
		id := -1
		if b, ok := s.t.byKey[string(ts.Key)]; ok {
			id = b.id
		}
		parts = append(parts, fmt.Sprintf("%d:%d:%d", id, ts.Epoch, s.t.tableID(ts.PowerTable)))
	}
	return strings.Join(parts, ",")
}

func guardErr(f func() error) (res string) {
	defer func() {
		if p := recover(); p != nil {
			res = "panic"
		}
	}()
	return errKind(f())
}

func (s *scenario) committeeStr(c *gpbft.Committee) string {
	bid := -1
	if b, ok := s.t.byBeacon[string(c.Beacon)]; ok {
		bid = b.id
	}
	return fmt.Sprintf("table=%d beacon=%d", s.t.tableIDOf(c.PowerTable.Entries), bid)
}

func (s *scenario) proposal(inst uint64) (*gpbft.SupplementalData, *gpbft.ECChain, bool) {
	var supp *gpbft.SupplementalData
	var chain *gpbft.ECChain
	res := guardErr(func() error {
		var err error
		supp, chain, err = s.in.GetProposal(s.ctx, inst)
		return err
	})
	if res != "ok" {
		s.w.out.Line("prop inst=%d => %s", inst, res)
		return nil, nil, false
	}
	s.w.out.Line("prop inst=%d => ok supp=%d chain=%s", inst, s.t.tableID(supp.PowerTable), s.chainStr(chain))
	return supp, chain, true
}

func (s *scenario) committee(inst uint64) (*gpbft.Committee, bool) {
	var c *gpbft.Committee
	res := guardErr(func() error {
		var err error
		c, err = s.in.GetCommittee(s.ctx, inst)
		return err
	})
	if res != "ok" {
		s.w.out.Line("comm inst=%d => %s", inst, res)
		return nil, false
	}
	s.w.out.Line("comm inst=%d => ok %s", inst, s.committeeStr(c))
	return c, true
}

// compare: node committee vs certchain committee for one instance, on one line
func (s *scenario) compare(inst uint64) {
	var nc, cc *gpbft.Committee
	nres := guardErr(func() error {
		var err error
		nc, err = s.in.GetCommittee(s.ctx, inst)
		return err
	})
	cres := guardErr(func() error {
		var err error
		cc, err = s.cc.GetCommittee(s.ctx, inst)
		return err
	})
	ns, cs := nres, cres
	if nres == "ok" {
		ns = "ok " + s.committeeStr(nc)
	}
	if cres == "ok" {
		cs = "ok " + s.committeeStr(cc)
	}
	s.w.out.Line("cmp inst=%d node => %s ; cc => %s", inst, ns, cs)
}

func (s *scenario) setHead(id int, slack time.Duration) {
	s.t.head = id
	s.clk.Set(s.t.blocks[id].time.Add(slack))
	s.w.out.Line("head id=%d now=%d", id, s.clk.Now().Sub(s.t.t0).Nanoseconds())
}

// makeCert signs the way certchain does (every member with non-zero scaled power, table order).
func (s *scenario) makeCert(inst uint64, chain *gpbft.ECChain, supp *gpbft.SupplementalData, cur, next *gpbft.Committee) *certs.FinalityCertificate {
	payload := gpbft.Payload{Instance: inst, Phase: gpbft.DECIDE_PHASE, SupplementalData: *supp, Value: chain}
	msg := payload.MarshalForSigning(s.m.NetworkName)
	var mask []int
	var idx []uint64
	var sigs [][]byte
	for i, e := range cur.PowerTable.Entries {
		if cur.PowerTable.ScaledPower[i] == 0 {
			continue
		}
		sig, err := s.w.backend.Sign(s.ctx, e.PubKey, msg)
		must(err)
		mask = append(mask, i)
		idx = append(idx, uint64(i))
		sigs = append(sigs, sig)
	}
	agg, err := cur.AggregateVerifier.Aggregate(mask, sigs)
	must(err)
	return &certs.FinalityCertificate{
		GPBFTInstance:    inst,
		ECChain:          chain,
		SupplementalData: *supp,
		Signers:          bitfield.NewFromSet(idx),
		Signature:        agg,
		PowerTableDelta:  certs.MakePowerTableDiff(cur.PowerTable.Entries, next.PowerTable.Entries),
	}
}

// saveDecision hands the decision (same signers and aggregate as `want`) to the real gpbftHost.saveDecision.
func (s *scenario) saveDecision(inst uint64, decided *gpbft.ECChain, supp *gpbft.SupplementalData, cur *gpbft.Committee, want *certs.FinalityCertificate) string {
	d := &gpbft.Justification{
		Vote:      gpbft.Payload{Instance: inst, Phase: gpbft.DECIDE_PHASE, SupplementalData: *supp, Value: decided},
		Signers:   want.Signers,
		Signature: want.Signature,
	}
	var got *certs.FinalityCertificate
	res := guardErr(func() error {
		var err error
		got, err = f3.VerifSaveDecision(s.ctx, s.m, s.store, s.t, s.w.backend, s.clk, d)
		return err
	})
	deltaEq, stored, valid := 0, 0, "-"
	if res == "ok" && got != nil {
		var a, b bytes.Buffer
		must(got.MarshalCBOR(&a))
		must(want.MarshalCBOR(&b))
		if bytes.Equal(a.Bytes(), b.Bytes()) {
			deltaEq = 1
		}
		if sc, err := s.store.Get(s.ctx, inst); err == nil {
			var c bytes.Buffer
			must(sc.MarshalCBOR(&c))
			if bytes.Equal(c.Bytes(), a.Bytes()) {
				stored = 1
			}
		}
		fresh := append(gpbft.PowerEntries{}, cur.PowerTable.Entries...)
		valid = guardErr(func() error {
			next, _, _, err := certs.ValidateFinalityCertificates(s.w.backend, s.m.NetworkName, fresh, inst, decided.Base(), got)
			if err == nil && next != inst+1 {
				return fmt.Errorf("next instance %d", next)
			}
			return err
		})
	}
	s.w.out.Line("save inst=%d => %s certeq=%d stored=%d valid=%s", inst, res, deltaEq, stored, valid)
	return res
}

func (w *world) newScenario(t *tree, m manifest.Manifest) *scenario {
	ctx, clk := clock.WithMockClock(context.Background())
	s := &scenario{w: w, t: t, m: m, ctx: ctx, clk: clk, ccOK: true, latest: -1}
	clk.Set(t.blocks[t.head].time.Add(time.Hour))
	// the initial table: EC's table at the bootstrap tipset (what a node is configured with)
	boot, err := t.GetTipsetByEpoch(ctx, m.BootstrapEpoch-m.EC.Finality)
	must(err)
	initial, err := t.GetPowerTable(ctx, boot.Key())
	must(err)
	s.store, err = certstore.CreateStore(ctx, ds_sync.MutexWrap(datastore.NewMapDatastore()), m.InitialInstance, initial)
	must(err)
	s.in = f3.VerifNewInputs(m, s.store, t, w.backend, clk)
	s.cc, err = certchain.New(certchain.WithEC(t), certchain.WithManifest(m), certchain.WithSignVerifier(w.backend), certchain.WithSeed(int64(w.rng.U64()>>1)))
	must(err)
	w.out.Line("cfg initial=%d bootstrap=%d finality=%d headlookback=%d period=%d cpl=%d lookback=%d inittable=%d",
		m.InitialInstance, m.BootstrapEpoch, m.EC.Finality, m.EC.HeadLookback, m.EC.Period.Nanoseconds(), m.Gpbft.ChainProposedLength,
		m.CommitteeLookback, t.tableIDOf(initial))
	t.dump(w.out)
	return s
}

func (w *world) genManifest(t *tree, main []int) manifest.Manifest {
	r := w.rng
	m := manifest.LocalDevnetManifest()
	m.NetworkName = "verifnet"
	m.InitialInstance = []uint64{0, 0, 3, 50}[r.Intn(4)]
	bi := 3 + r.Intn(min(12, len(main)-3))
	m.BootstrapEpoch = t.blocks[main[bi]].epoch
	if r.Chance(1, 4) {
		m.BootstrapEpoch++ // possibly a null epoch
	}
	m.EC.Finality = int64(r.Intn(4))
	if m.EC.Finality > m.BootstrapEpoch {
		m.EC.Finality = m.BootstrapEpoch
	}
	m.EC.HeadLookback = []int{0, 0, 0, 1, 2, 5}[r.Intn(6)]
	m.EC.Period = t.period
	m.Gpbft.ChainProposedLength = []int{1, 2, 3, 5, 10, 100, 100, 127, 128, 129, 300}[r.Intn(11)]
	m.CommitteeLookback = []uint64{1, 2, 2, 3, 5, 10}[r.Intn(6)]
	return m
}

// nodeScenario: consecutive instances driven through the real inputs component.
func (w *world) nodeScenario(id int, thorough bool) {
	r := w.rng
	o := genOpts{mainLen: 40 + r.Intn(120), nulls: r.Chance(2, 3), forks: r.Intn(5), ptEvery: int64(1 + r.Intn(6)), numTables: 2 + r.Intn(5)}
	if r.Chance(1, 5) {
		o.mainLen = 300 + r.Intn(300) // proposals longer than any maximum
	}
	t := w.genTree(o)
	main := t.mainChain()
	m := w.genManifest(t, main)
	w.out.Line("scenario id=%d kind=node", id)
	s := w.newScenario(t, m)
	// position on the main chain that the head has reached
	boot, _ := t.GetTipsetByEpoch(s.ctx, m.BootstrapEpoch-m.EC.Finality)
	pos := 0
	for i, bid := range main {
		if bid == boot.(*block).id {
			pos = i
		}
	}
	s.latest = boot.(*block).id // the bootstrap tipset is final by assumption
	slacks := []time.Duration{0, t.period - 1, t.period, t.period + 1, 10 * t.period, -5 * time.Second, time.Second}
	instances := 4 + r.Intn(20)
	inst := m.InitialInstance
	for k := 0; k < instances; k++ {
		// 1. move the head
		move := r.Intn(12)
		headID := main[pos]
		switch {
		case move <= 6: // forward on the main chain
			step := r.Intn(8)
			if r.Chance(1, 8) {
				step = 120 + r.Intn(60)
			}
			pos = min(pos+step, len(main)-1)
			headID = main[pos]
		case move == 7: // stay
		case move == 8 || move == 9: // some fork tip / fork block (before, at or after the base)
			var cands []int
			for _, b := range t.blocks {
				if b.parent >= 0 && b.parent != b.id-1 || (b.parent >= 0 && !t.isAncestor(b.id, main[len(main)-1])) {
					cands = append(cands, b.id)
				}
			}
			if len(cands) > 0 {
				headID = cands[r.Intn(len(cands))]
			}
		case move == 10: // behind the finalized head
			if s.latest >= 0 && t.blocks[s.latest].parent >= 0 {
				headID = t.blocks[s.latest].parent
				if r.Bool() && t.blocks[headID].parent >= 0 {
					headID = t.blocks[headID].parent
				}
			}
		default: // exactly the finalized head
			if s.latest >= 0 {
				headID = s.latest
			}
		}
		s.setHead(headID, slacks[r.Intn(len(slacks))])
		// 2. extra queries around the current instance
		for q := r.Intn(3); q > 0; q-- {
			qi := int64(inst) - 2 + int64(r.Intn(int(m.CommitteeLookback)+5))
			if qi < 0 {
				qi = 0
			}
			if r.Bool() {
				s.committee(uint64(qi))
			} else {
				s.proposal(uint64(qi))
			}
		}
		// certchain vs node, while EC's head still descends from everything finalized
		// (and has reached the bootstrap epoch: certchain addresses the bootstrap tipset by epoch)
		descends := (s.latest < 0 || t.isAncestor(s.latest, headID)) && t.blocks[headID].epoch >= m.BootstrapEpoch-m.EC.Finality
		if bt, err := t.GetTipsetByEpoch(s.ctx, m.BootstrapEpoch-m.EC.Finality); err != nil || bt.(*block).id != boot.(*block).id {
			descends = false // a fork through the (final by assumption) bootstrap epoch
		}
		if s.ccOK && descends {
			for q := 1 + r.Intn(3); q > 0; q-- {
				qi := int64(inst) - int64(m.CommitteeLookback) - 1 + int64(r.Intn(int(m.CommitteeLookback)+4))
				if qi < 0 {
					qi = 0
				}
				s.compare(uint64(qi))
			}
		}
		// 3. the instance itself
		supp, chain, ok := s.proposal(inst)
		if !ok {
			break
		}
		cur, ok1 := s.committee(inst)
		next, ok2 := s.committee(inst + 1)
		if !ok1 || !ok2 {
			break
		}
		// 4. finalize a prefix of the proposal
		keep := chain.Len()
		switch r.Intn(4) {
		case 0:
			keep = 1
		case 1:
			keep = 1 + r.Intn(chain.Len())
		}
		decided := chain.Prefix(keep - 1)
		viaHost := r.Intn(2) == 0
		withCommitments := viaHost && r.Intn(5) == 0
		if withCommitments {
			// the supplemental data the committee signed may carry commitments (the node's own proposal leaves
			// them zero, and so does certchain, which therefore cannot follow such a history); a certificate
			// must carry exactly what was signed
			sc := *supp
			for i := range sc.Commitments {
				sc.Commitments[i] = byte(r.Intn(256))
			}
			supp = &sc
			s.ccOK = false
		}
		cert := s.makeCert(inst, decided, supp, cur, next)
		var pres string
		if viaHost {
			// C03: the decision goes through the host's real saveDecision, which derives both committees and the
			// delta itself, validates the certificate it formed and stores it; the stored certificate must be
			// the one an independent party computes and must validate against a fresh copy of the same table.
			pres = s.saveDecision(inst, decided, supp, cur, cert)
		} else {
			pres = guardErr(func() error { return s.store.Put(s.ctx, cert) })
		}
		hb, bb := s.t.byKey[string(decided.Head().Key)], s.t.byKey[string(decided.Base().Key)]
		w.out.Line("put inst=%d base=%d head=%d supp=%d => %s", inst, bb.id, hb.id, t.tableID(supp.PowerTable), pres)
		if pres != "ok" {
			break
		}
		s.latest = hb.id
		s.nCerts++
		// the finalized head may be ahead of `pos` only if the head was on the main chain
		for i, bid := range main {
			if bid == hb.id && i > pos {
				pos = i
			}
		}
		// 5. the test-chain generator must accept what the node produced
		if s.ccOK && descends {
			vres := guardErr(func() error { return s.cc.Validate(s.ctx, []*certs.FinalityCertificate{cert}) })
			w.out.Line("ccv inst=%d => %s", inst, vres)
			if vres != "ok" {
				s.ccOK = false
			}
		} else {
			s.ccOK = false
		}
		inst++
	}
}

// genScenario: certificates produced by certchain.Generate over a linear chain without null rounds.
func (w *world) genScenario(id int, thorough bool) {
	r := w.rng
	n := 6 + r.Intn(14)
	o := genOpts{mainLen: 60 + n*130, nulls: false, forks: 0, ptEvery: int64(1 + r.Intn(40)), numTables: 2 + r.Intn(5)}
	t := w.genTree(o)
	main := t.mainChain()
	m := w.genManifest(t, main)
	m.Gpbft.ChainProposedLength = 100
	if m.CommitteeLookback == 1 {
		m.CommitteeLookback = 2
	}
	w.out.Line("scenario id=%d kind=gen", id)
	s := w.newScenario(t, m)
	s.setHead(t.head, time.Hour)
	var chain []*certs.FinalityCertificate
	res := guardErr(func() error {
		var err error
		chain, err = s.cc.Generate(s.ctx, uint64(n))
		return err
	})
	w.out.Line("ccgen n=%d => %s", n, res)
	if res != "ok" {
		return
	}
	for _, c := range chain {
		pres := guardErr(func() error { return s.store.Put(s.ctx, c) })
		hb, bb := t.byKey[string(c.ECChain.Head().Key)], t.byKey[string(c.ECChain.Base().Key)]
		hid, bid := -1, -1
		if hb != nil {
			hid = hb.id
		}
		if bb != nil {
			bid = bb.id
		}
		w.out.Line("put inst=%d base=%d head=%d supp=%d => %s", c.GPBFTInstance, bid, hid, t.tableID(c.SupplementalData.PowerTable), pres)
		if pres != "ok" {
			return
		}
	}
	first := int64(m.InitialInstance)
	for q := first - 1; q <= first+int64(n)+2; q++ {
		if q < 0 {
			continue
		}
		s.compare(uint64(q))
	}
	// the same generator object used for a second history (Generate starts over; its random source has moved
	// on, so the chain differs): whatever it remembers from the first one must not leak into the second
	if r.Intn(2) == 0 {
		w.out.Line("scenario id=%d kind=gen", id+50000)
		s2 := w.newScenario(t, m)
		s2.cc = s.cc
		s2.setHead(t.head, time.Hour)
		n2 := 6 + r.Intn(n-5) // the tree is only long enough for n instances
		var chain2 []*certs.FinalityCertificate
		res2 := guardErr(func() error {
			var err error
			chain2, err = s2.cc.Generate(s2.ctx, uint64(n2))
			if err != nil && os.Getenv("VERIF_INPUTS_DEBUG") != "" {
				fmt.Fprintln(os.Stderr, "GEN2ERR:", err)
			}
			return err
		})
		w.out.Line("ccgen n=%d => %s", n2, res2)
		if res2 != "ok" {
			return
		}
		for _, c := range chain2 {
			pres := guardErr(func() error { return s2.store.Put(s2.ctx, c) })
			hb, bb := t.byKey[string(c.ECChain.Head().Key)], t.byKey[string(c.ECChain.Base().Key)]
			hid, bid := -1, -1
			if hb != nil {
				hid = hb.id
			}
			if bb != nil {
				bid = bb.id
			}
			w.out.Line("put inst=%d base=%d head=%d supp=%d => %s", c.GPBFTInstance, bid, hid, t.tableID(c.SupplementalData.PowerTable), pres)
			if pres != "ok" {
				return
			}
		}
		for q := first - 1; q <= first+int64(n2)+2; q++ {
			if q < 0 {
				continue
			}
			s2.compare(uint64(q))
		}
	}
}

func main() {
	logging.SetAllLoggers(logging.LevelFatal)
	out := vh.NewOut()
	defer out.Flush()
	rng := vh.NewRng(vh.Seed())
	thorough := vh.Thorough()
	only := os.Getenv("VERIF_INPUTS_ONLY")
	// which property the run is for: the driver attributes oracle failures of the other property of
	// this shared area to that property's own check (c15 | c19 | all)
	mode := os.Getenv("VERIF_INPUTS_MODE")
	if mode == "" {
		mode = "all"
	}
	out.Line("mode %s", mode)
	fNode, fGen := rng.Fork(1), rng.Fork(2)
	nNode, nGen := 120, 25
	if thorough {
		nNode, nGen = 2500, 300
	}
	nNode = vh.EnvInt("VERIF_INPUTS_NODE", nNode)
	nGen = vh.EnvInt("VERIF_INPUTS_GEN", nGen)
	if only == "" || only == "node" {
		w := &world{backend: signing.NewFakeBackend(), rng: fNode, out: out}
		for i := 0; i < nNode; i++ {
			w.nodeScenario(i, thorough)
		}
	}
	if only == "" || only == "gen" {
		w := &world{backend: signing.NewFakeBackend(), rng: fGen, out: out}
		for i := 0; i < nGen; i++ {
			w.genScenario(100000+i, thorough)
		}
	}
}
