// h_wal drives the real internal/writeaheadlog over real directories (C11).
//
// One line per operation; the line carries the input and what the implementation answered, so the log
// is the replay.  Vocabulary (see lean/Driver/Wal.lean):
//
//	hist <n> <profile>                          new history: empty directory, no WAL object
//	open => ok closed=<name|max,...>            Open (hydrate); the closed-file list as the object holds it
//	append <id> <epoch> <len> => ok active=<name> asize=<bytes> | err
//	rotate => ok | close => ok
//	purge <k> => ok closed=<...> ls=<name|size,...>
//	all => ok <ids> corrupt=<n> | err
//	crash                                       the object is dropped without Close (process death)
//	fork / endfork                              the ops in between run on a copy of the directory
//	crashappend <id> <epoch> <len> <n> => active=<name>   (inside fork) append cut after n of len bytes
//	codec <kind> len=<n> prefixfail=<b> seq=<b> codec hypotheses tested on a real codec
//	sync <id> dirty=<b>                         (under strace) was every written byte of the WAL fsynced
//	                                            when the acknowledgement of append <id> was reported?
//	syncsummary acks=<n> fsyncs=<n> oldopen=<n> … and was an existing log file ever opened for writing?
package main

import (
	"bytes"
	"errors"
	"fmt"
	"io"
	"os"
	"os/exec"
	"os/signal"
	"path/filepath"
	"regexp"
	"sort"
	"strconv"
	"strings"
	"syscall"

	f3 "github.com/filecoin-project/go-f3"
	"github.com/filecoin-project/go-f3/gpbft"
	"github.com/filecoin-project/go-f3/internal/verifh/lib/vh"
	"github.com/filecoin-project/go-f3/internal/writeaheadlog"
	"github.com/ipfs/go-cid"
	logging "github.com/ipfs/go-log/v2"
	"github.com/multiformats/go-multihash"
	cbg "github.com/whyrusleeping/cbor-gen"
)

// ---- entry type ---------------------------------------------------------------------------------

type hEntry struct {
	ID    uint64
	Epoch uint64
	Pad   []byte
	// refuse: the encoder gives up after having emitted part of the record (like a field over its CBOR limit,
	// which cbor-gen notices only after the preceding fields). Such an Append is refused, not acknowledged,
	// and must leave nothing behind.
	refuse bool
}

func (e *hEntry) WALEpoch() uint64 { return e.Epoch }

func (e *hEntry) MarshalCBOR(w io.Writer) error {
	cw := cbg.NewCborWriter(w)
	if err := cw.WriteMajorTypeHeader(cbg.MajArray, 3); err != nil {
		return err
	}
	if err := cw.WriteMajorTypeHeader(cbg.MajUnsignedInt, e.ID); err != nil {
		return err
	}
	if err := cw.WriteMajorTypeHeader(cbg.MajUnsignedInt, e.Epoch); err != nil {
		return err
	}
	if err := cw.WriteMajorTypeHeader(cbg.MajByteString, uint64(len(e.Pad))); err != nil {
		return err
	}
	if e.refuse {
		if _, err := cw.Write(e.Pad[:len(e.Pad)/2]); err != nil {
			return err
		}
		return errors.New("hEntry: refused in the middle of the record")
	}
	_, err := cw.Write(e.Pad)
	return err
}

func (e *hEntry) UnmarshalCBOR(r io.Reader) error {
	cr := cbg.NewCborReader(r)
	maj, extra, err := cr.ReadHeader()
	if err != nil {
		return err
	}
	if maj != cbg.MajArray || extra != 3 {
		return errors.New("hEntry: not a 3-array")
	}
	if maj, extra, err = cr.ReadHeader(); err != nil {
		return unexpected(err)
	}
	if maj != cbg.MajUnsignedInt {
		return errors.New("hEntry: id")
	}
	e.ID = extra
	if maj, extra, err = cr.ReadHeader(); err != nil {
		return unexpected(err)
	}
	if maj != cbg.MajUnsignedInt {
		return errors.New("hEntry: epoch")
	}
	e.Epoch = extra
	if maj, extra, err = cr.ReadHeader(); err != nil {
		return unexpected(err)
	}
	if maj != cbg.MajByteString || extra > 16<<20 {
		return errors.New("hEntry: pad")
	}
	e.Pad = make([]byte, extra)
	if _, err = io.ReadFull(cr, e.Pad); err != nil {
		return unexpected(err)
	}
	return nil
}

func unexpected(err error) error {
	if errors.Is(err, io.EOF) {
		return io.ErrUnexpectedEOF
	}
	return err
}

func padFor(id uint64, n int) []byte {
	b := make([]byte, n)
	x := id*0x9E3779B97F4A7C15 + 12345
	for i := range b {
		x ^= x << 13
		x ^= x >> 7
		x ^= x << 17
		b[i] = byte(x)
	}
	return b
}

func encLen(e *hEntry) int {
	var buf bytes.Buffer
	_ = e.MarshalCBOR(&buf)
	return buf.Len()
}

type W = writeaheadlog.WriteAheadLog[hEntry, *hEntry]

// ---- history ------------------------------------------------------------------------------------

type hist struct {
	out   *vh.Out
	rng   *vh.Rng
	dir   string
	wal   *W
	epoch uint64
	ids   *uint64 // shared id counter
	// knownEpochs: epochs used so far (purge targets)
	epochs  []uint64
	regress bool
	budget  *int64 // remaining fork IO budget in bytes
	root    string
	forks   *int
}

func fmtClosed(w *W) string {
	names, maxes, _, _, _ := w.VerifStats()
	if len(names) == 0 {
		return "-"
	}
	parts := make([]string, len(names))
	for i := range names {
		parts[i] = fmt.Sprintf("%s|%d", names[i], maxes[i])
	}
	return strings.Join(parts, ",")
}

func lsDir(dir string) (names []string, sizes []int64) {
	ents, err := os.ReadDir(dir)
	if err != nil {
		return nil, nil
	}
	for _, e := range ents {
		names = append(names, e.Name())
	}
	sort.Strings(names)
	for _, n := range names {
		st, err := os.Stat(filepath.Join(dir, n))
		if err != nil {
			sizes = append(sizes, -1)
		} else {
			sizes = append(sizes, st.Size())
		}
	}
	return
}

func fmtLs(dir string) string {
	names, sizes := lsDir(dir)
	if len(names) == 0 {
		return "-"
	}
	parts := make([]string, len(names))
	for i := range names {
		parts[i] = fmt.Sprintf("%s|%d", names[i], sizes[i])
	}
	return strings.Join(parts, ",")
}

func dirBytes(dir string) int64 {
	_, sizes := lsDir(dir)
	var t int64
	for _, s := range sizes {
		t += s
	}
	return t
}

func (h *hist) open() {
	var w *W
	var err error
	func() {
		defer func() {
			if r := recover(); r != nil {
				err = fmt.Errorf("panic: %v", r)
			}
		}()
		w, err = writeaheadlog.Open[hEntry](h.dir)
	}()
	if err != nil {
		h.out.Line("open => err")
		h.wal = nil
		return
	}
	h.wal = w
	h.out.Line("open => ok closed=%s", fmtClosed(w))
}

func (h *hist) nextEpoch() uint64 {
	switch h.rng.Intn(10) {
	case 0, 1, 2, 3:
	case 4, 5, 6:
		h.epoch++
	case 7:
		h.epoch += 2
	case 8:
		h.epoch += uint64(h.rng.Intn(6))
	case 9:
		// out of order: an older epoch (the WAL does not require monotone epochs)
		back := uint64(h.rng.Intn(4))
		if back > h.epoch {
			back = h.epoch
		}
		e := h.epoch - back
		h.epochs = append(h.epochs, e)
		return e
	}
	h.epochs = append(h.epochs, h.epoch)
	return h.epoch
}

// maybeRegress: in a third of the histories the epochs written after a file has been closed fall well below
// those of the closed file (the log does not require monotone epochs), so that a later file holds only lower
// epochs than an earlier one — the case in which a per-file maximum carried over from file to file shows.
func (h *hist) maybeRegress() {
	if h.regress && h.rng.Chance(1, 2) {
		back := uint64(3 + h.rng.Intn(8))
		if back > h.epoch {
			back = h.epoch
		}
		h.epoch -= back
	}
}

func (h *hist) mkEntry(padLen int) hEntry {
	*h.ids++
	id := *h.ids
	return hEntry{ID: id, Epoch: h.nextEpoch(), Pad: padFor(id, padLen)}
}

// appendWithWriteError runs one Append under a file-size limit of (size of the active file + k) bytes, so that
// write(2) takes at most k bytes of the record and fails with EFBIG for the rest (SIGXFSZ ignored). When the Append
// rotates first, the limit applies to the fresh file. injected=false: the limit could not be set.
func (h *hist) appendWithWriteError(e hEntry, k int) (err error, injected bool) {
	var asize int64
	if _, _, act, _, has := h.wal.VerifStats(); has {
		if st, _ := os.Stat(filepath.Join(h.dir, act)); st != nil {
			asize = st.Size()
		}
	}
	var old syscall.Rlimit
	if syscall.Getrlimit(syscall.RLIMIT_FSIZE, &old) != nil {
		return nil, false
	}
	h.out.Flush()
	signal.Ignore(syscall.SIGXFSZ)
	lim := syscall.Rlimit{Cur: uint64(asize) + uint64(k), Max: old.Max}
	if syscall.Setrlimit(syscall.RLIMIT_FSIZE, &lim) != nil {
		return nil, false
	}
	func() {
		defer func() {
			if r := recover(); r != nil {
				err = fmt.Errorf("panic: %v", r)
			}
		}()
		err = h.wal.Append(e)
	}()
	if syscall.Setrlimit(syscall.RLIMIT_FSIZE, &old) != nil {
		panic("cannot restore RLIMIT_FSIZE")
	}
	return err, true
}

// appendLine performs the append and returns the line to log (so that a fork can be logged before it).
func (h *hist) doAppend(e hEntry) (line string, ok bool, active string, asize int64, l int) {
	l = encLen(&e)
	var err error
	func() {
		defer func() {
			if r := recover(); r != nil {
				err = fmt.Errorf("panic: %v", r)
			}
		}()
		err = h.wal.Append(e)
	}()
	if err != nil {
		return fmt.Sprintf("append %d %d %d => err", e.ID, e.Epoch, l), false, "", 0, l
	}
	_, _, act, _, has := h.wal.VerifStats()
	if !has {
		return fmt.Sprintf("append %d %d %d => ok active=- asize=0", e.ID, e.Epoch, l), true, "", 0, l
	}
	st, _ := os.Stat(filepath.Join(h.dir, act))
	var sz int64 = -1
	if st != nil {
		sz = st.Size()
	}
	return fmt.Sprintf("append %d %d %d => ok active=%s asize=%d", e.ID, e.Epoch, l, act, sz), true, act, sz, l
}

func (h *hist) all() {
	var res []hEntry
	var err error
	func() {
		defer func() {
			if r := recover(); r != nil {
				err = fmt.Errorf("panic: %v", r)
			}
		}()
		res, err = h.wal.All()
	}()
	if err != nil {
		h.out.Line("all => err")
		return
	}
	ids := make([]uint64, len(res))
	corrupt := 0
	for i, e := range res {
		ids[i] = e.ID
		if !bytes.Equal(e.Pad, padFor(e.ID, len(e.Pad))) {
			corrupt++
		}
	}
	h.out.Line("all => ok %s corrupt=%d", vh.JoinInts(ids), corrupt)
}

func (h *hist) purge(k uint64) {
	var err error
	func() {
		defer func() {
			if r := recover(); r != nil {
				err = fmt.Errorf("panic: %v", r)
			}
		}()
		err = h.wal.Purge(k)
	}()
	if err != nil {
		h.out.Line("purge %d => err", k)
		return
	}
	h.out.Line("purge %d => ok closed=%s ls=%s", k, fmtClosed(h.wal), fmtLs(h.dir))
}

func (h *hist) pickPurge() uint64 {
	if len(h.epochs) == 0 || h.rng.Chance(1, 8) {
		return uint64(h.rng.Intn(int(h.epoch) + 3))
	}
	e := h.epochs[h.rng.Intn(len(h.epochs))]
	switch h.rng.Intn(4) {
	case 0:
		if e > 0 {
			return e - 1
		}
		return 0
	case 1:
		return e + 1
	default:
		return e
	}
}

func (h *hist) crash() {
	if h.wal != nil {
		h.wal.VerifAbandon()
		h.wal = nil
	}
	h.out.Line("crash")
}

// tornFork: the append of e has just been performed on the main directory (active file `active`, now
// `asize` bytes, the record is its last `l` bytes). Build a copy in which only the first n bytes of the
// record reached the file, restart on it, read, and run a few more operations.
func (h *hist) tornFork(e hEntry, active string, asize int64, l int, n int, follow int) {
	*h.forks++
	fd := filepath.Join(h.root, fmt.Sprintf("fork%d", *h.forks))
	if err := os.MkdirAll(fd, 0o777); err != nil {
		panic(err)
	}
	defer os.RemoveAll(fd)
	names, _ := lsDir(h.dir)
	for _, nm := range names {
		src := filepath.Join(h.dir, nm)
		dst := filepath.Join(fd, nm)
		if nm == active {
			keep := asize - int64(l) + int64(n)
			data, err := os.ReadFile(src)
			if err != nil {
				panic(err)
			}
			if int64(len(data)) < keep {
				keep = int64(len(data))
			}
			if err := os.WriteFile(dst, data[:keep], 0o666); err != nil {
				panic(err)
			}
			*h.budget -= keep
		} else if err := os.Link(src, dst); err != nil {
			data, err := os.ReadFile(src)
			if err != nil {
				panic(err)
			}
			if err := os.WriteFile(dst, data, 0o666); err != nil {
				panic(err)
			}
		}
	}
	h.out.Line("fork")
	h.out.Line("crashappend %d %d %d %d => active=%s", e.ID, e.Epoch, l, n, active)
	f := &hist{out: h.out, rng: h.rng, dir: fd, epoch: h.epoch, ids: h.ids, epochs: append([]uint64(nil), h.epochs...),
		budget: h.budget, root: h.root, forks: h.forks}
	f.open()
	if f.wal != nil {
		f.all()
		*h.budget -= 2 * dirBytes(fd)
		for i := 0; i < follow && f.wal != nil; i++ {
			switch f.rng.Intn(8) {
			case 0, 1, 2, 3:
				line, _, _, _, _ := f.doAppend(f.mkEntry(f.rng.Intn(40)))
				f.out.Line("%s", line)
			case 4:
				f.purge(f.pickPurge())
			case 5:
				f.out.Line("rotate => %s", errStr(f.wal.Rotate()))
			case 6:
				f.crash()
				f.open()
			case 7:
				f.all()
			}
		}
		if follow > 0 && f.wal != nil {
			f.all()
		}
		if f.wal != nil {
			f.wal.VerifAbandon()
		}
	}
	h.out.Line("endfork")
}

func errStr(err error) string {
	if err != nil {
		return "err"
	}
	return "ok"
}

func offsets(rng *vh.Rng, l int, maxN int) []int {
	if l+1 <= maxN {
		r := make([]int, l+1)
		for i := range r {
			r[i] = i
		}
		return r
	}
	set := map[int]bool{0: true, 1: true, 2: true, 3: true, 4: true, 5: true, 9: true, 10: true, 11: true, 18: true, 19: true, 20: true,
		l: true, l - 1: true, l - 2: true, l / 2: true}
	for len(set) < maxN {
		set[rng.Intn(l+1)] = true
	}
	r := make([]int, 0, len(set))
	for k := range set {
		if k >= 0 && k <= l {
			r = append(r, k)
		}
	}
	sort.Ints(r)
	return r
}

type profile struct {
	name    string
	ops     int
	padMax  int  // typical pad size
	bigProb int  // 1/bigProb appends are big
	bigMax  int  // size of big pads
	tornP   int  // 1/tornP appends get a torn fork series
	tornMax int  // maximum number of offsets per series
	final   bool // the last op is an append with a full offset series
	calm    bool // few rotations / restarts, so that files grow beyond the rotation threshold
}

func runHistory(out *vh.Out, rng *vh.Rng, root string, idx int, p profile, ids *uint64, budget *int64, forks *int) {
	dir := filepath.Join(root, fmt.Sprintf("h%d", idx))
	defer os.RemoveAll(dir)
	out.Line("hist %d %s", idx, p.name)
	h := &hist{out: out, rng: rng, dir: dir, ids: ids, budget: budget, root: root, forks: forks}
	h.epoch = uint64(rng.Intn(4))
	h.regress = rng.Chance(1, 3)
	if h.regress {
		h.epoch += uint64(rng.Intn(20))
	}
	h.open()
	for i := 0; i < p.ops && h.wal != nil; i++ {
		last := p.final && i == p.ops-1
		r := rng.Intn(100)
		if p.calm && r >= 58 && rng.Chance(3, 4) {
			r = 0
		}
		switch {
		case r < 58 || last:
			padLen := rng.Intn(p.padMax + 1)
			if p.bigProb > 0 && rng.Chance(1, p.bigProb) {
				padLen = p.bigMax/2 + rng.Intn(p.bigMax/2+1)
			}
			if rng.Chance(1, 12) {
				padLen = []int{0, 1, 22, 23, 24, 254, 255, 256, 65535, 65536}[rng.Intn(10)]
				if padLen > 4*p.padMax+300 {
					padLen = 24
				}
			}
			e := h.mkEntry(padLen)
			if !last && rng.Chance(1, 14) {
				// a refused Append: the encoder fails part-way; nothing may reach the log (what the rotation
				// check at the start of Append did stays done)
				e.refuse = true
				if len(e.Pad) < 2 {
					e.Pad = padFor(e.ID, 8)
				}
				err := h.wal.Append(e)
				_, _, act, _, has := h.wal.VerifStats()
				var sz int64
				if has {
					if st, _ := os.Stat(filepath.Join(h.dir, act)); st != nil {
						sz = st.Size()
					}
				} else {
					act = "-"
				}
				res := "err"
				if err == nil {
					res = "ok"
				}
				out.Line("refuse %d %d => %s active=%s asize=%d", e.ID, e.Epoch, res, act, sz)
				continue
			}
			if !last && rng.Chance(1, 16) {
				// an Append whose WRITE fails part-way (disk full, quota, file-size limit): the operating system has
				// taken the first bytes of the record and refuses the rest. The Append is not acknowledged; like an
				// Append refused by the encoder it must not leave a fragment that cuts off what is appended — and
				// acknowledged — after it. Injected with RLIMIT_FSIZE around the one call (nothing else is written
				// meanwhile; the log of this harness is flushed before).
				if err, injected := h.appendWithWriteError(e, 1+rng.Intn(8)); injected {
					_, _, act, _, has := h.wal.VerifStats()
					var sz int64
					if has {
						if st, _ := os.Stat(filepath.Join(h.dir, act)); st != nil {
							sz = st.Size()
						}
					} else {
						act = "-"
					}
					if err != nil {
						out.Line("# werr: the next refused append failed in write(2)")
						out.Line("refuse %d %d => err active=%s asize=%d", e.ID, e.Epoch, act, sz)
					} else {
						out.Line("append %d %d %d => ok active=%s asize=%d", e.ID, e.Epoch, encLen(&e), act, sz)
					}
					continue
				}
			}
			line, ok, active, asize, l := h.doAppend(e)
			if ok && active != "" && (last || (p.tornP > 0 && rng.Chance(1, p.tornP))) && *budget > 0 {
				maxN := p.tornMax
				if !last && maxN > 12 {
					maxN = 12
				}
				// keep the IO of a series within the budget
				per := 3*dirBytes(dir) + 1
				if int64(maxN)*per > *budget/4+per {
					maxN = int(*budget/4/per) + 3
				}
				offs := offsets(rng, l, maxN)
				out.Line("# tornseries len=%d offsets=%d full=%v", l, len(offs), len(offs) == l+1)
				for _, n := range offs {
					follow := 0
					if rng.Chance(1, 3) {
						follow = 1 + rng.Intn(4)
					}
					h.tornFork(e, active, asize, l, n, follow)
				}
			}
			out.Line("%s", line)
		case r < 66:
			out.Line("rotate => %s", errStr(h.wal.Rotate()))
			h.maybeRegress()
		case r < 70:
			out.Line("close => %s", errStr(h.wal.Close()))
			h.maybeRegress()
		case r < 81:
			h.purge(h.pickPurge())
		case r < 89:
			h.all()
		case r < 94:
			// graceful restart
			out.Line("close => %s", errStr(h.wal.Close()))
			h.wal = nil
			out.Line("crash")
			h.open()
		default:
			h.crash()
			h.open()
		}
	}
	if h.wal != nil {
		h.all()
		// final restart and read
		h.crash()
		h.open()
		if h.wal != nil {
			h.all()
			h.wal.VerifAbandon()
		}
	}
}

// ---- codec hypotheses on real codecs ------------------------------------------------------------

func mkCid(seed uint64) cid.Cid {
	sum, _ := multihash.Sum(padFor(seed, 16), multihash.BLAKE2B_MIN+31, -1)
	return cid.NewCidV1(cid.DagCBOR, sum)
}

func mkGMessage(rng *vh.Rng) *gpbft.GMessage {
	nts := 1 + rng.Intn(4)
	if rng.Chance(1, 10) {
		nts = 1 + rng.Intn(100)
	}
	var tss []*gpbft.TipSet
	ep := int64(rng.Intn(1000))
	for i := 0; i < nts; i++ {
		ep += 1 + int64(rng.Intn(3))
		ts := &gpbft.TipSet{Epoch: ep, Key: padFor(rng.U64(), 1+rng.Intn(80)), PowerTable: mkCid(rng.U64())}
		copy(ts.Commitments[:], padFor(rng.U64(), 32))
		tss = append(tss, ts)
	}
	chain := &gpbft.ECChain{TipSets: tss}
	if rng.Chance(1, 8) {
		chain = &gpbft.ECChain{}
	}
	m := &gpbft.GMessage{
		Sender: gpbft.ActorID(rng.Intn(5000)),
		Vote: gpbft.Payload{Instance: uint64(rng.Intn(100000)), Round: uint64(rng.Intn(5)), Phase: gpbft.Phase(1 + rng.Intn(5)),
			SupplementalData: gpbft.SupplementalData{PowerTable: mkCid(rng.U64())}, Value: chain},
		Signature: padFor(rng.U64(), 96),
	}
	if rng.Bool() {
		m.Ticket = padFor(rng.U64(), 96)
	}
	return m
}

// walEntryChecks: the host's record type (pointer to a GMessage) through the real log: every entry read back —
// live and after a restart, with and without a torn tail — must be the message appended at that position.
func walEntryChecks(out *vh.Out, rng *vh.Rng, root string, n int) {
	for i := 0; i < n; i++ {
		dir := filepath.Join(root, fmt.Sprintf("we%d", i))
		k := 2 + rng.Intn(6)
		var msgs []*gpbft.GMessage
		var encs [][]byte
		for j := 0; j < k; j++ {
			m := mkGMessage(rng)
			var b bytes.Buffer
			if err := m.MarshalCBOR(&b); err != nil {
				continue
			}
			msgs = append(msgs, m)
			encs = append(encs, b.Bytes())
		}
		cut := 0
		if rng.Bool() && len(encs) > 0 {
			cut = 1 + rng.Intn(len(encs[len(encs)-1])-1) // inside the last record
		}
		live, re, err := f3.VerifWalEntryRoundTrip(dir, msgs, cut)
		_ = os.RemoveAll(dir)
		same := func(got []*gpbft.GMessage, want int) string {
			if len(got) != want {
				return fmt.Sprintf("count:%d/%d", len(got), want)
			}
			for j := range got {
				var b bytes.Buffer
				if got[j] == nil || got[j].MarshalCBOR(&b) != nil || !bytes.Equal(b.Bytes(), encs[j]) {
					return fmt.Sprintf("entry:%d", j)
				}
			}
			return "ok"
		}
		wantRe := len(msgs)
		if cut > 0 {
			wantRe--
		}
		res := "err"
		if err == nil {
			res = fmt.Sprintf("live=%s reopened=%s", same(live, len(msgs)), same(re, wantRe))
		}
		out.Line("walentry n=%d cut=%d => %s", len(msgs), cut, res)
	}
}

func codecChecks(out *vh.Out, rng *vh.Rng, n int) {
	for i := 0; i < n; i++ {
		var enc, enc2 []byte
		kind := "hentry"
		var dec func(r io.Reader) error
		if i%2 == 0 {
			kind = "gmessage"
			var b1, b2 bytes.Buffer
			m1, m2 := mkGMessage(rng), mkGMessage(rng)
			if err := m1.MarshalCBOR(&b1); err != nil {
				out.Line("codec %s len=0 prefixfail=false seq=false # marshal: %v", kind, err)
				continue
			}
			_ = m2.MarshalCBOR(&b2)
			enc, enc2 = b1.Bytes(), b2.Bytes()
			dec = func(r io.Reader) error { var g gpbft.GMessage; return g.UnmarshalCBOR(r) }
		} else {
			var b1, b2 bytes.Buffer
			e1 := hEntry{ID: rng.U64() >> uint(rng.Intn(64)), Epoch: rng.U64() >> uint(rng.Intn(64)), Pad: padFor(rng.U64(), rng.Intn(600))}
			e2 := hEntry{ID: 7, Epoch: 9, Pad: padFor(3, rng.Intn(30))}
			_ = e1.MarshalCBOR(&b1)
			_ = e2.MarshalCBOR(&b2)
			enc, enc2 = b1.Bytes(), b2.Bytes()
			dec = func(r io.Reader) error { var g hEntry; return g.UnmarshalCBOR(r) }
		}
		prefixFail := true
		for k := 0; k < len(enc); k++ {
			if err := dec(cbg.NewCborReader(bytes.NewReader(enc[:k]))); err == nil {
				prefixFail = false
				break
			}
		}
		// sequential decode of enc ++ enc2 ++ (torn enc) with ONE reader, as readLogFile does
		cut := rng.Intn(len(enc))
		stream := append(append(append([]byte(nil), enc...), enc2...), enc[:cut]...)
		rd := cbg.NewCborReader(bytes.NewReader(stream))
		seq := dec(rd) == nil && dec(rd) == nil && dec(rd) != nil
		out.Line("codec %s len=%d prefixfail=%v seq=%v", kind, len(enc), prefixFail, seq)
	}
}

// ---- fsync-before-acknowledge, observed with strace ---------------------------------------------

// syncChild is run under strace: a short history on a real directory; after every acknowledged append
// an "ACK <id>" line is written to fd 1 with a direct write(2).
func syncChild() {
	dir := os.Getenv("VERIF_WAL_DIR")
	rng := vh.NewRng(vh.Seed() + 77)
	var id uint64
	w, err := writeaheadlog.Open[hEntry](dir)
	if err != nil {
		os.Exit(3)
	}
	ack := func() { _, _ = syscall.Write(1, []byte(fmt.Sprintf("ACK %d\n", id))) }
	app := func(pad int) {
		id++
		if err := w.Append(hEntry{ID: id, Epoch: id / 3, Pad: padFor(id, pad)}); err == nil {
			ack()
		}
	}
	for i := 0; i < 12; i++ {
		app(rng.Intn(200))
	}
	_ = w.Rotate()
	for i := 0; i < 4; i++ {
		app(rng.Intn(50))
	}
	// force a rotation by size
	for i := 0; i < 4; i++ {
		app(400 << 10)
	}
	_ = w.Close()
	// restart on the same directory and append again
	w, err = writeaheadlog.Open[hEntry](dir)
	if err != nil {
		os.Exit(3)
	}
	for i := 0; i < 6; i++ {
		app(rng.Intn(100))
	}
	_ = w.Purge(2)
	app(10)
	_ = w.Close()
}

var (
	reCall    = regexp.MustCompile(`^(\d+)\s+(\w+)\((.*)$`)
	reResumed = regexp.MustCompile(`^(\d+)\s+<\.\.\. (\w+) resumed>(.*)$`)
	reRet     = regexp.MustCompile(`=\s+(-?\d+)`)
)

func syncParent(out *vh.Out, root string) {
	exe, err := os.Executable()
	if err != nil {
		out.Line("sync unavailable")
		return
	}
	if _, err := exec.LookPath("strace"); err != nil {
		out.Line("sync unavailable")
		return
	}
	dir := filepath.Join(root, "syncdir")
	stf := filepath.Join(root, "strace.txt")
	childOut, err := os.Create(filepath.Join(root, "child.out"))
	if err != nil {
		out.Line("sync unavailable")
		return
	}
	defer childOut.Close()
	cmd := exec.Command("strace", "-f", "-e", "trace=write,fsync,fdatasync,openat,close", "-s", "40", "-o", stf, exe)
	cmd.Env = append(os.Environ(), "VERIF_WAL_MODE=syncchild", "VERIF_WAL_DIR="+dir)
	cmd.Stdout = childOut
	if err := cmd.Run(); err != nil {
		out.Line("sync unavailable")
		return
	}
	data, err := os.ReadFile(stf)
	if err != nil {
		out.Line("sync unavailable")
		return
	}
	walFd := map[int]bool{}
	knownPaths := map[string]bool{}
	dirty := map[int]bool{}
	pending := map[string][2]string{} // pid -> (call, args) of an unfinished call
	acks, fsyncs, oldopen := 0, 0, 0
	fdOf := func(args string) int {
		end := strings.IndexAny(args, ",)< ")
		if end < 0 {
			end = len(args)
		}
		n, err := strconv.Atoi(args[:end])
		if err != nil {
			return -1
		}
		return n
	}
	anyDirty := func() bool {
		for fd, d := range dirty {
			if d && walFd[fd] {
				return true
			}
		}
		return false
	}
	start := func(call, args string) {
		switch call {
		case "write":
			fd := fdOf(args)
			if walFd[fd] {
				dirty[fd] = true
			}
			if fd == 1 && strings.HasPrefix(args, "1, \"ACK ") {
				acks++
				idStr := strings.TrimPrefix(args, "1, \"ACK ")
				if i := strings.Index(idStr, "\\n"); i >= 0 {
					idStr = idStr[:i]
				}
				out.Line("sync %s dirty=%v", idStr, anyDirty())
			}
		}
	}
	finish := func(call, args, rest string) {
		ret := -1
		if m := reRet.FindStringSubmatch(rest); m != nil {
			ret, _ = strconv.Atoi(m[1])
		}
		switch call {
		case "openat":
			if ret >= 0 && strings.Contains(args, ".wal.cbor") {
				path := args
				if i := strings.Index(args, "\""); i >= 0 {
					if j := strings.Index(args[i+1:], "\""); j >= 0 {
						path = args[i+1 : i+1+j]
					}
				}
				if strings.Contains(args, "O_WRONLY") || strings.Contains(args, "O_RDWR") {
					walFd[ret] = true
					dirty[ret] = false
					if knownPaths[path] {
						oldopen++ // a log file that existed before is opened for writing
					}
				}
				knownPaths[path] = true
			}
		case "fsync", "fdatasync":
			fd := fdOf(args)
			if ret == 0 && walFd[fd] {
				dirty[fd] = false
				fsyncs++
			}
		case "close":
			fd := fdOf(args)
			delete(walFd, fd)
			delete(dirty, fd)
		}
	}
	for _, line := range strings.Split(string(data), "\n") {
		if m := reResumed.FindStringSubmatch(line); m != nil {
			p := pending[m[1]]
			delete(pending, m[1])
			finish(m[2], p[1], m[3])
			continue
		}
		m := reCall.FindStringSubmatch(line)
		if m == nil {
			continue
		}
		pidS, call, rest := m[1], m[2], m[3]
		start(call, rest)
		if strings.Contains(rest, "<unfinished ...>") {
			pending[pidS] = [2]string{call, rest}
			continue
		}
		finish(call, rest, rest[strings.LastIndex(rest, ")")+1:])
	}
	out.Line("syncsummary acks=%d fsyncs=%d oldopen=%d", acks, fsyncs, oldopen)
}

func main() {
	_ = logging.SetLogLevel("*", "fatal")
	if os.Getenv("VERIF_WAL_MODE") == "syncchild" {
		syncChild()
		return
	}
	out := vh.NewOut()
	defer out.Flush()
	rng := vh.NewRng(vh.Seed())
	thorough := vh.Thorough()

	cwd, _ := os.Getwd()
	root, err := os.MkdirTemp(cwd, "h_wal-")
	if err != nil {
		fmt.Fprintln(os.Stderr, "mkdtemp:", err)
		os.Exit(2)
	}
	defer os.RemoveAll(root)

	out.Line("cfg rotateAt=%d", 1<<20)
	syncParent(out, root)
	codecChecks(out, rng, map[bool]int{false: 60, true: 600}[thorough])
	walEntryChecks(out, rng.Fork(77), root, map[bool]int{false: 40, true: 400}[thorough])

	var ids uint64
	forks := 0
	budget := int64(vh.EnvInt("VERIF_WAL_BUDGET_MB", map[bool]int{false: 1500, true: 30000}[thorough])) << 20
	nSmall, nMixed, nBig, nFull := 60, 12, 3, 6
	fullMax := 2048
	if thorough {
		nSmall, nMixed, nBig, nFull = 900, 150, 30, 40
		fullMax = 32768
	}
	idx := 0
	for i := 0; i < nSmall; i++ {
		idx++
		runHistory(out, rng.Fork(uint64(idx)), root, idx, profile{name: "small", ops: 10 + rng.Intn(50), padMax: 60, tornP: 5, tornMax: 400, final: true}, &ids, &budget, &forks)
	}
	for i := 0; i < nMixed; i++ {
		idx++
		runHistory(out, rng.Fork(uint64(idx)), root, idx, profile{name: "mixed", ops: 30 + rng.Intn(60), padMax: 3000, bigProb: 6, bigMax: 300 << 10, tornP: 9, tornMax: 60, final: true}, &ids, &budget, &forks)
	}
	for i := 0; i < nBig; i++ {
		idx++
		// > 1 MiB cumulative several times over: forces rotation by size
		runHistory(out, rng.Fork(uint64(idx)), root, idx, profile{name: "big", ops: 40 + rng.Intn(40), padMax: 200, bigProb: 2, bigMax: 500 << 10, tornP: 10, tornMax: 40, final: true, calm: true}, &ids, &budget, &forks)
	}
	// the every-byte-offset series get their own IO budget
	budget = int64(vh.EnvInt("VERIF_WAL_FULL_BUDGET_MB", map[bool]int{false: 400, true: 12000}[thorough])) << 20
	for i := 0; i < nFull; i++ {
		idx++
		// every byte offset of one larger record in a small directory
		sz := 64 << uint(rng.Intn(6))
		if i == 0 {
			sz = fullMax
		}
		if sz > fullMax {
			sz = fullMax
		}
		runHistory(out, rng.Fork(uint64(idx)), root, idx, profile{name: "full", ops: 2 + rng.Intn(5), padMax: sz, bigProb: 1, bigMax: sz, tornP: 0, tornMax: 1 << 30, final: true}, &ids, &budget, &forks)
	}
}
