package main

import (
	"context"
	"fmt"
	"time"

	"github.com/filecoin-project/go-f3/chainexchange"
	"github.com/filecoin-project/go-f3/gpbft"
	"github.com/filecoin-project/go-f3/internal/psutil"
	"github.com/filecoin-project/go-f3/internal/verifh/lib/vh"
	pubsub "github.com/libp2p/go-libp2p-pubsub"
	mocknet "github.com/libp2p/go-libp2p/p2p/net/mock"
)

// blackBox: three in-process libp2p hosts over mocknet gossipsub. A and B run the real
// PubSubChainExchange.Start loops (topic validator registered with pubsub, subscription goroutine,
// wanted goroutine); C is a plain publisher of raw payloads so that B's validator also sees what A's
// own local validation would never let out. Only the public API is used on A and B.
func blackBox(ctx context.Context, out *vh.Out, rng *vh.Rng, thorough bool) {
	const topic = "verif-chainx-bb"
	const capW, capD = 8, 4
	const look = 2
	age := time.Minute
	w := newWorld()
	mn := mocknet.New()
	defer mn.Close()

	cur := gpbft.InstanceProgress{Instant: gpbft.Instant{ID: 7}}
	var ep int64
	tip := func() *gpbft.TipSet { ep++; return w.newTip(ep) }
	input := &gpbft.ECChain{TipSets: []*gpbft.TipSet{tip(), tip()}}
	w.register(input)
	cur.Input = input

	mkPS := func() *pubsub.PubSub {
		h, err := mn.GenPeer()
		if err != nil {
			panic(err)
		}
		ps, err := pubsub.NewGossipSub(ctx, h, pubsub.WithFloodPublish(true), pubsub.WithMessageSignaturePolicy(pubsub.StrictNoSign))
		if err != nil {
			panic(err)
		}
		return ps
	}
	mkCX := func(ps *pubsub.PubSub) *chainexchange.PubSubChainExchange {
		cx, err := chainexchange.NewPubSubChainExchange(
			chainexchange.WithProgress(func() gpbft.InstanceProgress { return cur }),
			chainexchange.WithPubSub(ps),
			chainexchange.WithTopicName(topic),
			chainexchange.WithTopicScoreParams(nil),
			chainexchange.WithMaxTimestampAge(age),
			chainexchange.WithCompression(true),
			chainexchange.WithMaxInstanceLookahead(look),
			chainexchange.WithMaxWantedChainsPerInstance(capW),
			chainexchange.WithMaxDiscoveredChainsPerInstance(capD),
		)
		if err != nil {
			panic(err)
		}
		if err := cx.Start(ctx); err != nil {
			panic(err)
		}
		return cx
	}
	a, b := mkCX(mkPS()), mkCX(mkPS())
	psC := mkPS()
	topicC, err := psC.Join(topic, pubsub.WithTopicMessageIdFn(psutil.ChainExchangeMessageIdFn))
	if err != nil {
		panic(err)
	}
	if err := mn.LinkAll(); err != nil {
		panic(err)
	}
	if err := mn.ConnectAllButSelf(); err != nil {
		panic(err)
	}
	defer func() {
		_ = a.Shutdown(ctx)
		_ = b.Shutdown(ctx)
	}()

	mkChain := func(base *gpbft.ECChain, n int) *gpbft.ECChain {
		var tips []*gpbft.TipSet
		if base != nil {
			tips = append(tips, base.TipSets[0])
		}
		for i := 0; i < n; i++ {
			tips = append(tips, tip())
		}
		c := &gpbft.ECChain{TipSets: tips}
		w.register(c)
		return c
	}
	publishC := func(m chainexchange.Message) {
		data, err := a.VerifEncode(&m)
		if err != nil {
			panic(err)
		}
		if err := topicC.Publish(ctx, data); err != nil {
			panic(err)
		}
	}
	nowMs := func() int64 { return time.Now().UnixMilli() }
	// count how many prefixes of c are retrievable at cx for inst, polling up to `wait`.
	countFound := func(cx *chainexchange.PubSubChainExchange, inst uint64, c *gpbft.ECChain, wait time.Duration) (found int, kok bool) {
		kok = true
		deadline := time.Now().Add(wait)
		for {
			found = 0
			for i := 0; i < c.Len(); i++ {
				p := c.Prefix(i)
				got, ok := cx.GetChainByInstance(ctx, inst, freshKey(p))
				if ok {
					found++
					if freshKey(got) != freshKey(p) {
						kok = false
					}
				}
			}
			if found == c.Len() || time.Now().After(deadline) {
				return
			}
			time.Sleep(5 * time.Millisecond)
		}
	}
	b2i := func(x bool) int {
		if x {
			return 1
		}
		return 0
	}

	// warm-up: wait until a probe published by C reaches B and A.
	for i := 0; ; i++ {
		probe := mkChain(nil, 1)
		publishC(chainexchange.Message{Instance: cur.ID + 1, Chain: probe, Timestamp: nowMs()})
		fb, _ := countFound(b, cur.ID+1, probe, 200*time.Millisecond)
		fa, _ := countFound(a, cur.ID+1, probe, 200*time.Millisecond)
		if fb == 1 && fa == 1 {
			break
		}
		if i > 100 {
			out.Line("bb send valid=1 reason=warmup found=0 of=1 self=1 kok=1")
			return
		}
	}

	rounds := 3
	if thorough {
		rounds = 25
	}
	for r := 0; r < rounds; r++ {
		// valid own broadcasts from A: current instance (base = input base) and future instances
		for _, d := range []uint64{0, 1, look} {
			inst := cur.ID + d
			var c *gpbft.ECChain
			if d == 0 {
				c = mkChain(input, 1+rng.Intn(3))
			} else {
				c = mkChain(nil, 1+rng.Intn(4))
			}
			ts := nowMs() - int64(rng.Intn(30000))
			errStr := "-"
			if err := a.Broadcast(ctx, chainexchange.Message{Instance: inst, Chain: c, Timestamp: ts}); err != nil {
				errStr = "broadcast-error"
			}
			self, kok1 := countFound(a, inst, c, 45*time.Second)
			found, kok2 := countFound(b, inst, c, 45*time.Second)
			out.Line("bb send valid=1 reason=%s inst=+%d chain=%s found=%d of=%d self=%d kok=%d", errStr, d, w.chainStr(c), found, c.Len(), self, b2i(kok1 && kok2))
		}
		// broadcasts B must not admit, published raw by C
		type bad struct {
			reason string
			msg    chainexchange.Message
		}
		good := func() *gpbft.ECChain { return mkChain(nil, 1+rng.Intn(3)) }
		bads := []bad{
			{"past", chainexchange.Message{Instance: cur.ID - 1, Chain: good(), Timestamp: nowMs()}},
			{"tooDistant", chainexchange.Message{Instance: cur.ID + look + 1, Chain: good(), Timestamp: nowMs()}},
			{"tsOld", chainexchange.Message{Instance: cur.ID + 1, Chain: good(), Timestamp: nowMs() - age.Milliseconds() - 5000}},
			{"tsFuture", chainexchange.Message{Instance: cur.ID + 1, Chain: good(), Timestamp: nowMs() + 60000}},
			{"wrongBase", chainexchange.Message{Instance: cur.ID, Chain: good(), Timestamp: nowMs()}},
		}
		{
			// malformed: two tipsets with equal epochs (keys still computable for the lookups)
			c := good()
			t1 := *w.newTip(c.TipSets[c.Len()-1].Epoch)
			mc := &gpbft.ECChain{TipSets: append(append([]*gpbft.TipSet{}, c.TipSets...), &t1)}
			w.register(mc)
			bads = append(bads, bad{"malformed", chainexchange.Message{Instance: cur.ID + 1, Chain: mc, Timestamp: nowMs()}})
		}
		for _, x := range bads {
			publishC(x.msg)
		}
		// a valid marker after the bad ones: once it has arrived the earlier ones have been processed
		marker := mkChain(nil, 1)
		publishC(chainexchange.Message{Instance: cur.ID + 1, Chain: marker, Timestamp: nowMs()})
		mf, _ := countFound(b, cur.ID+1, marker, 15*time.Second)
		time.Sleep(50 * time.Millisecond)
		for _, x := range bads {
			c := x.msg.Chain
			found, kok := countFound(b, x.msg.Instance, c, 0)
			out.Line("bb send valid=0 reason=%s marker=%d chain=%s found=%d of=%d self=%d kok=%d", x.reason, mf, w.chainStr(c), found, c.Len(), c.Len(), b2i(kok))
		}
		// ask, deliver, flood with unsolicited chains, ask again (B)
		{
			inst := cur.ID + 1
			k := mkChain(nil, 2)
			b.GetChainByInstance(ctx, inst, freshKey(k))
			publishC(chainexchange.Message{Instance: inst, Chain: k, Timestamp: nowMs()})
			// wait until the solicited chain has really been delivered (pubsub may take long, or drop it, on a
			// loaded machine); a chain that never arrived cannot be "not retained"
			pre := false
			for dl := time.Now().Add(15 * time.Second); time.Now().Before(dl); time.Sleep(5 * time.Millisecond) {
				if _, ok := b.GetChainByInstance(ctx, inst, freshKey(k)); ok {
					pre = true
					break
				}
			}
			var last *gpbft.ECChain
			for i := 0; i < capD+3; i++ {
				last = mkChain(nil, 1)
				publishC(chainexchange.Message{Instance: inst, Chain: last, Timestamp: nowMs()})
			}
			lf, _ := countFound(b, inst, last, 15*time.Second)
			got, ok := b.GetChainByInstance(ctx, inst, freshKey(k))
			res, kok := "miss", true
			if ok {
				res = "hit"
				kok = freshKey(got) == freshKey(k)
			}
			out.Line("bb flood asked=%s kok=%d last=%d key=%s pre=%d", res, b2i(kok), lf, w.chainStr(k), b2i(pre))
		}
	}
	_ = fmt.Sprint
}
