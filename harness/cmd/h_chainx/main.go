// h_chainx drives the real chainexchange.PubSubChainExchange (C18).
//
// Sync mode (default): one subject per history, its two goroutine loops played synchronously through
// in-package accessors (VerifFeed = topic validator + subscription-loop body; real Broadcast followed by
// VerifDrainWanted = second loop). Every op line carries the input, the implementation's answer and a
// dump of the caches it touched; the Lean driver replays the line through the model and the property
// oracle. `lru` lines differential-test the LRU model against the real hashicorp cache.
//
// Black-box mode (`h_chainx bb`): two mocknet hosts running the real Start loops over real gossipsub.
package main

import (
	"bytes"
	"context"
	"fmt"
	"os"
	"runtime/pprof"
	"slices"
	"sort"
	"strings"
	"sync"
	"time"

	"github.com/filecoin-project/go-f3/chainexchange"
	"github.com/filecoin-project/go-f3/gpbft"
	"github.com/filecoin-project/go-f3/internal/clock"
	"github.com/filecoin-project/go-f3/internal/verifh/lib/vh"
	lru "github.com/hashicorp/golang-lru/v2"
	"github.com/ipfs/go-cid"
	"github.com/klauspost/compress/zstd"
	pubsub "github.com/libp2p/go-libp2p-pubsub"
	mocknet "github.com/libp2p/go-libp2p/p2p/net/mock"
	"github.com/multiformats/go-multihash"
)

// ---------------------------------------------------------------------------------------------
// tipset / chain / key interning

type world struct {
	tipIDs   map[string]int
	keyNames map[gpbft.ECChainKey]string
	nextTip  int
	nextUnk  int
	ptOK     cid.Cid
	ptLong   cid.Cid
}

func newWorld() *world {
	long, err := cid.Prefix{Version: 1, Codec: cid.DagCBOR, MhType: multihash.SHA2_512, MhLength: 64}.Sum([]byte("pt"))
	if err != nil {
		panic(err)
	}
	return &world{tipIDs: map[string]int{}, keyNames: map[gpbft.ECChainKey]string{}, ptOK: gpbft.MakeCid([]byte("pt")), ptLong: long}
}

func tipContent(ts *gpbft.TipSet) string {
	var b strings.Builder
	fmt.Fprintf(&b, "%d|%x|", ts.Epoch, ts.Key)
	if ts.PowerTable.Defined() {
		b.Write(ts.PowerTable.Bytes())
	}
	b.WriteByte('|')
	b.Write(ts.Commitments[:])
	return b.String()
}

func (w *world) tipID(ts *gpbft.TipSet) int {
	if ts == nil {
		return 999999999
	}
	c := tipContent(ts)
	if id, ok := w.tipIDs[c]; ok {
		return id
	}
	w.nextTip++
	w.tipIDs[c] = w.nextTip
	return w.nextTip
}

func (w *world) newTip(epoch int64) *gpbft.TipSet {
	w.nextTip++
	ts := &gpbft.TipSet{Epoch: epoch, Key: []byte(fmt.Sprintf("key-%d", w.nextTip)), PowerTable: w.ptOK}
	if w.nextTip%3 == 0 {
		ts.Commitments[0] = byte(w.nextTip)
	}
	w.tipIDs[tipContent(ts)] = w.nextTip
	return ts
}

func (w *world) chainStr(c *gpbft.ECChain) string {
	if c.IsZero() {
		return "_"
	}
	parts := make([]string, len(c.TipSets))
	for i, ts := range c.TipSets {
		parts[i] = fmt.Sprint(w.tipID(ts))
	}
	return strings.Join(parts, ".")
}

func (w *world) tipDStr(c *gpbft.ECChain) string {
	if c.IsZero() {
		return "_"
	}
	parts := make([]string, len(c.TipSets))
	for i, ts := range c.TipSets {
		ptLen := 0
		if ts.PowerTable.Defined() {
			ptLen = ts.PowerTable.ByteLen()
		}
		parts[i] = fmt.Sprintf("%d:%d:%d:%d", w.tipID(ts), ts.Epoch, len(ts.Key), ptLen)
	}
	return strings.Join(parts, ".")
}

// freshKey recomputes the merkle key from the tipsets alone (AllPrefixes pre-populates the key cache of
// the chains it hands out, so chain.Key() of a returned chain proves nothing).
func freshKey(c *gpbft.ECChain) gpbft.ECChainKey {
	if c.IsZero() {
		return gpbft.ECChainKey{}
	}
	return (&gpbft.ECChain{TipSets: slices.Clone(c.TipSets)}).Key()
}

// register names the keys of every prefix of c.
func (w *world) register(c *gpbft.ECChain) {
	if c.Len() > 16 {
		// long chains: batch keys (quadratic otherwise); lookups still go by the tree key (freshKey)
		for i, k := range c.KeysForPrefixes() {
			if _, ok := w.keyNames[k]; !ok {
				w.keyNames[k] = w.chainStr(&gpbft.ECChain{TipSets: c.TipSets[: i+1 : i+1]})
			}
		}
		return
	}
	for i := range c.TipSets {
		p := &gpbft.ECChain{TipSets: c.TipSets[: i+1 : i+1]}
		k := p.Key()
		if _, ok := w.keyNames[k]; !ok {
			w.keyNames[k] = w.chainStr(p)
		}
	}
}

func (w *world) keyStr(k gpbft.ECChainKey) string {
	if k.IsZero() {
		return "_"
	}
	if s, ok := w.keyNames[k]; ok {
		return s
	}
	w.nextUnk++
	s := fmt.Sprintf("u%d", w.nextUnk)
	w.keyNames[k] = s
	return s
}

// ---------------------------------------------------------------------------------------------

type note struct {
	instance uint64
	chain    *gpbft.ECChain
}

type listener struct {
	mu    sync.Mutex
	notes []note
}

func (l *listener) NotifyChainDiscovered(_ context.Context, instance uint64, chain *gpbft.ECChain) {
	l.mu.Lock()
	defer l.mu.Unlock()
	l.notes = append(l.notes, note{instance, chain})
}

func (l *listener) take() []note {
	l.mu.Lock()
	defer l.mu.Unlock()
	n := l.notes
	l.notes = nil
	return n
}

// ---------------------------------------------------------------------------------------------

type hist struct {
	out  *vh.Out
	rng  *vh.Rng
	w    *world
	cx   *chainexchange.PubSubChainExchange
	clk  *clock.Mock
	lst  *listener
	cur  gpbft.InstanceProgress
	now  int64
	capW int
	capD int
	look uint64
	age  time.Duration
	comp bool
	zenc *zstd.Encoder

	pool   []*gpbft.ECChain            // chains generated so far
	seen   map[uint64][]*gpbft.ECChain // chains fed / broadcast / asked per instance
	ctx    context.Context
	nextEp int64
}

var topicSeq int
var tBcast, tFeed, tNew, tClose time.Duration

func newHist(ctx context.Context, out *vh.Out, rng *vh.Rng, ps *pubsub.PubSub, zenc *zstd.Encoder, capW, capD int, look uint64, age time.Duration, comp bool) *hist {
	h := &hist{out: out, rng: rng, w: newWorld(), clk: clock.NewMock(), lst: &listener{}, capW: capW, capD: capD,
		look: look, age: age, comp: comp, zenc: zenc, seen: map[uint64][]*gpbft.ECChain{}, ctx: ctx}
	topicSeq++
	cx, err := chainexchange.NewPubSubChainExchange(
		chainexchange.WithProgress(func() gpbft.InstanceProgress { return h.cur }),
		chainexchange.WithPubSub(ps),
		chainexchange.WithTopicName(fmt.Sprintf("verif-chainx-%d", topicSeq)),
		chainexchange.WithTopicScoreParams(nil),
		chainexchange.WithMaxTimestampAge(age),
		chainexchange.WithListener(h.lst),
		chainexchange.WithCompression(comp),
		chainexchange.WithClock(h.clk),
		chainexchange.WithMaxInstanceLookahead(look),
		chainexchange.WithMaxWantedChainsPerInstance(capW),
		chainexchange.WithMaxDiscoveredChainsPerInstance(capD),
	)
	if err != nil {
		panic(err)
	}
	if err := cx.VerifJoin(); err != nil {
		panic(err)
	}
	h.cx = cx
	h.now = 1_700_000_000_000 + int64(rng.Intn(1000000))
	h.clk.Set(time.UnixMilli(h.now))
	out.Line("cfg capw=%d capd=%d look=%d age=%d comp=%v", capW, capD, look, age.Milliseconds(), comp)
	return h
}

func (h *hist) close() { h.cx.VerifLeave() }

func (h *hist) dumpCache(es []chainexchange.VerifEntry, has bool) string {
	if !has {
		return "~"
	}
	if len(es) == 0 {
		return "-"
	}
	parts := make([]string, len(es))
	for i, e := range es {
		ks := h.w.keyStr(e.Key)
		switch {
		case e.Placeholder:
			parts[i] = ks + "*"
		default:
			cs := h.w.chainStr(e.Chain)
			if cs == ks && freshKey(e.Chain) == e.Key {
				parts[i] = ks
			} else {
				parts[i] = ks + "=" + cs
			}
		}
	}
	return strings.Join(parts, ";")
}

func joinU(xs []uint64) string {
	if len(xs) == 0 {
		return "-"
	}
	parts := make([]string, len(xs))
	for i, x := range xs {
		parts[i] = fmt.Sprint(x)
	}
	return strings.Join(parts, ",")
}

func (h *hist) insts() string {
	iw, id := h.cx.VerifInstances()
	return fmt.Sprintf("IW=%s ID=%s", joinU(iw), joinU(id))
}

func (h *hist) dump(inst uint64) string {
	w, hw, d, hd := h.cx.VerifDump(inst)
	return fmt.Sprintf("W=%s D=%s %s", h.dumpCache(w, hw), h.dumpCache(d, hd), h.insts())
}

func (h *hist) notesStr() string {
	ns := h.lst.take()
	if len(ns) == 0 {
		return "-"
	}
	parts := make([]string, len(ns))
	for i, n := range ns {
		parts[i] = h.w.chainStr(n.chain)
	}
	return strings.Join(parts, ";")
}

func recovered(out *vh.Out, op string) {
	if r := recover(); r != nil {
		out.Line("%s => panic %q", op, fmt.Sprint(r))
	}
}

// ---- ops ------------------------------------------------------------------------------------

func (h *hist) opGet(inst uint64, key gpbft.ECChainKey) bool {
	ks := h.w.keyStr(key)
	op := fmt.Sprintf("get %d %s", inst, ks)
	defer recovered(h.out, op)
	c, found := h.cx.GetChainByInstance(h.ctx, inst, key)
	res := "miss"
	if found {
		kok := 0
		if freshKey(c) == key {
			kok = 1
		}
		res = fmt.Sprintf("hit:%s:%d", h.w.chainStr(c), kok)
	} else if c != nil {
		res = "hit:nonnil-notfound:0"
	}
	st := h.insts()
	if !key.IsZero() {
		st = h.dump(inst)
	}
	h.out.Line("%s => %s n=%s %s", op, res, h.notesStr(), st)
	return found
}

func (h *hist) progStr() string {
	in := "nil"
	if h.cur.Input != nil {
		in = h.w.chainStr(h.cur.Input)
	}
	return fmt.Sprintf("cur=%d in=%s now=%d", h.cur.ID, in, h.now)
}

func verdictStr(r pubsub.ValidationResult) string {
	switch r {
	case pubsub.ValidationAccept:
		return "accept"
	case pubsub.ValidationReject:
		return "reject"
	case pubsub.ValidationIgnore:
		return "ignore"
	}
	return fmt.Sprintf("other%d", int(r))
}

// feedRaw pushes raw payload bytes through validator + subscription-loop body.
func (h *hist) feedRaw(data []byte) bool {
	h.clk.Set(time.UnixMilli(h.now))
	msgStr := "undec"
	st := "W=? D=? "
	var inst uint64
	dec, err := h.cx.VerifDecode(data)
	if err == nil {
		h.w.registerMaybe(dec.Chain)
		msgStr = fmt.Sprintf("%d/%d/%s", dec.Instance, dec.Timestamp, h.w.tipDStr(dec.Chain))
		inst = dec.Instance
	}
	op := fmt.Sprintf("feed %s msg=%s", h.progStr(), msgStr)
	defer recovered(h.out, op)
	t0 := time.Now()
	res := h.cx.VerifFeed(h.ctx, data)
	tFeed += time.Since(t0)
	if err == nil {
		st = h.dump(inst)
	} else {
		st += h.insts()
	}
	_ = h.lst.take() // cacheAsDiscoveredChain never notifies
	h.out.Line("%s => %s %s", op, verdictStr(res), st)
	if res == pubsub.ValidationAccept && err == nil {
		h.seen[inst] = append(h.seen[inst], dec.Chain)
	}
	return res == pubsub.ValidationAccept
}

// registerMaybe names the prefix keys of a decoded chain if every tipset is usable for hashing.
func (w *world) registerMaybe(c *gpbft.ECChain) {
	if c.IsZero() {
		return
	}
	for _, ts := range c.TipSets {
		if ts == nil || !ts.PowerTable.Defined() {
			return
		}
	}
	w.register(c)
}

func (h *hist) rawCBOR(m *chainexchange.Message) []byte {
	var buf bytes.Buffer
	if err := m.MarshalCBOR(&buf); err != nil {
		return nil
	}
	return buf.Bytes()
}

// wrap turns raw CBOR into the wire form the subject expects.
func (h *hist) wrap(raw []byte) []byte {
	if !h.comp {
		return raw
	}
	return h.zenc.EncodeAll(raw, nil)
}

func (h *hist) feedMsg(m chainexchange.Message) bool {
	data, err := h.cx.VerifEncode(&m)
	if err != nil {
		return false
	}
	return h.feedRaw(data)
}

func (h *hist) opBcast(inst uint64, c *gpbft.ECChain, ts int64) {
	op := fmt.Sprintf("bcast %d %s", inst, h.w.chainStr(c))
	defer recovered(h.out, op)
	t0 := time.Now()
	err := h.cx.Broadcast(h.ctx, chainexchange.Message{Instance: inst, Chain: c, Timestamp: ts})
	tBcast += time.Since(t0)
	n := h.cx.VerifDrainWanted(h.ctx)
	res := "ok"
	if err != nil {
		res = "err"
	}
	if n != 1 {
		res = fmt.Sprintf("queued%d", n)
	}
	h.out.Line("%s => %s n=%s %s", op, res, h.notesStr(), h.dump(inst))
	h.seen[inst] = append(h.seen[inst], c)
}

func (h *hist) opPrune(n uint64) {
	op := fmt.Sprintf("prune %d", n)
	defer recovered(h.out, op)
	err := h.cx.RemoveChainsByInstance(h.ctx, n)
	res := "ok"
	if err != nil {
		res = "err"
	}
	h.out.Line("%s => %s %s", op, res, h.insts())
	for i := range h.seen {
		if i < n {
			delete(h.seen, i)
		}
	}
}

// ---- generators -----------------------------------------------------------------------------

func (h *hist) epoch() int64 {
	h.nextEp += 1 + int64(h.rng.Intn(3))
	return h.nextEp
}

// newChain: a chain sharing a (possibly empty) prefix with an existing one, extended by fresh tipsets.
func (h *hist) newChain(base *gpbft.ECChain, minNew, maxNew int) *gpbft.ECChain {
	var tips []*gpbft.TipSet
	if base != nil && !base.IsZero() {
		keep := 1 + h.rng.Intn(base.Len())
		tips = slices.Clone(base.TipSets[:keep])
	}
	nNew := minNew + h.rng.Intn(maxNew-minNew+1)
	if len(tips) == 0 && nNew == 0 {
		nNew = 1
	}
	for i := 0; i < nNew; i++ {
		tips = append(tips, h.w.newTip(h.epoch()))
	}
	c := &gpbft.ECChain{TipSets: tips}
	h.w.register(c)
	h.pool = append(h.pool, c)
	return c
}

func (h *hist) anyChain() *gpbft.ECChain {
	if len(h.pool) == 0 || h.rng.Chance(1, 6) {
		var b *gpbft.ECChain
		if len(h.pool) > 0 && h.rng.Chance(3, 4) {
			b = h.pool[h.rng.Intn(len(h.pool))]
		}
		return h.newChain(b, 0, 4)
	}
	return h.pool[h.rng.Intn(len(h.pool))]
}

// chainFor returns a chain admissible for inst (base matching the current input when inst is current).
func (h *hist) chainFor(inst uint64, fresh bool) *gpbft.ECChain {
	if inst == h.cur.ID && h.cur.Input != nil && !h.cur.Input.IsZero() {
		base := &gpbft.ECChain{TipSets: h.cur.Input.TipSets[:1:1]}
		if !fresh {
			// an existing chain with that base?
			var cands []*gpbft.ECChain
			for _, c := range h.pool {
				if c.HasBase(h.cur.Input.Base()) {
					cands = append(cands, c)
				}
			}
			if len(cands) > 0 && h.rng.Chance(2, 3) {
				c := cands[h.rng.Intn(len(cands))]
				return c.Prefix(h.rng.Intn(c.Len()))
			}
		}
		src := base
		if h.rng.Chance(1, 2) {
			src = h.cur.Input
		}
		c := h.newChain(src, 1, 3)
		if !c.HasBase(h.cur.Input.Base()) {
			panic("base")
		}
		return c
	}
	if fresh {
		return h.newChain(nil, 1, 3)
	}
	c := h.anyChain()
	return c.Prefix(h.rng.Intn(c.Len()))
}

func (h *hist) allowedInst() uint64 {
	span := h.look
	if span > 3 {
		span = 3
	}
	d := uint64(h.rng.Intn(int(span) + 1))
	if h.rng.Chance(1, 2) {
		d = 0
	}
	return h.cur.ID + d
}

func (h *hist) goodTs() int64 {
	ageMs := h.age.Milliseconds()
	switch h.rng.Intn(6) {
	case 0:
		return h.now
	case 1:
		return h.now - ageMs
	default:
		if ageMs == 0 {
			return h.now
		}
		return h.now - int64(h.rng.Intn(int(min(ageMs, 1<<30))+1))
	}
}

func (h *hist) feedValid(inst uint64, c *gpbft.ECChain) bool {
	return h.feedMsg(chainexchange.Message{Instance: inst, Chain: c, Timestamp: h.goodTs()})
}

func (h *hist) flood(inst uint64, n int) {
	for i := 0; i < n; i++ {
		h.feedValid(inst, h.chainFor(inst, true))
	}
}

func (h *hist) someKeyAt(inst uint64) gpbft.ECChainKey {
	r := h.rng.Intn(100)
	switch {
	case r < 3:
		return gpbft.ECChainKey{}
	case r < 8:
		var k gpbft.ECChainKey
		for i := range k {
			k[i] = byte(h.rng.U64())
		}
		return k
	case r < 60 && len(h.seen[inst]) > 0:
		cs := h.seen[inst]
		c := cs[h.rng.Intn(len(cs))]
		if c.IsZero() {
			return gpbft.ECChainKey{}
		}
		// favour recent ones half of the time
		if h.rng.Chance(1, 2) {
			c = cs[len(cs)-1-h.rng.Intn(min(len(cs), 3))]
		}
		return freshKey(c.Prefix(h.rng.Intn(c.Len())))
	default:
		c := h.anyChain()
		return freshKey(c.Prefix(h.rng.Intn(c.Len())))
	}
}

func (h *hist) someInst() uint64 {
	r := h.rng.Intn(10)
	switch {
	case r < 6:
		return h.allowedInst()
	case r < 8 && h.cur.ID > 0:
		return h.cur.ID - 1 - uint64(h.rng.Intn(int(min(h.cur.ID, 2))))
	default:
		return h.cur.ID + h.look + uint64(h.rng.Intn(2))
	}
}

// malformed: one message the validator must not admit (or a corrupted encoding of a good one).
func (h *hist) malformed() {
	inst := h.allowedInst()
	good := h.chainFor(inst, h.rng.Chance(1, 2))
	ts := h.goodTs()
	ageMs := h.age.Milliseconds()
	mk := func(c *gpbft.ECChain) chainexchange.Message {
		return chainexchange.Message{Instance: inst, Chain: c, Timestamp: ts}
	}
	clone := func() []*gpbft.TipSet {
		t := make([]*gpbft.TipSet, good.Len())
		for i, x := range good.TipSets {
			y := *x
			t[i] = &y
		}
		return t
	}
	switch h.rng.Intn(17) {
	case 0: // garbage
		b := make([]byte, h.rng.Intn(48))
		for i := range b {
			b[i] = byte(h.rng.U64())
		}
		h.feedRaw(b)
	case 1: // truncated encoding
		raw := h.rawCBOR(&chainexchange.Message{Instance: inst, Chain: good, Timestamp: ts})
		h.feedRaw(h.wrap(raw[:h.rng.Intn(len(raw))]))
	case 2: // byte flip in the CBOR
		raw := slices.Clone(h.rawCBOR(&chainexchange.Message{Instance: inst, Chain: good, Timestamp: ts}))
		raw[h.rng.Intn(len(raw))] ^= byte(1 << h.rng.Intn(8))
		h.feedRaw(h.wrap(raw))
	case 3: // nil chain
		h.feedMsg(mk(nil))
	case 4: // zero-length chain
		h.feedMsg(mk(&gpbft.ECChain{}))
	case 5: // empty tipset key
		t := clone()
		t[h.rng.Intn(len(t))].Key = nil
		h.feedMsg(mk(&gpbft.ECChain{TipSets: t}))
	case 6: // equal / decreasing epochs
		t := clone()
		if len(t) < 2 {
			t = append(t, h.w.newTip(t[0].Epoch+1))
		}
		i := 1 + h.rng.Intn(len(t)-1)
		t[i].Epoch = t[i-1].Epoch - int64(h.rng.Intn(2))
		h.feedMsg(mk(&gpbft.ECChain{TipSets: t}))
	case 7: // negative base epoch
		t := clone()
		t[0].Epoch = -1 - int64(h.rng.Intn(3))
		h.feedMsg(mk(&gpbft.ECChain{TipSets: t}))
	case 8: // too long (129..131), exactly 128 is fine
		if !h.rng.Chance(1, 3) {
			h.feedMsg(mk(good))
			return
		}
		n := 127 + h.rng.Intn(5)
		t := clone()
		for len(t) < n {
			t = append(t, h.w.newTip(h.epoch()))
		}
		h.feedMsg(mk(&gpbft.ECChain{TipSets: t}))
	case 9: // power table CID too long
		t := clone()
		t[h.rng.Intn(len(t))].PowerTable = h.w.ptLong
		h.feedMsg(mk(&gpbft.ECChain{TipSets: t}))
	case 10: // past instance
		if h.cur.ID > 0 {
			inst = h.cur.ID - 1 - uint64(h.rng.Intn(int(min(h.cur.ID, 3))))
		}
		h.feedMsg(mk(h.chainFor(inst, false)))
	case 11: // too distant (edge: look+1), and the last allowed one (look)
		inst = h.cur.ID + h.look + uint64(h.rng.Intn(3))
		h.feedMsg(mk(h.chainFor(inst, false)))
	case 12: // timestamp just too old / far too old
		ts = h.now - ageMs - 1 - int64(h.rng.Intn(2))*int64(h.rng.Intn(100000))
		h.feedMsg(mk(good))
	case 13: // timestamp in the future
		ts = h.now + 1 + int64(h.rng.Intn(2))*int64(h.rng.Intn(100000))
		h.feedMsg(mk(good))
	case 14: // base contradicting the current instance's input
		inst = h.cur.ID
		c := h.newChain(nil, 1, 3)
		h.feedMsg(mk(c))
	case 15: // same base tipset content except one field
		inst = h.cur.ID
		if h.cur.Input != nil && !h.cur.Input.IsZero() {
			b := *h.cur.Input.Base()
			switch h.rng.Intn(3) {
			case 0:
				b.Epoch++
			case 1:
				b.Key = append(slices.Clone(b.Key), 'x')
			default:
				b.Commitments[5] ^= 1
			}
			c := &gpbft.ECChain{TipSets: []*gpbft.TipSet{&b, h.w.newTip(b.Epoch + 1 + h.epoch())}}
			h.w.register(c)
			h.feedMsg(mk(c))
		} else {
			h.feedMsg(mk(good))
		}
	default: // timestamps exactly on the window edges (admitted)
		if h.rng.Bool() {
			ts = h.now
		} else {
			ts = h.now - ageMs
		}
		h.feedMsg(mk(good))
	}
}

func (h *hist) advance() {
	step := uint64(1)
	if h.rng.Chance(1, 5) {
		step = uint64(1 + h.rng.Intn(3))
	}
	h.cur.ID += step
	switch h.rng.Intn(5) {
	case 0:
		h.cur.Input = nil
	default:
		h.cur.Input = h.newChain(h.cur.Input, 0, 3)
	}
	if h.rng.Chance(2, 3) {
		// pmsg prunes below the new current instance
		n := h.cur.ID
		if h.rng.Chance(1, 4) && n > 0 {
			n--
		}
		h.opPrune(n)
	}
}

func (h *hist) tick() {
	if h.rng.Chance(1, 3) {
		h.now += int64(h.rng.Intn(int(min(h.age.Milliseconds()/2+2, 1<<30))))
	}
}

// scenarios from the property statement
func (h *hist) scenario(k int) {
	inst := h.allowedInst()
	switch k {
	case 0: // ask, receive, flood of unsolicited chains, ask again
		c := h.chainFor(inst, true)
		h.opGet(inst, freshKey(c))
		if h.rng.Bool() {
			h.opGet(inst, freshKey(c.Prefix(h.rng.Intn(c.Len()))))
		}
		h.feedValid(inst, c)
		h.flood(inst, h.capD*(1+h.rng.Intn(4))+1)
		h.opGet(inst, freshKey(c))
		for i := 0; i < c.Len(); i++ {
			if h.rng.Bool() {
				h.opGet(inst, freshKey(c.Prefix(i)))
			}
		}
	case 1: // receive then ask every prefix
		c := h.chainFor(inst, true)
		h.feedValid(inst, c)
		for i := c.Len() - 1; i >= 0; i-- {
			h.opGet(inst, freshKey(c.Prefix(i)))
		}
	case 2: // receive, flood, ask
		c := h.chainFor(inst, true)
		h.feedValid(inst, c)
		h.flood(inst, h.rng.Intn(h.capD*2+2))
		h.opGet(inst, freshKey(c))
		h.opGet(inst, freshKey(c.Prefix(0)))
	case 3: // own broadcast, unsolicited flood, ask prefixes
		c := h.chainFor(inst, true)
		h.opBcast(inst, c, h.goodTs())
		if h.rng.Bool() {
			h.feedValid(inst, c) // own publication comes back through the subscription
		}
		h.flood(inst, h.rng.Intn(h.capD*2+2))
		for i := 0; i < c.Len(); i++ {
			h.opGet(inst, freshKey(c.Prefix(i)))
		}
	case 4: // prune boundary
		base := h.cur.ID
		cs := map[uint64]*gpbft.ECChain{}
		for d := uint64(0); d <= min(h.look, 2); d++ {
			c := h.chainFor(base+d, true)
			cs[base+d] = c
			if h.rng.Bool() {
				h.opGet(base+d, freshKey(c))
			}
			if h.rng.Chance(3, 4) {
				h.feedValid(base+d, c)
			} else {
				h.opBcast(base+d, c, h.goodTs())
			}
		}
		n := base + uint64(h.rng.Intn(3))
		h.opPrune(n)
		insts := make([]uint64, 0, len(cs))
		for i := range cs {
			insts = append(insts, i)
		}
		sort.Slice(insts, func(a, b int) bool { return insts[a] < insts[b] })
		for _, i := range insts {
			h.opGet(i, freshKey(cs[i]))
		}
	case 5: // many asked keys (more than the wanted capacity), then deliveries
		var cs []*gpbft.ECChain
		for i := 0; i < h.capW+1+h.rng.Intn(2); i++ {
			c := h.chainFor(inst, true)
			cs = append(cs, c)
			h.opGet(inst, freshKey(c))
		}
		for _, c := range cs {
			if h.rng.Chance(3, 4) {
				h.feedValid(inst, c)
			}
		}
		h.flood(inst, h.capD+1)
		for _, c := range cs {
			h.opGet(inst, freshKey(c))
		}
	case 6: // re-announcement of a chain already discovered, then more traffic
		c := h.chainFor(inst, true)
		h.feedValid(inst, c)
		h.flood(inst, h.rng.Intn(h.capD+1))
		h.feedValid(inst, c)
		h.flood(inst, h.rng.Intn(h.capD+1))
		for i := c.Len() - 1; i >= 0; i-- {
			h.opGet(inst, freshKey(c.Prefix(i)))
		}
	}
}

func (h *hist) randomOp() {
	h.tick()
	r := h.rng.Intn(100)
	switch {
	case r < 30:
		inst := h.someInst()
		h.opGet(inst, h.someKeyAt(inst))
	case r < 58:
		inst := h.allowedInst()
		h.feedValid(inst, h.chainFor(inst, h.rng.Chance(1, 3)))
	case r < 70:
		h.malformed()
	case r < 79:
		inst := h.someInst()
		h.opBcast(inst, h.chainFor(inst, h.rng.Chance(1, 2)), h.goodTs())
	case r < 84:
		n := h.cur.ID + uint64(h.rng.Intn(3))
		if h.rng.Bool() && n > 0 {
			n -= uint64(h.rng.Intn(int(min(n, 3)) + 1))
		}
		h.opPrune(n)
	case r < 90:
		h.advance()
	case r < 95:
		inst := h.allowedInst()
		h.flood(inst, h.capD+h.rng.Intn(h.capD*3+1))
	default:
		h.scenario(h.rng.Intn(7))
	}
}

// ---------------------------------------------------------------------------------------------

func lruStream(out *vh.Out, rng *vh.Rng, perCap int) {
	for cap := 1; cap <= 8; cap++ {
		c, err := lru.New[int, int](cap)
		if err != nil {
			panic(err)
		}
		out.Line("lru new %d", cap)
		keys := func() string {
			ks := c.Keys()
			if len(ks) == 0 {
				return "-"
			}
			parts := make([]string, len(ks))
			for i, k := range ks {
				v, _ := c.Peek(k)
				parts[i] = fmt.Sprintf("%d:%d", k, v)
			}
			return strings.Join(parts, ";")
		}
		b := func(x bool) int {
			if x {
				return 1
			}
			return 0
		}
		for i := 0; i < perCap; i++ {
			k := rng.Intn(cap + 3)
			v := rng.Intn(1000)
			switch rng.Intn(8) {
			case 0, 1:
				ev := c.Add(k, v)
				out.Line("lru add %d %d => %d keys=%s", k, v, b(ev), keys())
			case 2:
				x, ok := c.Get(k)
				if ok {
					out.Line("lru get %d => %d keys=%s", k, x, keys())
				} else {
					out.Line("lru get %d => - keys=%s", k, keys())
				}
			case 3:
				x, ok := c.Peek(k)
				if ok {
					out.Line("lru peek %d => %d keys=%s", k, x, keys())
				} else {
					out.Line("lru peek %d => - keys=%s", k, keys())
				}
			case 4:
				out.Line("lru has %d => %d keys=%s", k, b(c.Contains(k)), keys())
			case 5, 6:
				ok, ev := c.ContainsOrAdd(k, v)
				out.Line("lru coa %d %d => %d,%d keys=%s", k, v, b(ok), b(ev), keys())
			default:
				out.Line("lru rm %d => %d keys=%s", k, b(c.Remove(k)), keys())
			}
		}
	}
}

func main() {
	out := vh.NewOut()
	defer out.Flush()
	thorough := vh.Thorough()
	ctx, cancel := context.WithCancel(context.Background())
	defer cancel()

	if pf := os.Getenv("VERIF_CHAINX_PPROF"); pf != "" {
		f, _ := os.Create(pf)
		_ = pprof.StartCPUProfile(f)
		defer pprof.StopCPUProfile()
	}
	// modes: (none) = sync histories then black box; sync | bb | conc | racy (= bb + conc, for the -race build)
	mode := ""
	if len(os.Args) > 1 {
		mode = os.Args[1]
	}
	if mode == "" || mode == "sync" {
		// thorough: several derived seeds in one process (one harness build per check run)
		seeds := []uint64{vh.Seed()}
		if thorough {
			for k := 1; k < vh.EnvInt("VERIF_CHAINX_SEEDS", 2); k++ {
				seeds = append(seeds, vh.Seed()*1000+uint64(k))
			}
		}
		for _, sd := range seeds {
			out.Line("# sync seed %d", sd)
			syncHistories(ctx, out, vh.NewRng(sd), thorough)
		}
	}
	if mode == "" || mode == "bb" || mode == "racy" {
		blackBox(ctx, out, vh.NewRng(vh.Seed()).Fork(99), thorough)
	}
	if mode == "conc" || mode == "racy" {
		mn := mocknet.New()
		defer mn.Close()
		host, err := mn.GenPeer()
		if err != nil {
			panic(err)
		}
		ps, err := pubsub.NewGossipSub(ctx, host)
		if err != nil {
			panic(err)
		}
		zenc, err := zstd.NewWriter(nil)
		if err != nil {
			panic(err)
		}
		concurrentPhase(ctx, out, vh.NewRng(vh.Seed()).Fork(77), ps, zenc, map[bool]int{false: 3, true: 12}[thorough])
	}
}

func syncHistories(ctx context.Context, out *vh.Out, rng *vh.Rng, thorough bool) {
	mn := mocknet.New()
	defer mn.Close()
	host, err := mn.GenPeer()
	if err != nil {
		panic(err)
	}
	ps, err := pubsub.NewGossipSub(ctx, host)
	if err != nil {
		panic(err)
	}
	zenc, err := zstd.NewWriter(nil)
	if err != nil {
		panic(err)
	}

	lruStream(out, rng.Fork(7), map[bool]int{false: 1500, true: 20000}[thorough])

	nHist := vh.EnvInt("VERIF_CHAINX_HISTORIES", map[bool]int{false: 180, true: 600}[thorough])
	for hi := 0; hi < nHist; hi++ {
		r := rng.Fork(uint64(hi))
		capW := 1 + r.Intn(8)
		capD := 1 + r.Intn(8)
		if r.Chance(1, 3) {
			capW = 1 + r.Intn(3)
		}
		if r.Chance(1, 3) {
			capD = 1 + r.Intn(3)
		}
		look := []uint64{0, 1, 2, 3, 5, 10}[r.Intn(6)]
		age := []time.Duration{0, time.Millisecond, 1500 * time.Microsecond, 10 * time.Second, time.Minute}[r.Intn(5)]
		t0 := time.Now()
		h := newHist(ctx, out, r, ps, zenc, capW, capD, look, age, r.Chance(1, 8))
		tNew += time.Since(t0)
		// starting progress
		switch r.Intn(8) {
		case 0:
			h.cur.ID = 0
		case 1:
			h.cur.ID = ^uint64(0) - uint64(r.Intn(12)) // uint64 wrap of ID+lookahead
		default:
			h.cur.ID = uint64(r.Intn(6))
		}
		if r.Chance(4, 5) {
			h.cur.Input = h.newChain(nil, 1, 3)
		}
		if r.Chance(2, 3) {
			h.scenario(r.Intn(7))
		}
		nOps := 30 + r.Intn(90)
		if thorough {
			nOps = 60 + r.Intn(240)
		}
		for i := 0; i < nOps; i++ {
			h.randomOp()
		}
		t0 = time.Now()
		h.close()
		tClose += time.Since(t0)
	}
	if os.Getenv("VERIF_CHAINX_TIMING") != "" {
		fmt.Fprintf(os.Stderr, "timing: bcast=%v feed=%v new=%v close=%v\n", tBcast, tFeed, tNew, tClose)
	}
}
