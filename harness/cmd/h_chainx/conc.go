package main

import (
	"context"
	"strings"
	"sync"
	"sync/atomic"
	"time"

	"github.com/filecoin-project/go-f3/chainexchange"
	"github.com/filecoin-project/go-f3/gpbft"
	"github.com/filecoin-project/go-f3/internal/verifh/lib/vh"
	"github.com/klauspost/compress/zstd"
	pubsub "github.com/libp2p/go-libp2p-pubsub"
)

// concurrentPhase: many goroutines hammer one subject through the same entry points the sync mode
// uses (lookups, deliveries, own broadcasts, prunes). Meant to run under -race (thorough tier): the
// race detector is the oracle for "one op = one critical section"; in addition every hit is checked
// for key-correctness and the final caches for size/value discipline.
func concurrentPhase(ctx context.Context, out *vh.Out, rng *vh.Rng, ps *pubsub.PubSub, zenc *zstd.Encoder, rounds int) {
	for round := 0; round < rounds; round++ {
		capW, capD := 1+rng.Intn(8), 1+rng.Intn(8)
		h := newHist(ctx, out, rng.Fork(uint64(round)), ps, zenc, capW, capD, 3, time.Minute, false)
		h.cur.ID = 5
		h.cur.Input = h.newChain(nil, 1, 2)
		type item struct {
			inst uint64
			c    *gpbft.ECChain
			keys []gpbft.ECChainKey
			data []byte
		}
		var items []item
		for i := 0; i < 40; i++ {
			inst := h.cur.ID + uint64(rng.Intn(3))
			c := h.chainFor(inst, rng.Chance(2, 3))
			var keys []gpbft.ECChainKey
			for j := 0; j < c.Len(); j++ {
				keys = append(keys, freshKey(c.Prefix(j)))
			}
			m := chainexchange.Message{Instance: inst, Chain: c, Timestamp: h.now}
			data, err := h.cx.VerifEncode(&m)
			if err != nil {
				panic(err)
			}
			items = append(items, item{inst, c, keys, data})
		}
		h.clk.Set(time.UnixMilli(h.now))
		var ops, hits, kbad, panics atomic.Int64
		var wg sync.WaitGroup
		const G = 8
		perG := 400
		for g := 0; g < G; g++ {
			r := rng.Fork(uint64(1000 + g))
			wg.Add(1)
			go func() {
				defer wg.Done()
				defer func() {
					if x := recover(); x != nil {
						panics.Add(1)
					}
				}()
				for n := 0; n < perG; n++ {
					it := items[r.Intn(len(items))]
					ops.Add(1)
					switch k := r.Intn(20); {
					case k < 9:
						j := r.Intn(len(it.keys))
						c, ok := h.cx.GetChainByInstance(ctx, it.inst, it.keys[j])
						if ok {
							hits.Add(1)
							if freshKey(c) != it.keys[j] {
								kbad.Add(1)
							}
						}
					case k < 16:
						h.cx.VerifFeed(ctx, it.data)
					case k < 19:
						_ = h.cx.Broadcast(ctx, chainexchange.Message{Instance: it.inst, Chain: it.c, Timestamp: h.now})
						h.cx.VerifDrainWanted(ctx)
					default:
						_ = h.cx.RemoveChainsByInstance(ctx, h.cur.ID+uint64(r.Intn(2)))
					}
				}
			}()
		}
		wg.Wait()
		h.cx.VerifDrainWanted(ctx)
		_ = h.lst.take()
		// final state discipline
		stateBad := 0
		iw, id := h.cx.VerifInstances()
		seen := map[uint64]bool{}
		for _, i := range append(iw, id...) {
			if seen[i] {
				continue
			}
			seen[i] = true
			w, hw, d, hd := h.cx.VerifDump(i)
			if len(w) > capW || len(d) > capD {
				stateBad++
			}
			if strings.Contains(h.dumpCache(w, hw)+h.dumpCache(d, hd), "=") {
				stateBad++
			}
			for _, e := range d {
				if e.Placeholder {
					stateBad++
				}
			}
		}
		out.Line("conc goroutines=%d ops=%d hits=%d kbad=%d statebad=%d panics=%d capw=%d capd=%d", G, ops.Load(), hits.Load(), kbad.Load(), stateBad, panics.Load(), capW, capD)
		h.close()
	}
}
