// h_equiv drives (a) the real equivocationFilter alone and (b) the real broadcast path of a running
// f3.F3 node (filter -> WAL append -> publish, rebroadcast, restart with WAL replay, purge on
// certificate), observing what is handed to Topic.Publish through a synchronous pubsub event tracer (C12).
//
// Line vocabulary (see lean/Driver/Equiv.lean):
//
//	fnew local=<n>                                     fresh filter, local peer rank n
//	pb <i> <s> <r> <p> <sig> => <bool> st=<dump>       ProcessBroadcast
//	pr <peer> <i> <s> <r> <p> <sig> => st=<dump>       ProcessReceive
//	fx <dump> pb|pr ... => <bool|-> <dump>             one transition of the state-space enumeration
//	ehist <n>                                          new node history (fresh disk, fresh cert store)
//	start kind=<k> cert=<c|-> => cur= seen= active= self= wal=
//	bc <i> <s> <r> <p> <sig> crash=<0|A|B|C> => pub=<msg:inwal,...> wal=<msgs>
//	rb <i> <r> <p> => pub=<...>
//	cert <c> => wal=<msgs> self=<msgs>
//	stop
//
// dump = cur/seen/active ; seen = s.r.p.sig.origin,... ; active = s:o1.o2:e,... ; msg = i.s.r.p.sig
package main

import (
	"context"
	"encoding/binary"
	"fmt"
	"io"
	"os"
	"path/filepath"
	"sort"
	"strings"
	"sync"
	"time"

	f3 "github.com/filecoin-project/go-f3"
	"github.com/filecoin-project/go-bitfield"
	"github.com/filecoin-project/go-f3/certs"
	"github.com/filecoin-project/go-f3/ec"
	"github.com/filecoin-project/go-f3/gpbft"
	"github.com/filecoin-project/go-f3/internal/clock"
	"github.com/filecoin-project/go-f3/internal/consensus"
	"github.com/filecoin-project/go-f3/internal/verifh/lib/vh"
	"github.com/filecoin-project/go-f3/manifest"
	"github.com/filecoin-project/go-f3/sim/signing"
	"github.com/ipfs/go-cid"
	"github.com/ipfs/go-datastore"
	ds_sync "github.com/ipfs/go-datastore/sync"
	logging "github.com/ipfs/go-log/v2"
	pubsub "github.com/libp2p/go-libp2p-pubsub"
	pubsub_pb "github.com/libp2p/go-libp2p-pubsub/pb"
	"github.com/libp2p/go-libp2p/core/host"
	"github.com/libp2p/go-libp2p/core/peer"
	mocknet "github.com/libp2p/go-libp2p/p2p/net/mock"
	"github.com/multiformats/go-multihash"
)

// ---- messages -----------------------------------------------------------------------------------

type tup struct{ i, s, r, p, sig uint64 }

func (t tup) String() string { return fmt.Sprintf("%d.%d.%d.%d.%d", t.i, t.s, t.r, t.p, t.sig) }

func fill(seed uint64, n int) []byte {
	b := make([]byte, n)
	x := seed*0x9E3779B97F4A7C15 + 99
	for i := range b {
		x ^= x << 13
		x ^= x >> 7
		x ^= x << 17
		b[i] = byte(x)
	}
	return b
}

func mkCid(seed uint64) cid.Cid {
	sum, _ := multihash.Sum(fill(seed, 16), multihash.BLAKE2B_MIN+31, -1)
	return cid.NewCidV1(cid.DagCBOR, sum)
}

var ptCid = mkCid(4242)

func sigBytes(sig uint64) []byte {
	b := fill(sig, 96)
	binary.BigEndian.PutUint64(b[:8], sig)
	return b
}

func sigOf(b []byte) uint64 {
	if len(b) < 8 {
		return 0
	}
	return binary.BigEndian.Uint64(b[:8])
}

// mkMsg: the value (EC chain) is a function of the signature id — a different EC head gives a
// different payload, hence a different signature.
func mkMsg(t tup) *gpbft.GMessage {
	base := &gpbft.TipSet{Epoch: 10, Key: fill(7, 38), PowerTable: ptCid}
	head := &gpbft.TipSet{Epoch: 11 + int64(t.sig%5), Key: fill(1000+t.sig, 38), PowerTable: ptCid}
	return &gpbft.GMessage{
		Sender: gpbft.ActorID(t.s),
		Vote: gpbft.Payload{Instance: t.i, Round: t.r, Phase: gpbft.Phase(t.p),
			SupplementalData: gpbft.SupplementalData{PowerTable: ptCid},
			Value:            &gpbft.ECChain{TipSets: []*gpbft.TipSet{base, head}}},
		Signature: sigBytes(t.sig),
	}
}

func tupOf(m *gpbft.GMessage) tup {
	return tup{m.Vote.Instance, uint64(m.Sender), m.Vote.Round, uint64(m.Vote.Phase), sigOf(m.Signature)}
}

func joinT(ts []tup) string {
	if len(ts) == 0 {
		return "-"
	}
	parts := make([]string, len(ts))
	for i, t := range ts {
		parts[i] = t.String()
	}
	return strings.Join(parts, ",")
}

// ---- part (a): the filter alone -----------------------------------------------------------------

func pid(n int) peer.ID { return peer.ID(fmt.Sprintf("peer-%02d", n)) }

func rank(p peer.ID) int {
	var n int
	fmt.Sscanf(string(p), "peer-%d", &n)
	return n
}

func dump(cur uint64, seen []f3.VerifSeen, active []f3.VerifActive, originName func(peer.ID) string) string {
	var sb strings.Builder
	fmt.Fprintf(&sb, "%d/", cur)
	if len(seen) == 0 {
		sb.WriteString("-")
	}
	for i, s := range seen {
		if i > 0 {
			sb.WriteString(",")
		}
		fmt.Fprintf(&sb, "%d.%d.%d.%d.%s", s.Sender, s.Round, s.Phase, sigOf(s.Sig), originName(s.Origin))
	}
	sb.WriteString("/")
	if len(active) == 0 {
		sb.WriteString("-")
	}
	for i, a := range active {
		if i > 0 {
			sb.WriteString(",")
		}
		os := make([]string, len(a.Origins))
		for j, o := range a.Origins {
			os[j] = originName(o)
		}
		if len(os) == 0 {
			os = []string{"_"}
		}
		e := 0
		if a.Equivocation {
			e = 1
		}
		fmt.Fprintf(&sb, "%d:%s:%d", a.Sender, strings.Join(os, "."), e)
	}
	return sb.String()
}

func rankName(p peer.ID) string { return fmt.Sprint(rank(p)) }

func fdump(f *f3.VerifFilter) string {
	c, s, a := f.State()
	return dump(c, s, a, rankName)
}

func safeBool(fn func() bool) (res string) {
	defer func() {
		if r := recover(); r != nil {
			res = "panic"
		}
	}()
	return fmt.Sprint(fn())
}

type fop struct {
	recv bool
	peer int
	t    tup
}

func (o fop) String() string {
	if o.recv {
		return fmt.Sprintf("pr %d %d %d %d %d %d", o.peer, o.t.i, o.t.s, o.t.r, o.t.p, o.t.sig)
	}
	return fmt.Sprintf("pb %d %d %d %d %d", o.t.i, o.t.s, o.t.r, o.t.p, o.t.sig)
}

func applyFop(f *f3.VerifFilter, o fop) string {
	if o.recv {
		r := safeBool(func() bool { f.ProcessReceive(pid(o.peer), mkMsg(o.t)); return true })
		if r == "panic" {
			return "panic"
		}
		return "-"
	}
	return safeBool(func() bool { return f.ProcessBroadcast(mkMsg(o.t)) })
}

func filterSequences(out *vh.Out, rng *vh.Rng, n int) {
	for c := 0; c < n; c++ {
		local := []int{1, 5, 14, 3, 7}[rng.Intn(5)]
		npeers := 3 + rng.Intn(3)
		many := rng.Chance(1, 6) // exercise the 10-origin cap
		if many {
			npeers = 14
		}
		out.Line("fnew local=%d", local)
		f := f3.VerifNewFilter(pid(local))
		steps := 20 + rng.Intn(60)
		inst := uint64(rng.Intn(2))
		for k := 0; k < steps; k++ {
			if rng.Chance(1, 12) {
				inst++
			}
			t := tup{i: inst, s: uint64(1 + rng.Intn(2)), r: uint64(rng.Intn(2)), p: uint64([]int{1, 3}[rng.Intn(2)]), sig: uint64(1 + rng.Intn(3))}
			switch rng.Intn(10) {
			case 0:
				if t.i > 0 {
					t.i--
				}
			case 1:
				t.i++
			}
			if many {
				t.s, t.r, t.p = 1, 0, 1
			}
			if rng.Chance(2, 5) {
				p := 1 + rng.Intn(npeers)
				o := fop{recv: true, peer: p, t: t}
				res := applyFop(f, o)
				if res == "panic" {
					out.Line("%s => panic", o)
				} else {
					out.Line("%s => st=%s", o, fdump(f))
				}
			} else {
				o := fop{t: t}
				out.Line("%s => %s st=%s", o, applyFop(f, o), fdump(f))
			}
		}
	}
}

// filterSpace enumerates the complete reachable state space of the filter for a small alphabet
// (breadth-first over canonical state dumps, every operation of the alphabet from every state).
func filterSpace(out *vh.Out, local int, peers []int, insts, senders, rounds, phases, sigs []uint64, maxStates int) (states int, complete bool) {
	var ops []fop
	for _, i := range insts {
		for _, s := range senders {
			for _, r := range rounds {
				for _, p := range phases {
					for _, g := range sigs {
						t := tup{i, s, r, p, g}
						ops = append(ops, fop{t: t})
						for _, pe := range peers {
							ops = append(ops, fop{recv: true, peer: pe, t: t})
						}
					}
				}
			}
		}
	}
	out.Line("fnew local=%d", local)
	start := f3.VerifNewFilter(pid(local))
	seen := map[string]bool{fdump(start): true}
	queue := []*f3.VerifFilter{start}
	complete = true
	for len(queue) > 0 {
		f := queue[0]
		queue = queue[1:]
		pre := fdump(f)
		for _, o := range ops {
			g := f.Clone()
			res := applyFop(g, o)
			post := fdump(g)
			out.Line("fx %s %s => %s %s", pre, o, res, post)
			if !seen[post] {
				if len(seen) >= maxStates {
					complete = false
					continue
				}
				seen[post] = true
				queue = append(queue, g)
			}
		}
	}
	return len(seen), complete
}

// ---- part (b): the running node -----------------------------------------------------------------

type tracer struct {
	mu    sync.Mutex
	topic string
	cb    func(id string)
}

func (t *tracer) Trace(evt *pubsub_pb.TraceEvent) {
	if evt.GetType() != pubsub_pb.TraceEvent_PUBLISH_MESSAGE {
		return
	}
	pm := evt.GetPublishMessage()
	t.mu.Lock()
	cb, topic := t.cb, t.topic
	t.mu.Unlock()
	if pm == nil || pm.GetTopic() != topic || cb == nil {
		return
	}
	cb(string(pm.GetMessageID()))
}

// hookEC lets the harness hold the certificate handler of host.go at its ec.Finalize call, so that the
// purge and trim that follow it are synchronised with the harness.
type hookEC struct {
	ec.Backend
	req chan gpbft.TipSetKey
	ack chan struct{}
}

func (h *hookEC) Finalize(ctx context.Context, tsk gpbft.TipSetKey) error {
	select {
	case h.req <- tsk:
	case <-ctx.Done():
		return ctx.Err()
	}
	select {
	case <-h.ack:
	case <-ctx.Done():
		return ctx.Err()
	}
	return nil
}

type env struct {
	ctx     context.Context
	clk     *clock.Mock
	h       host.Host
	ps      *pubsub.PubSub
	tr      *tracer
	sign    *signing.FakeBackend
	fec     *consensus.FakeEC
	hook    *hookEC
	mf      manifest.Manifest
	pt      gpbft.PowerEntries
	out     *vh.Out
	rng     *vh.Rng
	root    string
	localID string
}

func newEnv(out *vh.Out, rng *vh.Rng, root string) (*env, error) {
	ctx, clk := clock.WithMockClock(context.Background())
	mn := mocknet.New()
	h, err := mn.GenPeer()
	if err != nil {
		return nil, err
	}
	tr := &tracer{}
	ps, err := pubsub.NewGossipSub(ctx, h, pubsub.WithMessageSignaturePolicy(pubsub.StrictNoSign), pubsub.WithEventTracer(tr))
	if err != nil {
		return nil, err
	}
	m := manifest.LocalDevnetManifest()
	m.NetworkName = "verif-c12"
	m.BootstrapEpoch = 50
	m.InitialInstance = 0
	m.EC.Finality = 40
	m.EC.Period = 10 * time.Second
	m.EC.Finalize = true
	sign := signing.NewFakeBackend()
	var pt gpbft.PowerEntries
	for i := 0; i < 2; i++ {
		pk, _ := sign.GenerateKey()
		pt = append(pt, gpbft.PowerEntry{ID: gpbft.ActorID(i + 1), PubKey: pk, Power: gpbft.NewStoragePower(1000)})
	}
	fec := consensus.NewFakeEC(
		consensus.WithClock(clk),
		consensus.WithSeed(1413),
		consensus.WithBootstrapEpoch(m.BootstrapEpoch),
		consensus.WithMaxLookback(2*m.EC.Finality),
		consensus.WithECPeriod(m.EC.Period),
		consensus.WithInitialPowerTable(pt),
	)
	hook := &hookEC{Backend: fec, req: make(chan gpbft.TipSetKey), ack: make(chan struct{})}
	return &env{ctx: ctx, clk: clk, h: h, ps: ps, tr: tr, sign: sign, fec: fec, hook: hook, mf: m, pt: pt, out: out, rng: rng, root: root}, nil
}

type node struct {
	e        *env
	ds       datastore.Datastore
	disk     string // current disk path
	life     int
	f        *f3.F3
	ids      map[string]tup // message id -> message
	latest   int64          // latest certificate stored (-1: none)
	certKeys map[string]uint64
	purged   uint64
	floor    uint64
	histDir  string
	drainCtx context.CancelFunc
}

func (n *node) walDir() string {
	clean := strings.ReplaceAll(string(n.e.mf.NetworkName), "/", "-")
	clean = strings.ReplaceAll(clean, ".", "")
	return filepath.Join(n.disk, "wal", clean)
}

func (n *node) readWal() []tup {
	ms, err := f3.VerifReadWAL(n.walDir())
	if err != nil {
		return []tup{{i: 999999}}
	}
	ts := make([]tup, len(ms))
	for i, m := range ms {
		ts[i] = tupOf(m)
	}
	return ts
}

// tearWal truncates, in WAL directory b, the file that grew (or appeared) since the snapshot a so that only
// a strict non-empty part of the new bytes remains.
func tearWal(a, b string, rng *vh.Rng) bool {
	ents, err := os.ReadDir(b)
	if err != nil {
		return false
	}
	for _, e := range ents {
		if e.IsDir() {
			continue
		}
		ib, err := e.Info()
		if err != nil {
			continue
		}
		var sa int64
		if ia, err := os.Stat(filepath.Join(a, e.Name())); err == nil {
			sa = ia.Size()
		}
		if grow := ib.Size() - sa; grow >= 2 {
			return os.Truncate(filepath.Join(b, e.Name()), sa+1+int64(rng.Intn(int(grow-1)))) == nil
		}
	}
	return false
}

func copyDir(src, dst string) error {
	return filepath.Walk(src, func(p string, info os.FileInfo, err error) error {
		if err != nil {
			return err
		}
		rel, _ := filepath.Rel(src, p)
		q := filepath.Join(dst, rel)
		if info.IsDir() {
			return os.MkdirAll(q, 0o777)
		}
		in, err := os.Open(p)
		if err != nil {
			return err
		}
		defer in.Close()
		o, err := os.Create(q)
		if err != nil {
			return err
		}
		defer o.Close()
		_, err = io.Copy(o, in)
		return err
	})
}

func (n *node) snapshot(tag string) string {
	dst := filepath.Join(n.histDir, fmt.Sprintf("snap%d-%s", n.life, tag))
	_ = os.RemoveAll(dst)
	_ = os.MkdirAll(dst, 0o777)
	if _, err := os.Stat(n.disk); err == nil {
		if err := copyDir(n.disk, dst); err != nil {
			fmt.Fprintln(os.Stderr, "snapshot:", err)
		}
	}
	return dst
}

func localName(p peer.ID, local peer.ID) string {
	if p == local {
		return "L"
	}
	return "X"
}

func (n *node) stateDump() string {
	cur, seen, active, err := n.f.VerifFilterState()
	if err != nil {
		return "cur=err"
	}
	local := n.e.h.ID()
	d := dump(cur, seen, active, func(p peer.ID) string { return localName(p, local) })
	parts := strings.SplitN(d, "/", 3)
	var self []tup
	for _, m := range n.f.VerifSelfMessages() {
		self = append(self, tupOf(m))
	}
	sort.Slice(self, func(i, j int) bool { return self[i].String() < self[j].String() })
	return fmt.Sprintf("cur=%s seen=%s active=%s self=%s wal=%s", parts[0], parts[1], parts[2], joinT(self), joinT(n.readWal()))
}

// handshake waits for the certificate handler to reach ec.Finalize for instance c, plants the sentinel,
// lets it continue and waits until the purge + trim that follow are done.
func (n *node) handshake(c uint64) bool {
	select {
	case <-n.e.hook.req:
	case <-time.After(60 * time.Second):
		return false
	}
	n.f.VerifPlantSentinel(c)
	select {
	case n.e.hook.ack <- struct{}{}:
	case <-time.After(60 * time.Second):
		return false
	}
	return n.f.VerifAwaitTrim(n.e.ctx, c, 60*time.Second)
}

func (n *node) start(kind string) {
	e := n.e
	n.life++
	var err error
	n.f, err = f3.New(e.ctx, e.mf, n.ds, e.h, e.ps, e.sign, e.hook, n.disk)
	if err == nil {
		err = n.f.Start(e.ctx)
	}
	if err != nil {
		e.out.Line("start kind=%s cert=- => err %s", kind, strings.ReplaceAll(err.Error(), " ", "_"))
		n.f = nil
		return
	}
	dctx, cancel := context.WithCancel(e.ctx)
	n.drainCtx = cancel
	go func(ch <-chan *gpbft.MessageBuilder) {
		for {
			select {
			case <-ch:
			case <-dctx.Done():
				return
			}
		}
	}(n.f.MessagesToSign())
	e.tr.mu.Lock()
	e.tr.topic = n.f.VerifTopic()
	e.tr.mu.Unlock()
	cert := "-"
	if n.latest >= 0 {
		// the certificate subscription delivers the latest certificate right away
		cert = fmt.Sprint(n.latest)
		if !n.handshake(uint64(n.latest)) {
			e.out.Line("start kind=%s cert=%s => err handshake", kind, cert)
			return
		}
		if n.latest > 5 && uint64(n.latest)-5 > n.purged {
			n.purged = uint64(n.latest) - 5
		}
	}
	e.out.Line("start kind=%s cert=%s => %s", kind, cert, n.stateDump())
}

func (n *node) stop() {
	if n.f == nil {
		return
	}
	n.e.tr.mu.Lock()
	n.e.tr.cb = nil
	n.e.tr.mu.Unlock()
	if n.drainCtx != nil {
		n.drainCtx()
	}
	sctx, cancel := context.WithTimeout(context.Background(), 20*time.Second)
	defer cancel()
	if err := n.f.Stop(sctx); err != nil {
		fmt.Fprintln(os.Stderr, "stop:", err)
	}
	n.f = nil
}

type pubRec struct {
	t     tup
	known bool
	inwal bool
}

func fmtPubs(ps []pubRec) string {
	if len(ps) == 0 {
		return "-"
	}
	parts := make([]string, len(ps))
	for i, p := range ps {
		w := 0
		if p.inwal {
			w = 1
		}
		if !p.known {
			parts[i] = "unknown:0"
		} else {
			parts[i] = fmt.Sprintf("%s:%d", p.t, w)
		}
	}
	return strings.Join(parts, ",")
}

// observe runs fn with the publish callback armed; onFirst (if not nil) is called inside the first
// publish callback (the crash point between WAL append and publish).
func (n *node) observe(fn func(), onFirst func()) []pubRec {
	var pubs []pubRec
	first := true
	n.e.tr.mu.Lock()
	n.e.tr.cb = func(id string) {
		t, ok := n.ids[id]
		rec := pubRec{t: t, known: ok}
		if ok {
			for _, w := range n.readWal() {
				if w == t {
					rec.inwal = true
				}
			}
		}
		pubs = append(pubs, rec)
		if first && onFirst != nil {
			onFirst()
		}
		first = false
	}
	n.e.tr.mu.Unlock()
	func() {
		defer func() {
			if r := recover(); r != nil {
				fmt.Fprintln(os.Stderr, "panic in op:", r)
				pubs = append(pubs, pubRec{})
			}
		}()
		fn()
	}()
	n.e.tr.mu.Lock()
	n.e.tr.cb = nil
	n.e.tr.mu.Unlock()
	return pubs
}

func (n *node) register(t tup) *gpbft.GMessage {
	m := mkMsg(t)
	if id, err := n.f.VerifMessageID(m); err == nil {
		n.ids[id] = t
	} else {
		fmt.Fprintln(os.Stderr, "message id:", err)
	}
	return m
}

func (n *node) broadcast(t tup, onFirst func()) []pubRec {
	m := n.register(t)
	sb := &gpbft.SignatureBuilder{NetworkName: n.e.mf.NetworkName, ParticipantID: m.Sender, Payload: m.Vote}
	return n.observe(func() { n.f.Broadcast(n.e.ctx, sb, m.Signature, nil) }, onFirst)
}

func (n *node) putCert(c uint64) error {
	cs, err := n.f.GetCertStore()
	if err != nil {
		return err
	}
	pt, err := cs.GetPowerTable(n.e.ctx, c)
	if err != nil {
		return err
	}
	ptc, err := certs.MakePowerTableCID(pt)
	if err != nil {
		return err
	}
	mk := func(epoch int64) (*gpbft.TipSet, error) {
		ts, err := n.e.fec.GetTipsetByEpoch(n.e.ctx, epoch)
		if err != nil {
			return nil, err
		}
		return &gpbft.TipSet{Epoch: ts.Epoch(), Key: ts.Key(), PowerTable: ptc}, nil
	}
	// tipsets that exist in the fake EC whatever the instance number (the head is at the bootstrap epoch)
	e0 := n.e.mf.BootstrapEpoch - n.e.mf.EC.Finality + int64(c%30)
	base, err := mk(e0)
	if err != nil {
		return err
	}
	head, err := mk(e0 + 1)
	if err != nil {
		return err
	}
	chain := &gpbft.ECChain{TipSets: []*gpbft.TipSet{base}}
	if head.Epoch > base.Epoch {
		chain.TipSets = append(chain.TipSets, head)
	}
	cert := &certs.FinalityCertificate{
		GPBFTInstance:    c,
		ECChain:          chain,
		SupplementalData: gpbft.SupplementalData{PowerTable: ptc},
		Signers:          bitfield.NewFromSet([]uint64{0, 1}),
		Signature:        fill(c, 96),
	}
	return cs.Put(n.e.ctx, cert)
}

// cert stores certificates latest+1 .. c one at a time, synchronising with the handler each time.
func (n *node) cert(c uint64) {
	for x := uint64(n.latest + 1); x <= c; x++ {
		if err := n.putCert(x); err != nil {
			n.e.out.Line("cert %d => err put_%d_%s", c, x, strings.ReplaceAll(err.Error(), " ", "_"))
			return
		}
		n.latest = int64(x)
		if !n.handshake(x) {
			n.e.out.Line("cert %d => err handshake_%d", c, x)
			return
		}
		if x > 5 && x-5 > n.purged {
			n.purged = x - 5
		}
	}
	var self []tup
	for _, m := range n.f.VerifSelfMessages() {
		self = append(self, tupOf(m))
	}
	sort.Slice(self, func(i, j int) bool { return self[i].String() < self[j].String() })
	n.e.out.Line("cert %d => wal=%s self=%s", c, joinT(n.readWal()), joinT(self))
}

func runNodeHistory(e *env, idx int, steps int) {
	out, rng := e.out, e.rng
	histDir := filepath.Join(e.root, fmt.Sprintf("e%d", idx))
	_ = os.MkdirAll(histDir, 0o777)
	defer os.RemoveAll(histDir)
	n := &node{e: e, ds: ds_sync.MutexWrap(datastore.NewMapDatastore()), disk: filepath.Join(histDir, "disk0"),
		ids: map[string]tup{}, latest: -1, histDir: histDir}
	out.Line("ehist %d", idx)
	n.start("fresh")
	if n.f == nil {
		return
	}
	defer n.stop()

	cur := uint64(0)
	variant := uint64(1) // which EC head the node currently sees (determines the signature of new votes)
	type slotK struct{ i, s, r, p uint64 }
	used := map[slotK][]uint64{}
	var usedList []slotK
	bigWal := rng.Chance(1, 6) // long same-instance traffic

	pickSlot := func() slotK {
		i := cur
		switch rng.Intn(12) {
		case 0:
			if i > n.floor {
				i--
			}
		case 1:
			if i >= n.floor+2 {
				i -= 2
			}
		case 2:
			i++
		}
		return slotK{i, uint64(1 + rng.Intn(2)), uint64(rng.Intn(3)), uint64(1 + rng.Intn(5))}
	}

	restart := func(kind string, disk string) {
		n.stop()
		n.disk = disk
		n.floor = n.purged
		if cur < n.floor {
			cur = n.floor
		}
		if rng.Chance(2, 3) {
			variant++ // the node re-enters the instance with a different EC head
		}
		n.start(kind)
	}

	for k := 0; k < steps && n.f != nil; k++ {
		r := rng.Intn(100)
		switch {
		case r < 55 || (bigWal && r < 80):
			var sl slotK
			var sig uint64
			reuse := len(usedList) > 0 && rng.Chance(1, 2)
			if reuse {
				sl = usedList[rng.Intn(len(usedList))]
				if sl.i < n.floor {
					sl = pickSlot()
				}
			} else {
				sl = pickSlot()
			}
			if sl.i > cur {
				cur = sl.i
			}
			sig = 10*variant + uint64(rng.Intn(2))
			if sigs := used[sl]; len(sigs) > 0 && rng.Chance(1, 3) {
				sig = sigs[rng.Intn(len(sigs))] // exact duplicate of an earlier request
			}
			t := tup{sl.i, sl.s, sl.r, sl.p, sig}
			if _, ok := used[sl]; !ok {
				usedList = append(usedList, sl)
			}
			used[sl] = append(used[sl], sig)
			crash := "0"
			if rng.Chance(1, 7) {
				crash = []string{"A", "B", "B", "T", "T"}[rng.Intn(5)]
			}
			if crash == "T" {
				// the process dies in the middle of the WAL append: only part of the record reached the file
				snapA := n.snapshot("A")
				var snapB string
				_ = n.broadcast(t, func() { snapB = n.snapshot("T") })
				keep := n.disk
				if snapB != "" {
					n.disk = snapA
					wa := n.walDir()
					n.disk = snapB
					wb := n.walDir()
					n.disk = keep
					if !tearWal(wa, wb, rng) {
						snapB = ""
					}
				}
				if snapB != "" {
					n.disk = snapB
					wal := n.readWal()
					n.disk = keep
					out.Line("bc %s crash=T => pub=- wal=%s", strings.ReplaceAll(t.String(), ".", " "), joinT(wal))
					restart("crashT", snapB)
					continue
				}
				// nothing was appended (the filter refused): an ordinary crash before the record, from the
				// state before the request
				out.Line("bc %s crash=A => pub=- wal=%s", strings.ReplaceAll(t.String(), ".", " "), func() string {
					n.disk = snapA
					defer func() { n.disk = keep }()
					return joinT(n.readWal())
				}())
				restart("crashA", snapA)
				continue
			}
			switch crash {
			case "A":
				snap := n.snapshot("A")
				out.Line("bc %s crash=A => pub=- wal=%s", strings.ReplaceAll(t.String(), ".", " "), joinT(n.readWal()))
				restart("crashA", snap)
			case "B":
				var snap string
				pubs := n.broadcast(t, func() { snap = n.snapshot("B") })
				if snap == "" {
					snap = n.snapshot("C")
					crash = "C"
				}
				// the WAL as the crashed process left it
				keep := n.disk
				n.disk = snap
				wal := n.readWal()
				n.disk = keep
				out.Line("bc %s crash=%s => pub=%s wal=%s", strings.ReplaceAll(t.String(), ".", " "), crash, fmtPubs(pubs), joinT(wal))
				restart("crash"+crash, snap)
			default:
				pubs := n.broadcast(t, nil)
				out.Line("bc %s crash=0 => pub=%s wal=%s", strings.ReplaceAll(t.String(), ".", " "), fmtPubs(pubs), joinT(n.readWal()))
			}
		case r < 72:
			if len(usedList) == 0 {
				continue
			}
			sl := usedList[rng.Intn(len(usedList))]
			if rng.Chance(2, 3) {
				// the instant the participant is at
				sl.i = cur
			}
			if sl.i < n.floor {
				continue
			}
			pubs := n.observe(func() {
				_ = n.f.VerifRebroadcast(gpbft.Instant{ID: sl.i, Round: sl.r, Phase: gpbft.Phase(sl.p)})
			}, nil)
			out.Line("rb %d %d %d => pub=%s", sl.i, sl.r, sl.p, fmtPubs(pubs))
		case r < 82:
			// a certificate arrives: usually for the current instance, sometimes several ahead
			c := cur
			if rng.Chance(1, 4) {
				c = cur + uint64(1+rng.Intn(8))
			}
			if int64(c) <= n.latest {
				continue
			}
			if c > uint64(n.latest)+12 && n.latest >= 0 {
				c = uint64(n.latest) + 12
			}
			n.cert(c)
			if cur < c+1 {
				cur = c + 1
			}
		case r < 92:
			out.Line("stop")
			restart("graceful", n.disk)
		default:
			// crash between two operations
			snap := n.snapshot("X")
			out.Line("stop")
			restart("crashX", snap)
		}
	}
}

func main() {
	_ = logging.SetLogLevel("*", "fatal")
	out := vh.NewOut()
	defer out.Flush()
	rng := vh.NewRng(vh.Seed())
	thorough := vh.Thorough()
	mode := os.Getenv("VERIF_EQUIV_MODE") // "", "filter", "node"

	if mode == "" || mode == "filter" {
		filterSequences(out, rng.Fork(1), map[bool]int{false: 300, true: 6000}[thorough])
		// complete state spaces for small alphabets
		st, ok := filterSpace(out, 2, []int{1, 3}, []uint64{0, 1}, []uint64{1}, []uint64{0}, []uint64{1, 3}, []uint64{1, 2}, 1<<20)
		out.Line("# filterSpace A states=%d complete=%v", st, ok)
		if thorough {
			st, ok = filterSpace(out, 2, []int{1, 3}, []uint64{0, 1, 2}, []uint64{1}, []uint64{0, 1}, []uint64{1, 3}, []uint64{1, 2}, 1<<20)
			out.Line("# filterSpace B states=%d complete=%v", st, ok)
			st, ok = filterSpace(out, 1, []int{2}, []uint64{1, 2}, []uint64{1, 2}, []uint64{0}, []uint64{1, 3}, []uint64{1, 2, 3}, 1<<20)
			out.Line("# filterSpace C states=%d complete=%v", st, ok)
		}
	}
	if mode == "" || mode == "node" {
		cwd, _ := os.Getwd()
		root, err := os.MkdirTemp(cwd, "h_equiv-")
		if err != nil {
			fmt.Fprintln(os.Stderr, "mkdtemp:", err)
			os.Exit(2)
		}
		defer os.RemoveAll(root)
		e, err := newEnv(out, rng.Fork(2), root)
		if err != nil {
			fmt.Fprintln(os.Stderr, "env:", err)
			os.RemoveAll(root)
			os.Exit(2)
		}
		out.Line("ecfg own=1,2")
		nh := vh.EnvInt("VERIF_EQUIV_HISTORIES", map[bool]int{false: 80, true: 800}[thorough])
		for i := 1; i <= nh; i++ {
			runNodeHistory(e, i, 25+e.rng.Intn(50))
			out.Flush()
		}
	}
}
