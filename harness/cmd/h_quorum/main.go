// h_quorum drives the real quorum predicates and power scaling (C08).
package main

import (
	"math/big"

	"github.com/filecoin-project/go-f3/gpbft"
	"github.com/filecoin-project/go-f3/internal/verifh/lib/vh"
)

func main() {
	out := vh.NewOut()
	defer out.Flush()
	rng := vh.NewRng(vh.Seed())
	thorough := vh.Thorough()

	// 1. complete rows: for every total w in the power domain scan every p.
	step := 1
	if !thorough {
		step = 1 // rows are cheap: 65536 rows x 65536 p = 4.3e9 evaluations thorough; quick scans a band
	}
	for w := int64(0); w <= 65535; w += int64(step) {
		lo, hi := int64(0), int64(65535)
		if !thorough {
			// quick: band of +-24 around both thresholds and the ends
			scanRowBand(out, w)
			continue
		}
		thr, mono := int64(-1), true
		for p := lo; p <= hi; p++ {
			b := gpbft.IsStrongQuorum(p, w)
			if b && thr < 0 {
				thr = p
			}
			if !b && thr >= 0 {
				mono = false
			}
		}
		out.Line("sqrow %d %d %v", w, thr, mono)
		thr, mono = -1, true
		for p := lo; p <= hi+2; p++ {
			b := gpbft.VerifHasWeakQuorum(p, w)
			if b && thr < 0 {
				thr = p
			}
			if !b && thr >= 0 {
				mono = false
			}
		}
		out.Line("wqrow %d %d %v", w, thr, mono)
	}

	// 2. couldReach on the power domain
	n := 20000
	if thorough {
		n = 400000
	}
	for i := 0; i < n; i++ {
		w := int64(rng.Intn(65536))
		if rng.Chance(1, 4) {
			w = int64(rng.Intn(40))
		}
		voted := int64(rng.Intn(int(w) + 1))
		support := int64(rng.Intn(int(voted) + 1))
		if rng.Chance(1, 3) {
			// near the boundary: support + unvoted close to 2w/3
			t := (2*w + 2) / 3
			voted = w - int64(rng.Intn(int(w/3)+1))
			support = t - (w - voted) + int64(rng.Intn(5)) - 2
			if support < 0 {
				support = 0
			}
			if support > voted {
				support = voted
			}
		}
		adv := rng.Bool()
		if rng.Chance(1, 5) {
			support = 0 // a value without any vote so far: mostly without an entry in the tally
		}
		out.Line("cr %v %d %d %d %v", adv, w, voted, support, gpbft.VerifCouldReach(adv, w, voted, support, rng.Chance(1, 3)))
	}

	// 3. int64 samples away from the power domain (non-negative totals below 2^61)
	for i := 0; i < n/4; i++ {
		w := int64(rng.U64() >> (3 + uint(rng.Intn(50))))
		p := int64(rng.U64() >> (3 + uint(rng.Intn(50))))
		if rng.Chance(1, 2) {
			p = (2*w+2)/3 + int64(rng.Intn(5)) - 2
		}
		out.Line("sq %d %d %v", p, w, gpbft.IsStrongQuorum(p, w))
		out.Line("wq %d %d %v", p, w, gpbft.VerifHasWeakQuorum(p, w))
	}

	// 3b. tables of a few very large int64-sized powers (total < 2^63)
	for i := 0; i < 200; i++ {
		k := 2 + rng.Intn(6)
		entries := make(gpbft.PowerEntries, k)
		strs := make([]string, k)
		for j := range entries {
			pw := new(big.Int).Lsh(big.NewInt(int64(1+rng.Intn(3))), uint(46+rng.Intn(13)))
			if rng.Chance(1, 3) {
				pw = big.NewInt(int64(1 + rng.Intn(1000)))
			}
			entries[j] = gpbft.PowerEntry{ID: gpbft.ActorID(j + 1), Power: gpbft.StoragePower{Int: pw}, PubKey: gpbft.PubKey{1}}
			strs[j] = pw.String()
		}
		sc, tot, err := entries.Scaled()
		if err != nil {
			out.Line("scaled %s => err", join(strs))
		} else {
			out.Line("scaled %s => %s %d", join(strs), vh.JoinInts(sc), tot)
		}
		// the same table through PowerTable.Add (rescale path)
		pt := gpbft.NewPowerTable()
		if err := pt.Add(entries...); err == nil {
			ordered := make([]string, len(pt.Entries))
			for j, e := range pt.Entries {
				ordered[j] = e.Power.String()
			}
			out.Line("scaled %s => %s %d", join(ordered), vh.JoinInts(pt.ScaledPower), pt.ScaledTotal)
			// a copy that grows must leave the table it was copied from alone (Copy is the only way callers get a
			// table they may extend): same line again for the original after Copy + Add on the copy
			cp := pt.Copy()
			extra := make(gpbft.PowerEntries, 1+rng.Intn(3))
			for j := range extra {
				ep := big.NewInt(int64(1 + rng.Intn(1_000_000)))
				if rng.Chance(1, 2) {
					// a member that outweighs the existing ones
					ep = new(big.Int).Lsh(big.NewInt(int64(1+rng.Intn(7))), uint(58+rng.Intn(6)))
				}
				extra[j] = gpbft.PowerEntry{ID: gpbft.ActorID(1000 + j), Power: gpbft.StoragePower{Int: ep}, PubKey: gpbft.PubKey{1}}
			}
			if err := cp.Add(extra...); err == nil {
				out.Line("scaled %s => %s %d", join(ordered), vh.JoinInts(pt.ScaledPower), pt.ScaledTotal)
				co := make([]string, len(cp.Entries))
				for j, e := range cp.Entries {
					co[j] = e.Power.String()
				}
				out.Line("scaled %s => %s %d", join(co), vh.JoinInts(cp.ScaledPower), cp.ScaledTotal)
			}
		}
	}

	// 4. scaling of random big-integer tables
	m := 300
	if thorough {
		m = 5000
	}
	for i := 0; i < m; i++ {
		k := 1 + rng.Intn(12)
		if rng.Chance(1, 10) {
			k = 200 + rng.Intn(300)
		}
		if thorough && rng.Chance(1, 200) {
			k = 66000 + rng.Intn(3000) // more members than scaled units
		}
		entries := make(gpbft.PowerEntries, k)
		strs := make([]string, k)
		for j := range entries {
			var pw *big.Int
			switch rng.Intn(7) {
			case 6: // large but int64-sized: 65535*power overflows int64 while the total still fits
				pw = new(big.Int).Lsh(big.NewInt(int64(1+rng.Intn(7))), uint(44+rng.Intn(15)))
			case 0: // dust
				pw = big.NewInt(int64(1 + rng.Intn(3)))
			case 1: // huge
				pw = new(big.Int).Lsh(big.NewInt(int64(1+rng.Intn(1000))), uint(60+rng.Intn(80)))
			case 2: // non-positive (rejected)
				if rng.Chance(1, 8) {
					pw = big.NewInt(-int64(rng.Intn(3)))
				} else {
					pw = big.NewInt(int64(1 + rng.Intn(1000)))
				}
			default:
				pw = big.NewInt(int64(1 + rng.Intn(1_000_000)))
			}
			entries[j] = gpbft.PowerEntry{ID: gpbft.ActorID(j + 1), Power: gpbft.StoragePower{Int: pw}, PubKey: gpbft.PubKey{1}}
			strs[j] = pw.String()
		}
		sc, tot, err := entries.Scaled()
		ps := join(strs)
		if err != nil {
			out.Line("scaled %s => err", ps)
		} else {
			out.Line("scaled %s => %s %d", ps, vh.JoinInts(sc), tot)
		}
	}
}

func join(s []string) string {
	r := ""
	for i, x := range s {
		if i > 0 {
			r += ","
		}
		r += x
	}
	return r
}

func scanRowBand(out *vh.Out, w int64) {
	for _, c := range []int64{0, (2*w + 2) / 3, w/3 + 1, w, 65535} {
		for d := int64(-3); d <= 3; d++ {
			p := c + d
			if p < 0 || p > 65537 {
				continue
			}
			out.Line("sq %d %d %v", p, w, gpbft.IsStrongQuorum(p, w))
			out.Line("wq %d %d %v", p, w, gpbft.VerifHasWeakQuorum(p, w))
		}
	}
}
