// h_certx drives certificate exchange and polling (C16) over libp2p mocknet:
//
//	(i)   an honest certexchange.Server over generated certificate stores, observed with a RAW stream
//	      reader that speaks the protocol directly and decodes / counts what is on the wire;
//	(ii)  the real certexchange.Client against the same server;
//	(iii) a Byzantine responder implemented here (forged, reordered, duplicated, truncated, oversized
//	      streams, wrong pending instances) feeding the real Client and the real polling.Poller over a
//	      real certstore on an in-memory datastore.
//
// Lines (values as in lean/F3/Model/CertsParse.lean):
//
//	net <id>                                        network id used by the pollers' validation
//	cid <id> <table> / cert <id> <cert>             dictionaries
//	store <sid> <first> <init table> <certids>      a server store
//	wire <sid> <first> <limit> <pt> => <hdr> <certids> <bytesEqualStored>
//	client <sid> <first> <limit> <pt> => <hdr> <certids>
//	byz <first> <limit> <pt> <resp> => <hdr> <certids>
//	pnew <pid> <first> <init> <certids> => ok <next> <table> | err
//	pput <pid> <certid> => ok | err
//	poll <pid> script <resp~resp…> => <status> <received> <new> <internalErr> <next> <table> <storecertids>
//	poll <pid> server <sid> => …same…
//
// hdr = reset | err | <pending>/<table|nil>;  resp = F | <pending>@<items>;  item = c<certid> | x
package main

import (
	"bytes"
	"context"
	"fmt"
	"io"
	"runtime"
	"strings"
	"sync"
	"time"

	"github.com/filecoin-project/go-f3/certexchange"
	"github.com/filecoin-project/go-f3/certexchange/polling"
	"github.com/filecoin-project/go-f3/certs"
	"github.com/filecoin-project/go-f3/certstore"
	"github.com/filecoin-project/go-f3/gpbft"
	"github.com/filecoin-project/go-f3/internal/verifh/lib/certgen"
	"github.com/filecoin-project/go-f3/internal/verifh/lib/vh"
	gbig "github.com/filecoin-project/go-state-types/big"
	"github.com/ipfs/go-datastore"
	ds_sync "github.com/ipfs/go-datastore/sync"
	"github.com/libp2p/go-libp2p/core/host"
	"github.com/libp2p/go-libp2p/core/network"
	mocknetwork "github.com/libp2p/go-libp2p/p2p/net/mock"
)

const nn gpbft.NetworkName = "vnet-a"

var (
	g   *certgen.Gen
	out *vh.Out
	rng *vh.Rng
	ctx = context.Background()

	srvHost, cliHost, byzHost host.Host
	client                    certexchange.Client
	byz                       = &byzResponder{}
	sidCounter, pidCounter    int
)

// ------------------------------------------------------------------------------------------------
// server stores

type srvStore struct {
	sid   int
	first uint64
	hist  *certgen.History
	n     int // certificates stored: hist.Certs[:n]
	ds    datastore.Datastore
	cs    *certstore.Store
}

func newStore(h *certgen.History, n int) (*srvStore, error) {
	ds := ds_sync.MutexWrap(datastore.NewMapDatastore())
	cs, err := certstore.CreateStore(ctx, ds, h.First, h.Tables[0])
	if err != nil {
		return nil, err
	}
	for i := 0; i < n; i++ {
		if err := cs.Put(ctx, h.Certs[i]); err != nil {
			return nil, fmt.Errorf("put %d: %w", i, err)
		}
	}
	return &srvStore{first: h.First, hist: h, n: n, ds: ds, cs: cs}, nil
}

func (s *srvStore) announce() {
	sidCounter++
	s.sid = sidCounter
	out.Line("store %d %d %s %s", s.sid, s.first, g.TableText(s.hist.Tables[0]), g.CertIDs(s.hist.Certs[:s.n]))
}

func (s *srvStore) storedBytes(inst uint64) []byte {
	b, err := s.ds.Get(ctx, datastore.NewKey(fmt.Sprintf("/certstore/certs/%016X", inst)))
	if err != nil {
		return nil
	}
	return b
}

func withServer(s *srvStore, f func()) {
	srv := &certexchange.Server{NetworkName: nn, Host: srvHost, Store: s.cs, RequestTimeout: 20 * time.Second}
	if err := srv.Start(ctx); err != nil {
		panic(err)
	}
	defer func() { _ = srv.Stop(ctx) }()
	f()
}

func hdrText(h *certexchange.ResponseHeader) string {
	pt := "nil"
	if len(h.PowerTable) > 0 {
		pt = g.TableText(h.PowerTable)
	}
	return fmt.Sprintf("%d/%s", h.PendingInstance, pt)
}

func b01(b bool) int {
	if b {
		return 1
	}
	return 0
}

// rawRequest speaks the protocol directly: one request, then everything the server put on the wire.
func rawRequest(s *srvStore, req certexchange.Request) {
	line := fmt.Sprintf("wire %d %d %d %d =>", s.sid, req.FirstInstance, req.Limit, b01(req.IncludePowerTable))
	cctx, cancel := context.WithTimeout(ctx, 30*time.Second)
	defer cancel()
	stream, err := cliHost.NewStream(cctx, srvHost.ID(), certexchange.FetchProtocolName(nn))
	if err != nil {
		out.Line("%s reset - true", line)
		return
	}
	defer func() { _ = stream.Reset() }()
	var buf bytes.Buffer
	_ = req.MarshalCBOR(&buf)
	if _, err := stream.Write(buf.Bytes()); err != nil {
		out.Line("%s reset - true", line)
		return
	}
	_ = stream.CloseWrite()
	data, _ := io.ReadAll(io.LimitReader(stream, 256<<20))
	r := bytes.NewReader(data)
	var hdr certexchange.ResponseHeader
	if err := hdr.UnmarshalCBOR(r); err != nil {
		out.Line("%s reset - true", line)
		return
	}
	var got []*certs.FinalityCertificate
	bytesOK := true
	for r.Len() > 0 {
		start := len(data) - r.Len()
		c := new(certs.FinalityCertificate)
		if err := c.UnmarshalCBOR(r); err != nil {
			bytesOK = false // trailing bytes that are not a certificate
			break
		}
		end := len(data) - r.Len()
		if !bytes.Equal(data[start:end], s.storedBytes(c.GPBFTInstance)) {
			bytesOK = false
		}
		got = append(got, c)
	}
	out.Line("%s %s %s %v", line, hdrText(&hdr), g.CertIDs(got), bytesOK)
}

// concurrentServe: an honest server whose store is being appended to by another goroutine while
// requests are read raw off the wire. The response must be in sequence from `first`, within the
// limit and strictly below the pending instance advertised in ITS OWN header, whatever the timing.
func concurrentServe(n int) {
	h := history(uint64(rng.Intn(50)), n, 30)
	s, err := newStore(h, 5)
	if err != nil {
		panic(err)
	}
	withServer(s, func() {
		// one Put per request, fired at a random point inside the request's time window
		avg := 300 * time.Microsecond
		for i := 5; i < n; i++ {
			delay := time.Duration(rng.Intn(int(avg) + 1))
			done := make(chan struct{})
			go func(c *certs.FinalityCertificate) {
				defer close(done)
				for t0 := time.Now(); time.Since(t0) < delay; {
					runtime.Gosched()
				}
				if err := s.cs.Put(ctx, c); err != nil {
					panic(err)
				}
			}(h.Certs[i])
			latest := h.First + uint64(i) - 1
			first := latest - uint64(rng.Intn(4))
			if first < h.First {
				first = h.First
			}
			limit := []uint64{1, 2, 3, 5, 256, 1000, ^uint64(0)}[rng.Intn(7)]
			req := certexchange.Request{FirstInstance: first, Limit: limit, IncludePowerTable: rng.Chance(2, 3)}
			t0 := time.Now()
			rawConcurrent(s, h, req)
			avg = (avg*7 + time.Since(t0)) / 8
			<-done
		}
	})
}

func rawConcurrent(s *srvStore, h *certgen.History, req certexchange.Request) {
	line := fmt.Sprintf("wirec %d %d %d =>", req.FirstInstance, req.Limit, b01(req.IncludePowerTable))
	cctx, cancel := context.WithTimeout(ctx, 30*time.Second)
	defer cancel()
	stream, err := cliHost.NewStream(cctx, srvHost.ID(), certexchange.FetchProtocolName(nn))
	if err != nil {
		return
	}
	defer func() { _ = stream.Reset() }()
	var buf bytes.Buffer
	_ = req.MarshalCBOR(&buf)
	if _, err := stream.Write(buf.Bytes()); err != nil {
		return
	}
	_ = stream.CloseWrite()
	data, _ := io.ReadAll(io.LimitReader(stream, 256<<20))
	r := bytes.NewReader(data)
	var hdr certexchange.ResponseHeader
	if err := hdr.UnmarshalCBOR(r); err != nil {
		out.Line("%s reset - true true", line)
		return
	}
	var got []*certs.FinalityCertificate
	bytesOK, ptOK := true, true
	for r.Len() > 0 {
		start := len(data) - r.Len()
		c := new(certs.FinalityCertificate)
		if err := c.UnmarshalCBOR(r); err != nil {
			bytesOK = false
			break
		}
		end := len(data) - r.Len()
		if !bytes.Equal(data[start:end], s.storedBytes(c.GPBFTInstance)) {
			bytesOK = false
		}
		got = append(got, c)
	}
	if req.IncludePowerTable && hdr.PendingInstance >= req.FirstInstance {
		idx := int(req.FirstInstance - h.First)
		if idx < 0 || idx >= len(h.Tables) || !certgen.SameTable(hdr.PowerTable, h.Tables[idx]) {
			ptOK = false
		}
	} else if len(hdr.PowerTable) != 0 {
		ptOK = false
	}
	out.Line("%s %d %s %v %v", line, hdr.PendingInstance, g.CertIDs(got), bytesOK, ptOK)
}

func drain(ch <-chan *certs.FinalityCertificate) []*certs.FinalityCertificate {
	var got []*certs.FinalityCertificate
	timeout := time.After(60 * time.Second)
	for {
		select {
		case c, ok := <-ch:
			if !ok {
				return got
			}
			got = append(got, c)
		case <-timeout:
			panic("client channel never closed")
		}
	}
}

func clientRequest(s *srvStore, req certexchange.Request) {
	line := fmt.Sprintf("client %d %d %d %d =>", s.sid, req.FirstInstance, req.Limit, b01(req.IncludePowerTable))
	hdr, ch, err := client.Request(ctx, srvHost.ID(), &req)
	if err != nil {
		out.Line("%s err -", line)
		return
	}
	got := drain(ch)
	out.Line("%s %s %s", line, hdrText(hdr), g.CertIDs(got))
}

func boundaryRequests(s *srvStore) (firsts, limits []uint64) {
	max := ^uint64(0)
	pending := uint64(0)
	if s.n > 0 {
		pending = s.first + uint64(s.n)
	}
	add := func(l *[]uint64, v uint64) {
		for _, x := range *l {
			if x == v {
				return
			}
		}
		*l = append(*l, v)
	}
	for _, v := range []uint64{0, 1, s.first - 1, s.first, s.first + 1, s.first + uint64(s.n)/2, pending - 2, pending - 1, pending, pending + 1,
		pending + 2, max, max - 1, max - 255, max - 256, pending - 256, pending - 257, s.first + uint64(rng.Intn(s.n+1))} {
		add(&firsts, v)
	}
	for _, v := range []uint64{0, 1, 2, 3, 255, 256, 257, 1000, max, max - 1, 1 << 63, uint64(s.n), uint64(s.n) + 1, uint64(s.n) - 1, uint64(1 + rng.Intn(40))} {
		add(&limits, v)
	}
	return
}

func serveCases(s *srvStore, full bool) {
	firsts, limits := boundaryRequests(s)
	withServer(s, func() {
		for _, f := range firsts {
			for _, l := range limits {
				if !full && !rng.Chance(1, 3) {
					continue
				}
				pt := rng.Bool()
				req := certexchange.Request{FirstInstance: f, Limit: l, IncludePowerTable: pt}
				rawRequest(s, req)
				clientRequest(s, req)
				if rng.Chance(1, 4) {
					req.IncludePowerTable = !pt
					rawRequest(s, req)
				}
			}
		}
		// limit chosen to end exactly at / one short of / one past the pending instance
		for k := 0; k < 12; k++ {
			if s.n == 0 {
				break
			}
			f := s.first + uint64(rng.Intn(s.n))
			rem := s.first + uint64(s.n) - f
			for _, l := range []uint64{rem - 1, rem, rem + 1} {
				req := certexchange.Request{FirstInstance: f, Limit: l, IncludePowerTable: rng.Chance(1, 4)}
				rawRequest(s, req)
				clientRequest(s, req)
			}
		}
	})
}

// ------------------------------------------------------------------------------------------------
// Byzantine responder

type bItem struct {
	kind byte // 'c' certificate, 'x' garbage, 'o' oversized certificate, 't' truncated certificate
	cert *certs.FinalityCertificate
}

type bResp struct {
	fail    int // 0 no; 1 reset before header; 2 undecodable header; 3 close without header
	pending uint64
	pt      gpbft.PowerEntries
	items   []bItem
	// hold: when set, the responder sends the header, then waits for this channel before it sends the certificates
	hold chan struct{}
}

type byzResponder struct {
	mu     sync.Mutex
	script []bResp
	n      int
	reqs   []certexchange.Request
	// onFirst runs when the first request of a script arrives, i.e. after the poller's CatchUp and before it
	// reads the response: certificates reaching its store through another channel in that window
	onFirst func()
}

func (b *byzResponder) set(script []bResp) {
	b.mu.Lock()
	b.script, b.n, b.reqs, b.onFirst = script, 0, nil, nil
	b.mu.Unlock()
}

func (b *byzResponder) handle(stream network.Stream) {
	var req certexchange.Request
	if err := req.UnmarshalCBOR(stream); err != nil {
		_ = stream.Reset()
		return
	}
	b.mu.Lock()
	idx := b.n
	b.n++
	b.reqs = append(b.reqs, req)
	var resp bResp
	ok := idx < len(b.script)
	if ok {
		resp = b.script[idx]
	}
	hook := b.onFirst
	b.mu.Unlock()
	if idx == 0 && hook != nil {
		hook()
	}
	if !ok || resp.fail == 1 {
		_ = stream.Reset()
		return
	}
	if resp.fail == 2 {
		_, _ = stream.Write([]byte{0xff, 0xff, 0xff, 0xff})
		_ = stream.Close()
		return
	}
	if resp.fail == 3 {
		_ = stream.Close()
		return
	}
	var buf bytes.Buffer
	hdr := certexchange.ResponseHeader{PendingInstance: resp.pending, PowerTable: resp.pt}
	_ = hdr.MarshalCBOR(&buf)
	if resp.hold != nil {
		if _, err := stream.Write(buf.Bytes()); err != nil {
			_ = stream.Reset()
			return
		}
		buf.Reset()
		select {
		case <-resp.hold:
		case <-time.After(20 * time.Second):
		}
	}
	for _, it := range resp.items {
		switch it.kind {
		case 'c':
			_ = it.cert.MarshalCBOR(&buf)
		case 'x':
			buf.Write([]byte{0xff, 0x00, 0xfe, 0x01, 0xff})
		case 'o':
			c := *it.cert
			c.Signature = make([]byte, 1200*1024) // encodable (limit 2 MiB) but above the client's 1 MiB per certificate
			_ = c.MarshalCBOR(&buf)
		case 't':
			var one bytes.Buffer
			_ = it.cert.MarshalCBOR(&one)
			buf.Write(one.Bytes()[:one.Len()/2])
		}
	}
	if _, err := stream.Write(buf.Bytes()); err != nil {
		_ = stream.Reset()
		return
	}
	_ = stream.Close()
}

func respText(r bResp) string {
	if r.fail != 0 {
		return "F"
	}
	items := "-"
	if len(r.items) > 0 {
		parts := make([]string, len(r.items))
		for i, it := range r.items {
			if it.kind == 'c' {
				parts[i] = fmt.Sprintf("c%d", g.CertID(it.cert))
			} else {
				parts[i] = "x"
			}
		}
		items = strings.Join(parts, ",")
	}
	return fmt.Sprintf("%d@%s", r.pending, items)
}

func scriptText(s []bResp) string {
	if len(s) == 0 {
		return "-"
	}
	parts := make([]string, len(s))
	for i, r := range s {
		parts[i] = respText(r)
	}
	return strings.Join(parts, "~")
}

func kinds(s []bResp) string {
	var sb strings.Builder
	for _, r := range s {
		sb.WriteByte('[')
		if r.fail != 0 {
			fmt.Fprintf(&sb, "F%d", r.fail)
		}
		for _, it := range r.items {
			sb.WriteByte(it.kind)
		}
		sb.WriteByte(']')
	}
	return sb.String()
}

// forge returns a corrupted copy of a valid certificate of history h at index j.
func forge(h *certgen.History, j int) (*certs.FinalityCertificate, string) {
	c := certgen.CloneCert(h.Certs[j])
	table := h.Tables[j]
	signers := func() []int {
		l, _ := certgen.SignerList(c.Signers)
		o := make([]int, len(l))
		for i, x := range l {
			o[i] = int(x)
		}
		return o
	}
	switch rng.Intn(9) {
	case 0:
		c.Signature[rng.Intn(len(c.Signature))] ^= 4
		return c, "sig"
	case 1:
		c.SupplementalData.Commitments[3] ^= 1
		return c, "supp"
	case 2: // a signer short of the quorum, properly signed by the rest
		s := signers()
		if len(s) < 2 {
			c.Signature = nil
			return c, "nosig"
		}
		g.Resign(h.NN, c, table, s[:len(s)-1])
		return c, "quorum-1?"
	case 3: // other network
		g.Resign("vnet-b", c, table, signers())
		return c, "othernet"
	case 4: // delta changed (not signed): committed table no longer reproduced
		d := certgen.CloneDiff(c.PowerTableDelta)
		if len(d) > 0 {
			d[0].PowerDelta = gbig.Add(d[0].PowerDelta, gbig.NewInt(1))
		} else if len(table) > 0 {
			d = append(d, certs.PowerTableDelta{ParticipantID: table[0].ID, PowerDelta: gbig.NewInt(1)})
		}
		c.PowerTableDelta = d
		return c, "delta"
	case 5: // chain head replaced without re-signing
		ch := c.ECChain
		ch.TipSets[len(ch.TipSets)-1].Key = append(ch.TipSets[len(ch.TipSets)-1].Key, 'z')
		return c, "chain"
	case 6: // chain replaced and re-signed: valid for the poller (it does not check linkage)
		ch := c.ECChain
		ch.TipSets[len(ch.TipSets)-1].Key = append(ch.TipSets[len(ch.TipSets)-1].Key, 'y')
		g.Resign(h.NN, c, table, signers())
		return c, "resigned-other-chain"
	case 7: // signed with the DECIDE payload of another instance number
		c.GPBFTInstance++
		g.Resign(h.NN, c, table, signers())
		c.GPBFTInstance--
		return c, "sig-other-instance"
	default: // empty chain
		c.ECChain = &gpbft.ECChain{}
		return c, "bottom"
	}
}

// byzStream builds a response from the valid continuation h.Certs[k:] with one manipulation.
func byzStream(h *certgen.History, k int, other *certgen.History) (bResp, string) {
	avail := h.Certs[k:]
	take := len(avail)
	if take > 0 && rng.Chance(1, 2) {
		take = 1 + rng.Intn(len(avail))
	}
	var items []bItem
	for _, c := range avail[:take] {
		items = append(items, bItem{'c', c})
	}
	next := h.First + uint64(k)
	r := bResp{pending: next + uint64(take)}
	tag := "honest"
	pos := 0
	if len(items) > 0 {
		pos = rng.Intn(len(items))
		if rng.Bool() { // prefer a manipulation late in the stream: a non-empty valid prefix
			pos = len(items) - 1 - rng.Intn((len(items)+1)/2)
		}
	}
	switch rng.Intn(17) {
	case 0:
	case 1:
		if len(items) > 0 {
			f, t := forge(h, k+pos)
			items[pos] = bItem{'c', f}
			tag = "forged-" + t
		}
	case 2:
		if len(items) >= 2 {
			pos = rng.Intn(len(items) - 1)
			items[pos], items[pos+1] = items[pos+1], items[pos]
			tag = "reordered"
		}
	case 3:
		if len(items) > 0 {
			items = append(items[:pos+1], items[pos:]...)
			tag = "duplicated"
		}
	case 4:
		if len(items) >= 2 {
			pos = rng.Intn(len(items)-1) + 1
			items = append(items[:pos-1], items[pos:]...)
			tag = "gap"
		}
	case 5:
		if len(items) > 0 {
			items[pos] = bItem{'t', items[pos].cert}
			items = items[:pos+1]
			tag = "truncated"
		}
	case 6:
		if len(items) > 0 {
			items[pos] = bItem{'o', items[pos].cert}
			tag = "oversized"
		}
	case 7:
		if len(items) > 0 {
			items[pos] = bItem{'x', nil}
			tag = "garbage"
		}
	case 8:
		r.pending = []uint64{0, next, next - 1, next + 1, next + 1000, ^uint64(0)}[rng.Intn(6)]
		tag = "pending-misadvertised"
	case 9:
		if other != nil && len(other.Certs) > 0 && len(items) > 0 {
			o := certgen.CloneCert(other.Certs[rng.Intn(len(other.Certs))])
			o.GPBFTInstance = items[pos].cert.GPBFTInstance
			items[pos] = bItem{'c', o}
			tag = "other-history"
		}
	case 10:
		r.fail = 1 + rng.Intn(3)
		tag = "fail"
	case 11:
		items = nil
		r.pending = next + 1 + uint64(rng.Intn(5))
		_ = rng.Bool() // (a reset after the header races with the client reading it: not used)
		tag = "nothing-but-claims-more"
	case 12: // starts one too early / too late
		if k > 0 && rng.Bool() {
			items = append([]bItem{{'c', h.Certs[k-1]}}, items...)
			tag = "starts-early"
		} else if len(items) >= 2 {
			items = items[1:]
			tag = "starts-late"
		}
	case 13: // more than one request's worth is never possible here; send everything twice
		items = append(items, items...)
		tag = "repeated-run"
	case 14:
		if len(items) > 0 {
			f, t := forge(h, k+pos)
			items = append(items[:pos+1], append([]bItem{{'c', f}}, items[pos+1:]...)...)
			tag = "inserted-forged-" + t
		}
	case 15: // a properly signed certificate whose delta removes every participant
		if len(items) > 0 {
			j := k + pos
			orig := h.Certs[j]
			l, _ := certgen.SignerList(orig.Signers)
			signers := make([]int, len(l))
			for i, x := range l {
				signers[i] = int(x)
			}
			e := g.MakeCert(h.NN, orig.GPBFTInstance, certgen.CloneChain(orig.ECChain), h.Tables[j], gpbft.PowerEntries{}, signers, orig.SupplementalData.Commitments)
			items[pos] = bItem{'c', e}
			tag = "empties-table"
		}
	default:
		r.pending = next + uint64(take) + uint64(rng.Intn(3))
		tag = "claims-more"
	}
	r.items = items
	return r, tag
}

func byzClientCases(h, other *certgen.History) {
	for i := 0; i < 6; i++ {
		k := rng.Intn(len(h.Certs) + 1)
		r, tag := byzStream(h, k, other)
		first := h.First + uint64(k)
		if rng.Chance(1, 6) {
			first += uint64(rng.Intn(3)) - 1
		}
		limit := []uint64{0, 1, 2, uint64(len(r.items)), uint64(len(r.items)) + 1, 256, ^uint64(0)}[rng.Intn(7)]
		if len(r.items) > 0 && rng.Chance(1, 3) {
			limit = uint64(rng.Intn(len(r.items) + 1))
		}
		pt := rng.Chance(1, 5)
		if pt {
			r.pt = h.Tables[0]
		}
		reuse := r.fail == 0 && rng.Chance(1, 3)
		if reuse {
			// the caller re-uses its Request object for something else as soon as Request has returned, while the
			// certificates are still on their way: the response must be judged against the request that was sent
			r.hold = make(chan struct{})
		}
		byz.set([]bResp{r})
		req := certexchange.Request{FirstInstance: first, Limit: limit, IncludePowerTable: pt}
		out.Line("# byz %s %s", tag, kinds([]bResp{r}))
		hdr, ch, err := client.Request(ctx, byzHost.ID(), &req)
		line := fmt.Sprintf("byz %d %d %d %s =>", first, limit, b01(pt), respText(r))
		if reuse {
			switch rng.Intn(3) {
			case 0:
				req.FirstInstance += uint64(1 + rng.Intn(3))
			case 1:
				req.FirstInstance -= uint64(1 + rng.Intn(3))
			default:
				req.Limit = uint64(rng.Intn(2))
			}
			close(r.hold)
		}
		if err != nil {
			out.Line("%s err -", line)
			continue
		}
		got := drain(ch)
		out.Line("%s %d/nil %s", line, hdr.PendingInstance, g.CertIDs(got))
	}
}

// ------------------------------------------------------------------------------------------------
// pollers

type pollerEnv struct {
	pid    int
	hist   *certgen.History
	cs     *certstore.Store
	poller *polling.Poller
}

func newPollerEnv(h *certgen.History, k int) *pollerEnv {
	ds := ds_sync.MutexWrap(datastore.NewMapDatastore())
	cs, err := certstore.CreateStore(ctx, ds, h.First, h.Tables[0])
	if err != nil {
		panic(err)
	}
	for i := 0; i < k; i++ {
		if err := cs.Put(ctx, h.Certs[i]); err != nil {
			panic(err)
		}
	}
	pidCounter++
	pe := &pollerEnv{pid: pidCounter, hist: h, cs: cs}
	line := fmt.Sprintf("pnew %d %d %s %s =>", pe.pid, h.First, g.TableText(h.Tables[0]), g.CertIDs(h.Certs[:k]))
	p, err := polling.NewPoller(ctx, &client, cs, g.Backend)
	if err != nil {
		out.Line("%s err", line)
		return nil
	}
	pe.poller = p
	out.Line("%s ok %d %s", line, p.NextInstance, g.TableText(p.PowerTable))
	return pe
}

func (pe *pollerEnv) storeCerts() string {
	l := pe.cs.Latest()
	if l == nil {
		return "-"
	}
	cs, err := pe.cs.GetRange(ctx, pe.hist.First, l.GPBFTInstance)
	if err != nil {
		return "!"
	}
	ptrs := make([]*certs.FinalityCertificate, len(cs))
	for i := range cs {
		ptrs[i] = &cs[i]
	}
	return g.CertIDs(ptrs)
}

func statusText(s polling.PollStatus) string {
	switch s {
	case polling.PollMiss:
		return "miss"
	case polling.PollHit:
		return "hit"
	case polling.PollFailed:
		return "failed"
	case polling.PollIllegal:
		return "illegal"
	}
	return fmt.Sprintf("status%d", int(s))
}

func (pe *pollerEnv) poll(target host.Host, what string) {
	pctx, cancel := context.WithTimeout(ctx, 120*time.Second)
	defer cancel()
	res, err := pe.poller.Poll(pctx, target.ID())
	reqs := ""
	if strings.HasPrefix(what, "script ") {
		// how many requests the scripted peer received during this poll
		byz.mu.Lock()
		reqs = fmt.Sprintf(" reqs=%d", byz.n)
		byz.mu.Unlock()
	}
	status, recv, nw, internal := "miss", uint64(0), uint64(0), false
	if err != nil || res == nil {
		internal = true
	} else {
		status, recv, nw = statusText(res.Status), res.ReceivedCertificates, res.NewCertificates
	}
	out.Line("poll %d %s => %s %d %d %v %d %s %s%s", pe.pid, what, status, recv, nw, internal,
		pe.poller.NextInstance, g.TableText(pe.poller.PowerTable), pe.storeCerts(), reqs)
}

func (pe *pollerEnv) next() int { return int(pe.poller.NextInstance - pe.hist.First) }

func byzPollCases(h, other *certgen.History) {
	k := rng.Intn(len(h.Certs) + 1)
	pe := newPollerEnv(h, k)
	if pe == nil {
		return
	}
	for round := 0; round < 4; round++ {
		kk := pe.next()
		if kk < 0 || kk > len(h.Certs) {
			return
		}
		var script []bResp
		var tags []string
		nresp := 1 + rng.Intn(3)
		pos := kk
		for i := 0; i < nresp && pos <= len(h.Certs); i++ {
			r, tag := byzStream(h, pos, other)
			script = append(script, r)
			tags = append(tags, tag)
			// where an honest reading of this response would leave the poller
			for _, it := range r.items {
				if it.kind == 'c' && pos < len(h.Certs) && it.cert == h.Certs[pos] {
					pos++
				} else {
					break
				}
			}
		}
		if rng.Chance(1, 6) && kk < len(h.Certs) {
			// a peer that hands over some genuine certificates once and from then on only advertises more without
			// sending any ("mis-advertised pending instance"), for as long as it is asked
			j := 1 + rng.Intn(min(3, len(h.Certs)-kk))
			far := h.First + uint64(kk+j+1+rng.Intn(5))
			r := bResp{pending: far}
			for _, c := range h.Certs[kk : kk+j] {
				r.items = append(r.items, bItem{kind: 'c', cert: c})
			}
			script = []bResp{r}
			for i, n := 0, 2+rng.Intn(7); i < n; i++ {
				script = append(script, bResp{pending: far})
			}
			tags = []string{"spin"}
		}
		byz.set(script)
		out.Line("# byzpoll %s %s", strings.Join(tags, "+"), kinds(script))
		if rng.Chance(1, 3) && kk < len(h.Certs) && tags[0] != "spin" {
			// while the request is in flight the next certificates arrive through another channel (GPBFT). The
			// peer answers with genuine certificates here: a different validly signed certificate for an instance
			// that GPBFT itself finalized cannot exist below 1/3 faulty power.
			j := 1 + rng.Intn(min(3, len(h.Certs)-kk))
			arr := h.Certs[kk : kk+j]
			m := rng.Intn(min(j+3, len(h.Certs)-kk) + 1)
			r := bResp{pending: h.First + uint64(kk+m)}
			if rng.Chance(1, 4) {
				r.pending += uint64(rng.Intn(3))
			}
			for _, c := range h.Certs[kk : kk+m] {
				r.items = append(r.items, bItem{kind: 'c', cert: c})
			}
			script = []bResp{r}
			byz.set(script)
			byz.mu.Lock()
			byz.onFirst = func() {
				for _, c := range arr {
					_ = pe.cs.Put(ctx, c)
				}
			}
			byz.mu.Unlock()
			pe.poll(byzHost, "scriptmid "+scriptText(script)+" "+g.CertIDs(arr))
			continue
		}
		pe.poll(byzHost, "script "+scriptText(script))
		if rng.Chance(1, 3) && pe.next() >= 0 && pe.next() < len(h.Certs) {
			// a certificate arrives through another channel (GPBFT itself): the poller must catch up
			c := h.Certs[pe.next()]
			if err := pe.cs.Put(ctx, c); err != nil {
				out.Line("pput %d %d => err", pe.pid, g.CertID(c))
			} else {
				out.Line("pput %d %d => ok", pe.pid, g.CertID(c))
			}
		}
	}
}

func serverPollCases(h, fork *certgen.History) {
	n := len(h.Certs)
	m := rng.Intn(n + 1)
	s, err := newStore(h, m)
	if err != nil {
		panic(err)
	}
	s.announce()
	withServer(s, func() {
		for i := 0; i < 3; i++ {
			k := rng.Intn(n + 1)
			if pe := newPollerEnv(h, k); pe != nil {
				pe.poll(srvHost, fmt.Sprintf("server %d", s.sid))
				pe.poll(srvHost, fmt.Sprintf("server %d", s.sid))
			}
		}
	})
	// a server on a fork: same initial table and instance numbers, other certificates
	if fork != nil && len(fork.Certs) > 0 {
		fs, err := newStore(fork, len(fork.Certs))
		if err == nil {
			fs.announce()
			withServer(fs, func() {
				k := rng.Intn(min(n, len(fork.Certs)) + 1)
				if pe := newPollerEnv(h, k); pe != nil {
					pe.poll(srvHost, fmt.Sprintf("server %d", fs.sid))
				}
			})
		}
	}
}

// ------------------------------------------------------------------------------------------------

func history(first uint64, n int, changeProb int) *certgen.History {
	size := 2 + rng.Intn(6)
	return g.History(nn, certgen.HistOpts{N: n, First: first, TableSize: size, IDRange: size + 5,
		Style: []int{certgen.PowUniform, certgen.PowSkewed, certgen.PowEqual}[rng.Intn(3)], ChangeProb: changeProb, MaxSuffix: 2})
}

// forkOf: a second history from the same initial table and first instance.
func forkOf(h *certgen.History, n int) *certgen.History {
	return g.History(nn, certgen.HistOpts{N: n, First: h.First, Initial: h.Tables[0], IDRange: len(h.Tables[0]) + 5,
		Style: certgen.PowUniform, ChangeProb: 30, MaxSuffix: 2})
}

func main() {
	out = vh.NewOut()
	defer out.Flush()
	rng = vh.NewRng(vh.Seed())
	g = certgen.New(out, rng)
	thorough := vh.Thorough()

	mn := mocknetwork.New()
	defer mn.Close()
	var err error
	if srvHost, err = mn.GenPeer(); err != nil {
		panic(err)
	}
	if cliHost, err = mn.GenPeer(); err != nil {
		panic(err)
	}
	if byzHost, err = mn.GenPeer(); err != nil {
		panic(err)
	}
	if err := mn.LinkAll(); err != nil {
		panic(err)
	}
	if err := mn.ConnectAllButSelf(); err != nil {
		panic(err)
	}
	client = certexchange.Client{Host: cliHost, NetworkName: nn, RequestTimeout: 30 * time.Second}
	byzHost.SetStreamHandler(certexchange.FetchProtocolName(nn), byz.handle)
	out.Line("net %d", g.NetID(nn))

	// (i)+(ii) honest server: stores of boundary sizes, at small, large and wrapping instance numbers
	max := ^uint64(0)
	type sc struct {
		first uint64
		n     int
	}
	stores := []sc{{0, 0}, {0, 1}, {0, 5}, {7, 3}, {1000, 256}, {0, 257}, {50, 300}, {max - 300, 299}, {max - 5, 5}, {max - 4, 5}}
	if thorough {
		stores = append(stores, sc{3, 255}, sc{0, 258}, sc{max - 600, 520}, sc{12345678901234, 40}, sc{0, 2}, sc{max - 256, 256})
	}
	for _, c := range stores {
		h := history(c.first, c.n, 25)
		if len(h.Certs) < c.n {
			panic("short history")
		}
		s, err := newStore(h, c.n)
		if err != nil {
			out.Line("# store first=%d n=%d cannot be built: %v", c.first, c.n, err)
			continue
		}
		s.announce()
		serveCases(s, thorough)
	}

	// (i') the same while the store grows concurrently
	nConc := 400
	if thorough {
		nConc = 3000
	}
	concurrentServe(nConc)

	// (iii) Byzantine responder against the client and the poller
	nByz := vh.EnvInt("VERIF_CERTX_BYZ", 90)
	if thorough {
		nByz *= 20
	}
	var prev *certgen.History
	for i := 0; i < nByz; i++ {
		// near the top of the uint64 range but never across it: instance numbers do not wrap within a
		// history (the theorems' NoWrap assumption; certgen would happily number the next one 0)
		first := []uint64{0, 0, uint64(rng.Intn(5000)), max - uint64(40+rng.Intn(8))}[rng.Intn(4)]
		h := history(first, 3+rng.Intn(8), 40)
		if prev == nil {
			prev = h
		}
		byzClientCases(h, prev)
		byzPollCases(h, forkOf(h, 2+rng.Intn(4)))
		if i%3 == 0 {
			serverPollCases(h, forkOf(h, 2+rng.Intn(6)))
		}
		prev = h
	}
	// long catch-up: more than one request's worth
	for _, n := range []int{300, 520} {
		h := history(uint64(rng.Intn(100)), n, 10)
		s, err := newStore(h, n)
		if err != nil {
			panic(err)
		}
		s.announce()
		withServer(s, func() {
			if pe := newPollerEnv(h, rng.Intn(5)); pe != nil {
				pe.poll(srvHost, fmt.Sprintf("server %d", s.sid))
			}
		})
		if !thorough {
			break
		}
	}
}
