//go:build verif

package gpbft

// Accessors for the C14 (encodings) harness, added at build time through -overlay.

// VerifVRFSigInput exposes vrfSerializeSigInput.
func VerifVRFSigInput(beacon []byte, instance uint64, round uint64, nn NetworkName) []byte {
	return vrfSerializeSigInput(beacon, instance, round, nn)
}
