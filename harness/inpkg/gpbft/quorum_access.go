//go:build verif

package gpbft

// Accessors for the verification harness (added at build time through -overlay).

func VerifHasWeakQuorum(part, whole int64) bool { return hasWeakQuorum(part, whole) }

// VerifCouldReach evaluates quorumState.CouldReachStrongQuorumFor on a synthetic
// tally: total scaled power `whole`, `voted` power already seen from senders,
// `support` of it for the queried chain.
func VerifCouldReach(withAdversary bool, whole, voted, support int64) bool {
	key := ECChainKey{1}
	q := &quorumState{
		senders:           map[ActorID]struct{}{},
		sendersTotalPower: voted,
		chainSupport:      map[ECChainKey]chainSupport{key: {power: support}},
		powerTable:        &PowerTable{ScaledTotal: whole},
	}
	return q.CouldReachStrongQuorumFor(key, withAdversary)
}
