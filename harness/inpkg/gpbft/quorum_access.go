//go:build verif

package gpbft

// Accessors for the verification harness (added at build time through -overlay).

func VerifHasWeakQuorum(part, whole int64) bool { return hasWeakQuorum(part, whole) }

// VerifCouldReach evaluates quorumState.CouldReachStrongQuorumFor on a synthetic
// tally: total scaled power `whole`, `voted` power already seen from senders,
// `support` of it for the queried chain.
func VerifCouldReach(withAdversary bool, whole, voted, support int64, present bool) bool {
	key := ECChainKey{1}
	q := &quorumState{
		senders:           map[ActorID]struct{}{},
		sendersTotalPower: voted,
		chainSupport:      map[ECChainKey]chainSupport{{2}: {power: voted - support}},
		powerTable:        &PowerTable{ScaledTotal: whole},
	}
	// a value nobody has voted for yet has no entry at all (present=false is only meaningful with support 0)
	if present || support != 0 {
		q.chainSupport[key] = chainSupport{power: support}
	}
	return q.CouldReachStrongQuorumFor(key, withAdversary)
}
