//go:build verif

package gpbft

import (
	"github.com/filecoin-project/go-state-types/cbor"
)

// Accessors for the validation harness h_validate (C05, C13); added at build time through -overlay.

// VerifSetProgress sets the progress the participant's validator sees.
func VerifSetProgress(p *Participant, id, round uint64, phase Phase) {
	p.progression.NotifyProgress(InstanceProgress{Instant: Instant{ID: id, Round: round, Phase: phase}})
}

// VerifWrapPartiallyValidated builds the opaque value FullyValidateMessage consumes, so that the full
// stage can also be exercised on inputs the partial stage would not have produced.
func VerifWrapPartiallyValidated(m *PartialGMessage) PartiallyValidatedMessage {
	return &partiallyValidatedMessage{msg: m}
}

// VerifPeek reports whether the validator's cache currently holds the key the validator would compute for
// `msg` (+extra) in the message (just=false) or justification (just=true) namespace of the given mode,
// without touching recency: "1", "0", or "-" when no key can be computed (marshalling fails).
func VerifPeek(p *Participant, partial, just bool, group uint64, msg cbor.Marshaler, extra ...[]byte) string {
	key, err := p.validator.getCacheKey(msg, extra...)
	if err != nil || len(key) == 0 {
		return "-"
	}
	ns := validationNamespaces.message(partial)
	if just {
		ns = validationNamespaces.justification(partial)
	}
	if p.messageCache.VerifPeek(group, ns, key) {
		return "1"
	}
	return "0"
}

// VerifVrfInput is vrfSerializeSigInput (the bytes a CONVERGE ticket signs).
func VerifVrfInput(beacon []byte, instance, round uint64, nn NetworkName) []byte {
	return vrfSerializeSigInput(beacon, instance, round, nn)
}

// VerifCacheShape renders the structure of the validator's cache (see caching.GroupedSet.VerifShape).
func VerifCacheShape(p *Participant) string { return p.messageCache.VerifShape() }
