//go:build verif

package pmsg

import (
	"github.com/filecoin-project/go-f3/chainexchange"
	"github.com/filecoin-project/go-f3/gpbft"
	lru "github.com/hashicorp/golang-lru/v2"
)

// VerifComplete performs exactly the two statements PartialMessageManager executes when the chain of a
// buffered / incoming partial message becomes known (harness h_validate).
func VerifComplete(pgmsg *gpbft.PartialGMessage, chain *gpbft.ECChain) {
	pgmsg.Vote.Value = chain
	inferJustificationVoteValue(pgmsg)
}

// VerifCompleteValueOnly fills in the vote value and leaves the justification as it arrived (no inference):
// a completion that FullyValidateMessage must not let through unless the justification really is for bottom.
func VerifCompleteValueOnly(pgmsg *gpbft.PartialGMessage, chain *gpbft.ECChain) {
	pgmsg.Vote.Value = chain
}

// VerifToPartial is PartialMessageManager.ToPartialGMessage (which does not use its receiver).
func VerifToPartial(msg *gpbft.GMessage) (*gpbft.PartialGMessage, error) {
	return (&PartialMessageManager{}).ToPartialGMessage(msg)
}

// VerifNewManager builds a PartialMessageManager around a chain exchange without starting its loops,
// so that the real CompleteMessage can be called synchronously.
func VerifNewManager(cx *chainexchange.PubSubChainExchange) *PartialMessageManager {
	return &PartialMessageManager{
		chainex:                 cx,
		pmByInstance:            make(map[uint64]*lru.Cache[partialMessageKey, gpbft.PartiallyValidatedMessage]),
		pmkByInstanceByChainKey: make(map[uint64]map[gpbft.ECChainKey][]partialMessageKey),
	}
}
