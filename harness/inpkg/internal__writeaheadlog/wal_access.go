//go:build verif

package writeaheadlog

// Accessors for the verification harness h_wal (added at build time through -overlay).

// VerifStats exposes the in-memory bookkeeping: closed files (name, maxEpoch) in list order and the
// active file, if any.
func (wal *WriteAheadLog[T, PT]) VerifStats() (closedNames []string, closedMax []uint64, active string, activeMax uint64, hasActive bool) {
	wal.lk.Lock()
	defer wal.lk.Unlock()
	for _, s := range wal.logFiles {
		closedNames = append(closedNames, s.logName)
		closedMax = append(closedMax, s.maxEpoch)
	}
	if wal.active.file != nil {
		return closedNames, closedMax, wal.active.logName, wal.active.maxEpoch, true
	}
	return closedNames, closedMax, "", 0, false
}

// VerifAbandon simulates the death of the process: the descriptor of the active file is released
// (as the OS would) without running any of the WAL's own shutdown code.
func (wal *WriteAheadLog[T, PT]) VerifAbandon() {
	wal.lk.Lock()
	defer wal.lk.Unlock()
	if wal.active.file != nil {
		_ = wal.active.file.Close()
	}
}
