//go:build verif

package sim

// Accessors for the verification harness h_sim (added at build time through -overlay).

import (
	"context"

	"github.com/filecoin-project/go-f3/gpbft"
	"github.com/filecoin-project/go-f3/sim/signing"
)

// VerifEC is a bare simulated EC (the simulator's decision oracle without a simulation around it).
type VerifEC struct{ ec *simEC }

func VerifNewEC(nn gpbft.NetworkName, backend signing.Backend) *VerifEC {
	return &VerifEC{ec: &simEC{networkName: nn, verifier: backend}}
}

func (v *VerifEC) Begin(base *gpbft.ECChain, pt *gpbft.PowerTable) *ECInstance {
	return v.ec.BeginInstance(base, pt)
}

// Notify is what simHost.ReceiveDecision does with a decision.
func (v *VerifEC) Notify(p gpbft.ActorID, d *gpbft.Justification) { v.ec.NotifyDecision(p, d) }

func (v *VerifEC) Errors() int { return len(v.ec.errors) }

func (v *VerifEC) ErrIsNil() bool { return v.ec.Err() == nil }

func (v *VerifEC) LastError() string {
	if len(v.ec.errors) == 0 {
		return ""
	}
	return v.ec.errors[len(v.ec.errors)-1].Error()
}

func (v *VerifEC) Instance(i uint64) *ECInstance { return v.ec.GetInstance(i) }

func (v *VerifEC) Len() int { return v.ec.Len() }

// VerifValidate is the simulator's decision check on its own.
func VerifValidate(eci *ECInstance, d *gpbft.Justification) error { return eci.validateDecision(d) }

// VerifHostReceiveDecision delivers a decision through the host of the idx-th host of a running
// simulation (honest hosts first, the adversary's host last), exactly as a participant would.
func VerifHostReceiveDecision(s *Simulation, idx int, d *gpbft.Justification) error {
	_, err := s.hosts[idx].ReceiveDecision(context.Background(), d)
	return err
}

func VerifHostCount(s *Simulation) int { return len(s.hosts) }

func VerifErrCount(s *Simulation) int { return len(s.ec.errors) }

func VerifInstanceCount(s *Simulation) int { return s.ec.Len() }
