//go:build verif

package caching

import "fmt"

// VerifPeek reports membership without updating group recency (harness h_validate).
func (gs *GroupedSet) VerifPeek(g uint64, namespace, v []byte) bool {
	gs.mu.Lock()
	defer gs.mu.Unlock()
	set, ok := gs.groups[g]
	if !ok {
		return false
	}
	found, _ := set.Set.Contains(namespace, v)
	return found
}

// VerifShape renders the cache structure: groups in recency order (most recent first), each with the sizes
// of its two generations: "g:flip:flop;g:flip:flop" ("-" when empty).
func (gs *GroupedSet) VerifShape() string {
	gs.mu.Lock()
	defer gs.mu.Unlock()
	s := ""
	for e := gs.recency.Front(); e != nil; e = e.Next() {
		g := e.Value.(uint64)
		set := gs.groups[g]
		if s != "" {
			s += ";"
		}
		s += fmt.Sprintf("%d:%d:%d", g, len(set.flip), len(set.flop))
	}
	if s == "" {
		return "-"
	}
	return s
}
