//go:build verif

package certstore

import (
	"context"

	"github.com/filecoin-project/go-f3/manifest"
	"github.com/ipfs/go-datastore"
)

// Accessors for the verification harness h_store (added at build time through -overlay).

// VerifDefaultPowerTableFrequency is the checkpoint period the package uses when nothing is injected.
const VerifDefaultPowerTableFrequency = uint64(defaultPowerTableFrequency)

// VerifSetPowerTableFrequency lowers (or restores) the checkpoint period of an opened store.
func VerifSetPowerTableFrequency(cs *Store, f uint64) { cs.powerTableFrequency = f }

// VerifImportSnapshot is the package's own testing entry point of the importer (frequency 0 = default).
func VerifImportSnapshot(ctx context.Context, snapshot SnapshotReader, ds datastore.Batching, m *manifest.Manifest, freq uint64) error {
	return importSnapshotToDatastoreWithTestingPowerTableFrequency(ctx, snapshot, ds, m, freq)
}
