//go:build verif

package polling

// Accessors for the verification harness h_poll (added at build time through -overlay; nothing of
// this exists in the repository). They expose
//   - the unexported interval predictor (construct / set state / update / read state),
//   - a rig around a real Subscriber whose unexported parts (peer tracker, poller, clock, discovery
//     channel) are wired exactly as Subscriber.Start does, minus libp2p peer discovery, so that the
//     harness can call the real `poll` once, or run the real `run` loop on a mock clock,
//   - a recording instrument for the `predictedPollingInterval` gauge: `run` records the delay it
//     has just armed the timer with; the harness uses the record as the end-of-round signal.

import (
	"context"
	"sync"
	"time"

	"github.com/filecoin-project/go-f3/certexchange"
	"github.com/filecoin-project/go-f3/certstore"
	"github.com/filecoin-project/go-f3/gpbft"
	"github.com/filecoin-project/go-f3/internal/clock"
	"github.com/libp2p/go-libp2p/core/peer"
	"go.opentelemetry.io/otel/metric"
	"go.opentelemetry.io/otel/metric/embedded"
)

// ---- predictor -------------------------------------------------------------------------------

type VerifPredictor struct{ p *predictor }

func VerifNewPredictor(minI, initI, maxI time.Duration) *VerifPredictor {
	return &VerifPredictor{p: newPredictor(minI, initI, maxI)}
}

func (v *VerifPredictor) Update(progress uint64) time.Duration { return v.p.update(progress) }

func (v *VerifPredictor) State() (backoff, explore, interval time.Duration, wasIncreasing bool) {
	return v.p.backoff, v.p.exploreDistance, v.p.interval, v.p.wasIncreasing
}

func (v *VerifPredictor) Bounds() (minI, maxI time.Duration) { return v.p.minInterval, v.p.maxInterval }

func (v *VerifPredictor) SetState(backoff, explore, interval time.Duration, wasIncreasing bool) {
	v.p.backoff, v.p.exploreDistance, v.p.interval, v.p.wasIncreasing = backoff, explore, interval, wasIncreasing
}

// ---- gauge hook ------------------------------------------------------------------------------

type verifGauge struct {
	embedded.Float64Gauge
	mu sync.Mutex
	fn func(float64)
}

func (g *verifGauge) Record(_ context.Context, v float64, _ ...metric.RecordOption) {
	g.mu.Lock()
	fn := g.fn
	g.mu.Unlock()
	if fn != nil {
		fn(v)
	}
}

var verifGaugeHook = &verifGauge{}

// VerifHookDelayGauge replaces the predicted-interval gauge by a recording one; fn receives the
// value `run` records right after `timer.Reset(delay)` (delay in seconds).
func VerifHookDelayGauge(fn func(float64)) {
	verifGaugeHook.mu.Lock()
	verifGaugeHook.fn = fn
	verifGaugeHook.mu.Unlock()
	metrics.predictedPollingInterval = verifGaugeHook
}

// ---- subscriber rig --------------------------------------------------------------------------

// VerifClockCall is one call `run` made on its clock: kind "since" (argument = pollTime, result =
// time its requests took) or "until" (argument = pollTime + predicted interval, result = time left).
type VerifClockCall struct {
	Kind     string
	Arg, Ret int64 // Arg: UnixNano of the time passed in; Ret: nanoseconds returned
}

// verifClock is the mock clock handed to the Subscriber (only to the Subscriber: the Poller and the
// certificate store keep the plain mock). It records the Since/Until calls of `run` and signals the
// creation of the polling timer.
type verifClock struct {
	*clock.Mock
	mu      sync.Mutex
	calls   []VerifClockCall
	created chan struct{}
}

func (c *verifClock) Timer(d time.Duration) *clock.Timer {
	t := c.Mock.Timer(d)
	select {
	case c.created <- struct{}{}:
	default:
	}
	return t
}

func (c *verifClock) Since(t time.Time) time.Duration {
	d := c.Mock.Since(t)
	c.mu.Lock()
	c.calls = append(c.calls, VerifClockCall{"since", t.UnixNano(), int64(d)})
	c.mu.Unlock()
	return d
}

func (c *verifClock) Until(t time.Time) time.Duration {
	d := c.Mock.Until(t)
	c.mu.Lock()
	c.calls = append(c.calls, VerifClockCall{"until", t.UnixNano(), int64(d)})
	c.mu.Unlock()
	return d
}

type VerifRig struct {
	S        *Subscriber
	clk      *verifClock
	discover chan peer.ID
	done     chan error
	cancel   context.CancelFunc
}

// ClockCalls returns and clears the recorded Since/Until calls.
func (r *VerifRig) ClockCalls() []VerifClockCall {
	r.clk.mu.Lock()
	defer r.clk.mu.Unlock()
	c := r.clk.calls
	r.clk.calls = nil
	return c
}

// TimerCreated is signalled when `run` has created its polling timer.
func (r *VerifRig) TimerCreated() <-chan struct{} { return r.clk.created }

// VerifNewRig wires a Subscriber the way Start does (peer tracker, poller from the store, clock from
// the context) but with a discovery channel owned by the harness instead of libp2p events.
func VerifNewRig(ctx context.Context, client certexchange.Client, store *certstore.Store, verifier gpbft.Verifier,
	minI, initI, maxI time.Duration) (*VerifRig, error) {
	s := &Subscriber{
		Client:              client,
		Store:               store,
		SignatureVerifier:   verifier,
		InitialPollInterval: initI,
		MaximumPollInterval: maxI,
		MinimumPollInterval: minI,
	}
	mock, ok := clock.GetClock(ctx).(*clock.Mock)
	if !ok {
		return nil, context.Canceled
	}
	vc := &verifClock{Mock: mock, created: make(chan struct{}, 1)}
	s.clock = vc
	s.peerTracker = newPeerTracker(s.clock)
	var err error
	s.poller, err = NewPoller(ctx, &s.Client, s.Store, s.SignatureVerifier)
	if err != nil {
		return nil, err
	}
	ch := make(chan peer.ID)
	s.discoverCh = ch
	return &VerifRig{S: s, clk: vc, discover: ch}, nil
}

// PeerSeen registers a peer directly with the tracker (only while the run loop is not running).
func (r *VerifRig) PeerSeen(p peer.ID) { r.S.peerTracker.peerSeen(p) }

// Discover hands a peer to the running loop through the discovery channel (returns once consumed).
func (r *VerifRig) Discover(p peer.ID) { r.discover <- p }

func (r *VerifRig) NextInstance() uint64 { return r.S.poller.NextInstance }

// Poll runs the real Subscriber.poll once.
func (r *VerifRig) Poll(ctx context.Context) (progress uint64, newCert bool, err error) {
	return r.S.poll(ctx)
}

// CatchUp runs the real Poller.CatchUp once.
func (r *VerifRig) CatchUp(ctx context.Context) (uint64, error) { return r.S.poller.CatchUp(ctx) }

// StartRun runs the real Subscriber.run in a goroutine.
func (r *VerifRig) StartRun() {
	ctx, cancel := context.WithCancel(context.Background())
	r.cancel = cancel
	r.done = make(chan error, 1)
	go func() { r.done <- r.S.run(ctx) }()
}

// StopRun cancels the loop and waits for it.
func (r *VerifRig) StopRun() error {
	if r.cancel == nil {
		return nil
	}
	r.cancel()
	select {
	case err := <-r.done:
		return err
	case <-time.After(5 * time.Second):
		return context.DeadlineExceeded
	}
}

// Exited reports whether the loop has returned on its own (internal error).
func (r *VerifRig) Exited() (error, bool) {
	select {
	case err := <-r.done:
		r.done <- err
		return err, true
	default:
		return nil, false
	}
}

// PeerStates lists tracker state per peer: state (-1 evil, 0 inactive, 1 deactivating, 2 active),
// hits, misses, sequential failures.
func (r *VerifRig) PeerState(p peer.ID) (state, hits, misses, seqFail int, known bool) {
	rec, ok := r.S.peerTracker.peers[p]
	if !ok {
		return 0, 0, 0, 0, false
	}
	return int(rec.state), rec.hits, rec.misses, rec.sequentialFailures, true
}

// VerifHitMissWindow is the size of the peer tracker's hit/miss sliding window.
const VerifHitMissWindow = hitMissSlidingWindow

