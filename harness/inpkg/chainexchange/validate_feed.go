//go:build verif

package chainexchange

import (
	"context"

	"github.com/filecoin-project/go-f3/gpbft"
)

// VerifValidateDiscover makes a chain (and its prefixes) known to the chain exchange exactly as the
// subscription loop of Start does for an accepted chain message (harness h_validate).
func (p *PubSubChainExchange) VerifValidateDiscover(ctx context.Context, instance uint64, chain *gpbft.ECChain) {
	p.cacheAsDiscoveredChain(ctx, Message{Instance: instance, Chain: chain})
}
