//go:build verif

package chainexchange

import (
	"context"
	"sort"

	"github.com/filecoin-project/go-f3/gpbft"
	lru "github.com/hashicorp/golang-lru/v2"
	pubsub "github.com/libp2p/go-libp2p-pubsub"
	pubsub_pb "github.com/libp2p/go-libp2p-pubsub/pb"
)

// Accessors for the verification harness h_chainx (added at build time through -overlay; nothing
// here changes behaviour of existing code).

// VerifJoin joins the topic WITHOUT registering the validator and WITHOUT subscribing, so that the
// real Broadcast can publish while none of the subject's goroutines run: the harness then plays the
// two loops of Start synchronously through VerifFeed and VerifDrainWanted.
func (p *PubSubChainExchange) VerifJoin() error {
	p.mu.Lock()
	defer p.mu.Unlock()
	t, err := p.pubsub.Join(p.topicName)
	if err != nil {
		return err
	}
	p.topic = t
	return nil
}

func (p *PubSubChainExchange) VerifLeave() {
	p.mu.Lock()
	defer p.mu.Unlock()
	if p.topic != nil {
		_ = p.topic.Close()
		p.topic = nil
	}
}

// VerifFeed delivers one raw pubsub payload exactly as the subscription loop of Start sees it: the
// registered topic validator (validatePubSubMessage) first and, when it accepts, the loop body
// (ValidatorData type assertion + cacheAsDiscoveredChain).
func (p *PubSubChainExchange) VerifFeed(ctx context.Context, data []byte) pubsub.ValidationResult {
	msg := &pubsub.Message{Message: &pubsub_pb.Message{Data: data}}
	res := p.validatePubSubMessage(ctx, "", msg)
	if res == pubsub.ValidationAccept {
		cmsg := msg.ValidatorData.(Message)
		p.cacheAsDiscoveredChain(ctx, cmsg)
	}
	return res
}

// VerifDrainWanted plays the second loop of Start: every message queued by Broadcast is passed to
// cacheAsWantedChain. Returns how many were queued.
func (p *PubSubChainExchange) VerifDrainWanted(ctx context.Context) int {
	n := 0
	for {
		select {
		case cmsg := <-p.pendingCacheAsWanted:
			p.cacheAsWantedChain(ctx, cmsg)
			n++
		default:
			return n
		}
	}
}

// VerifEncode encodes with the subject's own encoder (CBOR or ZSTD(CBOR) as configured).
func (p *PubSubChainExchange) VerifEncode(m *Message) ([]byte, error) { return p.encoding.Encode(m) }

// VerifDecode decodes with the subject's own decoder.
func (p *PubSubChainExchange) VerifDecode(data []byte) (Message, error) {
	var m Message
	err := p.encoding.Decode(data, &m)
	return m, err
}

type VerifEntry struct {
	Key         gpbft.ECChainKey
	Placeholder bool
	Chain       *gpbft.ECChain
}

func verifEntries(c *lru.Cache[gpbft.ECChainKey, *chainPortion]) []VerifEntry {
	keys := c.Keys() // oldest to newest
	out := make([]VerifEntry, 0, len(keys))
	for _, k := range keys {
		v, ok := c.Peek(k) // no promotion
		if !ok {
			continue
		}
		out = append(out, VerifEntry{Key: k, Placeholder: v.IsPlaceholder(), Chain: v.chain})
	}
	return out
}

// VerifDump reads (without touching recency) the two caches of one instance, oldest entry first.
func (p *PubSubChainExchange) VerifDump(instance uint64) (wanted []VerifEntry, hasWanted bool, discovered []VerifEntry, hasDiscovered bool) {
	p.mu.Lock()
	defer p.mu.Unlock()
	if c, ok := p.chainsWanted[instance]; ok {
		wanted, hasWanted = verifEntries(c), true
	}
	if c, ok := p.chainsDiscovered[instance]; ok {
		discovered, hasDiscovered = verifEntries(c), true
	}
	return
}

// VerifInstances lists the instances present in the two maps, sorted.
func (p *PubSubChainExchange) VerifInstances() (wanted, discovered []uint64) {
	p.mu.Lock()
	defer p.mu.Unlock()
	for i := range p.chainsWanted {
		wanted = append(wanted, i)
	}
	for i := range p.chainsDiscovered {
		discovered = append(discovered, i)
	}
	sort.Slice(wanted, func(a, b int) bool { return wanted[a] < wanted[b] })
	sort.Slice(discovered, func(a, b int) bool { return discovered[a] < discovered[b] })
	return
}
