//go:build verif

package f3

// Accessors for the verification harness h_equiv (C12), added at build time through -overlay.
// Nothing here changes behaviour of the package; everything is prefixed Verif.

import (
	"context"
	"errors"
	"slices"
	"sort"
	"time"

	"github.com/filecoin-project/go-f3/gpbft"
	"github.com/filecoin-project/go-f3/internal/psutil"
	"github.com/filecoin-project/go-f3/internal/writeaheadlog"
	pubsub_pb "github.com/libp2p/go-libp2p-pubsub/pb"
	"github.com/libp2p/go-libp2p/core/peer"
)

// ---- the filter alone ---------------------------------------------------------------------------

type VerifFilter struct{ ef *equivocationFilter }

type VerifSeen struct {
	Sender uint64
	Round  uint64
	Phase  uint8
	Sig    []byte
	Origin peer.ID
}

type VerifActive struct {
	Sender       uint64
	Origins      []peer.ID
	Equivocation bool
}

func VerifNewFilter(pid peer.ID) *VerifFilter {
	ef := newEquivocationFilter(pid)
	return &VerifFilter{ef: &ef}
}

func (f *VerifFilter) ProcessBroadcast(m *gpbft.GMessage) bool { return f.ef.ProcessBroadcast(m) }

func (f *VerifFilter) ProcessReceive(p peer.ID, m *gpbft.GMessage) { f.ef.ProcessReceive(p, m) }

func verifFilterState(ef *equivocationFilter) (cur uint64, seen []VerifSeen, active []VerifActive) {
	ef.lk.Lock()
	defer ef.lk.Unlock()
	cur = ef.currentInstance
	for k, v := range ef.seenMessages {
		seen = append(seen, VerifSeen{Sender: uint64(k.Sender), Round: k.Round, Phase: uint8(k.Phase),
			Sig: slices.Clone(v.signature), Origin: v.origin})
	}
	sort.Slice(seen, func(i, j int) bool {
		a, b := seen[i], seen[j]
		if a.Sender != b.Sender {
			return a.Sender < b.Sender
		}
		if a.Round != b.Round {
			return a.Round < b.Round
		}
		return a.Phase < b.Phase
	})
	for k, v := range ef.activeSenders {
		active = append(active, VerifActive{Sender: uint64(k), Origins: slices.Clone(v.origins), Equivocation: v.equivocation})
	}
	sort.Slice(active, func(i, j int) bool { return active[i].Sender < active[j].Sender })
	return
}

func (f *VerifFilter) State() (uint64, []VerifSeen, []VerifActive) { return verifFilterState(f.ef) }

// Clone deep-copies the filter (state-space enumeration).
func (f *VerifFilter) Clone() *VerifFilter {
	f.ef.lk.Lock()
	defer f.ef.lk.Unlock()
	n := newEquivocationFilter(f.ef.localPID)
	n.currentInstance = f.ef.currentInstance
	for k, v := range f.ef.seenMessages {
		n.seenMessages[k] = equivMessage{signature: slices.Clone(v.signature), origin: v.origin}
	}
	for k, v := range f.ef.activeSenders {
		n.activeSenders[k] = equivSenders{origins: slices.Clone(v.origins), equivocation: v.equivocation}
	}
	return &VerifFilter{ef: &n}
}

// ---- the running node ---------------------------------------------------------------------------

func (m *F3) verifRunner() *gpbftRunner {
	st := m.state.Load()
	if st == nil {
		return nil
	}
	return st.runner
}

var ErrVerifNotRunning = errors.New("verif: runner not running")

// VerifRebroadcast is gpbft.Host.RequestRebroadcast of the running node.
func (m *F3) VerifRebroadcast(instant gpbft.Instant) error {
	r := m.verifRunner()
	if r == nil {
		return ErrVerifNotRunning
	}
	return (*gpbftHost)(r).RequestRebroadcast(instant)
}

func (m *F3) VerifFilterState() (uint64, []VerifSeen, []VerifActive, error) {
	r := m.verifRunner()
	if r == nil {
		return 0, nil, nil, ErrVerifNotRunning
	}
	c, s, a := verifFilterState(&r.equivFilter)
	return c, s, a, nil
}

// VerifSelfMessages lists selfMessages (all instances), unordered.
func (m *F3) VerifSelfMessages() []*gpbft.GMessage {
	r := m.verifRunner()
	if r == nil {
		return nil
	}
	r.msgsMutex.Lock()
	defer r.msgsMutex.Unlock()
	var res []*gpbft.GMessage
	for _, byRP := range r.selfMessages {
		for _, ms := range byRP {
			res = append(res, ms...)
		}
	}
	return res
}

// VerifMessageID computes the pubsub message id BroadcastMessage / rebroadcastMessage would publish
// msg under (same partial-message conversion, same encoding, same id function).
func (m *F3) VerifMessageID(msg *gpbft.GMessage) (string, error) {
	r := m.verifRunner()
	if r == nil {
		return "", ErrVerifNotRunning
	}
	pm, err := r.pmm.ToPartialGMessage(msg)
	if err != nil {
		return "", err
	}
	enc, err := r.msgEncoding.Encode(pm)
	if err != nil {
		return "", err
	}
	topic := r.manifest.PubSubTopic()
	return psutil.GPBFTMessageIdFn(&pubsub_pb.Message{Topic: &topic, Data: enc}), nil
}

func (m *F3) VerifTopic() string { return m.mfst.PubSubTopic() }

// VerifReadWAL opens a second, read-only view of a WAL directory and lists it.
func VerifReadWAL(dir string) ([]*gpbft.GMessage, error) {
	w, err := writeaheadlog.Open[walEntry](dir)
	if err != nil {
		return nil, err
	}
	es, err := w.All()
	if err != nil {
		return nil, err
	}
	res := make([]*gpbft.GMessage, len(es))
	for i, e := range es {
		res[i] = e.Message
	}
	return res, nil
}

// VerifAwaitTrim makes the completion of the certificate handler (purge of the WAL, then trimming of
// selfMessages below instance c) observable: call VerifPlantSentinel(c) before storing the
// certificate(s) up to c, then VerifAwaitTrim(c).
func (m *F3) VerifPlantSentinel(c uint64) {
	r := m.verifRunner()
	if r == nil || c == 0 {
		return
	}
	r.msgsMutex.Lock()
	defer r.msgsMutex.Unlock()
	for inst := range r.selfMessages {
		if inst < c {
			return
		}
	}
	r.selfMessages[c-1] = make(map[roundPhase][]*gpbft.GMessage)
}

func (m *F3) VerifAwaitTrim(ctx context.Context, c uint64, timeout time.Duration) bool {
	r := m.verifRunner()
	if r == nil {
		return false
	}
	deadline := time.Now().Add(timeout)
	for {
		r.msgsMutex.Lock()
		pending := false
		for inst := range r.selfMessages {
			if inst < c {
				pending = true
			}
		}
		r.msgsMutex.Unlock()
		if !pending {
			return true
		}
		if time.Now().After(deadline) || ctx.Err() != nil {
			return false
		}
		time.Sleep(50 * time.Microsecond)
	}
}
