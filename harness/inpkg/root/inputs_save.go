//go:build verif

package f3

// Accessor for h_inputs: the real gpbftHost.saveDecision (decision -> finality certificate with the power-table
// delta towards the next committee -> self-validation -> certstore.Put) over a caller-supplied EC backend,
// certificate store, verifier and clock, built the way newRunner fills those fields.

import (
	"context"

	"github.com/filecoin-project/go-f3/certs"
	"github.com/filecoin-project/go-f3/certstore"
	"github.com/filecoin-project/go-f3/ec"
	"github.com/filecoin-project/go-f3/gpbft"
	"github.com/filecoin-project/go-f3/internal/clock"
	"github.com/filecoin-project/go-f3/manifest"
)

func VerifSaveDecision(ctx context.Context, m manifest.Manifest, cs *certstore.Store, backend ec.Backend,
	verifier gpbft.Verifier, clk clock.Clock, d *gpbft.Justification) (*certs.FinalityCertificate, error) {
	r := &gpbftRunner{certStore: cs, manifest: m, ec: backend, clock: clk, verifier: verifier, runningCtx: ctx,
		inputs: newInputs(m, cs, backend, verifier, clk)}
	return (*gpbftHost)(r).saveDecision(ctx, d)
}
