//go:build verif

package f3

// Accessor for h_wal: the host's own record type walEntry (a POINTER to a GMessage, decoded through
// walEntry.UnmarshalCBOR) through the real write-ahead log: append the given messages, optionally cut bytes off
// the end of the newest log file (a torn tail), restart, read everything back.

import (
	"os"
	"path/filepath"
	"sort"

	"github.com/filecoin-project/go-f3/gpbft"
	"github.com/filecoin-project/go-f3/internal/writeaheadlog"
)

func VerifWalEntryRoundTrip(dir string, msgs []*gpbft.GMessage, cut int) (live, reopened []*gpbft.GMessage, err error) {
	w, err := writeaheadlog.Open[walEntry](dir)
	if err != nil {
		return nil, nil, err
	}
	for _, m := range msgs {
		if err := w.Append(walEntry{Message: m}); err != nil {
			return nil, nil, err
		}
	}
	es, err := w.All()
	if err != nil {
		return nil, nil, err
	}
	for _, e := range es {
		live = append(live, e.Message)
	}
	if cut > 0 {
		names, _ := filepath.Glob(filepath.Join(dir, "*.wal.cbor"))
		sort.Strings(names)
		if len(names) > 0 {
			last := names[len(names)-1]
			if st, err := os.Stat(last); err == nil && st.Size() > int64(cut) {
				_ = os.Truncate(last, st.Size()-int64(cut))
			}
		}
	}
	w2, err := writeaheadlog.Open[walEntry](dir)
	if err != nil {
		return live, nil, err
	}
	es, err = w2.All()
	if err != nil {
		return live, nil, err
	}
	for _, e := range es {
		reopened = append(reopened, e.Message)
	}
	return live, reopened, nil
}
