//go:build verif

package f3

// Accessor for the verification harness h_inputs (added at build time through -overlay): constructs
// the unexported consensus-inputs component of the F3 host over a caller-supplied EC backend,
// certificate store, verifier and clock — exactly what newRunner/newHost do.

import (
	"context"

	"github.com/filecoin-project/go-f3/certstore"
	"github.com/filecoin-project/go-f3/ec"
	"github.com/filecoin-project/go-f3/gpbft"
	"github.com/filecoin-project/go-f3/internal/clock"
	"github.com/filecoin-project/go-f3/manifest"
)

type VerifInputs struct{ in gpbftInputs }

func VerifNewInputs(m manifest.Manifest, cs *certstore.Store, backend ec.Backend, verifier gpbft.Verifier, clk clock.Clock) *VerifInputs {
	return &VerifInputs{in: newInputs(m, cs, backend, verifier, clk)}
}

func (v *VerifInputs) GetProposal(ctx context.Context, instance uint64) (*gpbft.SupplementalData, *gpbft.ECChain, error) {
	return v.in.GetProposal(ctx, instance)
}

func (v *VerifInputs) GetCommittee(ctx context.Context, instance uint64) (*gpbft.Committee, error) {
	return v.in.GetCommittee(ctx, instance)
}

func (v *VerifInputs) CollectChain(ctx context.Context, base, head ec.TipSet) ([]ec.TipSet, error) {
	return v.in.collectChain(ctx, base, head)
}
