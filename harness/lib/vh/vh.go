// Package vh holds the shared pieces of the verification harnesses: one
// splitmix64 PRNG (every random choice of a run derives from VERIF_SEED), a
// line-protocol writer that flushes per line, and small helpers.
package vh

import (
	"bufio"
	"fmt"
	"os"
	"strconv"
	"strings"
)

type Rng struct{ s uint64 }

func NewRng(seed uint64) *Rng { return &Rng{s: seed*0x9E3779B97F4A7C15 + 0x1234567} }

func (r *Rng) U64() uint64 {
	r.s += 0x9E3779B97F4A7C15
	z := r.s
	z = (z ^ (z >> 30)) * 0xBF58476D1CE4E5B9
	z = (z ^ (z >> 27)) * 0x94D049BB133111EB
	return z ^ (z >> 31)
}

// Intn returns a value in [0,n).
func (r *Rng) Intn(n int) int {
	if n <= 0 {
		return 0
	}
	return int(r.U64() % uint64(n))
}

func (r *Rng) Bool() bool { return r.U64()&1 == 1 }

// Chance returns true with probability num/den.
func (r *Rng) Chance(num, den int) bool { return r.Intn(den) < num }

// Fork derives an independent stream (for per-case replay).
func (r *Rng) Fork(tag uint64) *Rng { return NewRng(r.U64() ^ tag*0xD6E8FEB86659FD93) }

func Seed() uint64 {
	if s := os.Getenv("VERIF_SEED"); s != "" {
		if v, err := strconv.ParseUint(s, 10, 64); err == nil {
			return v
		}
	}
	return 1
}

func Tier() string {
	if t := os.Getenv("VERIF_TIER"); t != "" {
		return t
	}
	return "quick"
}

func Thorough() bool { return Tier() == "thorough" }

type Out struct{ w *bufio.Writer }

func NewOut() *Out { return &Out{w: bufio.NewWriterSize(os.Stdout, 1<<16)} }

func (o *Out) Line(format string, a ...any) {
	fmt.Fprintf(o.w, format, a...)
	o.w.WriteByte('\n')
}

func (o *Out) Flush() { o.w.Flush() }

func JoinInts[T ~int | ~int64 | ~uint64 | ~int32 | ~uint32](xs []T) string {
	if len(xs) == 0 {
		return "-"
	}
	parts := make([]string, len(xs))
	for i, x := range xs {
		parts[i] = fmt.Sprint(x)
	}
	return strings.Join(parts, ",")
}

// EnvInt reads an integer knob with a default.
func EnvInt(name string, def int) int {
	if s := os.Getenv(name); s != "" {
		if v, err := strconv.Atoi(s); err == nil {
			return v
		}
	}
	return def
}
