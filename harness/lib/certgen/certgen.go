// Package certgen builds finality certificates over evolving power tables with the repository's
// deterministic FakeBackend and renders them in the text form read by the Lean drivers
// (lean/F3/Model/CertsParse.lean). Shared by h_certs (C04) and h_certx (C16).
//
// Interning: byte strings whose content never matters to the modelled code (public keys, tipset
// keys, commitments, CIDs, network names) are replaced by small integers, 0 = empty/undefined.
// Aggregate signatures are replaced by the token "which (index,key) pairs aggregated which
// payload"; the table bytes -> token is filled for every aggregate the harness itself produces,
// all other byte strings are garbage tokens.
package certgen

import (
	"bytes"
	"context"
	"fmt"
	"math/big"
	"sort"
	"strings"

	"github.com/filecoin-project/go-bitfield"
	"github.com/filecoin-project/go-f3/certs"
	"github.com/filecoin-project/go-f3/gpbft"
	"github.com/filecoin-project/go-f3/internal/verifh/lib/vh"
	"github.com/filecoin-project/go-f3/sim/signing"
	gbig "github.com/filecoin-project/go-state-types/big"
	"github.com/ipfs/go-cid"
)

type Interner struct {
	m map[string]int
}

func NewInterner() *Interner { return &Interner{m: map[string]int{}} }

// ID returns 0 for the empty string, else a stable positive id.
func (in *Interner) ID(b []byte) int {
	if len(b) == 0 {
		return 0
	}
	if v, ok := in.m[string(b)]; ok {
		return v
	}
	v := len(in.m) + 1
	in.m[string(b)] = v
	return v
}

type Gen struct {
	Out     *vh.Out
	Rng     *vh.Rng
	Backend *signing.FakeBackend

	Keys, Tsk, Cids, Comms, Nets, Garbage *Interner
	sigTok                                map[string]string
	cidDone                               map[int]bool
	certIDs                               map[string]int
	nextKey                               int
	tsCounter                             int
}

func New(out *vh.Out, rng *vh.Rng) *Gen {
	return &Gen{Out: out, Rng: rng, Backend: signing.NewFakeBackend(),
		Keys: NewInterner(), Tsk: NewInterner(), Cids: NewInterner(), Comms: NewInterner(), Nets: NewInterner(),
		Garbage: NewInterner(), sigTok: map[string]string{}, cidDone: map[int]bool{}, certIDs: map[string]int{}}
}

// ---------------------------------------------------------------- keys, tables

func (g *Gen) NewKey() gpbft.PubKey {
	k := g.Backend.Allow(g.nextKey)
	g.nextKey++
	return k
}

func BigStr(p gpbft.StoragePower) string {
	if p.Int == nil {
		return "0"
	}
	return p.Int.String()
}

func (g *Gen) EntryText(e gpbft.PowerEntry) string {
	return fmt.Sprintf("%d:%s:%d", e.ID, BigStr(e.Power), g.Keys.ID(e.PubKey))
}

func (g *Gen) TableText(t gpbft.PowerEntries) string {
	if len(t) == 0 {
		return "-"
	}
	parts := make([]string, len(t))
	for i := range t {
		parts[i] = g.EntryText(t[i])
	}
	return strings.Join(parts, ",")
}

func (g *Gen) DiffText(d certs.PowerTableDiff) string {
	if len(d) == 0 {
		return "-"
	}
	parts := make([]string, len(d))
	for i := range d {
		parts[i] = fmt.Sprintf("%d:%s:%d", d[i].ParticipantID, BigStr(d[i].PowerDelta), g.Keys.ID(d[i].SigningKey))
	}
	return strings.Join(parts, ",")
}

func CloneTable(t gpbft.PowerEntries) gpbft.PowerEntries {
	if t == nil {
		return nil
	}
	out := make(gpbft.PowerEntries, len(t))
	for i, e := range t {
		out[i] = gpbft.PowerEntry{ID: e.ID, Power: CloneBig(e.Power), PubKey: bytes.Clone(e.PubKey)}
	}
	return out
}

func CloneBig(p gpbft.StoragePower) gpbft.StoragePower {
	if p.Int == nil {
		return gbig.Int{}
	}
	return gbig.Int{Int: new(big.Int).Set(p.Int)}
}

func CloneDiff(d certs.PowerTableDiff) certs.PowerTableDiff {
	if d == nil {
		return nil
	}
	out := make(certs.PowerTableDiff, len(d))
	for i, e := range d {
		out[i] = certs.PowerTableDelta{ParticipantID: e.ParticipantID, PowerDelta: CloneBig(e.PowerDelta), SigningKey: bytes.Clone(e.SigningKey)}
	}
	return out
}

// SameTable: deep, order-sensitive equality that tolerates nil big ints.
func SameTable(a, b gpbft.PowerEntries) bool {
	if len(a) != len(b) {
		return false
	}
	for i := range a {
		if a[i].ID != b[i].ID || BigStr(a[i].Power) != BigStr(b[i].Power) || !bytes.Equal(a[i].PubKey, b[i].PubKey) {
			return false
		}
	}
	return true
}

// Power styles for generated tables.
const (
	PowUniform = iota
	PowSkewed
	PowDust
	PowHuge
	PowMixed
	PowEqual
)

func (g *Gen) RandPower(style int) gpbft.StoragePower {
	r := g.Rng
	switch style {
	case PowUniform:
		return gbig.NewInt(int64(1 + r.Intn(1000)))
	case PowSkewed:
		return gbig.NewInt(int64(1) << uint(r.Intn(40)))
	case PowDust:
		return gbig.NewInt(int64(1 + r.Intn(3)))
	case PowHuge:
		v := new(big.Int).Lsh(big.NewInt(int64(1+r.Intn(1000))), uint(60+r.Intn(68)))
		return gbig.Int{Int: v}
	case PowEqual:
		return gbig.NewInt(10)
	default:
		return g.RandPower(r.Intn(4))
	}
}

// wideID: actor ids are arbitrary uint64s; a tenth of them are taken from the top half of the range (2^63 + x,
// 2^64 - x), so that tables mix ids more than 2^63 apart — where a comparison by subtraction would go wrong.
func (g *Gen) wideID(id uint64) uint64 {
	switch g.Rng.Intn(20) {
	case 0:
		return 1<<63 + id
	case 1:
		return ^uint64(0) - id + 1
	}
	return id
}

// RandTable: n entries, distinct ids drawn from [1, idRange], canonical order.
func (g *Gen) RandTable(n, idRange, style int) gpbft.PowerEntries {
	if idRange < n {
		idRange = n
	}
	used := map[uint64]bool{}
	t := make(gpbft.PowerEntries, 0, n)
	for len(t) < n {
		id := g.wideID(uint64(1 + g.Rng.Intn(idRange)))
		if used[id] {
			continue
		}
		used[id] = true
		t = append(t, gpbft.PowerEntry{ID: gpbft.ActorID(id), Power: g.RandPower(style), PubKey: g.NewKey()})
	}
	sort.Sort(t)
	return t
}

// Mutate returns a changed copy (canonical order): adds, removals, re-keys, re-weights.
func (g *Gen) Mutate(t gpbft.PowerEntries, nmut, idRange, style int) gpbft.PowerEntries {
	r := g.Rng
	out := CloneTable(t)
	for k := 0; k < nmut; k++ {
		switch c := r.Intn(5); {
		case c == 0 || len(out) == 0: // add
			used := map[gpbft.ActorID]bool{}
			for _, e := range out {
				used[e.ID] = true
			}
			for tries := 0; tries < 50; tries++ {
				id := gpbft.ActorID(g.wideID(uint64(1 + r.Intn(idRange+5))))
				if !used[id] {
					out = append(out, gpbft.PowerEntry{ID: id, Power: g.RandPower(style), PubKey: g.NewKey()})
					break
				}
			}
		case c == 1 && len(out) > 1: // remove
			i := r.Intn(len(out))
			out = append(out[:i], out[i+1:]...)
		case c == 2: // re-key
			out[r.Intn(len(out))].PubKey = g.NewKey()
		case c == 3: // re-weight
			out[r.Intn(len(out))].Power = g.RandPower(style)
		default: // re-weight by a small step (keeps order mostly)
			i := r.Intn(len(out))
			np := gbig.Add(out[i].Power, gbig.NewInt(int64(1+r.Intn(5))))
			out[i].Power = np
		}
	}
	sort.Sort(out)
	return out
}

// ---------------------------------------------------------------- CIDs, tipsets, chains

// CidID interns a CID (0 = undefined).
func (g *Gen) CidID(c cid.Cid) int {
	if !c.Defined() {
		return 0
	}
	return g.Cids.ID(c.Bytes())
}

// TableCid computes the real CID of the table and emits the dictionary line once.
func (g *Gen) TableCid(t gpbft.PowerEntries) cid.Cid {
	c, err := certs.MakePowerTableCID(t)
	if err != nil {
		panic(fmt.Sprintf("MakePowerTableCID: %v", err))
	}
	id := g.CidID(c)
	if !g.cidDone[id] {
		g.cidDone[id] = true
		g.Out.Line("cid %d %s", id, g.TableText(t))
	}
	return c
}

func (g *Gen) TipText(ts *gpbft.TipSet) string {
	if ts == nil {
		return "0:0:0:0:0:0"
	}
	return fmt.Sprintf("%d:%d:%d:%d:%d:%d", ts.Epoch, g.Tsk.ID(ts.Key), len(ts.Key), g.CidID(ts.PowerTable),
		ts.PowerTable.ByteLen(), g.Comms.ID(nonZero32(ts.Commitments)))
}

func nonZero32(b [32]byte) []byte {
	if b == ([32]byte{}) {
		return nil
	}
	return b[:]
}

func (g *Gen) ChainText(c *gpbft.ECChain) string {
	if c == nil || len(c.TipSets) == 0 {
		return "-"
	}
	parts := make([]string, len(c.TipSets))
	for i, ts := range c.TipSets {
		parts[i] = g.TipText(ts)
	}
	return strings.Join(parts, ";")
}

func (g *Gen) OptTipText(ts *gpbft.TipSet) string {
	if ts == nil {
		return "-"
	}
	return g.TipText(ts)
}

// NewTipSet makes a fresh valid tipset at the given epoch.
func (g *Gen) NewTipSet(epoch int64, pt cid.Cid) *gpbft.TipSet {
	g.tsCounter++
	key := []byte(fmt.Sprintf("tsk-%06d-%x", g.tsCounter, g.Rng.U64()&0xffff))
	ts := &gpbft.TipSet{Epoch: epoch, Key: key, PowerTable: pt}
	if g.Rng.Chance(1, 4) {
		for i := range ts.Commitments {
			ts.Commitments[i] = byte(g.Rng.U64())
		}
	}
	return ts
}

// Extend returns base followed by n fresh tipsets with increasing epochs (gaps allowed).
func (g *Gen) Extend(base *gpbft.TipSet, n int, pt cid.Cid) *gpbft.ECChain {
	ts := []*gpbft.TipSet{base}
	ep := base.Epoch
	for i := 0; i < n; i++ {
		ep += int64(1 + g.Rng.Intn(3))
		ts = append(ts, g.NewTipSet(ep, pt))
	}
	return &gpbft.ECChain{TipSets: ts}
}

func CloneTip(ts *gpbft.TipSet) *gpbft.TipSet {
	if ts == nil {
		return nil
	}
	c := *ts
	c.Key = bytes.Clone(ts.Key)
	return &c
}

func CloneChain(c *gpbft.ECChain) *gpbft.ECChain {
	if c == nil {
		return nil
	}
	out := &gpbft.ECChain{TipSets: make([]*gpbft.TipSet, len(c.TipSets))}
	for i, ts := range c.TipSets {
		out.TipSets[i] = CloneTip(ts)
	}
	return out
}

// ---------------------------------------------------------------- signing

func (g *Gen) NetID(nn gpbft.NetworkName) int { return g.Nets.ID([]byte(nn)) }

// Sign produces the aggregate of `signers` (ascending indices into table) over the payload and
// records its token. Signers out of range or with keys the backend cannot sign for are skipped in
// the aggregate (the caller adds such bits to the bitfield separately).
func (g *Gen) Sign(nn gpbft.NetworkName, table gpbft.PowerEntries, p *gpbft.Payload, signers []int) []byte {
	msg := p.MarshalForSigning(nn)
	sort.Ints(signers)
	mask := make([]int, 0, len(signers))
	sigs := make([][]byte, 0, len(signers))
	pairs := make([]string, 0, len(signers))
	for _, i := range signers {
		if i < 0 || i >= len(table) {
			continue
		}
		s, err := g.Backend.Sign(context.Background(), table[i].PubKey, msg)
		if err != nil {
			continue
		}
		mask = append(mask, i)
		sigs = append(sigs, s)
		pairs = append(pairs, fmt.Sprintf("%d:%d", i, g.Keys.ID(table[i].PubKey)))
	}
	agg, err := g.Backend.Aggregate(table.PublicKeys())
	if err != nil {
		panic(fmt.Sprintf("aggregate: %v", err))
	}
	sig, err := agg.Aggregate(mask, sigs)
	if err != nil {
		panic(fmt.Sprintf("aggregate: %v", err))
	}
	ps := "-"
	if len(pairs) > 0 {
		ps = strings.Join(pairs, ",")
	}
	if len(mask) > 0 { // the empty aggregate is payload independent: never give it a token
		g.sigTok[string(sig)] = fmt.Sprintf("a/%d/%d/%d/%d/%d/%d/%s/%s", g.NetID(nn), p.Instance, p.Round, uint8(p.Phase),
			g.Comms.ID(nonZero32(p.SupplementalData.Commitments)), g.CidID(p.SupplementalData.PowerTable), g.ChainText(p.Value), ps)
	}
	return sig
}

func (g *Gen) SigText(sig []byte) string {
	if t, ok := g.sigTok[string(sig)]; ok {
		return t
	}
	return fmt.Sprintf("g%d", g.Garbage.ID(append([]byte{1}, sig...)))
}

// StrongSigners picks a random signer set with strong quorum among entries with non-zero scaled
// power: random order, stop as soon as 3*sum >= 2*total, then `extra` further members.
// Returns nil if impossible.
func (g *Gen) StrongSigners(table gpbft.PowerEntries, extra int) []int {
	scaled, total, err := table.Scaled()
	if err != nil {
		return nil
	}
	perm := g.Perm(len(table))
	var out []int
	var sum int64
	rest := 0
	for _, i := range perm {
		if scaled[i] == 0 {
			continue
		}
		if 3*sum >= 2*total && len(out) > 0 {
			if rest >= extra {
				break
			}
			rest++
		}
		out = append(out, i)
		sum += scaled[i]
	}
	if 3*sum < 2*total || len(out) == 0 {
		return nil
	}
	sort.Ints(out)
	return out
}

func (g *Gen) Perm(n int) []int {
	p := make([]int, n)
	for i := range p {
		p[i] = i
	}
	for i := n - 1; i > 0; i-- {
		j := g.Rng.Intn(i + 1)
		p[i], p[j] = p[j], p[i]
	}
	return p
}

func Bitfield(signers []int) bitfield.BitField {
	bits := make([]uint64, len(signers))
	for i, s := range signers {
		bits[i] = uint64(s)
	}
	return bitfield.NewFromSet(bits)
}

// MakeCert builds a certificate for `inst` finalising `chain` under `table`, committing to `next`.
func (g *Gen) MakeCert(nn gpbft.NetworkName, inst uint64, chain *gpbft.ECChain, table, next gpbft.PowerEntries, signers []int, comm [32]byte) *certs.FinalityCertificate {
	supp := gpbft.SupplementalData{Commitments: comm, PowerTable: g.TableCid(next)}
	p := &gpbft.Payload{Instance: inst, Round: 0, Phase: gpbft.DECIDE_PHASE, SupplementalData: supp, Value: chain}
	sig := g.Sign(nn, table, p, signers)
	return &certs.FinalityCertificate{
		GPBFTInstance:    inst,
		ECChain:          chain,
		SupplementalData: supp,
		Signers:          Bitfield(signers),
		Signature:        sig,
		PowerTableDelta:  certs.MakePowerTableDiff(table, next),
	}
}

// Resign recomputes the aggregate for the certificate's current fields with the given signers.
// A chain the real code cannot marshal (nil tipset) keeps its old signature.
func (g *Gen) Resign(nn gpbft.NetworkName, c *certs.FinalityCertificate, table gpbft.PowerEntries, signers []int) {
	defer func() { _ = recover() }()
	// ECChain caches its merkle key: always sign (and later validate) a fresh object
	c.ECChain = CloneChain(c.ECChain)
	p := &gpbft.Payload{Instance: c.GPBFTInstance, Round: 0, Phase: gpbft.DECIDE_PHASE, SupplementalData: c.SupplementalData, Value: c.ECChain}
	c.Signature = g.Sign(nn, table, p, signers)
	c.Signers = Bitfield(signers)
}

func CloneCert(c *certs.FinalityCertificate) *certs.FinalityCertificate {
	out := *c
	out.ECChain = CloneChain(c.ECChain)
	out.Signature = bytes.Clone(c.Signature)
	out.PowerTableDelta = CloneDiff(c.PowerTableDelta)
	if bf, err := c.Signers.Copy(); err == nil {
		out.Signers = bf
	}
	return &out
}

// SignerList returns the set bits in iteration order (capped), ok=false if iteration fails.
func SignerList(bf bitfield.BitField) (out []uint64, ok bool) {
	defer func() {
		if recover() != nil {
			ok = false
		}
	}()
	stop := fmt.Errorf("stop")
	err := bf.ForEach(func(i uint64) error {
		out = append(out, i)
		if len(out) >= 4096 {
			return stop
		}
		return nil
	})
	if err != nil && err != stop {
		return nil, false
	}
	return out, true
}

func (g *Gen) CertText(c *certs.FinalityCertificate) string {
	signers := "!"
	if l, ok := SignerList(c.Signers); ok {
		signers = vh.JoinInts(l)
	}
	return fmt.Sprintf("%d|%s|%d|%d|%s|%s|%s", c.GPBFTInstance, g.ChainText(c.ECChain),
		g.Comms.ID(nonZero32(c.SupplementalData.Commitments)), g.CidID(c.SupplementalData.PowerTable), signers,
		g.SigText(c.Signature), g.DiffText(c.PowerTableDelta))
}

// CertID interns the certificate by its text form and emits the dictionary line once.
func (g *Gen) CertID(c *certs.FinalityCertificate) int {
	txt := g.CertText(c)
	if id, ok := g.certIDs[txt]; ok {
		return id
	}
	id := len(g.certIDs) + 1
	g.certIDs[txt] = id
	g.Out.Line("cert %d %s", id, txt)
	return id
}

func (g *Gen) CertIDs(cs []*certs.FinalityCertificate) string {
	if len(cs) == 0 {
		return "-"
	}
	parts := make([]string, len(cs))
	for i, c := range cs {
		parts[i] = fmt.Sprint(g.CertID(c))
	}
	return strings.Join(parts, ",")
}

// ---------------------------------------------------------------- histories

// History is a valid run of certificates: Tables[i] is in force for instance First+i.
type History struct {
	NN     gpbft.NetworkName
	First  uint64
	Base   *gpbft.TipSet
	Tables []gpbft.PowerEntries
	Certs  []*certs.FinalityCertificate
}

type HistOpts struct {
	N          int // certificates
	First      uint64
	TableSize  int
	IDRange    int
	Style      int
	ChangeProb int // percent chance that the table changes at an instance
	MaxSuffix  int
	Initial    gpbft.PowerEntries // optional
}

func (g *Gen) History(nn gpbft.NetworkName, o HistOpts) *History {
	h := &History{NN: nn, First: o.First}
	t := o.Initial
	if t == nil {
		for tries := 0; ; tries++ {
			t = g.RandTable(o.TableSize, o.IDRange, o.Style)
			if g.StrongSigners(t, 0) != nil || tries > 20 {
				break
			}
		}
	}
	h.Tables = append(h.Tables, t)
	h.Base = g.NewTipSet(int64(g.Rng.Intn(1000)), g.TableCid(t))
	base := h.Base
	for i := 0; i < o.N; i++ {
		cur := h.Tables[len(h.Tables)-1]
		next := cur
		if g.Rng.Intn(100) < o.ChangeProb {
			for tries := 0; tries < 10; tries++ {
				cand := g.Mutate(cur, 1+g.Rng.Intn(3), o.IDRange, o.Style)
				if g.StrongSigners(cand, 0) != nil {
					next = cand
					break
				}
			}
		}
		nsuf := 0
		if o.MaxSuffix > 0 {
			nsuf = g.Rng.Intn(o.MaxSuffix + 1)
		}
		chain := g.Extend(base, nsuf, g.TableCid(cur))
		signers := g.StrongSigners(cur, g.Rng.Intn(3))
		if signers == nil {
			break
		}
		var comm [32]byte
		if g.Rng.Chance(1, 3) {
			for j := range comm {
				comm[j] = byte(g.Rng.U64())
			}
		}
		c := g.MakeCert(nn, o.First+uint64(i), chain, cur, next, signers, comm)
		h.Certs = append(h.Certs, c)
		h.Tables = append(h.Tables, next)
		base = chain.TipSets[len(chain.TipSets)-1]
	}
	return h
}
