// Package bsig wraps the repository's deterministic FakeBackend so that an aggregate depends on the COMPLETE list
// of public keys it was created over, as real BLS/BDN aggregation does (the coefficients are a hash over every
// key of the committee, not only the signers'): an aggregate verifier built over a different key list — e.g. one
// with members trimmed or reordered — rejects signatures made over the full list. With the plain FakeBackend such
// a difference is invisible.
package bsig

import (
	"bytes"
	"crypto/sha256"
	"errors"

	"github.com/filecoin-project/go-f3/gpbft"
	"github.com/filecoin-project/go-f3/sim/signing"
)

type Backend struct {
	*signing.FakeBackend
}

func New() *Backend { return &Backend{FakeBackend: signing.NewFakeBackend()} }

type aggregate struct {
	inner gpbft.Aggregate
	bind  []byte
}

func (b *Backend) Aggregate(keys []gpbft.PubKey) (gpbft.Aggregate, error) {
	in, err := b.FakeBackend.Aggregate(keys)
	if err != nil {
		return nil, err
	}
	h := sha256.New()
	for _, k := range keys {
		h.Write([]byte{byte(len(k))})
		h.Write(k)
	}
	return &aggregate{inner: in, bind: h.Sum(nil)[:8]}, nil
}

func (a *aggregate) Aggregate(mask []int, sigs [][]byte) ([]byte, error) {
	s, err := a.inner.Aggregate(mask, sigs)
	if err != nil {
		return nil, err
	}
	return append(s, a.bind...), nil
}

func (a *aggregate) VerifyAggregate(mask []int, payload, sig []byte) error {
	if len(sig) < len(a.bind) || !bytes.Equal(sig[len(sig)-len(a.bind):], a.bind) {
		return errors.New("aggregate was made over another list of public keys")
	}
	return a.inner.VerifyAggregate(mask, payload, sig[:len(sig)-len(a.bind)])
}
