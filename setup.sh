#!/bin/sh
# MANIFEST.setup_cmd: build the framework offline from files on disk. Every check rebuilds what it
# needs from /repo's working tree anyway; setup only warms the caches, so a component that does not
# build is reported here and by its own check, not fatal for the others.
cd "$(dirname "$0")"
export GOFLAGS=-mod=mod GOPROXY=off
unset GOSUMDB
mkdir -p bin work evidence
(cd tools/go2lean && go build -o ../../bin/go2lean .) || { echo "FATAL: translator does not build"; exit 1; }
python3 - <<'PY'
import sys, os, glob, subprocess
sys.path.insert(0, os.getcwd())
from checks import common
with common.Lock():
    common.gen_lakefile()
    ok, msg = common.regen()
    print("regen", "ok" if ok else "FAILED " + msg)
# per-area generators that Props/Driver modules import (regenerated again by their own checks)
try:
    from checks import c14
    print("schema facts", c14.regen_schema())
except Exception as e:
    print("schema facts FAILED", e)
mods = sorted(os.path.splitext(os.path.basename(p))[0] for p in glob.glob("lean/F3/Props/*.lean"))
for m in mods:
    rc, out = common.lake_build(["F3.Props." + m])
    print("lean F3.Props." + m, "ok" if rc == 0 else "DOES NOT BUILD (its check will report)")
for a in common.gen_lakefile():
    p, out = common.build_driver(a)
    print("driver", a, "ok" if p else "DOES NOT BUILD")
for d in sorted(glob.glob("harness/cmd/*")):
    name = os.path.basename(d)
    p, out = common.build_harness(name)
    print("harness", name, "ok" if p else "DOES NOT BUILD\n" + out[-800:])
PY
echo setup done
