#!/bin/sh
# MANIFEST.setup_cmd: build the framework offline from files on disk.
set -e
cd "$(dirname "$0")"
export GOFLAGS=-mod=mod GOPROXY=off
unset GOSUMDB
mkdir -p bin work evidence
(cd tools/go2lean && go build -o ../../bin/go2lean .)
bin/go2lean /repo tools/go2lean/targets.json lean/F3/Gen/Core.lean
python3 -c "import sys; sys.path.insert(0, \".\"); from checks import common; common.gen_lakefile()"
for p in lean/F3/Props/*.lean; do (cd lean && lake build F3.Props.$(basename $p .lean)) || echo "WARN: $p does not build"; done
for d in lean/Driver/*.lean; do a=$(basename $d .lean); [ "$a" = Util ] || (cd lean && lake build f3d_$(echo $a | tr A-Z a-z)); done
# warm the Go build cache for the harnesses (compiles go-f3 with the verif tag)
python3 - <<'PY'
import sys, os
sys.path.insert(0, os.getcwd())
from checks import common
import glob
for d in sorted(glob.glob("harness/cmd/*")):
    name = os.path.basename(d)
    p, out = common.build_harness(name)
    print("harness", name, "ok" if p else "FAILED\n" + out[-2000:])
    if not p:
        sys.exit(1)
PY
echo setup done
