#!/usr/bin/env python3
"""tools/covreport.py <Cxx> [--tier quick|thorough] [--files regex]

Supporting tool (not a check): measures which statements of the Go files a property is anchored in are executed
by that property's correspondence harnesses. It runs the property's own check module with `build_harness`
replaced by a coverage build (`go build -cover`) made from a scratch copy of /repo in which the overlay files are
materialised (`-cover` and `-overlay` do not compose), collects GOCOVERDIR data of every harness run, and prints
the functions below 100 % with their uncovered blocks. Blind spots of the generators show up here: a seeded change
inside a block that no harness run executes cannot be seen by the correspondence. The evidence file of the
property is restored afterwards; the scratch copy is removed.
"""
import argparse
import importlib
import json
import os
import re
import shutil
import subprocess
import sys

VERIF = os.path.dirname(os.path.dirname(os.path.abspath(__file__)))
sys.path.insert(0, VERIF)
from checks import common  # noqa: E402


def main():
    ap = argparse.ArgumentParser()
    ap.add_argument("prop")
    ap.add_argument("--tier", default="quick")
    ap.add_argument("--files", default=None, help="regex on file paths (default: the property's anchored files)")
    ap.add_argument("--out", default=None)
    a = ap.parse_args()
    prop = a.prop.upper()
    scratch = "/var/tmp/verif-cov-%d" % os.getpid()
    covdir = scratch + "-data"
    shutil.rmtree(scratch, ignore_errors=True)
    shutil.rmtree(covdir, ignore_errors=True)
    shutil.copytree(common.REPO, scratch, symlinks=True)
    os.makedirs(covdir)
    os.environ["GOCOVERDIR"] = covdir

    def build_cov(name, race=False):
        with common.Lock():
            ov = json.load(open(common.gen_overlay(name)))["Replace"]
            for dst, src in ov.items():
                d = dst.replace(common.REPO, scratch, 1)
                os.makedirs(os.path.dirname(d), exist_ok=True)
                shutil.copy(src, d)
            tgt = os.path.join(common.BIN, "%s_cov.%d" % (name, os.getpid()))
            cmd = ["go", "build", "-tags", "verif", "-cover", "-o", tgt, "./internal/verifh/cmd/" + name]
            rc, out = common.sh(cmd, cwd=scratch, env=common.goenv(), timeout=3000)
            if rc != 0:
                return None, out
            return tgt, out

    common.build_harness = build_cov
    evp = os.path.join(VERIF, "evidence", prop + ".json")
    saved = open(evp).read() if os.path.exists(evp) else None
    try:
        mod = importlib.import_module("checks." + prop.lower())
        ctx = common.Ctx(prop, a.tier, int(os.environ.get("VERIF_SEED", "1")))
        ctx.prove = lambda *x, **k: {"obligations": 0, "discharged": 0, "failed": [], "translator_ok": True,
                                     "messages": [], "theorems": [], "prop": prop}
        rc = mod.run(ctx)
        print("check exit code under coverage build:", rc)
    finally:
        if saved is not None:
            open(evp, "w").write(saved)
    txt = covdir + ".txt"
    subprocess.run(["go", "tool", "covdata", "textfmt", "-i=" + covdir, "-o", txt], cwd=scratch, env=common.goenv())
    files = a.files
    if files is None:
        for l in open(os.path.join(VERIF, "properties.jsonl")):
            p = json.loads(l)
            if p["id"] == prop:
                anchors = p.get("code_anchors") or p.get("anchors") or {}
                files = "|".join(re.escape(f) for f in anchors.get("files", []))
    rx = re.compile(files or ".")
    blocks = {}
    for l in open(txt):
        m = re.match(r"github.com/filecoin-project/go-f3/(\S+?):(\d+)\.(\d+),(\d+)\.(\d+) (\d+) (\d+)", l)
        if not m:
            continue
        f, l0, c0, l1, c1, nst, cnt = m.groups()
        if not rx.search(f) or f.endswith("cbor_gen.go"):
            continue
        key = (f, int(l0), int(l1))
        b = blocks.setdefault(key, [int(nst), 0])
        b[1] += int(cnt)
    out = []
    perfile = {}
    for (f, l0, l1), (nst, cnt) in sorted(blocks.items()):
        t = perfile.setdefault(f, [0, 0])
        t[0] += nst
        t[1] += nst if cnt else 0
    for f, (tot, cov) in sorted(perfile.items()):
        out.append("%-45s %5d statements, %5.1f%% executed" % (f, tot, 100.0 * cov / max(tot, 1)))
    out.append("")
    for (f, l0, l1), (nst, cnt) in sorted(blocks.items()):
        if cnt:
            continue
        src = open(os.path.join(scratch, f)).read().splitlines()
        snippet = " ".join(s.strip() for s in src[l0 - 1:min(l1, l0 + 2)])[:150]
        out.append("%s:%d-%d  %s" % (f, l0, l1, snippet))
    report = "\n".join(out)
    print(report)
    if a.out:
        with open(a.out, "w") as fh:
            fh.write(report + "\n")
    shutil.rmtree(scratch, ignore_errors=True)
    shutil.rmtree(covdir, ignore_errors=True)
    for f in (txt,):
        try:
            os.remove(f)
        except OSError:
            pass


if __name__ == "__main__":
    main()
