#!/usr/bin/env python3
"""tools/seedconfirm.py <seed-dir> [--full]

Confirms a seeded change independently of whoever wrote it, in a scratch git worktree of /repo under /tmp
(removed afterwards): (1) the demonstration PASSES on the clean tree, (2) the patch applies and `go build ./...`
succeeds, (3) the demonstration FAILS with the patch, (4) the existing tests of the affected packages still pass
with the patch (gpbft => also ./sim/..., root package => `go test .`; --full adds the slow ./test/... package).
Prints one JSON line and writes <seed-dir>/confirm.json.
"""
import json
import os
import re
import shutil
import subprocess
import sys
import time


def sh(cmd, cwd, timeout=3000):
    e = dict(os.environ)
    e["GOFLAGS"] = "-mod=mod"
    e["GOPROXY"] = "off"
    e.pop("GOSUMDB", None)
    p = subprocess.run(cmd, cwd=cwd, shell=True, env=e, stdout=subprocess.PIPE, stderr=subprocess.STDOUT, text=True, timeout=timeout)
    return p.returncode, p.stdout


def main():
    d = os.path.abspath(sys.argv[1])
    full = "--full" in sys.argv
    sid = os.path.basename(d)
    wt = "/tmp/confirm-%s-%d" % (sid, os.getpid())
    res = {"id": sid, "ok": False}
    readme = open(os.path.join(d, "README.txt")).read() if os.path.exists(os.path.join(d, "README.txt")) else ""
    # demo files: every `cp <src> <dst>` of the README whose source is in the seed directory
    readme = re.sub(r"<[^>\n]*tree[^>\n]*>/?", "", readme)  # "<tree>/gpbft/x_test.go" -> "gpbft/x_test.go"
    readme = re.sub(r"cd\s+&&\s*", "", readme)
    cps = re.findall(r"cp\s+(\S+)\s+(\S+)", readme)
    tests = re.findall(r"(go (?:test|run) [^\n]*)", readme)
    demo_cmd = None
    for t in tests:
        if "-run" in t or "go run" in t:
            demo_cmd = t.strip().rstrip(")").strip()
            break
    if not cps or not demo_cmd:
        res["error"] = "cannot parse README (cp / go test lines)"
        print(json.dumps(res))
        return 2
    demo_cmd = re.sub(r"\s+\(.*$", "", demo_cmd)
    demo_cmd = demo_cmd.replace("'", "")
    subprocess.run(["git", "-C", "/repo", "worktree", "add", "--detach", wt, "HEAD"], stdout=subprocess.DEVNULL, stderr=subprocess.DEVNULL)
    try:
        placed = []
        for src, dst in cps:
            srcp = os.path.join(d, os.path.basename(src))
            if not os.path.exists(srcp):
                continue
            dstp = os.path.join(wt, dst)
            if dst.endswith("/") or os.path.isdir(dstp):
                dstp = os.path.join(dstp, os.path.basename(src))
            os.makedirs(os.path.dirname(dstp), exist_ok=True)
            shutil.copy(srcp, dstp)
            placed.append(dstp)
        t0 = time.time()
        rc, out = sh(demo_cmd, wt)
        res["demo_clean_pass"] = rc == 0
        res["demo_clean_tail"] = out[-300:] if rc != 0 else ""
        rc, out = sh("git apply %s" % os.path.join(d, "patch.diff"), wt)
        res["applies"] = rc == 0
        rc, out = sh("go build ./...", wt)
        res["builds"] = rc == 0
        rc, out = sh(demo_cmd, wt)
        res["demo_patched_fails"] = rc != 0
        res["demo_patched_tail"] = out[-400:]
        for p in placed:
            os.remove(p)
        rc, files = sh("git diff --name-only", wt)
        pk = set()
        for f in files.split():
            dd = os.path.dirname(f)
            pk.add("./" + dd + "/..." if dd else ".")
        if any(p.startswith("./gpbft") for p in pk):
            pk.add("./sim/...")
            pk.add("./certs/...")
        if full:
            pk.add("./test/...")
        res["packages"] = sorted(pk)
        rc, out = sh("go test -vet=off -count=1 -timeout 25m %s" % " ".join(sorted(pk)), wt, timeout=4000)
        res["tests_pass_with_patch"] = rc == 0
        if rc != 0:
            res["tests_tail"] = "\n".join(l for l in out.splitlines() if l.startswith(("--- FAIL", "FAIL", "panic")))[:600]
        res["seconds"] = int(time.time() - t0)
        res["ok"] = all(res.get(k) for k in ("demo_clean_pass", "applies", "builds", "demo_patched_fails", "tests_pass_with_patch"))
    finally:
        subprocess.run(["git", "-C", "/repo", "worktree", "remove", "--force", wt], stdout=subprocess.DEVNULL, stderr=subprocess.DEVNULL)
        shutil.rmtree(wt, ignore_errors=True)
    with open(os.path.join(d, "confirm.json"), "w") as fh:
        json.dump(res, fh, indent=1)
    print(json.dumps(res))
    return 0 if res["ok"] else 1


if __name__ == "__main__":
    sys.exit(main())
