// schemafacts: extracts, from the go-f3 working tree, the facts the C14 CBOR model depends on and
// writes them as Lean definitions (lean/F3/Gen/Schema.lean):
//
//   - which types have generated tuple codecs (the argument lists of gen/main.go);
//   - for each such type: the struct fields in declaration order with their resolved Go types and
//     `cborgen:"maxlen=N"` tags (documented limits; cbor-gen defaults when untagged);
//   - from the generated cbor_gen.go files: per field the limit enforced by MarshalCBOR
//     (`len(t.F) > N`), the limit enforced by UnmarshalCBOR (`extra > N`), the tuple arity on both
//     sides (`lengthBufT = []byte{0x80+n}`, `extra != n`), fixed-array lengths, nil handling;
//   - that the field order of struct, encoder and decoder coincide;
//   - that ECChain's hand-written codec goes through LegacyECChain;
//   - a few constants (chain / key / CID maxima, zstd cap, domain separation tags).
//
// Usage: schemafacts <repo-root> <out.lean>
// Only go/ast, go/parser, go/token. Anything unexpected is an error ("schema extraction broken").
package main

import (
	"fmt"
	"go/ast"
	"go/parser"
	"go/token"
	"os"
	"path/filepath"
	"regexp"
	"sort"
	"strconv"
	"strings"
)

const (
	defaultByteMax  = 2 << 20 // cbg.ByteArrayMaxLen
	defaultSliceMax = 8192    // cbg.MaxLength
)

func die(format string, a ...any) {
	fmt.Fprintf(os.Stderr, "schema extraction broken: "+format+"\n", a...)
	os.Exit(1)
}

type pkgInfo struct {
	name   string
	dir    string
	fset   *token.FileSet
	files  map[string]*ast.File
	types  map[string]*ast.TypeSpec
	consts map[string]ast.Expr
	funcs  map[string]*ast.FuncDecl // "Recv.Name"
}

var pkgs = map[string]*pkgInfo{}
var repo string

func loadPkg(name, rel string) *pkgInfo {
	if p, ok := pkgs[name]; ok {
		return p
	}
	dir := filepath.Join(repo, rel)
	fset := token.NewFileSet()
	m, err := parser.ParseDir(fset, dir, func(fi os.FileInfo) bool {
		return !strings.HasSuffix(fi.Name(), "_test.go") && !strings.HasPrefix(fi.Name(), "zz_verif_")
	}, parser.ParseComments)
	if err != nil {
		die("parse %s: %v", dir, err)
	}
	p := &pkgInfo{name: name, dir: dir, fset: fset, files: map[string]*ast.File{}, types: map[string]*ast.TypeSpec{},
		consts: map[string]ast.Expr{}, funcs: map[string]*ast.FuncDecl{}}
	for _, ap := range m {
		if strings.HasSuffix(ap.Name, "_test") {
			continue
		}
		for fn, f := range ap.Files {
			p.files[filepath.Base(fn)] = f
			for _, d := range f.Decls {
				switch d := d.(type) {
				case *ast.GenDecl:
					for _, s := range d.Specs {
						switch s := s.(type) {
						case *ast.TypeSpec:
							p.types[s.Name.Name] = s
						case *ast.ValueSpec:
							if d.Tok == token.CONST {
								for i, n := range s.Names {
									if i < len(s.Values) {
										p.consts[n.Name] = s.Values[i]
									}
								}
							}
						}
					}
				case *ast.FuncDecl:
					if d.Recv != nil && len(d.Recv.List) == 1 {
						p.funcs[recvName(d.Recv.List[0].Type)+"."+d.Name.Name] = d
					}
				}
			}
		}
	}
	pkgs[name] = p
	return p
}

func recvName(e ast.Expr) string {
	switch e := e.(type) {
	case *ast.StarExpr:
		return recvName(e.X)
	case *ast.Ident:
		return e.Name
	}
	return "?"
}

// constant evaluation: integer literals, identifiers of the same package, * + - << and parentheses
func evalConst(p *pkgInfo, e ast.Expr) (int64, bool) {
	switch e := e.(type) {
	case *ast.BasicLit:
		if e.Kind == token.INT {
			v, err := strconv.ParseInt(e.Value, 0, 64)
			return v, err == nil
		}
	case *ast.Ident:
		if c, ok := p.consts[e.Name]; ok {
			return evalConst(p, c)
		}
	case *ast.SelectorExpr:
		if x, ok := e.X.(*ast.Ident); ok {
			if x.Name == "math" && e.Sel.Name == "MaxUint8" {
				return 255, true
			}
			if q, ok := pkgs[x.Name]; ok {
				if c, ok := q.consts[e.Sel.Name]; ok {
					return evalConst(q, c)
				}
			}
		}
	case *ast.ParenExpr:
		return evalConst(p, e.X)
	case *ast.BinaryExpr:
		a, ok1 := evalConst(p, e.X)
		b, ok2 := evalConst(p, e.Y)
		if ok1 && ok2 {
			switch e.Op {
			case token.MUL:
				return a * b, true
			case token.ADD:
				return a + b, true
			case token.SUB:
				return a - b, true
			case token.SHL:
				return a << uint(b), true
			}
		}
	}
	return 0, false
}

// ---- resolved Go types ---------------------------------------------------------------------------

type goType struct {
	kind  string // uint64 uint8 int64 bool bytes fixed cid bigint bitfield slice struct ptr
	n     int64  // fixed length
	elem  *goType
	pkg   string // struct / named
	name  string
	named string // outermost named type for documentation
}

func resolve(p *pkgInfo, e ast.Expr, depth int) *goType {
	if depth > 20 {
		die("type recursion")
	}
	switch e := e.(type) {
	case *ast.Ident:
		switch e.Name {
		case "uint64":
			return &goType{kind: "uint64"}
		case "uint8", "byte":
			return &goType{kind: "uint8"}
		case "int64":
			return &goType{kind: "int64"}
		case "bool":
			return &goType{kind: "bool"}
		}
		ts, ok := p.types[e.Name]
		if !ok {
			die("unknown type %s.%s", p.name, e.Name)
		}
		if _, isStruct := ts.Type.(*ast.StructType); isStruct {
			return &goType{kind: "struct", pkg: p.name, name: e.Name}
		}
		t := resolve(p, ts.Type, depth+1)
		// a named slice of structs keeps its name (it has its own generated codec)
		if t.kind == "slice" && t.name == "" {
			t.pkg, t.name = p.name, e.Name
		}
		return t
	case *ast.SelectorExpr:
		x, ok := e.X.(*ast.Ident)
		if !ok {
			die("unsupported selector")
		}
		switch x.Name + "." + e.Sel.Name {
		case "cid.Cid":
			return &goType{kind: "cid"}
		case "big.Int":
			return &goType{kind: "bigint"}
		case "bitfield.BitField":
			return &goType{kind: "bitfield"}
		}
		q, ok := pkgs[x.Name]
		if !ok {
			die("type from unknown package %s.%s", x.Name, e.Sel.Name)
		}
		return resolve(q, e.Sel, depth+1)
	case *ast.StarExpr:
		return &goType{kind: "ptr", elem: resolve(p, e.X, depth+1)}
	case *ast.ArrayType:
		elem := resolve(p, e.Elt, depth+1)
		if e.Len == nil {
			if elem.kind == "uint8" {
				return &goType{kind: "bytes"}
			}
			return &goType{kind: "slice", elem: elem}
		}
		n, ok := evalConst(p, e.Len)
		if !ok {
			die("array length not constant")
		}
		if elem.kind != "uint8" {
			die("fixed array of non-bytes")
		}
		return &goType{kind: "fixed", n: n}
	}
	die("unsupported type expression %T", e)
	return nil
}

// ---- facts from generated code -------------------------------------------------------------------

type genField struct {
	name   string
	kind   string // trailing "(slice)" etc of the marker comment
	encMax int64  // -1 = none
	decMax int64
	decEq  int64 // `extra != N` inside the field segment (fixed arrays)
	null   bool  // decoder checks for CborNull
}

type genFacts struct {
	encArity int64 // from lengthBuf; -1 when absent (slice types)
	decArity int64
	enc      []genField
	dec      []genField
	nilEnc   bool // MarshalCBOR writes CborNull for a nil receiver
}

var markerRx = regexp.MustCompile(`^// (t\.(\w+)|\(\*t\)) \((.*)\) \((\w+)\)$`)

func genFactsOf(p *pkgInfo, typ string) *genFacts {
	f := p.files["cbor_gen.go"]
	if f == nil {
		die("%s: no cbor_gen.go", p.name)
	}
	g := &genFacts{encArity: -1, decArity: -1}
	// lengthBufT
	for _, d := range f.Decls {
		gd, ok := d.(*ast.GenDecl)
		if !ok || gd.Tok != token.VAR {
			continue
		}
		for _, s := range gd.Specs {
			vs := s.(*ast.ValueSpec)
			if len(vs.Names) == 1 && vs.Names[0].Name == "lengthBuf"+typ && len(vs.Values) == 1 {
				cl, ok := vs.Values[0].(*ast.CompositeLit)
				if !ok || len(cl.Elts) != 1 {
					die("lengthBuf%s: unexpected shape", typ)
				}
				v, ok := evalConst(p, cl.Elts[0])
				if !ok || v < 128 || v >= 128+24 {
					die("lengthBuf%s: unexpected value", typ)
				}
				g.encArity = v - 128
			}
		}
	}
	for _, side := range []string{"MarshalCBOR", "UnmarshalCBOR"} {
		fn := p.funcs[typ+"."+side]
		if fn == nil || p.fset.Position(fn.Pos()).Filename != filepath.Join(p.dir, "cbor_gen.go") {
			die("%s.%s: no generated %s", p.name, typ, side)
		}
		var fields []genField
		var starts []token.Pos
		for _, cg := range f.Comments {
			for _, c := range cg.List {
				if c.Pos() < fn.Body.Pos() || c.Pos() > fn.Body.End() {
					continue
				}
				m := markerRx.FindStringSubmatch(strings.TrimSpace(c.Text))
				if m == nil {
					continue
				}
				name := m[2]
				if name == "" {
					name = "*"
				}
				fields = append(fields, genField{name: name, kind: m[4], encMax: -1, decMax: -1, decEq: -1})
				starts = append(starts, c.Pos())
			}
		}
		seg := func(pos token.Pos) int {
			k := -1
			for i, s := range starts {
				if s < pos {
					k = i
				}
			}
			return k
		}
		ast.Inspect(fn.Body, func(n ast.Node) bool {
			switch n := n.(type) {
			case *ast.IfStmt:
				be, ok := n.Cond.(*ast.BinaryExpr)
				if !ok {
					return true
				}
				k := seg(n.Pos())
				if id, ok := be.X.(*ast.Ident); ok && id.Name == "t" && be.Op == token.EQL && side == "MarshalCBOR" {
					if y, ok := be.Y.(*ast.Ident); ok && y.Name == "nil" {
						g.nilEnc = true
					}
				}
				// extra > N / extra != N
				if id, ok := be.X.(*ast.Ident); ok && id.Name == "extra" {
					v, okv := evalConst(p, be.Y)
					if !okv {
						return true
					}
					switch be.Op {
					case token.GTR:
						if v == 0 { // `if extra > 0 { x = make(...) }` is the allocation, not a limit
							return true
						}
						if k < 0 {
							die("%s.%s: limit check before first field", typ, side)
						}
						if fields[k].decMax >= 0 {
							die("%s.%s field %s: two limit checks", typ, side, fields[k].name)
						}
						fields[k].decMax = v
					case token.NEQ:
						if k < 0 {
							g.decArity = v
						} else {
							fields[k].decEq = v
						}
					}
				}
				// len(X) > N
				if ce, ok := be.X.(*ast.CallExpr); ok && be.Op == token.GTR {
					if fid, ok := ce.Fun.(*ast.Ident); ok && fid.Name == "len" {
						v, okv := evalConst(p, be.Y)
						if okv && k >= 0 {
							if fields[k].encMax >= 0 {
								die("%s.%s field %s: two limit checks", typ, side, fields[k].name)
							}
							fields[k].encMax = v
						}
					}
				}
				// b != cbg.CborNull[0]
				if be.Op == token.NEQ && k >= 0 {
					if ie, ok := be.Y.(*ast.IndexExpr); ok {
						if se, ok := ie.X.(*ast.SelectorExpr); ok && se.Sel.Name == "CborNull" {
							fields[k].null = true
						}
					}
				}
			}
			return true
		})
		if side == "MarshalCBOR" {
			g.enc = fields
		} else {
			g.dec = fields
		}
	}
	return g
}

// ---- schema emission -----------------------------------------------------------------------------

type typeKey struct{ pkg, name string }

var genTypes []typeKey
var genSet = map[typeKey]bool{}
var problems []string

func leanName(k typeKey) string { return k.pkg + "_" + k.name }

func lim(tag, enc, dec int64) string {
	return fmt.Sprintf("⟨%d, %d, %d⟩", tag, enc, dec)
}

func tagMax(f *ast.Field) int64 {
	if f.Tag == nil {
		return -1
	}
	s, _ := strconv.Unquote(f.Tag.Value)
	m := regexp.MustCompile(`cborgen:"[^"]*maxlen=(\d+)`).FindStringSubmatch(s)
	if m == nil {
		return -1
	}
	v, _ := strconv.ParseInt(m[1], 10, 64)
	return v
}

func ignored(f *ast.Field) bool {
	if f.Tag == nil {
		return false
	}
	s, _ := strconv.Unquote(f.Tag.Value)
	return strings.Contains(s, `cborgen:"ignore"`)
}

// schemaOfField renders the schema of one struct field (or of a top-level slice type).
func schemaOfField(owner typeKey, fname string, t *goType, tag int64, ge, gd *genField) string {
	need := func(v int64, what string) int64 {
		if v < 0 {
			problems = append(problems, fmt.Sprintf("%s.%s: generated code has no %s", leanName(owner), fname, what))
			return 18446744073709551615 >> 1
		}
		return v
	}
	switch t.kind {
	case "uint64":
		return "(.uint 18446744073709551615)"
	case "uint8":
		return fmt.Sprintf("(.uint %d)", need(gd.decMax, "decoder range check"))
	case "int64":
		return ".int64"
	case "bool":
		return ".bool"
	case "cid":
		return ".cid"
	case "bigint":
		return ".bigint"
	case "bitfield":
		return ".bitfield"
	case "bytes":
		if tag < 0 {
			tag = defaultByteMax
		}
		return fmt.Sprintf("(.bytes %s)", lim(tag, need(ge.encMax, "encoder limit"), need(gd.decMax, "decoder limit")))
	case "fixed":
		if tag < 0 {
			tag = defaultByteMax
		}
		return fmt.Sprintf("(.fixed %d %d %s)", t.n, need(gd.decEq, "decoder length check"),
			lim(tag, need(ge.encMax, "encoder limit"), need(gd.decMax, "decoder limit")))
	case "slice":
		if tag < 0 {
			tag = defaultSliceMax
		}
		var elem string
		if t.elem.kind == "struct" {
			elem = leanName(typeKey{t.elem.pkg, t.elem.name})
			if !genSet[typeKey{t.elem.pkg, t.elem.name}] {
				die("%s.%s: element type %s has no generated codec", leanName(owner), fname, elem)
			}
		} else {
			die("%s.%s: slice of non-struct", leanName(owner), fname)
		}
		return fmt.Sprintf("(.array %s %s)", lim(tag, need(ge.encMax, "encoder limit"), need(gd.decMax, "decoder limit")), elem)
	case "struct":
		k := typeKey{t.pkg, t.name}
		if !genSet[k] {
			die("%s.%s: struct %s has no generated codec", leanName(owner), fname, leanName(k))
		}
		if gd.null {
			problems = append(problems, fmt.Sprintf("%s.%s: decoder treats a value field as nullable", leanName(owner), fname))
		}
		return leanName(k)
	case "ptr":
		if !gd.null {
			problems = append(problems, fmt.Sprintf("%s.%s: decoder does not handle nil for a pointer field", leanName(owner), fname))
		}
		e := t.elem
		if e.kind == "struct" && e.pkg == "gpbft" && e.name == "ECChain" {
			return "(.nullAsEmpty gpbft_LegacyECChain)"
		}
		if e.kind == "struct" {
			k := typeKey{e.pkg, e.name}
			if !genSet[k] {
				die("%s.%s: pointer to %s without generated codec", leanName(owner), fname, leanName(k))
			}
			return fmt.Sprintf("(.nullable %s)", leanName(k))
		}
		die("%s.%s: pointer to non-struct", leanName(owner), fname)
	}
	die("%s.%s: unsupported kind %s", leanName(owner), fname, t.kind)
	return ""
}

func main() {
	if len(os.Args) != 3 {
		die("usage: schemafacts <repo> <out.lean>")
	}
	repo = os.Args[1]
	for _, n := range []string{"merkle", "gpbft", "certs", "certexchange", "chainexchange", "certstore"} {
		loadPkg(n, n)
	}
	// 1. which types: gen/main.go
	fset := token.NewFileSet()
	gm, err := parser.ParseFile(fset, filepath.Join(repo, "gen", "main.go"), nil, 0)
	if err != nil {
		die("gen/main.go: %v", err)
	}
	ast.Inspect(gm, func(n ast.Node) bool {
		ce, ok := n.(*ast.CallExpr)
		if !ok {
			return true
		}
		se, ok := ce.Fun.(*ast.SelectorExpr)
		if !ok || se.Sel.Name != "WriteTupleEncodersToFile" {
			return true
		}
		for _, a := range ce.Args[2:] {
			cl, ok := a.(*ast.CompositeLit)
			if !ok {
				die("gen/main.go: unexpected argument")
			}
			s, ok := cl.Type.(*ast.SelectorExpr)
			if !ok {
				die("gen/main.go: unexpected argument type")
			}
			k := typeKey{s.X.(*ast.Ident).Name, s.Sel.Name}
			if _, ok := pkgs[k.pkg]; !ok {
				die("gen/main.go: unknown package %s", k.pkg)
			}
			genTypes = append(genTypes, k)
			genSet[k] = true
		}
		return true
	})
	if len(genTypes) == 0 {
		die("gen/main.go: no types found")
	}

	var out strings.Builder
	out.WriteString("import F3.Model.Cbor\n/-! GENERATED by tools/schemafacts from the Go sources (struct definitions, cborgen tags,\ngenerated cbor_gen.go limits). Do not edit. -/\nnamespace F3.Gen.Schema\nopen F3.Cbor\n\n")

	// dependency order: emit a type after the types it references. Simple approach: iterate until fixed point.
	emitted := map[typeKey]bool{}
	defs := map[typeKey]string{}
	refs := map[typeKey][]typeKey{}
	fieldNames := map[typeKey][]string{}
	orderOk := map[typeKey]bool{}
	for _, k := range genTypes {
		p := pkgs[k.pkg]
		ts := p.types[k.name]
		if ts == nil {
			die("type %s.%s not found", k.pkg, k.name)
		}
		g := genFactsOf(p, k.name)
		switch tt := ts.Type.(type) {
		case *ast.StructType:
			var names []string
			var schemas []string
			idx := 0
			for _, f := range tt.Fields.List {
				if ignored(f) {
					continue
				}
				fnames := []string{}
				for _, n := range f.Names {
					fnames = append(fnames, n.Name)
				}
				if len(fnames) == 0 { // embedded
					fnames = []string{recvName(embeddedName(f.Type))}
				}
				for _, fname := range fnames {
					if !ast.IsExported(fname) {
						continue
					}
					t := resolve(p, f.Type, 0)
					var ge, gd *genField
					if idx < len(g.enc) {
						ge = &g.enc[idx]
					} else {
						ge = &genField{encMax: -1, decMax: -1, decEq: -1}
					}
					if idx < len(g.dec) {
						gd = &g.dec[idx]
					} else {
						gd = &genField{encMax: -1, decMax: -1, decEq: -1}
					}
					schemas = append(schemas, schemaOfField(k, fname, t, tagMax(f), ge, gd))
					names = append(names, fname)
					collectRefs(k, t, refs)
					idx++
				}
			}
			ok := len(names) == len(g.enc) && len(names) == len(g.dec)
			if ok {
				for i := range names {
					if g.enc[i].name != names[i] || g.dec[i].name != names[i] {
						ok = false
					}
				}
			}
			if !g.nilEnc {
				problems = append(problems, leanName(k)+": encoder does not write null for a nil receiver")
			}
			orderOk[k] = ok
			fieldNames[k] = names
			body := ".tnil"
			for i := len(schemas) - 1; i >= 0; i-- {
				body = fmt.Sprintf("(.tcons %s %s)", schemas[i], body)
			}
			if g.encArity < 0 || g.decArity < 0 {
				die("%s: tuple arity not found in generated code", leanName(k))
			}
			defs[k] = fmt.Sprintf("def %s : Schema := .tuple %d %d %s\n", leanName(k), g.encArity, g.decArity, body)
		case *ast.ArrayType:
			t := resolve(p, ts.Type, 0)
			if t.kind != "slice" || len(g.enc) != 1 || len(g.dec) != 1 {
				die("%s: unexpected top-level type", leanName(k))
			}
			collectRefs(k, t, refs)
			s := schemaOfField(k, "*", t, -1, &g.enc[0], &g.dec[0])
			orderOk[k] = g.enc[0].name == "*" && g.dec[0].name == "*"
			fieldNames[k] = []string{"*"}
			defs[k] = fmt.Sprintf("def %s : Schema := %s\n", leanName(k), strings.TrimSuffix(strings.TrimPrefix(s, "("), ")"))
		default:
			die("%s: unsupported top-level type", leanName(k))
		}
	}
	for len(emitted) < len(genTypes) {
		progress := false
		for _, k := range genTypes {
			if emitted[k] {
				continue
			}
			ready := true
			for _, r := range refs[k] {
				if !emitted[r] && r != k {
					ready = false
				}
			}
			if ready {
				out.WriteString(defs[k])
				emitted[k] = true
				progress = true
			}
		}
		if !progress {
			die("cyclic type references")
		}
	}
	// ECChain: hand-written codec through LegacyECChain
	ecOK := false
	gp := pkgs["gpbft"]
	if m, u := gp.funcs["ECChain.MarshalCBOR"], gp.funcs["ECChain.UnmarshalCBOR"]; m != nil && u != nil {
		ecOK = mentions(m, "LegacyECChain") && mentions(u, "LegacyECChain")
	}
	out.WriteString("\n/-- every type with a generated codec, in the order of gen/main.go -/\ndef table : List (String × Schema) := [\n")
	for i, k := range genTypes {
		sepc := ","
		if i == len(genTypes)-1 {
			sepc = ""
		}
		fmt.Fprintf(&out, "  (\"%s.%s\", %s)%s\n", k.pkg, k.name, leanName(k), sepc)
	}
	out.WriteString("]\n\n/-- field names in declaration order (documentation / replay messages) -/\ndef fieldNames : List (String × List String) := [\n")
	for i, k := range genTypes {
		sepc := ","
		if i == len(genTypes)-1 {
			sepc = ""
		}
		q := []string{}
		for _, n := range fieldNames[k] {
			q = append(q, strconv.Quote(n))
		}
		fmt.Fprintf(&out, "  (\"%s.%s\", [%s])%s\n", k.pkg, k.name, strings.Join(q, ", "), sepc)
	}
	out.WriteString("]\n\n/-- struct declaration order = MarshalCBOR order = UnmarshalCBOR order, per type -/\ndef fieldOrderOk : List (String × Bool) := [\n")
	for i, k := range genTypes {
		sepc := ","
		if i == len(genTypes)-1 {
			sepc = ""
		}
		fmt.Fprintf(&out, "  (\"%s.%s\", %v)%s\n", k.pkg, k.name, orderOk[k], sepc)
	}
	out.WriteString("]\n\n")
	fmt.Fprintf(&out, "/-- `ECChain.MarshalCBOR/UnmarshalCBOR` (chain.go) go through `LegacyECChain` -/\ndef ecchainViaLegacy : Bool := %v\n\n", ecOK)
	sort.Strings(problems)
	out.WriteString("/-- irregularities of the generated code the extractor could not map to the model -/\ndef problems : List String := [")
	for i, s := range problems {
		if i > 0 {
			out.WriteString(", ")
		}
		out.WriteString(strconv.Quote(s))
	}
	out.WriteString("]\n\n")
	// constants
	cst := func(pkg, name string) int64 {
		p := pkgs[pkg]
		c, ok := p.consts[name]
		if !ok {
			die("constant %s.%s not found", pkg, name)
		}
		v, ok := evalConst(p, c)
		if !ok {
			die("constant %s.%s not evaluable", pkg, name)
		}
		return v
	}
	fmt.Fprintf(&out, "def cidMaxLen : Nat := %d\n", cst("gpbft", "CidMaxLen"))
	fmt.Fprintf(&out, "def chainMaxLen : Nat := %d\n", cst("gpbft", "ChainMaxLen"))
	fmt.Fprintf(&out, "def tipsetKeyMaxLen : Nat := %d\n", cst("gpbft", "TipsetKeyMaxLen"))
	fmt.Fprintf(&out, "def digestLength : Nat := %d\n", cst("merkle", "DigestLength"))
	enc := loadPkg("encoding", "internal/encoding")
	c, ok := enc.consts["maxDecompressedSize"]
	if !ok {
		die("maxDecompressedSize not found")
	}
	v, ok := evalConst(enc, c)
	if !ok {
		die("maxDecompressedSize not evaluable")
	}
	fmt.Fprintf(&out, "def maxDecompressedSize : Nat := %d\n", v)
	fmt.Fprintf(&out, "/-- bytes of `DomainSeparationTag` (%s) -/\ndef domainSeparationTag : List Nat := %s\n", strConst("gpbft", "DomainSeparationTag"), byteList(strConst("gpbft", "DomainSeparationTag")))
	fmt.Fprintf(&out, "/-- bytes of `DomainSeparationTagVRF` (%s) -/\ndef domainSeparationTagVRF : List Nat := %s\n", strConst("gpbft", "DomainSeparationTagVRF"), byteList(strConst("gpbft", "DomainSeparationTagVRF")))
	out.WriteString("\nend F3.Gen.Schema\n")
	if err := os.WriteFile(os.Args[2], []byte(out.String()), 0o644); err != nil {
		die("%v", err)
	}
}

func strConst(pkg, name string) string {
	p := pkgs[pkg]
	c, ok := p.consts[name]
	if !ok {
		die("constant %s.%s not found", pkg, name)
	}
	bl, ok := c.(*ast.BasicLit)
	if !ok || bl.Kind != token.STRING {
		die("constant %s.%s is not a string literal", pkg, name)
	}
	s, err := strconv.Unquote(bl.Value)
	if err != nil {
		die("constant %s.%s: %v", pkg, name, err)
	}
	return strconv.Quote(s)
}

func byteList(quoted string) string {
	v, _ := strconv.Unquote(quoted)
	parts := []string{}
	for _, c := range []byte(v) {
		parts = append(parts, strconv.Itoa(int(c)))
	}
	return "[" + strings.Join(parts, ", ") + "]"
}

func embeddedName(e ast.Expr) ast.Expr {
	if s, ok := e.(*ast.SelectorExpr); ok {
		return s.Sel
	}
	if s, ok := e.(*ast.StarExpr); ok {
		return &ast.StarExpr{X: embeddedName(s.X)}
	}
	return e
}

func collectRefs(owner typeKey, t *goType, refs map[typeKey][]typeKey) {
	switch t.kind {
	case "struct":
		if t.pkg == "gpbft" && t.name == "ECChain" {
			refs[owner] = append(refs[owner], typeKey{"gpbft", "LegacyECChain"})
		} else {
			refs[owner] = append(refs[owner], typeKey{t.pkg, t.name})
		}
	case "slice", "ptr":
		collectRefs(owner, t.elem, refs)
	}
}

func mentions(fn *ast.FuncDecl, ident string) bool {
	found := false
	ast.Inspect(fn, func(n ast.Node) bool {
		if id, ok := n.(*ast.Ident); ok && id.Name == ident {
			found = true
		}
		return true
	})
	return found
}
