module schemafacts

go 1.24.6
