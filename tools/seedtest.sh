#!/bin/sh
# tools/seedtest.sh <patch.diff> <Cxx> [quick|thorough]
# Applies a seeded change to a scratch copy of /repo (never to /repo itself while other work is running),
# runs the check of the property against it, prints the outcome, restores the evidence file, removes the copy.
set -u
PATCH="$1"; PROP="$2"; TIER="${3:-quick}"
S=/var/tmp/verif-seedrepo-$$
rm -rf "$S"; cp -r /repo "$S"
if ! git -C "$S" apply "$PATCH"; then echo "SEEDTEST $PROP $(basename $(dirname $PATCH)): PATCH-DOES-NOT-APPLY"; rm -rf "$S"; exit 2; fi
cd /verif
cp evidence/$PROP.json /var/tmp/evidence-$PROP-$$.json 2>/dev/null
OUT=$(VERIF_REPO="$S" ./check "$PROP" --tier "$TIER" 2>&1); RC=$?
echo "$OUT" | grep -E "VIOLATION|KNOWN-FINDING|proof:|ORACLE-FAIL|DIFF" | cut -c1-260 | head -12
echo "SEEDTEST $PROP $(basename $(dirname $PATCH)) tier=$TIER: rc=$RC $(echo "$OUT" | grep -c '^VIOLATION') violation line(s)"
cp /var/tmp/evidence-$PROP-$$.json evidence/$PROP.json 2>/dev/null; rm -f /var/tmp/evidence-$PROP-$$.json
rm -rf "$S"
exit 0
