// Extensions of go2lean: tagless switch, return codes, opaque expressions, skipped statements,
// nil tests, package constants, calls with struct arguments, cond_of / arg_of extraction.
// Everything here is strict: what is not recognised is a "translator obligation broken" error.
package main

import (
	"fmt"
	"go/ast"
	"go/parser"
	"go/token"
	"os"
	"path/filepath"
	"sort"
	"strconv"
	"strings"
)

// fnInfo describes a translated whole function for later call sites.
type fnInfo struct {
	lean, ret string
	ordered   []string       // parameter paths in the order of the Lean def
	formal    map[string]int // Go formal name -> argument index
}

func norm(s string) string { return strings.Join(strings.Fields(s), " ") }

// ---- opaque expressions / skipped statements --------------------------------------------------

func (x *tr) opaqueExpr(e ast.Expr) (string, string, bool) {
	if len(x.t.Exprs) == 0 || !e.Pos().IsValid() {
		return "", "", false
	}
	key := norm(x.text(e))
	spec, ok := x.t.Exprs[key]
	if !ok {
		return "", "", false
	}
	name, ty, ok := strings.Cut(spec, ":")
	if !ok || !supported(ty) {
		fail("%s: exprs entry %q must be \"name:type\"", x.t.Func, key)
	}
	if old, dup := x.t.Types[name]; dup && old != ty {
		fail("%s: exprs name %q clashes with a typed path", x.t.Func, name)
	}
	x.t.Types[name] = ty
	x.used["expr "+key]++
	s, t := x.useVar(name)
	return s, t, true
}

func (x *tr) skipped(s ast.Stmt) bool {
	if len(x.t.Skip) == 0 || !s.Pos().IsValid() {
		return false
	}
	tx := norm(x.text(s))
	for _, k := range x.t.Skip {
		if norm(k) == tx {
			x.used["skip "+norm(k)]++
			return true
		}
	}
	return false
}

// checkUsed: a configuration entry that matches nothing means the source moved away from it.
func (x *tr) checkUsed() {
	for k := range x.t.Exprs {
		if x.used["expr "+k] == 0 {
			fail("%s: exprs entry %q matches no expression", x.t.Func, k)
		}
	}
	for _, k := range x.t.Skip {
		if x.used["skip "+norm(k)] == 0 {
			fail("%s: skip entry %q matches no statement", x.t.Func, k)
		}
	}
	for i, r := range x.t.Returns {
		if x.used[fmt.Sprint("ret ", i)] == 0 {
			fail("%s: returns entry %q matches no return", x.t.Func, r[0])
		}
	}
	for _, kind := range []struct {
		tag string
		m   map[string]string
	}{{"act", x.t.Acts}, {"err", x.t.Errs}, {"sym", x.t.Symbols}} {
		for k := range kind.m {
			if x.used[kind.tag+" "+norm(k)] == 0 {
				fail("%s: %ss entry %q matches nothing", x.t.Func, kind.tag, k)
			}
		}
	}
}

// registerOpaque makes the (non-pointer) opaque locals parameters.
func (x *tr) registerOpaque() {
	for _, o := range x.t.Opaque {
		if x.t.Types[o] == "ptr" || x.errsBound(o) {
			continue
		}
		x.useVar(o)
	}
}

// errsBound: every definition of the opaque local o has its own parameter (errs), there is no generic one.
func (x *tr) errsBound(o string) bool {
	for _, spec := range x.t.Errs {
		if v, _, _ := strings.Cut(spec, ":"); v == o {
			return true
		}
	}
	return false
}

// noShadow: while a continuation is duplicated into branches (early returns), block scopes are
// flattened into one Lean scope, so a local may not re-declare a visible name.
func (x *tr) noShadow(name string) {
	if x.flat == 0 {
		return
	}
	if _, ok := x.types[name]; ok {
		fail("%s: local %q re-declares a visible name next to an early return", x.t.Func, name)
	}
	if _, ok := x.t.Types[name]; ok {
		fail("%s: local %q re-declares a typed path next to an early return", x.t.Func, name)
	}
}

// ---- nil tests -------------------------------------------------------------------------------

func isNilIdent(e ast.Expr) bool {
	id, ok := e.(*ast.Ident)
	return ok && id.Name == "nil"
}

// nilCompare: `p == nil` / `p != nil` for a path typed "ptr" -> Bool parameter p_notnil.
func (x *tr) nilCompare(v *ast.BinaryExpr) (string, bool) {
	if v.Op != token.EQL && v.Op != token.NEQ {
		return "", false
	}
	var other ast.Expr
	switch {
	case isNilIdent(v.Y):
		other = v.X
	case isNilIdent(v.X):
		other = v.Y
	default:
		return "", false
	}
	p, ok := pathOf(other)
	if !ok || x.t.Types[p] != "ptr" {
		fail("%s: nil test of %s: the path must be typed \"ptr\"", x.t.Func, x.text(other))
	}
	var s string
	if a, ok := x.alias[p]; ok { // errs: this definition of p has its own parameter
		s, _ = x.useVar(a)
	} else {
		s, _ = x.useVar(p + ".notnil")
	}
	if v.Op == token.EQL {
		return "(!" + s + ")", true
	}
	return s, true
}

// ---- return codes ----------------------------------------------------------------------------

func (x *tr) returnCode(v *ast.ReturnStmt) (string, bool) {
	if len(x.t.Returns) == 0 {
		return "", false
	}
	tx := ""
	if len(v.Results) > 0 {
		a := x.fset.Position(v.Results[0].Pos()).Offset
		b := x.fset.Position(v.Results[len(v.Results)-1].End()).Offset
		tx = norm(string(x.src[a:b]))
	}
	hit := -1
	for i, r := range x.t.Returns {
		m := r[0]
		ok := m == tx
		if sub, isSub := strings.CutPrefix(m, "~"); isSub {
			ok = strings.Contains(tx, sub)
		}
		if ok {
			if hit >= 0 {
				fail("%s: return %q matches two entries of returns", x.t.Func, tx)
			}
			hit = i
		}
	}
	if hit < 0 {
		fail("%s: return %q matches no entry of returns", x.t.Func, tx)
	}
	if _, err := strconv.Atoi(x.t.Returns[hit][1]); err != nil {
		fail("%s: return code %q is not an integer", x.t.Func, x.t.Returns[hit][1])
	}
	x.used[fmt.Sprint("ret ", hit)]++
	return "(" + x.t.Returns[hit][1] + " : Int)", true
}

// ---- tagless switch --------------------------------------------------------------------------

// desugarSwitch: `switch init; { case a, b: A  case c: B  default: D }`  ==>
// `init; if a || b { A } else if c { B } else { D }`.
func (x *tr) desugarSwitch(v *ast.SwitchStmt) []ast.Stmt {
	if v.Tag != nil {
		// `switch tag { case a, b: }` is `tag == a || tag == b`; the tag must be a plain path (no effects)
		if _, ok := pathOf(v.Tag); !ok {
			fail("%s: unsupported switch tag (not a path): %s", x.t.Func, x.text(v.Tag))
		}
	}
	var pre []ast.Stmt
	if v.Init != nil {
		pre = append(pre, v.Init)
	}
	type clause struct {
		cond ast.Expr
		body []ast.Stmt
	}
	var cls []clause
	var def []ast.Stmt
	hasDef := false
	for _, c := range v.Body.List {
		cc, ok := c.(*ast.CaseClause)
		if !ok {
			fail("%s: unsupported switch clause", x.t.Func)
		}
		for _, st := range cc.Body {
			if _, isAct := x.actOf(st); isAct {
				continue // not translated: only its action code is recorded
			}
			ast.Inspect(st, func(n ast.Node) bool {
				if b, ok := n.(*ast.BranchStmt); ok {
					fail("%s: unsupported %s in switch", x.t.Func, b.Tok)
				}
				return true
			})
		}
		if cc.List == nil {
			def, hasDef = cc.Body, true
			continue
		}
		test := func(e ast.Expr) ast.Expr {
			if v.Tag == nil {
				return e
			}
			return &ast.BinaryExpr{X: v.Tag, Op: token.EQL, Y: e}
		}
		cond := test(cc.List[0])
		for _, e := range cc.List[1:] {
			cond = &ast.BinaryExpr{X: cond, Op: token.LOR, Y: test(e)}
		}
		cls = append(cls, clause{cond, cc.Body})
	}
	var els ast.Stmt
	if hasDef {
		els = &ast.BlockStmt{List: def}
	}
	for i := len(cls) - 1; i >= 0; i-- {
		els = &ast.IfStmt{Cond: cls[i].cond, Body: &ast.BlockStmt{List: cls[i].body}, Else: els}
	}
	if els == nil {
		return pre
	}
	return append(pre, els)
}

// ---- calls of translated functions -------------------------------------------------------------

// call: declared scalar parameters take the translated argument; parameters discovered as paths under
// a struct-typed formal (msg.Vote.Round under `msg`) take the same path under the actual argument.
func (x *tr) call(fi *fnInfo, v *ast.CallExpr) string {
	parts := []string{fi.lean}
	for _, p := range fi.ordered {
		if k, ok := fi.formal[p]; ok {
			if k >= len(v.Args) {
				fail("%s: call %s: missing argument %d", x.t.Func, x.text(v), k)
			}
			s, _ := x.expr(v.Args[k])
			parts = append(parts, s)
			continue
		}
		root, tail, _ := strings.Cut(p, ".")
		k, ok := fi.formal[root]
		if !ok || k >= len(v.Args) {
			fail("%s: call %s: parameter %q of the callee is not rooted at a formal", x.t.Func, x.text(v), p)
		}
		a, ok := pathOf(v.Args[k])
		if !ok {
			fail("%s: call %s: struct argument must be a path", x.t.Func, x.text(v))
		}
		s, _ := x.useVar(a + "." + tail)
		parts = append(parts, s)
	}
	return "(" + strings.Join(parts, " ") + ")"
}

// ---- cond_of / arg_of --------------------------------------------------------------------------

func (x *tr) findIfCond(fd *ast.FuncDecl, marker string, count, nth int) ast.Expr {
	var hits []*ast.IfStmt
	ast.Inspect(fd.Body, func(n ast.Node) bool {
		if s, ok := n.(*ast.IfStmt); ok && strings.HasPrefix(norm(x.text(s)), norm(marker)) {
			hits = append(hits, s)
		}
		return true
	})
	if len(hits) != count || nth < 0 || nth >= count {
		fail("%s: cond_of %q matches %d if statements, expected %d", x.t.Func, marker, len(hits), count)
	}
	sort.Slice(hits, func(i, j int) bool { return hits[i].Pos() < hits[j].Pos() })
	hit := hits[nth]
	if hit.Init != nil {
		if !x.onlyDefinesOpaque(hit.Init) {
			fail("%s: unsupported if-init %s", x.t.Func, x.text(hit.Init))
		}
		x.registerOpaque()
		x.bindErr(hit.Init)
	}
	return hit.Cond
}

func (x *tr) findCallArg(fd *ast.FuncDecl, a ArgOf) ast.Expr {
	var hits []*ast.CallExpr
	ast.Inspect(fd.Body, func(n ast.Node) bool {
		if c, ok := n.(*ast.CallExpr); ok {
			if p, ok := pathOf(c.Fun); ok && p == a.Callee {
				hits = append(hits, c)
			}
		}
		return true
	})
	sort.Slice(hits, func(i, j int) bool { return hits[i].Pos() < hits[j].Pos() })
	if a.Nth < 0 || a.Nth >= len(hits) || a.Arg < 0 || a.Arg >= len(hits[a.Nth].Args) {
		fail("%s: arg_of: %d calls of %s", x.t.Func, len(hits), a.Callee)
	}
	return hits[a.Nth].Args[a.Arg]
}

// ---- package-level integer constants -----------------------------------------------------------

type constDef struct {
	expr ast.Expr
	iota int64
}

var constCache = map[string]map[string]constDef{}

func loadConsts(dir string) map[string]constDef {
	if m, ok := constCache[dir]; ok {
		return m
	}
	m := map[string]constDef{}
	files, _ := filepath.Glob(filepath.Join(dir, "*.go"))
	sort.Strings(files)
	for _, f := range files {
		if strings.HasSuffix(f, "_test.go") {
			continue
		}
		src, err := os.ReadFile(f)
		if err != nil {
			fail("%v", err)
		}
		pf, err := parser.ParseFile(token.NewFileSet(), f, src, 0)
		if err != nil {
			fail("%v", err)
		}
		for _, d := range pf.Decls {
			gd, ok := d.(*ast.GenDecl)
			if !ok || gd.Tok != token.CONST {
				continue
			}
			var last []ast.Expr
			for i, sp := range gd.Specs {
				vs := sp.(*ast.ValueSpec)
				if len(vs.Values) > 0 {
					last = vs.Values
				}
				for j, n := range vs.Names {
					if j < len(last) {
						m[n.Name] = constDef{last[j], int64(i)}
					}
				}
			}
		}
	}
	constCache[dir] = m
	return m
}

func evalConst(m map[string]constDef, e ast.Expr, iota int64, depth int) (int64, bool) {
	if depth > 20 {
		return 0, false
	}
	switch v := e.(type) {
	case *ast.BasicLit:
		if v.Kind != token.INT {
			return 0, false
		}
		n, err := strconv.ParseInt(strings.ReplaceAll(v.Value, "_", ""), 0, 64)
		return n, err == nil
	case *ast.ParenExpr:
		return evalConst(m, v.X, iota, depth+1)
	case *ast.Ident:
		if v.Name == "iota" {
			return iota, true
		}
		if d, ok := m[v.Name]; ok {
			return evalConst(m, d.expr, d.iota, depth+1)
		}
		return 0, false
	case *ast.BinaryExpr:
		a, ok1 := evalConst(m, v.X, iota, depth+1)
		b, ok2 := evalConst(m, v.Y, iota, depth+1)
		if !ok1 || !ok2 {
			return 0, false
		}
		switch v.Op {
		case token.ADD:
			return a + b, true
		case token.SUB:
			return a - b, true
		case token.MUL:
			return a * b, true
		case token.SHL:
			if b < 0 || b > 62 {
				return 0, false
			}
			return a << uint(b), true
		}
	}
	return 0, false
}

// goConst resolves a package-level integer constant of the package in dir from its source.
func goConst(dir, name string) (string, bool) {
	m := loadConsts(dir)
	d, ok := m[name]
	if !ok {
		return "", false
	}
	n, ok := evalConst(m, d.expr, d.iota, 0)
	if !ok {
		fail("constant %s: unsupported constant expression", name)
	}
	return strconv.FormatInt(n, 10), true
}
