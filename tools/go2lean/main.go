// go2lean: a deliberately tiny translator from a subset of Go (straight-line
// integer/boolean code with if/else, field mutation through the receiver, calls to
// other translated functions, min/max) to Lean 4 definitions over Int/Bool.
//
// Usage: go2lean <repo-root> <targets.json> <out.lean>
//
// Semantics emitted:
//   - int, int64, time.Duration  -> Int, operators + - * are mathematical (the
//     no-overflow side condition is a theorem of the consumer), / and % are
//     Int.tdiv / Int.tmod (Go truncated division).
//   - uint64                     -> Int in [0, 2^64), every + - * result wrapped
//     by `u64` (mod 2^64), conversions to int64/Duration go through `i64ofU64`
//     (two's-complement reinterpretation), conversions from int64 through `u64`.
//   - bool                       -> Bool.
//   - receiver / struct fields read -> parameters named by their path; fields
//     assigned -> also returned (function returns ret × written fields tuple).
//
//   - tagless `switch [init;] { case a, b: … default: … }` -> if / else-if chain (`,` = `||`);
//     `return <text>` -> the Int code the target's `returns` table gives to that text, running off
//     the end -> `end` code; early returns (an `if` of which only some branches return) duplicate
//     the continuation into both branches; `p == nil` on a path typed "ptr" -> Bool parameter
//     `p_notnil`; types "enum:<T>" -> Int with comparisons only; package-level integer constants
//     (literals, iota, + - * <<) are read from the package's source; expressions listed in `exprs`
//     (opaque calls) become parameters; statements listed in `skip` (locks, bookkeeping) are dropped,
//     and every `exprs` / `skip` entry must be used; `cond_of` / `arg_of` translate one `if`
//     condition / one call argument. See ext.go.
//
// Anything outside the subset is an error: "translator obligation broken".
package main

import (
	"encoding/json"
	"fmt"
	"go/ast"
	"go/parser"
	"go/token"
	"os"
	"path/filepath"
	"sort"
	"strings"
)

type Target struct {
	File   string            `json:"file"`
	Func   string            `json:"func"`             // "Name" or "Recv.Name"
	Lean   string            `json:"lean"`             // Lean def name
	Opaque []string          `json:"opaque,omitempty"` // locals turned into parameters; statements that only define them are skipped
	Types  map[string]string `json:"types,omitempty"`  // path -> go type for fields / opaque locals
	Consts map[string]string `json:"consts,omitempty"` // identifier -> lean expr for package constants
	// Slice: translate only statements [From, To) markers: a statement is selected
	// when its source text contains the marker. Empty = whole body.
	FromMarker string `json:"from_marker,omitempty"`
	ToMarker   string `json:"to_marker,omitempty"`
	// Result: for sliced bodies without return: list of variables to return.
	Result []string `json:"result,omitempty"`
	// Params for sliced bodies: free variables, with types
	Free []string `json:"free,omitempty"`
	// Returns: [match, code] pairs: a `return` whose (whitespace-normalised) result text equals match, or
	// contains match[1:] when match starts with "~", yields the Int code. When given, every return
	// must match exactly one entry. End: the code when the body runs off its end.
	Returns [][2]string `json:"returns,omitempty"`
	End     string      `json:"end,omitempty"`
	// Exprs: normalised source text of an (opaque) expression -> "name:type": it becomes a parameter.
	Exprs map[string]string `json:"exprs,omitempty"`
	// Skip: statements (normalised text) that are dropped. Every entry must occur.
	Skip []string `json:"skip,omitempty"`
	// CondOf: translate only the condition of the unique `if` statement whose text starts with this.
	// CondCount (default 1) is the number of statements the marker must match, CondNth (0-based) picks one.
	CondOf    string `json:"cond_of,omitempty"`
	CondCount int    `json:"cond_count,omitempty"`
	CondNth   int    `json:"cond_nth,omitempty"`
	// ArgOf: translate only argument Arg of the Nth (0-based, source order) call of Callee.
	ArgOf *ArgOf `json:"arg_of,omitempty"`
	// Acts: statement (normalised text, or "~prefix") -> Int action code. A matching statement is not
	// translated; its code is appended to the action trace `acts_ : List Int`, which is returned after
	// the written fields. Every entry must match. See ext2.go.
	Acts map[string]string `json:"acts,omitempty"`
	// Errs: opaque-defining statement (normalised text) -> "var:name": `var != nil` after that statement is
	// the Bool parameter `name` (so that several `err`s of one function stay apart). See ext2.go.
	Errs map[string]string `json:"errs,omitempty"`
	// TableOf: translate the nested map composite literal assigned by the unique statement whose text starts
	// with this marker into `List (List Int × List Int)` rows (keys, cells). Symbols: cell text -> Int code.
	TableOf string            `json:"table_of,omitempty"`
	Symbols map[string]string `json:"symbols,omitempty"`
}

type ArgOf struct {
	Callee string `json:"callee"`
	Nth    int    `json:"nth"`
	Arg    int    `json:"arg"`
}

type CallFact struct {
	File   string   `json:"file"`
	Callee []string `json:"callee"`
	// Func: when set, only the calls inside this function ("Name" or "Recv.Name") are listed.
	Func string `json:"func,omitempty"`
}

type Config struct {
	Targets []Target   `json:"targets"`
	Calls   []CallFact `json:"calls"`
	// Skeletons: statement skeletons of whole functions (skel.go).
	Skeletons []SkelFact `json:"skeletons"`
}

type tr struct {
	fset    *token.FileSet
	src     []byte
	t       Target
	types   map[string]string // var -> go type
	params  []string          // ordered lean params (name)
	ptype   map[string]string
	written map[string]bool // field paths written
	funcs   map[string]string
	recv    string
	info    map[string]*fnInfo  // translated functions callable from later targets
	dir     string              // package directory (for constants)
	flat    int                 // >0 while a continuation is being duplicated (early returns)
	used    map[string]int      // exprs / skip entries that were hit
	alias   map[string]string   // opaque local -> Bool parameter standing for `local != nil` (errs)
	lconst  map[string]ast.Expr // constants declared inside the function
	arity   int                 // number of written fields at the last return translated (-1: none yet)
	clash   bool                // two returns saw different sets of written fields
}

func fail(format string, a ...any) {
	panic(fmt.Errorf(format, a...))
}

func leanType(gt string) string {
	switch gt {
	case "bool":
		return "Bool"
	case "int", "int64", "uint64", "time.Duration", "Duration":
		return "Int"
	}
	if isEnum(gt) {
		return "Int"
	}
	if gt == actsType {
		return "List Int"
	}
	fail("unsupported type %q", gt)
	return ""
}

func supported(gt string) bool {
	switch gt {
	case "bool", "int", "int64", "uint64", "time.Duration", "Duration":
		return true
	}
	return isEnum(gt)
}

func isEnum(gt string) bool { return strings.HasPrefix(gt, "enum:") }

func isU64(gt string) bool { return gt == "uint64" }

func (x *tr) text(n ast.Node) string {
	if !n.Pos().IsValid() || !n.End().IsValid() {
		return "<desugared switch>"
	}
	return string(x.src[x.fset.Position(n.Pos()).Offset:x.fset.Position(n.End()).Offset])
}

func pathOf(e ast.Expr) (string, bool) {
	switch v := e.(type) {
	case *ast.Ident:
		return v.Name, true
	case *ast.SelectorExpr:
		p, ok := pathOf(v.X)
		if !ok {
			return "", false
		}
		return p + "." + v.Sel.Name, true
	case *ast.ParenExpr:
		return pathOf(v.X)
	}
	return "", false
}

var leanKw = map[string]bool{"instance": true, "end": true, "from": true, "at": true, "fun": true, "let": true, "have": true,
	"show": true, "open": true, "in": true, "by": true, "do": true, "then": true, "else": true, "if": true, "match": true,
	"with": true, "where": true, "local": true, "private": true, "class": true, "structure": true, "inductive": true,
	"mutual": true, "universe": true, "import": true, "export": true, "macro": true, "syntax": true, "notation": true,
	"example": true, "axiom": true, "abbrev": true, "def": true, "theorem": true, "opaque": true, "partial": true,
	"unsafe": true, "for": true, "unless": true, "return": true, "try": true, "catch": true, "until": true, "repeat": true,
	"while": true, "break": true, "continue": true, "type": true, "Type": true, "Prop": true, "Sort": true, "section": true,
	"namespace": true, "variable": true, "deriving": true, "attribute": true}

// leanName turns a Go path into a Lean identifier (Lean keywords get a trailing underscore).
func leanName(path string) string {
	n := strings.ReplaceAll(path, ".", "_")
	if leanKw[n] {
		n += "_"
	}
	return n
}

// useVar registers a free path as a parameter if it is not a local.
func (x *tr) useVar(path string) (string, string) {
	if ty, ok := x.types[path]; ok {
		return leanName(path), ty
	}
	ty, ok := x.t.Types[path]
	if base, isNN := strings.CutSuffix(path, ".notnil"); !ok && isNN && x.t.Types[base] == "ptr" {
		ty, ok = "bool", true
	}
	if !ok {
		fail("%s: unknown type for %q (add to types)", x.t.Func, path)
	}
	x.types[path] = ty
	x.params = append(x.params, path)
	x.ptype[path] = ty
	return leanName(path), ty
}

// expr returns (lean, gotype). gotype "" = untyped constant.
func (x *tr) expr(e ast.Expr) (string, string) {
	if s, t, ok := x.opaqueExpr(e); ok {
		return s, t
	}
	switch v := e.(type) {
	case *ast.BasicLit:
		if v.Kind != token.INT {
			fail("%s: unsupported literal %s", x.t.Func, v.Value)
		}
		return "(" + strings.ReplaceAll(v.Value, "_", "") + " : Int)", ""
	case *ast.ParenExpr:
		s, t := x.expr(v.X)
		return "(" + s + ")", t
	case *ast.Ident:
		if v.Name == "true" || v.Name == "false" {
			return v.Name, "bool"
		}
		if c, ok := x.t.Consts[v.Name]; ok {
			return "(" + c + " : Int)", ""
		}
		if a, ok := x.alias[v.Name]; ok && x.t.Types[v.Name] == "bool" { // errs: this definition's own parameter
			return x.useVar(a)
		}
		if _, local := x.types[v.Name]; !local {
			if _, typed := x.t.Types[v.Name]; !typed {
				if c, ok := x.localConst(v.Name); ok {
					return "(" + c + " : Int)", ""
				}
				if c, ok := goConst(x.dir, v.Name); ok {
					return "(" + c + " : Int)", ""
				}
			}
		}
		return x.useVar(v.Name)
	case *ast.SelectorExpr:
		p, ok := pathOf(v)
		if !ok {
			fail("%s: unsupported selector %s", x.t.Func, x.text(v))
		}
		if c, ok := x.t.Consts[p]; ok {
			return "(" + c + " : Int)", ""
		}
		return x.useVar(p)
	case *ast.UnaryExpr:
		s, t := x.expr(v.X)
		switch v.Op {
		case token.NOT:
			return "(!" + s + ")", "bool"
		case token.SUB:
			if isEnum(t) || t == "bool" {
				fail("%s: arithmetic on %s", x.t.Func, t)
			}
			if isU64(t) {
				return "(u64 (-" + s + "))", t
			}
			return "(-" + s + ")", t
		}
		fail("%s: unsupported unary %s", x.t.Func, v.Op)
	case *ast.BinaryExpr:
		if s, ok := x.nilCompare(v); ok {
			return s, "bool"
		}
		a, ta := x.expr(v.X)
		b, tb := x.expr(v.Y)
		ty := ta
		if ty == "" {
			ty = tb
		}
		if ta != "" && tb != "" && ta != tb {
			fail("%s: mixed types %s/%s in %s", x.t.Func, ta, tb, x.text(v))
		}
		wrap := func(s string) string {
			if isU64(ty) {
				return "(u64 " + s + ")"
			}
			return s
		}
		switch v.Op {
		case token.ADD, token.SUB, token.MUL, token.QUO, token.REM:
			if isEnum(ty) || ty == "bool" {
				fail("%s: arithmetic on %s in %s", x.t.Func, ty, x.text(v))
			}
		}
		switch v.Op {
		case token.ADD:
			return wrap("(" + a + " + " + b + ")"), ty
		case token.SUB:
			return wrap("(" + a + " - " + b + ")"), ty
		case token.MUL:
			return wrap("(" + a + " * " + b + ")"), ty
		case token.QUO:
			return "(Int.tdiv " + a + " " + b + ")", ty
		case token.REM:
			return "(Int.tmod " + a + " " + b + ")", ty
		case token.LSS:
			return "(decide (" + a + " < " + b + "))", "bool"
		case token.LEQ:
			return "(decide (" + a + " ≤ " + b + "))", "bool"
		case token.GTR:
			return "(decide (" + a + " > " + b + "))", "bool"
		case token.GEQ:
			return "(decide (" + a + " ≥ " + b + "))", "bool"
		case token.EQL:
			if ty == "bool" {
				return "(" + a + " == " + b + ")", "bool"
			}
			return "(decide (" + a + " = " + b + "))", "bool"
		case token.NEQ:
			if ty == "bool" {
				return "(" + a + " != " + b + ")", "bool"
			}
			return "(decide (" + a + " ≠ " + b + "))", "bool"
		case token.LAND:
			return "(" + a + " && " + b + ")", "bool"
		case token.LOR:
			return "(" + a + " || " + b + ")", "bool"
		}
		fail("%s: unsupported operator %s", x.t.Func, v.Op)
	case *ast.CallExpr:
		fn, ok := pathOf(v.Fun)
		if !ok {
			fail("%s: unsupported call %s", x.t.Func, x.text(v))
		}
		switch fn {
		case "int64", "time.Duration", "int":
			s, t := x.expr(v.Args[0])
			if isU64(t) {
				return "(i64ofU64 " + s + ")", fn
			}
			return s, fn
		case "uint64":
			s, t := x.expr(v.Args[0])
			if isU64(t) || t == "" {
				return s, "uint64"
			}
			return "(u64 " + s + ")", "uint64"
		case "min", "max":
			a, ta := x.expr(v.Args[0])
			b, tb := x.expr(v.Args[1])
			ty := ta
			if ty == "" {
				ty = tb
			}
			return "(" + fn + " " + a + " " + b + ")", ty
		}
		if fi, ok := x.info[fn]; ok {
			return x.call(fi, v), fi.ret
		}
		fail("%s: call to untranslated function %s", x.t.Func, fn)
	}
	fail("%s: unsupported expression %s", x.t.Func, x.text(e))
	return "", ""
}

// assigned collects the paths assigned inside stmts (for if-merges).
func (x *tr) assigned(stmts []ast.Stmt, out map[string]bool) {
	for _, s := range stmts {
		if _, ok := x.actOf(s); ok {
			out[actsVar] = true
			continue
		}
		switch v := s.(type) {
		case *ast.AssignStmt:
			for _, l := range v.Lhs {
				if p, ok := pathOf(l); ok {
					if v.Tok == token.DEFINE {
						continue // block-local
					}
					out[p] = true
				}
			}
		case *ast.IncDecStmt:
			if p, ok := pathOf(v.X); ok {
				out[p] = true
			}
		case *ast.IfStmt:
			x.assigned(v.Body.List, out)
			if v.Else != nil {
				switch e := v.Else.(type) {
				case *ast.BlockStmt:
					x.assigned(e.List, out)
				case *ast.IfStmt:
					x.assigned([]ast.Stmt{e}, out)
				}
			}
		case *ast.BlockStmt:
			x.assigned(v.List, out)
		case *ast.SwitchStmt:
			x.assigned(x.desugarSwitch(v), out)
		}
	}
}

func endsInReturn(stmts []ast.Stmt) bool {
	if len(stmts) == 0 {
		return false
	}
	switch v := stmts[len(stmts)-1].(type) {
	case *ast.ReturnStmt:
		return true
	case *ast.IfStmt:
		if v.Else == nil {
			return false
		}
		var el []ast.Stmt
		switch e := v.Else.(type) {
		case *ast.BlockStmt:
			el = e.List
		case *ast.IfStmt:
			el = []ast.Stmt{e}
		}
		return endsInReturn(v.Body.List) && endsInReturn(el)
	}
	return false
}

func hasReturn(stmts []ast.Stmt) bool {
	found := false
	for _, s := range stmts {
		ast.Inspect(s, func(n ast.Node) bool {
			if _, ok := n.(*ast.ReturnStmt); ok {
				found = true
			}
			return true
		})
	}
	return found
}

func (x *tr) isOpaque(p string) bool {
	for _, o := range x.t.Opaque {
		if o == p {
			return true
		}
	}
	return false
}

// onlyDefinesOpaque reports whether stmt only defines/assigns opaque locals.
func (x *tr) onlyDefinesOpaque(s ast.Stmt) bool {
	if len(x.t.Opaque) == 0 {
		return false
	}
	switch v := s.(type) {
	case *ast.DeclStmt:
		gd, ok := v.Decl.(*ast.GenDecl)
		if !ok || gd.Tok != token.VAR {
			return false
		}
		for _, sp := range gd.Specs {
			vs := sp.(*ast.ValueSpec)
			for _, n := range vs.Names {
				if !x.isOpaque(n.Name) {
					return false
				}
			}
		}
		return true
	case *ast.IfStmt:
		if v.Else != nil {
			return false
		}
		m := map[string]bool{}
		x.assigned(v.Body.List, m)
		if len(m) == 0 {
			return false
		}
		for p := range m {
			if !x.isOpaque(p) {
				return false
			}
		}
		return true
	case *ast.AssignStmt:
		for _, l := range v.Lhs {
			p, ok := pathOf(l)
			if !ok || !x.isOpaque(p) {
				return false
			}
		}
		return true
	}
	return false
}

func (x *tr) finalResult(ret string) string {
	w := x.writtenList()
	parts := []string{}
	if ret != "" {
		parts = append(parts, ret)
	}
	if x.arity >= 0 && x.arity != len(w) {
		x.clash = true // a field is written after an earlier return: redo with the full set (see main)
	}
	x.arity = len(w)
	for _, p := range w {
		n, _ := x.useVar(p)
		parts = append(parts, n)
	}
	if len(x.t.Acts) > 0 {
		parts = append(parts, actsVar)
	}
	for _, r := range x.t.Result {
		n, _ := x.useVar(r)
		parts = append(parts, n)
	}
	if len(parts) == 0 {
		fail("%s: nothing to return", x.t.Func)
	}
	if len(parts) == 1 {
		return parts[0]
	}
	return "(" + strings.Join(parts, ", ") + ")"
}

func (x *tr) writtenList() []string {
	var w []string
	for p := range x.written {
		w = append(w, p)
	}
	sort.Strings(w)
	return w
}

// stmts translates a statement list into a Lean term; ind is indentation.
func (x *tr) stmts(list []ast.Stmt, ind string, end func(ind string) string) string {
	if len(list) == 0 {
		return end(ind)
	}
	s, rest := list[0], list[1:]
	if x.skipped(s) {
		return x.stmts(rest, ind, end)
	}
	if spec, ok := x.actOf(s); ok {
		return ind + "let " + actsVar + " := " + actsVar + " ++ [" + x.actCode(spec) + "]\n" + x.stmts(rest, ind, end)
	}
	if x.onlyDefinesOpaque(s) {
		x.registerOpaque()
		x.bindErr(s)
		return x.stmts(rest, ind, end)
	}
	switch v := s.(type) {
	case *ast.IncDecStmt:
		tok := token.ADD_ASSIGN
		if v.Tok == token.DEC {
			tok = token.SUB_ASSIGN
		}
		one := &ast.BasicLit{Kind: token.INT, Value: "1", ValuePos: v.Pos()}
		return x.stmts(append([]ast.Stmt{&ast.AssignStmt{Lhs: []ast.Expr{v.X}, Tok: tok, TokPos: v.TokPos, Rhs: []ast.Expr{one}}}, rest...), ind, end)
	case *ast.SwitchStmt:
		return x.stmts(append(x.desugarSwitch(v), rest...), ind, end)
	case *ast.ReturnStmt:
		if code, ok := x.returnCode(v); ok {
			return ind + x.finalResult(code)
		}
		if len(v.Results) != 1 {
			fail("%s: return with %d results", x.t.Func, len(v.Results))
		}
		r, _ := x.expr(v.Results[0])
		return ind + x.finalResult(r)
	case *ast.DeclStmt:
		gd := v.Decl.(*ast.GenDecl)
		if gd.Tok != token.VAR {
			fail("%s: unsupported decl", x.t.Func)
		}
		out := ""
		for _, sp := range gd.Specs {
			vs := sp.(*ast.ValueSpec)
			for i, n := range vs.Names {
				ty := ""
				if vs.Type != nil {
					ty = x.text(vs.Type)
				}
				val := "(0 : Int)"
				if ty == "bool" {
					val = "false"
				}
				if len(vs.Values) > i {
					var t2 string
					val, t2 = x.expr(vs.Values[i])
					if ty == "" {
						ty = t2
					}
				}
				if ty == "" {
					ty = "int"
				}
				leanType(ty)
				x.noShadow(n.Name)
				x.types[n.Name] = ty
				out += ind + "let " + leanName(n.Name) + " := " + val + "\n"
			}
		}
		return out + x.stmts(rest, ind, end)
	case *ast.AssignStmt:
		if len(v.Lhs) != 1 || len(v.Rhs) != 1 {
			fail("%s: unsupported multi-assign %s", x.t.Func, x.text(v))
		}
		p, ok := pathOf(v.Lhs[0])
		if !ok {
			fail("%s: unsupported lhs %s", x.t.Func, x.text(v.Lhs[0]))
		}
		rhs, rt := x.expr(v.Rhs[0])
		var name, ty string
		if v.Tok == token.DEFINE {
			if rt == "" {
				rt = "int"
			}
			x.noShadow(p)
			x.types[p] = rt
			name, ty = leanName(p), rt
		} else {
			name, ty = x.useVar(p)
			if strings.Contains(p, ".") {
				x.written[p] = true
			}
		}
		wrap := func(s string) string {
			if isU64(ty) {
				return "(u64 " + s + ")"
			}
			return s
		}
		switch v.Tok {
		case token.DEFINE, token.ASSIGN:
		case token.ADD_ASSIGN, token.SUB_ASSIGN, token.MUL_ASSIGN, token.QUO_ASSIGN:
			if isEnum(ty) || ty == "bool" {
				fail("%s: arithmetic on %s in %s", x.t.Func, ty, x.text(v))
			}
		}
		switch v.Tok {
		case token.DEFINE, token.ASSIGN:
		case token.ADD_ASSIGN:
			rhs = wrap("(" + name + " + " + rhs + ")")
		case token.SUB_ASSIGN:
			rhs = wrap("(" + name + " - " + rhs + ")")
		case token.MUL_ASSIGN:
			rhs = wrap("(" + name + " * " + rhs + ")")
		case token.QUO_ASSIGN:
			rhs = "(Int.tdiv " + name + " " + rhs + ")"
		default:
			fail("%s: unsupported assign op %s", x.t.Func, v.Tok)
		}
		return ind + "let " + name + " := " + rhs + "\n" + x.stmts(rest, ind, end)
	case *ast.IfStmt:
		var bound []string
		if v.Init != nil {
			if !x.onlyDefinesOpaque(v.Init) {
				fail("%s: unsupported if-init %s", x.t.Func, x.text(v.Init))
			}
			x.registerOpaque()
			bound = x.bindErr(v.Init)
		}
		unbind := func() { // the if-init's variables go out of scope with the if
			for _, b := range bound {
				delete(x.alias, b)
			}
		}
		cond, _ := x.expr(v.Cond)
		var el []ast.Stmt
		if v.Else != nil {
			switch e := v.Else.(type) {
			case *ast.BlockStmt:
				el = e.List
			case *ast.IfStmt:
				el = []ast.Stmt{e}
			}
		}
		thenRet := endsInReturn(v.Body.List)
		elseRet := endsInReturn(el)
		if !hasReturn(v.Body.List) && !hasReturn(el) {
			// merge assigned variables
			m := map[string]bool{}
			x.assigned([]ast.Stmt{v}, m)
			var vars []string
			for p := range m {
				vars = append(vars, p)
			}
			sort.Strings(vars)
			if len(vars) == 0 {
				unbind()
				return x.stmts(rest, ind, end)
			}
			for _, p := range vars {
				x.useVar(p)
				if strings.Contains(p, ".") {
					x.written[p] = true
				}
			}
			names := make([]string, len(vars))
			for i, p := range vars {
				names[i] = leanName(p)
			}
			tuple := names[0]
			if len(names) > 1 {
				tuple = "(" + strings.Join(names, ", ") + ")"
			}
			branch := func(b []ast.Stmt) string {
				saved := x.snapshotTypes()
				out := x.stmts(b, ind+"    ", func(i string) string { return i + tuple })
				x.restoreTypes(saved)
				return out
			}
			out := ind + "let " + tuple + " := (\n" + ind + "  if " + cond + " then\n" + branch(v.Body.List) + "\n" + ind + "  else\n" + branch(el) + ")\n"
			unbind()
			return out + x.stmts(rest, ind, end)
		}
		if thenRet && (v.Else == nil || elseRet) {
			saved := x.snapshotTypes()
			thenS := x.stmts(v.Body.List, ind+"  ", end)
			x.restoreTypes(saved)
			var elseS string
			if v.Else == nil {
				unbind()
				elseS = x.stmts(rest, ind+"  ", end)
			} else {
				elseS = x.stmts(el, ind+"  ", end)
				unbind()
			}
			return ind + "if " + cond + " then\n" + thenS + "\n" + ind + "else\n" + elseS
		}
		// early return in only some branches: the continuation is duplicated into both branches
		if len(bound) > 0 {
			fail("%s: errs binding in the init of an if with a partial early return: %s", x.t.Func, x.text(v.Init))
		}
		x.flat++
		saved := x.snapshotTypes()
		cont := func(i string) string {
			x.restoreTypes(saved)
			return x.stmts(rest, i, end)
		}
		thenS := x.stmts(v.Body.List, ind+"  ", cont)
		x.restoreTypes(saved)
		elseS := x.stmts(el, ind+"  ", cont)
		x.restoreTypes(saved)
		x.flat--
		return ind + "if " + cond + " then\n" + thenS + "\n" + ind + "else\n" + elseS
	case *ast.BlockStmt:
		return x.stmts(append(append([]ast.Stmt{}, v.List...), rest...), ind, end)
	case *ast.ExprStmt:
		// allow logging calls: log.X(...), metrics.X
		if c, ok := v.X.(*ast.CallExpr); ok {
			if p, ok := pathOf(c.Fun); ok && (strings.HasPrefix(p, "log.") || strings.HasPrefix(p, "metrics.") || strings.HasSuffix(p, ".log")) {
				return x.stmts(rest, ind, end)
			}
		}
	}
	fail("%s: unsupported statement %s", x.t.Func, x.text(s))
	return ""
}

func (x *tr) snapshotTypes() map[string]string {
	m := map[string]string{}
	for k, v := range x.types {
		m[k] = v
	}
	return m
}
func (x *tr) restoreTypes(m map[string]string) {
	// keep parameters discovered in the branch, drop block locals
	for k := range x.types {
		if _, ok := m[k]; !ok {
			if _, isParam := x.ptype[k]; !isParam {
				delete(x.types, k)
			}
		}
	}
}

func findFunc(f *ast.File, name string) *ast.FuncDecl {
	recv, fn := "", name
	if i := strings.Index(name, "."); i >= 0 {
		recv, fn = name[:i], name[i+1:]
	}
	for _, d := range f.Decls {
		fd, ok := d.(*ast.FuncDecl)
		if !ok || fd.Name.Name != fn {
			continue
		}
		if recv == "" && fd.Recv == nil {
			return fd
		}
		if recv != "" && fd.Recv != nil {
			t := fd.Recv.List[0].Type
			if s, ok := t.(*ast.StarExpr); ok {
				t = s.X
			}
			switch g := t.(type) { // generic receiver: T[A] / T[A, B]
			case *ast.IndexExpr:
				t = g.X
			case *ast.IndexListExpr:
				t = g.X
			}
			if id, ok := t.(*ast.Ident); ok && id.Name == recv {
				return fd
			}
		}
	}
	return nil
}

func main() {
	if len(os.Args) != 4 && len(os.Args) != 5 {
		fmt.Fprintln(os.Stderr, "usage: go2lean <repo> <targets.json> <out.lean> [namespace]")
		os.Exit(2)
	}
	repo, cfgPath, outPath := os.Args[1], os.Args[2], os.Args[3]
	raw, err := os.ReadFile(cfgPath)
	if err != nil {
		fmt.Fprintln(os.Stderr, err)
		os.Exit(2)
	}
	var cfg Config
	if err := json.Unmarshal(raw, &cfg); err != nil {
		fmt.Fprintln(os.Stderr, err)
		os.Exit(2)
	}
	var out strings.Builder
	out.WriteString("-- GENERATED by tools/go2lean from /repo's working tree. Do not edit.\n")
	ns := "F3.Gen"
	if len(os.Args) == 5 {
		ns = os.Args[4]
	}
	out.WriteString("import F3.Model.GoInt\nnamespace " + ns + "\nopen F3.GoInt\n\n")
	funcs := map[string]string{}
	info := map[string]*fnInfo{}
	var errs []string
	for _, t := range cfg.Targets {
		func() {
			defer func() {
				if r := recover(); r != nil {
					errs = append(errs, fmt.Sprint(r))
				}
			}()
			fset := token.NewFileSet()
			path := filepath.Join(repo, t.File)
			src, err := os.ReadFile(path)
			if err != nil {
				fail("%v", err)
			}
			f, err := parser.ParseFile(fset, path, src, parser.ParseComments)
			if err != nil {
				fail("%v", err)
			}
			fd := findFunc(f, t.Func)
			if fd == nil {
				fail("function %s not found in %s", t.Func, t.File)
			}
			if t.Types == nil {
				t.Types = map[string]string{}
			}
			// A return translated before a later field write would have a shorter tuple: when that happens the
			// body is translated a second time with the set of written fields of the first pass known up front.
			seed := map[string]bool{}
			for pass := 0; ; pass++ {
				x := &tr{fset: fset, src: src, t: t, types: map[string]string{}, ptype: map[string]string{}, written: seed, funcs: funcs,
					info: info, dir: filepath.Dir(path), used: map[string]int{}, alias: map[string]string{}, lconst: localConsts(fd), arity: -1}
				body := fd.Body.List
				sliced := t.FromMarker != "" || t.CondOf != "" || t.ArgOf != nil || t.TableOf != ""
				var single ast.Expr // cond_of / arg_of: one expression instead of a body
				if t.CondOf != "" {
					single = x.findIfCond(fd, t.CondOf, max(t.CondCount, 1), t.CondNth)
				} else if t.ArgOf != nil {
					single = x.findCallArg(fd, *t.ArgOf)
				} else if t.FromMarker != "" {
					sel := []ast.Stmt{}
					var lists [][]ast.Stmt
					ast.Inspect(fd.Body, func(n ast.Node) bool {
						switch v := n.(type) {
						case *ast.BlockStmt:
							lists = append(lists, v.List)
						case *ast.CaseClause:
							lists = append(lists, v.Body)
						case *ast.CommClause:
							lists = append(lists, v.Body)
						}
						return true
					})
					for _, l := range lists {
						on := false
						for _, st := range l {
							tx := strings.TrimSpace(x.text(st))
							if !on && strings.HasPrefix(tx, t.FromMarker) {
								on = true
							} else if on && t.ToMarker != "" && strings.HasPrefix(tx, t.ToMarker) {
								break
							}
							if on {
								sel = append(sel, st)
							}
						}
						if on {
							break
						}
					}
					if len(sel) == 0 {
						fail("%s: from_marker %q not found", t.Func, t.FromMarker)
					}
					body = sel
				} else {
					// declared parameters in order
					for _, fl := range fd.Type.Params.List {
						ty := x.text(fl.Type)
						for _, n := range fl.Names {
							if !supported(ty) {
								continue
							}
							x.types[n.Name] = ty
							x.params = append(x.params, n.Name)
							x.ptype[n.Name] = ty
						}
					}
				}
				var bodyLean string
				if t.TableOf != "" {
					bodyLean = x.table(fd)
				} else if single != nil {
					e, _ := x.expr(single)
					bodyLean = "  " + e
				} else {
					if len(t.Acts) > 0 {
						x.types[actsVar] = actsType
						bodyLean = "  let " + actsVar + " : List Int := []\n"
					}
					bodyLean +=
						x.stmts(body, "  ", func(i string) string {
							if t.End != "" {
								return i + x.finalResult("("+t.End+" : Int)")
							}
							return i + x.finalResult("")
						})
				}
				x.checkUsed()
				if x.clash {
					if pass > 0 {
						fail("%s: returns with different sets of written fields", t.Func)
					}
					seed = x.written
					continue
				}
				// parameters: declared first (in order), then discovered (sorted for stability)
				declared := 0
				if !sliced {
					for _, fl := range fd.Type.Params.List {
						if supported(x.text(fl.Type)) {
							declared += len(fl.Names)
						}
					}
				}
				disc := append([]string{}, x.params[declared:]...)
				sort.Strings(disc)
				ordered := append(append([]string{}, x.params[:declared]...), disc...)
				var ps []string
				for _, p := range ordered {
					ps = append(ps, fmt.Sprintf("(%s : %s)", leanName(p), leanType(x.ptype[p])))
				}
				fmt.Fprintf(&out, "/-- from %s : %s; params %v; returns ret × written fields %v × results %v -/\n", t.File, t.Func, ordered, x.writtenList(), t.Result)
				fmt.Fprintf(&out, "def %s %s :=\n%s\n\n", t.Lean, strings.Join(ps, " "), bodyLean)
				key := t.Func
				if i := strings.Index(key, "."); i >= 0 {
					key = key[i+1:]
				}
				funcs[key] = t.Lean
				ret := "int64"
				if fd.Type.Results != nil && len(fd.Type.Results.List) == 1 {
					ret = x.text(fd.Type.Results.List[0].Type)
				}
				funcs[key+"#ret"] = ret
				if !sliced {
					fi := &fnInfo{lean: t.Lean, ret: ret, ordered: ordered, formal: map[string]int{}}
					k := 0
					for _, fl := range fd.Type.Params.List {
						for _, n := range fl.Names {
							fi.formal[n.Name] = k
							k++
						}
					}
					info[key] = fi
				}
				break
			}
		}()
	}
	errs = append(errs, emitSkeletons(cfg.Skeletons, repo, &out)...)
	// call facts
	out.WriteString("/-- (file, callee, args) for every call of the listed callees. -/\n")
	out.WriteString("def callSites : List (String × String × List String) := [\n")
	first := true
	for _, cf := range cfg.Calls {
		fset := token.NewFileSet()
		path := filepath.Join(repo, cf.File)
		src, err := os.ReadFile(path)
		if err != nil {
			errs = append(errs, err.Error())
			continue
		}
		f, err := parser.ParseFile(fset, path, src, 0)
		if err != nil {
			errs = append(errs, err.Error())
			continue
		}
		var scope ast.Node = f
		if cf.Func != "" {
			fd := findFunc(f, cf.Func)
			if fd == nil {
				errs = append(errs, fmt.Sprintf("calls: function %s not found in %s", cf.Func, cf.File))
				continue
			}
			scope = fd.Body
		}
		ast.Inspect(scope, func(n ast.Node) bool {
			c, ok := n.(*ast.CallExpr)
			if !ok {
				return true
			}
			p, ok := pathOf(c.Fun)
			if !ok {
				return true
			}
			base := p
			if i := strings.LastIndex(p, "."); i >= 0 {
				base = p[i+1:]
			}
			for _, want := range cf.Callee {
				if base == want {
					var args []string
					for _, a := range c.Args {
						args = append(args, fmt.Sprintf("%q", string(src[fset.Position(a.Pos()).Offset:fset.Position(a.End()).Offset])))
					}
					if !first {
						out.WriteString(",\n")
					}
					first = false
					fmt.Fprintf(&out, "  (%q, %q, [%s])", cf.File, base, strings.Join(args, ", "))
				}
			}
			return true
		})
	}
	out.WriteString("\n]\n\nend " + ns + "\n")
	if len(errs) > 0 {
		for _, e := range errs {
			fmt.Fprintln(os.Stderr, "translator obligation broken:", e)
		}
		os.Exit(1)
	}
	if err := os.WriteFile(outPath, []byte(out.String()), 0o644); err != nil {
		fmt.Fprintln(os.Stderr, err)
		os.Exit(2)
	}
}
