// Second set of go2lean extensions: action traces (`acts`), per-definition error parameters (`errs`),
// function-local constants, nested map literals as tables (`table_of` / `symbols`).
// Strict like the rest: what is not recognised is a "translator obligation broken" error.
package main

import (
	"go/ast"
	"go/token"
	"strconv"
	"strings"
)

const (
	actsVar  = "acts_"
	actsType = "acts"
)

// ---- action traces ---------------------------------------------------------------------------

// actOf: the action code of a statement listed in `acts` (exact normalised text, or "~prefix").
func (x *tr) actOf(s ast.Stmt) (string, bool) {
	if len(x.t.Acts) == 0 || !s.Pos().IsValid() || !s.End().IsValid() {
		return "", false
	}
	tx := norm(x.text(s))
	hit, code := "", ""
	for k, c := range x.t.Acts {
		ok := norm(k) == tx
		if pre, isPre := strings.CutPrefix(k, "~"); isPre {
			ok = strings.HasPrefix(tx, norm(pre))
		}
		if ok {
			if hit != "" {
				fail("%s: statement %q matches two entries of acts", x.t.Func, tx)
			}
			hit, code = k, c
		}
	}
	if hit == "" {
		return "", false
	}
	x.used["act "+norm(hit)]++
	return code, true
}

// actCode: "<n>" is the code n; "<n>+<boolvar>" is n when the Bool variable is false and n+1 when it is
// true (an action that passes a flag on).
func (x *tr) actCode(spec string) string {
	code, flag, hasFlag := strings.Cut(spec, "+")
	if _, err := strconv.Atoi(code); err != nil {
		fail("%s: action code %q is not an integer", x.t.Func, spec)
	}
	if !hasFlag {
		return "(" + code + " : Int)"
	}
	v, ty := x.useVar(flag)
	if ty != "bool" {
		fail("%s: action flag %q is not a bool", x.t.Func, flag)
	}
	return "((" + code + " : Int) + (if " + v + " then 1 else 0))"
}

// ---- per-definition error parameters ---------------------------------------------------------

// bindErr: s only defines opaque locals. If `errs` names it ("var:param"), `var != nil` is the Bool
// parameter `param` until var is defined again; otherwise every variable s defines loses its binding
// (and falls back to the generic `<var>_notnil`). Returns the variables bound by s.
func (x *tr) bindErr(s ast.Stmt) []string {
	if len(x.t.Errs) == 0 || s == nil || !s.Pos().IsValid() {
		return nil
	}
	m := map[string]bool{}
	if a, ok := s.(*ast.AssignStmt); ok {
		for _, l := range a.Lhs {
			if p, ok := pathOf(l); ok {
				m[p] = true
			}
		}
	} else {
		x.assigned([]ast.Stmt{s}, m)
	}
	for p := range m {
		delete(x.alias, p)
	}
	tx := norm(x.text(s))
	for k, spec := range x.t.Errs {
		if norm(k) != tx {
			continue
		}
		v, name, ok := strings.Cut(spec, ":")
		if !ok || !m[v] || (x.t.Types[v] != "ptr" && x.t.Types[v] != "bool") || !x.isOpaque(v) {
			fail("%s: errs entry %q must be \"var:param\" with var an opaque \"ptr\" / \"bool\" local the statement defines", x.t.Func, k)
		}
		if old, dup := x.t.Types[name]; dup && old != "bool" {
			fail("%s: errs name %q clashes with a typed path", x.t.Func, name)
		}
		x.t.Types[name] = "bool"
		x.alias[v] = name
		x.used["err "+norm(k)]++
		return []string{v}
	}
	return nil
}

// ---- function-local constants ------------------------------------------------------------------

func localConsts(fd *ast.FuncDecl) map[string]ast.Expr {
	m := map[string]ast.Expr{}
	ast.Inspect(fd.Body, func(n ast.Node) bool {
		gd, ok := n.(*ast.GenDecl)
		if !ok || gd.Tok != token.CONST {
			return true
		}
		for _, sp := range gd.Specs {
			vs := sp.(*ast.ValueSpec)
			for j, n := range vs.Names {
				if j < len(vs.Values) {
					if _, dup := m[n.Name]; dup {
						fail("%s: local constant %s declared twice", fd.Name.Name, n.Name)
					}
					m[n.Name] = vs.Values[j]
				}
			}
		}
		return true
	})
	return m
}

func (x *tr) localConst(name string) (string, bool) {
	e, ok := x.lconst[name]
	if !ok {
		return "", false
	}
	n, ok := evalConst(loadConsts(x.dir), e, 0, 0)
	if !ok {
		fail("%s: local constant %s: unsupported constant expression", x.t.Func, name)
	}
	return strconv.FormatInt(n, 10), true
}

// ---- nested map literals as tables ---------------------------------------------------------------

// table: the unique `marker… map[K]map[K']…{…}` assignment of fd -> rows `([keys…], [cells…])`. A key is an
// integer constant expression; a leaf is `{c1, c2, …}` (positional struct literal) or a single expression;
// a cell is either listed in `symbols` (text -> Int code) or an integer expression of the subset.
func (x *tr) table(fd *ast.FuncDecl) string {
	var lits []*ast.CompositeLit
	ast.Inspect(fd.Body, func(n ast.Node) bool {
		a, ok := n.(*ast.AssignStmt)
		if !ok || len(a.Rhs) != 1 || !strings.HasPrefix(norm(x.text(a)), norm(x.t.TableOf)) {
			return true
		}
		cl, ok := a.Rhs[0].(*ast.CompositeLit)
		if !ok {
			fail("%s: table_of %q: the right-hand side is not a composite literal", x.t.Func, x.t.TableOf)
		}
		lits = append(lits, cl)
		return true
	})
	if len(lits) != 1 {
		fail("%s: table_of %q matches %d statements, expected 1", x.t.Func, x.t.TableOf, len(lits))
	}
	if _, ok := lits[0].Type.(*ast.MapType); !ok {
		fail("%s: table_of %q: not a map literal", x.t.Func, x.t.TableOf)
	}
	var rows []string
	x.tableRows(lits[0], nil, &rows)
	if len(rows) == 0 {
		fail("%s: table_of %q: empty table", x.t.Func, x.t.TableOf)
	}
	return "  ([\n    " + strings.Join(rows, ",\n    ") + "\n  ] : List (List Int × List Int))"
}

func (x *tr) tableCell(e ast.Expr) string {
	tx := norm(x.text(e))
	for k, c := range x.t.Symbols {
		if norm(k) == tx {
			if _, err := strconv.Atoi(c); err != nil {
				fail("%s: symbol code %q is not an integer", x.t.Func, c)
			}
			x.used["sym "+norm(k)]++
			return "(" + c + " : Int)"
		}
	}
	s, ty := x.expr(e)
	if ty == "bool" {
		fail("%s: table cell %s is not an integer", x.t.Func, tx)
	}
	return s
}

func (x *tr) tableRows(cl *ast.CompositeLit, keys []string, rows *[]string) {
	for _, el := range cl.Elts {
		kv, ok := el.(*ast.KeyValueExpr)
		if !ok {
			fail("%s: table: element without a key: %s", x.t.Func, x.text(el))
		}
		ks := append(append([]string{}, keys...), x.tableCell(kv.Key))
		var cells []string
		if v, ok := kv.Value.(*ast.CompositeLit); ok && v.Type == nil {
			if len(v.Elts) == 0 {
				fail("%s: table: empty literal at %s", x.t.Func, x.text(kv))
			}
			if _, nested := v.Elts[0].(*ast.KeyValueExpr); nested {
				x.tableRows(v, ks, rows)
				continue
			}
			for _, c := range v.Elts {
				if _, bad := c.(*ast.KeyValueExpr); bad {
					fail("%s: table: mixed literal at %s", x.t.Func, x.text(kv))
				}
				cells = append(cells, x.tableCell(c))
			}
		} else {
			cells = []string{x.tableCell(kv.Value)}
		}
		*rows = append(*rows, "(["+strings.Join(ks, ", ")+"], ["+strings.Join(cells, ", ")+"])")
	}
}
