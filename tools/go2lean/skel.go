package main

import (
	"fmt"
	"go/ast"
	"go/parser"
	"go/token"
	"os"
	"path/filepath"
	"strings"
)

// SkelFact: the statement skeleton of one function — the pre-order list of its statements as "<depth>:<kind>" —
// regenerated as `def <Lean> : List String`. The expression-level targets pin what individual conditions and
// assignments say; the skeleton pins that nothing was added around them (an extra early return, a new loop, a
// dropped branch). A tie theorem compares it with the expected list, so any structural change of the function is a
// broken obligation (and, like every obligation, may be broken by a harmless rewrite too).
type SkelFact struct {
	File string `json:"file"`
	Func string `json:"func"`
	Lean string `json:"lean"`
}

func stmtKind(s ast.Stmt) string {
	switch x := s.(type) {
	case *ast.IfStmt:
		return "if"
	case *ast.ForStmt:
		return "for"
	case *ast.RangeStmt:
		return "range"
	case *ast.SwitchStmt:
		return "switch"
	case *ast.TypeSwitchStmt:
		return "typeswitch"
	case *ast.SelectStmt:
		return "select"
	case *ast.CaseClause:
		if x.List == nil {
			return "default"
		}
		return fmt.Sprintf("case%d", len(x.List))
	case *ast.CommClause:
		return "comm"
	case *ast.ReturnStmt:
		return fmt.Sprintf("return%d", len(x.Results))
	case *ast.AssignStmt:
		return "assign" + x.Tok.String()
	case *ast.ExprStmt:
		if c, ok := x.X.(*ast.CallExpr); ok {
			return "call:" + exprName(c.Fun)
		}
		return "expr"
	case *ast.DeclStmt:
		return "decl"
	case *ast.IncDecStmt:
		return "incdec" + x.Tok.String()
	case *ast.GoStmt:
		return "go"
	case *ast.DeferStmt:
		return "defer"
	case *ast.SendStmt:
		return "send"
	case *ast.BlockStmt:
		return "block"
	case *ast.BranchStmt:
		return "branch:" + x.Tok.String()
	case *ast.LabeledStmt:
		return "label"
	case *ast.EmptyStmt:
		return "empty"
	}
	return fmt.Sprintf("%T", s)
}

func exprName(e ast.Expr) string {
	switch x := e.(type) {
	case *ast.Ident:
		return x.Name
	case *ast.SelectorExpr:
		return exprName(x.X) + "." + x.Sel.Name
	case *ast.CallExpr:
		return exprName(x.Fun) + "()"
	case *ast.IndexExpr:
		return exprName(x.X) + "[]"
	case *ast.ParenExpr:
		return exprName(x.X)
	case *ast.FuncLit:
		return "func"
	}
	return "?"
}

func skeleton(list []ast.Stmt, depth int, out *[]string) {
	for _, s := range list {
		*out = append(*out, fmt.Sprintf("%d:%s", depth, stmtKind(s)))
		switch x := s.(type) {
		case *ast.IfStmt:
			skeleton(x.Body.List, depth+1, out)
			for e := x.Else; e != nil; {
				switch y := e.(type) {
				case *ast.BlockStmt:
					*out = append(*out, fmt.Sprintf("%d:else", depth))
					skeleton(y.List, depth+1, out)
					e = nil
				case *ast.IfStmt:
					*out = append(*out, fmt.Sprintf("%d:elseif", depth))
					skeleton(y.Body.List, depth+1, out)
					e = y.Else
				default:
					e = nil
				}
			}
		case *ast.ForStmt:
			skeleton(x.Body.List, depth+1, out)
		case *ast.RangeStmt:
			skeleton(x.Body.List, depth+1, out)
		case *ast.SwitchStmt:
			skeleton(x.Body.List, depth+1, out)
		case *ast.TypeSwitchStmt:
			skeleton(x.Body.List, depth+1, out)
		case *ast.SelectStmt:
			skeleton(x.Body.List, depth+1, out)
		case *ast.CaseClause:
			skeleton(x.Body, depth+1, out)
		case *ast.CommClause:
			skeleton(x.Body, depth+1, out)
		case *ast.BlockStmt:
			skeleton(x.List, depth+1, out)
		case *ast.LabeledStmt:
			skeleton([]ast.Stmt{x.Stmt}, depth+1, out)
		}
	}
}

func emitSkeletons(facts []SkelFact, repo string, out *strings.Builder) (errs []string) {
	for _, sf := range facts {
		fset := token.NewFileSet()
		path := filepath.Join(repo, sf.File)
		src, err := os.ReadFile(path)
		if err != nil {
			errs = append(errs, err.Error())
			continue
		}
		f, err := parser.ParseFile(fset, path, src, 0)
		if err != nil {
			errs = append(errs, err.Error())
			continue
		}
		fd := findFunc(f, sf.Func)
		if fd == nil || fd.Body == nil {
			errs = append(errs, fmt.Sprintf("skeleton: function %s not found in %s", sf.Func, sf.File))
			continue
		}
		var sk []string
		skeleton(fd.Body.List, 0, &sk)
		fmt.Fprintf(out, "/-- statement skeleton of `%s` (%s) -/\ndef %s : List String := [", sf.Func, sf.File, sf.Lean)
		for i, s := range sk {
			if i > 0 {
				out.WriteString(", ")
			}
			fmt.Fprintf(out, "%q", s)
		}
		out.WriteString("]\n\n")
	}
	return errs
}
