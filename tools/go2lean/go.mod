module go2lean

go 1.24.6
