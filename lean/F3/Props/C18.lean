import F3.Proofs.SkelTieChainX
import F3.Proofs.ChainXWanted
import F3.Gen.ChainX
/-!
# C18 — Chain exchange: admitted chains are retrievable by key, wanted chains are kept

All theorems are about `F3.ChainX` (model of `chainexchange/pubsub.go`, executed by the driver against
the real code on every run) over `F3.Lru` (model of hashicorp/golang-lru/v2, differential-tested
against the real cache). The property is stated over the observable history by `F3.ChainX.Spec`
(`Tracker`, `judgeLookup`, `mustNotAdmit`); `spec_sound` says the model satisfies it for EVERY
operation history and all capacities ≥ 1, and the driver evaluates the same `judgeLookup` /
`mustNotAdmit` on the implementation's own answers.
-/
namespace F3.Props.C18
open F3 F3.Lru F3.ChainX F3.ChainX.Spec

/-! ## the LRU model: invariants by induction over operation lists -/

/-- Size never exceeds the capacity and keys stay unique, after any operation list. -/
theorem lru_invariants {κ ν : Type} [DecidableEq κ] (c : Cache κ ν) (h : WF c) (os : List (Lru.Op κ ν)) :
    (Lru.run c os).items.length ≤ (Lru.run c os).cap ∧ (keysOf (Lru.run c os).items).Nodup :=
  ⟨(run_wf os h).len, (run_wf os h).nodup⟩

/-- Recency order: a key stays cached — with everything more recently used than it among the keys
touched since — for as long as fewer than `cap` distinct other keys have been touched (`Add`, `Get`,
`ContainsOrAdd`), whatever the operations are (explicit `Remove` of that key excepted). -/
theorem lru_retention {κ ν : Type} [DecidableEq κ] {c : Cache κ ν} {k : κ} {F : List κ}
    (os : List (Lru.Op κ ν)) (hw : WF c) (h : Holds c k F) (hno : ∀ o ∈ os, o ≠ Lru.Op.remove k)
    (hlen : (accKeys k F os).length < c.cap) :
    k ∈ keysOf (Lru.run c os).items ∧ ∀ x ∈ front (Lru.run c os).items k, x ∈ accKeys k F os :=
  run_holds os hw h hno hlen

/-- `Get` promotes, `Peek`/`Contains` do not reorder, `Add` of a new key into a full cache evicts
exactly the oldest entry. -/
theorem lru_semantics {κ ν : Type} [DecidableEq κ] (c : Cache κ ν) (k : κ) (v : ν) :
    (∀ w, c.peek k = some w → (c.get k).1.items.head? = some (k, w)) ∧
    (Lru.step c (.peek k)).1 = c ∧ (Lru.step c (.contains k)).1 = c ∧
    (c.peek k = none → c.items.length + 1 > c.cap → (c.add k v).1.items = ((k, v) :: c.items).dropLast) := by
  refine ⟨?_, rfl, rfl, ?_⟩
  · intro w hw
    unfold Cache.peek at hw
    simp [Cache.get, hw]
  · intro hn hfull
    unfold Cache.peek at hn
    simp [Cache.add, hn, hfull]

/-! ## the validator: every listed reason is a rejection -/

/-- Undecodable, empty, malformed, past, too distant (when `ID+lookahead` does not wrap), outside the
timestamp window, or contradicting the current instance's base: never accepted. -/
theorem validator_rejects (o : Opts) (p : Progress) (now : Int) (m : Option Msg) (r : Reason)
    (h : mustNotAdmit o p now m = some r) : validate o p now m ≠ .accept := by
  cases m with
  | none => simp [validate]
  | some m =>
    unfold mustNotAdmit at h
    unfold validate
    by_cases h1 : m.chain = []
    · simp [h1]
    · by_cases h2 : chainValid m.chain = false
      · simp [h1, h2]
      · have h2' : chainValid m.chain = true := by simpa using h2
        by_cases h3 : m.inst < p.id
        · simp [h1, h2', h3]
        · by_cases h4 : p.id + o.lookahead < u64 ∧ m.inst > p.id + o.lookahead
          · have : m.inst > (p.id + o.lookahead) % u64 := by rw [Nat.mod_eq_of_lt h4.1]; exact h4.2
            simp [h1, h2', h3, this]
          · by_cases h5 : m.ts > now
            · simp only [h1, if_false, h2', Bool.not_true, Bool.false_eq_true, h3]
              split
              · simp
              · split
                · simp
                · split
                  · simp
                  · simp [h5]
            · by_cases h6 : m.ts < now - o.maxAgeMs
              · have h6' : now - o.maxAgeMs > m.ts := h6
                simp only [h1, if_false, h2', Bool.not_true, Bool.false_eq_true, h3]
                split
                · simp
                · split
                  · simp
                  · simp [h6']
              · simp only [h1, if_false, h2, h3, h4, h5, h6] at h
                cases hin : p.input with
                | none => simp [hin] at h
                | some inp =>
                  simp only [hin] at h
                  by_cases h7 : m.inst = p.id ∧ inp.head? ≠ (chainIds m.chain).head?
                  · simp only [h1, if_false, h2', Bool.not_true, Bool.false_eq_true, h3]
                    split
                    · simp
                    · have : p.input.isSome = true ∧ m.inst = p.id ∧
                          (p.input.getD []).head? ≠ (chainIds m.chain).head? := by
                        simp [hin, h7.1, h7.2]
                      rw [hin] at this
                      rw [if_pos this]; exact fun e => by cases e
                  · simp [h7] at h

/-- Nothing is cached unless the validator accepts. -/
theorem not_admitted_no_effect (s : State) (p : Progress) (now : Int) (m : Option Msg)
    (h : (feed s p now m).2 ≠ .accept) : (feed s p now m).1 = s := by
  rcases feed_cases s p now m with ⟨msg, _, _, e⟩ | ⟨e1, _⟩
  · rw [e] at h; exact absurd rfl h
  · exact e1

/-- Conversely (no `uint64` wrap of `ID + lookahead`): a message with none of the listed defects is
accepted — the validator rejects for the listed reasons only. -/
theorem validator_accepts (o : Opts) (p : Progress) (now : Int) (m : Msg)
    (hwrap : p.id + o.lookahead < u64) (h : mustNotAdmit o p now (some m) = none) :
    validate o p now (some m) = .accept := by
  unfold mustNotAdmit at h
  unfold validate
  by_cases h1 : m.chain = []
  · simp [h1] at h
  · by_cases h2 : chainValid m.chain = false
    · simp [h1, h2] at h
    · have h2' : chainValid m.chain = true := by simpa using h2
      by_cases h3 : m.inst < p.id
      · simp [h1, h2, h3] at h
      · by_cases h4 : m.inst > p.id + o.lookahead
        · simp [h1, h2, h3, hwrap, h4] at h
        · have h4' : ¬ m.inst > (p.id + o.lookahead) % u64 := by rw [Nat.mod_eq_of_lt hwrap]; exact h4
          by_cases h5 : m.ts > now
          · simp [h1, h2, h3, hwrap, h4, h5] at h
          · by_cases h6 : m.ts < now - o.maxAgeMs
            · simp [h1, h2, h3, hwrap, h4, h5, h6] at h
            · have h6' : ¬ now - o.maxAgeMs > m.ts := h6
              simp only [h1, if_false, h2, h3, hwrap, h4, h5, h6, true_and] at h
              have h7 : ¬ (p.input.isSome = true ∧ m.inst = p.id ∧
                  (p.input.getD []).head? ≠ (chainIds m.chain).head?) := by
                cases hin : p.input with
                | none => simp
                | some inp =>
                  simp only [hin] at h
                  by_cases h7 : m.inst = p.id ∧ inp.head? ≠ (chainIds m.chain).head?
                  · simp [h7] at h
                  · simpa using h7
              simp [h1, h2', h3, h4', h7, h6', h5]

/-! ## pruning removes exactly the instances below the bound -/

theorem prune_exact (s : State) (n i : Nat) :
    IMap.find? (prune s n).wanted i = (if i < n then none else IMap.find? s.wanted i) ∧
    IMap.find? (prune s n).discovered i = (if i < n then none else IMap.find? s.discovered i) ∧
    (prune s n).opts = s.opts :=
  ⟨IMap.find?_prune _ _ _, IMap.find?_prune _ _ _, rfl⟩

/-- …in terms of the instance lists the harness dumps. -/
theorem prune_instances (s : State) (n i : Nat) :
    (i ∈ IMap.instances (prune s n).wanted ↔ i ∈ IMap.instances s.wanted ∧ ¬ i < n) ∧
    (i ∈ IMap.instances (prune s n).discovered ↔ i ∈ IMap.instances s.discovered ∧ ¬ i < n) := by
  simp only [IMap.mem_instances_iff, (prune_exact s n i).1, (prune_exact s n i).2.1]
  by_cases h : i < n <;> simp [h]

/-! ## every history: the model satisfies the specification -/

/-- **Main theorem.** For all capacities ≥ 1 and ALL operation histories (lookups, admitted and
rejected broadcasts incl. floods, own broadcasts, prunes, any progress/clock values), whatever lookup
comes next, the specification has no complaint: the returned chain's key is the requested key; a
chain is found only if one with that key reached the node for that instance since the last prune
covering it; a key that was asked for and whose chain arrived is found while fewer than `maxWanted`
other keys were solicited since (unsolicited traffic never counts); an admitted, never-solicited key
is found while fewer than `maxDiscovered` other keys were admitted since. -/
theorem spec_sound (o : Opts) (hw : 0 < o.maxWanted) (hd : 0 < o.maxDiscovered) (ops : List Op) (i : Nat) (k : Key) :
    judgeLookup (history o ops).2 i k (getChain (history o ops).1 i k).2.1 = .ok :=
  judge_ok (history_tinv o hw hd ops) i k

/-- A lookup never returns a chain whose key differs from the requested key. -/
theorem lookup_key_correct (o : Opts) (hw : 0 < o.maxWanted) (hd : 0 < o.maxDiscovered) (ops : List Op)
    (i : Nat) (k : Key) (c : Chain) (h : (getChain (run (init o) ops) i k).2.1 = some c) : c = k ∧ k ≠ [] := by
  have hs := spec_sound o hw hd ops i k
  rw [history_state] at hs
  rw [h] at hs
  unfold judgeLookup at hs
  by_cases hck : c = k
  · by_cases hk : k = []
    · simp [hck, hk] at hs
    · exact ⟨hck, hk⟩
  · simp [hck] at hs

/-- Chains the node asked for are retained in preference to unsolicited ones up to the configured
capacity: if the history obliges the wanted guarantee, the lookup succeeds with that chain. -/
theorem wanted_retained (o : Opts) (hw : 0 < o.maxWanted) (hd : 0 < o.maxDiscovered) (ops : List Op)
    (i : Nat) (k : Key) (hk : k ≠ []) (h : mustFindW (history o ops).2 i k = true) :
    (getChain (history o ops).1 i k).2.1 = some k := by
  have hs := spec_sound o hw hd ops i k
  cases hr : (getChain (history o ops).1 i k).2.1 with
  | none => rw [hr] at hs; simp [judgeLookup, hk, h] at hs
  | some c =>
    rw [hr] at hs
    unfold judgeLookup at hs
    by_cases hck : c = k
    · rw [hck]
    · simp [hck] at hs

/-- After a node admits a chain broadcast, that chain and every prefix (each a separately tracked
key) stays retrievable for that instance until `maxDiscovered` distinct other keys have been admitted
there or the instance is pruned. -/
theorem admitted_retrievable (o : Opts) (hw : 0 < o.maxWanted) (hd : 0 < o.maxDiscovered) (ops : List Op)
    (i : Nat) (k : Key) (hk : k ≠ []) (h : mustFindD (history o ops).2 i k = true) :
    (getChain (history o ops).1 i k).2.1 = some k := by
  have hs := spec_sound o hw hd ops i k
  cases hr : (getChain (history o ops).1 i k).2.1 with
  | none =>
    rw [hr] at hs
    by_cases hW : mustFindW (history o ops).2 i k = true
    · simp [judgeLookup, hk, hW] at hs
    · simp [judgeLookup, hk, hW, h] at hs
  | some c =>
    rw [hr] at hs
    unfold judgeLookup at hs
    by_cases hck : c = k
    · rw [hck]
    · simp [hck] at hs

/-- Nothing is found for an instance unless a chain with that key reached the node for that instance
after the last prune covering it (so a pruned instance answers nothing until new chains arrive). -/
theorem no_phantom (o : Opts) (hw : 0 < o.maxWanted) (hd : 0 < o.maxDiscovered) (ops : List Op)
    (i : Nat) (k : Key) (c : Chain) (h : (getChain (history o ops).1 i k).2.1 = some c) :
    mayFind (history o ops).2 i k = true := by
  have hs := spec_sound o hw hd ops i k
  rw [h] at hs
  unfold judgeLookup at hs
  by_cases hck : c = k
  · by_cases hk : k = []
    · simp [hck, hk] at hs
    · by_cases hm : mayFind (history o ops).2 i k = true
      · exact hm
      · simp [hck, hk, hm] at hs
  · simp [hck] at hs

/-- Right after `prune n`, no lookup at an instance below `n` succeeds. -/
theorem pruned_instances_answer_nothing (o : Opts) (hw : 0 < o.maxWanted) (hd : 0 < o.maxDiscovered) (ops : List Op)
    (n i : Nat) (k : Key) (hi : i < n) : (getChain (history o (ops ++ [Op.prune n])).1 i k).2.1 = none := by
  have e : (history o (ops ++ [Op.prune n])).2 = onPrune (history o ops).2 n := by
    unfold history
    rw [runBoth_append, runBoth_prune_snd]
  have key : ∀ c, (getChain (history o (ops ++ [Op.prune n])).1 i k).2.1 ≠ some c := by
    intro c hr
    have hm := no_phantom o hw hd (ops ++ [Op.prune n]) i k c hr
    rw [e] at hm
    simp [mayFind, onPrune, hi] at hm
  cases hr : (getChain (history o (ops ++ [Op.prune n])).1 i k).2.1 with
  | none => rfl
  | some c => exact absurd hr (key c)

/-! ## unsolicited traffic vs. the wanted cache (any state, reachable or not) -/

/-- A delivered broadcast never removes a key from a wanted cache and never changes a stored chain;
the only change it can make is replacing a placeholder by the chain it stands for. -/
theorem unsolicited_keeps_wanted (s : State) (p : Progress) (now : Int) (m : Option Msg) (i : Nat) (K : Key) :
    (W (feed s p now m).1 i).peek K = (W s i).peek K ∨
    ((W s i).peek K = some .placeholder ∧ (W (feed s p now m).1 i).peek K = some (.chain K)) :=
  feed_keeps s p now m i K

/-- A discovery matching a placeholder lands in the wanted cache. -/
theorem discovery_fills_placeholder (s : State) (p : Progress) (now : Int) (msg : Msg)
    (hacc : (feed s p now (some msg)).2 = .accept) (q : Key) (hq : q ∈ prefixes (chainIds msg.chain))
    (hp : (W s msg.inst).peek q = some .placeholder) :
    (W (feed s p now (some msg)).1 msg.inst).peek q = some (.chain q) :=
  feed_fills s p now msg hacc q hq hp

/-- **Ask, receive, flood, ask again.** From any reachable state: look a key up (miss or hit), let
ANY burst of deliveries pass, let a broadcast containing that key as a prefix be admitted for that
instance, let ANY further burst of deliveries pass (floods of any size, any content, accepted or
not): the lookup then returns the chain. Unsolicited traffic alone can never evict a key that was
asked for. -/
theorem wanted_survives_any_flood (o : Opts) (hw : 0 < o.maxWanted) (hd : 0 < o.maxDiscovered) (ops : List Op)
    (i : Nat) (K : Key) (hK : K ≠ []) (fs₁ fs₂ : List (Progress × Int × Option Msg))
    (p : Progress) (now : Int) (msg : Msg) (hinst : msg.inst = i) (hpre : K ∈ prefixes (chainIds msg.chain))
    (hacc : (feed (feeds (getChain (run (init o) ops) i K).1 fs₁) p now (some msg)).2 = .accept) :
    (getChain (feeds (feed (feeds (getChain (run (init o) ops) i K).1 fs₁) p now (some msg)).1 fs₂) i K).2.1
      = some K :=
  asked_delivered_flooded o hw hd ops i K hK fs₁ fs₂ p now msg hinst hpre hacc

/-- **After a node admits a chain broadcast, that chain and every prefix can be retrieved by key.**
For a chain no longer than the discovered capacity none of whose prefixes has been seen or asked for
at that instance since the last prune, in any reachable state: right after admission every prefix
lookup returns that prefix. (`admitted_retrievable` covers re-announced and older keys, `wanted_…`
the solicited ones.) -/
theorem fresh_admission_retrievable (o : Opts) (hw : 0 < o.maxWanted) (hd : 0 < o.maxDiscovered) (ops : List Op)
    (p : Progress) (now : Int) (msg : Msg)
    (hacc : (feed (history o ops).1 p now (some msg)).2 = .accept)
    (hfresh : ∀ q ∈ prefixes (chainIds msg.chain),
      (history o ops).2.w msg.inst q = none ∧ (history o ops).2.d msg.inst q = none)
    (hlen : (chainIds msg.chain).length ≤ o.maxDiscovered) :
    ∀ q ∈ prefixes (chainIds msg.chain),
      (getChain (feed (history o ops).1 p now (some msg)).1 msg.inst q).2.1 = some q :=
  fresh_admission o hw hd ops p now msg hacc hfresh hlen

/-- the prefixes of a chain are exactly its non-empty initial segments -/
theorem prefixes_exact (c p : Chain) : p ∈ prefixes c ↔ (p <+: c ∧ p ≠ []) :=
  ⟨fun h => ⟨prefix_of_mem_prefixes h, prefixes_ne_nil h⟩, fun h => mem_prefixes_of_prefix h.1 h.2⟩

/-! ## the defect of the pinned tree (S6), as a witness -/

/-- With `wanted` fetched from the discovered map (as the pinned tree did), the history
*ask K, receive K, receive one unsolicited chain* (discovered capacity 1) loses K although it was asked
for and delivered with no other key solicited: the wanted guarantee fails. -/
theorem s6_variant_violates :
    mustFindW (historyS6 ⟨4, 1, 3, 10000⟩ s6ops).2 6 k12 = true ∧
    (getChain (historyS6 ⟨4, 1, 3, 10000⟩ s6ops).1 6 k12).2.1 = none := by
  decide

/-! ## non-vacuity -/

/-- the same history on the model of the repaired code: the guarantee applies and is met -/
example : mustFindW (history ⟨4, 1, 3, 10000⟩ s6ops).2 6 k12 = true ∧
    (getChain (history ⟨4, 1, 3, 10000⟩ s6ops).1 6 k12).2.1 = some k12 := by decide

/-- admission guarantee with hypotheses met: a 3-tipset chain admitted into a discovered cache of
capacity 3 — every prefix is retrievable -/
example : let h := history ⟨2, 3, 3, 10000⟩ [.feed ⟨6, some [1]⟩ 1000 (some ⟨6, [okTip 1 1, okTip 2 2, okTip 3 3], 995⟩)]
    mustFindD h.2 6 [1, 2, 3] = true ∧ mustFindD h.2 6 [1, 2] = true ∧ mustFindD h.2 6 [1] = true ∧
    (getChain h.1 6 [1, 2, 3]).2.1 = some [1, 2, 3] := by decide

/-- …and with capacity 2 the longest prefix is the one that is given up (no claim, not found) -/
example : let h := history ⟨2, 2, 3, 10000⟩ [.feed ⟨6, some [1]⟩ 1000 (some ⟨6, [okTip 1 1, okTip 2 2, okTip 3 3], 995⟩)]
    mustFindD h.2 6 [1, 2, 3] = false ∧ (getChain h.1 6 [1, 2, 3]).2.1 = none ∧
    (getChain h.1 6 [1, 2]).2.1 = some [1, 2] := by decide

/-- `wanted_survives_any_flood` with hypotheses met (capacities 1/1, two unsolicited chains after) -/
example : let s1 := (getChain (run (init ⟨1, 1, 3, 10000⟩) []) 6 [1, 2]).1
    let m : Msg := ⟨6, [okTip 1 1, okTip 2 2], 1000⟩
    (feed (feeds s1 []) ⟨6, none⟩ 1000 (some m)).2 = .accept ∧ [1, 2] ∈ prefixes (chainIds m.chain) ∧
    (getChain (feeds (feed (feeds s1 []) ⟨6, none⟩ 1000 (some m)).1
      [(⟨6, none⟩, 1000, some ⟨6, [okTip 1 1, okTip 3 3], 1000⟩), (⟨6, none⟩, 1000, some ⟨6, [okTip 4 1], 1000⟩)]) 6 [1, 2]).2.1
      = some [1, 2] := by decide

/-- `fresh_admission_retrievable` with hypotheses met after a non-trivial history -/
example : let ops : List Op := [.get 6 [9], .bcast 6 [7, 8], .prune 3]
    let m : Msg := ⟨6, [okTip 1 1, okTip 2 2], 1000⟩
    (feed (history ⟨2, 2, 3, 10000⟩ ops).1 ⟨6, none⟩ 1000 (some m)).2 = .accept ∧
    (∀ q ∈ prefixes (chainIds m.chain), (history ⟨2, 2, 3, 10000⟩ ops).2.w 6 q = none ∧
      (history ⟨2, 2, 3, 10000⟩ ops).2.d 6 q = none) := by decide

/-- validator: each reason occurs -/
example : validate ⟨2, 2, 3, 10⟩ ⟨6, some [1]⟩ 1000 none = .reject .undecodable ∧
    validate ⟨2, 2, 3, 10⟩ ⟨6, some [1]⟩ 1000 (some ⟨6, [], 1000⟩) = .reject .empty ∧
    validate ⟨2, 2, 3, 10⟩ ⟨6, some [1]⟩ 1000 (some ⟨6, [okTip 1 2, okTip 2 2], 1000⟩) = .reject .malformed ∧
    validate ⟨2, 2, 3, 10⟩ ⟨6, some [1]⟩ 1000 (some ⟨5, [okTip 1 1], 1000⟩) = .ignore .past ∧
    validate ⟨2, 2, 3, 10⟩ ⟨6, some [1]⟩ 1000 (some ⟨10, [okTip 1 1], 1000⟩) = .ignore .tooDistant ∧
    validate ⟨2, 2, 3, 10⟩ ⟨6, some [1]⟩ 1000 (some ⟨9, [okTip 1 1], 1000⟩) = .accept ∧
    validate ⟨2, 2, 3, 10⟩ ⟨6, some [1]⟩ 1000 (some ⟨6, [okTip 2 1], 1000⟩) = .reject .wrongBase ∧
    validate ⟨2, 2, 3, 10⟩ ⟨6, some [1]⟩ 1000 (some ⟨6, [okTip 1 1], 989⟩) = .ignore .tsOld ∧
    validate ⟨2, 2, 3, 10⟩ ⟨6, some [1]⟩ 1000 (some ⟨6, [okTip 1 1], 990⟩) = .accept ∧
    validate ⟨2, 2, 3, 10⟩ ⟨6, some [1]⟩ 1000 (some ⟨6, [okTip 1 1], 1001⟩) = .ignore .tsFuture := by decide

/-- prune: instance 5 goes, 6 and 7 stay -/
example : let s := run (init ⟨2, 2, 3, 10⟩) [.get 5 [1], .get 6 [1], .get 7 [1], .prune 6]
    IMap.instances s.wanted = [6, 7] := by decide

/-! ## Regenerated: the pubsub validator as it stands in `chainexchange/pubsub.go`

`F3.Gen.ChainX.validatePubSubMessage` is translated on every run (`tools/go2lean/targets.d/ChainX.json`)
from the statements of `validatePubSubMessage` after decoding: the zero-chain test, `Chain.Validate()`,
the tagless `switch` on the instance window (`uint64` addition wrapped) and on the base of the current
instance, the timestamp window, with the codes 0 = `ValidationAccept`, 1 = `ValidationReject`,
2 = `ValidationIgnore`. `IsZero()`, the error of `Validate()`, `msgBase.Equal(currentBase)`, the clock
reading and `maxTimestampAge.Milliseconds()` are parameters. -/

/-- what pubsub sees of a verdict (the model additionally records the reason) -/
def verdictCode : Verdict → Int
  | .accept => 0
  | .reject _ => 1
  | .ignore _ => 2

/-- **The model's validator is the source's.** For every option set, progress, clock reading and decoded
message — all `uint64` values and beyond, wrap-around of `current.ID + maxInstanceLookahead` included —
the verdict class (accept / reject / ignore) of `F3.ChainX.validate` is what the regenerated body of
`validatePubSubMessage` returns: same order of checks, same window bounds, same comparisons. -/
theorem validator_is_regenerated (o : Opts) (p : Progress) (now : Int) (m : Msg) :
    verdictCode (validate o p now (some m)) =
      F3.Gen.ChainX.validatePubSubMessage
        (decide ((p.input.getD []).head? = (chainIds m.chain).head?)) (decide (m.chain = [])) now m.inst m.ts p.id
        p.input.isSome (!chainValid m.chain) o.maxAgeMs o.lookahead := by
  unfold validate F3.Gen.ChainX.validatePubSubMessage
  have e1 : F3.GoInt.u64 ((p.id : Int) + (o.lookahead : Int)) =
      (((p.id + o.lookahead) % F3.ChainX.u64 : Nat) : Int) := by
    unfold F3.GoInt.u64 F3.ChainX.u64; omega
  rw [e1]
  generalize (p.id + o.lookahead) % F3.ChainX.u64 = a
  simp only [Bool.or_eq_true, Bool.and_eq_true, decide_eq_true_eq, decide_eq_false_iff_not,
    Bool.not_eq_eq_eq_not, Bool.not_true, gt_iff_lt, Int.ofNat_lt, Int.natCast_inj]
  repeat' split
  all_goals (first | rfl | (exfalso; omega) | (exfalso; simp_all; done))

-- non-vacuity: the three codes from the generated code, incl. the wrapped look-ahead bound
example : F3.Gen.ChainX.validatePubSubMessage true false 1000 9 1000 6 true false 10 3 = 0 ∧
    F3.Gen.ChainX.validatePubSubMessage true false 1000 10 1000 6 true false 10 3 = 2 ∧
    F3.Gen.ChainX.validatePubSubMessage false false 1000 6 1000 6 true false 10 3 = 1 ∧
    F3.Gen.ChainX.validatePubSubMessage false false 1000 6 1000 6 false false 10 3 = 0 ∧
    F3.Gen.ChainX.validatePubSubMessage true false 1000 6 989 6 true false 10 3 = 2 ∧
    F3.Gen.ChainX.validatePubSubMessage true false 1000 (2 ^ 64 - 1) 1000 (2 ^ 64 - 2) true false 10 3 = 2 := by decide

end F3.Props.C18

namespace F3.Props.C18
section Skeletons

/-- **The Go functions this property's models mirror still have the statement structure the models were written
against**: each regenerated skeleton (pre-order list of statement kinds, `tools/go2lean/skel.go`) equals the pinned
expectation of `F3/Proofs/SkelTie*.lean`. An added early return, cap, loop or dropped branch in one of these functions
breaks this obligation even when no regenerated *expression* changes. -/
theorem code_structure_as_modelled :
    F3.Gen.SkelChainX.skelGetChainByInstance = F3.SkelTie.SkelChainX.skelGetChainByInstanceExpected ∧
    F3.Gen.SkelChainX.skelGetChainsWantedAt = F3.SkelTie.SkelChainX.skelGetChainsWantedAtExpected ∧
    F3.Gen.SkelChainX.skelCacheAsDiscovered = F3.SkelTie.SkelChainX.skelCacheAsDiscoveredExpected :=
  ⟨F3.SkelTie.SkelChainX.skelGetChainByInstance_expected, F3.SkelTie.SkelChainX.skelGetChainsWantedAt_expected, F3.SkelTie.SkelChainX.skelCacheAsDiscovered_expected⟩

end Skeletons
end F3.Props.C18
