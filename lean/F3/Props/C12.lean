import F3.Proofs.SkelTieNode
import F3.Proofs.SkelTieWal
import F3.Proofs.NodeGen2
import F3.Proofs.EquivSys
import F3.Proofs.EquivHost
/-!
# C12 — a node never self-equivocates on the wire, across requests, rebroadcasts and restarts

All theorems are about `F3.Equiv.step` / `F3.Equiv.run` (`F3/Model/Equiv.lean`, the definitions the driver
`f3d_equiv` executes against the real `equivocationFilter` and the real node), for **every** operation
history: broadcast requests (conflicting or not, any instance/round/phase/signature) with a crash point
after each of the three effects *filter → WAL append → publish*, rebroadcast requests, messages received
from peers, graceful stops, restarts (filter and `selfMessages` re-armed from the WAL), WAL purges at any
epoch with any file-granularity outcome, `selfMessages` trims.

Environment hypotheses (`RunOk`): requests are for instances at or above the purge epoch as of the last
restart; only the node signs with its own identities (`own`); the WAL append succeeds (built into
`step`: there is no failing-append branch — `BroadcastMessage` publishes even when the append fails,
which is why the property assumes no storage errors).
-/
namespace F3.Props.C12
open F3.Equiv

/-- **No self-equivocation on the wire.** After any admissible history, the sequence of messages handed
to the network never contains two messages for the same (instance, sender, round, phase) with different
signatures, and never a message for an instance older than one published before it. -/
theorem wire_no_equivocation (own : Nat → Bool) (l : Peer) (ops : List Op) (hok : RunOk own (Sys.init l) ops) :
    NoEquiv (run (Sys.init l) ops).wire ∧ InstMonotone (run (Sys.init l) ops).wire := by
  have h := inv_run (sysInv_init own l) ops hok
  exact ⟨h.cons.sub h.wire_sub, h.mono⟩

/-- **Record before publish.** Everything on the wire was appended to the WAL first (`ever` is the ghost
list of all appends), and is still in the WAL unless its instance is below a purge epoch. -/
theorem record_before_publish (own : Nat → Bool) (l : Peer) (ops : List Op) (hok : RunOk own (Sys.init l) ops) :
    (∀ w ∈ (run (Sys.init l) ops).wire, w ∈ (run (Sys.init l) ops).ever) ∧
    (∀ w ∈ (run (Sys.init l) ops).wire, (run (Sys.init l) ops).purged ≤ w.inst → w ∈ (run (Sys.init l) ops).wal) := by
  have h := inv_run (sysInv_init own l) ops hok
  exact ⟨h.wire_sub, fun w hw hp => h.wal_ge w (h.wire_sub w hw) hp⟩

/-- **The WAL re-arms the filter.** Restarting in any reachable state (at any crash point), every
message on the wire that has not been purged is at or below the new filter's instance, and if it is at
that instance the filter holds its signature as the node's own. -/
theorem rearm_guards_wire (own : Nat → Bool) (l : Peer) (ops : List Op) (hok : RunOk own (Sys.init l) ops) :
    let s := run (Sys.init l) ops
    let f := (step s .restart).filter
    ∀ w ∈ s.wire, s.purged ≤ w.inst →
      w.inst ≤ f.cur ∧ (w.inst = f.cur → alookup w.key f.seen = some ⟨w.sig, f.localPID⟩) := by
  intro s f w hw hp
  have h := inv_run (sysInv_init own l) ops hok
  have hf := (inv_restart h).finv rfl
  have hwe := h.wire_sub w hw
  refine ⟨?_, fun hc => hf.seen_of w hwe hc hp⟩
  rcases hf.le w hwe with h1 | h1
  · exact h1
  · exact absurd hp (Nat.not_le.mpr h1)

/-- **Conflicting and stale requests are refused.** In any reachable running state, an admissible request
is allowed by the filter exactly when it is not for an instance older than the filter's and no message
ever recorded occupies its slot with a different signature. -/
theorem request_allowed_iff (own : Nat → Bool) (l : Peer) (ops : List Op) (hok : RunOk own (Sys.init l) ops)
    (hup : (run (Sys.init l) ops).up = true) (m : Msg)
    (hF : (run (Sys.init l) ops).floor ≤ m.inst) (hown : own m.sender = true) :
    ((run (Sys.init l) ops).filter.processBroadcast m).2 = true ↔
      (run (Sys.init l) ops).filter.cur ≤ m.inst ∧
      ∀ e ∈ (run (Sys.init l) ops).ever, e.slot = m.slot → e.sig = m.sig :=
  ((inv_run (sysInv_init own l) ops hok).finv hup).allow_iff m hF hown

/-- **The re-armed filter decides like the filter it replaces.** In a reachable running state whose
filter instance has not been purged, the filter rebuilt from the WAL allows exactly the same requests
(at or above the purge epoch) as the live filter. -/
theorem filter_rearm_equiv (own : Nat → Bool) (l : Peer) (ops : List Op) (hok : RunOk own (Sys.init l) ops)
    (hup : (run (Sys.init l) ops).up = true)
    (hcur : (run (Sys.init l) ops).purged ≤ (run (Sys.init l) ops).filter.cur)
    (m : Msg) (hown : own m.sender = true) (hm : (run (Sys.init l) ops).purged ≤ m.inst) :
    ((rearm (run (Sys.init l) ops).filter.localPID (run (Sys.init l) ops).wal).processBroadcast m).2 =
      ((run (Sys.init l) ops).filter.processBroadcast m).2 := by
  have h := inv_run (sysInv_init own l) ops hok
  have h1 := h.finv hup
  have h2 : FilterInv own (run (Sys.init l) ops).purged
      (rearm (run (Sys.init l) ops).filter.localPID (run (Sys.init l) ops).wal) (run (Sys.init l) ops).ever :=
    (inv_restart h).finv rfl
  have hfl := h.floor_le
  have hcureq : (rearm (run (Sys.init l) ops).filter.localPID (run (Sys.init l) ops).wal).cur =
      (run (Sys.init l) ops).filter.cur := by
    apply Nat.le_antisymm
    · rcases h2.cur_wit with h0 | ⟨e, he, hce⟩
      · omega
      · rcases h1.le e he with h3 | h3 <;> omega
    · rcases h1.cur_wit with h0 | ⟨e, he, hce⟩
      · omega
      · rcases h2.le e he with h3 | h3 <;> omega
  have a1 := h1.allow_iff m (Nat.le_trans hfl hm) hown
  have a2 := h2.allow_iff m hm hown
  rw [hcureq] at a2
  cases hb1 : ((run (Sys.init l) ops).filter.processBroadcast m).2 <;>
    cases hb2 : ((rearm (run (Sys.init l) ops).filter.localPID (run (Sys.init l) ops).wal).processBroadcast m).2
  · rfl
  · exact absurd (a1.mpr (a2.mp hb2)) (by simp [hb1])
  · exact absurd (a2.mpr (a1.mp hb1)) (by simp [hb2])
  · rfl

/-- The filter alone: a fresh filter fed any consistent list of own messages holds each newest-instance
message, whatever the order of the list (`newRunner` does not rely on the WAL's order). -/
theorem rearm_holds_newest (own : Nat → Bool) (l : Peer) (wal : List Msg) (hc : NoEquiv wal)
    (hown : ∀ e ∈ wal, own e.sender = true) :
    ∀ e ∈ wal, e.inst ≤ (rearm l wal).cur ∧
      (e.inst = (rearm l wal).cur → alookup e.key (rearm l wal).seen = some ⟨e.sig, l⟩) := by
  intro e he
  obtain ⟨h, hl⟩ := rearm_inv (own := own) l wal hc hown
  refine ⟨?_, fun hcur => by have := h.seen_of e he hcur (Nat.zero_le _); rw [hl] at this; exact this⟩
  rcases h.le e he with h1 | h1
  · exact h1
  · exact absurd h1 (Nat.not_lt_zero _)

/-- **The replay order does not matter.** Two WAL listings with the same entries (e.g. the files read in
another order, or an entry duplicated) re-arm filters that allow exactly the same requests. -/
theorem rearm_order_irrelevant (own : Nat → Bool) (l : Peer) (w₁ w₂ : List Msg) (hc : NoEquiv w₁)
    (hown : ∀ e ∈ w₁, own e.sender = true) (hsame : ∀ e, e ∈ w₁ ↔ e ∈ w₂)
    (m : Msg) (hm : own m.sender = true) :
    ((rearm l w₁).processBroadcast m).2 = ((rearm l w₂).processBroadcast m).2 := by
  have hc2 : NoEquiv w₂ := fun a ha b hb => hc a ((hsame a).mpr ha) b ((hsame b).mpr hb)
  have hown2 : ∀ e ∈ w₂, own e.sender = true := fun e he => hown e ((hsame e).mpr he)
  obtain ⟨h1, _⟩ := rearm_inv (own := own) l w₁ hc hown
  obtain ⟨h2', _⟩ := rearm_inv (own := own) l w₂ hc2 hown2
  have h2 : FilterInv own 0 (rearm l w₂) w₁ := h2'.congr (fun e => (hsame e).symm)
  have hcur : (rearm l w₁).cur = (rearm l w₂).cur := by
    apply Nat.le_antisymm
    · rcases h1.cur_wit with h0 | ⟨e, he, hce⟩
      · omega
      · rcases h2.le e he with h3 | h3 <;> omega
    · rcases h2.cur_wit with h0 | ⟨e, he, hce⟩
      · omega
      · rcases h1.le e he with h3 | h3 <;> omega
  have a1 := h1.allow_iff m (Nat.zero_le _) hm
  have a2 := h2.allow_iff m (Nat.zero_le _) hm
  rw [← hcur] at a2
  cases hb1 : ((rearm l w₁).processBroadcast m).2 <;> cases hb2 : ((rearm l w₂).processBroadcast m).2
  · rfl
  · exact absurd (a1.mpr (a2.mp hb2)) (by simp [hb1])
  · exact absurd (a2.mpr (a1.mp hb1)) (by simp [hb2])
  · rfl

/-! ## Non-vacuity and sharpness -/

instance (own : Nat → Bool) (s : Sys) (op : Op) : Decidable (OpOk own s op) := by
  cases op <;> simp only [OpOk] <;> exact inferInstance

instance decRunOk (own : Nat → Bool) : (s : Sys) → (ops : List Op) → Decidable (RunOk own s ops)
  | _, [] => isTrue trivial
  | s, op :: ops =>
    match (inferInstance : Decidable (OpOk own s op)), decRunOk own (step s op) ops with
    | isTrue h1, isTrue h2 => isTrue ⟨h1, h2⟩
    | isFalse h1, _ => isFalse (fun h => h1 h.1)
    | _, isFalse h2 => isFalse (fun h => h2 h.2)

private def ownAll : Nat → Bool := fun s => s == 1 || s == 2
private def m1 : Msg := ⟨3, 1, 0, 1, 10⟩   -- instance 3, sender 1, round 0, QUALITY, signature 10
private def m1' : Msg := ⟨3, 1, 0, 1, 11⟩  -- same slot, other signature (other EC head after restart)
private def m2 : Msg := ⟨3, 1, 0, 3, 10⟩
private def m0 : Msg := ⟨2, 1, 0, 1, 10⟩   -- older instance

/-- a history with a crash after the WAL append, a restart, the conflicting re-request, a stale request,
a rebroadcast, a crash after the filter, a purge and another restart satisfies the hypotheses … -/
private def hist : List Op :=
  [.broadcast m1 0, .broadcast m2 2, .restart, .broadcast m1' 0, .broadcast m0 0, .rebroadcast 3 0 1,
   .broadcast m1' 1, .restart, .purge 2 [], .trim 3, .stop, .restart, .broadcast m1' 3, .restart, .broadcast m1 0]

example : RunOk ownAll (Sys.init 0) hist := by decide

/-- … and its wire is what the theorem says: the first signature only, published again on request. -/
example : (run (Sys.init 0) hist).wire = [m1, m1, m1] := by decide

/-- the re-armed filter refuses the conflicting re-request and holds the crashed-but-recorded message -/
example : (((run (Sys.init 0) [.broadcast m1 0, .broadcast m2 2, .restart]).filter.processBroadcast m1').2 = false) ∧
    (run (Sys.init 0) [.broadcast m1 0, .broadcast m2 2, .restart]).wal = [m1, m2] := by decide

/-- Sharpness of the identity hypothesis: if another node publishes under this node's identity (a
`receive` for an own sender), the filter lets two signatures for one slot through. -/
example :
    let ops : List Op := [.broadcast ⟨1, 1, 0, 1, 1⟩ 0, .receive 5 ⟨1, 1, 0, 3, 2⟩,
                          .broadcast ⟨1, 1, 0, 3, 3⟩ 0, .broadcast ⟨1, 1, 0, 3, 4⟩ 0]
    ¬ RunOk ownAll (Sys.init 0) ops ∧ noEquivB (run (Sys.init 0) ops).wire = false := by decide

/-- Sharpness of the floor hypothesis: a request below the purge epoch after a restart can equivocate
(the real node is protected by the certificate store, not by the WAL). -/
example :
    let ops : List Op := [.broadcast ⟨1, 1, 0, 1, 1⟩ 0, .stop, .restart, .broadcast ⟨9, 1, 0, 1, 1⟩ 0,
                          .purge 5 [], .stop, .restart, .broadcast ⟨1, 1, 0, 1, 2⟩ 0]
    ¬ RunOk ownAll (Sys.init 0) ops := by decide

/-! ## Host level: the floor hypothesis discharged

`RunOk` above contains `s.floor ≤ m.inst` for every request.  The theorems of this section are about
`F3.EquivHost.hrun` (`F3/Model/EquivHost.lean`): the certificate store, the participant's current
instance, the builders handed to the embedder, the purge goroutine and the runner's start, with the
`Sys` of `Model/Equiv.lean` as a component.  A host history induces a `Model/Equiv.lean` history
(`EquivHost.trace`), and that history satisfies `RunOk` — proved, not assumed (`host_run_admissible`).

Hypotheses left (`HostOk`, independent of the state): only the node signs with its own identities
(`sign … sender …` has `own sender`, a peer message has not), and no builder requested before a restart
is signed after it (`restart false`).  Built into the model (see the header of `Model/EquivHost.lean` for
the Go lines): the certificate store is durable and its latest instance never decreases; `wal.Purge` is
only ever called with `k - 5` for a stored certificate `k > 5`; the runner starts the participant at
`latest + 1` (`InitialInstance` for an empty store); during a run the participant's instance moves only to
`k + 1 >` current for a stored certificate `k`, or by one after its decision was offered to the store. -/
section HostLevel
open F3.EquivHost

/-- **The caller keeps every request at or above the floor.**  After any host history: the participant's
instance and every outstanding builder are at or above the purge epoch as of the last restart; no builder
is ahead of the participant; the purge epoch is 0 or at least 6 below the instance the store expects
next, which is where the next restart puts the participant. -/
theorem host_floor_invariant (own : Nat → Bool) (l : Peer) (first : Nat) (hops : List HostOp)
    (hok : HostOk own hops) :
    let s := hrun (HState.init l first) hops
    s.sys.floor ≤ s.cur ∧ (∀ b ∈ s.out, s.sys.floor ≤ b.inst ∧ b.inst ≤ s.cur) ∧
    s.sys.floor ≤ s.sys.purged ∧ (s.sys.purged = 0 ∨ s.sys.purged + 6 ≤ s.next) ∧ s.cur ≤ s.next := by
  intro s
  have h : HInv s := hrun_inv (hinv_init l first) hops hok
  exact ⟨h.floor_cur, fun b hb => ⟨h.out_ge b hb, h.out_le b hb⟩,
    (sysInv_hrun own l first hops hok).floor_le, h.purged_next, h.cur_next⟩

/-- **Every host history is an admissible history of the broadcast-path model**: the environment
hypothesis `RunOk` of the theorems above holds for the induced history, and the host's `Sys` is the
result of running it. -/
theorem host_run_admissible (own : Nat → Bool) (l : Peer) (first : Nat) (hops : List HostOp)
    (hok : HostOk own hops) :
    RunOk own (Sys.init l) (trace (HState.init l first) hops) ∧
    (hrun (HState.init l first) hops).sys = run (Sys.init l) (trace (HState.init l first) hops) :=
  ⟨runOk_trace_init own l first hops hok, hrun_sys_init l first hops⟩

/-- **No self-equivocation on the wire, host level.**  No floor hypothesis. -/
theorem wire_no_equivocation_host (own : Nat → Bool) (l : Peer) (first : Nat) (hops : List HostOp)
    (hok : HostOk own hops) :
    NoEquiv (hrun (HState.init l first) hops).sys.wire ∧
    InstMonotone (hrun (HState.init l first) hops).sys.wire := by
  rw [hrun_sys_init]
  exact wire_no_equivocation own l _ (runOk_trace_init own l first hops hok)

/-- **Record before publish, host level.** -/
theorem record_before_publish_host (own : Nat → Bool) (l : Peer) (first : Nat) (hops : List HostOp)
    (hok : HostOk own hops) :
    let s := (hrun (HState.init l first) hops).sys
    (∀ w ∈ s.wire, w ∈ s.ever) ∧ (∀ w ∈ s.wire, s.purged ≤ w.inst → w ∈ s.wal) := by
  intro s
  have hs : s = run (Sys.init l) (trace (HState.init l first) hops) := hrun_sys_init l first hops
  rw [hs]
  exact record_before_publish own l _ (runOk_trace_init own l first hops hok)

/-- **The WAL re-arms the filter, host level.** -/
theorem rearm_guards_wire_host (own : Nat → Bool) (l : Peer) (first : Nat) (hops : List HostOp)
    (hok : HostOk own hops) :
    let s := (hrun (HState.init l first) hops).sys
    let f := (step s .restart).filter
    ∀ w ∈ s.wire, s.purged ≤ w.inst →
      w.inst ≤ f.cur ∧ (w.inst = f.cur → alookup w.key f.seen = some ⟨w.sig, f.localPID⟩) := by
  intro s
  have hs : s = run (Sys.init l) (trace (HState.init l first) hops) := hrun_sys_init l first hops
  rw [hs]
  exact rearm_guards_wire own l _ (runOk_trace_init own l first hops hok)

/-- **Conflicting and stale requests are refused, host level.**  For every outstanding builder and every
own identity, whatever the signature: the filter allows the signed message exactly when the builder is
not for an instance older than the filter's and nothing ever recorded occupies the slot with another
signature.  (`floor ≤ b.inst` is no longer a hypothesis: `host_floor_invariant`.) -/
theorem request_allowed_iff_host (own : Nat → Bool) (l : Peer) (first : Nat) (hops : List HostOp)
    (hok : HostOk own hops) (hup : (hrun (HState.init l first) hops).sys.up = true)
    (b : Builder) (hb : b ∈ (hrun (HState.init l first) hops).out) (sender sig : Nat)
    (hown : own sender = true) :
    let s := (hrun (HState.init l first) hops).sys
    let m : Msg := ⟨b.inst, sender, b.round, b.phase, sig⟩
    (s.filter.processBroadcast m).2 = true ↔
      s.filter.cur ≤ b.inst ∧ ∀ e ∈ s.ever, e.slot = m.slot → e.sig = sig := by
  intro s m
  have hF : s.floor ≤ m.inst := (hrun_inv (hinv_init l first) hops hok).out_ge b hb
  exact ((sysInv_hrun own l first hops hok).finv hup).allow_iff m hF hown

/-- **The re-armed filter decides like the filter it replaces, host level.** -/
theorem filter_rearm_equiv_host (own : Nat → Bool) (l : Peer) (first : Nat) (hops : List HostOp)
    (hok : HostOk own hops)
    (hup : (hrun (HState.init l first) hops).sys.up = true)
    (hcur : (hrun (HState.init l first) hops).sys.purged ≤ (hrun (HState.init l first) hops).sys.filter.cur)
    (m : Msg) (hown : own m.sender = true) (hm : (hrun (HState.init l first) hops).sys.purged ≤ m.inst) :
    ((rearm (hrun (HState.init l first) hops).sys.filter.localPID
        (hrun (HState.init l first) hops).sys.wal).processBroadcast m).2 =
      ((hrun (HState.init l first) hops).sys.filter.processBroadcast m).2 := by
  have hs := hrun_sys_init l first hops
  rw [hs] at hup hcur hm ⊢
  exact filter_rearm_equiv own l _ (runOk_trace_init own l first hops hok) hup hcur m hown hm

/-! ### Non-vacuity and sharpness, host level -/

/-- A host history from the first start (empty store, instance 0): a message for instance 0; the store
catches up to certificate 7 and the participant skips to 8; a crash after the WAL append of a message for
instance 8; restart (at 8); the conflicting re-request (refused) and the recorded one (published); the
purge for certificate 7 (epoch 2: the instance-0 record goes) and the trim; stop and restart (floor 2);
a conflicting re-request (refused), a rebroadcast, a decision.  (The message for instance 8 is in the WAL
and in `selfMessages` twice — `BroadcastMessage` appends whenever the filter allows — so the rebroadcast
publishes it twice: same signature.) -/
private def hhist : List HostOp :=
  [.request 0 1, .sign 0 1 10 0, .storePut 7, .certToRunner 7, .request 0 1, .sign 1 1 20 2,
   .restart false, .request 0 1, .sign 0 1 21 0, .sign 0 1 20 0, .finalizePurge 7 [], .finalizeTrim 7,
   .stop, .restart false, .request 0 1, .sign 0 1 22 0, .rebroadcast 0 1, .decide]

example : HostOk ownAll hhist := by decide

example :
    let s := hrun (HState.init 0 0) hhist
    s.sys.wire = [⟨0, 1, 0, 1, 10⟩, ⟨8, 1, 0, 1, 20⟩, ⟨8, 1, 0, 1, 20⟩, ⟨8, 1, 0, 1, 20⟩] ∧
    s.sys.wal = [⟨8, 1, 0, 1, 20⟩, ⟨8, 1, 0, 1, 20⟩] ∧ s.sys.purged = 2 ∧ s.sys.floor = 2 ∧
    s.latest = some 8 ∧ s.cur = 9 ∧ s.out = [⟨8, 0, 1⟩] := by decide

private def opEqB : Op → Op → Bool
  | .broadcast m c, .broadcast m' c' => m == m' && c == c'
  | .rebroadcast i r p, .rebroadcast i' r' p' => i == i' && r == r' && p == p'
  | .receive p m, .receive p' m' => p == p' && m == m'
  | .restart, .restart => true
  | .stop, .stop => true
  | .purge k keep, .purge k' keep' => k == k' && keep == keep'
  | .trim c, .trim c' => c == c'
  | _, _ => false

private def opsEqB : List Op → List Op → Bool
  | [], [] => true
  | a :: as, b :: bs => opEqB a b && opsEqB as bs
  | _, _ => false

/-- the induced history of the broadcast-path model, which is admissible (as `host_run_admissible` says) -/
example :
    let ops : List Op :=
      [.broadcast ⟨0, 1, 0, 1, 10⟩ 0, .broadcast ⟨8, 1, 0, 1, 20⟩ 2, .restart, .broadcast ⟨8, 1, 0, 1, 21⟩ 0,
       .broadcast ⟨8, 1, 0, 1, 20⟩ 0, .purge 2 [], .trim 7, .stop, .restart, .broadcast ⟨8, 1, 0, 1, 22⟩ 0,
       .rebroadcast 8 0 1]
    opsEqB (trace (HState.init 0 0) hhist) ops = true ∧ RunOk ownAll (Sys.init 0) ops := by decide

/-- **Sharpness of the start instance.**  The same model with a runner that starts the participant at
instance 0 instead of `latest + 1`: message for instance 0; the store reaches certificate 7; restart;
purge for certificate 7 (epoch 2, the closed file with the instance-0 record is deleted); restart; the
participant re-runs instance 0 with another value.  All hypotheses hold, the wire equivocates — whereas
with the real start instance the same history is harmless.  `purged + 6 ≤ next = cur` at a restart is
what carries the theorems. -/
example :
    let ops : List HostOp := [.request 0 1, .sign 0 1 10 0, .storePut 7, .stop, .restart false,
                              .finalizePurge 7 [], .stop, .restart false, .request 0 1, .sign 0 1 11 0]
    HostOk ownAll ops ∧
    (hrunWith (fun _ => 0) (HState.init 0 0) ops).sys.wire = [⟨0, 1, 0, 1, 10⟩, ⟨0, 1, 0, 1, 11⟩] ∧
    noEquivB (hrunWith (fun _ => 0) (HState.init 0 0) ops).sys.wire = false ∧
    (hrun (HState.init 0 0) ops).sys.wire = [⟨0, 1, 0, 1, 10⟩, ⟨8, 1, 0, 1, 11⟩] := by decide

/-- **Sharpness of `restart false`.**  `RequestBroadcast` only queues a builder in `F3.outboundMessages`;
the embedder signs it later and `F3.Broadcast` hands it to whatever runner is current.  If the same `F3`
object is stopped and started again (`restart true`), a builder of the previous run survives: instance 0
published; restart (store empty: instance 0 again) and the re-proposal queued but not yet signed; the
store reaches certificate 7, the purge for it deletes the instance-0 record; stop, start on the same
object; the embedder signs the stale builder.  The re-armed filter knows nothing of instance 0. -/
example :
    let ops : List HostOp := [.request 0 1, .sign 0 1 10 0, .stop, .restart false, .request 0 1,
                              .storePut 7, .certToRunner 7, .finalizePurge 7 [], .stop, .restart true,
                              .sign 0 1 11 0]
    ¬ HostOk ownAll ops ∧ noEquivB (hrun (HState.init 0 0) ops).sys.wire = false ∧
    (hrun (HState.init 0 0) ops).sys.floor = 2 ∧ (hrun (HState.init 0 0) ops).cur = 8 := by decide

end HostLevel

end F3.Props.C12

/-! # Regenerated, second set (appended): ties to `tools/go2lean/targets.d/*2.json` -/
namespace F3.Props.C12
section Regenerated2
open F3.Equiv
/-! ## Regenerated (2): the equivocation filter and the broadcast path as they stand in `equivocation.go` / `host.go`

Proved in `F3/Proofs/NodeGen2.lean` against `F3/Gen/Equiv2.lean` (`targets.d/Equiv2.json`). -/

/-- `ProcessBroadcast` of the model = the regenerated function (return code + action trace), every
filter and message (statement: `F3.Gen2Tie.processBroadcast_is_regenerated`) -/
theorem process_broadcast_is_regenerated : type_of% @F3.Gen2Tie.processBroadcast_is_regenerated :=
  @F3.Gen2Tie.processBroadcast_is_regenerated

/-- `ProcessReceive` of the model = the regenerated function -/
theorem process_receive_is_regenerated (f : Filter) (p : Peer) (m : Msg) :
    f.processReceive p m =
      F3.Gen2Tie.receiveActs f p m
        (F3.Gen.Equiv2.processReceive f.cur m.inst (alookup m.key f.seen).isSome
          (alookup m.sender f.active).isSome
          (match alookup m.key f.seen with | some info => info.sig == m.sig | none => true)).2 :=
  F3.Gen2Tie.processReceive_is_regenerated f p m

/-- filter → WAL append → publish: the calls of `BroadcastMessage` / `rebroadcastMessage` in source order -/
theorem broadcast_call_order_is_regenerated :
    F3.Gen.Equiv2.callSites.map (·.2.1) =
      ["ProcessBroadcast", "Append", "Publish", "ProcessBroadcast", "Publish"] :=
  F3.Gen2Tie.broadcast_call_order

/-- … and the model's crash points follow that order (statement: `F3.Gen2Tie.broadcast_model_order`) -/
theorem broadcast_model_order : type_of% @F3.Gen2Tie.broadcast_model_order :=
  @F3.Gen2Tie.broadcast_model_order

/-- `keepInstancesInWAL = 5`: guard and purge epoch on a certificate -/
theorem wal_purge_epoch_is_regenerated (c : Nat) (hc : c < 2 ^ 64) :
    (if F3.Gen.Equiv2.walPurgeGuard c then some (F3.Gen.Equiv2.walPurgeEpoch c).toNat else none) =
      (if c > 5 then some (c - 5) else none) :=
  F3.Gen2Tie.wal_purge_epoch_is_regenerated c hc

example : (F3.Gen.Equiv2.processBroadcast 5 4 false false false true).1 = 0 ∧
    (F3.Gen.Equiv2.processBroadcast 5 6 false false false true) = (1, 6, [1, 2, 3, 40, 5]) ∧
    (F3.Gen.Equiv2.processBroadcast 5 5 true true false false) = (0, 5, []) ∧
    (F3.Gen.Equiv2.processBroadcast 5 5 true false true false) = (2, 5, [41, 5]) := by decide

end Regenerated2
end F3.Props.C12

namespace F3.Props.C12
section Skeletons

/-- **The Go functions this property's models mirror still have the statement structure the models were written
against**: each regenerated skeleton (pre-order list of statement kinds, `tools/go2lean/skel.go`) equals the pinned
expectation of `F3/Proofs/SkelTie*.lean`. An added early return, cap, loop or dropped branch in one of these functions
breaks this obligation even when no regenerated *expression* changes. -/
theorem code_structure_as_modelled :
    F3.Gen.SkelNode.skelProcessBroadcast = F3.SkelTie.SkelNode.skelProcessBroadcastExpected ∧
    F3.Gen.SkelNode.skelBroadcastMessage = F3.SkelTie.SkelNode.skelBroadcastMessageExpected ∧
    F3.Gen.SkelWal.skelWalAppend = F3.SkelTie.SkelWal.skelWalAppendExpected ∧
    F3.Gen.SkelWal.skelWalPurge = F3.SkelTie.SkelWal.skelWalPurgeExpected ∧
    F3.Gen.SkelWal.skelWalClose = F3.SkelTie.SkelWal.skelWalCloseExpected :=
  ⟨F3.SkelTie.SkelNode.skelProcessBroadcast_expected, F3.SkelTie.SkelNode.skelBroadcastMessage_expected, F3.SkelTie.SkelWal.skelWalAppend_expected, F3.SkelTie.SkelWal.skelWalPurge_expected, F3.SkelTie.SkelWal.skelWalClose_expected⟩

end Skeletons
end F3.Props.C12
