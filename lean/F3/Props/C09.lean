import F3.Proofs.SkelTieStore
import F3.Proofs.StoreHistory
import F3.Proofs.StoreWitness
import F3.Proofs.StoreGen
/-!
# C09 — Certificate store: gap-free immutable history with derivable power tables

Refinement of the datastore-level model `F3.Store` (what `f3d_store` executes against the log of the
real `certstore`) to the abstract history `F3.Store.Spec = {first, initial table, certs}`:
`Repr cfg.freq ds sp` (datastore represents history), `MemOk m sp` (handle agrees), `SubsOk m`
(capacity-1 channels). Everything observable is then a function of `sp`.
-/
namespace F3.Props.C09
open F3.Store

variable {cfg : Cfg} {ds : DS} {sp : Spec} {m : Mem}

/-- **Put refines the abstract `put`**: for every represented store and every certificate, the
datastore after `Put` represents `sp.put c` and the handle agrees with it — `sp.put c` appends `c` iff
`c` is the immediate successor, finalises a valid non-bottom chain and its delta takes the current
table to a non-empty table with the committed CID (`Spec.admits_iff`), and is `sp` otherwise. -/
theorem put_refines (hr : Repr cfg.freq ds sp) (hm : MemOk m sp) (hs : SubsOk m)
    (hsmall : sp.certs.length + 1 < maxInt) (c : Cert) :
    Repr cfg.freq (applyWs ds (put cfg m c).ws) (sp.put c) ∧
    (match (put cfg m c).res with
     | .ok m' => MemOk m' (sp.put c) ∧ SubsOk m'
     | .error _ => sp.put c = sp) :=
  put_refines' cfg hr hm hs hsmall c

/-- A certificate is written **iff** the history admits it: successor-only, delta reproduces the
committed table, table non-empty, chain valid and not bottom. -/
theorem put_writes_iff_admitted (hr : Repr cfg.freq ds sp) (hm : MemOk m sp) (hs : SubsOk m) (c : Cert) :
    (put cfg m c).ws ≠ [] ↔
      (c.inst = sp.next ∧ c.chain = .ok ∧ ∃ t t', Spec.foldTables sp.init sp.certs = some t ∧
        tableStep t c.delta = .ok t' ∧ c.commit = Commit.known t' ∧ t' ≠ []) := by
  rw [← Spec.admits_iff]
  by_cases hadm : sp.admits c = true
  · obtain ⟨t', _, _, hput⟩ := put_admitted cfg hm hr.facts hs hadm
    rw [hput]; simp [hadm, putWrites]
  · have hadm' : sp.admits c = false := by simpa using hadm
    by_cases hst : sp.first ≤ c.inst ∧ c.inst < sp.next ∧ c.chain = .ok
    · rw [put_stale cfg hm hr.facts hst.1 hst.2.1 hst.2.2]; simp [hadm]
    · obtain ⟨e, he, _⟩ := put_rejected cfg hm hr.facts hadm' hst
      rw [he]; simp [hadm]

/-- Re-submitting an instance that is already stored changes nothing — no write, same handle —
whatever the re-submitted certificate contains. -/
theorem stale_reput_identity (hr : Repr cfg.freq ds sp) (hm : MemOk m sp) {c : Cert}
    (h1 : sp.first ≤ c.inst) (h2 : c.inst < sp.next) (h3 : c.chain = .ok) :
    put cfg m c = ⟨[], .ok m⟩ :=
  put_stale cfg hm hr.facts h1 h2 h3

/-- Gap, wrong delta, wrong commitment, bottom / invalid chain, emptied table, instance before the
first: rejected with an error, **nothing written, handle unchanged**. -/
theorem rejected_put_unchanged (hr : Repr cfg.freq ds sp) (hm : MemOk m sp) {c : Cert}
    (hadm : sp.admits c = false) (hstale : ¬ (sp.first ≤ c.inst ∧ c.inst < sp.next ∧ c.chain = .ok)) :
    ∃ e, put cfg m c = ⟨[], .error e⟩ ∧ e ≠ .wouldBlock :=
  put_rejected cfg hm hr.facts hadm hstale

/-- The history only grows at the end: stored certificates are never replaced, `next` never decreases. -/
theorem latest_monotone (sp : Spec) (c : Cert) :
    sp.next ≤ (sp.put c).next ∧ sp.certs <+: (sp.put c).certs := by
  unfold Spec.put
  split
  · rw [Spec.push_next, Spec.push_certs]; exact ⟨Nat.le_succ _, List.prefix_append _ _⟩
  · exact ⟨Nat.le_refl _, List.prefix_refl _⟩

/-- `Get` returns exactly the stored certificate for every instance of the history … -/
theorem get_exact (hr : Repr cfg.freq ds sp) {i : Nat} (h1 : sp.first ≤ i) (h2 : i < sp.next) :
    ∃ c, sp.certAt i = some c ∧ getCert ds i = .ok c ∧ c.inst = i := by
  unfold Spec.next at h2
  have hk : i - sp.first < sp.certs.length := by omega
  refine ⟨sp.certs[i - sp.first], ?_, ?_, ?_⟩
  · simp [Spec.certAt, h1, List.getElem?_eq_getElem hk]
  · have := getCert_repr hr hk
    rwa [show sp.first + (i - sp.first) = i by omega] at this
  · rw [hr.facts.inst _ hk]; omega

/-- … and range reads inside the history return exactly the stored certificates, in order, complete. -/
theorem range_exact (hr : Repr cfg.freq ds sp) {a b : Nat} (h1 : sp.first ≤ a) (h2 : a ≤ b) (h3 : b < sp.next) :
    getRange ds a b = .ok (sp.range a b, none) ∧ (sp.range a b).length = b + 1 - a := by
  unfold Spec.next at h3
  have := getRange_repr hr (a - sp.first) (b - a) (by omega)
  rw [show sp.first + (a - sp.first) = a by omega, show a + (b - a) = b by omega] at this
  have hr' : sp.range a b = (sp.certs.drop (a - sp.first)).take (b - a + 1) := by
    unfold Spec.range
    rw [if_neg (by omega), show b + 1 - a = b - a + 1 by omega]
  refine ⟨by rw [this, hr'], ?_⟩
  rw [hr', List.length_take, List.length_drop]; omega

/-- **Power tables are derivable**: for every instance from the first to the next one, the store
returns the initial table with the deltas of all earlier certificates applied, one after the other —
whether it answers from memory, from the initial table or from a checkpoint (any period), across
checkpoint boundaries. Outside that range it returns an error. -/
theorem power_table_derivable (hr : Repr cfg.freq ds sp) (hm : MemOk m sp) (i : Nat) :
    (sp.first ≤ i ∧ i ≤ sp.next →
      ∃ T, Spec.foldTables sp.init (sp.certs.take (i - sp.first)) = some T ∧ sp.tableAt i = some T ∧
        getPowerTable cfg m ds i = .ok T) ∧
    (i < sp.first → getPowerTable cfg m ds i = .error .beforeFirst) ∧
    (sp.next < i → getPowerTable cfg m ds i = .error .future) := by
  have hnext : m.next = sp.next := mem_next_eq hm.first hm.latest hr.facts
  refine ⟨?_, ?_, ?_⟩
  · rintro ⟨h1, h2⟩
    unfold Spec.next at h2
    obtain ⟨T, hT, _⟩ := hr.facts.tbls (i - sp.first) (by omega)
    refine ⟨T, hT, by rw [Spec.tableAt_eq sp h1 h2]; exact hT, ?_⟩
    have := getPowerTable_repr hr cfg m hm.first hm.latest (Or.inr hm.table) (k := i - sp.first) (by omega) (Or.inl rfl) hT
    rwa [show sp.first + (i - sp.first) = i by omega] at this
  · intro h
    unfold getPowerTable
    rw [if_pos (by rw [hm.first]; exact h)]
  · intro h
    unfold getPowerTable
    rw [if_neg (by rw [hm.first]; unfold Spec.next at h; omega), if_pos (by omega)]

/-- **Identically before and after reopening**: reopening writes nothing and yields a handle that
agrees with the same history; hence every certificate and every power table read through the new
handle equals the one read through the old handle (`observe` = `Spec.obs` for both). -/
theorem reopen_same_observations (hu : cfg.openFreq = cfg.freq) (hr : Repr cfg.freq ds sp) (hm : MemOk m sp) (o : Orders) :
    ∃ m', openStore cfg ds o = ⟨[], .ok m'⟩ ∧ MemOk m' sp ∧
      observe cfg m' ds = observe cfg m ds ∧ observe cfg m ds = sp.obs := by
  obtain ⟨T, hT, hopen⟩ := openStore_repr cfg o hr (Or.inl hu)
  refine ⟨memOf sp T, hopen, memOk_memOf hT, ?_, observe_repr cfg hr hm⟩
  rw [observe_repr cfg hr (memOk_memOf hT), observe_repr cfg hr hm]

/-- The same with the checkpoint period lowered only *after* opening (what the test accessor does),
as long as no boundary of the opening period lies between the first and the next instance. -/
theorem reopen_same_observations_lowered (ho : sp.next - sp.next % cfg.openFreq ≤ sp.first)
    (hr : Repr cfg.freq ds sp) (hm : MemOk m sp) (o : Orders) :
    ∃ m', openStore cfg ds o = ⟨[], .ok m'⟩ ∧ observe cfg m' ds = observe cfg m ds := by
  obtain ⟨T, hT, hopen⟩ := openStore_repr cfg o hr (Or.inr ho)
  exact ⟨memOf sp T, hopen, by rw [observe_repr cfg hr (memOk_memOf hT), observe_repr cfg hr hm]⟩

/-- **The writer never blocks on a subscriber**, and after an admitted `Put` every subscriber's
channel holds exactly the new latest certificate (drain-then-send on capacity-1 channels). -/
theorem subscriber_never_blocks (hm : MemOk m sp) (hf : sp.Facts) (hs : SubsOk m) (c : Cert) :
    (put cfg m c).res ≠ .error .wouldBlock ∧
    (sp.admits c = true → ∃ m', (put cfg m c).res = .ok m' ∧ ∀ s ∈ m'.subs, s.2 = [c]) := by
  by_cases hadm : sp.admits c = true
  · obtain ⟨t', _, _, hput⟩ := put_admitted cfg hm hf hs hadm
    rw [hput]
    refine ⟨by simp, fun _ => ⟨_, rfl, ?_⟩⟩
    intro s hs'
    simp only [List.mem_map] at hs'
    obtain ⟨s0, _, rfl⟩ := hs'
    rfl
  · have hadm' : sp.admits c = false := by simpa using hadm
    refine ⟨?_, fun h => absurd h hadm⟩
    by_cases hst : sp.first ≤ c.inst ∧ c.inst < sp.next ∧ c.chain = .ok
    · rw [put_stale cfg hm hf hst.1 hst.2.1 hst.2.2]; simp
    · obtain ⟨e, he, hne⟩ := put_rejected cfg hm hf hadm' hst
      rw [he]
      intro h
      exact hne (Except.error.inj h)

/-- A new subscriber starts with the latest certificate (if any); receiving takes it out; both keep
the channel invariant, so the writer keeps never blocking. -/
theorem subscriber_sees_latest (hs : SubsOk m) (hfresh : ∀ s ∈ m.subs, s.1 ≠ m.nextSub) :
    SubsOk (subscribe m).1 ∧
    ∃ m2, recv (subscribe m).1 (subscribe m).2 = some (m2, m.latest) ∧ SubsOk m2 := by
  have hfind : (subscribe m).1.subs.find? (·.1 = (subscribe m).2) = some (m.nextSub, m.latest.toList) := by
    show List.find? (fun s => decide (s.1 = m.nextSub)) (m.subs ++ [(m.nextSub, m.latest.toList)]) = _
    rw [List.find?_append, List.find?_eq_none.2 (by intro s hs'; simpa using hfresh s hs')]
    simp
  have hok1 : SubsOk (subscribe m).1 := by
    intro s hs'
    simp only [subscribe, List.mem_append, List.mem_singleton] at hs'
    rcases hs' with h | h
    · exact hs s h
    · subst h
      cases m.latest <;> simp
  refine ⟨hok1, ?_⟩
  unfold recv
  rw [hfind]
  simp only [subscribe]
  refine ⟨{ first := m.first, latest := m.latest, latestTable := m.latestTable,
            subs := List.map (fun s => if s.fst = m.nextSub then (s.fst, chanDrain s.snd) else s)
              (m.subs ++ [(m.nextSub, m.latest.toList)]),
            nextSub := m.nextSub + 1 }, ?_, ?_⟩
  · cases m.latest <;> rfl
  · intro s hs'
    simp only [List.mem_map] at hs'
    obtain ⟨s0, hs0, rfl⟩ := hs'
    have h0 := hok1 s0 (by simpa [subscribe] using hs0)
    split
    · simp only [chanDrain, List.length_drop]; omega
    · exact h0

/-- Every table the store serves is in canonical order (power descending, then id ascending): the
order `gpbft.PowerTable` and the CID commitment rely on survives every delta, checkpoint and reopen. -/
theorem tables_sorted (hr : Repr cfg.freq ds sp) {i : Nat} {T : Table} (h : sp.tableAt i = some T) :
    T.Pairwise (fun a b => entryLe a b = true) := by
  unfold Spec.tableAt at h
  split at h
  · obtain ⟨m, _, rfl⟩ := Spec.canon_tbl (k := i - sp.first) hr.canon h
    exact toArray_sorted m
  · cases h

/-- **Every history.** Start from any represented store with its handle; run *any* sequence of
puts (admissible or not), reopenings, subscriptions, receives and unsubscriptions. The datastore and
handle at the end represent the abstract history obtained by running the same puts on `Spec`, and
everything observable — latest, every certificate, every power table — is that history's
(`Spec.obs`). The store never holds anything but a gap-free sequence of admitted certificates. -/
theorem history_refines (hu : cfg.openFreq = cfg.freq) (ops : List HOp) {w : DS × Mem} (h : Inv cfg w sp)
    (hsmall : sp.certs.length + ops.length < maxInt) :
    Inv cfg (ops.foldl (stepH cfg) w) (ops.foldl specStepH sp) ∧
    observe cfg (ops.foldl (stepH cfg) w).2 (ops.foldl (stepH cfg) w).1 = (ops.foldl specStepH sp).obs := by
  have hi := inv_run cfg hu ops h hsmall
  exact ⟨hi, observe_repr cfg hi.repr hi.mem⟩

/-! ## Non-vacuity -/

open F3.Store.Witness in
/-- A represented two-certificate store whose tables change order (participant 2 overtakes 1), its
handle, and certificates of every kind: admissible successor, stale, gap, wrong commitment. -/
example : Repr cfgFixed.freq ds2 sp2 ∧ MemOk m2 sp2 ∧ SubsOk m2 ∧ sp2.certs.length + 1 < maxInt ∧
    sp2.admits ⟨5, 9, [⟨1, -10, 0⟩], .known [⟨2, 12, 2⟩], .ok⟩ = true ∧
    sp2.admits ⟨6, 9, [], .known T1, .ok⟩ = false ∧
    sp2.admits ⟨5, 9, [], .known T0, .ok⟩ = false ∧
    sp2.tableAt 3 = some T0 ∧ sp2.tableAt 4 = some T1 ∧ sp2.tableAt 5 = some T1 :=
  ⟨repr2, memOk2, subsOk2, by decide, by decide, by decide, by decide, by decide, by decide, by decide⟩

open F3.Store.Witness in
/-- `power_table_derivable` through the checkpoint at instance 4 (period 2) after a reopen: memory is
not used for instance 4, the checkpoint is. -/
example : getPowerTable cfgFixed m2 ds2 4 = .ok T1 ∧ getPowerTable cfgFixed m2 ds2 3 = .ok T0 ∧
    getRange ds2 3 4 = .ok ([c3, c4], none) := by decide

open F3.Store.Witness in
/-- `history_refines` has inhabitants: the invariant holds for the two-certificate witness store. -/
example : Inv cfgFixed (ds2, m2) sp2 := ⟨repr2, memOk2, subsOk2⟩

/-! ## Regenerated: the admission comparisons of `Put` as they stand in `certstore/certstore.go`

`F3.Gen.Store.putAdmission` is translated on every run (`tools/go2lean/targets.d/Store.json`) from the
statements of `Store.Put` from the first-instance check down to (excluding) the power-table computation:
below `firstInstance` (code 1), bottom (2), invalid chain (3), `nextCert := firstInstance` resp.
`latest + 1` (`uint64`, wrapped), beyond `nextCert` (4: gap), below it (`return nil`, 0: stale re-put),
otherwise the successor (5: falls through). The lock statements are skipped; `IsZero()` and the error of
`Validate()` are parameters. -/
open F3.Proofs.StoreGen

/-- **The model's admission rule is the source's.** For every store handle whose latest instance is below
`2^64 - 1` and every certificate, the admission outcome of the model's `put` (`admissionCode`: which of the
four admission errors, or a stale re-put answered `nil` without a write, or admitted as the successor) is
the code the regenerated statement range of `Put` computes — same comparisons, same order, same `+ 1`. -/
theorem put_admission_is_regenerated (cfg : Cfg) (m : Mem) (c : Cert)
    (hl : ∀ l, m.latest = some l → l.inst + 1 < 2 ^ 64) :
    admissionCode (put cfg m c) =
      F3.Gen.Store.putAdmission c.inst (decide (c.chain = .zero)) m.first (decide (c.chain = .invalid))
        (((m.latest.map (·.inst)).getD 0 : Nat) : Int) m.latest.isSome := by
  rw [put_head_code]
  unfold F3.Gen.Store.putAdmission Mem.next
  cases h : m.latest with
  | none =>
    simp only [Option.isSome_none, Option.map_none, Option.getD_none, decide_eq_true_eq]
    repeat' split
    all_goals (first | rfl | contradiction | (exfalso; omega))
  | some l =>
    have := hl l h
    simp only [Option.isSome_some, Option.map_some, Option.getD_some, decide_eq_true_eq]
    repeat' split
    all_goals (first | rfl | contradiction | (exfalso; omega) | (simp only [F3.GoInt.u64] at *; exfalso; omega))

-- non-vacuity: all six codes from the generated code (latest = 7, first = 3)
example : F3.Gen.Store.putAdmission 2 false 3 false 7 true = 1 ∧ F3.Gen.Store.putAdmission 8 true 3 false 7 true = 2 ∧
    F3.Gen.Store.putAdmission 8 false 3 true 7 true = 3 ∧ F3.Gen.Store.putAdmission 9 false 3 false 7 true = 4 ∧
    F3.Gen.Store.putAdmission 5 false 3 false 7 true = 0 ∧ F3.Gen.Store.putAdmission 8 false 3 false 7 true = 5 ∧
    F3.Gen.Store.putAdmission 3 false 3 false 0 false = 5 ∧ F3.Gen.Store.putAdmission 4 false 3 false 0 false = 4 := by
  decide
open F3.Store.Witness in
example : admissionCode (put cfgFixed m2 c3) = 0 ∧ admissionCode (put cfgFixed m2 { c4 with inst := 6 }) = 4 := by
  decide

end F3.Props.C09

namespace F3.Props.C09
section Skeletons

/-- **The Go functions this property's models mirror still have the statement structure the models were written
against**: each regenerated skeleton (pre-order list of statement kinds, `tools/go2lean/skel.go`) equals the pinned
expectation of `F3/Proofs/SkelTie*.lean`. An added early return, cap, loop or dropped branch in one of these functions
breaks this obligation even when no regenerated *expression* changes. -/
theorem code_structure_as_modelled :
    F3.Gen.SkelStore.skelStorePut = F3.SkelTie.SkelStore.skelStorePutExpected ∧
    F3.Gen.SkelStore.skelStoreGetRange = F3.SkelTie.SkelStore.skelStoreGetRangeExpected ∧
    F3.Gen.SkelStore.skelStoreOpen = F3.SkelTie.SkelStore.skelStoreOpenExpected ∧
    F3.Gen.SkelStore.skelExportSnapshot = F3.SkelTie.SkelStore.skelExportSnapshotExpected ∧
    F3.Gen.SkelStore.skelReadSnapshotBlock = F3.SkelTie.SkelStore.skelReadSnapshotBlockExpected ∧
    F3.Gen.SkelStore.skelImportSnapshot = F3.SkelTie.SkelStore.skelImportSnapshotExpected :=
  ⟨F3.SkelTie.SkelStore.skelStorePut_expected, F3.SkelTie.SkelStore.skelStoreGetRange_expected, F3.SkelTie.SkelStore.skelStoreOpen_expected, F3.SkelTie.SkelStore.skelExportSnapshot_expected, F3.SkelTie.SkelStore.skelReadSnapshotBlock_expected, F3.SkelTie.SkelStore.skelImportSnapshot_expected⟩

end Skeletons
end F3.Props.C09
