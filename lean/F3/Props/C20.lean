import F3.Proofs.SkelTiePoll
import F3.Proofs.SkelTieCertX
import F3.Gen.Core
import F3.Model.Poll
import F3.Spec.Poll
import F3.Proofs.Poll
import F3.Proofs.PollLoop
/-!
# C20 — certificate polling adapts its cadence to certificate production

`F3.Gen.predictorUpdate` (`predictor.update`) and `F3.Gen.subscriberDelay` (the `delay += …` line of
`Subscriber.run`) are regenerated from `/repo/certexchange/polling` on every run; the theorems below
are about those definitions (directly, or through `F3.Poll.update`/`F3.Poll.round`, which only
repackage them). The glue of one loop iteration and the value returned by `poll` are the hand model
`F3.Poll`, tied to the code by the `h_poll` correspondence.
-/
namespace F3.Props.C20
open F3.Gen F3.GoInt F3.Poll F3.Spec.Poll F3.Proofs.Poll F3.Proofs.PollLoop

set_option linter.unusedSimpArgs false
set_option linter.unusedVariables false

/-! ## The regenerated predictor is the specified predictor -/

/-- `predictor.update`, as regenerated from source, computes exactly `predictorSpec`
(direction logic, clamps, back-off) — for all integers, no side condition. -/
theorem predictor_matches_spec (p b e i mx mn : Int) (w : Bool) :
    predictorUpdate p b e i mx mn w = predictorSpec p b e i mx mn w := by
  unfold predictorUpdate predictorSpec explore1 clampE clampI fin
  have hp : p < 0 ∨ p = 0 ∨ p = 1 ∨ p = 2 ∨ p ≥ 3 := by omega
  rcases hp with hp | hp | hp | hp | hp
  · have h0 : ¬ p > 0 := by omega
    have h1 : ¬ p = 1 := by omega
    have h2 : ¬ p = 0 := by omega
    have h3 : p ≤ 2 := by omega
    have h4 : ¬ p > 1 := by omega
    cases w <;> by_cases hb : b > 0 <;>
      simp [h0, h1, h2, h3, h4, hb, apply_ite Prod.fst, apply_ite Prod.snd]
  · have h0 : ¬ p > 0 := by omega
    have h1 : ¬ p = 1 := by omega
    have h2 : p = 0 := by omega
    have h3 : p ≤ 2 := by omega
    have h4 : ¬ p > 1 := by omega
    cases w <;> by_cases hb : b > 0 <;>
      simp [h0, h1, h2, h3, h4, hb, apply_ite Prod.fst, apply_ite Prod.snd]
  · have h0 : p > 0 := by omega
    have h1 : p = 1 := by omega
    have h2 : ¬ p = 0 := by omega
    have h3 : p ≤ 2 := by omega
    have h4 : ¬ p > 1 := by omega
    cases w <;> by_cases hb : b > 0 <;>
      simp [h0, h1, h2, h3, h4, hb, apply_ite Prod.fst, apply_ite Prod.snd]
  · have h0 : p > 0 := by omega
    have h1 : ¬ p = 1 := by omega
    have h2 : ¬ p = 0 := by omega
    have h3 : p ≤ 2 := by omega
    have h4 : p > 1 := by omega
    cases w <;> by_cases hb : b > 0 <;>
      simp [h0, h1, h2, h3, h4, hb, apply_ite Prod.fst, apply_ite Prod.snd]
  · have h0 : p > 0 := by omega
    have h1 : ¬ p = 1 := by omega
    have h2 : ¬ p = 0 := by omega
    have h3 : ¬ p ≤ 2 := by omega
    have h4 : p > 1 := by omega
    cases w <;> by_cases hb : b > 0 <;>
      simp [h0, h1, h2, h3, h4, hb, apply_ite Prod.fst, apply_ite Prod.snd]

private theorem inv_iff (s : PState) : PInv s ↔ InvC s.minI s.maxI s.backoff s.explore s.interval := Iff.rfl

private theorem update_eq (s : PState) (p : Int) :
    update s p =
      ((predictorSpec p s.backoff s.explore s.interval s.maxI s.minI s.wasInc).1,
       { s with backoff := (predictorSpec p s.backoff s.explore s.interval s.maxI s.minI s.wasInc).2.1,
                explore := (predictorSpec p s.backoff s.explore s.interval s.maxI s.minI s.wasInc).2.2.1,
                interval := (predictorSpec p s.backoff s.explore s.interval s.maxI s.minI s.wasInc).2.2.2.1,
                wasInc := (predictorSpec p s.backoff s.explore s.interval s.maxI s.minI s.wasInc).2.2.2.2 }) := by
  unfold update
  rw [predictor_matches_spec]

/-! ## Progress = store advance (hand model of `poll`'s return value and of the loop glue) -/

/-- `poll` reports exactly the number of instances by which the subscriber's position advanced
(no wrap), for every start and end position in the uint64 range. -/
theorem progress_eq_store_advance (start next' : Int) (h0 : 0 ≤ start) (h1 : start ≤ next')
    (h2 : next' < 2 ^ 64) : pollProgress start next' = next' - start := by
  unfold pollProgress u64
  exact Int.emod_eq_of_lt (by omega) (by omega)

/-- …and so does one whole loop iteration: whether it caught up from the local store or polled the
network, the value fed to the predictor is (position after) − (position before). -/
theorem round_progress_eq_advance (s : PState) (i : RoundIn) (h0 : 0 ≤ i.next0)
    (hs : i.next0 ≤ i.store0) (hs2 : i.store0 < 2 ^ 64) (hn : i.next0 ≤ i.next1) (hn2 : i.next1 < 2 ^ 64) :
    (round s i).progress = (if i.store0 = i.next0 then i.next1 else i.store0) - i.next0 := by
  have hc : catchUp i.next0 i.store0 = i.store0 - i.next0 := by
    unfold catchUp u64; exact Int.emod_eq_of_lt (by omega) (by omega)
  have hp := progress_eq_store_advance i.next0 i.next1 h0 hn hn2
  simp only [round, hc, hp]
  by_cases h : i.store0 = i.next0
  · simp [h]
  · have : ¬ (i.store0 - i.next0 = 0) := by omega
    simp [h, this]

/-- the positions of consecutive loop iterations, chained -/
def positionsChained : Int → List RoundIn → Prop
  | _, [] => True
  | pos, i :: rest => i.next0 = pos ∧ i.next0 ≤ i.store0 ∧ i.store0 < 2 ^ 64 ∧ i.next0 ≤ i.next1 ∧
      i.next1 < 2 ^ 64 ∧ positionsChained (if i.store0 = i.next0 then i.next1 else i.store0) rest

def finalPosition : Int → List RoundIn → Int
  | pos, [] => pos
  | _, i :: rest => finalPosition (if i.store0 = i.next0 then i.next1 else i.store0) rest

/-- total progress fed to the predictor over a run (the predictor state threads through) -/
def totalProgress : PState → List RoundIn → Int
  | _, [] => 0
  | s, i :: rest => (round s i).progress + totalProgress (round s i).st rest

/-- Over any number of iterations the progress values fed to the predictor add up to exactly the
distance the subscriber's position travelled: nothing is counted twice and nothing is lost. -/
theorem progress_sums_to_advance (rounds : List RoundIn) :
    ∀ (s : PState) (pos : Int), 0 ≤ pos → positionsChained pos rounds →
      totalProgress s rounds = finalPosition pos rounds - pos := by
  induction rounds with
  | nil => intro s pos _ _; simp [totalProgress, finalPosition]
  | cons i rest ih =>
    intro s pos hpos h
    obtain ⟨h1, h2, h3, h4, h5, h6⟩ := h
    have hp := round_progress_eq_advance s i (by omega) h2 h3 h4 h5
    have hnext : 0 ≤ (if i.store0 = i.next0 then i.next1 else i.store0) := by split <;> omega
    have := ih (round s i).st _ hnext h6
    simp only [totalProgress, finalPosition, hp, this]
    omega

/-! ## The delay bound (regenerated `delay += …` line) -/

/-- The wait armed after a poll is the remaining predicted interval, extended only by the offset
(the time the subscriber's own requests took) and by at most half of the interval. -/
theorem delay_bound (remaining offset : Int) (hr : 0 ≤ remaining) (ho : 0 ≤ offset) :
    remaining ≤ subscriberDelay remaining offset ∧
    subscriberDelay remaining offset ≤ delayBound remaining offset := by
  unfold subscriberDelay delayBound
  rw [Int.tdiv_eq_ediv_of_nonneg hr]
  dsimp only
  omega

/-- the same for one whole loop iteration: whatever the store, peers and clock did, the armed delay
lies between the remaining interval and `remaining + min(requestTime, remaining/2)`. -/
theorem round_delay_bound (s : PState) (i : RoundIn) (hnow : i.pollTime ≤ i.now) :
    (round s i).remaining ≤ (round s i).delay ∧
    (round s i).delay ≤ delayBound (round s i).remaining (i.now - i.pollTime) := by
  have hr : 0 ≤ (round s i).remaining := by simp only [round]; omega
  have hoff : 0 ≤ (round s i).offset ∧ (round s i).offset ≤ i.now - i.pollTime := by
    simp only [round]
    split
    · split <;> omega
    · omega
  have h := delay_bound (round s i).remaining (round s i).offset hr hoff.1
  have hd : (round s i).delay = subscriberDelay (round s i).remaining (round s i).offset := rfl
  rw [hd]
  refine ⟨h.1, Int.le_trans h.2 ?_⟩
  unfold delayBound
  omega

/-! ## Predictor invariants -/

/-- `newPredictor` establishes the invariant for sane settings. -/
theorem predictor_init_inv (mn ini mx : Int) (h0 : 0 < mn) (h1 : mn ≤ ini) (h2 : ini ≤ mx) :
    PInv (PState.init mn ini mx) := by
  have h3 : 0 ≤ ini := by omega
  have h4 : 0 ≤ mx := by omega
  simp only [PInv, PState.init, Int.tdiv_eq_ediv_of_nonneg h3, Int.tdiv_eq_ediv_of_nonneg h4]
  exact ⟨h0, by omega, h1, h2, by omega, by omega, Or.inl trivial⟩

/-- `update` preserves the invariant — in particular `min ≤ interval ≤ max` always — and the wait it
returns lies in `[min, 10·max]` (`10·max` is the back-off cap), for every progress value. -/
theorem predictor_bounds (s : PState) (p : Int) (h : PInv s) :
    PInv (update s p).2 ∧ s.minI ≤ (update s p).1 ∧ (update s p).1 ≤ 10 * s.maxI ∧
    (update s p).2.minI = s.minI ∧ (update s p).2.maxI = s.maxI := by
  have := spec_bounds p s.backoff s.explore s.interval s.maxI s.minI s.wasInc ((inv_iff s).1 h)
  rw [update_eq]
  exact ⟨this.1, this.2.1, this.2.2, rfl, rfl⟩

/-- The invariant holds along every run of the predictor (induction over the progress history). -/
theorem predictor_bounds_run (ps : List Int) :
    ∀ s : PState, PInv s →
      PInv (runPredictor s ps).2 ∧ ∀ w ∈ (runPredictor s ps).1, s.minI ≤ w ∧ w ≤ 10 * s.maxI := by
  induction ps with
  | nil => intro s h; simp [runPredictor, h]
  | cons p rest ih =>
    intro s h
    have hb := predictor_bounds s p h
    have := ih (update s p).2 hb.1
    simp only [runPredictor]
    refine ⟨this.1, ?_⟩
    intro w hw
    simp only [List.mem_cons] at hw
    rcases hw with hw | hw
    · subst hw; exact ⟨hb.2.1, hb.2.2.1⟩
    · have := this.2 w hw
      rw [hb.2.2.2.1, hb.2.2.2.2] at this
      exact this

/-- Progress 1 outside back-off is a fixed point: nothing changes and the wait is the interval. -/
theorem predictor_fixpoint (s : PState) (hb : s.backoff ≤ 0) : update s 1 = (s.interval, s) := by
  rw [update_eq, spec_fixpoint _ _ _ _ _ _ hb]

/-- …forever: as long as exactly one certificate appears per poll the prediction never moves. -/
theorem predictor_fixpoint_forever (n : Nat) (s : PState) (hb : s.backoff ≤ 0) :
    runPredictor s (List.replicate n 1) = (List.replicate n s.interval, s) := by
  induction n with
  | zero => rfl
  | succ k ih => simp only [List.replicate_succ, runPredictor, predictor_fixpoint s hb, ih]

/-- Progress ≥ 2 never lengthens: the new interval and the next wait are at most the old interval,
and back-off mode is left. Holds for every uint64 progress value, including those that wrap to a
negative duration in `time.Duration(progress)`. -/
theorem predictor_shortens (s : PState) (p : Int) (h : PInv s) (hp : 2 ≤ p) :
    (update s p).2.interval ≤ s.interval ∧ (update s p).1 ≤ s.interval ∧ (update s p).2.backoff = 0 := by
  have := spec_shortens p s.backoff s.explore s.interval s.maxI s.minI s.wasInc ((inv_iff s).1 h) hp
  rw [update_eq]
  exact this

/-- …and strictly shortens while above the minimum (for `min ≥ 100ns`, so that the smallest explore
distance `min/100` is not zero). -/
theorem predictor_shortens_strict (s : PState) (p : Int) (h : PInv s) (hb : s.backoff = 0) (hp : 2 ≤ p)
    (hmn : 100 ≤ s.minI) (hi : s.minI < s.interval) : (update s p).2.interval < s.interval := by
  have h' := (inv_iff s).1 h
  rw [hb] at h'
  have := spec_shortens_strict p s.explore s.interval s.maxI s.minI s.wasInc h' hp hmn hi
  rw [update_eq, hb]
  exact this

/-- Progress 0 never shortens the next wait: the wait is the current interval (or the current
back-off), the interval does not decrease, and the following wait will be `min(2·wait, 10·max)`. -/
theorem predictor_backs_off (s : PState) (h : PInv s) :
    (update s 0).1 = (if s.backoff > 0 then s.backoff else s.interval) ∧
    s.interval ≤ (update s 0).2.interval ∧
    (update s 0).2.backoff = min (2 * (update s 0).1) (10 * s.maxI) ∧
    (update s 0).1 ≤ (update s 0).2.backoff ∧ 0 < (update s 0).2.backoff := by
  have := spec_backs_off s.backoff s.explore s.interval s.maxI s.minI s.wasInc ((inv_iff s).1 h)
  rw [update_eq]
  exact this

/-- waits produced by a stalled certificate production: doubling up to the cap -/
def stalledWaits (b cap : Int) : Nat → List Int
  | 0 => []
  | n + 1 => b :: stalledWaits (min (2 * b) cap) cap n

private theorem stalled_in_backoff (n : Nat) :
    ∀ s : PState, PInv s → 0 < s.backoff →
      (runPredictor s (List.replicate n 0)).1 = stalledWaits s.backoff (10 * s.maxI) n := by
  induction n with
  | zero => intro s _ _; rfl
  | succ k ih =>
    intro s h hb
    have hbo := predictor_backs_off s h
    have hbd := predictor_bounds s 0 h
    simp only [hb, ite_true] at hbo
    have := ih (update s 0).2 hbd.1 hbo.2.2.2.2
    simp only [List.replicate_succ, runPredictor, stalledWaits, this, hbo.1, hbd.2.2.2.2]
    rw [hbo.2.2.1, hbo.1]

/-- **Backs off when no certificates appear**: from any state outside back-off, `n+1` consecutive
polls without progress wait `interval, min(2·interval, cap), min(4·interval, cap), …` with
`cap = 10·max` — for every `n`. -/
theorem predictor_stalled_waits (n : Nat) (s : PState) (h : PInv s) (hb : s.backoff = 0) :
    (runPredictor s (List.replicate (n + 1) 0)).1 =
      s.interval :: stalledWaits (min (2 * s.interval) (10 * s.maxI)) (10 * s.maxI) n := by
  have hbo := predictor_backs_off s h
  have hbd := predictor_bounds s 0 h
  have hnb : ¬ s.backoff > 0 := by omega
  simp only [hnb, ite_false] at hbo
  have := stalled_in_backoff n (update s 0).2 hbd.1 hbo.2.2.2.2
  simp only [List.replicate_succ, runPredictor, this, hbo.1, hbd.2.2.2.2]
  rw [hbo.2.2.1, hbo.1]

/-- the waits of a stall never decrease -/
theorem stalledWaits_monotone (cap : Int) (n : Nat) :
    ∀ b : Int, 0 < b → b ≤ cap → List.Pairwise (· ≤ ·) (stalledWaits b cap n) := by
  induction n with
  | zero => intro b _ _; simp [stalledWaits]
  | succ k ih =>
    intro b hb hc
    simp only [stalledWaits, List.pairwise_cons]
    refine ⟨?_, ih _ (by omega) (by omega)⟩
    -- every later wait is ≥ b: generalise
    have key : ∀ (m : Nat) (c : Int), b ≤ c → c ≤ cap → ∀ x ∈ stalledWaits c cap m, b ≤ x := by
      intro m
      induction m with
      | zero => intro c _ _ x hx; simp [stalledWaits] at hx
      | succ j ihj =>
        intro c hbc hcc x hx
        simp only [stalledWaits, List.mem_cons] at hx
        rcases hx with hx | hx
        · omega
        · exact ihj _ (by omega) (by omega) x hx
    exact key k _ (by omega) (by omega)

/-- On a change of direction the explore distance contracts by a factor 3 (down to the floor
`min/100`): the search narrows in on the production interval. -/
theorem predictor_direction_change_contracts (s : PState) (p : Int) (h : PInv s) (hb : s.backoff = 0)
    (hp : p ≠ 1) (hdir : s.wasInc = decide (p > 1)) :
    (update s p).2.explore = clampE s.minI s.maxI (Int.tdiv s.explore 3) ∧
    (update s p).2.explore ≤ max (s.explore / 3) (s.minI / 100) := by
  obtain ⟨hmn, hmm, _, _, he1, he2, _⟩ := h
  have hexp : (explore1 s.wasInc p s.explore s.interval).1 = Int.tdiv s.explore 3 := by
    unfold explore1; simp [hdir]
  have hE : (update s p).2.explore = clampE s.minI s.maxI (Int.tdiv s.explore 3) := by
    rw [update_eq]
    simp only [predictorSpec, fin, hb, ne_eq, hp, not_false_eq_true, ite_true, hexp]
    by_cases h0 : p = 0 <;> simp [h0]
  refine ⟨hE, ?_⟩
  rw [hE]
  unfold clampE
  rw [Int.tdiv_eq_ediv_of_nonneg he1, Int.tdiv_eq_ediv_of_nonneg (by omega : 0 ≤ s.minI),
    Int.tdiv_eq_ediv_of_nonneg (by omega : 0 ≤ s.maxI)]
  split
  · omega
  · split <;> omega

/-! ## No overflow -/

/-- For settings up to `max ≤ 2^58 ns` (≈ 9 years) no intermediate of `update` or of the delay line
leaves int64, and the division `interval / time.Duration(progress)` never divides by zero. The
intermediates are: `exploreDistance/3`, `exploreDistance*2`, `interval/Duration(progress)` and its
half, `min/100`, `max/2`, `interval ± exploreDistance`, `2*backoff`, `10*max`, and
`delay + max|min(offset, delay/2)`. -/
theorem no_overflow (s : PState) (p : Int) (h : PInv s) (hmx : s.maxI ≤ 2 ^ 58) (hp0 : 0 ≤ p) (hp : p < 2 ^ 64) :
    let d := i64ofU64 p
    let e2 := clampE s.minI s.maxI (explore1 s.wasInc p s.explore s.interval).1
    let i1 := (explore1 s.wasInc p s.explore s.interval).2
    (2 < p → d ≠ 0) ∧
    fits64 (Int.tdiv s.explore 3) ∧ fits64 (s.explore * 2) ∧ fits64 (Int.tdiv s.interval d) ∧
    fits64 (Int.tdiv (Int.tdiv s.interval d) 2) ∧ fits64 (Int.tdiv s.minI 100) ∧ fits64 (Int.tdiv s.maxI 2) ∧
    fits64 (i1 + e2) ∧ fits64 (i1 - e2) ∧ fits64 (2 * s.backoff) ∧ fits64 (10 * s.maxI) ∧
    fits64 (update s p).1 ∧
    (∀ offset, 0 ≤ offset → offset ≤ 2 ^ 61 →
      fits64 (subscriberDelay (update s p).1 offset) ∧ fits64 ((update s p).1 + offset)) := by
  obtain ⟨hmn, hmm, hi1, hi2, he1, he2, hb⟩ := id h
  have hi0 : 0 ≤ s.interval := by omega
  have hq := tdiv_bounds s.interval (i64ofU64 p) hi0
  have hq2 := tdiv_pos_div s.explore 3 he1 (by omega)
  have hE := clampE_bounds s.minI s.maxI (explore1 s.wasInc p s.explore s.interval).1 hmn hmm
  have hS := explore1_snd s.wasInc p s.explore s.interval hi0
  have hm2 := tdiv_pos_div s.maxI 2 (by omega) (by omega)
  have hm100 := tdiv_pos_div s.minI 100 (by omega) (by omega)
  have hbd := predictor_bounds s p h
  have hhalf : ∀ x : Int, -(2:Int) ^ 60 ≤ x → x ≤ 2 ^ 60 → -(2:Int) ^ 60 ≤ Int.tdiv x 2 ∧ Int.tdiv x 2 ≤ 2 ^ 60 := by
    intro x h1 h2
    rcases Int.le_total 0 x with hx | hx
    · have := tdiv_pos_div x 2 hx (by omega); omega
    · have hneg : Int.tdiv x 2 = -(Int.tdiv (-x) 2) := by rw [Int.neg_tdiv, Int.neg_neg]
      have := tdiv_pos_div (-x) 2 (by omega) (by omega)
      omega
  have hqq := hhalf (Int.tdiv s.interval (i64ofU64 p)) (by omega) (by omega)
  have hpow : (2:Int) ^ 58 * 32 = 2 ^ 63 := by decide
  refine ⟨?_, ?_, ?_, ?_, ?_, ?_, ?_, ?_, ?_, ?_, ?_, ?_, ?_⟩
  · intro h2
    unfold i64ofU64
    split <;> omega
  all_goals (try unfold fits64)
  all_goals (try omega)
  · intro offset ho1 ho2
    have hn0 : 0 ≤ (update s p).1 := by omega
    unfold subscriberDelay
    rw [Int.tdiv_eq_ediv_of_nonneg hn0]
    dsimp only
    omega

/-! ## Closed loop: what is proved, and the full statement -/

/-- Full closed-loop claim of the property ("settles at the production interval instead of
collapsing to the minimum or drifting to the maximum"): for a production period inside the
configured range, from some poll on every wait stays within a factor two of the period.

STATUS: neither proved nor refuted for all settings; everything below the line "Closed loop against
the steady producer" is proved for ALL settings and says how far a theorem goes.

* What would refute it. For fixed settings the loop state (interval, explore distance, direction,
  back-off, arrival phase) lives in a finite space, so every run is eventually periodic and the
  statement holds for a setting iff the cycle the run ends in has only in-band waits. Searched:
  ALL loop states (reachable or not) of 11 small settings (e.g. 100/·/400 with period 200,
  100/·/1003 with 251, 300/·/1400 with 700) and 4.9·10⁶ random settings from the start state. Every
  cycle found is in band: the fixed point interval = period (two runs in three for small random
  settings; `settles_if_period_hit` proves the statement for every such run), or a cycle whose
  interval stays closer to the period than 8·max(1, min/100). No counterexample exists in that range.
* What is proved. Progress is truthful (`producer_truthful`), so every adjustment points toward the
  period and overshoots by less than the explore distance (`closed_loop_moves_toward_period`); away
  from the period the loop cannot stall (`no_collapse`, `no_drift`, with explicit poll counts) and the
  interval comes back to the period again and again, so that `lim inf interval ≤ period ≤ lim sup
  interval` on every run (`interval_returns_to_period`, `cadence_straddles_period`); the period, once
  hit, is held for ever (`closed_loop_holds_period`); the back-off never sleeps through
  a period (`closed_loop_wait_bound`); a normal change of direction needs at most two adjustments
  and contracts the explore distance to at most 2/3 (`search_turn_contracts`); and near the period
  the band `[P/2, 3P/2]` is absorbing as long as no exceptional configuration (next item) occurs
  (`band_absorbing_unless_exceptional`, `settles_unless_exceptional`).
* Why the proof does not close. In the exceptional configuration (overshoot `e-1`, explore distance
  `e ≡ 2 mod 3`) a change of direction multiplies overshoot and explore distance by 4/3
  (`search_overshoot_can_grow`, for every size), and this repeats as often as 3 divides `e-8`.
  Example (non-vacuity section): period 400, interval 312, explore distance 89 — well inside the
  band — reaches interval 137 < period/2 four turns later; in the closed loop that wait is poll 1317
  (`#eval (closedLoop 400 0 1318 ⟨100,1000,0,89,312,false⟩ 4324 11)[1317]?`). So no neighbourhood of
  the period is absorbing, `N` is not bounded by any function of the distance to the period, and
  there is no scale-free potential function. On these configurations the explore distance follows
  the Collatz-like map `e ↦ 4(e-2)/3` (`e ≡ 2`), `e ↦ ⌊2e/9⌋` (`e ≡ 0`), stop (`e ≡ 1 mod 3`); a
  proof for all settings has to exclude cycles of it other than `{8}` (none below 10⁹ by
  computation), which is out of reach of the methods used here.
* Executable validation (model: `settlesWithin` on random settings; implementation: the `loop`
  lines of `h_poll`) shows the waits hovering at the period with isolated excursions beyond a factor
  two as late as poll ~800 — the mechanism above. -/
def SettlesStatement : Prop :=
  ∀ (mn ini mx period phase : Int), 100 ≤ mn → mn ≤ ini → ini ≤ mx → 2 * mn ≤ period → 2 * period ≤ mx →
    0 ≤ phase → phase < period →
    ∃ N : Nat, ∀ n k : Nat, N ≤ k → k < n →
      ∀ w, (closedLoop period phase n (PState.init mn ini mx) ini 0)[k]? = some w → period ≤ 2 * w ∧ w ≤ 2 * period

/-- Proved part of the closed-loop claim: (1) the production interval is a fixed point that is held
for ever once one certificate arrives per poll; (2) several certificates per poll never lengthen
and (above the minimum) strictly shorten the interval; (3) no certificate never shortens the wait and
doubles it up to the cap; (4) the interval never leaves `[min,max]`, so it can neither collapse
below the minimum nor drift above the maximum; (5) each change of direction divides the search step
by three. Missing for `SettlesStatement`: the global argument that the alternating search converges
for every phase/period (it depends on the arrival phase relative to the poll times). The section
"Closed loop against the steady producer" below proves what can be said about that global argument
for all settings, and the doc-comment of `SettlesStatement` says why it does not close. -/
theorem settles_partial (s : PState) (h : PInv s) (hb : s.backoff = 0) :
    (∀ n, runPredictor s (List.replicate n 1) = (List.replicate n s.interval, s)) ∧
    (∀ p, 2 ≤ p → (update s p).2.interval ≤ s.interval) ∧
    (100 ≤ s.minI → s.minI < s.interval → ∀ p, 2 ≤ p → (update s p).2.interval < s.interval) ∧
    (s.interval ≤ (update s 0).2.interval ∧ (update s 0).1 = s.interval ∧
      (update s 0).2.backoff = min (2 * s.interval) (10 * s.maxI)) ∧
    (∀ p, s.minI ≤ (update s p).2.interval ∧ (update s p).2.interval ≤ s.maxI) ∧
    (∀ p, p ≠ 1 → s.wasInc = decide (p > 1) →
      (update s p).2.explore ≤ max (s.explore / 3) (s.minI / 100)) := by
  have hb' : s.backoff ≤ 0 := by omega
  refine ⟨fun n => predictor_fixpoint_forever n s hb', fun p hp => (predictor_shortens s p h hp).1,
    fun hmn hi p hp => predictor_shortens_strict s p h hb hp hmn hi, ?_, ?_, ?_⟩
  · have := predictor_backs_off s h
    have hnb : ¬ s.backoff > 0 := by omega
    simp only [hnb, ite_false] at this
    refine ⟨this.2.1, this.1, ?_⟩
    rw [this.2.2.1, this.1]
  · intro p
    have := (predictor_bounds s p h).1
    obtain ⟨_, _, h3, h4, _⟩ := this
    have hb2 := predictor_bounds s p h
    rw [hb2.2.2.2.1] at h3
    rw [hb2.2.2.2.2] at h4
    exact ⟨h3, h4⟩
  · intro p hp hdir
    exact (predictor_direction_change_contracts s p h hb hp hdir).2

/-! ## Closed loop against the steady producer: what holds for ALL settings

Notation of this section (definitions in `F3/Proofs/PollLoop.lean`): `LState` packs the loop state
between two polls (predictor, time of the next poll, certificates seen so far), `loopIter P ph k c`
is the state after `k` polls (`closed_loop_split` ties it to `closedLoop`), and
`Synced P ph s t seen` is the loop invariant: the certificates seen are those produced up to an
anchor time `t0 ≥ phase - period`, and the next poll is one interval (in back-off: one back-off)
after the anchor. -/

/-- **The producer answers truthfully.** If `p` new certificates are found after a wait `W ≥ 0` that
started not earlier than one period before the first certificate, then `p - 1 < W/P < p + 1`. Hence
nothing found ⇒ the wait was shorter than the period, two or more found ⇒ it was longer, three or
more ⇒ longer than two periods; and a wait of exactly one period always finds exactly one. -/
theorem producer_truthful (P ph t0 W : Int) (hP : 0 < P) (h0 : ph - P ≤ t0) (hW : 0 ≤ W) :
    let p := produced P ph (t0 + W) - produced P ph t0
    P * p < W + P ∧ W < P * (p + 1) ∧ 0 ≤ p ∧ (p = 0 → W < P) ∧ (2 ≤ p → P < W) ∧
    (3 ≤ p → 2 * P < W) ∧ (W = P → p = 1) := by
  intro p
  have h := produced_diff P ph t0 W hP h0 hW
  have t := truthful P ph t0 W hP h0 hW
  refine ⟨h.1, h.2, t.1, t.2.1, t.2.2.1, t.2.2.2.1, ?_⟩
  intro hw
  have a := t.2.2.2.2.2.1 (by omega)
  have b := t.2.2.2.2.2.2.1 (by omega)
  show produced P ph (t0 + W) - produced P ph t0 = 1
  omega

/-- `loopIter` is the state of `closedLoop` after `k` polls: the run splits there, and the `j`-th
wait is what `update` returns in the `j`-th state for the progress found at its poll time. -/
theorem closed_loop_split (P ph : Int) (k n : Nat) (s : PState) (t seen : Int) :
    closedLoop P ph (k + n) s t seen =
      closedLoop P ph k s t seen ++
        closedLoop P ph n (loopIter P ph k ⟨s, t, seen⟩).s (loopIter P ph k ⟨s, t, seen⟩).t
          (loopIter P ph k ⟨s, t, seen⟩).seen ∧
    ∀ j, j < k → (closedLoop P ph k s t seen)[j]? =
      some (update (loopIter P ph j ⟨s, t, seen⟩).s
        (produced P ph (loopIter P ph j ⟨s, t, seen⟩).t - (loopIter P ph j ⟨s, t, seen⟩).seen)).1 :=
  ⟨loopOf_add P ph k n ⟨s, t, seen⟩, fun j hj => loopOf_get P ph k j ⟨s, t, seen⟩ hj⟩

/-- **Loop invariant.** From a synchronised state with a sane predictor, every later state is
synchronised with a sane predictor (same `min`, `max`) — for every period `0 < P ≤ max`, phase, and
number of polls. -/
theorem closed_loop_invariant (P ph : Int) (s : PState) (t seen : Int) (k : Nat) (hP : 0 < P)
    (hI : PInv s) (hmx : P ≤ s.maxI) (hS : Synced P ph s t seen) :
    PInv (loopIter P ph k ⟨s, t, seen⟩).s ∧
    (loopIter P ph k ⟨s, t, seen⟩).s.minI = s.minI ∧ (loopIter P ph k ⟨s, t, seen⟩).s.maxI = s.maxI ∧
    Synced P ph (loopIter P ph k ⟨s, t, seen⟩).s (loopIter P ph k ⟨s, t, seen⟩).t
      (loopIter P ph k ⟨s, t, seen⟩).seen :=
  synced_iter P ph hP k ⟨s, t, seen⟩ hI hmx hS

/-- …and the run of `SettlesStatement` (fresh predictor, first poll after the initial interval,
nothing seen) is synchronised from its first poll on. -/
theorem closed_loop_invariant_from_start (mn ini mx P ph : Int) (k : Nat) (h0 : 0 < mn) (h1 : mn ≤ ini)
    (h2 : ini ≤ mx) (hP : 0 < P) (hmx : P ≤ mx) (hph0 : 0 ≤ ph) (hph : ph < P) :
    PInv (loopIter P ph (k + 1) ⟨PState.init mn ini mx, ini, 0⟩).s ∧
    (loopIter P ph (k + 1) ⟨PState.init mn ini mx, ini, 0⟩).s.minI = mn ∧
    (loopIter P ph (k + 1) ⟨PState.init mn ini mx, ini, 0⟩).s.maxI = mx ∧
    Synced P ph (loopIter P ph (k + 1) ⟨PState.init mn ini mx, ini, 0⟩).s
      (loopIter P ph (k + 1) ⟨PState.init mn ini mx, ini, 0⟩).t
      (loopIter P ph (k + 1) ⟨PState.init mn ini mx, ini, 0⟩).seen :=
  start_iter mn ini mx P ph h0 h1 h2 hP hmx hph0 hph k

/-- **Every wait is the predicted interval or shorter than the period.** In a synchronised state the
progress found is never negative, and the wait returned is either the (new) interval or — after a
poll without progress — the old interval / the back-off, which then is shorter than the production
period: the doubling back-off never sleeps through a whole period. -/
theorem closed_loop_wait_bound (P ph : Int) (s : PState) (t seen : Int) (hP : 0 < P) (hI : PInv s)
    (hmx : P ≤ s.maxI) (hS : Synced P ph s t seen) :
    0 ≤ produced P ph t - seen ∧ s.minI ≤ (update s (produced P ph t - seen)).1 ∧
    ((update s (produced P ph t - seen)).1 = (update s (produced P ph t - seen)).2.interval ∨
     ((update s (produced P ph t - seen)).1 < P ∧ produced P ph t - seen = 0)) := by
  have h := synced_step P ph ⟨s, t, seen⟩ hP hI hmx hS
  exact ⟨h.1, (predictor_bounds s _ hI).2.1, h.2.2.2.2.2⟩

/-- **Every adjustment moves the interval toward the production period, and overshoots it by less
than the new explore distance.** Synchronised state outside back-off, `p` the progress the poll
finds. Interval below the period: `p ∈ {0,1}`, the interval does not shrink and ends below
`P + explore'`. Interval above the period: `p ≥ 1`, the interval does not grow and (for
`interval ≤ 2P`) ends above `P - explore'`. Interval equal to the period: `p = 1`. -/
theorem closed_loop_moves_toward_period (P ph : Int) (s : PState) (t seen : Int) (hP : 0 < P)
    (hI : PInv s) (hS : Synced P ph s t seen) (hb : s.backoff = 0) :
    let p := produced P ph t - seen
    (s.interval < P → (p = 0 ∨ p = 1) ∧ s.interval ≤ (update s p).2.interval ∧
      (update s p).2.interval < P + (update s p).2.explore) ∧
    (P < s.interval → 1 ≤ p ∧ (update s p).2.interval ≤ s.interval ∧
      (s.interval ≤ 2 * P → P < (update s p).2.interval + (update s p).2.explore)) ∧
    (s.interval = P → p = 1 ∧ update s p = (P, s)) := by
  intro p
  have h := step_toward P ph ⟨s, t, seen⟩ hP hI hS hb
  refine ⟨h.1, h.2.1, ?_⟩
  intro hi
  have hp : p = 1 := h.2.2 hi
  refine ⟨hp, ?_⟩
  rw [hp, predictor_fixpoint s (by omega), hi]

/-- **The production period is held for ever once it is hit**: from a synchronised state outside
back-off whose interval equals the period, every wait of the closed loop is the period. -/
theorem closed_loop_holds_period (P ph : Int) (s : PState) (t seen : Int) (n : Nat) (hP : 0 < P)
    (hI : PInv s) (hS : Synced P ph s t seen) (hb : s.backoff = 0) (hi : s.interval = P) :
    closedLoop P ph n s t seen = List.replicate n P :=
  hold_period P ph hP n ⟨s, t, seen⟩ hI hS hb hi

/-- **No collapse.** Synchronised state outside back-off with the interval BELOW the period (for
instance at `min`): after `k` polls that each find one certificate — `k·(P - interval) < P`, so
`k ≤ 1` when the interval is at most half the period — a poll finds nothing. All these `k+1` waits
equal the interval; then the interval strictly grows, by the new explore distance (capped at `max`),
which is a third of the old one after a turn and doubles with every further poll without progress
(between `min/100` and `max/2`); the loop continues from `(update s 0).2`. -/
theorem no_collapse (P ph : Int) (s : PState) (t seen : Int) (hP : 0 < P) (hI : PInv s)
    (hmn : 100 ≤ s.minI) (hmx : P ≤ s.maxI) (hS : Synced P ph s t seen) (hb : s.backoff = 0)
    (hi : s.interval < P) :
    s.interval < (update s 0).2.interval ∧
    (update s 0).2.interval = min (s.interval + (update s 0).2.explore) s.maxI ∧
    (update s 0).2.explore =
      max (s.minI / 100) (min (if s.wasInc then s.explore * 2 else s.explore / 3) (s.maxI / 2)) ∧
    ∃ k : Nat, (k : Int) * (P - s.interval) < P ∧ (2 * s.interval ≤ P → k ≤ 1) ∧
      ∀ n, closedLoop P ph (k + 1 + n) s t seen =
        List.replicate (k + 1) s.interval ++
          closedLoop P ph n (update s 0).2 (t + ((k : Int) + 1) * s.interval) (seen + k) := by
  obtain ⟨hmn0, hmm, hi1, hi2, he1, he2, _⟩ := id hI
  obtain ⟨t0, h0, hlt, hseen, hb0, _⟩ := hS
  have ht := hb0 hb
  have hz := update_zero s hb (by omega)
  have hE := upE_bounds s hI
  have hE1 := upE_pos s hI hmn
  refine ⟨?_, ?_, ?_, ?_⟩
  · rw [hz]; exact clampI_gt _ _ _ _ (by omega) (by omega)
  · rw [hz]; simp only; rw [clampI_eq _ _ _ hmm]; omega
  · rw [hz]; exact upE_eq s hI
  · have hanchor : t - s.interval = t0 := by omega
    have hg := gap_bounds P ph t0 hP h0
    have hm : s.interval - gap P ph (t - s.interval) <
        ((s.interval.toNat + 1 : Nat) : Int) * (P - s.interval) := by
      rw [hanchor]
      have e : ((s.interval.toNat + 1 : Nat) : Int) = s.interval + 1 := by
        rw [Int.natCast_succ, Int.toNat_of_nonneg (by omega)]
      rw [e]
      have : (s.interval + 1) * 1 ≤ (s.interval + 1) * (P - s.interval) :=
        Int.mul_le_mul_of_nonneg_left (by omega) (by omega)
      omega
    obtain ⟨k, hk, _, hrun⟩ := live_up P ph hP (s.interval.toNat + 1) ⟨s, t, seen⟩ hI hb hi
      (by simp only; omega) (by simp only; rw [hanchor]; exact hseen) hm
    simp only at hk hrun
    rw [hanchor] at hk
    refine ⟨k, by omega, ?_, hrun⟩
    intro h2
    apply Int.ofNat_le.mp
    apply Int.not_lt.mp
    intro hc
    have : (2 : Int) * (P - s.interval) ≤ (k : Int) * (P - s.interval) :=
      Int.mul_le_mul_of_nonneg_right (by omega) (by omega)
    omega

/-- **No drift.** Synchronised state outside back-off with the interval ABOVE the period (for
instance at `max`): after `k` polls that each find one certificate — `k·(interval - P) < P`, and
`k = 0` when the interval is at least two periods — a poll finds `p ≥ 2` certificates. The first `k`
waits equal the interval; then the interval strictly shrinks, the predictor stays outside back-off,
the next wait is the new interval, and the loop continues from `(update s p).2`. -/
theorem no_drift (P ph : Int) (s : PState) (t seen : Int) (hP : 0 < P) (hI : PInv s)
    (hmn : 100 ≤ s.minI) (hmnP : s.minI ≤ P) (hS : Synced P ph s t seen) (hb : s.backoff = 0)
    (hi : P < s.interval) :
    ∃ (k : Nat) (p : Int), (k : Int) * (s.interval - P) < P ∧ (2 * P ≤ s.interval → k = 0) ∧ 2 ≤ p ∧
      (update s p).2.interval < s.interval ∧ (update s p).1 = (update s p).2.interval ∧
      (update s p).2.backoff = 0 ∧
      ∀ n, closedLoop P ph (k + 1 + n) s t seen =
        List.replicate k s.interval ++ ((update s p).1 ::
          closedLoop P ph n (update s p).2 (t + (k : Int) * s.interval + (update s p).1) (seen + k + p)) := by
  obtain ⟨t0, h0, hlt, hseen, hb0, _⟩ := hS
  have ht := hb0 hb
  have hanchor : t - s.interval = t0 := by omega
  have hg := gap_bounds P ph t0 hP h0
  have hm : gap P ph (t - s.interval) ≤ ((P.toNat : Nat) : Int) * (s.interval - P) := by
    rw [hanchor, Int.toNat_of_nonneg (by omega)]
    have : P * 1 ≤ P * (s.interval - P) := Int.mul_le_mul_of_nonneg_left (by omega) (by omega)
    omega
  obtain ⟨k, p, hk, hp, _, hrun⟩ := live_dn P ph hP P.toNat ⟨s, t, seen⟩ hI hb hi
    (by simp only; omega) (by simp only; rw [hanchor]; exact hseen) hm
  simp only at hk hrun
  rw [hanchor] at hk
  have hg2 := update_ge_two s p hI hb hp
  refine ⟨k, p, by omega, ?_, hp, hg2.2.2.2.2 hmn (by omega), hg2.1, hg2.2.2.1, hrun⟩
  intro h2
  apply Int.ofNat_inj.mp
  apply Int.le_antisymm _ (Int.natCast_nonneg k)
  apply Int.not_lt.mp
  intro hc
  have : (1 : Int) * (s.interval - P) ≤ (k : Int) * (s.interval - P) :=
    Int.mul_le_mul_of_nonneg_right (by omega) (by omega)
  omega

/-- **The interval always comes back to the period.** From every synchronised state (in back-off or
not) there is a later poll with interval ≥ period and a later poll with interval ≤ period: it cannot
stay below the period (let alone at `min`) and cannot stay above it (let alone at `max`). -/
theorem interval_returns_to_period (P ph : Int) (s : PState) (t seen : Int) (hP : 0 < P) (hI : PInv s)
    (hmn : 100 ≤ s.minI) (hmnP : s.minI ≤ P) (hmx : P ≤ s.maxI) (hS : Synced P ph s t seen) :
    (∃ K : Nat, P ≤ (loopIter P ph K ⟨s, t, seen⟩).s.interval) ∧
    (∃ K : Nat, (loopIter P ph K ⟨s, t, seen⟩).s.interval ≤ P) :=
  straddle P ph hP ⟨s, t, seen⟩ hI hmn hmnP hmx hS

/-- **The cadence neither collapses nor drifts — for all settings of `SettlesStatement`.** Along the
run from a fresh predictor, after every poll `n` there is a later poll at which the predicted
interval is ≥ period and a later poll at which it is ≤ period: `lim inf interval ≤ period ≤
lim sup interval`. (Together with `closed_loop_moves_toward_period`: the interval crosses the period
again and again, each time overshooting by less than the explore distance, or hits it and stays.) -/
theorem cadence_straddles_period (mn ini mx period phase : Int) (n : Nat) (hmn : 100 ≤ mn) (h1 : mn ≤ ini)
    (h2 : ini ≤ mx) (hp1 : 2 * mn ≤ period) (hp2 : 2 * period ≤ mx) (hph0 : 0 ≤ phase)
    (hph : phase < period) :
    (∃ K : Nat, n ≤ K ∧ period ≤ (loopIter period phase K ⟨PState.init mn ini mx, ini, 0⟩).s.interval) ∧
    (∃ K : Nat, n ≤ K ∧ (loopIter period phase K ⟨PState.init mn ini mx, ini, 0⟩).s.interval ≤ period) := by
  have hP : 0 < period := by omega
  have hinv := start_iter mn ini mx period phase (by omega) h1 h2 hP (by omega) hph0 hph n
  simp only [start] at hinv
  have h := straddle period phase hP (loopIter period phase (n + 1) ⟨PState.init mn ini mx, ini, 0⟩)
    hinv.1 (by rw [hinv.2.1]; exact hmn) (by rw [hinv.2.1]; omega) (by rw [hinv.2.2.1]; omega) hinv.2.2.2
  obtain ⟨⟨K1, h1'⟩, ⟨K2, h2'⟩⟩ := h
  refine ⟨⟨n + 1 + K1, by omega, ?_⟩, ⟨n + 1 + K2, by omega, ?_⟩⟩
  · rw [loopIter_add]; exact h1'
  · rw [loopIter_add]; exact h2'

/-- **Near the period the band is absorbing — unless an exceptional configuration occurs.**
`Near P s`: just after crossing the period the overshoot is below the explore distance `e ≤ P/2`; on
the way back the remaining distance is at most `2e ≤ P/2`. `Exceptional P s`: `e ≡ 2 (mod 3)` and the
interval exactly `e - 1` beyond the period on the side of the last move (the configuration of
`search_overshoot_can_grow`). From a synchronised `Near` state, as long as no state of the run is
exceptional, the run stays `Near` and every wait lies in `[P/2, 3P/2]`. -/
theorem band_absorbing_unless_exceptional (P ph : Int) (s : PState) (t seen : Int) (n : Nat) (hP : 0 < P)
    (hI : PInv s) (hmnP : 2 * s.minI ≤ P) (hmxP : 2 * P ≤ s.maxI) (hS : Synced P ph s t seen)
    (hN : Near P s) (hne : ∀ j, j < n → ¬ Exceptional P (loopIter P ph j ⟨s, t, seen⟩).s) :
    Near P (loopIter P ph n ⟨s, t, seen⟩).s ∧
    ∀ w ∈ closedLoop P ph n s t seen, P ≤ 2 * w ∧ 2 * w ≤ 3 * P :=
  near_iter P ph hP n ⟨s, t, seen⟩ hI hmnP hmxP hS hN hne

/-- **`SettlesStatement` holds for every run that gets near the period and meets no exceptional
configuration afterwards**: the conclusion of `SettlesStatement` with `N = k + 1`. -/
theorem settles_unless_exceptional (mn ini mx period phase : Int) (k : Nat) (hmn : 100 ≤ mn)
    (h1 : mn ≤ ini) (h2 : ini ≤ mx) (hp1 : 2 * mn ≤ period) (hp2 : 2 * period ≤ mx) (hph0 : 0 ≤ phase)
    (hph : phase < period)
    (hN : Near period (loopIter period phase (k + 1) ⟨PState.init mn ini mx, ini, 0⟩).s)
    (hne : ∀ j, k + 1 ≤ j →
      ¬ Exceptional period (loopIter period phase j ⟨PState.init mn ini mx, ini, 0⟩).s) :
    ∀ n j : Nat, k + 1 ≤ j → j < n → ∀ w,
      (closedLoop period phase n (PState.init mn ini mx) ini 0)[j]? = some w →
      period ≤ 2 * w ∧ w ≤ 2 * period := by
  intro n j hj hn w hw
  have hP : 0 < period := by omega
  have hinv := start_iter mn ini mx period phase (by omega) h1 h2 hP (by omega) hph0 hph k
  simp only [start] at hinv
  have hsplit := loopOf_add period phase (k + 1) (n - (k + 1)) ⟨PState.init mn ini mx, ini, 0⟩
  have hn' : k + 1 + (n - (k + 1)) = n := by omega
  rw [hn'] at hsplit
  have hnear := near_iter period phase hP (n - (k + 1))
    (loopIter period phase (k + 1) ⟨PState.init mn ini mx, ini, 0⟩) hinv.1
    (by rw [hinv.2.1]; exact hp1) (by rw [hinv.2.2.1]; exact hp2) hinv.2.2.2 hN
    (fun j' _ => by rw [← loopIter_add]; exact hne (k + 1 + j') (by omega))
  have hw' : (loopOf period phase n ⟨PState.init mn ini mx, ini, 0⟩)[j]? = some w := hw
  rw [hsplit, List.getElem?_append_right (by rw [loopOf_length]; exact hj), loopOf_length] at hw'
  have hmem := List.mem_of_getElem? hw'
  have := hnear.2 w hmem
  omega

/-- **`SettlesStatement` holds for every run that hits the period**: if after some `k ≥ 1` polls the
predictor is outside back-off with interval equal to the period, every later wait IS the period. (Of
random small settings two runs in three end this way; the others end in cycles within a few
explore-distance floors `min/100` of the period.) -/
theorem settles_if_period_hit (mn ini mx period phase : Int) (k : Nat) (hmn : 100 ≤ mn) (h1 : mn ≤ ini)
    (h2 : ini ≤ mx) (hp1 : 2 * mn ≤ period) (hp2 : 2 * period ≤ mx) (hph0 : 0 ≤ phase)
    (hph : phase < period)
    (hb : (loopIter period phase (k + 1) ⟨PState.init mn ini mx, ini, 0⟩).s.backoff = 0)
    (hhit : (loopIter period phase (k + 1) ⟨PState.init mn ini mx, ini, 0⟩).s.interval = period) :
    ∀ n j : Nat, k + 1 ≤ j → j < n →
      (closedLoop period phase n (PState.init mn ini mx) ini 0)[j]? = some period := by
  intro n j hj hn
  have hP : 0 < period := by omega
  have hinv := start_iter mn ini mx period phase (by omega) h1 h2 hP (by omega) hph0 hph k
  have hsplit := loopOf_add period phase (k + 1) (n - (k + 1)) ⟨PState.init mn ini mx, ini, 0⟩
  have hn' : k + 1 + (n - (k + 1)) = n := by omega
  rw [hn'] at hsplit
  have hhold := hold_period period phase hP (n - (k + 1))
    (loopIter period phase (k + 1) ⟨PState.init mn ini mx, ini, 0⟩) hinv.1 hinv.2.2.2 hb hhit
  show (loopOf period phase n ⟨PState.init mn ini mx, ini, 0⟩)[j]? = some period
  rw [hsplit, hhold, List.getElem?_append_right (by rw [loopOf_length]; exact hj), loopOf_length,
    List.getElem?_replicate]
  have : j - (k + 1) < n - (k + 1) := by omega
  simp [this]

/-- **A normal change of direction contracts the search.** The last adjustment overshot the period
by less than the explore distance `e` (which `closed_loop_moves_toward_period` guarantees). Unless
the overshoot is exactly `e - 1` with `e ≡ 2 (mod 3)`, at most two adjustments in the new direction
bring the interval back across the period, and the explore distance is then at most
`2·max(e/3, min/100)`. Upwards (`zeroEvent` = poll without progress followed by the poll that leaves
back-off, see `search_overshoot_can_grow`) and downwards (polls with progress 2). -/
theorem search_turn_contracts (s : PState) (P : Int) (hI : PInv s) (hb : s.backoff = 0)
    (hmnP : s.minI ≤ P) (hmxP : P ≤ s.maxI)
    (hne : ¬ ((P - s.interval = s.explore - 1 ∨ s.interval - P = s.explore - 1) ∧ s.explore % 3 = 2)) :
    (s.wasInc = false → s.interval < P → P - s.interval < s.explore →
      (P ≤ (zeroEvent s).interval ∧ (zeroEvent s).explore = max (s.minI / 100) (s.explore / 3)) ∨
      ((zeroEvent s).interval < P ∧ P ≤ (zeroEvent (zeroEvent s)).interval ∧
        (zeroEvent (zeroEvent s)).explore ≤ 2 * max (s.minI / 100) (s.explore / 3))) ∧
    (s.wasInc = true → P < s.interval → s.interval - P < s.explore →
      ((update s 2).2.interval ≤ P ∧ (update s 2).2.explore = max (s.minI / 100) (s.explore / 3)) ∨
      (P < (update s 2).2.interval ∧ (update (update s 2).2 2).2.interval ≤ P ∧
        (update (update s 2).2 2).2.explore ≤ 2 * max (s.minI / 100) (s.explore / 3))) :=
  ⟨fun hw hi hov => turn_up s P hI hw hi hmxP hov (fun h => hne ⟨Or.inl h.1, h.2⟩),
   fun hw hi hov => turn_dn s P hI hb hw hi hmnP hov (fun h => hne ⟨Or.inr h.1, h.2⟩)⟩

/-- **…but the search is not a contraction: the exceptional change of direction.** For EVERY `u ≥ 1`
(at least the floor `min/100`, `4u ≤ max/2`, intervals inside `[min,max]`): explore distance `3u+2`,
overshoot `3u+1`. Upwards, three polls without progress — each followed by the poll that leaves
back-off; after the second the interval is still 1 short of the period — move the interval by
`u, 2u, 4u` and leave it `4u-1` ABOVE the period with explore distance `4u`. Downwards, three polls
with progress 2 do the mirror image. Overshoot and explore distance grow by a factor ≈ 4/3, and the
result `(overshoot 4u-1, explore 4u)` is again exceptional whenever `4u ≡ 2 (mod 3)`. Every progress
value in these runs is the one the closed loop produces (`no_collapse`, `no_drift`). This is why no
scale-free potential function exists for `SettlesStatement`. -/
theorem search_overshoot_can_grow (s : PState) (P u : Int) (hu : 1 ≤ u) (h0 : 0 < s.minI)
    (hf : s.minI / 100 ≤ u) (hc : 4 * u ≤ s.maxI / 2) (hb : s.backoff = 0) (he : s.explore = 3 * u + 2) :
    (s.wasInc = false → s.interval = P - (3 * u + 1) → s.minI ≤ P - (3 * u + 1) →
      P + (4 * u - 1) ≤ s.maxI →
      runPredictor s [0, 1, 0, 1, 0, 1] =
        ([P - (3 * u + 1), P - (2 * u + 1), P - (2 * u + 1), P - 1, P - 1, P + (4 * u - 1)],
         { s with explore := 4 * u, interval := P + (4 * u - 1), wasInc := true })) ∧
    (s.wasInc = true → s.interval = P + (3 * u + 1) → s.minI ≤ P - (4 * u - 1) →
      P + (3 * u + 1) ≤ s.maxI →
      runPredictor s [2, 2, 2] =
        ([P + (2 * u + 1), P + 1, P - (4 * u - 1)],
         { s with explore := 4 * u, interval := P - (4 * u - 1), wasInc := false })) := by
  have hmx : 0 ≤ s.maxI := by omega
  have hf' : Int.tdiv s.minI 100 ≤ u := by rw [Int.tdiv_eq_ediv_of_nonneg (by omega)]; exact hf
  have hc' : 4 * u ≤ Int.tdiv s.maxI 2 := by rw [Int.tdiv_eq_ediv_of_nonneg hmx]; exact hc
  exact ⟨fun hw hi hlo hhi => grow_up s P u hu hf' hc' h0 hlo hhi hb hw he hi,
    fun hw hi hlo hhi => grow_dn s P u hu hf' hc' h0 hlo hhi hb hw he hi⟩

/-! ## Non-vacuity -/

/-- a concrete state meeting `PInv` (the defaults of the repository's test: 1 s / 30 s / 120 s) -/
example : PInv (PState.init 1000000000 30000000000 120000000000) := by decide

/-- the scenario of `TestPredictor`: two polls with progress 1, then two without progress -/
example : (runPredictor (PState.init 1000 30000 120000) [1, 1, 0, 0, 1, 2]).1 =
    [30000, 30000, 30000, 60000, 35000, 33334] := by decide

/-- a stall: waits double and saturate at `10·max` -/
example : (runPredictor (PState.init 1000 30000 120000) (List.replicate 8 0)).1 =
    [30000, 60000, 120000, 240000, 480000, 960000, 1200000, 1200000] := by decide

/-- progress that wraps to a negative duration still never lengthens (interval clamps to the minimum) -/
example : (update (PState.init 1000 30000 120000) (2 ^ 64 - 1)).2.interval = 1000 := by decide

/-- the delay rule is not vacuous: a request time below half the interval is added in full, a larger
one is capped -/
example : subscriberDelay 1000 200 = 1200 ∧ subscriberDelay 1000 900 = 1500 := by decide

/-- a loop iteration that polled, advanced from 5 to 7 by local progress only (no new certificate
from peers) and took 40 time units: progress 2, offset 40 -/
example : let r := round (PState.init 1000 3000 120000)
            { pollTime := 100000, next0 := 5, store0 := 5, next1 := 7, newCert := false, now := 100040 }
    r.progress = 2 ∧ r.offset = 40 ∧ r.polled = true ∧ r.delay = r.remaining + 40 := by decide

/-- the model closed loop against a steady producer (period 1000, first certificate at 300, settings
100/3000/100000): after a short search the waits sit just below the period and stay there -/
example : (closedLoop 1000 300 30 (PState.init 100 3000 100000) 3000 0).drop 5 = List.replicate 25 998 := by
  decide

/-! ### closed loop -/

/-- `producer_truthful` is not vacuous: waits of 1.7 and 2.9 periods starting at 2500 (first
certificate at 300, period 1000) find 1 and 3 certificates -/
example : (300 : Int) - 1000 ≤ 2500 ∧
    produced 1000 300 (2500 + 1700) - produced 1000 300 2500 = 1 ∧
    produced 1000 300 (2500 + 2900) - produced 1000 300 2500 = 3 := by decide

/-- the start state of `SettlesStatement` is synchronised when the first certificate is not at time 0
(anchor 0) — and it sits at three periods, so `no_drift` applies: the first poll finds 3 -/
example : PInv (PState.init 100 3000 100000) ∧ Synced 1000 300 (PState.init 100 3000 100000) 3000 0 ∧
    (1000 : Int) < (PState.init 100 3000 100000).interval ∧
    closedLoop 1000 300 3 (PState.init 100 3000 100000) 3000 0 = [500, 500, 500] :=
  ⟨by decide, ⟨0, by decide, by decide, by decide, by decide, by decide⟩, by decide, by decide⟩

/-- `closed_loop_holds_period`: a synchronised state (anchor 4300) whose interval is the period -/
example : PInv ⟨100, 100000, 0, 1, 1000, false⟩ ∧ Synced 1000 300 ⟨100, 100000, 0, 1, 1000, false⟩ 5300 5 ∧
    closedLoop 1000 300 6 ⟨100, 100000, 0, 1, 1000, false⟩ 5300 5 = List.replicate 6 1000 :=
  ⟨by decide, ⟨4300, by decide, by decide, by decide, by decide, by decide⟩, by decide⟩

/-- `no_collapse`: interval 998 below the period 1000, anchored 10 after a certificate: five polls
find one certificate each (`5·2 < 1000`), the sixth finds none, all six wait 998; the interval then
grows by the doubled explore distance 60 -/
example : PInv ⟨100, 100000, 0, 30, 998, true⟩ ∧ Synced 1000 300 ⟨100, 100000, 0, 30, 998, true⟩ 5308 5 ∧
    closedLoop 1000 300 8 ⟨100, 100000, 0, 30, 998, true⟩ 5308 5 =
      [998, 998, 998, 998, 998, 998, 1058, 1038] ∧
    (update ⟨100, 100000, 0, 30, 998, true⟩ 0).2 = ⟨100, 100000, 1996, 60, 1058, true⟩ :=
  ⟨by decide, ⟨4310, by decide, by decide, by decide, by decide, by decide⟩, by decide, by decide⟩

/-- `settles_if_period_hit`: settings 100/103/1600 (start almost at the minimum), period 400, first
certificate at 398: the search 103 → 120 → 154 → 222 → 358 → 630 → 540 → 360 → 420 → 400 recovers
from the minimum and hits the period at poll 21, outside back-off; from then on every wait is 400 -/
example : (loopIter 400 398 21 ⟨PState.init 100 103 1600, 103, 0⟩).s = ⟨100, 1600, 0, 20, 400, false⟩ ∧
    closedLoop 400 398 24 (PState.init 100 103 1600) 103 0 =
      [103, 206, 120, 120, 240, 154, 154, 222, 222, 358, 358, 358, 630, 540, 540, 360, 360, 420, 420, 420,
       400, 400, 400, 400] := by
  constructor
  · decide +kernel
  · decide

/-- `search_turn_contracts`: explore distance 90, interval 50 below the period after a downward move:
two polls without progress (steps 30, 60) bring it above, explore distance 60 = 2·(90/3) -/
example : PInv ⟨100, 100000, 0, 90, 950, false⟩ ∧
    zeroEvent ⟨100, 100000, 0, 90, 950, false⟩ = ⟨100, 100000, 0, 30, 980, true⟩ ∧
    zeroEvent (zeroEvent ⟨100, 100000, 0, 90, 950, false⟩) = ⟨100, 100000, 0, 60, 1040, true⟩ := by decide

/-- `band_absorbing_unless_exceptional`: the synchronised state of the `no_collapse` example (interval 2
short of the period 1000, explore distance 30, moving up) is `Near`, and none of the next 8 states is
exceptional; the waits 998 … 1058, 1038 are indeed within [500, 1500] -/
example : Near 1000 ⟨100, 100000, 0, 30, 998, true⟩ ∧
    (∀ j, j < 8 → ¬ Exceptional 1000 (loopIter 1000 300 j ⟨⟨100, 100000, 0, 30, 998, true⟩, 5308, 5⟩).s) := by
  refine ⟨by decide, by decide +kernel⟩

/-- `settles_unless_exceptional`: the run 100/103/1600 (period 400, first certificate at 398) is `Near`
after 18 polls (interval 420, explore distance 60) and after 21 polls (interval = period), and from
poll 21 on no state is exceptional — the predictor no longer moves (`closed_loop_holds_period`), and
a state whose interval is the period is exceptional only for explore distance 1 -/
example : (loopIter 400 398 18 ⟨PState.init 100 103 1600, 103, 0⟩).s = ⟨100, 1600, 0, 60, 420, true⟩ ∧
    Near 400 ⟨100, 1600, 0, 60, 420, true⟩ ∧
    Near 400 (loopIter 400 398 21 ⟨PState.init 100 103 1600, 103, 0⟩).s ∧
    (∀ j, 21 ≤ j → ¬ Exceptional 400 (loopIter 400 398 j ⟨PState.init 100 103 1600, 103, 0⟩).s) := by
  have h21 : (loopIter 400 398 21 ⟨PState.init 100 103 1600, 103, 0⟩).s = ⟨100, 1600, 0, 20, 400, false⟩ := by
    decide +kernel
  refine ⟨by decide +kernel, by decide, by rw [h21]; decide, ?_⟩
  intro j hj
  have hinv := start_iter 100 103 1600 400 398 (by decide) (by decide) (by decide) (by decide) (by decide)
    (by decide) (by decide) 20
  simp only [start] at hinv
  have hst := hold_period_state 400 398 (by decide) (j - 21)
    (loopIter 400 398 21 ⟨PState.init 100 103 1600, 103, 0⟩) hinv.1 hinv.2.2.2 (by rw [h21]) (by rw [h21])
  have hj' : j = 21 + (j - 21) := by omega
  rw [hj', loopIter_add, hst, h21]
  decide

/-- `search_overshoot_can_grow` with `u = 29`, period 400, settings 100/·/1000 — and the chain it
starts: explore distance 89 → 116 → 152 → 200 → 264, overshoot 88 → 115 → 151 → 199 → 263; the
interval leaves the band [200, 800] four turns after sitting at 312 -/
example : runPredictor ⟨100, 1000, 0, 89, 312, false⟩
      [0, 1, 0, 1, 0, 1, 2, 2, 2, 0, 1, 0, 1, 0, 1, 2, 2, 2] =
    ([312, 341, 341, 399, 399, 515, 477, 401, 249, 249, 299, 299, 399, 399, 599, 533, 401, 137],
     ⟨100, 1000, 0, 264, 137, false⟩) := by decide

end F3.Props.C20

namespace F3.Props.C20
section Skeletons

/-- **The Go functions this property's models mirror still have the statement structure the models were written
against**: each regenerated skeleton (pre-order list of statement kinds, `tools/go2lean/skel.go`) equals the pinned
expectation of `F3/Proofs/SkelTie*.lean`. An added early return, cap, loop or dropped branch in one of these functions
breaks this obligation even when no regenerated *expression* changes. -/
theorem code_structure_as_modelled :
    F3.Gen.SkelPoll.skelSubscriberPoll = F3.SkelTie.SkelPoll.skelSubscriberPollExpected ∧
    F3.Gen.SkelPoll.skelCatchUp = F3.SkelTie.SkelPoll.skelCatchUpExpected ∧
    F3.Gen.SkelPoll.skelPredictorUpdate = F3.SkelTie.SkelPoll.skelPredictorUpdateExpected ∧
    F3.Gen.SkelCertX.skelClientRequest = F3.SkelTie.SkelCertX.skelClientRequestExpected ∧
    F3.Gen.SkelCertX.skelPollerPoll = F3.SkelTie.SkelCertX.skelPollerPollExpected ∧
    F3.Gen.SkelCertX.skelNewPoller = F3.SkelTie.SkelCertX.skelNewPollerExpected :=
  ⟨F3.SkelTie.SkelPoll.skelSubscriberPoll_expected, F3.SkelTie.SkelPoll.skelCatchUp_expected, F3.SkelTie.SkelPoll.skelPredictorUpdate_expected, F3.SkelTie.SkelCertX.skelClientRequest_expected, F3.SkelTie.SkelCertX.skelPollerPoll_expected, F3.SkelTie.SkelCertX.skelNewPoller_expected⟩

end Skeletons
end F3.Props.C20
