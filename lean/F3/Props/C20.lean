import F3.Gen.Core
import F3.Model.Poll
import F3.Spec.Poll
import F3.Proofs.Poll
/-!
# C20 — certificate polling adapts its cadence to certificate production

`F3.Gen.predictorUpdate` (`predictor.update`) and `F3.Gen.subscriberDelay` (the `delay += …` line of
`Subscriber.run`) are regenerated from `/repo/certexchange/polling` on every run; the theorems below
are about those definitions (directly, or through `F3.Poll.update`/`F3.Poll.round`, which only
repackage them). The glue of one loop iteration and the value returned by `poll` are the hand model
`F3.Poll`, tied to the code by the `h_poll` correspondence.
-/
namespace F3.Props.C20
open F3.Gen F3.GoInt F3.Poll F3.Spec.Poll F3.Proofs.Poll

set_option linter.unusedSimpArgs false
set_option linter.unusedVariables false

/-! ## The regenerated predictor is the specified predictor -/

/-- `predictor.update`, as regenerated from source, computes exactly `predictorSpec`
(direction logic, clamps, back-off) — for all integers, no side condition. -/
theorem predictor_matches_spec (p b e i mx mn : Int) (w : Bool) :
    predictorUpdate p b e i mx mn w = predictorSpec p b e i mx mn w := by
  unfold predictorUpdate predictorSpec explore1 clampE clampI fin
  have hp : p < 0 ∨ p = 0 ∨ p = 1 ∨ p = 2 ∨ p ≥ 3 := by omega
  rcases hp with hp | hp | hp | hp | hp
  · have h0 : ¬ p > 0 := by omega
    have h1 : ¬ p = 1 := by omega
    have h2 : ¬ p = 0 := by omega
    have h3 : p ≤ 2 := by omega
    have h4 : ¬ p > 1 := by omega
    cases w <;> by_cases hb : b > 0 <;>
      simp [h0, h1, h2, h3, h4, hb, apply_ite Prod.fst, apply_ite Prod.snd]
  · have h0 : ¬ p > 0 := by omega
    have h1 : ¬ p = 1 := by omega
    have h2 : p = 0 := by omega
    have h3 : p ≤ 2 := by omega
    have h4 : ¬ p > 1 := by omega
    cases w <;> by_cases hb : b > 0 <;>
      simp [h0, h1, h2, h3, h4, hb, apply_ite Prod.fst, apply_ite Prod.snd]
  · have h0 : p > 0 := by omega
    have h1 : p = 1 := by omega
    have h2 : ¬ p = 0 := by omega
    have h3 : p ≤ 2 := by omega
    have h4 : ¬ p > 1 := by omega
    cases w <;> by_cases hb : b > 0 <;>
      simp [h0, h1, h2, h3, h4, hb, apply_ite Prod.fst, apply_ite Prod.snd]
  · have h0 : p > 0 := by omega
    have h1 : ¬ p = 1 := by omega
    have h2 : ¬ p = 0 := by omega
    have h3 : p ≤ 2 := by omega
    have h4 : p > 1 := by omega
    cases w <;> by_cases hb : b > 0 <;>
      simp [h0, h1, h2, h3, h4, hb, apply_ite Prod.fst, apply_ite Prod.snd]
  · have h0 : p > 0 := by omega
    have h1 : ¬ p = 1 := by omega
    have h2 : ¬ p = 0 := by omega
    have h3 : ¬ p ≤ 2 := by omega
    have h4 : p > 1 := by omega
    cases w <;> by_cases hb : b > 0 <;>
      simp [h0, h1, h2, h3, h4, hb, apply_ite Prod.fst, apply_ite Prod.snd]

private theorem inv_iff (s : PState) : PInv s ↔ InvC s.minI s.maxI s.backoff s.explore s.interval := Iff.rfl

private theorem update_eq (s : PState) (p : Int) :
    update s p =
      ((predictorSpec p s.backoff s.explore s.interval s.maxI s.minI s.wasInc).1,
       { s with backoff := (predictorSpec p s.backoff s.explore s.interval s.maxI s.minI s.wasInc).2.1,
                explore := (predictorSpec p s.backoff s.explore s.interval s.maxI s.minI s.wasInc).2.2.1,
                interval := (predictorSpec p s.backoff s.explore s.interval s.maxI s.minI s.wasInc).2.2.2.1,
                wasInc := (predictorSpec p s.backoff s.explore s.interval s.maxI s.minI s.wasInc).2.2.2.2 }) := by
  unfold update
  rw [predictor_matches_spec]

/-! ## Progress = store advance (hand model of `poll`'s return value and of the loop glue) -/

/-- `poll` reports exactly the number of instances by which the subscriber's position advanced
(no wrap), for every start and end position in the uint64 range. -/
theorem progress_eq_store_advance (start next' : Int) (h0 : 0 ≤ start) (h1 : start ≤ next')
    (h2 : next' < 2 ^ 64) : pollProgress start next' = next' - start := by
  unfold pollProgress u64
  exact Int.emod_eq_of_lt (by omega) (by omega)

/-- …and so does one whole loop iteration: whether it caught up from the local store or polled the
network, the value fed to the predictor is (position after) − (position before). -/
theorem round_progress_eq_advance (s : PState) (i : RoundIn) (h0 : 0 ≤ i.next0)
    (hs : i.next0 ≤ i.store0) (hs2 : i.store0 < 2 ^ 64) (hn : i.next0 ≤ i.next1) (hn2 : i.next1 < 2 ^ 64) :
    (round s i).progress = (if i.store0 = i.next0 then i.next1 else i.store0) - i.next0 := by
  have hc : catchUp i.next0 i.store0 = i.store0 - i.next0 := by
    unfold catchUp u64; exact Int.emod_eq_of_lt (by omega) (by omega)
  have hp := progress_eq_store_advance i.next0 i.next1 h0 hn hn2
  simp only [round, hc, hp]
  by_cases h : i.store0 = i.next0
  · simp [h]
  · have : ¬ (i.store0 - i.next0 = 0) := by omega
    simp [h, this]

/-- the positions of consecutive loop iterations, chained -/
def positionsChained : Int → List RoundIn → Prop
  | _, [] => True
  | pos, i :: rest => i.next0 = pos ∧ i.next0 ≤ i.store0 ∧ i.store0 < 2 ^ 64 ∧ i.next0 ≤ i.next1 ∧
      i.next1 < 2 ^ 64 ∧ positionsChained (if i.store0 = i.next0 then i.next1 else i.store0) rest

def finalPosition : Int → List RoundIn → Int
  | pos, [] => pos
  | _, i :: rest => finalPosition (if i.store0 = i.next0 then i.next1 else i.store0) rest

/-- total progress fed to the predictor over a run (the predictor state threads through) -/
def totalProgress : PState → List RoundIn → Int
  | _, [] => 0
  | s, i :: rest => (round s i).progress + totalProgress (round s i).st rest

/-- Over any number of iterations the progress values fed to the predictor add up to exactly the
distance the subscriber's position travelled: nothing is counted twice and nothing is lost. -/
theorem progress_sums_to_advance (rounds : List RoundIn) :
    ∀ (s : PState) (pos : Int), 0 ≤ pos → positionsChained pos rounds →
      totalProgress s rounds = finalPosition pos rounds - pos := by
  induction rounds with
  | nil => intro s pos _ _; simp [totalProgress, finalPosition]
  | cons i rest ih =>
    intro s pos hpos h
    obtain ⟨h1, h2, h3, h4, h5, h6⟩ := h
    have hp := round_progress_eq_advance s i (by omega) h2 h3 h4 h5
    have hnext : 0 ≤ (if i.store0 = i.next0 then i.next1 else i.store0) := by split <;> omega
    have := ih (round s i).st _ hnext h6
    simp only [totalProgress, finalPosition, hp, this]
    omega

/-! ## The delay bound (regenerated `delay += …` line) -/

/-- The wait armed after a poll is the remaining predicted interval, extended only by the offset
(the time the subscriber's own requests took) and by at most half of the interval. -/
theorem delay_bound (remaining offset : Int) (hr : 0 ≤ remaining) (ho : 0 ≤ offset) :
    remaining ≤ subscriberDelay remaining offset ∧
    subscriberDelay remaining offset ≤ delayBound remaining offset := by
  unfold subscriberDelay delayBound
  rw [Int.tdiv_eq_ediv_of_nonneg hr]
  dsimp only
  omega

/-- the same for one whole loop iteration: whatever the store, peers and clock did, the armed delay
lies between the remaining interval and `remaining + min(requestTime, remaining/2)`. -/
theorem round_delay_bound (s : PState) (i : RoundIn) (hnow : i.pollTime ≤ i.now) :
    (round s i).remaining ≤ (round s i).delay ∧
    (round s i).delay ≤ delayBound (round s i).remaining (i.now - i.pollTime) := by
  have hr : 0 ≤ (round s i).remaining := by simp only [round]; omega
  have hoff : 0 ≤ (round s i).offset ∧ (round s i).offset ≤ i.now - i.pollTime := by
    simp only [round]
    split
    · split <;> omega
    · omega
  have h := delay_bound (round s i).remaining (round s i).offset hr hoff.1
  have hd : (round s i).delay = subscriberDelay (round s i).remaining (round s i).offset := rfl
  rw [hd]
  refine ⟨h.1, Int.le_trans h.2 ?_⟩
  unfold delayBound
  omega

/-! ## Predictor invariants -/

/-- `newPredictor` establishes the invariant for sane settings. -/
theorem predictor_init_inv (mn ini mx : Int) (h0 : 0 < mn) (h1 : mn ≤ ini) (h2 : ini ≤ mx) :
    PInv (PState.init mn ini mx) := by
  have h3 : 0 ≤ ini := by omega
  have h4 : 0 ≤ mx := by omega
  simp only [PInv, PState.init, Int.tdiv_eq_ediv_of_nonneg h3, Int.tdiv_eq_ediv_of_nonneg h4]
  exact ⟨h0, by omega, h1, h2, by omega, by omega, Or.inl trivial⟩

/-- `update` preserves the invariant — in particular `min ≤ interval ≤ max` always — and the wait it
returns lies in `[min, 10·max]` (`10·max` is the back-off cap), for every progress value. -/
theorem predictor_bounds (s : PState) (p : Int) (h : PInv s) :
    PInv (update s p).2 ∧ s.minI ≤ (update s p).1 ∧ (update s p).1 ≤ 10 * s.maxI ∧
    (update s p).2.minI = s.minI ∧ (update s p).2.maxI = s.maxI := by
  have := spec_bounds p s.backoff s.explore s.interval s.maxI s.minI s.wasInc ((inv_iff s).1 h)
  rw [update_eq]
  exact ⟨this.1, this.2.1, this.2.2, rfl, rfl⟩

/-- The invariant holds along every run of the predictor (induction over the progress history). -/
theorem predictor_bounds_run (ps : List Int) :
    ∀ s : PState, PInv s →
      PInv (runPredictor s ps).2 ∧ ∀ w ∈ (runPredictor s ps).1, s.minI ≤ w ∧ w ≤ 10 * s.maxI := by
  induction ps with
  | nil => intro s h; simp [runPredictor, h]
  | cons p rest ih =>
    intro s h
    have hb := predictor_bounds s p h
    have := ih (update s p).2 hb.1
    simp only [runPredictor]
    refine ⟨this.1, ?_⟩
    intro w hw
    simp only [List.mem_cons] at hw
    rcases hw with hw | hw
    · subst hw; exact ⟨hb.2.1, hb.2.2.1⟩
    · have := this.2 w hw
      rw [hb.2.2.2.1, hb.2.2.2.2] at this
      exact this

/-- Progress 1 outside back-off is a fixed point: nothing changes and the wait is the interval. -/
theorem predictor_fixpoint (s : PState) (hb : s.backoff ≤ 0) : update s 1 = (s.interval, s) := by
  rw [update_eq, spec_fixpoint _ _ _ _ _ _ hb]

/-- …forever: as long as exactly one certificate appears per poll the prediction never moves. -/
theorem predictor_fixpoint_forever (n : Nat) (s : PState) (hb : s.backoff ≤ 0) :
    runPredictor s (List.replicate n 1) = (List.replicate n s.interval, s) := by
  induction n with
  | zero => rfl
  | succ k ih => simp only [List.replicate_succ, runPredictor, predictor_fixpoint s hb, ih]

/-- Progress ≥ 2 never lengthens: the new interval and the next wait are at most the old interval,
and back-off mode is left. Holds for every uint64 progress value, including those that wrap to a
negative duration in `time.Duration(progress)`. -/
theorem predictor_shortens (s : PState) (p : Int) (h : PInv s) (hp : 2 ≤ p) :
    (update s p).2.interval ≤ s.interval ∧ (update s p).1 ≤ s.interval ∧ (update s p).2.backoff = 0 := by
  have := spec_shortens p s.backoff s.explore s.interval s.maxI s.minI s.wasInc ((inv_iff s).1 h) hp
  rw [update_eq]
  exact this

/-- …and strictly shortens while above the minimum (for `min ≥ 100ns`, so that the smallest explore
distance `min/100` is not zero). -/
theorem predictor_shortens_strict (s : PState) (p : Int) (h : PInv s) (hb : s.backoff = 0) (hp : 2 ≤ p)
    (hmn : 100 ≤ s.minI) (hi : s.minI < s.interval) : (update s p).2.interval < s.interval := by
  have h' := (inv_iff s).1 h
  rw [hb] at h'
  have := spec_shortens_strict p s.explore s.interval s.maxI s.minI s.wasInc h' hp hmn hi
  rw [update_eq, hb]
  exact this

/-- Progress 0 never shortens the next wait: the wait is the current interval (or the current
back-off), the interval does not decrease, and the following wait will be `min(2·wait, 10·max)`. -/
theorem predictor_backs_off (s : PState) (h : PInv s) :
    (update s 0).1 = (if s.backoff > 0 then s.backoff else s.interval) ∧
    s.interval ≤ (update s 0).2.interval ∧
    (update s 0).2.backoff = min (2 * (update s 0).1) (10 * s.maxI) ∧
    (update s 0).1 ≤ (update s 0).2.backoff ∧ 0 < (update s 0).2.backoff := by
  have := spec_backs_off s.backoff s.explore s.interval s.maxI s.minI s.wasInc ((inv_iff s).1 h)
  rw [update_eq]
  exact this

/-- waits produced by a stalled certificate production: doubling up to the cap -/
def stalledWaits (b cap : Int) : Nat → List Int
  | 0 => []
  | n + 1 => b :: stalledWaits (min (2 * b) cap) cap n

private theorem stalled_in_backoff (n : Nat) :
    ∀ s : PState, PInv s → 0 < s.backoff →
      (runPredictor s (List.replicate n 0)).1 = stalledWaits s.backoff (10 * s.maxI) n := by
  induction n with
  | zero => intro s _ _; rfl
  | succ k ih =>
    intro s h hb
    have hbo := predictor_backs_off s h
    have hbd := predictor_bounds s 0 h
    simp only [hb, ite_true] at hbo
    have := ih (update s 0).2 hbd.1 hbo.2.2.2.2
    simp only [List.replicate_succ, runPredictor, stalledWaits, this, hbo.1, hbd.2.2.2.2]
    rw [hbo.2.2.1, hbo.1]

/-- **Backs off when no certificates appear**: from any state outside back-off, `n+1` consecutive
polls without progress wait `interval, min(2·interval, cap), min(4·interval, cap), …` with
`cap = 10·max` — for every `n`. -/
theorem predictor_stalled_waits (n : Nat) (s : PState) (h : PInv s) (hb : s.backoff = 0) :
    (runPredictor s (List.replicate (n + 1) 0)).1 =
      s.interval :: stalledWaits (min (2 * s.interval) (10 * s.maxI)) (10 * s.maxI) n := by
  have hbo := predictor_backs_off s h
  have hbd := predictor_bounds s 0 h
  have hnb : ¬ s.backoff > 0 := by omega
  simp only [hnb, ite_false] at hbo
  have := stalled_in_backoff n (update s 0).2 hbd.1 hbo.2.2.2.2
  simp only [List.replicate_succ, runPredictor, this, hbo.1, hbd.2.2.2.2]
  rw [hbo.2.2.1, hbo.1]

/-- the waits of a stall never decrease -/
theorem stalledWaits_monotone (cap : Int) (n : Nat) :
    ∀ b : Int, 0 < b → b ≤ cap → List.Pairwise (· ≤ ·) (stalledWaits b cap n) := by
  induction n with
  | zero => intro b _ _; simp [stalledWaits]
  | succ k ih =>
    intro b hb hc
    simp only [stalledWaits, List.pairwise_cons]
    refine ⟨?_, ih _ (by omega) (by omega)⟩
    -- every later wait is ≥ b: generalise
    have key : ∀ (m : Nat) (c : Int), b ≤ c → c ≤ cap → ∀ x ∈ stalledWaits c cap m, b ≤ x := by
      intro m
      induction m with
      | zero => intro c _ _ x hx; simp [stalledWaits] at hx
      | succ j ihj =>
        intro c hbc hcc x hx
        simp only [stalledWaits, List.mem_cons] at hx
        rcases hx with hx | hx
        · omega
        · exact ihj _ (by omega) (by omega) x hx
    exact key k _ (by omega) (by omega)

/-- On a change of direction the explore distance contracts by a factor 3 (down to the floor
`min/100`): the search narrows in on the production interval. -/
theorem predictor_direction_change_contracts (s : PState) (p : Int) (h : PInv s) (hb : s.backoff = 0)
    (hp : p ≠ 1) (hdir : s.wasInc = decide (p > 1)) :
    (update s p).2.explore = clampE s.minI s.maxI (Int.tdiv s.explore 3) ∧
    (update s p).2.explore ≤ max (s.explore / 3) (s.minI / 100) := by
  obtain ⟨hmn, hmm, _, _, he1, he2, _⟩ := h
  have hexp : (explore1 s.wasInc p s.explore s.interval).1 = Int.tdiv s.explore 3 := by
    unfold explore1; simp [hdir]
  have hE : (update s p).2.explore = clampE s.minI s.maxI (Int.tdiv s.explore 3) := by
    rw [update_eq]
    simp only [predictorSpec, fin, hb, ne_eq, hp, not_false_eq_true, ite_true, hexp]
    by_cases h0 : p = 0 <;> simp [h0]
  refine ⟨hE, ?_⟩
  rw [hE]
  unfold clampE
  rw [Int.tdiv_eq_ediv_of_nonneg he1, Int.tdiv_eq_ediv_of_nonneg (by omega : 0 ≤ s.minI),
    Int.tdiv_eq_ediv_of_nonneg (by omega : 0 ≤ s.maxI)]
  split
  · omega
  · split <;> omega

/-! ## No overflow -/

/-- For settings up to `max ≤ 2^58 ns` (≈ 9 years) no intermediate of `update` or of the delay line
leaves int64, and the division `interval / time.Duration(progress)` never divides by zero. The
intermediates are: `exploreDistance/3`, `exploreDistance*2`, `interval/Duration(progress)` and its
half, `min/100`, `max/2`, `interval ± exploreDistance`, `2*backoff`, `10*max`, and
`delay + max|min(offset, delay/2)`. -/
theorem no_overflow (s : PState) (p : Int) (h : PInv s) (hmx : s.maxI ≤ 2 ^ 58) (hp0 : 0 ≤ p) (hp : p < 2 ^ 64) :
    let d := i64ofU64 p
    let e2 := clampE s.minI s.maxI (explore1 s.wasInc p s.explore s.interval).1
    let i1 := (explore1 s.wasInc p s.explore s.interval).2
    (2 < p → d ≠ 0) ∧
    fits64 (Int.tdiv s.explore 3) ∧ fits64 (s.explore * 2) ∧ fits64 (Int.tdiv s.interval d) ∧
    fits64 (Int.tdiv (Int.tdiv s.interval d) 2) ∧ fits64 (Int.tdiv s.minI 100) ∧ fits64 (Int.tdiv s.maxI 2) ∧
    fits64 (i1 + e2) ∧ fits64 (i1 - e2) ∧ fits64 (2 * s.backoff) ∧ fits64 (10 * s.maxI) ∧
    fits64 (update s p).1 ∧
    (∀ offset, 0 ≤ offset → offset ≤ 2 ^ 61 →
      fits64 (subscriberDelay (update s p).1 offset) ∧ fits64 ((update s p).1 + offset)) := by
  obtain ⟨hmn, hmm, hi1, hi2, he1, he2, hb⟩ := id h
  have hi0 : 0 ≤ s.interval := by omega
  have hq := tdiv_bounds s.interval (i64ofU64 p) hi0
  have hq2 := tdiv_pos_div s.explore 3 he1 (by omega)
  have hE := clampE_bounds s.minI s.maxI (explore1 s.wasInc p s.explore s.interval).1 hmn hmm
  have hS := explore1_snd s.wasInc p s.explore s.interval hi0
  have hm2 := tdiv_pos_div s.maxI 2 (by omega) (by omega)
  have hm100 := tdiv_pos_div s.minI 100 (by omega) (by omega)
  have hbd := predictor_bounds s p h
  have hhalf : ∀ x : Int, -(2:Int) ^ 60 ≤ x → x ≤ 2 ^ 60 → -(2:Int) ^ 60 ≤ Int.tdiv x 2 ∧ Int.tdiv x 2 ≤ 2 ^ 60 := by
    intro x h1 h2
    rcases Int.le_total 0 x with hx | hx
    · have := tdiv_pos_div x 2 hx (by omega); omega
    · have hneg : Int.tdiv x 2 = -(Int.tdiv (-x) 2) := by rw [Int.neg_tdiv, Int.neg_neg]
      have := tdiv_pos_div (-x) 2 (by omega) (by omega)
      omega
  have hqq := hhalf (Int.tdiv s.interval (i64ofU64 p)) (by omega) (by omega)
  have hpow : (2:Int) ^ 58 * 32 = 2 ^ 63 := by decide
  refine ⟨?_, ?_, ?_, ?_, ?_, ?_, ?_, ?_, ?_, ?_, ?_, ?_, ?_⟩
  · intro h2
    unfold i64ofU64
    split <;> omega
  all_goals (try unfold fits64)
  all_goals (try omega)
  · intro offset ho1 ho2
    have hn0 : 0 ≤ (update s p).1 := by omega
    unfold subscriberDelay
    rw [Int.tdiv_eq_ediv_of_nonneg hn0]
    dsimp only
    omega

/-! ## Closed loop: what is proved, and the full statement -/

/-- Full closed-loop claim of the property ("settles at the production interval instead of
collapsing to the minimum or drifting to the maximum"): for a production period inside the
configured range, from some poll on every wait stays within a factor two of the period. NOT proved
here (see `settles_partial`). Executable validation (model: `settlesWithin` on random settings;
implementation: the `loop` lines of `h_poll`) shows the waits hovering at the period with isolated
excursions beyond a factor two as late as poll ~800 (the explore distance doubles at every isolated
poll without progress until the next change of direction), so `N` cannot be small. -/
def SettlesStatement : Prop :=
  ∀ (mn ini mx period phase : Int), 100 ≤ mn → mn ≤ ini → ini ≤ mx → 2 * mn ≤ period → 2 * period ≤ mx →
    0 ≤ phase → phase < period →
    ∃ N : Nat, ∀ n k : Nat, N ≤ k → k < n →
      ∀ w, (closedLoop period phase n (PState.init mn ini mx) ini 0)[k]? = some w → period ≤ 2 * w ∧ w ≤ 2 * period

/-- Proved part of the closed-loop claim: (1) the production interval is a fixed point that is held
for ever once one certificate arrives per poll; (2) several certificates per poll never lengthen
and (above the minimum) strictly shorten the interval; (3) no certificate never shortens the wait and
doubles it up to the cap; (4) the interval never leaves `[min,max]`, so it can neither collapse
below the minimum nor drift above the maximum; (5) each change of direction divides the search step
by three. Missing for `SettlesStatement`: the global argument that the alternating search converges
for every phase/period (it depends on the arrival phase relative to the poll times). -/
theorem settles_partial (s : PState) (h : PInv s) (hb : s.backoff = 0) :
    (∀ n, runPredictor s (List.replicate n 1) = (List.replicate n s.interval, s)) ∧
    (∀ p, 2 ≤ p → (update s p).2.interval ≤ s.interval) ∧
    (100 ≤ s.minI → s.minI < s.interval → ∀ p, 2 ≤ p → (update s p).2.interval < s.interval) ∧
    (s.interval ≤ (update s 0).2.interval ∧ (update s 0).1 = s.interval ∧
      (update s 0).2.backoff = min (2 * s.interval) (10 * s.maxI)) ∧
    (∀ p, s.minI ≤ (update s p).2.interval ∧ (update s p).2.interval ≤ s.maxI) ∧
    (∀ p, p ≠ 1 → s.wasInc = decide (p > 1) →
      (update s p).2.explore ≤ max (s.explore / 3) (s.minI / 100)) := by
  have hb' : s.backoff ≤ 0 := by omega
  refine ⟨fun n => predictor_fixpoint_forever n s hb', fun p hp => (predictor_shortens s p h hp).1,
    fun hmn hi p hp => predictor_shortens_strict s p h hb hp hmn hi, ?_, ?_, ?_⟩
  · have := predictor_backs_off s h
    have hnb : ¬ s.backoff > 0 := by omega
    simp only [hnb, ite_false] at this
    refine ⟨this.2.1, this.1, ?_⟩
    rw [this.2.2.1, this.1]
  · intro p
    have := (predictor_bounds s p h).1
    obtain ⟨_, _, h3, h4, _⟩ := this
    have hb2 := predictor_bounds s p h
    rw [hb2.2.2.2.1] at h3
    rw [hb2.2.2.2.2] at h4
    exact ⟨h3, h4⟩
  · intro p hp hdir
    exact (predictor_direction_change_contracts s p h hb hp hdir).2

/-! ## Non-vacuity -/

/-- a concrete state meeting `PInv` (the defaults of the repository's test: 1 s / 30 s / 120 s) -/
example : PInv (PState.init 1000000000 30000000000 120000000000) := by decide

/-- the scenario of `TestPredictor`: two polls with progress 1, then two without progress -/
example : (runPredictor (PState.init 1000 30000 120000) [1, 1, 0, 0, 1, 2]).1 =
    [30000, 30000, 30000, 60000, 35000, 33334] := by decide

/-- a stall: waits double and saturate at `10·max` -/
example : (runPredictor (PState.init 1000 30000 120000) (List.replicate 8 0)).1 =
    [30000, 60000, 120000, 240000, 480000, 960000, 1200000, 1200000] := by decide

/-- progress that wraps to a negative duration still never lengthens (interval clamps to the minimum) -/
example : (update (PState.init 1000 30000 120000) (2 ^ 64 - 1)).2.interval = 1000 := by decide

/-- the delay rule is not vacuous: a request time below half the interval is added in full, a larger
one is capped -/
example : subscriberDelay 1000 200 = 1200 ∧ subscriberDelay 1000 900 = 1500 := by decide

/-- a loop iteration that polled, advanced from 5 to 7 by local progress only (no new certificate
from peers) and took 40 time units: progress 2, offset 40 -/
example : let r := round (PState.init 1000 3000 120000)
            { pollTime := 100000, next0 := 5, store0 := 5, next1 := 7, newCert := false, now := 100040 }
    r.progress = 2 ∧ r.offset = 40 ∧ r.polled = true ∧ r.delay = r.remaining + 40 := by decide

/-- the model closed loop against a steady producer (period 1000, first certificate at 300, settings
100/3000/100000): after a short search the waits sit just below the period and stay there -/
example : (closedLoop 1000 300 30 (PState.init 100 3000 100000) 3000 0).drop 5 = List.replicate 25 998 := by
  decide

end F3.Props.C20
