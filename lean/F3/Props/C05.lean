import F3.Proofs.SkelTieBls
import F3.Proofs.SkelTieValidate
import F3.Proofs.SkelTiePower
import F3.Proofs.ValidatorGen2
import F3.Proofs.ValidatorCached
import F3.Proofs.ValidatorSound
import F3.Proofs.ValidBridge
import F3.Proofs.GenTie
import F3.Gen.Validate
/-!
# C05 — Message validation is sound, complete when relevant, and history-independent

All theorems are about `F3.Validator` (`lean/F3/Model/Validator.lean`, the executable model of
`gpbft/validator.go` that the driver `f3d_validate` replays against the real `gpbft.Participant`),
about the cache model `F3.Cache` (`internal/caching`) and about the declarative validity predicate
`F3.Spec.ValidMsg.validMsg`. They hold for **every** message, committee function, progress state,
network name, cache geometry and cache history (including flip/flop rotation, group eviction, pruning).

Hypotheses that appear:
* `WireMsg m` — `m.vote.round < 2^64` and the signer list of a justification is ascending (it is the
  enumeration of a bit set); facts of the wire types, not of the validator;
* `Committee.uniqueIds` — actor ids of a power table are unique (`PowerTable.Add` enforces it); needed
  only for completeness (the table look-up finds *the* entry of the sender);
* `ProgBounds` — the `uint64` quantities of `validateByProgress` do not wrap;
* `CacheSound cfg comt cache` — the cache invariant; it holds for the empty cache and is preserved by every
  cache operation of the validator (`cache_sound_inv`), so it holds for every reachable cache as long as
  the committee function `comt` (what `GetCommittee` answers per instance) is the same throughout.
-/
namespace F3.Props.C05
open F3.Msg F3.Validator F3.Cache F3.Spec.ValidMsg

/-- **Cache invariant.** Starting from an empty cache of any geometry, after any sequence of
`ValidateMessage` / `PartiallyValidateMessage` calls (any messages, any progress states) and prunings,
every key the cache holds — in any of its four namespaces, in either generation of any surviving group —
is the key of a message that passes the cache-free check, resp. of a justification whose signer /
strong-quorum / aggregate check passes for the recorded expected value key, under the same committees. -/
theorem cache_sound_inv (cfg : Cfg) (comt : Nat → Option Committee) (maxGroups maxSetSize : Nat)
    (ops : List CacheOp) :
    CacheSound cfg comt (runOps cfg comt (GroupedSet.new maxGroups maxSetSize) ops) :=
  runOps_sound ops (cacheSound_new cfg comt maxGroups maxSetSize)

/-- The invariant is preserved by each single operation from any sound cache (so also through
evictions: `mem_after_add` / `mem_after_contains` / `mem_after_removeLessThan` show that rotation,
LRU eviction and pruning only ever drop keys). -/
theorem cache_sound_step (cfg : Cfg) (comt : Nat → Option Committee) (cache : VCache)
    (hs : CacheSound cfg comt cache) (op : CacheOp) : CacheSound cfg comt (applyOp cfg comt cache op) :=
  applyOp_sound hs op

/-- **The cache stays within its configured size** whatever is validated: at most `max 1 maxGroups`
groups, each holding fewer than `max 1 maxSetSize` keys in its young and at most that many in its old
generation (so evictions do happen, and `cache_sound_inv` / `validate_history_independent` are
statements about caches that really rotate and evict). -/
theorem cache_bounded (cfg : Cfg) (comt : Nat → Option Committee) (maxGroups maxSetSize : Nat)
    (ops : List CacheOp) :
    (runOps cfg comt (GroupedSet.new maxGroups maxSetSize) ops).bounded :=
  runOps_bounded cfg comt ops _ (bounded_new maxGroups maxSetSize)

/-- **History independence.** With any sound cache (in particular any reachable one) the verdict of
`ValidateMessage` equals the verdict `validatePure` that is a function of the message, the committee
function and the progress only. -/
theorem validate_depends_only_on_inputs (cfg : Cfg) (comt : Nat → Option Committee) (prog : Progress)
    (cache : VCache) (hs : CacheSound cfg comt cache) (m : Msg) :
    (validate cfg comt prog cache m).1 = validatePure cfg comt prog m :=
  (validate_eq hs prog m).1

/-- **History independence, as stated in the property**: the verdict of a long-lived validator whose
cache went through any history `ops` equals the verdict of a fresh validator (empty cache of any
geometry), for every message and progress state. -/
theorem validate_history_independent (cfg : Cfg) (comt : Nat → Option Committee) (prog : Progress)
    (g s g' s' : Nat) (ops : List CacheOp) (m : Msg) :
    (validate cfg comt prog (runOps cfg comt (GroupedSet.new g s) ops) m).1 =
      (validate cfg comt prog (GroupedSet.new g' s') m).1 := by
  rw [validate_depends_only_on_inputs _ _ _ _ (cache_sound_inv cfg comt g s ops),
    validate_depends_only_on_inputs _ _ _ _ (cacheSound_new cfg comt g' s')]

/-- The same for partial validation (namespaces `partial_message`, `partial_justification`). -/
theorem partially_history_independent (cfg : Cfg) (comt : Nat → Option Committee) (prog : Progress)
    (g s g' s' : Nat) (ops : List CacheOp) (pm : PMsg) :
    (partially cfg comt prog (runOps cfg comt (GroupedSet.new g s) ops) pm).1 =
      (partially cfg comt prog (GroupedSet.new g' s') pm).1 := by
  rw [(partially_eq (cache_sound_inv cfg comt g s ops) prog pm).1,
    (partially_eq (cacheSound_new cfg comt g' s') prog pm).1]

/-- **Soundness.** Whatever the cache history: an accepted message satisfies every validity rule under
the committee of its instance (and passed the relevance window). -/
theorem validate_sound (cfg : Cfg) (comt : Nat → Option Committee) (prog : Progress) (cache : VCache)
    (hs : CacheSound cfg comt cache) (m : Msg) (hw : WireMsg m)
    (h : (validate cfg comt prog cache m).1 = .accept) :
    ∃ c, comt m.vote.inst = some c ∧ validMsg cfg.net c m := by
  rw [validate_depends_only_on_inputs _ _ _ _ hs, validatePure_accept_iff, checkMsg_accept_iff_body] at h
  obtain ⟨c, hc, hb⟩ := h.2
  exact ⟨c, hc, checkBody_sound hw hb⟩

/-- **Completeness when relevant.** A valid message that is relevant to the participant's progress is
accepted, whatever the cache history. -/
theorem validate_complete_relevant (cfg : Cfg) (comt : Nat → Option Committee) (prog : Progress)
    (cache : VCache) (hs : CacheSound cfg comt cache) (m : Msg) (c : Committee)
    (hc : comt m.vote.inst = some c) (hu : Committee.uniqueIds c) (hb : ProgBounds cfg prog m.vote)
    (hv : validMsg cfg.net c m) (hr : relevant cfg.lookback prog m.vote) :
    (validate cfg comt prog cache m).1 = .accept := by
  rw [validate_depends_only_on_inputs _ _ _ _ hs]
  unfold validatePure
  rw [(byProgress_none_iff cfg prog m.vote hb).mpr hr]
  unfold checkMsg
  rw [hc]
  simp only [checkBody_complete hb.round hu hv, if_true]

/-- **No valid message is ever branded invalid** — at any progress, with any cache history. -/
theorem never_invalid_if_valid (cfg : Cfg) (comt : Nat → Option Committee) (prog : Progress)
    (cache : VCache) (hs : CacheSound cfg comt cache) (m : Msg) (hr : m.vote.round < 2 ^ 64)
    (h : (validate cfg comt prog cache m).1 = .invalid) :
    ∀ c, comt m.vote.inst = some c → Committee.uniqueIds c → ¬ validMsg cfg.net c m := by
  intro c hc hu hv
  rw [validate_depends_only_on_inputs _ _ _ _ hs] at h
  unfold validatePure at h
  cases hb : byProgress cfg prog m.vote with
  | some e =>
    rw [hb] at h
    simp only at h
    subst h
    unfold byProgress at hb
    repeat' split at hb
    all_goals simp at hb
  | none =>
    rw [hb] at h
    simp only at h
    unfold checkMsg at h
    rw [hc] at h
    simp only [checkBody_complete hr hu hv, if_true, reduceCtorEq] at h

/-- The relevance window of the code is exactly the specified one: validation proceeds past
`validateByProgress` iff the message is `relevant` (for `uint64` values that do not wrap). -/
theorem relevance_window_exact (cfg : Cfg) (prog : Progress) (v : Payload) (hb : ProgBounds cfg prog v) :
    byProgress cfg prog v = none ↔ relevant cfg.lookback prog v :=
  byProgress_none_iff cfg prog v hb

/-- A verdict other than accept/invalid is explained by progress or by a missing committee alone. -/
theorem other_verdicts_explained (cfg : Cfg) (comt : Nat → Option Committee) (prog : Progress)
    (cache : VCache) (hs : CacheSound cfg comt cache) (m : Msg)
    (h1 : (validate cfg comt prog cache m).1 ≠ .accept) (h2 : (validate cfg comt prog cache m).1 ≠ .invalid) :
    byProgress cfg prog m.vote = some (validate cfg comt prog cache m).1 ∨
      (comt m.vote.inst = none ∧ (validate cfg comt prog cache m).1 = .noCommittee) := by
  rw [validate_depends_only_on_inputs _ _ _ _ hs] at h1 h2 ⊢
  unfold validatePure at h1 h2 ⊢
  cases hb : byProgress cfg prog m.vote with
  | some e => exact Or.inl rfl
  | none =>
    rw [hb] at h1 h2
    simp only at h1 h2 ⊢
    unfold checkMsg at h1 h2 ⊢
    cases hc : comt m.vote.inst with
    | none => exact Or.inr ⟨rfl, rfl⟩
    | some c =>
      rw [hc] at h1 h2
      simp only at h1 h2
      by_cases hbb : checkBody cfg c none m = true <;> simp [hbb] at h1 h2

/-- An accepted justification's signers hold at least two thirds of the committee's scaled power
(link to C08: the model uses the predicate generated from `gpbft.go`). -/
theorem accepted_justification_has_two_thirds (cfg : Cfg) (c : Committee) (j : Just) (ek : VKey)
    (hsorted : j.signers.Pairwise (· < ·)) (h : sigJust cfg c j ek = true) :
    3 * (sumNat (j.signers.map (powerAt c)) : Int) ≥ 2 * (c.total : Int) := by
  have := ((sigJust_iff cfg c j ek hsorted).mp h).1.2.2
  simpa [F3.Spec.Quorum.strong] using this

/-! ## Non-vacuity -/

def tipA : Tip := ⟨1, 10, 4, 38⟩
def tipB : Tip := ⟨2, 11, 4, 38⟩
def c0 : Committee := ⟨[⟨101, 30000, 11⟩, ⟨102, 20000, 12⟩, ⟨103, 15535, 13⟩, ⟨104, 0, 14⟩], 7⟩
def comt0 : Nat → Option Committee := fun i => if i ≤ 20 then some c0 else none
def cfg0 : Cfg := ⟨0, 10⟩
/-- PREPARE quorum certificate (members 0 and 1: 50000 of 65535) for `[tipA, tipB]` in round 0 of instance 5 -/
def j0 : Just :=
  ⟨⟨5, 0, PREPARE, 0, [tipA, tipB]⟩, [0, 1],
    .tok [(0, 11), (1, 12)] (.vote 0 5 0 PREPARE 0 (keyOf [tipA, tipB])), true⟩
/-- a valid COMMIT -/
def m0 : Msg :=
  ⟨101, ⟨5, 0, COMMIT, 0, [tipA, tipB]⟩, .tok 11 (.vote 0 5 0 COMMIT 0 (keyOf [tipA, tipB])), .garbage 0, some j0, true⟩
/-- its forged twin: same bytes except the signature -/
def m0forged : Msg := { m0 with sig := .garbage 7 }
/-- a twin whose justification is one member short of a strong quorum (30000 of 65535) -/
def m0short : Msg :=
  { m0 with just := some { j0 with signers := [0], agg := .tok [(0, 11)] (.vote 0 5 0 PREPARE 0 (keyOf [tipA, tipB])) } }
def prog0 : Progress := ⟨5, 0, COMMIT⟩
def warm0 : VCache := runOps cfg0 comt0 (GroupedSet.new 1 1) [.validate prog0 m0, .validate prog0 m0]

example : (validate cfg0 comt0 prog0 (GroupedSet.new 2 2) m0).1 = .accept := by decide
example : validMsg cfg0.net c0 m0 := by
  obtain ⟨c, hc, hv⟩ := validate_sound cfg0 comt0 prog0 (GroupedSet.new 2 2) (cacheSound_new _ _ _ _) m0
    ⟨by decide, by intro j hj; cases hj; decide⟩ (by decide)
  have : c = c0 := by simp [comt0, m0] at hc; exact hc.symm
  exact this ▸ hv
-- the warm cache really holds the message key, and the forged twin is still rejected after its valid twin
example : warm0.peek 5 (CKey.msg m0) = true := by decide
-- … while the justification key inserted just before it was already rotated out (capacity 1): an eviction happened
example : warm0.peek 5 (CKey.just j0 (keyOf [tipA, tipB])) = false := by decide
example : (validate cfg0 comt0 prog0 warm0 m0forged).1 = .invalid := by decide
example : (validate cfg0 comt0 prog0 warm0 m0short).1 = .invalid := by decide
example : (validate cfg0 comt0 ⟨7, 0, QUALITY⟩ warm0 m0).1 = .tooOld := by decide
example : (validate cfg0 comt0 ⟨5, 2, PREPARE⟩ warm0 m0).1 = .notRelevant := by decide
example : relevant cfg0.lookback prog0 m0.vote ∧ Committee.uniqueIds c0 ∧ ProgBounds cfg0 prog0 m0.vote :=
  ⟨by decide, by simp [Committee.uniqueIds, c0], ⟨by decide, by decide, by decide, by decide⟩⟩


/-! ## What validation hands to consensus -/

/-- **An accepted message satisfies the hypothesis of the consensus proofs.** Whatever the cache history, a
message the validator model accepts is — read symbolically: the signature tokens it carries were produced by
the owners of the keys (`hsig`, `hagg`: unforgeability) — a `MsgValid` delivery in the vocabulary of the
instance model: the vote exists, the sender has power, the shape is the one its phase prescribes and its
justification is a strong quorum of existing votes.  `C01.agreement_model` and `C02.validity_model` assume
exactly this of every delivered message. -/
theorem accepted_message_meets_consensus_hypothesis (cfg : Cfg) (comt : Nat → Option Committee) (prog : Progress)
    (cache : VCache) (hs : CacheSound cfg comt cache) (m : Msg) (hw : WireMsg m)
    (h : (validate cfg comt prog cache m).1 = .accept)
    (hu : ∀ c, comt m.vote.inst = some c → (c.entries.map (·.id)).Nodup)
    (Signed : Nat → SigMsg → Prop) (hsig : ∀ pub x, m.sig = Sig.tok pub x → Signed pub x)
    (hagg : ∀ j, m.just = some j → ∀ sg x, j.agg = Agg.tok sg x → ∀ p ∈ sg, Signed p.2 x) :
    ∃ c, comt m.vote.inst = some c ∧
      F3.Instance.MsgValid (F3.ValidBridge.Wsig Signed cfg.net m.vote.inst m.vote.supp c) (F3.ValidBridge.tableOf c)
        (F3.ValidBridge.absMsg m) := by
  obtain ⟨c, hc, hv⟩ := validate_sound cfg comt prog cache hs m hw h
  exact ⟨c, hc, F3.ValidBridge.validMsg_MsgValid Signed cfg.net c (hu c hc) m hv hsig hagg⟩

/-! ## Regenerated: `validateByProgress` as it stands in `gpbft/validator.go` on this run

`F3.Gen.Validate.validateByProgress` is translated from the source on every run
(`tools/go2lean/targets.d/Validate.json`): the two tagless `switch`es as if / else-if chains, `uint64`
additions wrapped, phase constants read from `gpbft/types.go`, the sentinel errors as the codes
0 = `nil`, 1 = `ErrValidationTooOld`, 2 = `ErrValidationNotRelevant`, 3 = `ErrValidationNoCommittee`. -/

/-- the return codes of `targets.d/Validate.json` -/
def decodeProgress (c : Int) : Option Verdict :=
  if c = 0 then none else if c = 1 then some .tooOld else if c = 2 then some .notRelevant else some .noCommittee

/-- **The model's relevance window is the source's.** For every progress state, look-back and vote — the
whole `uint64` range and beyond, wrap-around of `current.ID + committeeLookback`, `Instance + 1` and
`Round + 1` included — the hand-written `byProgress` (which every other C05 theorem is about and the
driver executes) returns exactly what the code regenerated from `validator.go` returns. An edit of the
Go function either keeps this equality or breaks the build. -/
theorem by_progress_is_the_codes (cfg : Cfg) (cur : Progress) (v : Payload) :
    byProgress cfg cur v =
      decodeProgress (F3.Gen.Validate.validateByProgress cur.id cur.phase cur.round v.inst v.phase v.round
        cfg.lookback) := by
  unfold byProgress F3.Gen.Validate.validateByProgress
  have e1 : F3.GoInt.u64 ((cur.id : Int) + cfg.lookback) = ((F3.Validator.u64 (cur.id + cfg.lookback) : Nat) : Int) := by
    rw [F3.Validator.u64, ← F3.Proofs.GenTie.u64_natCast]; rfl
  have e2 : F3.GoInt.u64 ((v.inst : Int) + 1) = ((F3.Validator.u64 (v.inst + 1) : Nat) : Int) := by
    rw [F3.Validator.u64, ← F3.Proofs.GenTie.u64_natCast]; rfl
  have e3 : F3.GoInt.u64 ((v.round : Int) + 1) = ((F3.Validator.u64 (v.round + 1) : Nat) : Int) := by
    rw [F3.Validator.u64, ← F3.Proofs.GenTie.u64_natCast]; rfl
  rw [e1, e2, e3]
  generalize F3.Validator.u64 (cur.id + cfg.lookback) = a
  generalize F3.Validator.u64 (v.inst + 1) = b
  generalize F3.Validator.u64 (v.round + 1) = c
  simp only [DECIDE, QUALITY, Bool.or_eq_true, Bool.and_eq_true, decide_eq_true_eq]
  repeat' split
  all_goals (first | rfl | (exfalso; omega))

-- non-vacuity: the four codes, and both wrap-arounds, are reached
example : byProgress ⟨0, 10⟩ ⟨5, 2, PREPARE⟩ ⟨15, 0, QUALITY, 0, []⟩ = some .noCommittee ∧
    byProgress ⟨0, 10⟩ ⟨5, 2, PREPARE⟩ ⟨3, 0, QUALITY, 0, []⟩ = some .tooOld ∧
    byProgress ⟨0, 10⟩ ⟨5, 2, PREPARE⟩ ⟨5, 0, PREPARE, 0, []⟩ = some .notRelevant ∧
    byProgress ⟨0, 10⟩ ⟨5, 2, PREPARE⟩ ⟨5, 1, PREPARE, 0, []⟩ = none ∧
    byProgress ⟨0, 10⟩ ⟨5, 2, PREPARE⟩ ⟨4, 0, DECIDE, 0, []⟩ = none ∧
    byProgress ⟨0, 10⟩ ⟨2 ^ 64 - 3, 0, PREPARE⟩ ⟨7, 0, QUALITY, 0, []⟩ = some .noCommittee ∧
    byProgress ⟨0, 10⟩ ⟨0, 0, PREPARE⟩ ⟨2 ^ 64 - 1, 0, DECIDE, 0, []⟩ = some .noCommittee := by decide
example : F3.Gen.Validate.validateByProgress 5 3 2 15 1 0 10 = 3 ∧ F3.Gen.Validate.validateByProgress 5 3 2 3 1 0 10 = 1 ∧
    F3.Gen.Validate.validateByProgress 5 3 2 5 3 0 10 = 2 ∧ F3.Gen.Validate.validateByProgress 5 3 2 5 3 1 10 = 0 ∧
    F3.Gen.Validate.validateByProgress (2 ^ 64 - 3) 3 0 7 1 0 10 = 3 := by decide

end F3.Props.C05

/-! # Regenerated, second set (appended): ties to `tools/go2lean/targets.d/*2.json` -/
namespace F3.Props.C05
section Regenerated2
open F3.Msg F3.Validator
/-! ## Regenerated (2): the phase rules, `needsJustification` and the justification table of `gpbft/validator.go`

Proved in `F3/Proofs/ValidatorGen2.lean` against `F3/Gen/Validate2.lean` (`targets.d/Validate2.json`). -/

/-- the model's phase rules = the `switch msg.Vote.Phase` block of the source, all phases and rounds -/
theorem phase_rules_are_regenerated (cfg : Cfg) (c : Committee) (m : Msg) (bottom : Bool) (pub : Nat) :
    phaseRules cfg c m bottom pub =
      decide (F3.Gen.Validate2.phaseRules m.vote.phase m.vote.round
        (m.ticket == Sig.tok pub (.vrf cfg.net c.beacon m.vote.inst m.vote.round)) bottom = 0) :=
  F3.Gen2Tie.phaseRules_is_regenerated cfg c m bottom pub

/-- `needsJust` = `needsJustification` of the source -/
theorem needs_just_is_regenerated (m : Msg) (bottom : Bool) :
    needsJust m bottom = F3.Gen.Validate2.needsJustification m.vote.phase m.vote.round bottom :=
  F3.Gen2Tie.needsJust_is_regenerated m bottom

/-- the expectation table = the `map[Phase]map[Phase]struct{Round; Key}` literal of the source, for
every phase pair and every `uint64` round (`Round - 1` wraps at 0 on both sides) -/
theorem expectation_is_regenerated (ph round jph : Nat) (hr : round < 2 ^ 64) :
    expectation ph round jph =
      (F3.Gen2Tie.lookup2 (F3.Gen.Validate2.justExpectations round) ph jph).bind F3.Gen2Tie.justRow :=
  F3.Gen2Tie.expectation_is_regenerated ph round jph hr

/-- the round comparison (with the DECIDE exemption) = the source's condition -/
theorem just_wrong_round_is_regenerated (mph jr er : Nat) :
    (decide (jr ≠ er) && !anyRound mph er) = F3.Gen.Validate2.justWrongRound er jr mph :=
  F3.Gen2Tie.justWrongRound_is_regenerated mph jr er

-- non-vacuity
example : F3.Gen.Validate2.phaseRules 1 0 true false = 0 ∧ F3.Gen.Validate2.phaseRules 1 1 true false = 1 ∧
    F3.Gen.Validate2.phaseRules 2 1 false false = 5 ∧ F3.Gen.Validate2.phaseRules 5 0 true true = 7 ∧
    F3.Gen.Validate2.phaseRules 9 0 true false = 8 ∧ F3.Gen.Validate2.phaseRules 4 9 false true = 0 := by decide
example : expectation CONVERGE 0 COMMIT = some (maxU64, false) ∧ expectation COMMIT 7 PREPARE = some (7, true) ∧
    expectation DECIDE 0 PREPARE = none := by decide

end Regenerated2
end F3.Props.C05

namespace F3.Props.C05
section Skeletons

/-- **The Go functions this property's models mirror still have the statement structure the models were written
against**: each regenerated skeleton (pre-order list of statement kinds, `tools/go2lean/skel.go`) equals the pinned
expectation of `F3/Proofs/SkelTie*.lean`. An added early return, cap, loop or dropped branch in one of these functions
breaks this obligation even when no regenerated *expression* changes. -/
theorem code_structure_as_modelled :
    F3.Gen.SkelValidate.skelValidateJustification = F3.SkelTie.SkelValidate.skelValidateJustificationExpected ∧
    F3.Gen.SkelValidate.skelFullyValidate = F3.SkelTie.SkelValidate.skelFullyValidateExpected ∧
    F3.Gen.SkelValidate.skelSuppEq = F3.SkelTie.SkelValidate.skelSuppEqExpected ∧
    F3.Gen.SkelValidate.skelInferJustValue = F3.SkelTie.SkelValidate.skelInferJustValueExpected ∧
    F3.Gen.SkelValidate.skelToPartial = F3.SkelTie.SkelValidate.skelToPartialExpected ∧
    F3.Gen.SkelValidate.skelValidateMessage = F3.SkelTie.SkelValidate.skelValidateMessageExpected ∧
    F3.Gen.SkelPower.skelScalePower = F3.SkelTie.SkelPower.skelScalePowerExpected ∧
    F3.Gen.SkelPower.skelPowerTableCopy = F3.SkelTie.SkelPower.skelPowerTableCopyExpected ∧
    F3.Gen.SkelPower.skelRescale = F3.SkelTie.SkelPower.skelRescaleExpected :=
  ⟨F3.SkelTie.SkelValidate.skelValidateJustification_expected, F3.SkelTie.SkelValidate.skelFullyValidate_expected, F3.SkelTie.SkelValidate.skelSuppEq_expected, F3.SkelTie.SkelValidate.skelInferJustValue_expected, F3.SkelTie.SkelValidate.skelToPartial_expected, F3.SkelTie.SkelValidate.skelValidateMessage_expected, F3.SkelTie.SkelPower.skelScalePower_expected, F3.SkelTie.SkelPower.skelPowerTableCopy_expected, F3.SkelTie.SkelPower.skelRescale_expected⟩

end Skeletons
end F3.Props.C05

namespace F3.Props.C05
section SkeletonsBls

/-- the real BLS verifier / aggregator (trusted base: ideal signatures in the model) still has the statement
structure it had when it was taken into the trusted base -/
theorem signature_backend_structure_as_trusted :
    F3.Gen.SkelBls.skelBlsAggregate = F3.SkelTie.SkelBls.skelBlsAggregateExpected ∧
    F3.Gen.SkelBls.skelBlsVerifyAggregate = F3.SkelTie.SkelBls.skelBlsVerifyAggregateExpected ∧
    F3.Gen.SkelBls.skelBlsNewAggregate = F3.SkelTie.SkelBls.skelBlsNewAggregateExpected ∧
    F3.Gen.SkelBls.skelBlsVerify = F3.SkelTie.SkelBls.skelBlsVerifyExpected ∧
    F3.Gen.SkelBls.skelBlsPubkeyToPoint = F3.SkelTie.SkelBls.skelBlsPubkeyToPointExpected :=
  ⟨F3.SkelTie.SkelBls.skelBlsAggregate_expected, F3.SkelTie.SkelBls.skelBlsVerifyAggregate_expected, F3.SkelTie.SkelBls.skelBlsNewAggregate_expected, F3.SkelTie.SkelBls.skelBlsVerify_expected, F3.SkelTie.SkelBls.skelBlsPubkeyToPoint_expected⟩

end SkeletonsBls
end F3.Props.C05
