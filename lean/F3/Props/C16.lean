import F3.Proofs.SkelTieCertX
import F3.Model.CertX
import F3.Spec.CertX
import F3.Proofs.CertX
import F3.Proofs.CertXPoll
import F3.Proofs.CertXGen
import F3.Spec.CertXArrivals
import F3.Proofs.CertXArrivals
/-!
# C16 — Certificate exchange serves exact store slices; pollers store only verified certificates

About the executable model `F3/Model/CertX.lean` (driven against `certexchange.Server`,
`certexchange.Client` and `polling.Poller` by `lean/Driver/CertX.lean`). Instance numbers are
`uint64` in the code; the theorems assume the store does not reach `2^64` (`NoWrap`), the model and
the correspondence check cover the wrap-around behaviour itself.
-/
namespace F3.Props.C16
open F3.Certs F3.CertX

/-- the store's instance numbers stay below `2^64` -/
def NoWrap (s : Store) : Prop := s.first + s.certs.length < 2 ^ 64

/-- **The response is a slice of the store.** Whatever is served is, in order, the stored
certificates at instances `first, first+1, …`; at most `min limit 256` of them; every one of them
below the advertised pending instance, which is the store's. -/
theorem serve_slice (s : Store) (r : Request) (h : Header) (cs : List Cert) (hs : NoWrap s)
    (hserve : serve s r = some (h, cs)) :
    cs.length ≤ min r.limit maxResponseLen ∧ h.pending = s.pending ∧
    ∀ i (hi : i < cs.length),
      s.first ≤ r.first ∧ s.certs[r.first - s.first + i]? = some cs[i] ∧ r.first + i < h.pending := by
  unfold serve at hserve
  simp only at hserve
  split at hserve
  · cases hserve
  · rename_i pt hpt
    simp only [Option.some.injEq, Prod.mk.injEq] at hserve
    obtain ⟨hh, hcs⟩ := hserve
    subst hh
    by_cases hc : r.first < s.pending ∧ 0 < min r.limit maxResponseLen
    · have hc' : (decide (r.first < s.pending) && decide (0 < min r.limit maxResponseLen)) = true := by
        simp [hc.1, hc.2]
      simp only [hc', if_true] at hcs
      have hpe := pending_eq hs
      have hne : s.certs.isEmpty = false := by
        cases hce : s.certs.isEmpty with
        | false => rfl
        | true => rw [hce] at hpe; simp only [if_true] at hpe; omega
      rw [hne] at hpe; simp only [Bool.false_eq_true, if_false] at hpe
      have hml : min r.limit maxResponseLen ≤ 256 := by unfold maxResponseLen; omega
      have hend := serveEnd_eq hc.2 hml hc.1 (by unfold NoWrap at hs; omega)
      by_cases hlow : r.first < s.first
      · rw [getRange_below s _ _ hlow] at hcs
        subst hcs
        exact ⟨by simp, rfl, fun i hi => by simp at hi⟩
      · have hfirst : s.first ≤ r.first := by omega
        have hle : r.first ≤ serveEnd r.first (min r.limit maxResponseLen) s.pending := by
          rw [hend]; omega
        have hlen := getRange_length s r.first _ hle hfirst
        rw [hcs, hend] at hlen
        refine ⟨by omega, rfl, ?_⟩
        intro i hi
        have hget := getRange_get s r.first _ i hle hfirst (by rw [hcs]; exact hi)
        rw [hcs] at hget
        refine ⟨hfirst, ?_, ?_⟩
        · rw [← hget]; exact (List.getElem?_eq_getElem hi)
        · show r.first + i < s.pending
          omega
    · have hc' : (decide (r.first < s.pending) && decide (0 < min r.limit maxResponseLen)) = false := by
        rw [Bool.eq_false_iff]; intro hh
        simp only [Bool.and_eq_true, decide_eq_true_eq] at hh
        exact hc hh
      simp only [hc', Bool.false_eq_true, if_false] at hcs
      subst hcs
      exact ⟨by simp, rfl, fun i hi => by simp at hi⟩

/-- **Exact count**: the honest server sends everything it has from `first` up to the limit. -/
theorem serve_count (s : Store) (r : Request) (h : Header) (cs : List Cert) (hs : NoWrap s)
    (hserve : serve s r = some (h, cs)) :
    cs.length = if s.first ≤ r.first ∧ r.first < s.pending
      then min (min r.limit maxResponseLen) (s.pending - r.first) else 0 := by
  unfold serve at hserve
  simp only at hserve
  split at hserve
  · cases hserve
  · rename_i pt hpt
    simp only [Option.some.injEq, Prod.mk.injEq] at hserve
    obtain ⟨hh, hcs⟩ := hserve
    by_cases hc : r.first < s.pending ∧ 0 < min r.limit maxResponseLen
    · have hc' : (decide (r.first < s.pending) && decide (0 < min r.limit maxResponseLen)) = true := by
        simp [hc.1, hc.2]
      simp only [hc', if_true] at hcs
      have hpe := pending_eq hs
      have hne : s.certs.isEmpty = false := by
        cases hce : s.certs.isEmpty with
        | false => rfl
        | true => rw [hce] at hpe; simp only [if_true] at hpe; omega
      rw [hne] at hpe; simp only [Bool.false_eq_true, if_false] at hpe
      have hml : min r.limit maxResponseLen ≤ 256 := by unfold maxResponseLen; omega
      have hend := serveEnd_eq hc.2 hml hc.1 (by unfold NoWrap at hs; omega)
      by_cases hlow : r.first < s.first
      · rw [getRange_below s _ _ hlow] at hcs
        subst hcs
        have : ¬ (s.first ≤ r.first ∧ r.first < s.pending) := by omega
        simp [this]
      · have hfirst : s.first ≤ r.first := by omega
        have hle : r.first ≤ serveEnd r.first (min r.limit maxResponseLen) s.pending := by
          rw [hend]; omega
        have hlen := getRange_length s r.first _ hle hfirst
        rw [hcs, hend] at hlen
        have : (s.first ≤ r.first ∧ r.first < s.pending) := ⟨hfirst, hc.1⟩
        simp only [this, and_self, if_true]
        omega
    · have hc' : (decide (r.first < s.pending) && decide (0 < min r.limit maxResponseLen)) = false := by
        rw [Bool.eq_false_iff]; intro hh
        simp only [Bool.and_eq_true, decide_eq_true_eq] at hh
        exact hc hh
      simp only [hc', Bool.false_eq_true, if_false] at hcs
      subst hcs
      simp only [List.length_nil]
      split
      · rename_i hh; omega
      · rfl

/-- **Power table on request**: the header carries the store's table for `first` exactly when it was
asked for and `first` is not beyond the pending instance; a request that cannot be answered that way
fails without a header. -/
theorem serve_pt (s : Store) (r : Request) :
    (∀ h cs, serve s r = some (h, cs) →
      h.pt = if r.includePT ∧ r.first ≤ s.pending then s.getPowerTable r.first else none) ∧
    (serve s r = none ↔ r.includePT = true ∧ r.first ≤ s.pending ∧ s.getPowerTable r.first = none) := by
  unfold serve
  simp only
  by_cases hc : r.first ≤ s.pending ∧ r.includePT = true
  · have hc' : (decide (r.first ≤ s.pending) && r.includePT) = true := by simp [hc.1, hc.2]
    simp only [hc', if_true]
    cases hg : s.getPowerTable r.first with
    | none =>
      simp only
      refine ⟨fun h cs hh => (by cases hh), ?_⟩
      simp [hc.1, hc.2]
    | some t =>
      simp only
      constructor
      · intro h cs hh
        simp only [Option.some.injEq, Prod.mk.injEq] at hh
        rw [← hh.1]
        simp [hc.1, hc.2]
      · simp
  · have hc' : (decide (r.first ≤ s.pending) && r.includePT) = false := by
      rw [Bool.eq_false_iff]; intro hh
      simp only [Bool.and_eq_true, decide_eq_true_eq] at hh
      exact hc hh
    simp only [hc', Bool.false_eq_true, if_false]
    constructor
    · intro h cs hh
      simp only [Option.some.injEq, Prod.mk.injEq] at hh
      rw [← hh.1]
      have : ¬ (r.includePT = true ∧ r.first ≤ s.pending) := fun x => hc ⟨x.2, x.1⟩
      simp [this]
    · simp only [reduceCtorEq, false_iff]
      intro x; exact hc ⟨x.2.1, x.1⟩

/-- **The client rejects out-of-sequence responses**: whatever the peer sends, what the client hands
on is at most `limit` certificates, numbered `first, first+1, …` (mod 2^64), a prefix of the decodable
part of the stream; and it stops only at the end of the stream, at the limit, at an undecodable item
or at a certificate with the wrong instance. -/
theorem client_rejects_out_of_sequence (first limit : Nat) (items : List (Option Cert)) :
    (clientRecv first limit 0 items).length ≤ limit ∧
    (∀ j (hj : j < (clientRecv first limit 0 items).length),
      ((clientRecv first limit 0 items)[j]).inst = u64 (first + j)) ∧
    ((clientRecv first limit 0 items).map some) <+: items ∧
    ((clientRecv first limit 0 items).length = items.length ∨
      limit ≤ (clientRecv first limit 0 items).length ∨
      items[(clientRecv first limit 0 items).length]? = some none ∨
      ∃ c, items[(clientRecv first limit 0 items).length]? = some (some c) ∧
        c.inst ≠ u64 (first + (clientRecv first limit 0 items).length)) := by
  refine ⟨?_, ?_, clientRecv_prefix first limit 0 items, ?_⟩
  · have := clientRecv_length first limit 0 items; omega
  · intro j hj
    have := clientRecv_seq first limit 0 items j hj
    simpa using this
  · have := clientRecv_stop first limit 0 items
    simpa using this

/-- the store's certificates carry the instance numbers of their positions -/
def Contig (s : Store) : Prop := ∀ j (hj : j < s.certs.length), s.certs[j].inst = s.first + j

/-- **Honest server through the real client**: the client hands on exactly what the server sent
(nothing is cut as out of sequence), so the API-level result is the same store slice. -/
theorem client_server_roundtrip (s : Store) (r : Request) (h : Header) (cs : List Cert) (hs : NoWrap s)
    (hcontig : Contig s) (hserve : serve s r = some (h, cs)) :
    clientRecv r.first r.limit 0 (cs.map some) = cs := by
  obtain ⟨hlen, hpend, hget⟩ := serve_slice s r h cs hs hserve
  -- generalised over the number already received
  have key : ∀ (k : Nat) (l : List Cert), k + l.length ≤ r.limit →
      (∀ i (hi : i < l.length), l[i].inst = u64 (r.first + (k + i))) →
      clientRecv r.first r.limit k (l.map some) = l := by
    intro k l
    induction l generalizing k with
    | nil => intro _ _; rfl
    | cons c l ih =>
      intro hk hinst
      simp only [List.map_cons]
      have h0 : c.inst = u64 (r.first + k) := by
        have := hinst 0 (by simp)
        simp only [List.getElem_cons_zero, Nat.add_zero] at this
        exact this
      rw [clientRecv_ok (by simp only [List.length_cons] at hk; omega) h0]
      congr 1
      apply ih (k + 1) (by simp only [List.length_cons] at hk; omega)
      intro i hi
      have := hinst (i + 1) (by simp only [List.length_cons]; omega)
      simp only [List.getElem_cons_succ] at this
      rw [this]; congr 1; omega
  apply key 0 cs (by omega)
  intro i hi
  obtain ⟨hfirst, hstored, hlt⟩ := hget i hi
  have hj : r.first - s.first + i < s.certs.length := by
    by_cases hjj : r.first - s.first + i < s.certs.length
    · exact hjj
    · rw [List.getElem?_eq_none (by omega)] at hstored; cases hstored
  rw [List.getElem?_eq_getElem hj] at hstored
  have hc := hcontig _ hj
  rw [Option.some.inj hstored] at hc
  rw [hc]
  unfold NoWrap at hs
  unfold u64
  rw [Nat.mod_eq_of_lt (by omega)]
  omega

/-! ## The poller -/

open F3.Spec.Certs F3.Spec.CertX

/-- **A polling node stores only certificates that validate against its own current power table and
advances exactly by them — whatever the peer sends.** For every responder (any function from the
request to a response stream: forged, reordered, duplicated, truncated, oversized, any advertised
pending instance, over any number of requests): the store afterwards is the store before extended
by certificates `acc` that validate one after another from the poller's `NextInstance` /
`PowerTable`; `NextInstance` / `PowerTable` afterwards are exactly the instance / table reached by
`acc`; the poller is again consistent with its store; and `NewCertificates` counts `acc`. -/
theorem poll_stores_valid_prefix (net : Nat) (respond : Nat → Nat → Resp) (fuel n : Nat)
    (st : PState) (res : PollRes) (hc : Consistent st)
    (hroom : st.store.nextInst + fuel * maxRequestLength < 2 ^ 64)
    (st' : PState) (res' : PollRes) (h : poll net respond fuel n st res = (st', res')) :
    ∃ acc, st'.store = { st.store with certs := st.store.certs ++ acc } ∧
      PollRun net (st.next, st.table) acc (st'.next, st'.table) ∧ Consistent st' ∧
      res'.newCerts = res.newCerts + acc.length :=
  poll_spec net respond fuel n st res hc hroom st' res' h

/-- **Per response: the longest valid prefix, and the classification.** Processing the certificates
`ds` the client hands on for one response stores a prefix `acc` of them, all valid in sequence, and
stops exactly when: the stream is exhausted (`cont`); or the next certificate is *not* valid for the
poller's table and instance — then the status is `illegal` and nothing of it is stored; or the next
certificate is valid but would leave an empty power table, which the store refuses — an internal
error. So `acc` is the longest valid prefix of `ds` (up to the empty-table refusal). -/
theorem poll_response_prefix (net : Nat) (st : PState) (res : PollRes) (ds : List Cert)
    (hc : Consistent st) (hroom : st.store.nextInst + ds.length < 2 ^ 64) :
    ∃ st' res' out acc rest, pollCerts net st res ds = (st', res', out) ∧ ds = acc ++ rest ∧
      st'.store = { st.store with certs := st.store.certs ++ acc } ∧
      PollRun net (st.next, st.table) acc (st'.next, st'.table) ∧ Consistent st' ∧
      (out = .cont → rest = [] ∧ res'.status = res.status) ∧
      (out = .illegal → ∃ c rest', rest = c :: rest' ∧
        (∀ nt, ¬ CertValid net st'.table st'.next none c nt) ∧ res'.status = .illegal) ∧
      (out = .internal → ∃ c rest', rest = c :: rest' ∧
        CertValid net st'.table st'.next none c [] ∧ res'.internal = true) := by
  obtain ⟨st', res', out, acc, rest, hp, ho⟩ := pollCerts_spec net st res ds hc hroom
  refine ⟨st', res', out, acc, rest, hp, ho.split, ho.store, ho.run, ho.cons, ?_, ?_, ?_⟩
  · intro h; exact ⟨(ho.cont h).1, (ho.cont h).2.1⟩
  · intro h
    obtain ⟨c, rest', h1, h2, h3, _⟩ := ho.illegal h
    exact ⟨c, rest', h1, h2, h3⟩
  · exact ho.internal

/-- One round of `Poll` from a consistent state, spelled out (status classification): a failed
request is `failed`; otherwise `hit` is recorded iff the peer's pending instance is not behind ours,
the delivered certificates are processed as in `poll_response_prefix`, and the loop continues only
if the peer claims more and gave at least one certificate. -/
theorem poll_round (net : Nat) (respond : Nat → Nat → Resp) (fuel n : Nat) (st : PState) (res : PollRes)
    (hc : Consistent st) (hroom : st.store.nextInst < 2 ^ 64) :
    poll net respond (fuel + 1) n st res =
      match respond n st.next with
      | .fail => (st, { res with status := .failed })
      | .ok pending items =>
        match pollCerts net st (if st.next ≤ pending then { res with status := .hit } else res)
            (clientRecv st.next maxRequestLength 0 items) with
        | (st', res', .cont) =>
          if pending ≤ st'.next then (st', res')
          else if res'.received = res.received then (st', { res' with status := .failed })
          else poll net respond fuel (n + 1) st' res'
        | (st', res', _) => (st', res') := by
  rw [poll, catchUp_consistent hc hroom]
  simp only
  cases respond n st.next with
  | fail => rfl
  | ok pending items => rfl

/-- A poller created from a store (with a canonical initial table) starts consistent. -/
theorem new_poller_consistent (s : Store) (st : PState) (hw : NoWrap s)
    (hinit : applyDiff s.init [] = .ok s.init) (h : newPoller s = some st) : Consistent st :=
  newPoller_consistent hw hinit h

/-- Whatever the batch validator of C04 accepts (from any base), the poller accepts certificate by
certificate. (The converse does not hold: the poller passes no base tipset, so it does not check
that consecutive chains link; linkage of quorum-signed decisions is a consequence of agreement,
C01/C03, not of this check.) -/
theorem validRun_pollRun (net : Nat) (s s' : VState) (cs : List Cert)
    (h : ValidRun net s cs s') : PollRun net (s.next, s.table) cs (s'.next, s'.table) := by
  induction h with
  | nil s => exact PollRun.nil _
  | @cons s c nt cs s' hv _ ih =>
    refine PollRun.cons ⟨hv.inst, hv.chain_valid, hv.chain_nonempty, ?_, hv.signed, hv.delta, hv.committed⟩ ih
    intro b hb; cases hb

/-- `CatchUp` after certificates reached the store through another channel (GPBFT itself): the
poller jumps to the store's next instance and latest table, and is consistent again. -/
theorem catchUp_resync (st : PState) (lt : Table) (hw : NoWrap st.store)
    (hne : st.store.certs ≠ []) (hlt : st.store.latestTable = some lt)
    (hcanon : applyDiff lt [] = .ok lt) (hbehind : st.next ≠ st.store.nextInst) :
    catchUp st = some ⟨st.store.nextInst, lt, st.store⟩ ∧
      Consistent ⟨st.store.nextInst, lt, st.store⟩ := by
  have hlen : st.store.certs.length ≠ 0 := fun h => hne (List.eq_nil_of_length_eq_zero h)
  have hp : 0 < st.store.nextInst := by unfold Store.nextInst; omega
  have hu : u64 (st.store.nextInst - 1 + 1) = st.store.nextInst := by
    rw [show st.store.nextInst - 1 + 1 = st.store.nextInst by omega]
    exact u64_of_lt (by unfold NoWrap at hw; unfold Store.nextInst; exact hw)
  refine ⟨?_, ⟨rfl, hlt, hcanon⟩⟩
  unfold catchUp
  rw [latest?_eq]
  simp only [hlen, if_false, hu]
  have hne' : ¬ st.store.nextInst = st.next := fun h => hbehind h.symm
  simp only [hne', if_false]
  unfold Store.latestTable at hlt
  rw [hlt]

/-- What `PollRun` means, unrolled: the accepted certificates have consecutive instance numbers
from `NextInstance` and each is a valid certificate for the table reached by its predecessors. -/
theorem pollRun_instances (net : Nat) (x y : Nat × Table) (acc : List Cert) (h : PollRun net x acc y)
    (hx : x.1 < 2 ^ 64) :
    (∀ i (hi : i < acc.length), acc[i].inst = u64 (x.1 + i)) ∧ y.1 = u64 (x.1 + acc.length) := by
  induction h with
  | nil x => simp [u64]; omega
  | @cons n t nt c cs y hv hrun ih =>
    have hlt : u64 (n + 1) < 2 ^ 64 := by unfold u64; omega
    obtain ⟨ih1, ih2⟩ := ih hlt
    simp only at hx ih1 ih2 ⊢
    constructor
    · intro i hi
      cases i with
      | zero => simp only [List.getElem_cons_zero, Nat.add_zero]; rw [hv.inst]; unfold u64; omega
      | succ j =>
        simp only [List.getElem_cons_succ]
        rw [ih1 j (by simpa using hi)]
        unfold u64; omega
    · rw [ih2, List.length_cons]; unfold u64; omega

/-! ### Non-vacuity -/

deriving instance DecidableEq for Except

namespace Ex
def t : Table := [⟨1, 30, 7⟩, ⟨2, 20, 8⟩]
def b (e : Int) : Tip := ⟨e, 1, 8, 1, 38, 0⟩
def c (i : Nat) : Cert :=
  ⟨i, [b (i : Int), b ((i : Int) + 1)], 0, CidTok.table t, some [0, 1], SigTok.garbage 0, []⟩
def st : Store := ⟨3, t, [c 3, c 4, c 5, c 6]⟩
end Ex

example : serve Ex.st ⟨4, 2, true⟩ = some (⟨7, some Ex.t⟩, [Ex.c 4, Ex.c 5]) := by decide
example : serve Ex.st ⟨4, 0, false⟩ = some (⟨7, none⟩, []) := by decide
example : serve Ex.st ⟨5, 1000, false⟩ = some (⟨7, none⟩, [Ex.c 5, Ex.c 6]) := by decide
example : serve Ex.st ⟨7, 5, true⟩ = some (⟨7, some Ex.t⟩, []) := by decide
example : serve Ex.st ⟨2, 5, true⟩ = none := by decide
example : clientRecv 4 3 0 [some (Ex.c 4), some (Ex.c 5), some (Ex.c 5), some (Ex.c 7)] = [Ex.c 4, Ex.c 5] := by
  decide
example : clientRecv 4 1 0 [some (Ex.c 4), some (Ex.c 5)] = [Ex.c 4] := by decide


namespace Ex
def t0 : Table := [⟨1, 30, 7⟩, ⟨2, 20, 8⟩, ⟨3, 10, 9⟩]
def mk (inst : Nat) (ss : List Nat) (net : Nat) : Cert :=
  { inst := inst, chain := [b (inst : Int), b ((inst : Int) + 1)], comm := 0, pt := CidTok.table t0,
    signers := some ss,
    sig := SigTok.agg (ss.map (fun i => (i, keyAt t0 i)))
      ⟨net, inst, 0, decidePhase, 0, CidTok.table t0, [b (inst : Int), b ((inst : Int) + 1)]⟩,
    delta := [] }
def p0 : PState := ⟨0, t0, ⟨0, t0, []⟩⟩
end Ex

-- a consistent poller, and a Byzantine stream: two good certificates, one signed for another
-- network, one more good one. Exactly the first two are stored; the peer is classified illegal.
example : newPoller ⟨0, Ex.t0, []⟩ = some Ex.p0 := by decide
example : applyDiff Ex.t0 [] = .ok Ex.t0 := by decide
example : poll 1 (scriptResponder [.ok 4 [some (Ex.mk 0 [0, 1] 1), some (Ex.mk 1 [0, 1] 1),
      some (Ex.mk 2 [0, 1] 2), some (Ex.mk 3 [0, 1] 1)]]) 5 0 Ex.p0 {} =
    (⟨2, Ex.t0, ⟨0, Ex.t0, [Ex.mk 0 [0, 1] 1, Ex.mk 1 [0, 1] 1]⟩⟩,
     { status := .illegal, received := 2, newCerts := 2, internal := false }) := by decide
-- out of sequence (instance 1 first): the client drops everything; the peer claimed more: failed
example : (poll 1 (scriptResponder [.ok 4 [some (Ex.mk 1 [0, 1] 1)]]) 5 0 Ex.p0 {}).2.status = .failed := by
  decide
-- honest two-request catch-up
example : (poll 1 (scriptResponder [.ok 2 [some (Ex.mk 0 [0, 1] 1)], .ok 2 [some (Ex.mk 1 [0, 1] 1)]])
    5 0 Ex.p0 {}).1.next = 2 := by decide

/-! ## Regenerated: the range arithmetic of `handleRequest` as it stands in `certexchange/server.go`

`F3.Gen.CertX.{serveLimit, servePending, servePowerTableGuard, serveCertsGuard, serveEnd}` are translated
from the source on every run (`tools/go2lean/targets.d/CertX.json`; `maxResponseLen` is read from the
source too): the clamp of `limit`, `PendingInstance = latest + 1`, the two guards, and
`end := first + limit - 1` with its clamp — all `uint64`, wrap included. -/

/-- `handleRequest` with every piece of its range arithmetic replaced by the regenerated definition; the
store calls (`Latest`, `GetPowerTable`, `GetRange`) are the model's. -/
def serveGen (s : Store) (r : Request) : Option (Header × List Cert) :=
  let limit := F3.Gen.CertX.serveLimit r.limit
  let pending := F3.Gen.CertX.servePending ((s.latest?.getD 0 : Nat) : Int) s.latest?.isSome 0
  let pt : Option (Option Table) :=
    if F3.Gen.CertX.servePowerTableGuard r.first r.includePT pending then
      match s.getPowerTable r.first with
      | none => none
      | some t => some (some t)
    else some none
  match pt with
  | none => none
  | some pt =>
    let certs :=
      if F3.Gen.CertX.serveCertsGuard limit r.first pending then
        s.getRange r.first (F3.Gen.CertX.serveEnd limit r.first pending).toNat
      else []
    some (⟨pending.toNat, pt⟩, certs)

/-- **The model's `serve` is the source's arithmetic.** For every store whose latest instance is a
`uint64` and every request with `uint64` fields — including `first + limit` wrapping around and
`latest = 2^64 - 1` — the hand-written `serve` (about which `serve_slice`, `serve_count`, … are stated and
which the driver executes) equals `handleRequest` assembled from the definitions regenerated from
`server.go`. An edit of the clamp, of a guard or of the `end` computation either keeps this or breaks it. -/
theorem serve_is_regenerated (s : Store) (r : Request) (hf : r.first < 2 ^ 64) (hl : r.limit < 2 ^ 64)
    (hlat : ∀ l, s.latest? = some l → l < 2 ^ 64) : serve s r = serveGen s r := by
  unfold serve serveGen
  have hp : s.pending < 2 ^ 64 := by
    unfold Store.pending
    split
    · unfold F3.Certs.u64; omega
    · omega
  have hmin : min r.limit maxResponseLen < 2 ^ 64 := by omega
  have hcerts : (if (decide (r.first < s.pending) && decide (0 < min r.limit maxResponseLen)) = true then
        s.getRange r.first (serveEnd r.first (min r.limit maxResponseLen) s.pending) else []) =
      (if (decide (r.first < s.pending) && decide (0 < min r.limit maxResponseLen)) = true then
        s.getRange r.first
          (F3.Gen.CertX.serveEnd ((min r.limit maxResponseLen : Nat) : Int) r.first s.pending).toNat else []) := by
    by_cases hc : (decide (r.first < s.pending) && decide (0 < min r.limit maxResponseLen)) = true
    · have hc' := hc
      simp only [Bool.and_eq_true, decide_eq_true_eq] at hc'
      rw [if_pos hc, if_pos hc, F3.Proofs.CertXGen.serveEnd_eq _ _ _ hf hp hmin hc'.1 hc'.2, Int.toNat_natCast]
    · rw [if_neg hc, if_neg hc]
  simp only [F3.Proofs.CertXGen.serveLimit_eq, F3.Proofs.CertXGen.servePending_eq s hlat,
    F3.Proofs.CertXGen.servePowerTableGuard_eq, F3.Proofs.CertXGen.serveCertsGuard_eq, Int.toNat_natCast]
  rw [hcerts]
  rfl

-- non-vacuity: a served range, the limit clamp, an empty range; and the wrap-around of `first + limit`
example : serveGen Ex.st ⟨4, 2, true⟩ = some (⟨7, some Ex.t⟩, [Ex.c 4, Ex.c 5]) ∧
    serveGen Ex.st ⟨5, 1000, false⟩ = some (⟨7, none⟩, [Ex.c 5, Ex.c 6]) ∧
    serveGen Ex.st ⟨7, 5, true⟩ = some (⟨7, some Ex.t⟩, []) := by decide
example : F3.Gen.CertX.serveEnd 256 (2 ^ 64 - 10) (2 ^ 64 - 1) = 2 ^ 64 - 2 ∧
    F3.Gen.CertX.serveEnd 2 4 7 = 5 ∧ F3.Gen.CertX.serveLimit 1000 = 256 := by decide

/-! ## Polling while certificates also reach the store through another channel

`pollWithArrivals` (driven by the correspondence check as well): after `CatchUp` of the first request and
before its response is read, `arrivals` are `Put` into the poller's own store by somebody else (GPBFT
finalising the instance itself). This is the only window in which a received certificate can already be in
the store — the `isFresh = false` branch of `Poll`, which must still advance `NextInstance` **and**
`PowerTable`. `st0` is the poller after `CatchUp`, `pre = putAll st0.store arrivals` its store once the
arrivals are in (what the store refuses is ignored), `handedOver respond st0.next` what `Client.Request`
gives to `Poll` out of the answer to the first request. -/
section Arrivals
open F3.Spec.Certs F3.Spec.CertX

/-- **Whatever a peer sends and whatever arrives meanwhile, the poller stores only certificates that
validate against its own current power table, in sequence.** For every responder, fuel, list of arrivals:
the arrivals only append to the store (`added`, a sublist of them); the final store is `pre` extended by
`new`; the poller first walks over `skipped` — a prefix of what the client handed over, all for instances
`pre` already holds, each validated by `stepCert` from the poller's instance / table at that point and *not*
stored — reaching instance `m` with table `tm`; and `new` validates in sequence either from there (then `m`
is the store's next instance as soon as anything is stored) or, when the first response ended before the
poller reached the head of its store, from the store's own head `(pre.nextInst, latest table)` to which
`CatchUp` of the second request took it. As soon as anything is stored the poller is `Consistent` with its
store again — without any assumption on the peer: `Put` re-checks the delta and the table commitment
against the store's own latest table. `NewCertificates` counts `new`. -/
theorem poll_with_arrivals_store (net : Nat) (respond : Nat → Nat → Resp) (fuel : Nat) (arrivals : List Cert)
    (st st0 : PState) (res : PollRes) (hcu : catchUp st = some st0) (hc : Consistent st0)
    (hroom : st0.store.nextInst + arrivals.length + (fuel + 1) * maxRequestLength < 2 ^ 64)
    (st' : PState) (res' : PollRes) (h : pollWithArrivals net respond fuel arrivals st res = (st', res')) :
    (∃ added, added.Sublist arrivals ∧
      putAll st0.store arrivals = { st0.store with certs := st0.store.certs ++ added }) ∧
    ∃ skipped new m tm,
      st'.store = { putAll st0.store arrivals with certs := (putAll st0.store arrivals).certs ++ new } ∧
      skipped <+: handedOver respond st0.next ∧
      (∀ c ∈ skipped, c.inst < (putAll st0.store arrivals).nextInst) ∧
      PollRun net (st0.next, st0.table) skipped (m, tm) ∧
      ((PollRun net (m, tm) new (st'.next, st'.table) ∧ (new ≠ [] → m = (putAll st0.store arrivals).nextInst)) ∨
       (m < (putAll st0.store arrivals).nextInst ∧
          ∃ lt, (putAll st0.store arrivals).latestTable = some lt ∧
            PollRun net ((putAll st0.store arrivals).nextInst, lt) new (st'.next, st'.table))) ∧
      (new ≠ [] → Consistent st') ∧ res'.newCerts = res.newCerts + new.length := by
  obtain ⟨added, hshape, hsub, _⟩ := putAll_shape st0.store arrivals
  refine ⟨⟨added, hsub, hshape⟩, ?_⟩
  obtain ⟨skipped, new, m, tm, hstore, hpre, hrunS, hmid, hmle, _, hnc, hcons, hd⟩ :=
    pollWithArrivals_spec net respond fuel arrivals st st0 res hcu hc hroom st' res' h
  have hlen : added.length ≤ arrivals.length := hsub.length_le
  have hnext : (putAll st0.store arrivals).nextInst = st0.store.nextInst + added.length := by
    rw [hshape]; unfold Store.nextInst; simp only [List.length_append]; omega
  refine ⟨skipped, new, m, tm, hstore, hpre, ?_, hrunS, ?_, hcons, hnc⟩
  · intro c hc'
    exact (pollRun_inst_lt hrunS _ (by show st0.next + skipped.length ≤ _; omega) (by omega) c hc').2
  · rcases hd with hd | ⟨h1, _, h2⟩
    · exact Or.inl hd
    · exact Or.inr ⟨h1, h2⟩

/-- **… and advances exactly to a point of its store**, provided the certificates the peer sends for
instances the store already holds carry the stored power-table deltas (`Genuine`; implied by "they are the
stored certificates", `GenuineEq`, and with less than a third of faulty power two validly signed
certificates for one instance decide the same value, hence commit to the same next table). Then afterwards
`NextInstance` has not moved back, is at most the store's next instance, and `PowerTable` is the store's
table for `NextInstance` — in whichever branch (`isFresh` or not) each certificate was processed. This is
exactly what `CatchUp` needs to make the poller `Consistent` again (`in_sync_catch_up`), and it survives
the store growing further (`in_sync_store_grows`). Without `Genuine` the statement is false: see the
`example` after `Ex.forged`. -/
theorem poll_with_arrivals_in_sync (net : Nat) (respond : Nat → Nat → Resp) (fuel : Nat) (arrivals : List Cert)
    (st st0 : PState) (res : PollRes) (hcu : catchUp st = some st0) (hc : Consistent st0)
    (hroom : st0.store.nextInst + arrivals.length + (fuel + 1) * maxRequestLength < 2 ^ 64)
    (hg : Genuine (putAll st0.store arrivals) (handedOver respond st0.next))
    (st' : PState) (res' : PollRes) (h : pollWithArrivals net respond fuel arrivals st res = (st', res')) :
    st0.next ≤ st'.next ∧ st'.next ≤ st'.store.nextInst ∧
      st'.store.getPowerTable st'.next = some st'.table ∧ InSync st' := by
  obtain ⟨hs, hle⟩ := pollWithArrivals_inSync net respond fuel arrivals st st0 res hcu hc hroom hg st' res' h
  exact ⟨hle, hs.hi, hs.table, hs⟩

/-- the hypothesis of `poll_with_arrivals_in_sync` in its familiar form: the peer sends, for instances the
store holds, the stored certificates -/
theorem genuine_of_stored (s : Store) (ds : List Cert) (h : GenuineEq s ds) : Genuine s ds :=
  genuine_of_eq h

/-- **No arrivals: the old `Poll`.** `pollWithArrivals` conservatively extends `poll`. -/
theorem poll_with_arrivals_no_arrivals (net : Nat) (respond : Nat → Nat → Resp) (fuel : Nat) (st : PState)
    (res : PollRes) : pollWithArrivals net respond fuel [] st res = poll net respond (fuel + 1) 0 st res := by
  rw [pollWithArrivals_eq, poll]
  cases catchUp st with
  | none => rfl
  | some st0 => rfl

/-- a poller that is a point of its store is made `Consistent` by the `CatchUp` at the start of the next
`Poll` (so the precondition `hcu`/`hc` of the two theorems above is what the previous poll left behind) -/
theorem in_sync_catch_up (st st0 : PState) (hs : InSync st) (hw : NoWrap st.store)
    (h : catchUp st = some st0) : Consistent st0 ∧ st0.store = st.store :=
  catchUp_of_inSync hs (by unfold NoWrap at hw; unfold Store.nextInst; exact hw) h

/-- … and stays a point of its store when the store grows behind its back -/
theorem in_sync_store_grows (st : PState) (hs : InSync st) (ext : List Cert) :
    InSync { st with store := { st.store with certs := st.store.certs ++ ext } } :=
  inSync_grow hs ext

/-! ### Non-vacuity: a store whose table evolves -/

namespace Ex
def t1 : Table := [⟨1, 30, 7⟩, ⟨2, 20, 8⟩, ⟨3, 15, 9⟩]
def t2 : Table := [⟨1, 30, 7⟩, ⟨3, 15, 9⟩]
/-- certificate for `inst`, signed (network 1) by the signers `ss` of table `t`, moving the table to `nt` -/
def mkD (inst : Nat) (t nt : Table) (delta : Diff) (ss : List Nat) : Cert :=
  { inst := inst, chain := [b (inst : Int), b ((inst : Int) + 1)], comm := 0, pt := CidTok.table nt,
    signers := some ss,
    sig := SigTok.agg (ss.map (fun i => (i, keyAt t i)))
      ⟨1, inst, 0, decidePhase, 0, CidTok.table nt, [b (inst : Int), b ((inst : Int) + 1)]⟩,
    delta := delta }
def d0 : Cert := mkD 0 t0 t0 [] [0, 1]
/-- participant 3 gains power: `t0 → t1` -/
def d1 : Cert := mkD 1 t0 t1 [⟨3, 5, 0⟩] [0, 1]
def d2 : Cert := mkD 2 t1 t1 [] [0, 1]
/-- participant 2 leaves: `t1 → t2` -/
def d3 : Cert := mkD 3 t1 t2 [⟨2, -20, 0⟩] [0, 1]
/-- signed by participants 1 and 3 — a quorum of `t2` only -/
def d4 : Cert := mkD 4 t2 t2 [] [0, 1]
/-- the poller: two certificates stored, the second changed the table -/
def q0 : PState := ⟨2, t1, ⟨0, t0, [d0, d1]⟩⟩
/-- the peer serves three certificates from the poller's `NextInstance` -/
def peer : Nat → Nat → Resp := scriptResponder [.ok 5 [some d2, some d3, some d4]]
/-- another decision of instance 1: the table stays `t0` -/
def d1' : Cert := mkD 1 t0 t0 [] [0, 1]
/-- what a peer sends for instance 1 when the store holds `d1'`: validly signed under `t0` as well, but with
another delta (`t0 → t1`) -/
def forged : Cert := mkD 1 t0 t1 [⟨3, 5, 0⟩] [0, 1]
def r0 : PState := ⟨1, t0, ⟨0, t0, [d0]⟩⟩
end Ex

-- the poller is consistent (so `CatchUp` leaves it alone) …
example : catchUp Ex.q0 = some Ex.q0 ∧ Consistent Ex.q0 :=
  ⟨by decide, ⟨by decide, by decide, by decide⟩⟩
example : Ex.q0.store.nextInst + [Ex.d2, Ex.d3].length + (5 + 1) * maxRequestLength < 2 ^ 64 := by decide
-- … instances 2 and 3 are decided locally while the request is in flight; both are accepted by the store,
-- the second changes the table
example : putAll Ex.q0.store [Ex.d2, Ex.d3] = ⟨0, Ex.t0, [Ex.d0, Ex.d1, Ex.d2, Ex.d3]⟩ := by decide
example : handedOver Ex.peer Ex.q0.next = [Ex.d2, Ex.d3, Ex.d4] := by decide
example : GenuineEq (putAll Ex.q0.store [Ex.d2, Ex.d3]) (handedOver Ex.peer Ex.q0.next) := by
  unfold GenuineEq; decide
-- the poll: 2 and 3 are validated and passed over (table moves `t1 → t1 → t2`), 4 — signed by a quorum of
-- `t2` only — is validated against `t2` and stored: received 3, new 1
example : pollWithArrivals 1 Ex.peer 5 [Ex.d2, Ex.d3] Ex.q0 {} =
    (⟨5, Ex.t2, ⟨0, Ex.t0, [Ex.d0, Ex.d1, Ex.d2, Ex.d3, Ex.d4]⟩⟩,
     { status := .hit, received := 3, newCerts := 1, internal := false }) := by decide
example : (pollWithArrivals 1 Ex.peer 5 [Ex.d2, Ex.d3] Ex.q0 {}).1.store.getPowerTable 5 = some Ex.t2 := by decide
-- `d4` does not validate against the table before the passed-over certificates: a poller that advanced
-- `NextInstance` but not `PowerTable` in the not-fresh branch would call the peer illegal
example : (pollCert 1 ⟨4, Ex.t1, ⟨0, Ex.t0, [Ex.d0, Ex.d1, Ex.d2, Ex.d3]⟩⟩ {} Ex.d4).2.2 = .illegal := by decide
-- the first response ends before the head of the store: the second request's `CatchUp` takes over
-- (second disjunct of `poll_with_arrivals_store`)
example : pollWithArrivals 1 (scriptResponder [.ok 5 [some Ex.d2], .ok 5 [some Ex.d4]]) 5 [Ex.d2, Ex.d3] Ex.q0 {} =
    (⟨5, Ex.t2, ⟨0, Ex.t0, [Ex.d0, Ex.d1, Ex.d2, Ex.d3, Ex.d4]⟩⟩,
     { status := .hit, received := 2, newCerts := 1, internal := false }) := by decide
-- no arrivals
example : pollWithArrivals 1 Ex.peer 5 [] Ex.q0 {} = poll 1 Ex.peer 6 0 Ex.q0 {} := by decide
-- `InSync` of a lagging poller, `CatchUp` from it
example : InSync (⟨2, Ex.t1, ⟨0, Ex.t0, [Ex.d0, Ex.d1, Ex.d2, Ex.d3]⟩⟩ : PState) :=
  ⟨by decide, by decide, by decide, by decide⟩
example : catchUp ⟨2, Ex.t1, ⟨0, Ex.t0, [Ex.d0, Ex.d1, Ex.d2, Ex.d3]⟩⟩ =
    some ⟨4, Ex.t2, ⟨0, Ex.t0, [Ex.d0, Ex.d1, Ex.d2, Ex.d3]⟩⟩ := by decide

/-- **Without `Genuine` the conclusion of `poll_with_arrivals_in_sync` fails.** The poller stands at
instance 1 with `t0`; instance 1 is decided locally meanwhile (`d1'`, table unchanged); the peer answers with
`forged`: another certificate for instance 1, validly signed by a quorum of `t0` (so more than a third of
the power signed two decisions), whose delta moves the table to `t1`. Every hypothesis but `Genuine` holds;
the certificate validates, is not stored (the instance is there), and the poller ends at instance 2 holding
`t1` while its store's table for instance 2 is `t0`. -/
example :
    catchUp Ex.r0 = some Ex.r0 ∧ Ex.r0.store.nextInst + [Ex.d1'].length + (5 + 1) * maxRequestLength < 2 ^ 64 ∧
    putAll Ex.r0.store [Ex.d1'] = ⟨0, Ex.t0, [Ex.d0, Ex.d1']⟩ ∧
    pollWithArrivals 1 (scriptResponder [.ok 2 [some Ex.forged]]) 5 [Ex.d1'] Ex.r0 {} =
      (⟨2, Ex.t1, ⟨0, Ex.t0, [Ex.d0, Ex.d1']⟩⟩, { status := .hit, received := 1, newCerts := 0, internal := false }) ∧
    (⟨0, Ex.t0, [Ex.d0, Ex.d1']⟩ : Store).getPowerTable 2 = some Ex.t0 ∧ Ex.t0 ≠ Ex.t1 := by decide
example : Consistent Ex.r0 := ⟨by decide, by decide, by decide⟩
example : ¬ Genuine (putAll Ex.r0.store [Ex.d1']) (handedOver (scriptResponder [.ok 2 [some Ex.forged]]) Ex.r0.next) := by
  intro hg
  obtain ⟨stored, h1, h2⟩ := hg Ex.forged (by decide) (by decide) (by decide)
  have h3 : stored = Ex.d1' := by
    have : (putAll Ex.r0.store [Ex.d1']).certs[Ex.forged.inst - (putAll Ex.r0.store [Ex.d1']).first]? = some Ex.d1' := by
      decide
    rw [this] at h1; exact (Option.some.inj h1).symm
  rw [h3] at h2
  exact absurd h2 (by decide)

end Arrivals


section EmptyResponse
open F3.CertX

/-- **A response that carries no usable certificate while advertising more ends the poll as `failed`** — whatever
the peer handed over in earlier responses of the same poll (`res` is arbitrary), no further request is sent
(the result does not depend on `fuel` or on later answers of `respond`). This is the rule the repair S14
restored: before it the Go loop tested the cumulative count, so one certificate handed over once let a peer keep
the poll spinning (replayed on the implementation by the `POLL-SPIN` oracle of `f3d_certx`). -/
theorem poll_empty_response_fails (net : Nat) (respond : Nat → Nat → Resp) (fuel n : Nat) (st st1 : PState)
    (res : PollRes) (pending : Nat) (items : List (Option Cert))
    (hc : catchUp st = some st1) (hr : respond n st1.next = .ok pending items)
    (hnone : clientRecv st1.next maxRequestLength 0 items = []) (hp : st1.next < pending) :
    poll net respond (fuel + 1) n st res = (st1, { res with status := .failed }) := by
  unfold poll
  simp only [hc, hr, hnone, pollCerts]
  have h1 : ¬ pending ≤ st1.next := by omega
  have h2 : st1.next ≤ pending := by omega
  simp only [h1, h2, if_true, if_false]

/-- a garbage-only or empty response is such a response -/
theorem clientRecv_nil (first limit : Nat) : clientRecv first limit 0 [] = [] := rfl
theorem clientRecv_garbage (first limit : Nat) (rest : List (Option Cert)) :
    clientRecv first limit 0 (none :: rest) = [] := rfl

-- non-vacuity: one genuine certificate, then "I have more" with nothing, for ever: the poll ends after the second
-- answer — same result for fuel 2 and fuel 40 (the third and later answers are never looked at), one certificate
-- received and stored
example :
    poll 1 (fun k _ => if k = 0 then .ok 9 [some Ex.d1] else .ok 9 []) 2 0 Ex.r0 {} =
      poll 1 (fun k _ => if k = 0 then .ok 9 [some Ex.d1] else .ok 9 []) 40 0 Ex.r0 {} ∧
    (poll 1 (fun k _ => if k = 0 then .ok 9 [some Ex.d1] else .ok 9 []) 40 0 Ex.r0 {}).2 =
      { status := .failed, received := 1, newCerts := 1, internal := false } := by decide

end EmptyResponse

end F3.Props.C16

namespace F3.Props.C16
section Skeletons

/-- **The Go functions this property's models mirror still have the statement structure the models were written
against**: each regenerated skeleton (pre-order list of statement kinds, `tools/go2lean/skel.go`) equals the pinned
expectation of `F3/Proofs/SkelTie*.lean`. An added early return, cap, loop or dropped branch in one of these functions
breaks this obligation even when no regenerated *expression* changes. -/
theorem code_structure_as_modelled :
    F3.Gen.SkelCertX.skelClientRequest = F3.SkelTie.SkelCertX.skelClientRequestExpected ∧
    F3.Gen.SkelCertX.skelPollerPoll = F3.SkelTie.SkelCertX.skelPollerPollExpected ∧
    F3.Gen.SkelCertX.skelNewPoller = F3.SkelTie.SkelCertX.skelNewPollerExpected :=
  ⟨F3.SkelTie.SkelCertX.skelClientRequest_expected, F3.SkelTie.SkelCertX.skelPollerPoll_expected, F3.SkelTie.SkelCertX.skelNewPoller_expected⟩

end Skeletons
end F3.Props.C16
