import F3.Proofs.SkelTieGpbft
import F3.Proofs.SkelTiePower
import F3.Spec.GraniteNet
import F3.Props.C08
import F3.Proofs.BridgeEx
import F3.Proofs.ParticipantBridge
import F3.Proofs.RestartEx
import F3.Proofs.MultiParticipantNet
import F3.Proofs.NoFailureBridge
import F3.Proofs.NoFailureBridgeP
import F3.Proofs.NetworkQuiet
import F3.Proofs.SignedNetwork
import F3.Proofs.EmittedValidBridge
import F3.Proofs.EmittedValidParticipantBridge
/-!
# C01 — Agreement

Layer A (`F3.Granite.World.decide_quorums_agree`): in any world satisfying the honest rules, two values
each backed by a strong DECIDE quorum are equal.  Layer N (`F3.Granite.inv_reachable`): the rules are an
inductive invariant of the guarded message-level network model, whatever Byzantine members (< 1/3 of
scaled power) sign and whatever the delivery schedule.  Layer B (`F3.Instance.runFrom_guarded`, `F3.Bridge.rules_of_runs`): the
executable model of `gpbft.go` (`Instance.step`, tied to the implementation by the correspondence run) emits
only under the guards and reports a decision only when holding a strong DECIDE quorum, so any family of
honest model runs satisfies the rules: `agreement_model` is agreement of the executable model itself.
-/
namespace F3.Props.C01
open F3.Granite

variable {P V : Type} [DecidableEq P]

/-- An honest participant reports a decision for `x` only when a strong quorum of valid DECIDE votes
for `x` exists (`tryDecide`; Layer-B lemma `decision_has_decide_quorum`). -/
def Decided (c : Params P V) (s : Votes P V) (x : V) : Prop := (c.world s).Q .decide 0 x

/-- the total scaled power and the faulty power of the instance's committee -/
def faultBound (c : Params P V) : Prop :=
  3 * (c.world (fun _ _ _ _ => False)).power c.faulty < (c.world (fun _ _ _ _ => False)).T

/-- **Agreement.** For every committee and power distribution, every value type, every Byzantine
strategy of members holding less than one third of the scaled power, and every schedule: in every
reachable state of the network, any two reported decisions are equal. -/
theorem agreement_network (c : Params P V) (hb : faultBound c) {s : Votes P V}
    (hr : Reachable c s) {x y : V} (hx : Decided c s x) (hy : Decided c s y) : x = y :=
  World.decide_quorums_agree (inv_reachable c hb hr).rules hx hy

/-- Decisions taken at different times agree as well: votes only accumulate, so a decision reported
in an earlier state is still backed in every later state. -/
theorem agreement_across_time (c : Params P V) (hb : faultBound c) {s s' : Votes P V}
    (hr' : Reachable c s') (hmono : ∀ p r ph x, s p r ph x → s' p r ph x)
    {x y : V} (hx : Decided c s x) (hy : Decided c s' y) : x = y :=
  agreement_network c hb hr' (Q_mono c hmono hx) hy

/-- Reachability is monotone: every step only adds votes. -/
theorem step_mono (c : Params P V) {s s' : Votes P V} (h : Step c s s') :
    ∀ p r ph x, s p r ph x → s' p r ph x := by
  cases h <;> exact add_mono _ _ _ _ _

/-- Agreement of the abstract rule set alone (Layer A), for use when the rules are established by
other means. -/
theorem agreement_rules (w : World P V) (R : w.Rules) {x y : V}
    (hx : w.Q .decide 0 x) (hy : w.Q .decide 0 y) : x = y :=
  World.decide_quorums_agree R hx hy

/-- Several consecutive instances: if in every instance the faulty members of *that instance's*
committee hold less than a third, then in every instance decisions agree. (Instance `i+1`'s committee
and base are functions of the decisions up to `i` — C15 — hence equal at all honest nodes.) -/
theorem agreement_multi (c : Nat → Params P V) (s : Nat → Votes P V)
    (hb : ∀ i, faultBound (c i)) (hr : ∀ i, Reachable (c i) (s i)) :
    ∀ i x y, Decided (c i) (s i) x → Decided (c i) (s i) y → x = y :=
  fun i _ _ hx hy => agreement_network (c i) (hb i) (hr i) hx hy

/-- A lock, stated for the network: once a non-bottom value has a COMMIT quorum in round `r`, no
other non-bottom value ever gets a COMMIT quorum in a later round. -/
theorem commit_lock (c : Params P V) (hb : faultBound c) {s : Votes P V} (hr : Reachable c s)
    {r r' : Nat} {v x : V} (hv : (c.world s).Q .commit r v) (hne : v ≠ c.bot) (hlt : r < r')
    (hx : (c.world s).Q .commit r' x) (hxne : x ≠ c.bot) : x = v :=
  World.later_commit_eq (inv_reachable c hb hr).rules hv hne hlt hx hxne

/-- The `strong` of the abstract rules is the code's quorum predicate: `World.strong S` asks
`3·power S ≥ 2·T`, and for every non-negative total that is exactly when the Go function
`IsStrongQuorum` (regenerated from `gpbft/gpbft.go` on this run) returns true. -/
theorem strong_is_the_codes_predicate (w : World P V) (S : Finset P) :
    (S ⊆ w.committee ∧ F3.Gen.isStrongQuorum (w.power S : Int) (w.T : Int) = true) ↔ w.strong S := by
  unfold World.strong
  rw [F3.Props.C08.strong_iff _ _ (by omega)]
  constructor
  · rintro ⟨h1, h2⟩; exact ⟨h1, by omega⟩
  · rintro ⟨h1, h2⟩; exact ⟨h1, by omega⟩

/-! ## Non-vacuity: a 4-member committee, member 3 Byzantine and equivocating, and a decision. -/
section Example
def exC : Params (Fin 4) Nat :=
  { committee := Finset.univ, pw := fun _ => 1, faulty := {3}, bot := 0, good := fun _ x => x = 7 }

def honest3 : Finset (Fin 4) := {0, 1, 2}

theorem ex_bound : faultBound exC := by
  simp [faultBound, World.power, World.T, Params.world, exC]

theorem ex_strong (s : Votes (Fin 4) Nat) : (exC.world s).strong honest3 := by
  constructor
  · intro x _; exact Finset.mem_univ x
  · simp [World.power, World.T, Params.world, exC, honest3]

/-- all three honest members sign `(r, ph, 7)` one after the other under `guard` -/
theorem ex_round {s : Votes (Fin 4) Nat} (hr : Reachable exC s) (r : Nat) (ph : Phase)
    (fresh : ∀ p, p ≠ 3 → ∀ y, ¬ s p r ph y)
    (guard : ∀ s', (∀ p r ph x, s p r ph x → s' p r ph x) → ∀ p, Guard exC s' p r ph 7) :
    ∃ s', Reachable exC s' ∧ (∀ p r ph x, s p r ph x → s' p r ph x) ∧
      (∀ p ∈ honest3, s' p r ph 7) ∧ (∀ p r' ph' y, (r', ph') ≠ (r, ph) → s' p r' ph' y → s p r' ph' y) := by
  have h0 : (0 : Fin 4) ∉ exC.faulty := by decide
  have h1 : (1 : Fin 4) ∉ exC.faulty := by decide
  have h2 : (2 : Fin 4) ∉ exC.faulty := by decide
  let s1 := add s 0 r ph 7
  let s2 := add s1 1 r ph 7
  let s3 := add s2 2 r ph 7
  have m1 : ∀ p r ph x, s p r ph x → s1 p r ph x := add_mono _ _ _ _ _
  have m2 : ∀ p r ph x, s p r ph x → s2 p r ph x := fun p r ph x h => add_mono _ _ _ _ _ _ _ _ _ (m1 p r ph x h)
  have r1 : Reachable exC s1 := hr.step (Step.honest s 0 r ph 7 h0 (fresh 0 (by decide)) (guard s (fun _ _ _ _ h => h) 0))
  have r2 : Reachable exC s2 := r1.step (Step.honest s1 1 r ph 7 h1
    (by intro y h; rcases h with h | ⟨e, _⟩; exact fresh 1 (by decide) y h; exact absurd e (by decide)) (guard s1 m1 1))
  have r3 : Reachable exC s3 := r2.step (Step.honest s2 2 r ph 7 h2
    (by
      intro y h
      rcases h with (h | ⟨e, _⟩) | ⟨e, _⟩
      · exact fresh 2 (by decide) y h
      · exact absurd e (by decide)
      · exact absurd e (by decide)) (guard s2 m2 2))
  refine ⟨s3, r3, fun p r ph x h => add_mono _ _ _ _ _ _ _ _ _ (m2 p r ph x h), ?_, ?_⟩
  · intro p hp
    have : p = 0 ∨ p = 1 ∨ p = 2 := by
      simp only [honest3, Finset.mem_insert, Finset.mem_singleton] at hp; exact hp
    rcases this with rfl | rfl | rfl
    · exact Or.inl (Or.inl (Or.inr ⟨rfl, rfl, rfl, rfl⟩))
    · exact Or.inl (Or.inr ⟨rfl, rfl, rfl, rfl⟩)
    · exact Or.inr ⟨rfl, rfl, rfl, rfl⟩
  · intro p r' ph' y hne h
    rcases h with ((h | ⟨_, e1, e2, _⟩) | ⟨_, e1, e2, _⟩) | ⟨_, e1, e2, _⟩
    · exact h
    all_goals exact absurd (by rw [e1, e2]) hne

/-- There is a reachable state of the example network in which the Byzantine member has equivocated in
PREPARE and a decision for 7 is reported: the hypotheses of `agreement_network` are satisfiable in a
non-trivial way. -/
theorem ex_decided : ∃ s, Reachable exC s ∧ Decided exC s 7 ∧ s 3 0 .prepare 8 ∧ s 3 0 .prepare 9 := by
  -- Byzantine equivocation first
  let b1 : Votes (Fin 4) Nat := add (fun _ _ _ _ => False) 3 0 .prepare 8
  let b2 : Votes (Fin 4) Nat := add b1 3 0 .prepare 9
  have rb : Reachable exC b2 :=
    (Reachable.init.step (Step.byz _ 3 0 .prepare 8 (by decide))).step (Step.byz _ 3 0 .prepare 9 (by decide))
  have hb2 : ∀ p r ph y, b2 p r ph y → p = 3 ∧ r = 0 ∧ ph = .prepare := by
    intro p r ph y h
    rcases h with (h | ⟨e, e2, e3, _⟩) | ⟨e, e2, e3, _⟩
    · exact h.elim
    · exact ⟨e, e2, e3⟩
    · exact ⟨e, e2, e3⟩
  -- PREPARE round 0
  obtain ⟨s1, r1, m1, p1, o1⟩ := ex_round rb 0 .prepare
    (by intro p hp y h; exact hp (hb2 p _ _ _ h).1)
    (by intro s' _ p; exact ⟨by decide, Or.inl rfl, Or.inl rfl⟩)
  have q1 : ∀ s', (∀ p r ph x, s1 p r ph x → s' p r ph x) → (exC.world s').Q .prepare 0 7 :=
    fun s' m => ⟨honest3, ex_strong s', fun p hp => m _ _ _ _ (p1 p hp)⟩
  -- COMMIT round 0
  obtain ⟨s2, r2, m2, p2, o2⟩ := ex_round r1 0 .commit
    (by
      intro p _ y h
      have := (hb2 p _ _ _ (o1 p 0 .commit y (by decide) h)).2.2
      exact absurd this (by decide))
    (by intro s' m p; exact ⟨fun h => absurd h (by decide), fun _ => q1 s' m⟩)
  have q2 : ∀ s', (∀ p r ph x, s2 p r ph x → s' p r ph x) → (exC.world s').Q .commit 0 7 :=
    fun s' m => ⟨honest3, ex_strong s', fun p hp => m _ _ _ _ (p2 p hp)⟩
  -- DECIDE
  obtain ⟨s3, r3, m3, p3, _⟩ := ex_round r2 0 .decide
    (by
      intro p _ y h
      have h1 := o2 p 0 .decide y (by decide) h
      have := (hb2 p _ _ _ (o1 p 0 .decide y (by decide) h1)).2.2
      exact absurd this (by decide))
    (by intro s' m p; exact fun _ => ⟨by decide, 0, q2 s' m⟩)
  refine ⟨s3, r3, ⟨honest3, ex_strong s3, p3⟩, ?_, ?_⟩
  · exact m3 _ _ _ _ (m2 _ _ _ _ (m1 _ _ _ _ (Or.inl (Or.inr ⟨rfl, rfl, rfl, rfl⟩))))
  · exact m3 _ _ _ _ (m2 _ _ _ _ (m1 _ _ _ _ (Or.inr ⟨rfl, rfl, rfl, rfl⟩)))
end Example


/-! ## Agreement of the executable model (Layer B ⇒ Layer A) -/
section Model
open F3.Instance F3.Bridge

/-- **Agreement, end to end for the model of the code.**  `N : Network t F W` says: power table `t` with
distinct ids and positive total; Byzantine set `F` with less than a third of the power; `W` the set of validly
signed votes in existence; every honest committee member `p` ran `Instance.step` from `init` on an arbitrary
list of operations (`Start`, alarms, deliveries in any order and at any time) in which every delivered
message of this instance is valid (`MsgValid`: its vote and the votes its justification aggregates exist in
`W` — what C05's `validMsg` gives, `F3.ValidBridge.validMsg_MsgValid`), reported no error other than refusals
at the door (`okRun`: other instance / supplemental data / base, or after termination), and has exactly its own
broadcasts as its votes in `W`.  Then any two honest members that
report a decision report the same value. -/
theorem agreement_model {t : Table} {F : Finset Pid} {W : Instance.Votes} (N : Network t F W)
    (p q : Pid) (hp : p ∈ (ids t).toFinset) (hpF : p ∉ F) (hq : q ∈ (ids t).toFinset) (hqF : q ∉ F) (dp dq : Just)
    (hdp : (run (init (N.runs p hp hpF).cfg t (N.runs p hp hpF).input) (N.runs p hp hpF).ops).1.termination = some dp)
    (hdq : (run (init (N.runs q hq hqF).cfg t (N.runs q hq hqF).input) (N.runs q hq hqF).ops).1.termination = some dq) :
    dp.value = dq.value :=
  model_agreement N p q hp hpF hq hqF dp dq hdp hdq

/-- The honest rules of Layer A are theorems about the executable model, not assumptions. -/
theorem model_satisfies_rules {t : Table} {F : Finset Pid} {W : Instance.Votes} (N : Network t F W) :
    (world t F W).Rules := N.rules

/-- Non-vacuity: a network of four equal members, member 4 Byzantine and equivocating in PREPARE, in which an
honest member decides `[7, 8]`. -/
theorem agreement_model_nonvacuous : Nonempty (Network exTbl exF exW) ∧ exW 4 0 .prepare [7, 9] ∧ exW 4 0 .prepare [7, 8] :=
  ⟨⟨exNet⟩, ex_network_decides.1, ex_network_decides.2.1⟩

end Model

/-! ## Agreement of the executable model driven through the participant API -/
section ParticipantAPI
open F3.Instance F3.Bridge

/-- **Agreement, end to end for the model of the code, at the participant API.**  As `agreement_model`, but every
honest committee member's execution is a sequence of `Participant.ReceiveMessage` / `ReceiveAlarm` calls
(`HonestRunP`: `pstepWith`, what the correspondence driver replays against the real `gpbft.Participant`): messages
arriving before the instance has begun are queued, the first alarm begins the instance and drains the queue through
`instance.ReceiveMany` in an arbitrary sender order (a field of the run), late-binding rejects being dropped
silently; every delivered message of this instance is valid (`MsgValid`), no call reports an error other than a
refusal at the door (`okRunP`), and the member's votes in `W` are exactly its broadcasts. Then any two honest
members that report a decision report the same value. -/
theorem agreement_model_participant {t : Table} {F : Finset Pid} {W : Instance.Votes} (N : NetworkP t F W)
    (p q : Pid) (hp : p ∈ (ids t).toFinset) (hpF : p ∉ F) (hq : q ∈ (ids t).toFinset) (hqF : q ∉ F) (dp dq : Just)
    (hdp : (prun (N.runs p hp hpF).order (pinit (N.runs p hp hpF).cfg t (N.runs p hp hpF).input)
      (N.runs p hp hpF).ops).1.inst.termination = some dp)
    (hdq : (prun (N.runs q hq hqF).order (pinit (N.runs q hq hqF).cfg t (N.runs q hq hqF).input)
      (N.runs q hq hqF).ops).1.inst.termination = some dq) :
    dp.value = dq.value :=
  model_agreementP N p q hp hpF hq hqF dp dq hdp hdq

/-- The honest rules of Layer A are theorems about the executable model driven through the participant API. -/
theorem model_satisfies_rules_participant {t : Table} {F : Finset Pid} {W : Instance.Votes} (N : NetworkP t F W) :
    (world t F W).Rules := N.rules

/-- Non-vacuity: the four-member network with member 4 Byzantine and equivocating in PREPARE, every honest member
driven through the participant API with four messages queued before its instance begins (among them a PREPARE
arriving before QUALITY and a late-binding reject); an honest member decides `[7, 8]`. -/
theorem agreement_model_participant_nonvacuous :
    Nonempty (NetworkP exTbl exF exW) ∧ exW 4 0 .prepare [7, 9] ∧ exW 4 0 .prepare [7, 8] ∧
    (prun exOrder (pinit exCfg exTbl [7, 8]) (exPOps.take 4)).1.queue.length = 4 ∧
    ∃ d, (prun (exNetP.runs 1 (by decide) (by decide)).order
        (pinit (exNetP.runs 1 (by decide) (by decide)).cfg exTbl (exNetP.runs 1 (by decide) (by decide)).input)
        (exNetP.runs 1 (by decide) (by decide)).ops).1.inst.termination = some d ∧ d.value = [7, 8] :=
  ⟨⟨exNetP⟩, ex_networkP_decides.1, ex_networkP_decides.2.1, ex_queue_drained.1, ex_networkP_decides.2.2⟩

end ParticipantAPI

/-! ## Agreement when honest participants crash and restart inside the instance (C01 ∘ C12) -/
section Restarts
open F3.Instance F3.Bridge F3.Restart

/-- **Agreement across restarts, end to end for the model of the code.**  `N : NetworkR t F W`: power table `t`
with distinct ids and positive total; Byzantine set `F` with less than a third of the power; `W` the validly signed
votes in existence; only committee members' votes count; every honest committee member `p` is a *list of
incarnations* (`Segment`s): each a fresh run of `Instance.step` from `init` (nothing is remembered across a crash;
configuration and input chain may even differ between incarnations) on an arbitrary list of operations in which
every delivered message of this instance is valid w.r.t. `W` (`MsgValid`) and no call reports an error other than a
refusal at the door (`okRun`).  What `p` has on the wire is constrained only by the interface taken from C12
(`PublishedOK`): at most one value per (round, phase) slot, and every vote of `p` in existence was requested by one
of its incarnations — a request may be dropped by the filter or lost in a crash.  Then any two decisions reported by
any incarnations of any honest members are equal. -/
theorem agreement_model_restarts {t : Table} {F : Finset Pid} {W : Instance.Votes} (N : NetworkR t F W)
    (p q : Pid) (hp : p ∈ (ids t).toFinset) (hpF : p ∉ F) (hq : q ∈ (ids t).toFinset) (hqF : q ∉ F)
    (sp : Segment W t) (hsp : sp ∈ (N.runs p hp hpF).segs) (sq : Segment W t) (hsq : sq ∈ (N.runs q hq hqF).segs)
    (dp dq : Just)
    (hdp : (run (init sp.cfg t sp.input) sp.ops).1.termination = some dp)
    (hdq : (run (init sq.cfg t sq.input) sq.ops).1.termination = some dq) :
    dp.value = dq.value :=
  model_agreement_restarts N p q hp hpF hq hqF sp hsp sq hsq dp dq hdp hdq

/-- **Validity across restarts.**  A decision reported by any incarnation of an honest member is a non-empty prefix
of the input chain of some incarnation of some honest committee member. -/
theorem validity_model_restarts {t : Table} {F : Finset Pid} {W : Instance.Votes} (N : NetworkR t F W)
    (p : Pid) (hp : p ∈ (ids t).toFinset) (hpF : p ∉ F) (sp : Segment W t) (hsp : sp ∈ (N.runs p hp hpF).segs)
    (d : Just) (hd : (run (init sp.cfg t sp.input) sp.ops).1.termination = some d) :
    d.value ≠ [] ∧ ∃ h, ∃ hh : h ∈ (ids t).toFinset, ∃ hF : h ∉ F, ∃ s ∈ (N.runs h hh hF).segs, d.value <+: s.input :=
  model_validity_restarts N p hp hpF sp hsp d hd

/-- The restart-tolerant honest rules (`RulesR`: `commit_bottom` asks only that two different values be justified
in the round, not that the member's own PREPARE be on the wire) are theorems about the executable model with
restarts … -/
theorem model_satisfies_restart_rules {t : Table} {F : Finset Pid} {W : Instance.Votes} (N : NetworkR t F W) :
    (world t F W).RulesR := N.rulesR

/-- … they are implied by the original rules, and they suffice for agreement. -/
theorem restart_rules_weaker (w : World P V) (R : w.Rules) : w.RulesR := R.toRulesR

theorem agreement_restart_rules (w : World P V) (R : w.RulesR) {x y : V}
    (hx : w.Q .decide 0 x) (hy : w.Q .decide 0 y) : x = y :=
  World.RulesR.decide_quorums_agree R hx hy

/-- **The interface taken from C12 is what C12 proves.**  For *any* history `hist` of the C12 node model
(`F3.Equiv`: requests with a crash point after the filter / the WAL append / the publish, rebroadcasts, receives,
stops, restarts re-arming the filter from the WAL, purges, trims) that satisfies C12's hypotheses `RunOk`, if the
node's `BroadcastMessage` calls for votes of `p` in instance `inst` are requests of `p`'s incarnations (`hreq`), the
votes of `p` in existence are on that node's wire (`hown`), and the signature of a vote determines its value
(`hsig`), then `PublishedOK` holds: `single` by `wire_no_equivocation`, `requested` by `record_before_publish`. -/
theorem published_interface_from_c12 {t : Table} {W : Instance.Votes} (p : Pid) (segs : List (Segment W t))
    (own : Nat → Bool) (l : Equiv.Peer) (hist : List Equiv.Op) (hok : Equiv.RunOk own (Equiv.Sys.init l) hist)
    (inst : Nat) (sig : Req → Nat) (hsig : ∀ r ph x y, sig (r, ph, x) = sig (r, ph, y) → x = y)
    (hreq : ∀ m c, Equiv.Op.broadcast m c ∈ hist → m.inst = inst → m.sender = p →
      ∃ s ∈ segs, ∃ q ∈ requests s.effs, m = toMsg inst p sig q)
    (hown : ∀ r ph v, W p r ph v → toMsg inst p sig (r, ph, v) ∈ (Equiv.run (Equiv.Sys.init l) hist).wire) :
    PublishedOK W t p segs :=
  publishedOK_of_wire p segs own l hist hok inst sig hsig hreq hown

/-- The same when a vote counts as existing as soon as it is recorded in the WAL (`ever` ⊇ wire): the reading under
which the WAL replay of `startInstanceAt` — which hands the rebuilt participant its recorded messages, including one
whose publish was cut off by the crash — delivers only existing votes. -/
theorem published_interface_from_c12_wal {t : Table} {W : Instance.Votes} (p : Pid) (segs : List (Segment W t))
    (own : Nat → Bool) (l : Equiv.Peer) (hist : List Equiv.Op) (hok : Equiv.RunOk own (Equiv.Sys.init l) hist)
    (inst : Nat) (sig : Req → Nat) (hsig : ∀ r ph x y, sig (r, ph, x) = sig (r, ph, y) → x = y)
    (hreq : ∀ m c, Equiv.Op.broadcast m c ∈ hist → m.inst = inst → m.sender = p →
      ∃ s ∈ segs, ∃ q ∈ requests s.effs, m = toMsg inst p sig q)
    (hown : ∀ r ph v, W p r ph v → toMsg inst p sig (r, ph, v) ∈ (Equiv.run (Equiv.Sys.init l) hist).ever) :
    PublishedOK W t p segs :=
  publishedOK_of_ever p segs own l hist hok inst sig hsig hreq hown

/-- The vote-level filter `published` (first value per slot wins, over the concatenated requests of the
incarnations) satisfies the interface, … -/
theorem published_interface_from_scan {t : Table} {W : Instance.Votes} (p : Pid) (segs : List (Segment W t))
    (hown : ∀ r ph v, W p r ph v ↔ (r, ph, v) ∈ published (segs.map (fun s => requests s.effs))) :
    PublishedOK W t p segs :=
  publishedOK_of_published p segs hown

/-- … is exactly first-value-wins, … -/
theorem published_first_wins (segs : List (List Req)) (x : Req) :
    x ∈ published segs ↔
      ∃ pre post, segs.flatten = pre ++ x :: post ∧
        ∀ s ∈ scan [] pre, s.1 = x.1 → s.2.1 = x.2.1 → s.2.2 = x.2.2 := by
  unfold published
  rw [mem_scan_iff]
  constructor
  · rintro (h | ⟨pre, post, he, ha⟩)
    · cases h
    · exact ⟨pre, post, he, (allowed_iff _ _).1 ha⟩
  · rintro ⟨pre, post, he, ha⟩
    exact Or.inr ⟨pre, post, he, (allowed_iff _ _).2 ha⟩

/-- … and is the wire of the C12 node model on the crash-free history of the incarnations (which is admissible
for C12). -/
theorem published_is_c12_wire (sender l inst : Nat) (sig : Req → Nat)
    (hsig : ∀ r ph x y, sig (r, ph, x) = sig (r, ph, y) → x = y) (segs : List (List Req)) :
    Equiv.RunOk (fun x => x == sender) (Equiv.Sys.init l) (history inst sender sig segs) ∧
    (Equiv.run (Equiv.Sys.init l) (history inst sender sig segs)).wire =
      (published segs).map (toMsg inst sender sig) :=
  wire_history sender l inst sig hsig segs

/-- Non-vacuity: four honest members of equal power; member 1 crashes after publishing PREPARE(0, `[7,8]`), its
second incarnation requests PREPARE(0, `[7]`) (no QUALITY reached it before the timeout) — dropped by the filter —
publishes COMMIT(0, ⊥) and DECIDE, and both it and member 2 report `[7,8]`.  All hypotheses of
`agreement_model_restarts` hold (`rNet`), the incarnations are those of the network, and the wire of member 1 is the
scan of its requests. -/
theorem agreement_model_restarts_nonvacuous :
    Nonempty (NetworkR rTbl ∅ rW) ∧
    (rNet.runs 1 (by decide) (by simp)).segs = [rSeg1a, rSeg1b] ∧ (rNet.runs 2 (by decide) (by simp)).segs = [rSegO] ∧
    rSeg1b.requested 0 .prepare [7] ∧ ¬ rW 1 0 .prepare [7] ∧ rW 1 0 .prepare [7, 8] ∧ rW 1 0 .commit [] ∧
    rSeg1a.final.termination = none ∧
    (∃ d, rSeg1b.final.termination = some d ∧ d.value = [7, 8]) ∧
    (∃ d, rSegO.final.termination = some d ∧ d.value = [7, 8]) :=
  ⟨⟨rNet⟩, rNet_runs1, rNet_runs2, r_network_decides⟩

/-- Sharpness: the *original* rule set is false of that network (rule `commit_bottom`: member 1's COMMIT ⊥ is on
the wire, the PREPARE it dissented from is not) — `agreement_model` does not apply to it, the weakening is needed. -/
theorem original_rules_fail_under_restarts : ¬ (world rTbl ∅ rW).Rules := r_original_rules_fail

/-- non-vacuity of `published_interface_from_c12` / `published_is_c12_wire`: the example's wire from the C12 model -/
example (sig : Req → Nat) (hsig : ∀ r ph x y, sig (r, ph, x) = sig (r, ph, y) → x = y) :
    Equiv.RunOk (fun x => x == 1) (Equiv.Sys.init 0) (history 5 1 sig [requests rSeg1a.effs, requests rSeg1b.effs]) ∧
    (Equiv.run (Equiv.Sys.init 0) (history 5 1 sig [requests rSeg1a.effs, requests rSeg1b.effs])).wire =
      [(0, .quality, [7,8]), (0, .prepare, [7,8]), (0, .quality, [7,8]), (0, .commit, []), (0, .decide, [7,8])].map
        (toMsg 5 1 sig) :=
  r_wire_is_c12 sig hsig

end Restarts
/-! ## Agreement in each of several consecutive instances, at the participant API across instances

`mprun (minit cfg c0) ops` (`F3.Model.MultiParticipant`: `gpbft.Participant` with its instance counter, the running
instance, one message queue per future instance and the decisions handed to the host) is what one participant does
over its whole life; the correspondence driver replays it against the real participant in the multi-instance
network runs. `consecutive_instances_projection` shows that what it does for instance `k` is a single-instance
participant run (`prun`) over the calls that concern `k`, so every statement about `prun` — `agreement_model_participant`
above, C02, C03, C07 — holds of every instance of a multi-instance run. -/
section ConsecutiveInstances
open F3.Instance F3.Bridge

/-- **Per-instance projection of a multi-instance participant run.** Take any sequence `ops` of `ReceiveMessage` /
`ReceiveAlarm` / `StartInstanceAt` calls of a fresh participant (initial instance `c0`) in which every
`StartInstanceAt j` skips ahead (`forwardOnly`: `cur < j`, or `j = cur` while no instance is running — it never goes
backwards and never restarts the running instance), and any instance `k` that was begun in it: an alarm found no
running instance with `cur = k`, the host supplying power table `tbl`, proposal `input`, and the queue being
drained in sender order `order` (`begunWith cfg c0 k ops = some (tbl, input, order)`). Let `opsOf cfg c0 k ops` be
the calls that concern `k`, in order: the deliveries `recv _ ⟨k, m⟩` made while `cur ≤ k` (queued while `k` is a future
instance or current but not begun, delivered to the running instance afterwards) and the alarms received while `k` was
current. Then
* the effects tagged `k` are exactly the effects of `prun order (pinit cfg tbl input) (opsOf cfg c0 k ops)`;
* a decision `d` is recorded for `k` iff that single-instance run ends with `termination = some d`;
* while `k` is current, the running instance is the final state of that single-instance run;
* `k ≤ cur`. -/
theorem consecutive_instances_projection (cfg : Cfg) (c0 : Nat) (ops : List MPOp) (k : Nat) (tbl : Table)
    (input : Chain) (order : List Pid) (hfw : forwardOnly (minit cfg c0) ops = true)
    (hbeg : begunWith cfg c0 k ops = some (tbl, input, order)) :
    effsOf k (mprun (minit cfg c0) ops).2 = (prun order (pinit cfg tbl input) (opsOf cfg c0 k ops)).2 ∧
    (∀ d, (k, d) ∈ (mprun (minit cfg c0) ops).1.decisions ↔
      (prun order (pinit cfg tbl input) (opsOf cfg c0 k ops)).1.inst.termination = some d) ∧
    ((mprun (minit cfg c0) ops).1.cur = k →
      (mprun (minit cfg c0) ops).1.active = some (prun order (pinit cfg tbl input) (opsOf cfg c0 k ops)).1) ∧
    k ≤ (mprun (minit cfg c0) ops).1.cur :=
  instance_projection cfg c0 ops k tbl input order hfw hbeg

/-- An instance that was not begun (a future one, or one skipped by `StartInstanceAt`) has no effects and no
decision; so every recorded decision is the decision of the single-instance run of a begun instance. -/
theorem consecutive_instances_not_begun (cfg : Cfg) (c0 : Nat) (ops : List MPOp) (k : Nat)
    (hfw : forwardOnly (minit cfg c0) ops = true) (hbeg : begunWith cfg c0 k ops = none) :
    effsOf k (mprun (minit cfg c0) ops).2 = [] ∧ ∀ d, (k, d) ∉ (mprun (minit cfg c0) ops).1.decisions :=
  instance_not_begun cfg c0 ops k hfw hbeg

/-- **Agreement in every one of several consecutive instances, end to end for the model of the code.** Every
participant `p` executes one multi-instance run `runs p` (`MultiRun`: any calls, `StartInstanceAt` only skipping
ahead). For each instance `k < K`, `N.inst k` (`InstanceNetwork`) says: committee `t k` with distinct ids and positive
total; Byzantine members `F k` below a third of its power; `W k` the validly signed votes of instance `k` in
existence; for every honest member `p` of `t k`: its votes in `W k` are exactly the broadcasts its participant made
while `k` was current, and if its participant began `k` then the host supplied the table `t k` and a non-empty
proposal, every delivery that concerns `k` (`opsOf`) is valid (`MsgValid`, or of foreign instance / supplemental data
and refused), and no call that concerns `k` reported an error other than a refusal at the door (`okRunP`) — the
hypotheses of `agreement_model_participant`, stated about the multi-instance runs. Then the decisions recorded
**for the same instance `k`** by any two honest participants are for the same value. -/
theorem agreement_consecutive_instances {K : Nat} {runs : Pid → MultiRun} {t : Nat → Table} {F : Nat → Finset Pid}
    {W : Nat → Instance.Votes} (N : MultiNetwork K runs t F W) (k : Nat) (hk : k < K)
    (p q : Pid) (hp : p ∈ (ids (t k)).toFinset) (hpF : p ∉ F k) (hq : q ∈ (ids (t k)).toFinset) (hqF : q ∉ F k)
    (dp dq : Just)
    (hdp : (k, dp) ∈ (mprun (minit (runs p).cfg (runs p).c0) (runs p).ops).1.decisions)
    (hdq : (k, dq) ∈ (mprun (minit (runs q).cfg (runs q).c0) (runs q).ops).1.decisions) :
    dp.value = dq.value :=
  agreement_instance (N.inst k hk) p q hp hpF hq hqF dp dq hdp hdq

/-- each instance of a `MultiNetwork` satisfies the honest rules of Layer A -/
theorem consecutive_instances_satisfy_rules {K : Nat} {runs : Pid → MultiRun} {t : Nat → Table}
    {F : Nat → Finset Pid} {W : Nat → Instance.Votes} (N : MultiNetwork K runs t F W) (k : Nat) (hk : k < K) :
    (world (t k) (F k) (W k)).Rules :=
  (N.inst k hk).toNetworkP.rules

/-- Non-vacuity of `consecutive_instances_projection`: the two-instance execution `exMOps` (four equal members;
instance 0 decides `[7,8]`; a message for instance 1 arrives while instance 0 is running and is queued; a message for
instance 0 arrives after it finished and is dropped; instance 1 begins, drains its queue of three messages, decides
`[8,5]`): the hypotheses hold for both instances, the calls that concern each are as expected, and the conclusions
are confirmed by evaluation. -/
theorem consecutive_instances_projection_nonvacuous :
    forwardOnly (minit mxCfg) exMOps = true ∧
    begunWith mxCfg 0 0 exMOps = some (mxTbl, [7, 8], mxOrder) ∧
    begunWith mxCfg 0 1 exMOps = some (mxTbl, [8, 5], [1, 4, 2]) ∧ begunWith mxCfg 0 2 exMOps = none ∧
    opsOf mxCfg 0 0 exMOps = exPOps0 ∧ opsOf mxCfg 0 1 exMOps = exPOps1 ∧
    (queueOf (mprun (minit mxCfg) (exMOps.take 7)).1.queues 1).length = 1 ∧
    (mprun (minit mxCfg) (exMOps.take 18)).2 = (mprun (minit mxCfg) (exMOps.take 17)).2 ∧
    (queueOf (mprun (minit mxCfg) (exMOps.take 20)).1.queues 1).map (·.sender) = [2, 1, 4] ∧
    effsOf 1 (mprun (minit mxCfg) exMOps).2 = (prun [1, 4, 2] (pinit mxCfg mxTbl [8, 5]) (opsOf mxCfg 0 1 exMOps)).2 ∧
    (mprun (minit mxCfg) exMOps).1.decisions =
      [(0, { round := 0, phase := .decide, value := [7,8], signers := [0,1,2] }),
       (1, { round := 0, phase := .decide, value := [8,5], signers := [0,1,2] })] :=
  ⟨ex_forward.2.2, ex_opsOf.2.2.1, ex_opsOf.2.2.2.1, ex_opsOf.2.2.2.2, ex_opsOf.1, ex_opsOf.2.1, by decide +kernel,
   ex_two_instances.2.2.2.2.2.2.2.2.2.1, ex_two_instances.2.2.2.2.2.2.2.2.2.2.1, ex_projection.2.1,
   ex_two_instances.2.2.2.2.2.2.2.2.2.2.2.2.2.2.2⟩

/-- Non-vacuity of `agreement_consecutive_instances`: the four-member network over two consecutive instances, the
three honest members each executing `exMOps`, member 4 Byzantine and equivocating in PREPARE in both instances; every
honest participant records a decision for instance 0 and one for instance 1 (`R.final` abbreviates
`(mprun (minit R.cfg R.c0) R.ops).1`). -/
theorem agreement_consecutive_instances_nonvacuous :
    MultiNetwork 2 (fun _ => exMultiRun) (fun _ => exTbl) (fun _ => exF)
      (fun k => if k = 0 then exW else Wof exVotes1) ∧
    exW 4 0 .prepare [7, 9] ∧ exW 4 0 .prepare [7, 8] ∧
    Wof exVotes1 4 0 .prepare [8, 6] ∧ Wof exVotes1 4 0 .prepare [8, 5] ∧
    (∃ d, (0, d) ∈ exMultiRun.final.decisions ∧ d.value = [7, 8]) ∧
    (∃ d, (1, d) ∈ exMultiRun.final.decisions ∧ d.value = [8, 5]) := by
  refine ⟨exMultiNet, by show _ ∈ exVotes; decide, by show _ ∈ exVotes; decide, by show _ ∈ exVotes1; decide,
    by show _ ∈ exVotes1; decide, ?_, ?_⟩
  · refine ⟨{ round := 0, phase := .decide, value := [7,8], signers := [0,1,2] }, ?_, rfl⟩
    rw [ex_recorded]
    decide
  · refine ⟨{ round := 0, phase := .decide, value := [8,5], signers := [0,1,2] }, ?_, rfl⟩
    rw [ex_recorded]
    decide

end ConsecutiveInstances

/-! ## Agreement of the executable model without any assumption on reported errors

`agreement_model` asks of every honest run that no call reported an error other than a refusal at the door
(`HonestRun.ok`). By `F3.Props.C07.no_internal_error_or_panic` this is a theorem about the model for every run of one
`Start` followed by alarms and validated (or foreign) deliveries, so the field can be dropped. -/
section NoFailureCorollaries
open F3.Instance F3.Bridge

/-- **`okRun` holds of every validated run** (the statement of `F3.Props.C07.no_internal_error_or_panic` in the
vocabulary of the bridge): after the one `Start`, every alarm and every delivery of a validated message — or of a
message of another instance / with other supplemental data — either is refused at the door or reports no failure. -/
theorem no_internal_error_or_panic_okRun (cfg : Cfg) (t : Table) (input : Chain) (W : Instance.Votes) (now0 : Int)
    (ops : List Op) (hin : input ≠ []) (hT : 0 < t.total)
    (hstart : ∀ op ∈ ops, op.isStart = false)
    (hvalid : ∀ op ∈ ops, foreign op = true ∨ OpValidG W t op) :
    okRun (init cfg t input) (.start now0 :: ops) = true :=
  okRun_of_valid cfg t input W now0 ops hin hT hstart hvalid

/-- **Agreement, end to end for the model of the code, with no hypothesis on errors.** `N : NetworkV t F W`: power
table with distinct ids and positive total; Byzantine set `F` with less than a third of the power; `W` the validly
signed votes in existence; every honest committee member ran `Instance.step` from `init` on `Start` followed by an
arbitrary list of alarms and deliveries in which every delivered message of this instance is valid (`MsgValid`), and
has exactly its own broadcasts as its votes in `W`. Then any two honest members that report a decision report the
same value. -/
theorem agreement_model_unconditional {t : Table} {F : Finset Pid} {W : Instance.Votes} (N : NetworkV t F W)
    (p q : Pid) (hp : p ∈ (ids t).toFinset) (hpF : p ∉ F) (hq : q ∈ (ids t).toFinset) (hqF : q ∉ F) (dp dq : Just)
    (hdp : (run (init (N.runs p hp hpF).cfg t (N.runs p hp hpF).input)
      (.start (N.runs p hp hpF).start :: (N.runs p hp hpF).ops)).1.termination = some dp)
    (hdq : (run (init (N.runs q hq hqF).cfg t (N.runs q hq hqF).input)
      (.start (N.runs q hq hqF).start :: (N.runs q hq hqF).ops)).1.termination = some dq) :
    dp.value = dq.value :=
  agreement_model N.toNetwork p q hp hpF hq hqF dp dq hdp hdq

/-- The honest rules of Layer A hold of every such network of model runs. -/
theorem model_satisfies_rules_unconditional {t : Table} {F : Finset Pid} {W : Instance.Votes} (N : NetworkV t F W) :
    (world t F W).Rules := N.toNetwork.rules

/-- Non-vacuity: the four-member network of `agreement_model_nonvacuous` (member 4 Byzantine and equivocating, one
delivery refused for its supplemental data) is a `NetworkV`, and honest member 1 decides `[7, 8]` in it. -/
theorem agreement_model_unconditional_nonvacuous :
    Nonempty (NetworkV exTbl exF exW) ∧ exW 4 0 .prepare [7, 9] ∧ exW 4 0 .prepare [7, 8] ∧
    ∃ d, (run (init (exNetV.runs 1 (by decide) (by decide)).cfg exTbl (exNetV.runs 1 (by decide) (by decide)).input)
      (.start (exNetV.runs 1 (by decide) (by decide)).start :: (exNetV.runs 1 (by decide) (by decide)).ops)).1.termination
        = some d ∧ d.value = [7, 8] :=
  ⟨⟨exNetV⟩, ex_network_decides.1, ex_network_decides.2.1, ex_networkV_decides⟩

/-- **Agreement at the participant API, with no hypothesis on errors.** As `agreement_model_participant`, but the
honest members' executions are `ValidRunP`s: any sequence of `ReceiveMessage` / `ReceiveAlarm` calls and any drain
order, every delivered message being of this instance and validated unless its supplemental data differ
(`PMsgOK`); that no call reports an error other than a refusal (`okRunP`) is
`F3.Props.C07.no_internal_error_or_panic_participant`. -/
theorem agreement_model_participant_unconditional {t : Table} {F : Finset Pid} {W : Instance.Votes}
    (N : NetworkVP t F W)
    (p q : Pid) (hp : p ∈ (ids t).toFinset) (hpF : p ∉ F) (hq : q ∈ (ids t).toFinset) (hqF : q ∉ F) (dp dq : Just)
    (hdp : (prun (N.runs p hp hpF).order (pinit (N.runs p hp hpF).cfg t (N.runs p hp hpF).input)
      (N.runs p hp hpF).ops).1.inst.termination = some dp)
    (hdq : (prun (N.runs q hq hqF).order (pinit (N.runs q hq hqF).cfg t (N.runs q hq hqF).input)
      (N.runs q hq hqF).ops).1.inst.termination = some dq) :
    dp.value = dq.value :=
  agreement_model_participant N.toNetworkP p q hp hpF hq hqF dp dq hdp hdq

/-- Non-vacuity: the participant-level example network is a `NetworkVP` in which honest member 1 decides `[7, 8]`. -/
theorem agreement_model_participant_unconditional_nonvacuous :
    Nonempty (NetworkVP exTbl exF exW) ∧ exW 4 0 .prepare [7, 9] ∧ exW 4 0 .prepare [7, 8] ∧
    ∃ d, (prun (exNetVP.runs 1 (by decide) (by decide)).order
        (pinit (exNetVP.runs 1 (by decide) (by decide)).cfg exTbl (exNetVP.runs 1 (by decide) (by decide)).input)
        (exNetVP.runs 1 (by decide) (by decide)).ops).1.inst.termination = some d ∧ d.value = [7, 8] :=
  ⟨⟨exNetVP⟩, ex_network_decides.1, ex_network_decides.2.1, ex_networkVP_decides⟩

end NoFailureCorollaries

/-! ## AUDIT2 M4 / M5: quiet honest members; `W` and the table instantiated from signed messages

M4. `NetworkV` demands a `Start` of **every** honest committee member; a member that never begins the instance
(crash-silent, lagging) could only be declared Byzantine. `F3.Audit2.NetworkV'` lets an honest member's op list be
empty (`ValidRun'`: `ops = []`, or `Start` once followed by alarms and deliveries); such a member has no vote in `W`
and reports nothing.

M5. `agreement_from_key_usage` composes `F3.ValidBridge.validMsg_MsgValid` (C05: what the validator accepts is
`MsgValid`) with the network theorem: `W := Wsig Signed net inst supp c`, `t := tableOf c`, deliveries are wire messages
accepted by `validMsg`, and the `valid` / `own` / `nonMembers` fields are *derived* from `F3.Audit2.KeyUsage`. -/
section Audit2
open F3.Instance F3.Bridge F3.Audit2

/-- **Agreement with honest members that never begin the instance.** `N : NetworkV' t F W`: as `NetworkV`, but each
honest committee member either made no call at all on the instance or called `Start` once and then received alarms
and (validated or foreign) deliveries in any order; its votes in `W` are exactly its broadcasts (none, if it never
started). Quiet members do **not** count against the `< 1/3` bound. Any two honest members that report a decision
report the same value. -/
theorem agreement_model_quiet {t : Table} {F : Finset Pid} {W : Instance.Votes} (N : NetworkV' t F W)
    (p q : Pid) (hp : p ∈ (ids t).toFinset) (hpF : p ∉ F) (hq : q ∈ (ids t).toFinset) (hqF : q ∉ F) (dp dq : Just)
    (hdp : (run (init (N.runs p hp hpF).cfg t (N.runs p hp hpF).input) (N.runs p hp hpF).ops).1.termination = some dp)
    (hdq : (run (init (N.runs q hq hqF).cfg t (N.runs q hq hqF).input) (N.runs q hq hqF).ops).1.termination = some dq) :
    dp.value = dq.value :=
  model_agreement_quiet N p q hp hpF hq hqF dp dq hdp hdq

/-- The honest rules of Layer A hold of every such network. -/
theorem model_satisfies_rules_quiet {t : Table} {F : Finset Pid} {W : Instance.Votes} (N : NetworkV' t F W) :
    (world t F W).Rules := N.rules

/-- a quiet member has no vote in existence and reports no decision -/
theorem quiet_member_silent {t : Table} {F : Finset Pid} {W : Instance.Votes} (N : NetworkV' t F W)
    (p : Pid) (hp : p ∈ (ids t).toFinset) (hpF : p ∉ F) (hq : (N.runs p hp hpF).quiet) :
    (∀ r ph v, ¬ W p r ph v) ∧
    (run (init (N.runs p hp hpF).cfg t (N.runs p hp hpF).input) (N.runs p hp hpF).ops).1.termination = none :=
  ⟨(N.runs p hp hpF).quiet_no_votes hq, (N.runs p hp hpF).quiet_no_decision hq⟩

/-- `agreement_model_unconditional` is the special case in which every honest member started -/
theorem agreement_model_unconditional_from_quiet {t : Table} {F : Finset Pid} {W : Instance.Votes} (N : NetworkV t F W)
    (p q : Pid) (hp : p ∈ (ids t).toFinset) (hpF : p ∉ F) (hq : q ∈ (ids t).toFinset) (hqF : q ∉ F) (dp dq : Just)
    (hdp : (run (init (N.runs p hp hpF).cfg t (N.runs p hp hpF).input)
      (.start (N.runs p hp hpF).start :: (N.runs p hp hpF).ops)).1.termination = some dp)
    (hdq : (run (init (N.runs q hq hqF).cfg t (N.runs q hq hqF).input)
      (.start (N.runs q hq hqF).start :: (N.runs q hq hqF).ops)).1.termination = some dq) :
    dp.value = dq.value :=
  agreement_model_quiet (ofNetworkV N) p q hp hpF hq hqF dp dq hdp hdq

/-- Non-vacuity: four members of equal power; 1 and 2 honest and running, **3 honest and never starting**, 4 Byzantine
(equivocating in QUALITY, a COMMIT for bottom of its also exists); member 1 decides `[7, 8]`. With member 3 counted as
faulty the bound `3·2 < 4` would fail, so `agreement_model_unconditional` does not apply to this network. -/
theorem agreement_model_quiet_nonvacuous :
    Nonempty (NetworkV' exTbl exF qW) ∧
    (qNet.runs 3 (by decide) (by decide)).quiet ∧ ¬ (qNet.runs 1 (by decide) (by decide)).quiet ∧
    qW 4 0 .quality [7, 8, 9] ∧ qW 4 0 .quality [7, 8] ∧
    (∃ d, (run (init (qNet.runs 1 (by decide) (by decide)).cfg exTbl (qNet.runs 1 (by decide) (by decide)).input)
      (qNet.runs 1 (by decide) (by decide)).ops).1.termination = some d ∧ d.value = [7, 8]) ∧
    ¬ 3 * (exTbl.power 3 + exTbl.power 4) < exTbl.total :=
  ⟨⟨qNet⟩, qNet_facts⟩

open F3.Msg F3.Spec.ValidMsg F3.ValidBridge in
/-- **Agreement from assumptions about key usage only (C05 ∘ C01).** Committee `c` (distinct ids, positive total
scaled power), instance `inst` with supplemental data `supp` on network `net`; `Signed pub bytes`: key `pub` produced a
signature over `bytes`; `Wire`: the wire messages in existence. `F`: the Byzantine members, with less than a third of
the power. Every other member runs the instance model on a list of calls that is empty or `Start` followed by alarms
and deliveries, each delivery being a wire message of this instance that C05's validity predicate `validMsg` accepts
(or a message of another instance / supplemental data, refused at the door). `K : KeyUsage …`: (i) a signature token
occurring in a wire message was produced by the key it names; (ii) the key registered for an honest member signs a vote
of this instance only if that member's model run broadcast it (Byzantine members sign with their own keys only); (iii)
every broadcast of an honest member's run is signed with its key. Then any two honest members that report a decision
report the same value. -/
theorem agreement_from_key_usage {Signed : Nat → SigMsg → Prop} {Wire : Msg.Msg → Prop} {net inst supp : Nat}
    {c : Committee} {F : Finset Pid} {runs : SignedRuns Wire net inst supp c F}
    (K : KeyUsage Signed Wire net inst supp c F runs) (hu : (c.entries.map (·.id)).Nodup)
    (hT : 0 < c.total) (hF : 3 * (∑ p ∈ F, (tableOf c).power p) < c.total)
    (p q : Pid) (hp : p ∈ (ids (tableOf c)).toFinset) (hpF : p ∉ F)
    (hq : q ∈ (ids (tableOf c)).toFinset) (hqF : q ∉ F) (dp dq : Instance.Just)
    (hdp : (run (init (runs p hp hpF).cfg (tableOf c) (runs p hp hpF).input) (runs p hp hpF).ops).1.termination = some dp)
    (hdq : (run (init (runs q hq hqF).cfg (tableOf c) (runs q hq hqF).input) (runs q hq hqF).ops).1.termination = some dq) :
    dp.value = dq.value :=
  agreement_signed K hu hT hF p q hp hpF hq hqF dp dq hdp hdq

open F3.Msg F3.Spec.ValidMsg F3.ValidBridge in
/-- the fields `valid`, `own`, `nonMembers` of the network structures, derived from `KeyUsage` -/
theorem network_fields_from_key_usage {Signed : Nat → SigMsg → Prop} {Wire : Msg.Msg → Prop} {net inst supp : Nat}
    {c : Committee} {F : Finset Pid} {runs : SignedRuns Wire net inst supp c F}
    (K : KeyUsage Signed Wire net inst supp c F runs) (hu : (c.entries.map (·.id)).Nodup) :
    (∀ p hp hF, ∀ op ∈ (runs p hp hF).ops,
      foreign op = true ∨ OpValidG (Wsig Signed net inst supp c) (tableOf c) op) ∧
    (∀ p hp hF r ph v, Wsig Signed net inst supp c p r ph v ↔
      ∃ tk j, Eff.broadcast r ph v tk j ∈ (run (init (runs p hp hF).cfg (tableOf c) (runs p hp hF).input) (runs p hp hF).ops).2) ∧
    (∀ p, p ∉ (ids (tableOf c)).toFinset → ∀ r ph v, ¬ Wsig Signed net inst supp c p r ph v) :=
  ⟨fun p hp hF => K.valid hu p hp hF, fun p hp hF r ph v => K.own p hp hF r ph v,
    wsig_nonMembers Signed net inst supp c⟩

/-- Non-vacuity of `agreement_from_key_usage`: the committee, signatures, wire messages and runs of
`F3.Audit2.SignedEx` (members 1, 2 honest, member 3 Byzantine with two different PREPAREs signed) satisfy every
hypothesis, honest members 1 and 2 both decide, and — as the theorem says — on the same value `[7, 8]`. -/
theorem agreement_from_key_usage_nonvacuous :
    (∃ d, (run (init (SignedEx.sRuns 1 (by decide) (by decide)).cfg (F3.ValidBridge.tableOf SignedEx.com)
        (SignedEx.sRuns 1 (by decide) (by decide)).input) (SignedEx.sRuns 1 (by decide) (by decide)).ops).1.termination
          = some d ∧ d.value = [7, 8]) ∧
    (SignedEx.cb ≠ SignedEx.cv ∧ (103, SignedEx.sm F3.Msg.PREPARE SignedEx.cb) ∈ SignedEx.S ∧
      (103, SignedEx.sm F3.Msg.PREPARE SignedEx.cv) ∈ SignedEx.S) ∧
    ∀ dp dq,
      (run (init (SignedEx.sRuns 1 (by decide) (by decide)).cfg (F3.ValidBridge.tableOf SignedEx.com)
        (SignedEx.sRuns 1 (by decide) (by decide)).input) (SignedEx.sRuns 1 (by decide) (by decide)).ops).1.termination
          = some dp →
      (run (init (SignedEx.sRuns 2 (by decide) (by decide)).cfg (F3.ValidBridge.tableOf SignedEx.com)
        (SignedEx.sRuns 2 (by decide) (by decide)).input) (SignedEx.sRuns 2 (by decide) (by decide)).ops).1.termination
          = some dq → dp.value = dq.value :=
  ⟨SignedEx.signed_example.2.2.2.2.2, ⟨by decide, SignedEx.signed_example.2.2.2.1, SignedEx.signed_example.2.2.2.2.1⟩,
    fun dp dq hdp hdq =>
      agreement_from_key_usage SignedEx.sKey SignedEx.signed_example.1 SignedEx.signed_example.2.1
        SignedEx.signed_example.2.2.1 1 2 (by decide) (by decide) (by decide) (by decide) dp dq hdp hdq⟩

end Audit2

end F3.Props.C01

namespace F3.Props.C01
section HonestEmissions
open F3 F3.Instance F3.Bridge

/-- **What an honest member of a network sends, every honest member's validator lets through** (the link between
C07's `emitted_valid` and the network structure the agreement theorems are about): in a `NetworkV`, every
broadcast effect of an honest member with positive power is a delivery admissible (`OpValidG`) at any member. So
the `valid` field the agreement theorems demand of deliveries is met by honest traffic itself — it constrains
Byzantine traffic only. -/
theorem honest_emissions_deliverable {t : Table} {F : Finset Pid} {W : Votes} (N : NetworkV t F W) (p : Pid)
    (hp : p ∈ (ids t).toFinset) (hF : p ∉ F) (hpos : 0 < t.power p) (r : Nat) (ph : Phase) (v : Chain) (tk : Bool)
    (j : Option Just)
    (hm : Eff.broadcast r ph v tk j ∈ (run (init (N.runs p hp hF).cfg t (N.runs p hp hF).input)
      (.start (N.runs p hp hF).start :: (N.runs p hp hF).ops)).2) (now : Int) :
    OpValidG W t (.recv now (F3.EmittedValid.msgOf p r ph v j)) :=
  F3.EmittedValid.emitted_deliverable N p hp hF hpos r ph v tk j hm now

end HonestEmissions
end F3.Props.C01

namespace F3.Props.C01
section HonestEmissionsParticipant
open F3 F3.Instance F3.Bridge

/-- **… also when the members are driven through the participant API** (`gpbft.Participant`: pre-start queue, drain
through `ReceiveMany` in any map order): in a `NetworkVP`, every message an honest member with positive power sends —
or re-sends on a rebroadcast request (`F3.EmittedValid.wireOf`: the requests expanded against the member's earlier
broadcasts) — is a delivery admissible at any member at any time (`PMsgOK`: of this instance, validated), before or
after the receiver's instance has begun. (`F3.Props.C07.emitted_valid_participant`, `wire_valid_participant`.) -/
theorem honest_emissions_deliverable_participant {t : Table} {F : Finset Pid} {W : Votes} (N : NetworkVP t F W)
    (p : Pid) (hp : p ∈ (ids t).toFinset) (hF : p ∉ F) (hpos : 0 < t.power p) (m : Msg)
    (hm : m ∈ F3.EmittedValid.wireOf p (prun (N.runs p hp hF).order
      (pinit (N.runs p hp hF).cfg t (N.runs p hp hF).input) (N.runs p hp hF).ops).2) (now : Int) :
    POpP (PMsgOK W t) (.recv now m) :=
  F3.EmittedValid.emitted_deliverableP N p hp hF hpos m hm now

/-- every broadcast effect is on the wire, so the statement covers plain broadcasts -/
theorem broadcast_on_wire (p : Pid) (es : List Eff) (r : Nat) (ph : Phase) (v : Chain) (tk : Bool) (j : Option Just)
    (h : Eff.broadcast r ph v tk j ∈ es) : F3.EmittedValid.msgOf p r ph v j ∈ F3.EmittedValid.wireOf p es :=
  F3.EmittedValid.bc_mem_wireOf h

end HonestEmissionsParticipant
end F3.Props.C01

namespace F3.Props.C01
section Skeletons

/-- **The Go functions this property's models mirror still have the statement structure the models were written
against**: each regenerated skeleton (pre-order list of statement kinds, `tools/go2lean/skel.go`) equals the pinned
expectation of `F3/Proofs/SkelTie*.lean`. An added early return, cap, loop or dropped branch in one of these functions
breaks this obligation even when no regenerated *expression* changes. -/
theorem code_structure_as_modelled :
    F3.Gen.SkelGpbft.skelQueueAdd = F3.SkelTie.SkelGpbft.skelQueueAddExpected ∧
    F3.Gen.SkelGpbft.skelQueueDrain = F3.SkelTie.SkelGpbft.skelQueueDrainExpected ∧
    F3.Gen.SkelGpbft.skelReceiveMessage = F3.SkelTie.SkelGpbft.skelReceiveMessageExpected ∧
    F3.Gen.SkelGpbft.skelHandleDecision = F3.SkelTie.SkelGpbft.skelHandleDecisionExpected ∧
    F3.Gen.SkelGpbft.skelReceiveOne = F3.SkelTie.SkelGpbft.skelReceiveOneExpected ∧
    F3.Gen.SkelGpbft.skelPostReceive = F3.SkelTie.SkelGpbft.skelPostReceiveExpected ∧
    F3.Gen.SkelGpbft.skelTryQuality = F3.SkelTie.SkelGpbft.skelTryQualityExpected ∧
    F3.Gen.SkelGpbft.skelTryConverge = F3.SkelTie.SkelGpbft.skelTryConvergeExpected ∧
    F3.Gen.SkelGpbft.skelTryPrepare = F3.SkelTie.SkelGpbft.skelTryPrepareExpected ∧
    F3.Gen.SkelGpbft.skelTryCommit = F3.SkelTie.SkelGpbft.skelTryCommitExpected ∧
    F3.Gen.SkelGpbft.skelTryDecide = F3.SkelTie.SkelGpbft.skelTryDecideExpected ∧
    F3.Gen.SkelGpbft.skelBeginDecide = F3.SkelTie.SkelGpbft.skelBeginDecideExpected ∧
    F3.Gen.SkelGpbft.skelSkipToRound = F3.SkelTie.SkelGpbft.skelSkipToRoundExpected ∧
    F3.Gen.SkelGpbft.skelTryRebroadcast = F3.SkelTie.SkelGpbft.skelTryRebroadcastExpected ∧
    F3.Gen.SkelGpbft.skelReceiveEachPrefix = F3.SkelTie.SkelGpbft.skelReceiveEachPrefixExpected ∧
    F3.Gen.SkelGpbft.skelFindStrongQuorumFor = F3.SkelTie.SkelGpbft.skelFindStrongQuorumForExpected ∧
    F3.Gen.SkelGpbft.skelBeginInstance = F3.SkelTie.SkelGpbft.skelBeginInstanceExpected ∧
    F3.Gen.SkelGpbft.skelReceiveAlarm = F3.SkelTie.SkelGpbft.skelReceiveAlarmExpected ∧
    F3.Gen.SkelGpbft.skelHasBase = F3.SkelTie.SkelGpbft.skelHasBaseExpected ∧
    F3.Gen.SkelGpbft.skelTipSetEqual = F3.SkelTie.SkelGpbft.skelTipSetEqualExpected ∧
    F3.Gen.SkelGpbft.skelChainEq = F3.SkelTie.SkelGpbft.skelChainEqExpected ∧
    F3.Gen.SkelGpbft.skelReceiveMany = F3.SkelTie.SkelGpbft.skelReceiveManyExpected ∧
    F3.Gen.SkelGpbft.skelShouldSkipToRound = F3.SkelTie.SkelGpbft.skelShouldSkipToRoundExpected ∧
    F3.Gen.SkelPower.skelScalePower = F3.SkelTie.SkelPower.skelScalePowerExpected ∧
    F3.Gen.SkelPower.skelPowerTableCopy = F3.SkelTie.SkelPower.skelPowerTableCopyExpected ∧
    F3.Gen.SkelPower.skelRescale = F3.SkelTie.SkelPower.skelRescaleExpected :=
  ⟨F3.SkelTie.SkelGpbft.skelQueueAdd_expected, F3.SkelTie.SkelGpbft.skelQueueDrain_expected, F3.SkelTie.SkelGpbft.skelReceiveMessage_expected, F3.SkelTie.SkelGpbft.skelHandleDecision_expected, F3.SkelTie.SkelGpbft.skelReceiveOne_expected, F3.SkelTie.SkelGpbft.skelPostReceive_expected, F3.SkelTie.SkelGpbft.skelTryQuality_expected, F3.SkelTie.SkelGpbft.skelTryConverge_expected, F3.SkelTie.SkelGpbft.skelTryPrepare_expected, F3.SkelTie.SkelGpbft.skelTryCommit_expected, F3.SkelTie.SkelGpbft.skelTryDecide_expected, F3.SkelTie.SkelGpbft.skelBeginDecide_expected, F3.SkelTie.SkelGpbft.skelSkipToRound_expected, F3.SkelTie.SkelGpbft.skelTryRebroadcast_expected, F3.SkelTie.SkelGpbft.skelReceiveEachPrefix_expected, F3.SkelTie.SkelGpbft.skelFindStrongQuorumFor_expected, F3.SkelTie.SkelGpbft.skelBeginInstance_expected, F3.SkelTie.SkelGpbft.skelReceiveAlarm_expected, F3.SkelTie.SkelGpbft.skelHasBase_expected, F3.SkelTie.SkelGpbft.skelTipSetEqual_expected, F3.SkelTie.SkelGpbft.skelChainEq_expected, F3.SkelTie.SkelGpbft.skelReceiveMany_expected, F3.SkelTie.SkelGpbft.skelShouldSkipToRound_expected, F3.SkelTie.SkelPower.skelScalePower_expected, F3.SkelTie.SkelPower.skelPowerTableCopy_expected, F3.SkelTie.SkelPower.skelRescale_expected⟩

end Skeletons
end F3.Props.C01
