import F3.Proofs.SkelTieInputs
import F3.Model.Inputs
import F3.Spec.Inputs
import F3.Proofs.Inputs
import F3.Proofs.InputsComplete
/-!
# C15 — proposals extend the finalized head along EC; committees derive from finalized history

Theorems about `F3.Inputs` (hand model of `consensus_inputs.go`, tied to the real component by
`h_inputs`). They hold for every finite EC tree, every certificate store, every manifest and clock
reading; no bound on sizes.
-/
namespace F3.Props.C15
open F3 F3.Inputs F3.Spec.Inputs F3.Proofs.Inputs F3.Proofs.InputsComplete

set_option linter.unusedSimpArgs false
set_option linter.unusedVariables false

/-- `collectChain` returns a parent chain from the base to EC's head: each tipset's EC parent is the
tipset before it, the first one's parent is the base, and the last one is the head. -/
theorem collect_is_parent_chain (ec : EC) (baseKey : Nat) (base head : Block) (l : List Nat)
    (h : collectChain ec baseKey base head = .ok (some l)) :
    isPath ec baseKey l ∧ (baseKey :: l).getLast? = some ec.head :=
  collectChain_path ec baseKey base head l h

/-- **…and it finds every such chain**: on a well-formed EC (every parent exists and has a strictly
smaller epoch) `collectChain` returns exactly the parent path whenever the base is an ancestor of,
or equal to, the head — so a proposal is cut short only by the look-back, freshness and length rules,
never by the walk itself. -/
theorem collect_complete (ec : EC) (hwf : wfEC ec) (baseKey : Nat) (base head : Block) (l : List Nat)
    (hb : ec.get baseKey = some base) (hh : ec.get ec.head = some head)
    (hp : isPath ec baseKey l) (hl : (baseKey :: l).getLast? = some ec.head) :
    collectChain ec baseKey base head = .ok (some l) :=
  collectChain_complete ec hwf baseKey base head l hb hh hp hl

/-- consequently "nil" (propose the base alone) is answered only when the head does not descend from
the base -/
theorem collect_nil_only_if_not_descendant (ec : EC) (hwf : wfEC ec) (baseKey : Nat) (base head : Block)
    (hb : ec.get baseKey = some base) (hh : ec.get ec.head = some head)
    (hnil : collectChain ec baseKey base head = .ok none) :
    ¬ ∃ l, isPath ec baseKey l ∧ (baseKey :: l).getLast? = some ec.head := by
  rintro ⟨l, hp, hl⟩
  rw [collectChain_complete ec hwf baseKey base head l hb hh hp hl] at hnil
  cases hnil

/-- **Shape of every proposal.** Whenever `GetProposal` answers, for every EC tree, certificate store,
manifest and clock reading: the chain starts at the tipset finalized by the previous instance (the
bootstrap tipset for the first instance); every tipset carries EC's epoch and EC's power-table CID
at that tipset; every next tipset is the EC child of the previous one on the way to EC's head (the
proposal is a prefix of the parent chain base → head), or the chain is the base alone; epochs
strictly increase from a non-negative base epoch; and the length is at most
`min(ChainMaxLen, ChainProposedLength)`. -/
theorem proposal_shape (m : Manifest) (s : Store) (ec : EC) (now : Int) (inst supp : Nat) (chain : List Tip)
    (h : getProposal m s ec now inst = .ok (supp, chain)) :
    ∃ baseKey b sfx, expectedBase m s ec inst = some baseKey ∧ chain = b :: sfx ∧ b.key = baseKey ∧
      (∀ t ∈ chain, tipOf ec t.key = some t) ∧
      isPath ec baseKey (sfx.map (·.key)) ∧
      (sfx = [] ∨ ∃ rest, isPath ec baseKey (sfx.map (·.key) ++ rest) ∧
          (baseKey :: (sfx.map (·.key) ++ rest)).getLast? = some ec.head) ∧
      epochsIncreasing chain = true ∧ 0 ≤ b.epoch ∧
      (chain.length : Int) ≤ min ChainMaxLen m.chainProposedLength := by
  unfold getProposal at h
  split at h
  · cases h
  · rename_i baseKey hbk
    split at h
    · cases h
    · cases h
    · rename_i base head hbase hhead
      split at h
      · cases h
      · rename_i col hcol
        simp only at h
        split at h
        · cases h
        · rename_i hlen
          split at h
          · rename_i b sfx hb hsfx
            split at h
            · cases h
            · rename_i hval
              split at h
              · cases h
              · rename_i c hc
                simp only [Res.ok.injEq, Prod.mk.injEq] at h
                obtain ⟨_, hchain⟩ := h
                subst hchain
                have hts := tipsOf_spec ec _ sfx hsfx
                have hbkey : b.key = baseKey := by
                  unfold tipOf at hb
                  rw [hbase] at hb
                  simp at hb; rw [← hb]
                have hbe : b.epoch = base.epoch := by
                  unfold tipOf at hb
                  rw [hbase] at hb
                  simp at hb; rw [← hb]
                simp only [Bool.or_eq_true, Bool.not_eq_true', decide_eq_true_eq, not_or, Bool.not_eq_false,
                  Int.not_lt] at hval
                -- the suffix keys are a prefix of the collected chain
                obtain ⟨r1, hr1⟩ := trim_prefix m ec now (col.getD [])
                generalize htr : trim m ec now (col.getD []) = collected at hts hsfx hr1
                generalize hn : (min (min ChainMaxLen m.chainProposedLength - 1) (collected.length : Int)).toNat = n at hts hsfx
                have hpre : col.getD [] = collected.take n ++ (collected.drop n ++ r1) := by
                  rw [← List.append_assoc, List.take_append_drop]; exact hr1
                refine ⟨baseKey, b, sfx, baseKeyOf_expected m s ec inst baseKey hbk, rfl, hbkey, ?_, ?_, ?_, hval.1,
                  by rw [hbe]; exact hval.2, ?_⟩
                · intro t ht
                  simp only [List.mem_cons] at ht
                  rcases ht with ht | ht
                  · subst ht; rw [hbkey]; exact hb
                  · exact hts.2 t ht
                · rw [hts.1]
                  cases col with
                  | none =>
                    have h0 : collected.take n = [] := (List.append_eq_nil_iff.mp hpre.symm).1
                    rw [h0]; trivial
                  | some l =>
                    have hp := (collectChain_path ec baseKey base head l hcol).1
                    simp at hpre
                    rw [hpre] at hp
                    exact isPath_prefix ec _ _ _ hp
                · cases col with
                  | none =>
                    have h0 : collected.take n = [] := (List.append_eq_nil_iff.mp hpre.symm).1
                    left
                    have : sfx.map (·.key) = [] := by rw [hts.1, h0]
                    simpa using this
                  | some l =>
                    right
                    have hp := collectChain_path ec baseKey base head l hcol
                    simp at hpre
                    refine ⟨collected.drop n ++ r1, ?_, ?_⟩
                    · rw [hts.1, ← hpre]; exact hp.1
                    · rw [hts.1, ← hpre]; exact hp.2
                · have hlen2 : sfx.length = (collected.take n).length := by rw [← hts.1]; simp
                  simp only [List.length_cons, hlen2, List.length_take]
                  have : (n : Int) ≤ min ChainMaxLen m.chainProposedLength - 1 := by
                    rw [← hn]
                    have : 0 ≤ min (min ChainMaxLen m.chainProposedLength - 1) (collected.length : Int) := by omega
                    rw [Int.toNat_of_nonneg this]; omega
                  omega
          · cases h


/-- the executable shape predicate used by the driver accepts exactly… at least every proposal of
the model: `proposalShape` is implied by `proposal_shape` on the points it checks (base, EC data,
length). -/
theorem proposal_passes_executable_length_check (m : Manifest) (s : Store) (ec : EC) (now : Int) (inst supp : Nat)
    (chain : List Tip) (h : getProposal m s ec now inst = .ok (supp, chain)) :
    ¬ ((chain.length : Int) > min ChainMaxLen m.chainProposedLength) ∧ chain ≠ [] := by
  obtain ⟨_, b, sfx, _, hc, _, _, _, _, _, _, hlen⟩ := proposal_shape m s ec now inst supp chain h
  exact ⟨by omega, by rw [hc]; simp⟩

/-- when EC's head is behind the base the proposal is the base alone -/
theorem proposal_base_only_when_head_behind (m : Manifest) (s : Store) (ec : EC) (now : Int) (inst supp : Nat)
    (chain : List Tip) (h : getProposal m s ec now inst = .ok (supp, chain))
    (baseKey : Nat) (base head : Block) (hk : baseKeyOf m s ec inst = .ok baseKey)
    (hb : ec.get baseKey = some base) (hh : ec.get ec.head = some head) (hbehind : head.epoch < base.epoch) :
    chain.length = 1 := by
  unfold getProposal at h
  rw [hk] at h
  simp only [hb, hh] at h
  have hc : collectChain ec baseKey base head = .ok none := by simp [collectChain, hbehind]
  rw [hc] at h
  have htrim : trim m ec now [] = [] := by simp [trim]
  simp only [Option.getD_none, htrim, List.length_nil, List.take_nil] at h
  split at h
  · cases h
  · simp only [tipsOf] at h
    split at h
    · rename_i b sfx hbt hs
      simp only [Option.some.injEq] at hs
      split at h
      · cases h
      · split at h
        · cases h
        · simp only [Res.ok.injEq, Prod.mk.injEq] at h
          rw [← h.2, ← hs]; rfl
    · cases h

/-- the supplemental data of a proposal commits to the table of the next instance's committee, as
derived by the same rule from the same store and EC -/
theorem supp_commits_next_committee (m : Manifest) (s : Store) (ec : EC) (now : Int) (inst supp : Nat)
    (chain : List Tip) (h : getProposal m s ec now inst = .ok (supp, chain)) :
    ∃ c, getCommittee m s ec (inst + 1) = .ok c ∧ c.table = supp := by
  unfold getProposal at h
  simp only at h
  split at h
  · cases h
  · split at h
    · cases h
    · cases h
    · split at h
      · cases h
      · split at h
        · cases h
        · split at h
          · split at h
            · cases h
            · split at h
              · cases h
              · rename_i c hc
                simp only [Res.ok.injEq, Prod.mk.injEq] at h
                exact ⟨c, hc, h.1⟩
          · cases h

/-- **Committees depend on finalized tipsets only.** Two EC views that agree on the tipsets named by
the stored certificates and on the bootstrap tipset — and may differ arbitrarily elsewhere: other
heads, forks, unfinalized blocks — give the same committee for every instance. -/
theorem committee_ec_view_independent (m : Manifest) (s : Store) (ec1 ec2 : EC) (inst : Nat)
    (hboot : ec1.byEpoch (m.bootstrapEpoch - m.finality) = ec2.byEpoch (m.bootstrapEpoch - m.finality))
    (hget : ∀ c ∈ s.certs, ec1.get c.head = ec2.get c.head ∧ ec1.get c.base = ec2.get c.base) :
    getCommittee m s ec1 inst = getCommittee m s ec2 inst := by
  unfold getCommittee
  split
  · split
    · rfl
    · split
      · rw [hboot]
      · split
        · rfl
        · rename_i c hc
          rw [(hget c (store_get_mem s _ c hc)).2]
  · split
    · rfl
    · rename_i c hc
      rw [(hget c (store_get_mem s _ c hc)).1]


/-- **Committees are stable under new certificates**: once the store determines the table of an
instance, appending any further certificates does not change that instance's committee. -/
theorem committee_stable_under_new_certificates (m : Manifest) (s : Store) (extra : List Cert) (ec : EC) (inst : Nat)
    (hfirst : s.first = m.initialInstance) (hL : 0 < m.committeeLookback)
    (havail : inst ≤ s.first + s.certs.length) (hne : s.certs ≠ []) :
    getCommittee m { s with certs := s.certs ++ extra } ec inst = getCommittee m s ec inst := by
  have hlen : 0 < s.certs.length := List.length_pos_iff.mpr hne
  have he1 : s.certs.isEmpty = false := by simpa using hne
  have he2 : (s.certs ++ extra).isEmpty = false := by simp [hne]
  unfold getCommittee
  simp only [he1, he2]
  rw [store_powerTable_append s extra m.initialInstance (by omega),
      store_get_append s extra m.initialInstance (by omega),
      store_powerTable_append s extra inst havail]
  by_cases hw : inst < m.initialInstance + m.committeeLookback
  · simp only [hw, ite_true]
  · simp only [hw, ite_false]
    rw [store_get_append s extra (inst - m.committeeLookback) (by omega)]

/-- **Committees are a function of the finalized history.** Two nodes whose stores share a
non-empty certificate prefix that already determines the instance's table, whose EC views agree on
the tipsets named by that prefix and on the bootstrap tipset, derive the same committee — whatever
else they have stored or seen. -/
theorem committee_function_of_history (m : Manifest) (first initialTable : Nat) (pre e1 e2 : List Cert)
    (ec1 ec2 : EC) (inst : Nat)
    (hfirst : first = m.initialInstance) (hL : 0 < m.committeeLookback)
    (havail : inst ≤ first + pre.length) (hne : pre ≠ [])
    (hboot : ec1.byEpoch (m.bootstrapEpoch - m.finality) = ec2.byEpoch (m.bootstrapEpoch - m.finality))
    (hget : ∀ c ∈ pre, ec1.get c.head = ec2.get c.head ∧ ec1.get c.base = ec2.get c.base) :
    getCommittee m { first := first, initialTable := initialTable, certs := pre ++ e1 } ec1 inst =
    getCommittee m { first := first, initialTable := initialTable, certs := pre ++ e2 } ec2 inst := by
  let s : Store := { first := first, initialTable := initialTable, certs := pre }
  have h1 := committee_stable_under_new_certificates m s e1 ec1 inst hfirst hL havail hne
  have h2 := committee_stable_under_new_certificates m s e2 ec2 inst hfirst hL havail hne
  have h3 := committee_ec_view_independent m s ec1 ec2 inst hboot hget
  show getCommittee m { s with certs := s.certs ++ e1 } ec1 inst = getCommittee m { s with certs := s.certs ++ e2 } ec2 inst
  rw [h1, h2, h3]

/-- inside the look-back window the committee's table is the initial table -/
theorem committee_initial_table_in_window (m : Manifest) (s : Store) (ec : EC) (inst : Nat) (c : Committee)
    (hfirst : s.first = m.initialInstance) (hw : inst < m.initialInstance + m.committeeLookback)
    (h : getCommittee m s ec inst = .ok c) : c.table = s.initialTable := by
  unfold getCommittee at h
  simp only [hw, ite_true] at h
  have hp : s.powerTable m.initialInstance = some s.initialTable := by
    unfold Store.powerTable; simp [hfirst]
  simp only [hp] at h
  split at h
  · split at h
    · cases h
    · simp only [Res.ok.injEq] at h; rw [← h]
  · split at h
    · cases h
    · split at h
      · cases h
      · simp only [Res.ok.injEq] at h; rw [← h]

/-- after the window, table and beacon come from the head finalized `lookback` instances earlier:
the beacon is that tipset's, the table is the one committed for the instance by the previous
certificate if the store already has it, else EC's table at that tipset -/
theorem committee_after_window (m : Manifest) (s : Store) (ec : EC) (inst : Nat) (c : Committee)
    (hw : ¬ inst < m.initialInstance + m.committeeLookback)
    (h : getCommittee m s ec inst = .ok c) :
    ∃ cert blk, s.get (inst - m.committeeLookback) = some cert ∧ ec.get cert.head = some blk ∧
      c.beacon = cert.head ∧ (s.powerTable inst = some c.table ∨ (s.powerTable inst = none ∧ c.table = blk.pt)) := by
  unfold getCommittee at h
  simp only [hw, ite_false] at h
  split at h
  · cases h
  · rename_i cert hcert
    cases hg : ec.get cert.head with
    | none =>
      simp only [hg] at h
      cases hpt : s.powerTable inst with
      | none => simp [hpt] at h
      | some t => simp [hpt] at h
    | some blk =>
      simp only [hg] at h
      cases hpt : s.powerTable inst with
      | none =>
        simp [hpt] at h
        exact ⟨cert, blk, hcert, hg, by rw [← h], Or.inr ⟨rfl, by rw [← h]⟩⟩
      | some t =>
        simp [hpt] at h
        exact ⟨cert, blk, hcert, hg, by rw [← h], Or.inl (by rw [← h])⟩

/-! ## Non-vacuity -/

/-- a small tree: 0 ← 1 ← 2 ← 3 ← 4 (main chain, epoch 3 is a null round) and a fork 2 ← 5 -/
def exampleEC : EC :=
  { blocks := [⟨0, none, 0, 0⟩, ⟨1, some 0, 0, 30⟩, ⟨2, some 1, 1, 60⟩, ⟨4, some 2, 1, 120⟩, ⟨5, some 3, 0, 150⟩, ⟨3, some 2, 1, 90⟩],
    head := 4 }

def exampleManifest : Manifest :=
  { initialInstance := 0, bootstrapEpoch := 1, finality := 0, headLookback := 0, period := 30,
    chainProposedLength := 100, committeeLookback := 2 }

/-- first instance, fresh store: the proposal runs from the bootstrap tipset 1 along 2, 3 to the head 4 -/
example : getProposal exampleManifest { first := 0, initialTable := 0, certs := [] } exampleEC 1000 0 =
    .ok (0, [⟨1, 1, 0⟩, ⟨2, 2, 1⟩, ⟨3, 4, 1⟩, ⟨4, 5, 0⟩]) := by decide

/-- the head tipset is younger than one period: it is trimmed -/
example : (match getProposal exampleManifest { first := 0, initialTable := 0, certs := [] } exampleEC 160 0 with
    | .ok (_, c) => c.length | .err _ => 0) = 3 := by decide

/-- head on the fork 2 ← 5 while tipset 3 is final: the proposal collapses to the base -/
example : getProposal exampleManifest { first := 0, initialTable := 0, certs := [⟨1, 3, 0⟩] }
    { exampleEC with head := 5 } 1000 1 = .ok (1, [⟨3, 4, 1⟩]) := by decide

/-- committee of instance 2 (look-back 2): from the head finalized in instance 0 -/
example : getCommittee exampleManifest { first := 0, initialTable := 0, certs := [⟨1, 3, 0⟩, ⟨3, 4, 0⟩] } exampleEC 2 =
    .ok { table := 0, beacon := 3 } := by decide

end F3.Props.C15

namespace F3.Props.C15
section Skeletons

/-- **The Go functions this property's models mirror still have the statement structure the models were written
against**: each regenerated skeleton (pre-order list of statement kinds, `tools/go2lean/skel.go`) equals the pinned
expectation of `F3/Proofs/SkelTie*.lean`. An added early return, cap, loop or dropped branch in one of these functions
breaks this obligation even when no regenerated *expression* changes. -/
theorem code_structure_as_modelled :
    F3.Gen.SkelInputs.skelGetProposal = F3.SkelTie.SkelInputs.skelGetProposalExpected ∧
    F3.Gen.SkelInputs.skelPtCidForTipset = F3.SkelTie.SkelInputs.skelPtCidForTipsetExpected :=
  ⟨F3.SkelTie.SkelInputs.skelGetProposal_expected, F3.SkelTie.SkelInputs.skelPtCidForTipset_expected⟩

end Skeletons
end F3.Props.C15
