import F3.Model.Inputs
import F3.Spec.Inputs
/-!
# C15 — proposals extend the finalized head along EC; committees derive from finalized history
-/
namespace F3.Props.C15
open F3 F3.Inputs F3.Spec.Inputs

/-- the supplemental data of a proposal commits to the table of the next instance's committee, as
derived by the same rule from the same store and EC -/
theorem supp_commits_next_committee (m : Manifest) (s : Store) (ec : EC) (now : Int) (inst supp : Nat)
    (chain : List Tip) (h : getProposal m s ec now inst = .ok (supp, chain)) :
    ∃ c, getCommittee m s ec (inst + 1) = .ok c ∧ c.table = supp := by
  unfold getProposal at h
  simp only at h
  split at h
  · cases h
  · split at h
    · cases h
    · cases h
    · split at h
      · cases h
      · split at h
        · cases h
        · split at h
          · split at h
            · cases h
            · split at h
              · cases h
              · rename_i c hc
                simp only [Res.ok.injEq, Prod.mk.injEq] at h
                exact ⟨c, hc, h.1⟩
          · cases h

end F3.Props.C15
