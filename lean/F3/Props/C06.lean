import F3.Proofs.InstanceRun
import F3.Props.C07
/-!
# C06 — termination (partial by nature)

What can be a theorem about the executable model: no phase can get stuck once its exit condition holds
(`*_leaves`), a strong DECIDE quorum terminates (`decide_quorum_terminates`), one validated DECIDE pulls a
participant into DECIDE (`decide_propagates`), a participant behind jumps ahead (`skip_rule`).
What cannot: the bound on the number of rounds after stabilisation depends on which CONVERGE ticket is
lowest (the output of a hash) and on real-time delivery; no executable untimed model carries the full claim.
It is validated on every run of the live/sync harness modes (C06 oracle), not proved.
-/
namespace F3.Props.C06
open F3.Instance

/-- QUALITY ends at its timeout, whatever was received. -/
theorem quality_timeout_leaves_partial (s : State) (now : Int) (h : s.phase = .quality)
    (hto : s.phaseTimeoutElapsed now = true) : (s.tryQuality now).1.phase = .prepare := by
  unfold State.tryQuality
  simp [h, hto]
  unfold State.beginPrepare State.alarmAfter State.resetReb
  rfl

/-- CONVERGE ends at its timeout: PREPARE begins, unless no acceptable value exists (the error the C07
oracle watches for; excluded when the participant's own proposal is a candidate). -/
theorem converge_timeout_leaves_partial (s : State) (now : Int) (h : s.phase = .converge)
    (hto : s.phaseTimeoutElapsed now = true) :
    hasFailure (s.tryConverge now).2 = true ∨ (s.tryConverge now).1.phase = .prepare := by
  unfold State.tryConverge
  simp only [h, hto]
  simp only [bne_self_eq_false, Bool.false_eq_true, if_false, Bool.not_true]
  split
  · exact Or.inl (by simp)
  · split
    · exact Or.inl (by simp)
    · right
      unfold State.beginPrepare State.alarmAfter State.resetReb
      rfl

/-- PREPARE ends once its timer has fired and a strong quorum of senders has been heard (or earlier, on a
quorum for the proposal or on its impossibility). -/
theorem prepare_complete_leaves_partial (s : State) (now : Int) (h : s.phase = .prepare)
    (hdone : (s.prepFoundQuorum || s.prepFoundJust || s.prepNotPossible || s.prepComplete now) = true) :
    (s.tryPrepare now).1.phase = .commit := by
  unfold State.tryPrepare
  simp only [h, hdone]
  simp only [bne_self_eq_false, Bool.false_eq_true, if_false, if_true]
  unfold State.beginCommit State.alarmAfter State.resetReb
  dsimp only
  split
  · rfl
  · split <;> rfl

/-- COMMIT ends once its timer has fired and a strong quorum of senders has been heard: the participant
decides, or moves to the next round (or reports the failure the C07 oracle watches for). -/
theorem commit_complete_leaves_partial (s : State) (now : Int) (h : s.phase = .commit)
    (hc : (s.phaseTimeoutElapsed now && (s.getRound s.round).committed.fromStrong s.tbl) = true) :
    hasFailure (s.tryCommit now s.round).2 = true ∨ (s.tryCommit now s.round).1.phase = .decide ∨
      (s.tryCommit now s.round).1.round = s.round + 1 := by
  have hnr : ∀ st : State, st.round = s.round →
      hasFailure (st.beginNextRound now).2 = true ∨ (st.beginNextRound now).1.round = s.round + 1 := by
    intro st hst
    unfold State.beginNextRound
    dsimp only
    split
    · right
      unfold State.beginConverge State.alarmAfter State.resetReb State.setRound
      dsimp only
      split <;> simp [hst]
    · exact Or.inl (by simp)
  unfold State.tryCommit
  dsimp only
  split
  · exact Or.inl (by simp)
  · split
    · right; left
      unfold State.beginDecide State.resetReb
      dsimp only
      split <;> rfl
    · have hcond : (s.round != s.round || s.phase != Phase.commit) = false := by simp [h]
      simp only [hcond, Bool.false_eq_true, if_false]
      rcases hnr s rfl with hf | hr
      · exact Or.inl hf
      · exact Or.inr (Or.inr hr)
  · have hcond : (s.round != s.round || s.phase != Phase.commit) = false := by simp [h]
    simp only [hcond, Bool.false_eq_true, if_false]
    split
    · rcases hnr s rfl with hf | hr
      · exact Or.inl hf
      · exact Or.inr (Or.inr hr)
    · first
        | (rcases hnr (s.commitSway (s.getRound s.round).committed) (by simp) with hf | hr
           · exact Or.inl hf
           · exact Or.inr (Or.inr hr))
        | (split
           · rcases hnr (s.commitSway (s.getRound s.round).committed) (by simp) with hf | hr
             · exact Or.inl hf
             · exact Or.inr (Or.inr hr)
           · rename_i hno; exact absurd hc hno)

/-- a strong quorum of DECIDE votes terminates the instance -/
theorem decide_quorum_terminates (s : State) (now : Int) (v : Chain)
    (hq : s.decision.findStrongQuorumValue = .one v) :
    hasFailure (s.tryDecide now).2 = true ∨ (s.tryDecide now).1.phase = .terminated := by
  unfold State.tryDecide
  simp only [hq]
  split
  · right; rfl
  · exact Or.inl (by simp)
  · exact Or.inl (by simp)

/-- one validated DECIDE message moves a participant that is not yet in DECIDE into DECIDE (or beyond) -/
theorem decide_propagates (s : State) (now : Int) (m : Msg) (hp : s.phase.toNat < 5) :
    hasFailure (s.recvDecide now m).2 = true ∨ 5 ≤ (s.recvDecide now m).1.phase.toNat := by
  have hw := recvDecide_wp s now m (by intro h; rw [h] at hp; simp [Phase.toNat] at hp)
  unfold State.recvDecide at *
  dsimp only at *
  split
  · exact Or.inl (by simp)
  · rename_i q hq
    simp only [hq] at hw
    have hnd : s.phase ≠ .decide := by intro h; rw [h] at hp; simp [Phase.toNat] at hp
    simp only [bne_iff_ne, ne_eq, hnd, not_false_eq_true, if_true] at hw ⊢
    apply andThen_or (P := fun st => 5 ≤ st.phase.toNat)
    have hph := skipToDecide_phase ({ s with decision := q } : State) m.value m.just
    rw [tryCurrentPhase_decide _ now hph]
    rcases tryDecide_cases (({ s with decision := q } : State).skipToDecide m.value m.just).1 now with hf | ⟨ht, _, _⟩ | ⟨hsame, _, _⟩
    · exact Or.inl hf
    · exact Or.inr (by rw [ht]; simp [Phase.toNat])
    · exact Or.inr (by rw [hsame, hph]; simp [Phase.toNat])

/-- the skip rule: a participant that holds a weak quorum of PREPAREs for a later round and a justified
CONVERGE value for it jumps to that round (unless it is already deciding) -/
theorem skip_rule (s : State) (now : Int) (round : Nat) (p : ConvVal)
    (hr : s.round < round) (hd : s.phase ≠ .decide)
    (hw : (s.getRound round).prepared.fromWeak s.tbl = true)
    (hb : (s.getRound round).converged.findBest (fun _ => true) = some p) (hne : p.chain ≠ []) :
    hasFailure (s.postReceive now round).2 = true ∨ (s.postReceive now round).1.round = round := by
  unfold State.postReceive
  dsimp only
  have h1 : (decide (round ≤ s.round) || s.phase == .decide) = false := by
    simp [hd]; omega
  simp only [h1, Bool.false_eq_true, if_false, hw, Bool.not_true, hb]
  have hne' : p.chain.isEmpty = false := by cases hc : p.chain <;> simp_all
  simp only [hne', Bool.false_eq_true, if_false]
  have hrr : ∀ st : State, st.round = round → ∀ j,
      hasFailure (st.beginConverge now j).2 = true ∨ (st.beginConverge now j).1.round = round := by
    intro st hst j
    unfold State.beginConverge State.alarmAfter State.resetReb State.setRound
    dsimp only
    split
    · exact Or.inl (by simp)
    · exact Or.inr hst
  apply hrr
  split <;> split <;> simp

/-! ### the untimed core of "unanimous and synchronous ⇒ that chain is decided in round 0" (C02, second sentence)

Once a strong quorum for the unanimous value has been tallied, each phase ends with that value without waiting for
its timer: QUALITY → PREPARE for the input, PREPARE → COMMIT for the proposal, COMMIT → DECIDE for the quorum value,
DECIDE → termination (`decide_quorum_terminates`). That the quorum *is* tallied — for every delivery order of a
network of honest model participants whose deliveries respect the order implied by the synchrony bound — and that
the chain is then decided by everybody is `C02.unanimous_sync_invariant` / `C02.unanimous_sync_decides`
(`F3/Model/Net.lean`, `F3/Proofs/Sync*.lean`). -/

theorem unanimous_step_quality (s : State) (now : Int) (h : s.phase = .quality) (hp : s.proposal = s.input)
    (hq : s.quality.hasStrongFor s.input = true) :
    (s.tryQuality now).1.phase = .prepare ∧ (s.tryQuality now).1.proposal = s.input ∧
      Eff.broadcast s.round .prepare s.input false none ∈ (s.tryQuality now).2 := by
  have hl : s.quality.longestPrefixWithQuorum s.input = s.input :=
    (F3.Props.C07.longest_prefix_spec s.quality s.input).2.2 hq
  unfold State.tryQuality
  simp only [h, hp, hq, bne_self_eq_false, Bool.false_eq_true, if_false, Bool.true_or, if_true, hl]
  unfold State.beginPrepare State.alarmAfter State.resetReb
  simp [F3.Props.C07.addCandidatePrefixes_proposal]

theorem unanimous_step_prepare (s : State) (now : Int) (h : s.phase = .prepare) (hne : s.proposal ≠ [])
    (hq : s.prepFoundQuorum = true) :
    (s.tryPrepare now).1.phase = .commit ∧ (s.tryPrepare now).1.value = s.proposal ∧
      (hasFailure (s.tryPrepare now).2 = true ∨
        ∃ j, Eff.broadcast s.round .commit s.proposal false (some j) ∈ (s.tryPrepare now).2) := by
  have hne' : s.proposal.isEmpty = false := by cases hc : s.proposal <;> simp_all
  unfold State.tryPrepare State.prepareValue
  simp only [h, hq, bne_self_eq_false, Bool.false_eq_true, if_false, Bool.true_or, if_true]
  unfold State.beginCommit State.alarmAfter State.resetReb
  simp only [hne', Bool.false_eq_true, if_false]
  split
  · rename_i j _
    exact ⟨rfl, rfl, Or.inr ⟨j, by simp⟩⟩
  · exact ⟨rfl, rfl, Or.inl (by simp)⟩

theorem unanimous_step_commit (s : State) (now : Int) (c : Chain) (hne : c ≠ [])
    (hq : (s.getRound s.round).committed.findStrongQuorumValue = .one c) :
    (s.tryCommit now s.round).1.phase = .decide ∧ (s.tryCommit now s.round).1.value = c ∧
      (hasFailure (s.tryCommit now s.round).2 = true ∨
        ∃ j, Eff.broadcast 0 .decide c false (some j) ∈ (s.tryCommit now s.round).2) := by
  have hne' : c.isEmpty = false := by cases c <;> simp_all
  unfold State.tryCommit
  simp only [hq, hne', Bool.not_false, if_true]
  unfold State.beginDecide State.resetReb
  dsimp only
  split
  · rename_i sg _
    exact ⟨rfl, rfl, Or.inr ⟨{ round := s.round, phase := .commit, value := c, signers := sg }, by simp⟩⟩
  · exact ⟨rfl, rfl, Or.inl (by simp)⟩
  · exact ⟨rfl, rfl, Or.inl (by simp)⟩

/-- Non-vacuity of the hypotheses: a PREPARE-phase state whose timer has fired with all three members heard. -/
example : ∃ s : State, ∃ now : Int, s.phase = .prepare ∧
    (s.prepFoundQuorum || s.prepFoundJust || s.prepNotPossible || s.prepComplete now) = true := by
  let tbl : Table := { entries := [(1, 30000), (2, 20000), (3, 15534)] }
  let cfg : Cfg := { maxLookahead := 2, rebImmediateAfter := 3, timeout2 := [100], qualityTimeout2 := 100, rebAfter := [50] }
  let ops : List Op :=
    [.start 0, .alarm 200,
     .recv 201 { sender := 1, round := 0, phase := .prepare, value := [7] },
     .recv 202 { sender := 2, round := 0, phase := .prepare, value := [7, 8] }]
  refine ⟨(run (init cfg tbl [7, 8]) ops).1, 400, by decide, by decide⟩

end F3.Props.C06
