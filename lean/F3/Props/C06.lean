import F3.Proofs.SkelTieGpbft
import F3.Proofs.InstanceGen2
import F3.Proofs.InstanceRun
import F3.Props.C07
import F3.Proofs.SyncGeneralNet
import F3.Model.NetTimed
import F3.Proofs.AlarmInvRun
import F3.Model.NetRanked
import F3.Proofs.RoundDecides
import F3.Proofs.RoundNetMain
/-!
# C06 — termination (partial by nature)

What can be a theorem about the executable model: no phase can get stuck once its exit condition holds
(`*_leaves`), a strong DECIDE quorum terminates (`decide_quorum_terminates`), one validated DECIDE pulls a
participant into DECIDE (`decide_propagates`), a participant behind jumps ahead (`skip_rule`).
What cannot: the bound on the number of rounds after stabilisation depends on which CONVERGE ticket is
lowest (the output of a hash) and on real-time delivery; no executable untimed model carries the full claim.
It is validated on every run of the live/sync harness modes (C06 oracle), not proved.
-/
namespace F3.Props.C06
open F3.Instance

/-- QUALITY ends at its timeout, whatever was received. -/
theorem quality_timeout_leaves_partial (s : State) (now : Int) (h : s.phase = .quality)
    (hto : s.phaseTimeoutElapsed now = true) : (s.tryQuality now).1.phase = .prepare := by
  unfold State.tryQuality
  simp [h, hto]
  unfold State.beginPrepare State.alarmAfter State.resetReb
  rfl

/-- CONVERGE ends at its timeout: PREPARE begins, unless no acceptable value exists (the error the C07
oracle watches for; excluded when the participant's own proposal is a candidate). -/
theorem converge_timeout_leaves_partial (s : State) (now : Int) (h : s.phase = .converge)
    (hto : s.phaseTimeoutElapsed now = true) :
    hasFailure (s.tryConverge now).2 = true ∨ (s.tryConverge now).1.phase = .prepare := by
  unfold State.tryConverge
  simp only [h, hto]
  simp only [bne_self_eq_false, Bool.false_eq_true, if_false, Bool.not_true]
  split
  · exact Or.inl (by simp)
  · split
    · exact Or.inl (by simp)
    · right
      unfold State.beginPrepare State.alarmAfter State.resetReb
      rfl

/-- PREPARE ends once its timer has fired and a strong quorum of senders has been heard (or earlier, on a
quorum for the proposal or on its impossibility). -/
theorem prepare_complete_leaves_partial (s : State) (now : Int) (h : s.phase = .prepare)
    (hdone : (s.prepFoundQuorum || s.prepFoundJust || s.prepNotPossible || s.prepComplete now) = true) :
    (s.tryPrepare now).1.phase = .commit := by
  unfold State.tryPrepare
  simp only [h, hdone]
  simp only [bne_self_eq_false, Bool.false_eq_true, if_false, if_true]
  unfold State.beginCommit State.alarmAfter State.resetReb
  dsimp only
  split
  · rfl
  · split <;> rfl

/-- COMMIT ends once its timer has fired and a strong quorum of senders has been heard: the participant
decides, or moves to the next round (or reports the failure the C07 oracle watches for). -/
theorem commit_complete_leaves_partial (s : State) (now : Int) (h : s.phase = .commit)
    (hc : (s.phaseTimeoutElapsed now && (s.getRound s.round).committed.fromStrong s.tbl) = true) :
    hasFailure (s.tryCommit now s.round).2 = true ∨ (s.tryCommit now s.round).1.phase = .decide ∨
      (s.tryCommit now s.round).1.round = s.round + 1 := by
  have hnr : ∀ st : State, st.round = s.round →
      hasFailure (st.beginNextRound now).2 = true ∨ (st.beginNextRound now).1.round = s.round + 1 := by
    intro st hst
    unfold State.beginNextRound
    dsimp only
    split
    · right
      unfold State.beginConverge State.alarmAfter State.resetReb State.setRound
      dsimp only
      split <;> simp [hst]
    · exact Or.inl (by simp)
  unfold State.tryCommit
  dsimp only
  split
  · exact Or.inl (by simp)
  · split
    · right; left
      unfold State.beginDecide State.resetReb
      dsimp only
      split <;> rfl
    · have hcond : (s.round != s.round || s.phase != Phase.commit) = false := by simp [h]
      simp only [hcond, Bool.false_eq_true, if_false]
      rcases hnr s rfl with hf | hr
      · exact Or.inl hf
      · exact Or.inr (Or.inr hr)
  · have hcond : (s.round != s.round || s.phase != Phase.commit) = false := by simp [h]
    simp only [hcond, Bool.false_eq_true, if_false]
    split
    · rcases hnr s rfl with hf | hr
      · exact Or.inl hf
      · exact Or.inr (Or.inr hr)
    · first
        | (rcases hnr (s.commitSway (s.getRound s.round).committed) (by simp) with hf | hr
           · exact Or.inl hf
           · exact Or.inr (Or.inr hr))
        | (split
           · rcases hnr (s.commitSway (s.getRound s.round).committed) (by simp) with hf | hr
             · exact Or.inl hf
             · exact Or.inr (Or.inr hr)
           · rename_i hno; exact absurd hc hno)

/-- a strong quorum of DECIDE votes terminates the instance -/
theorem decide_quorum_terminates (s : State) (now : Int) (v : Chain)
    (hq : s.decision.findStrongQuorumValue = .one v) :
    hasFailure (s.tryDecide now).2 = true ∨ (s.tryDecide now).1.phase = .terminated := by
  unfold State.tryDecide
  simp only [hq]
  split
  · right; rfl
  · exact Or.inl (by simp)
  · exact Or.inl (by simp)

/-- one validated DECIDE message moves a participant that is not yet in DECIDE into DECIDE (or beyond) -/
theorem decide_propagates (s : State) (now : Int) (m : Msg) (hp : s.phase.toNat < 5) :
    hasFailure (s.recvDecide now m).2 = true ∨ 5 ≤ (s.recvDecide now m).1.phase.toNat := by
  have hw := recvDecide_wp s now m (by intro h; rw [h] at hp; simp [Phase.toNat] at hp)
  unfold State.recvDecide at *
  dsimp only at *
  split
  · exact Or.inl (by simp)
  · rename_i q hq
    simp only [hq] at hw
    have hnd : s.phase ≠ .decide := by intro h; rw [h] at hp; simp [Phase.toNat] at hp
    simp only [bne_iff_ne, ne_eq, hnd, not_false_eq_true, if_true] at hw ⊢
    apply andThen_or (P := fun st => 5 ≤ st.phase.toNat)
    have hph := skipToDecide_phase ({ s with decision := q } : State) m.value m.just
    rw [tryCurrentPhase_decide _ now hph]
    rcases tryDecide_cases (({ s with decision := q } : State).skipToDecide m.value m.just).1 now with hf | ⟨ht, _, _⟩ | ⟨hsame, _, _⟩
    · exact Or.inl hf
    · exact Or.inr (by rw [ht]; simp [Phase.toNat])
    · exact Or.inr (by rw [hsame, hph]; simp [Phase.toNat])

/-- the skip rule: a participant that holds a weak quorum of PREPAREs for a later round and a justified
CONVERGE value for it jumps to that round (unless it is already deciding) -/
theorem skip_rule (s : State) (now : Int) (round : Nat) (p : ConvVal)
    (hr : s.round < round) (hd : s.phase ≠ .decide)
    (hw : (s.getRound round).prepared.fromWeak s.tbl = true)
    (hb : (s.getRound round).converged.findBest (fun _ => true) = some p) (hne : p.chain ≠ []) :
    hasFailure (s.postReceive now round).2 = true ∨ (s.postReceive now round).1.round = round := by
  unfold State.postReceive
  dsimp only
  have h1 : (decide (round ≤ s.round) || s.phase == .decide) = false := by
    simp [hd]; omega
  simp only [h1, Bool.false_eq_true, if_false, hw, Bool.not_true, hb]
  have hne' : p.chain.isEmpty = false := by cases hc : p.chain <;> simp_all
  simp only [hne', Bool.false_eq_true, if_false]
  have hrr : ∀ st : State, st.round = round → ∀ j,
      hasFailure (st.beginConverge now j).2 = true ∨ (st.beginConverge now j).1.round = round := by
    intro st hst j
    unfold State.beginConverge State.alarmAfter State.resetReb State.setRound
    dsimp only
    split
    · exact Or.inl (by simp)
    · exact Or.inr hst
  apply hrr
  split <;> split <;> simp

/-! ### the untimed core of "unanimous and synchronous ⇒ that chain is decided in round 0" (C02, second sentence)

Once a strong quorum for the unanimous value has been tallied, each phase ends with that value without waiting for
its timer: QUALITY → PREPARE for the input, PREPARE → COMMIT for the proposal, COMMIT → DECIDE for the quorum value,
DECIDE → termination (`decide_quorum_terminates`). That the quorum *is* tallied — for every delivery order of a
network of honest model participants whose deliveries respect the order implied by the synchrony bound — and that
the chain is then decided by everybody is `C02.unanimous_sync_invariant` / `C02.unanimous_sync_decides`
(`F3/Model/Net.lean`, `F3/Proofs/Sync*.lean`). -/

theorem unanimous_step_quality (s : State) (now : Int) (h : s.phase = .quality) (hp : s.proposal = s.input)
    (hq : s.quality.hasStrongFor s.input = true) :
    (s.tryQuality now).1.phase = .prepare ∧ (s.tryQuality now).1.proposal = s.input ∧
      Eff.broadcast s.round .prepare s.input false none ∈ (s.tryQuality now).2 := by
  have hl : s.quality.longestPrefixWithQuorum s.input = s.input :=
    (F3.Props.C07.longest_prefix_spec s.quality s.input).2.2 hq
  unfold State.tryQuality
  simp only [h, hp, hq, bne_self_eq_false, Bool.false_eq_true, if_false, Bool.true_or, if_true, hl]
  unfold State.beginPrepare State.alarmAfter State.resetReb
  simp [F3.Props.C07.addCandidatePrefixes_proposal]

theorem unanimous_step_prepare (s : State) (now : Int) (h : s.phase = .prepare) (hne : s.proposal ≠ [])
    (hq : s.prepFoundQuorum = true) :
    (s.tryPrepare now).1.phase = .commit ∧ (s.tryPrepare now).1.value = s.proposal ∧
      (hasFailure (s.tryPrepare now).2 = true ∨
        ∃ j, Eff.broadcast s.round .commit s.proposal false (some j) ∈ (s.tryPrepare now).2) := by
  have hne' : s.proposal.isEmpty = false := by cases hc : s.proposal <;> simp_all
  unfold State.tryPrepare State.prepareValue
  simp only [h, hq, bne_self_eq_false, Bool.false_eq_true, if_false, Bool.true_or, if_true]
  unfold State.beginCommit State.alarmAfter State.resetReb
  simp only [hne', Bool.false_eq_true, if_false]
  split
  · rename_i j _
    exact ⟨rfl, rfl, Or.inr ⟨j, by simp⟩⟩
  · exact ⟨rfl, rfl, Or.inl (by simp)⟩

theorem unanimous_step_commit (s : State) (now : Int) (c : Chain) (hne : c ≠ [])
    (hq : (s.getRound s.round).committed.findStrongQuorumValue = .one c) :
    (s.tryCommit now s.round).1.phase = .decide ∧ (s.tryCommit now s.round).1.value = c ∧
      (hasFailure (s.tryCommit now s.round).2 = true ∨
        ∃ j, Eff.broadcast 0 .decide c false (some j) ∈ (s.tryCommit now s.round).2) := by
  have hne' : c.isEmpty = false := by cases c <;> simp_all
  unfold State.tryCommit
  simp only [hq, hne', Bool.not_false, if_true]
  unfold State.beginDecide State.resetReb
  dsimp only
  split
  · rename_i sg _
    exact ⟨rfl, rfl, Or.inr ⟨{ round := s.round, phase := .commit, value := c, signers := sg }, by simp⟩⟩
  · exact ⟨rfl, rfl, Or.inl (by simp)⟩
  · exact ⟨rfl, rfl, Or.inl (by simp)⟩

/-- Non-vacuity of the hypotheses: a PREPARE-phase state whose timer has fired with all three members heard. -/
example : ∃ s : State, ∃ now : Int, s.phase = .prepare ∧
    (s.prepFoundQuorum || s.prepFoundJust || s.prepNotPossible || s.prepComplete now) = true := by
  let tbl : Table := { entries := [(1, 30000), (2, 20000), (3, 15534)] }
  let cfg : Cfg := { maxLookahead := 2, rebImmediateAfter := 3, timeout2 := [100], qualityTimeout2 := 100, rebAfter := [50] }
  let ops : List Op :=
    [.start 0, .alarm 200,
     .recv 201 { sender := 1, round := 0, phase := .prepare, value := [7] },
     .recv 202 { sender := 2, round := 0, phase := .prepare, value := [7, 8] }]
  refine ⟨(run (init cfg tbl [7, 8]) ops).1, 400, by decide, by decide⟩

/-! ## Arbitrary inputs sharing the base, all participants honest, synchrony: round 0 decides the longest
quorum-supported prefix

Generalisation of `C02.unanimous_sync_decides` from one common input chain to one input chain `inp p` per participant
(`F3/Proofs/SyncGeneral{Tally,Votes,Node,Net}.lean`). Setting: the participants `H` are exactly the members of the
power table (`tbl.entries.map (·.1) = H`, distinct), the total power is positive, all inputs start at the same base
`b`; the network, the executions (`execOk`: no faulty sender) and the untimed synchrony condition `SyncOrdered` are
those of `F3/Model/Net.lean`.

* `SyncGeneral.supp tbl H inp k` is the power of the participants whose input has prefix `k`, `SyncGeneral.SQ` says
  that it is a strong quorum by the model's own `strongQ`. Quorum-supported prefixes are totally ordered
  (`quorum_prefixes_ordered`: two strong quorums share a member, whose input extends both), so there is a longest
  one, `SyncGeneral.longestQuorumPrefix tbl H inp` (`longestQuorumPrefix_greatest`; the base always qualifies).
* What the model does (`general_sync_invariant`): after QUALITY participant `p` PREPAREs `propOf p`, the longest
  quorum-supported prefix of *its own* input — `P*` for those whose input extends `P*` (they hold a strong quorum),
  a proper prefix of `P*` for the others; the former COMMIT `P*` with a justification, the latter find their proposal
  impossible (or time out) and COMMIT bottom; everybody — also a participant still in QUALITY or PREPARE, and those
  that committed bottom — moves to DECIDE `P*` on a strong quorum of COMMITs for `P*`, and terminates on a strong
  quorum of DECIDEs. Nothing fails, nobody leaves round 0.
* Liveness (`general_sync_decides`): in a complete execution everybody has terminated with value `P*`, provided no
  participant is left waiting for its QUALITY timer. Unlike the unanimous case this proviso is needed also for long
  chains: `tryQuality` leaves QUALITY early only on a quorum for the participant's *own input*; a participant whose
  input is not itself quorum-supported (e.g. all inputs extend `P*` differently) waits for the timer. It suffices
  that, for every participant, the timer has fired or the own input is quorum-supported
  (`general_sync_decides_timers`). -/
section GeneralInputs
open F3.Net F3.SyncGeneral

/-- **Quorum-supported prefixes are totally ordered** (so "the longest" is well defined). -/
theorem quorum_prefixes_ordered (tbl : Table) (H : List Pid) (inp : Pid → Chain) (b : Nat)
    (hH : tbl.entries.map (·.1) = H) (hnd : H.Nodup) (hpos : 0 < tbl.total)
    (hbase : ∀ p ∈ H, (inp p).head? = some b) {k1 k2 : Chain}
    (h1 : SQ tbl H inp k1 = true) (h2 : SQ tbl H inp k2 = true) : k1 <+: k2 ∨ k2 <+: k1 :=
  (gctx_of tbl H inp b hH hnd hpos hbase).sq_comparable h1 h2

/-- **`longestQuorumPrefix` is the greatest quorum-supported chain**: it is non-empty, starts at the base, is
supported by a strong quorum, and every non-empty quorum-supported chain is a prefix of it. -/
theorem longestQuorumPrefix_greatest (tbl : Table) (H : List Pid) (inp : Pid → Chain) (b : Nat)
    (hH : tbl.entries.map (·.1) = H) (hnd : H.Nodup) (hpos : 0 < tbl.total)
    (hbase : ∀ p ∈ H, (inp p).head? = some b) :
    longestQuorumPrefix tbl H inp ≠ [] ∧ (longestQuorumPrefix tbl H inp).head? = some b ∧
    SQ tbl H inp (longestQuorumPrefix tbl H inp) = true ∧
    ∀ k, k ≠ [] → SQ tbl H inp k = true → k <+: longestQuorumPrefix tbl H inp := by
  have g := gctx_of tbl H inp b hH hnd hpos hbase
  exact ⟨g.pstar_ne, g.pstar_head, g.pstar_sq, fun k hk hs => g.sq_le_pstar hk hs⟩

/-- **After QUALITY** (tally level): every proposal is a quorum-supported prefix of the proposer's own input and of
`P*`; the participants whose input extends `P*` propose exactly `P*`, and they hold a strong quorum. -/
theorem proposals_after_quality (tbl : Table) (H : List Pid) (inp : Pid → Chain) (b : Nat)
    (hH : tbl.entries.map (·.1) = H) (hnd : H.Nodup) (hpos : 0 < tbl.total)
    (hbase : ∀ p ∈ H, (inp p).head? = some b) :
    (∀ p ∈ H, propOf tbl H inp p <+: inp p ∧ propOf tbl H inp p <+: longestQuorumPrefix tbl H inp ∧
      SQ tbl H inp (propOf tbl H inp p) = true ∧
      (propOf tbl H inp p = longestQuorumPrefix tbl H inp ↔ longestQuorumPrefix tbl H inp <+: inp p)) ∧
    strongQ tbl (((H.filter (fun p => propOf tbl H inp p == longestQuorumPrefix tbl H inp)).map tbl.power).sum) = true := by
  have g := gctx_of tbl H inp b hH hnd hpos hbase
  refine ⟨fun p hp => ⟨g.propOf_prefix hp, g.propOf_le_pstar hp, g.propOf_sq hp, g.propOf_eq_pstar_iff hp⟩, ?_⟩
  rw [← F3.Sync.sumP_eq_sum]
  exact g.majority_strong

/-- the only messages such a run puts on the wire: QUALITY(input), PREPARE(`propOf`), COMMIT(`P*` justified by
PREPAREs for `P*`, or bottom), DECIDE(`P*` justified by COMMITs for `P*`), all of round 0 -/
def GeneralMsg (tbl : Table) (H : List Pid) (inp : Pid → Chain) (m : Msg) : Prop :=
  m.round = 0 ∧
  ((m.phase = .quality ∧ m.value = inp m.sender ∧ m.just = none) ∨
   (m.phase = .prepare ∧ m.value = propOf tbl H inp m.sender ∧ m.just = none) ∨
   (m.phase = .commit ∧ m.value = cvOf tbl H inp m.sender ∧
      (m.value ≠ [] → ∃ j, m.just = some j ∧ j.round = 0 ∧ j.phase = .prepare ∧ j.value = longestQuorumPrefix tbl H inp)) ∨
   (m.phase = .decide ∧ m.value = longestQuorumPrefix tbl H inp ∧
      ∃ j, m.just = some j ∧ j.round = 0 ∧ j.phase = .commit ∧ j.value = longestQuorumPrefix tbl H inp))

/-- **Safety of the synchronous run with arbitrary inputs.** In every admissible, synchrony-ordered execution:
(a) no node ever reports a failure effect; (b) every message ever broadcast comes from a member of `H` and is a
`GeneralMsg`; (c) every node is still in round 0 and a node that has a termination value has decided `P*`. -/
theorem general_sync_invariant (tbl : Table) (H : List Pid) (inp : Pid → Chain) (cfg : Pid → Cfg) (b : Nat)
    (hH : tbl.entries.map (·.1) = H) (hnd : H.Nodup) (hpos : 0 < tbl.total)
    (hbase : ∀ p ∈ H, (inp p).head? = some b) (ops : List NetOp)
    (hexec : execOk (initNet tbl H cfg inp) ops = true) (hsync : SyncOrdered (initNet tbl H cfg inp) ops) :
    (runNet (initNet tbl H cfg inp) ops).fails = [] ∧
    (∀ m ∈ (runNet (initNet tbl H cfg inp) ops).pool, m.sender ∈ H ∧ GeneralMsg tbl H inp m) ∧
    (runNet (initNet tbl H cfg inp) ops).nodes.map (·.1) = H ∧
    (∀ p s, (p, s) ∈ (runNet (initNet tbl H cfg inp) ops).nodes →
      s.round = 0 ∧ ∀ d, s.termination = some d → d.value = longestQuorumPrefix tbl H inp) := by
  have g := gctx_of tbl H inp b hH hnd hpos hbase
  have hn := general_invariant_core g cfg ops hexec hsync
  refine ⟨hn.fails, fun m hm => ⟨(hn.pool m hm).2, gshape_cases (hn.pool m hm).1⟩, hn.ids, ?_⟩
  intro p s hp
  have hno := hn.node p s hp
  exact ⟨hno.inv.round, hno.inv.term⟩

/-- **The longest quorum-supported prefix is decided in round 0.** If moreover the execution is *complete* (every
member has started and every message ever broadcast has been handed to every member) and no member is still waiting
in QUALITY, then every member has terminated with decision `longestQuorumPrefix tbl H inp`. -/
theorem general_sync_decides (tbl : Table) (H : List Pid) (inp : Pid → Chain) (cfg : Pid → Cfg) (b : Nat)
    (hH : tbl.entries.map (·.1) = H) (hnd : H.Nodup) (hpos : 0 < tbl.total)
    (hbase : ∀ p ∈ H, (inp p).head? = some b) (ops : List NetOp)
    (hexec : execOk (initNet tbl H cfg inp) ops = true) (hsync : SyncOrdered (initNet tbl H cfg inp) ops)
    (hcomplete : complete (runNet (initNet tbl H cfg inp) ops) = true)
    (hquality : ∀ p s, (p, s) ∈ (runNet (initNet tbl H cfg inp) ops).nodes → s.phase ≠ .quality) :
    (∀ p ∈ H, ∃ s, (p, s) ∈ (runNet (initNet tbl H cfg inp) ops).nodes) ∧
    ∀ p s, (p, s) ∈ (runNet (initNet tbl H cfg inp) ops).nodes →
      s.phase = .terminated ∧ s.round = 0 ∧
      ∃ d, s.termination = some d ∧ d.value = longestQuorumPrefix tbl H inp := by
  have g := gctx_of tbl H inp b hH hnd hpos hbase
  obtain ⟨h1, h2⟩ := general_decides_core g cfg ops hexec hsync hcomplete hquality
  have hn := general_invariant_core g cfg ops hexec hsync
  exact ⟨h1, fun p s hp => ⟨(h2 p s hp).1, (hn.node p s hp).inv.round, (h2 p s hp).2⟩⟩

/-- ... in particular when, for every member, the QUALITY timer has fired while it was in QUALITY or its own input
is supported by a strong quorum (with at least one tipset beyond the base — QUALITY tallies nothing for the base). -/
theorem general_sync_decides_timers (tbl : Table) (H : List Pid) (inp : Pid → Chain) (cfg : Pid → Cfg) (b : Nat)
    (hH : tbl.entries.map (·.1) = H) (hnd : H.Nodup) (hpos : 0 < tbl.total)
    (hbase : ∀ p ∈ H, (inp p).head? = some b) (ops : List NetOp)
    (hexec : execOk (initNet tbl H cfg inp) ops = true) (hsync : SyncOrdered (initNet tbl H cfg inp) ops)
    (hcomplete : complete (runNet (initNet tbl H cfg inp) ops) = true)
    (htimers : ∀ p ∈ H, p ∈ (runNet (initNet tbl H cfg inp) ops).fired ∨
      (2 ≤ (inp p).length ∧ SQ tbl H inp (inp p) = true)) :
    (∀ p ∈ H, ∃ s, (p, s) ∈ (runNet (initNet tbl H cfg inp) ops).nodes) ∧
    ∀ p s, (p, s) ∈ (runNet (initNet tbl H cfg inp) ops).nodes →
      s.phase = .terminated ∧ s.round = 0 ∧
      ∃ d, s.termination = some d ∧ d.value = longestQuorumPrefix tbl H inp := by
  have g := gctx_of tbl H inp b hH hnd hpos hbase
  have hn := general_invariant_core g cfg ops hexec hsync
  exact general_sync_decides tbl H inp cfg b hH hnd hpos hbase ops hexec hsync hcomplete
    (fun p s hp => g_complete_not_quality g hn hcomplete hp (htimers p (hn.mem_H hp)))

/-- **Corollary (validity, cf. C02).** The value decided by such a run is non-empty, starts at the base and is a
prefix of the input of a set of participants holding a strong quorum of power. -/
theorem general_sync_validity (tbl : Table) (H : List Pid) (inp : Pid → Chain) (cfg : Pid → Cfg) (b : Nat)
    (hH : tbl.entries.map (·.1) = H) (hnd : H.Nodup) (hpos : 0 < tbl.total)
    (hbase : ∀ p ∈ H, (inp p).head? = some b) (ops : List NetOp)
    (hexec : execOk (initNet tbl H cfg inp) ops = true) (hsync : SyncOrdered (initNet tbl H cfg inp) ops)
    (p : Pid) (s : State) (hp : (p, s) ∈ (runNet (initNet tbl H cfg inp) ops).nodes) (d : Just)
    (hd : s.termination = some d) :
    d.value ≠ [] ∧ d.value.head? = some b ∧
    strongQ tbl (((H.filter (fun h => d.value.isPrefixOf (inp h))).map tbl.power).sum) = true := by
  have g := gctx_of tbl H inp b hH hnd hpos hbase
  have hv := ((general_sync_invariant tbl H inp cfg b hH hnd hpos hbase ops hexec hsync).2.2.2 p s hp).2 d hd
  rw [hv, ← F3.Sync.sumP_eq_sum]
  exact ⟨g.pstar_ne, g.pstar_head, g.pstar_sq⟩

/-- with unanimous inputs the longest quorum-supported prefix is the common input chain -/
theorem longestQuorumPrefix_unanimous (tbl : Table) (H : List Pid) (c : Chain)
    (hH : tbl.entries.map (·.1) = H) (hnd : H.Nodup) (hpos : 0 < tbl.total) (hc : c ≠ []) :
    longestQuorumPrefix tbl H (fun _ => c) = c := by
  obtain ⟨a, as, rfl⟩ : ∃ a as, c = a :: as := by
    cases c with
    | nil => exact absurd rfl hc
    | cons a as => exact ⟨a, as, rfl⟩
  exact pstar_unanimous (gctx_of tbl H (fun _ => a :: as) a hH hnd hpos (fun _ _ => rfl))

/-- **Corollary (unanimous inputs).** For `inp = fun _ => c` the general theorem specialises to the statement of
`C02.unanimous_sync_decides` (same conclusion, same `2 ≤ c.length ∨ timersFired` proviso), for the case that the
honest members are the whole table. -/
theorem general_sync_decides_unanimous (tbl : Table) (H : List Pid) (c : Chain) (cfg : Pid → Cfg)
    (hH : tbl.entries.map (·.1) = H) (hnd : H.Nodup) (hpos : 0 < tbl.total) (hc : c ≠ []) (ops : List NetOp)
    (hexec : execOk (initNet tbl H cfg (fun _ => c)) ops = true)
    (hsync : SyncOrdered (initNet tbl H cfg (fun _ => c)) ops)
    (hcomplete : complete (runNet (initNet tbl H cfg (fun _ => c)) ops) = true)
    (htimers : 2 ≤ c.length ∨ timersFired (runNet (initNet tbl H cfg (fun _ => c)) ops) = true) :
    (∀ p ∈ H, ∃ s, (p, s) ∈ (runNet (initNet tbl H cfg (fun _ => c)) ops).nodes) ∧
    ∀ p s, (p, s) ∈ (runNet (initNet tbl H cfg (fun _ => c)) ops).nodes →
      s.phase = .terminated ∧ ∃ d, s.termination = some d ∧ d.value = c := by
  obtain ⟨a, as, rfl⟩ : ∃ a as, c = a :: as := by
    cases c with
    | nil => exact absurd rfl hc
    | cons a as => exact ⟨a, as, rfl⟩
  have hbase : ∀ p ∈ H, ((fun _ => a :: as) p).head? = some a := fun _ _ => rfl
  have g := gctx_of tbl H (fun _ => a :: as) a hH hnd hpos hbase
  have hn := general_invariant_core g cfg ops hexec hsync
  have ht : ∀ p ∈ H, p ∈ (runNet (initNet tbl H cfg (fun _ => a :: as)) ops).fired ∨
      (2 ≤ ((fun _ => a :: as) p).length ∧ SQ tbl H (fun _ => a :: as) ((fun _ => a :: as) p) = true) := by
    intro p hp
    rcases htimers with hl | hf
    · exact Or.inr ⟨hl, sq_unanimous g⟩
    · left
      unfold timersFired at hf
      simp only [List.all_eq_true, List.contains_eq_mem, decide_eq_true_eq] at hf
      rw [← hn.ids] at hp
      obtain ⟨e, he, rfl⟩ := List.mem_map.1 hp
      exact hf e he
  obtain ⟨h1, h2⟩ := general_sync_decides_timers tbl H (fun _ => a :: as) cfg a hH hnd hpos hbase ops hexec hsync
    hcomplete ht
  refine ⟨h1, fun p s hp => ?_⟩
  obtain ⟨h3, _, d, h4, h5⟩ := h2 p s hp
  exact ⟨h3, d, h4, by rw [h5]; exact pstar_unanimous g⟩

/-! ### non-vacuity: four participants with diverging inputs and unequal power -/

def giTbl : Table := { entries := [(1, 40), (2, 30), (3, 20), (4, 10)] }
def giCfg : Cfg := { maxLookahead := 2, rebImmediateAfter := 3, timeout2 := [100], qualityTimeout2 := 100, rebAfter := [50] }
/-- inputs `0.1.2.5`, `0.1.2.6`, `0.1.3`, `0.4`: `0.1.2` is supported by 70 of 100, `0.1` by 90, `0` by all;
no input is itself quorum-supported, so QUALITY ends by the timers -/
def giInp : Pid → Chain := fun p => match p with | 1 => [0, 1, 2, 5] | 2 => [0, 1, 2, 6] | 3 => [0, 1, 3] | _ => [0, 4]
def giNet : Net := initNet giTbl [1, 2, 3, 4] (fun _ => giCfg) giInp
def giQ (p : Pid) : Msg := { sender := p, round := 0, phase := .quality, value := giInp p }
def giP (p : Pid) (v : Chain) : Msg := { sender := p, round := 0, phase := .prepare, value := v }
def giC (p : Pid) : Msg :=
  { sender := p, round := 0, phase := .commit, value := [0, 1, 2],
    just := some { round := 0, phase := .prepare, value := [0, 1, 2], signers := [0, 1] } }
def giC0 (p : Pid) : Msg := { sender := p, round := 0, phase := .commit, value := [] }
def giD (p : Pid) : Msg :=
  { sender := p, round := 0, phase := .decide, value := [0, 1, 2],
    just := some { round := 0, phase := .commit, value := [0, 1, 2], signers := [0, 1] } }
def giAll (now : Int) (m : Msg) : List NetOp := [.deliver 1 now m, .deliver 2 now m, .deliver 3 now m, .deliver 4 now m]

/-- everybody starts, all QUALITY votes are handed over, the QUALITY timers fire (`alarm 1 50` is a non-expired
alarm); members 1 and 2 PREPARE `0.1.2`, member 3 `0.1`, member 4 the base; 3 and 4 find their proposals impossible
and COMMIT bottom, 1 and 2 COMMIT `0.1.2`; everybody DECIDEs `0.1.2` -/
def giOps : List NetOp :=
  [.start 1 0, .start 2 0, .start 3 0, .start 4 0] ++
  giAll 1 (giQ 1) ++ giAll 2 (giQ 2) ++ giAll 3 (giQ 3) ++ giAll 4 (giQ 4) ++
  [.alarm 1 50, .alarm 1 100, .alarm 2 100, .alarm 3 101, .alarm 4 102] ++
  giAll 110 (giP 1 [0, 1, 2]) ++ giAll 111 (giP 3 [0, 1]) ++ giAll 112 (giP 4 [0]) ++ giAll 113 (giP 2 [0, 1, 2]) ++
  giAll 120 (giC0 3) ++ giAll 121 (giC 1) ++ giAll 122 (giC0 4) ++ giAll 123 (giC 2) ++
  giAll 130 (giD 1) ++ giAll 131 (giD 2) ++ giAll 132 (giD 3) ++ giAll 133 (giD 4)

/-- the hypotheses of `general_sync_invariant` / `general_sync_decides_timers` hold of this execution ... -/
theorem gi_hyps :
    giTbl.entries.map (·.1) = [1, 2, 3, 4] ∧ [1, 2, 3, 4].Nodup ∧ 0 < giTbl.total ∧
    (∀ p ∈ [1, 2, 3, 4], (giInp p).head? = some 0) ∧
    execOk giNet giOps = true ∧ SyncOrdered giNet giOps ∧ complete (runNet giNet giOps) = true ∧
    (∀ p ∈ [1, 2, 3, 4], p ∈ (runNet giNet giOps).fired ∨
      (2 ≤ (giInp p).length ∧ SQ giTbl [1, 2, 3, 4] giInp (giInp p) = true)) := by
  refine ⟨by decide, by decide, by decide, by decide, by decide, ?_, by decide, ?_⟩
  · unfold SyncOrdered
    decide
  · have : (runNet giNet giOps).fired = [1, 2, 3, 4] := by decide
    rw [this]
    intro p hp
    exact Or.inl hp

/-- ... the longest quorum-supported prefix is `0.1.2`, the proposals are `0.1.2`, `0.1.2`, `0.1`, `0` ... -/
example : longestQuorumPrefix giTbl [1, 2, 3, 4] giInp = [0, 1, 2] ∧
    [1, 2, 3, 4].map (propOf giTbl [1, 2, 3, 4] giInp) = [[0, 1, 2], [0, 1, 2], [0, 1], [0]] := by
  refine ⟨by decide, by decide⟩

set_option maxRecDepth 4000 in
/-- ... and, as the theorems say, nothing failed and everybody decided `0.1.2` in round 0 (members 3 and 4 after
committing bottom). -/
example :
    (runNet giNet giOps).fails = [] ∧
    (runNet giNet giOps).nodes.map (fun e => (e.1, e.2.phase, e.2.round, e.2.termination.map (·.value))) =
      [(1, .terminated, 0, some [0, 1, 2]), (2, .terminated, 0, some [0, 1, 2]),
       (3, .terminated, 0, some [0, 1, 2]), (4, .terminated, 0, some [0, 1, 2])] ∧
    ((runNet giNet giOps).pool.filter (fun m => m.phase == .commit)).map (fun m => (m.sender, m.value)) =
      [(3, []), (4, []), (1, [0, 1, 2]), (2, [0, 1, 2])] := by
  refine ⟨by decide, by decide, by decide⟩

/-- the general theorem applied to this execution -/
example : ∀ p s, (p, s) ∈ (runNet giNet giOps).nodes →
    s.phase = .terminated ∧ s.round = 0 ∧ ∃ d, s.termination = some d ∧ d.value = [0, 1, 2] := by
  obtain ⟨h1, h2, h3, h4, h5, h6, h7, h8⟩ := gi_hyps
  have h := (general_sync_decides_timers giTbl [1, 2, 3, 4] giInp (fun _ => giCfg) 0 h1 h2 h3 h4 giOps h5 h6 h7 h8).2
  have hl : longestQuorumPrefix giTbl [1, 2, 3, 4] giInp = [0, 1, 2] := by decide
  rw [hl] at h
  exact h

def geTbl : Table := { entries := [(1, 10), (2, 10), (3, 10), (4, 10)] }
def geInpA : Pid → Chain := fun p => match p with | 1 => [0, 1, 2] | 2 => [0, 1, 2] | 3 => [0, 1, 3] | _ => [0, 1]
def geInpB : Pid → Chain := fun p => match p with | 1 => [0, 1, 2] | 2 => [0, 1, 2] | 3 => [0, 1, 2] | _ => [0, 9]

/-- Equal power, inputs `0.1.2`, `0.1.2`, `0.1.3`, `0.1`: `0.1.2` has only 20 of 40, the longest quorum-supported
prefix is `0.1` (every proposal is `0.1`); a minority diverging right after the base (`0.1.2` three times, `0.9`
once): `0.1.2`, the minority proposes the base. -/
example :
    longestQuorumPrefix geTbl [1, 2, 3, 4] geInpA = [0, 1] ∧
    [1, 2, 3, 4].map (propOf geTbl [1, 2, 3, 4] geInpA) = [[0, 1], [0, 1], [0, 1], [0, 1]] ∧
    longestQuorumPrefix geTbl [1, 2, 3, 4] geInpB = [0, 1, 2] ∧
    [1, 2, 3, 4].map (propOf geTbl [1, 2, 3, 4] geInpB) = [[0, 1, 2], [0, 1, 2], [0, 1, 2], [0]] := by
  refine ⟨by decide, by decide, by decide, by decide⟩

/-! ### the real-time bound does *not* imply the synchrony order when inputs differ

`C02.timed_sync_ordered` derives `SyncOrdered` from the real-time assumption `TimedSync Δ` for a *unanimous* input. For
differing inputs this fails, and with it the round-0 decision: `tryQuality` ends QUALITY as soon as the participant's
*own input* has a strong quorum, so a participant whose input is quorum-supported enters PREPARE (and arms its `2Δ`
PREPARE timer) up to a whole QUALITY timeout before the participants whose input is not, and the timer expires before
their PREPAREs arrive. Below (`Δ = 10`, both timeouts `2Δ = 20`, every delay `< Δ`, all four participants honest):
member 1 (power 40, input `0.1.2` = `P*`, quorum at time 2, PREPARE timer 22) is handed member 3's PREPARE for `0.1` at
26: timer expired, senders heard 40+10+20 = 70 of 100 (a strong quorum), only 40 for `0.1.2` ⇒ `prepComplete` ⇒ it
COMMITs bottom, one tick before member 2's PREPARE for `0.1.2` would have completed the quorum. Bottom then holds
70 of 100 COMMITs and everybody moves to round 1. (Not a safety problem — the next round takes over — but the
"decided in round 0" claim needs the order `SyncOrdered`, which real-time synchrony gives only for unanimous inputs.) -/

def rtTbl : Table := { entries := [(1, 40), (2, 30), (3, 20), (4, 10)] }
def rtCfg : Cfg := { maxLookahead := 2, rebImmediateAfter := 3, timeout2 := [20], qualityTimeout2 := 20, rebAfter := [50] }
def rtInp : Pid → Chain := fun p => match p with | 1 => [0, 1, 2] | 2 => [0, 1, 2, 6] | 3 => [0, 1, 3] | _ => [0, 1]
def rtNet : Net := initNet rtTbl [1, 2, 3, 4] (fun _ => rtCfg) rtInp
def rtQ (p : Pid) : Msg := { sender := p, round := 0, phase := .quality, value := rtInp p }
def rtP (p : Pid) (v : Chain) : Msg := { sender := p, round := 0, phase := .prepare, value := v }
def rtC0 (p : Pid) : Msg := { sender := p, round := 0, phase := .commit, value := [] }
def rtC2 : Msg :=
  { sender := 2, round := 0, phase := .commit, value := [0, 1, 2],
    just := some { round := 0, phase := .prepare, value := [0, 1, 2], signers := [0, 1] } }
def rtAll (now : Int) (m : Msg) : List NetOp := [.deliver 1 now m, .deliver 2 now m, .deliver 3 now m, .deliver 4 now m]
/-- members 1 and 4 leave QUALITY at 2 and 3 (own input quorum-supported), members 2 and 3 at their timer (20) -/
def rtOps : List NetOp :=
  [.start 1 0, .start 2 0, .start 3 0, .start 4 0] ++
  rtAll 1 (rtQ 1) ++ rtAll 2 (rtQ 2) ++ rtAll 3 (rtQ 3) ++ rtAll 4 (rtQ 4) ++
  rtAll 5 (rtP 1 [0, 1, 2]) ++ rtAll 6 (rtP 4 [0, 1]) ++ rtAll 7 (rtC0 4) ++
  [.alarm 2 20, .alarm 3 20,
   .deliver 1 26 (rtP 3 [0, 1]), .deliver 1 27 (rtP 2 [0, 1, 2]),
   .deliver 2 27 (rtP 3 [0, 1]), .deliver 3 27 (rtP 3 [0, 1]), .deliver 4 27 (rtP 3 [0, 1]),
   .deliver 2 28 (rtP 2 [0, 1, 2]), .deliver 3 28 (rtP 2 [0, 1, 2]), .deliver 4 28 (rtP 2 [0, 1, 2])] ++
  rtAll 30 (rtC0 1) ++ rtAll 31 (rtC0 3) ++ rtAll 32 rtC2

set_option maxRecDepth 4000 in
/-- **Finding.** All participants honest, every message delivered in less than `Δ`, timeouts `2Δ` (`TimedSync 10`),
inputs sharing the base — and round 0 does not decide: the execution is not `SyncOrdered`, a proposer of the longest
quorum-supported prefix `0.1.2` COMMITs bottom, bottom gathers a strong quorum and all four move to round 1. -/
example :
    execOk rtNet rtOps = true ∧ TimedSync 10 rtNet rtOps ∧ ¬ SyncOrdered rtNet rtOps ∧
    longestQuorumPrefix rtTbl [1, 2, 3, 4] rtInp = [0, 1, 2] ∧ propOf rtTbl [1, 2, 3, 4] rtInp 1 = [0, 1, 2] ∧
    (runNet rtNet rtOps).fails = [] ∧
    ((runNet rtNet rtOps).pool.filter (fun m => m.phase == .commit)).map (fun m => (m.sender, m.value)) =
      [(4, []), (1, []), (3, []), (2, [0, 1, 2])] ∧
    (runNet rtNet rtOps).nodes.map (fun e => (e.1, e.2.phase, e.2.round, e.2.termination.map (·.value))) =
      [(1, .converge, 1, none), (2, .converge, 1, none), (3, .converge, 1, none), (4, .converge, 1, none)] := by
  refine ⟨by decide, ⟨by decide, by decide, by decide⟩, ?_, by decide, by decide, by decide, by decide, by decide⟩
  unfold SyncOrdered
  decide

end GeneralInputs

/-! ## Run level: the host's timer stays armed, ticket ranks, and what the round bound depends on (audit finding H1)

`F3/Proofs/AlarmInv{,Step,Run}.lean` (namespace `F3.Liveness`): the ghost *host timer* of a run and the invariant `Armed`;
`F3/Model/NetRanked.lean`: the network of `F3/Model/Net.lean` with CONVERGE ticket ranks; `F3/Proofs/RoundDecides*.lean`:
what a round `r ≥ 1` does when the best ticket's value is admissible everywhere. -/
section RunLevel
open F3.Liveness F3.Net F3.NetRanked

/-- **`alarm_pending_inv` for validated runs.** One `Start`, then any alarms and validated (or foreign) deliveries — the
hypotheses of `C07.no_internal_error_or_panic` — by an environment that behaves like the host (`hostOk`: time does not
run backwards, `ReceiveAlarm` only when the pending alarm is due). Then after the run (`ops` is arbitrary: after every
prefix, `alarm_pending_every_prefix`) the instance inside the host is the plain `run`, and while it is in
QUALITY / CONVERGE / PREPARE / COMMIT of a round `≤ rebImmediateAfter` the host's single timer is armed: the pending
alarm is the phase timeout (no rebroadcast scheduled) or the scheduled rebroadcast time (phase timeout passed). -/
theorem alarm_pending_validated (cfg : Cfg) (t : Table) (input : Chain) (W : Votes) (now0 : Int) (ops : List Op)
    (hin : input ≠ []) (hT : 0 < t.total)
    (hstart : ∀ op ∈ ops, op.isStart = false)
    (hvalid : ∀ op ∈ ops, foreignOp op = true ∨ OpValidG W t op)
    (hhost : hostOk (initHost cfg t input now0) (.start now0 :: ops) = true) :
    (hostRun (initHost cfg t input now0) (.start now0 :: ops)).st = (run (init cfg t input) (.start now0 :: ops)).1 ∧
    Armed (hostRun (initHost cfg t input now0) (.start now0 :: ops)).st
      (hostRun (initHost cfg t input now0) (.start now0 :: ops)).timer
      (hostRun (initHost cfg t input now0) (.start now0 :: ops)).clock ∧
    (InScope (run (init cfg t input) (.start now0 :: ops)).1 →
      ∃ tm, (hostRun (initHost cfg t input now0) (.start now0 :: ops)).timer = some tm) := by
  have hok := (F3.Props.C07.no_internal_error_or_panic cfg t input W now0 ops hin hT hstart hvalid).1
  have hst : (hostRun (initHost cfg t input now0) (.start now0 :: ops)).st =
      (run (init cfg t input) (.start now0 :: ops)).1 := hostRun_st _ _
  have ha := alarm_pending_inv cfg t input now0 ops hok hhost
  exact ⟨hst, ha, fun hs => ha.some (by rw [hst]; exact hs)⟩

/-- ... in every state the run passes through -/
theorem alarm_pending_every_prefix (cfg : Cfg) (t : Table) (input : Chain) (W : Votes) (now0 : Int) (ops : List Op)
    (hin : input ≠ []) (hT : 0 < t.total)
    (hstart : ∀ op ∈ ops, op.isStart = false)
    (hvalid : ∀ op ∈ ops, foreignOp op = true ∨ OpValidG W t op)
    (hhost : hostOk (initHost cfg t input now0) (.start now0 :: ops) = true) (k : Nat) :
    InScope (run (init cfg t input) (.start now0 :: ops.take k)).1 →
      ∃ tm, (hostRun (initHost cfg t input now0) (.start now0 :: ops.take k)).timer = some tm :=
  (alarm_pending_validated cfg t input W now0 (ops.take k) hin hT
    (fun op h => hstart op (List.mem_of_mem_take h)) (fun op h => hvalid op (List.mem_of_mem_take h))
    (by have := hostOk_take _ _ (k + 1) hhost; simpa using this)).2.2

/-- **`no_stuck_phase` for validated runs.** If the run is continued by the alarm (fired by the host: due, and no
earlier than the last call) while the instance is in scope, then the alarm finds the phase timeout expired and:
QUALITY → PREPARE; CONVERGE → PREPARE; PREPARE → COMMIT, COMMIT → DECIDE or CONVERGE of the next round, or (PREPARE /
COMMIT with no strong quorum of senders heard) the instance stays, requests the scheduled rebroadcast round and re-arms
the timer; afterwards an alarm is pending again unless the instance is in DECIDE. -/
theorem no_stuck_phase_validated (cfg : Cfg) (t : Table) (input : Chain) (W : Votes) (now0 now : Int) (ops : List Op)
    (hin : input ≠ []) (hT : 0 < t.total)
    (hstart : ∀ op ∈ ops, op.isStart = false)
    (hvalid : ∀ op ∈ ops, foreignOp op = true ∨ OpValidG W t op)
    (hhost : hostOk (initHost cfg t input now0) (.start now0 :: (ops ++ [.alarm now])) = true)
    (hs : InScope (run (init cfg t input) (.start now0 :: ops)).1) :
    let s := (run (init cfg t input) (.start now0 :: ops)).1
    s.phaseTimeoutElapsed now = true ∧
    (s.phase = .quality → (step s (.alarm now)).1.phase = .prepare ∧ (step s (.alarm now)).1.round = s.round) ∧
    (s.phase = .converge → (step s (.alarm now)).1.phase = .prepare ∧ (step s (.alarm now)).1.round = s.round) ∧
    (s.phase = .prepare →
      ((step s (.alarm now)).1.phase = .commit ∧ (step s (.alarm now)).1.round = s.round) ∨
      (Rearmed s (step s (.alarm now)) ∧ (s.getRound s.round).prepared.fromStrong s.tbl = false)) ∧
    (s.phase = .commit →
      (step s (.alarm now)).1.phase = .decide ∨
      ((step s (.alarm now)).1.phase = .converge ∧ (step s (.alarm now)).1.round = s.round + 1) ∨
      (Rearmed s (step s (.alarm now)) ∧ (s.getRound s.round).committed.fromStrong s.tbl = false)) ∧
    ((step s (.alarm now)).1.phase = .decide ∨ ∃ t', lastAlarm none (step s (.alarm now)).2 = some t') := by
  intro s
  have hok := (F3.Props.C07.no_internal_error_or_panic cfg t input W now0 (ops ++ [.alarm now]) hin hT
    (fun op h => by
      rcases List.mem_append.1 h with h | h
      · exact hstart op h
      · simp at h; subst h; rfl)
    (fun op h => by
      rcases List.mem_append.1 h with h | h
      · exact hvalid op h
      · simp at h; subst h; exact Or.inr trivial)).1
  obtain ⟨hok1, hlast⟩ := okRunI_snoc _ (.start now0 :: ops) (.alarm now) hok
  obtain ⟨hh1, hh2⟩ := hostOk_snoc _ (.start now0 :: ops) (.alarm now) hhost
  have hst : (hostRun (initHost cfg t input now0) (.start now0 :: ops)).st = s := hostRun_st _ _
  have ha := alarm_pending_inv cfg t input now0 ops hok1 hh1
  rw [hst] at ha
  have hnf : hasFailure (step s (.alarm now)).2 = false := by
    rcases hlast with h | h
    · cases h
    · exact h
  unfold hostOpOk at hh2
  rw [Bool.and_eq_true, decide_eq_true_eq] at hh2
  obtain ⟨tm, htm⟩ := ha.some hs
  rw [htm] at ha hh2
  have hdue : tm ≤ now := by simpa using hh2.2
  exact no_stuck_phase s tm _ now ha hs hh2.1 hdue hnf

/-! ### where the invariant fails: the `tryRebroadcast` alarm gaps (DECIDE; rounds beyond `rebImmediateAfter`)

`tryRebroadcast` run *before* the phase timeout (DECIDE, or a round `> rebImmediateAfter`) schedules rebroadcasts with
the current time as offset. When the next rebroadcast time lies at or beyond the (possibly stale) phase timeout it sets
the alarm back to the phase timeout (`gpbft.go`: "Reverted to phase timeout"). When that alarm fires, the rebroadcast
timeout has not elapsed, the `switch` of `tryRebroadcast` takes its `default:` branch and no alarm is set: the host's
one-shot timer is dead until some message happens to arrive after the rebroadcast time. -/

def gapTbl : Table := { entries := [(1, 10), (2, 10), (3, 10), (4, 10)] }
/-- rebroadcast after 30, then 200 (any back-off whose second step overshoots the phase timeout) -/
def gapCfg : Cfg := { maxLookahead := 2, rebImmediateAfter := 3, timeout2 := [100, 130], qualityTimeout2 := 100, rebAfter := [30, 200] }
def gapDecide : Msg :=
  { sender := 2, round := 0, phase := .decide, value := [7, 8],
    just := some { round := 0, phase := .commit, value := [7, 8], signers := [0, 1, 2] } }
/-- `Start` at 0 (QUALITY timeout 100); one DECIDE arrives at 10: skip to DECIDE, first rebroadcast scheduled for 40 —
before the stale QUALITY timeout, so the alarm is moved to 40; the alarm fires at 40: rebroadcast, next one due at 240,
beyond 100, so the alarm is "reverted" to 100; the alarm fires at 100: rebroadcast not due, nothing is armed. -/
def gapDecideOps : List Op := [.start 0, .recv 10 gapDecide, .alarm 40, .alarm 100]

/-- **Finding (alarm gap in DECIDE).** An admissible host run without any failure after which the instance sits in
DECIDE, not terminated, with *no alarm pending* (and its last alarm request, `setAlarm 100`, already consumed). -/
theorem decide_alarm_gap :
    okRunI (init gapCfg gapTbl [7, 8]) gapDecideOps = true ∧
    hasFailure (run (init gapCfg gapTbl [7, 8]) gapDecideOps).2 = false ∧
    hostOk (initHost gapCfg gapTbl [7, 8] 0) gapDecideOps = true ∧
    (hostRun (initHost gapCfg gapTbl [7, 8] 0) gapDecideOps).st.phase = .decide ∧
    (hostRun (initHost gapCfg gapTbl [7, 8] 0) gapDecideOps).st.rebTimeout = some 240 ∧
    (hostRun (initHost gapCfg gapTbl [7, 8] 0) gapDecideOps).timer = none ∧
    (hostRun (initHost gapCfg gapTbl [7, 8] 0) (gapDecideOps.take 3)).timer = some 100 := by
  refine ⟨by decide, by decide, by decide, by decide, by decide, by decide, by decide⟩

/-- the same configuration with rebroadcast immediately from round 1 on -/
def gapCfg0 : Cfg := { gapCfg with rebImmediateAfter := 0 }
def gapJ : Just := { round := 0, phase := .commit, value := [], signers := [0, 1, 2] }
def gapCv (p : Pid) : Msg := { sender := p, round := 1, phase := .converge, value := [7], rank := p, just := some gapJ }
def gapPv (p : Pid) : Msg := { sender := p, round := 1, phase := .prepare, value := [7], just := some gapJ }
/-- the participant is pulled into round 1 by a weak quorum of PREPAREs (skip rule) at 12, leaves CONVERGE at its
timeout 142 and PREPAREs (timeout 272); a CONVERGE arriving at 150 runs `tryRebroadcast` (round 1 > 0): rebroadcast
scheduled for 180, alarm moved there; alarm at 180: rebroadcast, next one due at 380 ≥ 272: alarm reverted to 272;
alarm at 272: no strong quorum of PREPARE senders, rebroadcast not due — nothing is armed. -/
def gapLateOps : List Op :=
  [.start 0, .recv 10 (gapCv 2), .recv 11 (gapPv 2), .recv 12 (gapPv 3), .alarm 142, .recv 150 (gapCv 3), .alarm 180, .alarm 272]

/-- **Finding (alarm gap in a round beyond `rebroadcastImmediatelyAfterRound`).** The same gap in PREPARE of round 1
with `rebImmediateAfter = 0` (Go's default is 3: rounds ≥ 4): after the alarm at the phase timeout the participant is
in PREPARE without a strong quorum of senders and no alarm is pending; only the next delivery after time 380 wakes it
up (`.recv 400 _` re-arms). The bound `s.round ≤ rebImmediateAfter` in `InScope` is therefore necessary. -/
theorem late_round_alarm_gap :
    okRunI (init gapCfg0 gapTbl [7, 8]) gapLateOps = true ∧
    hasFailure (run (init gapCfg0 gapTbl [7, 8]) gapLateOps).2 = false ∧
    hostOk (initHost gapCfg0 gapTbl [7, 8] 0) gapLateOps = true ∧
    (hostRun (initHost gapCfg0 gapTbl [7, 8] 0) gapLateOps).st.phase = .prepare ∧
    (hostRun (initHost gapCfg0 gapTbl [7, 8] 0) gapLateOps).st.round = 1 ∧
    (hostRun (initHost gapCfg0 gapTbl [7, 8] 0) gapLateOps).timer = none ∧
    (hostRun (initHost gapCfg0 gapTbl [7, 8] 0) (gapLateOps ++ [.recv 300 (gapCv 4)])).timer = none ∧
    (hostRun (initHost gapCfg0 gapTbl [7, 8] 0) (gapLateOps ++ [.recv 300 (gapCv 4), .recv 400 (gapCv 1)])).timer = some 600 := by
  refine ⟨by decide, by decide, by decide, by decide, by decide, by decide, by decide, by decide⟩

/-- with `rebImmediateAfter = 3` the same deliveries stay in scope: rebroadcast waits for the phase timeout 272, the
alarm at 272 schedules the first rebroadcast (302), the alarm at 302 the next (502) — as `alarm_pending_inv` says, the
timer is armed after every call -/
def gapInOps : List Op :=
  [.start 0, .recv 10 (gapCv 2), .recv 11 (gapPv 2), .recv 12 (gapPv 3), .alarm 142, .recv 150 (gapCv 3), .alarm 272, .alarm 302]
example : hostOk (initHost gapCfg gapTbl [7, 8] 0) gapInOps = true ∧
    (List.range 8).map (fun k => (hostRun (initHost gapCfg gapTbl [7, 8] 0) (gapInOps.take (k + 1))).timer) =
      [some 100, some 100, some 100, some 142, some 272, some 272, some 302, some 502] := by
  refine ⟨by decide, by decide⟩


/-! ### the ranked network (`F3/Model/NetRanked.lean`): a second round converges on the best ticket

The audit's two-round scenario E6: four equal members, inputs `7.8` (members 1–3) and `7.9` (member 4). Members 1 and 2
hold the QUALITY quorum for `7.8` and PREPARE it; members 3 and 4 leave QUALITY by their timers before the votes arrive
and PREPARE the base `7` (member 3 learns `7.8` as a candidate from the late QUALITY votes). PREPARE splits 2/2, all
four COMMIT bottom, round 1: CONVERGE `7.8`, `7.8`, `7`, `7`. -/

def rkTbl : Table := { entries := [(1, 10), (2, 10), (3, 10), (4, 10)] }
def rkCfg : Cfg := { maxLookahead := 2, rebImmediateAfter := 3, timeout2 := [100, 130], qualityTimeout2 := 100, rebAfter := [50] }
def rkInp (p : Pid) : Chain := if p == 4 then [7, 9] else [7, 8]
def rkNet : Net := initNet rkTbl [1, 2, 3, 4] (fun _ => rkCfg) rkInp
/-- tickets: member 3 holds the best (lowest) ticket of every round, all tickets distinct -/
def rkRank : Pid → Nat → Nat := fun p _ => if p == 3 then 1 else 5 + p
def rkAll : List Pid := [1, 2, 3, 4]
/-- every stage hands the pool messages of one (round, phase) to the listed members, unmodified -/
def rkScript : List (Net → List NetOp) :=
  [fun _ => [.start 1 0, .start 2 0, .start 3 0, .start 4 0],
   fun n => floodOps n 1 [1, 2] 0 .quality,
   fun _ => [.alarm 3 100, .alarm 4 100],
   fun n => floodOps n 101 [3, 4] 0 .quality,
   fun n => floodOps n 102 rkAll 0 .prepare,
   fun n => floodOps n 103 rkAll 0 .commit,
   fun n => floodOps n 104 rkAll 1 .converge,
   fun _ => [.alarm 1 400, .alarm 2 400, .alarm 3 400, .alarm 4 400],
   fun n => floodOps n 401 rkAll 1 .prepare,
   fun n => floodOps n 402 rkAll 1 .commit,
   fun n => floodOps n 403 rkAll 0 .decide]

/-- **With distinct ticket ranks round 1 converges** (no hand-injected ranks: the deliveries are the pool messages).
Member 3 holds the best ticket, its CONVERGE value `7` is a candidate at every member (the base), everybody PREPAREs
and COMMITs `7` in round 1 and decides it; nothing fails. -/
theorem ranked_round1_converges :
    bestTicket rkRank rkAll 1 3 = true ∧
    (runScript rkRank rkNet rkScript).1.fails = [] ∧
    (runScript rkRank rkNet rkScript).1.nodes.map (fun e => (e.1, e.2.round, e.2.phase, e.2.termination.map (·.value))) =
      [(1, 1, .terminated, some [7]), (2, 1, .terminated, some [7]), (3, 1, .terminated, some [7]),
       (4, 1, .terminated, some [7])] ∧
    ((runScript rkRank rkNet rkScript).1.pool.filter (fun m => m.round == 1)).map
        (fun m => (m.sender, m.phase, m.value, m.rank)) =
      [(1, .converge, [7, 8], 6), (2, .converge, [7, 8], 7), (3, .converge, [7], 1), (4, .converge, [7], 9),
       (1, .prepare, [7], 0), (2, .prepare, [7], 0), (3, .prepare, [7], 0), (4, .prepare, [7], 0),
       (1, .commit, [7], 0), (2, .commit, [7], 0), (3, .commit, [7], 0), (4, .commit, [7], 0)] := by
  refine ⟨by decide, by decide +kernel, by decide +kernel, by decide +kernel⟩

/-- the events of that run are admissible (`execOkR`: only pool messages, to started members) -/
theorem ranked_round1_admissible : execOkR rkRank rkNet (runScript rkRank rkNet rkScript).2 = true := by
  decide +kernel

/-- **Without a ticket order (`F3.Net`: every rank 0) the same schedule never converges**: on a rank tie `findBest` keeps
the value inserted first — the member's own — so every member re-PREPAREs its own value in round 1, PREPARE splits 2/2
again, and everybody moves on to round 2. -/
theorem unranked_round1_does_not_converge :
    (runScript (fun _ _ => 0) rkNet rkScript).1.nodes.map (fun e => (e.1, e.2.round, e.2.phase, e.2.termination.map (·.value))) =
      [(1, 2, .converge, none), (2, 2, .converge, none), (3, 2, .converge, none), (4, 2, .converge, none)] ∧
    ((runScript (fun _ _ => 0) rkNet rkScript).1.pool.filter (fun m => m.round == 1 && m.phase == .prepare)).map
        (fun m => (m.sender, m.value)) = [(1, [7, 8]), (2, [7, 8]), (3, [7]), (4, [7])] := by
  refine ⟨by decide +kernel, by decide +kernel⟩

/-! ### S13 in the ranked model: the unconditional round bound is false

Known finding S13 (`known_findings.json`): every strong quorum needs a member `M` whose input is incompatible with the
proposal `V` the others stand on. Four equal members (a strong quorum needs three); member 4 broadcasts its QUALITY
vote for `7.8` and is silent from then on (crashed: within the `< 1/3` budget), its vote reaches members 1 and 2 only.
Members 1, 2 (input `7.8`) hold a QUALITY quorum for `7.8` and stand on it; member 3 = `M` (input `7.9`) knows only
the base `7` as candidate. From then on the run is perfectly synchronous among 1, 2, 3 (every message of a phase is
handed to all three before any timeout is evaluated). In every round the CONVERGE value `7.8` of members 1 and 2 is
justified by the COMMIT-bottom quorum of the previous round, hence admissible at `M` only as a candidate — which it is
not; `M`'s value `7` is a candidate at 1 and 2. So a round decides iff `M` holds the best ticket. -/

def s13Cfg : Cfg := { maxLookahead := 2, rebImmediateAfter := 3, timeout2 := [100], qualityTimeout2 := 100, rebAfter := [50] }
def s13Inp (p : Pid) : Chain := if p == 3 then [7, 9] else [7, 8]
def s13Net : Net := initNet rkTbl [1, 2, 3, 4] (fun _ => s13Cfg) s13Inp
def s13Live : List Pid := [1, 2, 3]
def s13Alarms (now : Int) : List NetOp := s13Live.map (fun p => NetOp.alarm p now)
/-- one synchronous round starting at time `t`: CONVERGE handed to all, CONVERGE timers, PREPARE handed to all, PREPARE
timers, COMMIT handed to all -/
def s13Round (r : Nat) (t : Int) : List (Net → List NetOp) :=
  [fun n => floodOps n (t + 1) s13Live r .converge,
   fun _ => s13Alarms (t + 150),
   fun n => floodOps n (t + 151) s13Live r .prepare,
   fun _ => s13Alarms (t + 300),
   fun n => floodOps n (t + 301) s13Live r .commit]
def s13Script (rounds : List Nat) : List (Net → List NetOp) :=
  [fun _ => [.start 1 0, .start 2 0, .start 3 0, .start 4 0],
   fun n => floodOps n 1 [1, 2] 0 .quality,
   fun n => (floodOps n 2 [3] 0 .quality).filter (fun o => match o with | .deliver _ _ m => m.sender != 4 | _ => true),
   fun _ => [.alarm 3 100],
   fun n => floodOps n 201 s13Live 0 .prepare,
   fun _ => s13Alarms 400,
   fun n => floodOps n 401 s13Live 0 .commit] ++
  rounds.flatMap (fun r => s13Round r (401 + 350 * ((r : Int) - 1))) ++
  [fun n => floodOps n 100000 s13Live 0 .decide]
/-- member 1 holds the best ticket of every round -/
def s13Lose : Pid → Nat → Nat := fun p _ => p
/-- ... except that `M` = member 3 wins the lottery of round 2 -/
def s13Win2 : Pid → Nat → Nat := fun p r => if r == 2 && p == 3 then 0 else p

/-- **S13, the stall.** `M` never holds the best ticket: rounds 0, 1, 2, 3 all end with COMMIT bottom from every live
member (PREPARE `7.8`, `7.8`, `7` each time), nothing fails, nobody decides, everybody is in CONVERGE of round 4 — and
so on for as many rounds as `M` loses the lottery: no bound on the number of rounds after stabilisation holds of the
model. The premise of the conditional round theorem that fails is admissibility: the best ticket's value `7.8` is not a
candidate at `M`, and its justification is a COMMIT (bottom) quorum, not a PREPARE quorum. -/
theorem s13_rounds_end_in_bottom :
    execOkR s13Lose s13Net (runScript s13Lose s13Net (s13Script [1, 2, 3])).2 = true ∧
    (runScript s13Lose s13Net (s13Script [1, 2, 3])).1.fails = [] ∧
    (runScript s13Lose s13Net (s13Script [1, 2, 3])).1.nodes.map
        (fun e => (e.1, e.2.round, e.2.phase, e.2.termination.map (·.value))) =
      [(1, 4, .converge, none), (2, 4, .converge, none), (3, 4, .converge, none), (4, 0, .quality, none)] ∧
    (runScript s13Lose s13Net (s13Script [1, 2, 3])).1.nodes.map (fun e => (e.2.proposal, e.2.candidates)) =
      [([7, 8], [[7], [7, 8]]), ([7, 8], [[7], [7, 8]]), ([7], [[7]]), ([7, 8], [[7]])] ∧
    ((runScript s13Lose s13Net (s13Script [1, 2, 3])).1.pool.filter (fun m => m.phase == .commit)).all
        (fun m => m.value == []) = true ∧
    ((runScript s13Lose s13Net (s13Script [1, 2, 3])).1.pool.filter (fun m => m.phase == .prepare)).map
        (fun m => (m.sender, m.round, m.value)) =
      [(1, 0, [7, 8]), (2, 0, [7, 8]), (3, 0, [7]), (1, 1, [7, 8]), (2, 1, [7, 8]), (3, 1, [7]),
       (1, 2, [7, 8]), (2, 2, [7, 8]), (3, 2, [7]), (1, 3, [7, 8]), (2, 3, [7, 8]), (3, 3, [7])] ∧
    ((runScript s13Lose s13Net (s13Script [1, 2, 3])).1.pool.filter (fun m => m.phase == .converge && m.sender == 1)).all
        (fun m => m.value == [7, 8] && (m.just.map (fun j => (j.phase, j.value))) == some (.commit, [])) = true := by
  refine ⟨by decide +kernel, by decide +kernel, by decide +kernel, by decide +kernel, by decide +kernel, by decide +kernel,
    by decide +kernel⟩

/-- **S13, the way out.** Same inputs, same schedule, but `M` holds the best ticket of round 2: its value `7` is a
candidate everywhere, everybody PREPAREs and COMMITs `7` in round 2 and decides it. -/
theorem s13_decides_when_M_wins :
    (runScript s13Win2 s13Net (s13Script [1, 2, 3])).1.fails = [] ∧
    (runScript s13Win2 s13Net (s13Script [1, 2, 3])).1.nodes.map
        (fun e => (e.1, e.2.round, e.2.phase, e.2.termination.map (·.value))) =
      [(1, 2, .terminated, some [7]), (2, 2, .terminated, some [7]), (3, 2, .terminated, some [7]),
       (4, 0, .quality, none)] := by
  refine ⟨by decide +kernel, by decide +kernel⟩

/-! ### round `r ≥ 1`, stage by stage (node level; for the network-level composition see §RoundR below and the header of
`F3/Proofs/RoundDecides.lean` and REPORT) -/

/-- **Round `r`, CONVERGE stage** (`F3/Proofs/RoundDecides.lean`). A participant in CONVERGE of any round whose timer has
expired, whose converge state holds only CONVERGE messages of honest participants (`ConvOK val rk`: participant `q`
sent value `val q` with ticket rank `rk q` — what `NetRanked` delivers), among them that of the strictly best ticket
holder `w`, PREPAREs `val w`, *if `val w` is admissible at this participant* (`admissible` = the filter of
`tryConverge`: a candidate, or justified by PREPAREs and still reachable in the previous round's COMMIT tally). This is
the premise that fails in S13. -/
theorem round_converge_stage (s : State) (now : Int) (val : Pid → Chain) (rk : Pid → Nat) (w : Pid)
    (hph : s.phase = .converge) (hel : s.phaseTimeoutElapsed now = true)
    (hok : ConvOK val rk (s.getRound s.round).converged)
    (hw : w ∈ (s.getRound s.round).converged.senders)
    (hbest : ∀ q ∈ (s.getRound s.round).converged.senders, q = w ∨ rk w < rk q)
    (hne : val w ≠ [])
    (hadm : ∀ cv ∈ (s.getRound s.round).converged.values, cv.chain = val w → admissible s cv = true) :
    hasFailure (s.tryConverge now).2 = false ∧
    (s.tryConverge now).1.phase = .prepare ∧ (s.tryConverge now).1.round = s.round ∧
    (s.tryConverge now).1.proposal = val w ∧ (s.tryConverge now).1.value = val w ∧
    ∃ j, Eff.broadcast s.round .prepare (val w) false (some j) ∈ (s.tryConverge now).2 :=
  converge_adopts_best s now val rk w hph hel hok hw hbest hne hadm

/-- **Round `r`, PREPARE stage.** A participant in PREPARE of any round with proposal `v`, whose PREPARE tally of that
round satisfies the run-level tally invariant (`TallyWF`, part of `GInv`), has heard a strong quorum `H`, and has heard
only votes for `v`, COMMITs `v` with a justification (without waiting for the timer). -/
theorem round_prepare_stage_partial (s : State) (now : Int) (V : Pid → Chain → Prop) (v : Chain) (H : List Pid)
    (hph : s.phase = .prepare) (hprop : s.proposal = v) (hv : v ≠ [])
    (hwf : TallyWF V s.tbl (s.getRound s.round).prepared)
    (hne : H ≠ []) (hnd : H.Nodup) (hq : strongQ s.tbl (sumP s.tbl H) = true)
    (hall : ∀ x ∈ H, x ∈ (s.getRound s.round).prepared.senders)
    (huni : ∀ x c, x ∈ (s.getRound s.round).prepared.senders → V x c → c = v) :
    (s.tryPrepare now).1.phase = .commit ∧ (s.tryPrepare now).1.value = v ∧
    (hasFailure (s.tryPrepare now).2 = true ∨
      ∃ j, Eff.broadcast s.round .commit v false (some j) ∈ (s.tryPrepare now).2) := by
  have hs : s.prepFoundQuorum = true := by
    unfold State.prepFoundQuorum
    rw [hprop]
    exact unanimous_tally_strong hwf v H hne hnd hq hall huni
  have := unanimous_step_prepare s now hph (by rw [hprop]; exact hv) hs
  rw [hprop] at this
  exact this

/-- **Round `r`, DECIDE stage**: a DECIDE tally that has heard a strong quorum `H`, all for `v`, holds a strong quorum
for `v` (`decide_quorum_terminates` then terminates the instance). -/
theorem round_decide_tally_partial (s : State) (V : Pid → Chain → Prop) (v : Chain) (H : List Pid)
    (hwf : TallyWF V s.tbl s.decision)
    (hne : H ≠ []) (hnd : H.Nodup) (hq : strongQ s.tbl (sumP s.tbl H) = true)
    (hall : ∀ x ∈ H, x ∈ s.decision.senders)
    (huni : ∀ x c, x ∈ s.decision.senders → V x c → c = v) :
    s.decision.hasStrongFor v = true :=
  unanimous_tally_strong hwf v H hne hnd hq hall huni

end RunLevel

end F3.Props.C06

/-! # Regenerated, second set (appended): ties to `tools/go2lean/targets.d/*2.json` -/
namespace F3.Props.C06
section Regenerated2
/-! ## Regenerated (2): timers, rebroadcast, round skipping and the PREPARE / COMMIT exits of `gpbft/gpbft.go`

Termination rests on *when* the instance model moves on, rebroadcasts and re-arms its alarm. Those
decisions are re-stated by hand in `F3/Model/Instance.lean`; the theorems below (proved in
`F3/Proofs/InstanceGen2.lean`, namespace `F3.Gen2Tie`) equate each of them with the definition
`tools/go2lean` regenerates from the Go source on every run (`targets.d/Gpbft2.json` →
`F3/Gen/Gpbft2.lean`), so that an edit of the Go site either keeps the equality or breaks this file. -/
open F3.Instance

/-- `phaseTimeoutElapsed` = `atOrAfter(now, phaseTimeout)` (`After || Equal`) -/
theorem phase_timeout_is_regenerated (s : State) (now : Int) :
    s.phaseTimeoutElapsed now =
      F3.Gen.Gpbft2.atOrAfter (decide (now > s.phaseTimeout)) (decide (now = s.phaseTimeout)) :=
  F3.Gen2Tie.phaseTimeoutElapsed_is_atOrAfter s now

/-- `shouldRebroadcast` of the model = of the source -/
theorem should_rebroadcast_is_regenerated (s : State) (now : Int) :
    s.shouldRebroadcast now =
      F3.Gen.Gpbft2.shouldRebroadcast s.round s.cfg.rebImmediateAfter (s.phaseTimeoutElapsed now) :=
  F3.Gen2Tie.shouldRebroadcast_is_regenerated s now

/-- no skip to a round that is not ahead, none in DECIDE: the first guard of `shouldSkipToRound` -/
theorem skip_refused_is_regenerated (s : State) (now : Int) (round : Nat)
    (h : F3.Gen.Gpbft2.skipToRoundRefused s.phase.toNat s.round round = true) :
    s.postReceive now round = (s, []) :=
  F3.Gen2Tie.postReceive_refused s now round h

/-- the guard itself, as an equation -/
theorem skip_guard_is_regenerated (s : State) (round : Nat) :
    (decide (round ≤ s.round) || s.phase == .decide) =
      F3.Gen.Gpbft2.skipToRoundRefused s.phase.toNat s.round round :=
  F3.Gen2Tie.skip_guard_is_regenerated s round

/-- first rebroadcast: the offset of the alarm (statement: `F3.Gen2Tie.first_rebroadcast_offset_is_regenerated`) -/
theorem first_rebroadcast_is_regenerated :
    type_of% @F3.Gen2Tie.first_rebroadcast_offset_is_regenerated :=
  @F3.Gen2Tie.first_rebroadcast_offset_is_regenerated

/-- successive rebroadcasts: rebroadcast, count, next timeout, alarm choice, in the source's order
(statement: `F3.Gen2Tie.next_rebroadcast_is_regenerated`) -/
theorem next_rebroadcast_is_regenerated : type_of% @F3.Gen2Tie.next_rebroadcast_is_regenerated :=
  @F3.Gen2Tie.next_rebroadcast_is_regenerated

/-- what is rebroadcast and in which order = `rebroadcast()` of the source -/
theorem rebroadcast_plan_is_regenerated (s : State) :
    rebroadcastEffs s = F3.Gen2Tie.rebPlan s (F3.Gen.Gpbft2.rebroadcast s.phase.toNat s.round) :=
  F3.Gen2Tie.rebroadcast_plan_is_regenerated s

/-- a COMMIT re-tries the current phase exactly under `tryToCompleteCurrentPhase` of the source -/
theorem commit_retry_is_regenerated (st : State) (m : Msg) :
    (st.phase == .prepare && st.round == m.round && !m.value.isEmpty) =
      F3.Gen.Gpbft2.commitRetriesCurrentPhase false st.phase.toNat st.round m.round m.value.isEmpty :=
  F3.Gen2Tie.commit_retry_is_regenerated st m

/-- the round assertion of `beginConverge` (domain: past round 0, `uint64` rounds) -/
theorem converge_round_guard_is_regenerated (s : State) (now : Int) (j : Just)
    (h1 : 1 ≤ s.round) (h2 : s.round < 2 ^ 64) (h3 : j.round < 2 ^ 64) :
    F3.Gen.Gpbft2.convergeJustWrongRound s.round j.round = (j.round + 1 != s.round) ∧
    (F3.Gen.Gpbft2.convergeJustWrongRound s.round j.round = true →
      s.beginConverge now j = (s, [.panic .convergeJustRound])) :=
  F3.Gen2Tie.converge_round_guard_is_regenerated s now j h1 h2 h3

/-- the end of PREPARE = the two `if` chains of `tryPrepare` -/
theorem try_prepare_is_regenerated (s : State) (now : Int) (hp : s.phase = .prepare) :
    s.tryPrepare now =
      (F3.Gen.Gpbft2.tryPrepare s.prepFoundJust s.prepFoundQuorum (s.prepComplete now) s.prepNotPossible
        (s.shouldRebroadcast now)).2.foldl (F3.Gen2Tie.prepAct now) (s, []) :=
  F3.Gen2Tie.tryPrepare_is_regenerated s now hp

/-- the `switch` of `tryCommit` (statement: `F3.Gen2Tie.tryCommit_is_regenerated`) -/
theorem try_commit_is_regenerated : type_of% @F3.Gen2Tie.tryCommit_is_regenerated :=
  @F3.Gen2Tie.tryCommit_is_regenerated

-- non-vacuity: the regenerated decisions take every branch
example : (F3.Gen.Gpbft2.tryCommit false true 4 3 false false 3 false).2 = [1, 2] ∧
    (F3.Gen.Gpbft2.tryCommit false true 4 3 false true 3 false).2 = [3] ∧
    (F3.Gen.Gpbft2.tryCommit false false 4 3 true true 3 false).2 = [4, 3] ∧
    (F3.Gen.Gpbft2.tryCommit false false 4 3 false true 3 true).2 = [5] ∧
    (F3.Gen.Gpbft2.tryCommit true false 3 3 true true 3 true).2 = [] := by decide
example : (F3.Gen.Gpbft2.tryPrepare false true false false false).2 = [1, 3] ∧
    (F3.Gen.Gpbft2.tryPrepare false false true false false).2 = [2, 3] ∧
    (F3.Gen.Gpbft2.tryPrepare false false false false true).2 = [4] := by decide
example : F3.Gen.Gpbft2.rebroadcast 3 2 = [1, 14, 13, 12, 24, 23, 22] ∧ F3.Gen.Gpbft2.rebroadcast 3 0 = [1, 14, 13, 12] ∧
    F3.Gen.Gpbft2.rebroadcast 5 7 = [5] ∧ F3.Gen.Gpbft2.rebroadcast 6 7 = [] := by decide

end Regenerated2
end F3.Props.C06

/-! # Round `r ≥ 1` at network level (appended): `round_r_decides` -/
namespace F3.Props.C06
section RoundR
open F3.Instance F3.Net F3.NetRanked F3.Liveness

/-! ## the conditional round theorem (audit finding H1 (c)), network level

`F3/Proofs/RoundNet{Defs,Tally,Node,Net,Main}.lean` (namespace `F3.Liveness`). Setting: the ranked network
`F3/Model/NetRanked.lean`; `H` is the list of live members — distinct members of the power table that together hold a
strong quorum (the all-honest whole-table network is `H = tbl.entries.map (·.1)`; members outside `H` are silent:
crashed, as member 4 of the S13 runs); total power positive.

* `RoundStart rankOf t H r b val jst n` (`roundStartB`, decidable): `r ≥ 1`; every member `p ∈ H` is in CONVERGE of round
  `r`, its converge state holds exactly its own value `val p` (justification `jst p`), its PREPARE / COMMIT tallies of
  round `r`, its DECIDE tally and round `r+1` are empty, it has not terminated; the pool holds the CONVERGE of round `r`
  of every member (value `val p`, ticket `rankOf p r`, justification `jst p`) and no other message of round `r` and no
  DECIDE; no such message has been handed to a member yet. This is the state in which `ranked_round1_converges` and the
  S13 runs find themselves after a round that ended in COMMIT ⊥ for everybody.
* `SyncOrderedR rankOf r H n ops` (`syncOkR`, decidable): only members of `H` act and there is no `Start`; only CONVERGE /
  PREPARE / COMMIT of round `r` and DECIDE are handed over — **re-deliveries of messages of older rounds are excluded**
  (not proved harmless: a re-delivered COMMIT of round `r-1` can complete a late strong quorum, which is a legitimate
  DECIDE from round `r`, and a late QUALITY vote changes the candidates, i.e. admissibility); a member that evaluates
  its CONVERGE timeout of round `r` as expired — in `ReceiveAlarm` or in the `tryCurrentPhase` at the end of `Receive`,
  the message being delivered counting as handed over — has been handed the CONVERGE of every member of `H`.
  **No condition on the PREPARE and COMMIT timeouts is needed**: everybody votes `val w`, so "timeout expired and a strong
  quorum of senders heard" already is a strong quorum for `val w` (total power positive); a PREPARE or COMMIT alarm that
  fires early only rebroadcasts. (The S13 script fires the COMMIT alarms before any COMMIT is handed over — a per-phase
  condition in the style of `Net.SyncOrdered` would reject that run.)
* premise: the strictly best ticket of round `r` belongs to `w` (`bestTicket`) and `val w` passes the filter of
  `tryConverge` at every member under the justification of every member that sends it (`admAllB`: `admAt x (val w) (jst q)`
  for every member state `x` and every `q` with `val q = val w`; which entry of the converge state carries `val w`
  depends on the order of delivery — the first CONVERGE for a value, or the member's own — hence "every `q`").
* conclusion (`round_r_invariant`, every admissible synchronous execution): no failure effect is added, every PREPARE /
  COMMIT of round `r` and every DECIDE on the wire is for `val w`, every member stays in round `r`, and a decision is
  `val w`; (`round_r_decides`) if the execution is complete for round `r` and nobody is left waiting for its CONVERGE
  timer (the proviso of `general_sync_decides`, CONVERGE ends by timer only), every member has terminated in round `r` with
  decision `val w` and has broadcast DECIDE `val w`. "Every member PREPAREs and COMMITs `val w`" is *not* a consequence: a
  member still in CONVERGE is pulled into DECIDE by one DECIDE (or by a COMMIT quorum) and never PREPAREs
  (`round_r_member_skips_prepare`); what holds is `RoundFacts.node`: a member in PREPARE / COMMIT has broadcast PREPARE
  `val w`, a member in COMMIT has broadcast COMMIT `val w`. -/

/-- **Round `r`, COMMIT stage (node level).** A participant whose COMMIT tally of its current round satisfies the
run-level tally invariant (`TallyWF`, part of `GInv`) and has heard a whole strong quorum `H`, every heard vote being for
`v ≠ ⊥`, moves to DECIDE with value `v` and broadcasts DECIDE `v` justified by the COMMITs of that round; nothing
fails (total power positive). -/
theorem round_commit_stage (s : State) (now : Int) (V : Pid → Chain → Prop) (v : Chain) (H : List Pid) (hv : v ≠ [])
    (hpos : 0 < s.tbl.total) (hwf : TallyWF V s.tbl (s.getRound s.round).committed)
    (hne : H ≠ []) (hnd : H.Nodup) (hq : strongQ s.tbl (sumP s.tbl H) = true)
    (hall : ∀ x ∈ H, x ∈ (s.getRound s.round).committed.senders)
    (huni : ∀ x c, x ∈ (s.getRound s.round).committed.senders → V x c → c = v) :
    hasFailure (s.tryCommit now s.round).2 = false ∧
    (s.tryCommit now s.round).1.phase = .decide ∧ (s.tryCommit now s.round).1.value = v ∧
    (s.tryCommit now s.round).1.round = s.round ∧
    ∃ sg, Eff.broadcast 0 .decide v false (some { round := s.round, phase := .commit, value := v, signers := sg }) ∈
      (s.tryCommit now s.round).2 :=
  commit_stage_node s now V v H hv hpos hwf hne hnd hq hall huni

/-- **Round `r`, DECIDE stage (node level).** A DECIDE tally that has heard a whole strong quorum `H`, all for `v`:
the participant terminates with decision `v`; nothing fails. -/
theorem round_decide_stage (s : State) (now : Int) (V : Pid → Chain → Prop) (v : Chain) (H : List Pid)
    (hpos : 0 < s.tbl.total) (hwf : TallyWF V s.tbl s.decision)
    (hne : H ≠ []) (hnd : H.Nodup) (hq : strongQ s.tbl (sumP s.tbl H) = true)
    (hall : ∀ x ∈ H, x ∈ s.decision.senders)
    (huni : ∀ x c, x ∈ s.decision.senders → V x c → c = v) :
    hasFailure (s.tryDecide now).2 = false ∧ (s.tryDecide now).1.phase = .terminated ∧
    ∃ d, (s.tryDecide now).1.termination = some d ∧ d.value = v ∧ d.phase = .decide :=
  decide_stage_node s now V v H hpos hwf hne hnd hq hall huni

/-- **Round `r`, safety.** See the section header; `RoundFacts` is spelled out in `F3/Proofs/RoundNetMain.lean`. -/
theorem round_r_invariant (rankOf : Pid → Nat → Nat) (t : Table) (H : List Pid) (r b : Nat) (val : Pid → Chain)
    (jst : Pid → Just) (w : Pid) (n : Net) (ops : List NetOp)
    (hstart : RoundStart rankOf t H r b val jst n) (hbest : bestTicket rankOf H r w = true)
    (hadm : admAllB H w val jst n = true)
    (hexec : execOkR rankOf n ops = true) (hsync : SyncOrderedR rankOf r H n ops) :
    RoundFacts H r (val w) n.fails (runNetR rankOf n ops) :=
  F3.Liveness.round_r_invariant rankOf t H r b val jst w n ops hstart hbest hadm hexec hsync

/-- **Round `r` decides `val w`** when the strictly best ticket holder's value is admissible everywhere. -/
theorem round_r_decides (rankOf : Pid → Nat → Nat) (t : Table) (H : List Pid) (r b : Nat) (val : Pid → Chain)
    (jst : Pid → Just) (w : Pid) (n : Net) (ops : List NetOp)
    (hstart : RoundStart rankOf t H r b val jst n) (hbest : bestTicket rankOf H r w = true)
    (hadm : admAllB H w val jst n = true)
    (hexec : execOkR rankOf n ops = true) (hsync : SyncOrderedR rankOf r H n ops)
    (hcomplete : completeR r H (runNetR rankOf n ops) = true)
    (hconv : noneInConverge H (runNetR rankOf n ops) = true) :
    ∀ p ∈ H, ∃ x d, (runNetR rankOf n ops).node? p = some x ∧ x.phase = .terminated ∧ x.round = r ∧
      x.termination = some d ∧ d.value = val w ∧
      ∃ m ∈ (runNetR rankOf n ops).pool, m.sender = p ∧ m.phase = .decide ∧ m.value = val w :=
  F3.Liveness.round_r_decides rankOf t H r b val jst w n ops hstart hbest hadm hexec hsync hcomplete hconv

/-! ### non-vacuity (1): round 1 of `ranked_round1_converges` -/

/-- the network after the first six stages of `rkScript` (round 0 has ended in COMMIT ⊥ for everybody) ... -/
def rkStart : Net := (runScript rkRank rkNet (rkScript.take 6)).1
/-- ... and the events of the remaining five stages (CONVERGE flood, timers, PREPARE, COMMIT, DECIDE floods) -/
def rkRoundOps : List NetOp := (runScript rkRank rkStart (rkScript.drop 6)).2

/-- the hypotheses of `round_r_decides` hold of round 1 of that run (whole table, `w` = member 3, `val w = 7`) -/
theorem rk_round1_hyps :
    RoundStart rkRank rkTbl rkAll 1 7 (valOf rkStart 1) (jstOf rkStart 1) rkStart ∧
    bestTicket rkRank rkAll 1 3 = true ∧
    admAllB rkAll 3 (valOf rkStart 1) (jstOf rkStart 1) rkStart = true ∧
    execOkR rkRank rkStart rkRoundOps = true ∧
    SyncOrderedR rkRank 1 rkAll rkStart rkRoundOps ∧
    completeR 1 rkAll (runNetR rkRank rkStart rkRoundOps) = true ∧
    noneInConverge rkAll (runNetR rkRank rkStart rkRoundOps) = true ∧
    valOf rkStart 1 3 = [7] ∧ rkAll = rkTbl.entries.map (·.1) := by
  refine ⟨?_, by decide +kernel, by decide +kernel, by decide +kernel, ?_, by decide +kernel, by decide +kernel,
    by decide +kernel, by decide⟩
  · unfold RoundStart; decide +kernel
  · unfold SyncOrderedR; decide +kernel

/-- the theorem applied to it: all four members terminate in round 1 with decision `7` -/
theorem rk_round1_decides_by_theorem :
    ∀ p ∈ rkAll, ∃ x d, (runNetR rkRank rkStart rkRoundOps).node? p = some x ∧ x.phase = .terminated ∧ x.round = 1 ∧
      x.termination = some d ∧ d.value = [7] := by
  obtain ⟨h1, h2, h3, h4, h5, h6, h7, h8, _⟩ := rk_round1_hyps
  intro p hp
  obtain ⟨x, d, a1, a2, a3, a4, a5, _⟩ :=
    round_r_decides rkRank rkTbl rkAll 1 7 (valOf rkStart 1) (jstOf rkStart 1) 3 rkStart rkRoundOps h1 h2 h3 h4 h5 h6 h7 p hp
  exact ⟨x, d, a1, a2, a3, a4, h8 ▸ a5⟩

/-- it is the run of `ranked_round1_converges` -/
example : (runNetR rkRank rkStart rkRoundOps).nodes.map (fun e => (e.1, e.2.round, e.2.phase, e.2.termination.map (·.value))) =
    (runScript rkRank rkNet rkScript).1.nodes.map (fun e => (e.1, e.2.round, e.2.phase, e.2.termination.map (·.value))) := by
  decide +kernel

/-! ### "every member PREPAREs `val w`" is not a consequence

Same start; members 1–3 run the round among themselves (3 of 4 equal members are a strong quorum); member 4, whose
CONVERGE timer (233 on its clock) has not fired, is handed their DECIDEs at its time 200: it skips to DECIDE and
terminates with `7` without ever broadcasting a PREPARE or COMMIT of round 1. All hypotheses of `round_r_decides` hold. -/
def rkSkipScript : List (Net → List NetOp) :=
  [fun n => floodOps n 104 [1, 2, 3] 1 .converge,
   fun _ => [.alarm 1 233, .alarm 2 233, .alarm 3 233],
   fun n => floodOps n 234 [1, 2, 3] 1 .prepare,
   fun n => floodOps n 235 [1, 2, 3] 1 .commit,
   fun n => floodOps n 236 [1, 2, 3] 0 .decide,
   fun n => floodOps n 200 [4] 0 .decide,
   fun n => floodOps n 237 rkAll 0 .decide,
   fun n => floodOps n 238 [4] 1 .converge,
   fun n => floodOps n 238 [4] 1 .prepare,
   fun n => floodOps n 238 [4] 1 .commit]
def rkSkipOps : List NetOp := (runScript rkRank rkStart rkSkipScript).2

theorem round_r_member_skips_prepare :
    execOkR rkRank rkStart rkSkipOps = true ∧ SyncOrderedR rkRank 1 rkAll rkStart rkSkipOps ∧
    completeR 1 rkAll (runNetR rkRank rkStart rkSkipOps) = true ∧
    noneInConverge rkAll (runNetR rkRank rkStart rkSkipOps) = true ∧
    decidedB rkAll 1 [7] (runNetR rkRank rkStart rkSkipOps) = true ∧
    ((runNetR rkRank rkStart rkSkipOps).pool.filter (fun m => m.sender == 4 && m.round == 1)).map (·.phase) = [.converge] := by
  refine ⟨by decide +kernel, ?_, by decide +kernel, by decide +kernel, by decide +kernel, by decide +kernel⟩
  unfold SyncOrderedR; decide +kernel

/-! ### the CONVERGE clause of `SyncOrderedR` is necessary — and it must cover deliveries, not only alarms

Same start. Members 1 and 2 are handed their *own* CONVERGE at time 300, after their CONVERGE timeout (233): no alarm is
involved, `tryConverge` runs at the end of `Receive`, finds the timeout expired and only the member's own value in the
converge state, and PREPAREs it (`7.8`). Members 3 and 4 are handed all four CONVERGEs before their alarm and PREPARE the
best ticket's value `7`. PREPARE splits 2/2, everybody COMMITs ⊥, round 2 begins — although the best ticket's value
was admissible everywhere, nothing was lost and every message was delivered. The very first event violates
`SyncOrderedR`. -/
def rkOwnConv (n : Net) (now : Int) (p : Pid) : List NetOp :=
  (n.pool.filter (fun m => m.round == 1 && m.phase == .converge && m.sender == p)).map (fun m => NetOp.deliver p now m)
def rkLateScript : List (Net → List NetOp) :=
  [fun n => rkOwnConv n 300 1 ++ rkOwnConv n 300 2,
   fun n => floodOps n 104 [3, 4] 1 .converge,
   fun _ => [.alarm 3 400, .alarm 4 400],
   fun n => floodOps n 401 [1, 2] 1 .converge,
   fun n => floodOps n 402 rkAll 1 .prepare,
   fun _ => [.alarm 1 600, .alarm 2 600, .alarm 3 600, .alarm 4 600],
   fun n => floodOps n 601 rkAll 1 .commit]
def rkLateOps : List NetOp := (runScript rkRank rkStart rkLateScript).2

theorem round_r_late_converge_delivery_splits :
    execOkR rkRank rkStart rkLateOps = true ∧ completeR 1 rkAll (runNetR rkRank rkStart rkLateOps) = true ∧
    (runNetR rkRank rkStart rkLateOps).fails = [] ∧
    ¬ SyncOrderedR rkRank 1 rkAll rkStart (rkLateOps.take 1) ∧
    ((runNetR rkRank rkStart rkLateOps).pool.filter (fun m => m.round == 1 && m.phase != .converge)).map
        (fun m => (m.sender, m.phase, m.value)) =
      [(1, .prepare, [7, 8]), (2, .prepare, [7, 8]), (3, .prepare, [7]), (4, .prepare, [7]),
       (1, .commit, []), (2, .commit, []), (3, .commit, []), (4, .commit, [])] ∧
    (runNetR rkRank rkStart rkLateOps).nodes.map (fun e => (e.1, e.2.round, e.2.phase)) =
      [(1, 2, .converge), (2, 2, .converge), (3, 2, .converge), (4, 2, .converge)] := by
  refine ⟨by decide +kernel, by decide +kernel, by decide +kernel, ?_, by decide +kernel, by decide +kernel⟩
  unfold SyncOrderedR; decide +kernel

/-! ### non-vacuity (2) and S13: `s13_decides_when_M_wins`, `s13_rounds_end_in_bottom`

`s13Script [1, 2, 3]` has 7 stages for round 0 and 5 per later round: round `r` starts after `7 + 5 (r - 1)` stages. Live
members `[1, 2, 3]` (3 of 4 equal members: a strong quorum), member 4 silent. -/
def s13Start (rk : Pid → Nat → Nat) (k : Nat) : Net := (runScript rk s13Net ((s13Script [1, 2, 3]).take k)).1
def s13RoundOps (rk : Pid → Nat → Nat) (k : Nat) : List NetOp :=
  (runScript rk (s13Start rk k) ((s13Script [1, 2, 3]).drop k)).2

/-- round 2 of `s13_decides_when_M_wins` (`M` = member 3 holds the best ticket; its value `7` is a candidate
everywhere): the hypotheses of `round_r_decides` hold -/
theorem s13_round2_hyps :
    RoundStart s13Win2 rkTbl s13Live 2 7 (valOf (s13Start s13Win2 12) 2) (jstOf (s13Start s13Win2 12) 2) (s13Start s13Win2 12) ∧
    bestTicket s13Win2 s13Live 2 3 = true ∧
    admAllB s13Live 3 (valOf (s13Start s13Win2 12) 2) (jstOf (s13Start s13Win2 12) 2) (s13Start s13Win2 12) = true ∧
    execOkR s13Win2 (s13Start s13Win2 12) (s13RoundOps s13Win2 12) = true ∧
    SyncOrderedR s13Win2 2 s13Live (s13Start s13Win2 12) (s13RoundOps s13Win2 12) ∧
    completeR 2 s13Live (runNetR s13Win2 (s13Start s13Win2 12) (s13RoundOps s13Win2 12)) = true ∧
    noneInConverge s13Live (runNetR s13Win2 (s13Start s13Win2 12) (s13RoundOps s13Win2 12)) = true ∧
    valOf (s13Start s13Win2 12) 2 3 = [7] := by
  refine ⟨?_, by decide +kernel, by decide +kernel, by decide +kernel, ?_, by decide +kernel, by decide +kernel,
    by decide +kernel⟩
  · unfold RoundStart; decide +kernel
  · unfold SyncOrderedR; decide +kernel

theorem s13_round2_decides_by_theorem :
    ∀ p ∈ s13Live, ∃ x d, (runNetR s13Win2 (s13Start s13Win2 12) (s13RoundOps s13Win2 12)).node? p = some x ∧
      x.phase = .terminated ∧ x.round = 2 ∧ x.termination = some d ∧ d.value = [7] := by
  obtain ⟨h1, h2, h3, h4, h5, h6, h7, h8⟩ := s13_round2_hyps
  intro p hp
  obtain ⟨x, d, a1, a2, a3, a4, a5, _⟩ :=
    round_r_decides s13Win2 rkTbl s13Live 2 7 _ _ 3 _ _ h1 h2 h3 h4 h5 h6 h7 p hp
  exact ⟨x, d, a1, a2, a3, a4, h8 ▸ a5⟩

/-- **The theorem does not contradict S13: the premise that fails is admissibility.** In `s13_rounds_end_in_bottom`
(member 1 holds the best ticket of every round) rounds 1, 2 and 3 all start in a `RoundStart`, the best ticket is strict,
round 3 (the last one the script runs) is admissible, round-synchronous and complete — but `val 1 = 7.8` is not
admissible at `M` (`admAllB = false` in every round), and the members are in CONVERGE of round 4. The same holds of round 1
of `s13_decides_when_M_wins` (member 1 wins round 1). -/
theorem s13_admissibility_fails :
    (RoundStart s13Lose rkTbl s13Live 1 7 (valOf (s13Start s13Lose 7) 1) (jstOf (s13Start s13Lose 7) 1) (s13Start s13Lose 7) ∧
     RoundStart s13Lose rkTbl s13Live 2 7 (valOf (s13Start s13Lose 12) 2) (jstOf (s13Start s13Lose 12) 2) (s13Start s13Lose 12) ∧
     RoundStart s13Lose rkTbl s13Live 3 7 (valOf (s13Start s13Lose 17) 3) (jstOf (s13Start s13Lose 17) 3) (s13Start s13Lose 17)) ∧
    (bestTicket s13Lose s13Live 1 1 = true ∧ bestTicket s13Lose s13Live 2 1 = true ∧ bestTicket s13Lose s13Live 3 1 = true) ∧
    (admAllB s13Live 1 (valOf (s13Start s13Lose 7) 1) (jstOf (s13Start s13Lose 7) 1) (s13Start s13Lose 7) = false ∧
     admAllB s13Live 1 (valOf (s13Start s13Lose 12) 2) (jstOf (s13Start s13Lose 12) 2) (s13Start s13Lose 12) = false ∧
     admAllB s13Live 1 (valOf (s13Start s13Lose 17) 3) (jstOf (s13Start s13Lose 17) 3) (s13Start s13Lose 17) = false) ∧
    (valOf (s13Start s13Lose 17) 3 1 = [7, 8] ∧ (jstOf (s13Start s13Lose 17) 3 1).phase = .commit ∧
     ((s13Start s13Lose 17).node? 3).map (·.candidates) = some [[7]]) ∧
    (execOkR s13Lose (s13Start s13Lose 17) (s13RoundOps s13Lose 17) = true ∧
     SyncOrderedR s13Lose 3 s13Live (s13Start s13Lose 17) (s13RoundOps s13Lose 17) ∧
     completeR 3 s13Live (runNetR s13Lose (s13Start s13Lose 17) (s13RoundOps s13Lose 17)) = true ∧
     (runNetR s13Lose (s13Start s13Lose 17) (s13RoundOps s13Lose 17)).nodes.map (fun e => (e.1, e.2.round, e.2.phase)) =
       [(1, 4, .converge), (2, 4, .converge), (3, 4, .converge), (4, 0, .quality)]) ∧
    (bestTicket s13Win2 s13Live 1 1 = true ∧
     admAllB s13Live 1 (valOf (s13Start s13Win2 7) 1) (jstOf (s13Start s13Win2 7) 1) (s13Start s13Win2 7) = false) := by
  refine ⟨⟨?_, ?_, ?_⟩, ⟨by decide, by decide, by decide⟩, ⟨by decide +kernel, by decide +kernel, by decide +kernel⟩,
    ⟨by decide +kernel, by decide +kernel, by decide +kernel⟩,
    ⟨by decide +kernel, ?_, by decide +kernel, by decide +kernel⟩, ⟨by decide, by decide +kernel⟩⟩
  · unfold RoundStart; decide +kernel
  · unfold RoundStart; decide +kernel
  · unfold RoundStart; decide +kernel
  · unfold SyncOrderedR; decide +kernel

end RoundR
end F3.Props.C06

namespace F3.Props.C06
section Skeletons

/-- **The Go functions this property's models mirror still have the statement structure the models were written
against**: each regenerated skeleton (pre-order list of statement kinds, `tools/go2lean/skel.go`) equals the pinned
expectation of `F3/Proofs/SkelTie*.lean`. An added early return, cap, loop or dropped branch in one of these functions
breaks this obligation even when no regenerated *expression* changes. -/
theorem code_structure_as_modelled :
    F3.Gen.SkelGpbft.skelQueueAdd = F3.SkelTie.SkelGpbft.skelQueueAddExpected ∧
    F3.Gen.SkelGpbft.skelQueueDrain = F3.SkelTie.SkelGpbft.skelQueueDrainExpected ∧
    F3.Gen.SkelGpbft.skelReceiveMessage = F3.SkelTie.SkelGpbft.skelReceiveMessageExpected ∧
    F3.Gen.SkelGpbft.skelHandleDecision = F3.SkelTie.SkelGpbft.skelHandleDecisionExpected ∧
    F3.Gen.SkelGpbft.skelReceiveOne = F3.SkelTie.SkelGpbft.skelReceiveOneExpected ∧
    F3.Gen.SkelGpbft.skelPostReceive = F3.SkelTie.SkelGpbft.skelPostReceiveExpected ∧
    F3.Gen.SkelGpbft.skelTryQuality = F3.SkelTie.SkelGpbft.skelTryQualityExpected ∧
    F3.Gen.SkelGpbft.skelTryConverge = F3.SkelTie.SkelGpbft.skelTryConvergeExpected ∧
    F3.Gen.SkelGpbft.skelTryPrepare = F3.SkelTie.SkelGpbft.skelTryPrepareExpected ∧
    F3.Gen.SkelGpbft.skelTryCommit = F3.SkelTie.SkelGpbft.skelTryCommitExpected ∧
    F3.Gen.SkelGpbft.skelTryDecide = F3.SkelTie.SkelGpbft.skelTryDecideExpected ∧
    F3.Gen.SkelGpbft.skelBeginDecide = F3.SkelTie.SkelGpbft.skelBeginDecideExpected ∧
    F3.Gen.SkelGpbft.skelSkipToRound = F3.SkelTie.SkelGpbft.skelSkipToRoundExpected ∧
    F3.Gen.SkelGpbft.skelTryRebroadcast = F3.SkelTie.SkelGpbft.skelTryRebroadcastExpected ∧
    F3.Gen.SkelGpbft.skelReceiveEachPrefix = F3.SkelTie.SkelGpbft.skelReceiveEachPrefixExpected ∧
    F3.Gen.SkelGpbft.skelFindStrongQuorumFor = F3.SkelTie.SkelGpbft.skelFindStrongQuorumForExpected ∧
    F3.Gen.SkelGpbft.skelBeginInstance = F3.SkelTie.SkelGpbft.skelBeginInstanceExpected ∧
    F3.Gen.SkelGpbft.skelReceiveAlarm = F3.SkelTie.SkelGpbft.skelReceiveAlarmExpected ∧
    F3.Gen.SkelGpbft.skelHasBase = F3.SkelTie.SkelGpbft.skelHasBaseExpected ∧
    F3.Gen.SkelGpbft.skelTipSetEqual = F3.SkelTie.SkelGpbft.skelTipSetEqualExpected ∧
    F3.Gen.SkelGpbft.skelChainEq = F3.SkelTie.SkelGpbft.skelChainEqExpected ∧
    F3.Gen.SkelGpbft.skelReceiveMany = F3.SkelTie.SkelGpbft.skelReceiveManyExpected ∧
    F3.Gen.SkelGpbft.skelShouldSkipToRound = F3.SkelTie.SkelGpbft.skelShouldSkipToRoundExpected :=
  ⟨F3.SkelTie.SkelGpbft.skelQueueAdd_expected, F3.SkelTie.SkelGpbft.skelQueueDrain_expected, F3.SkelTie.SkelGpbft.skelReceiveMessage_expected, F3.SkelTie.SkelGpbft.skelHandleDecision_expected, F3.SkelTie.SkelGpbft.skelReceiveOne_expected, F3.SkelTie.SkelGpbft.skelPostReceive_expected, F3.SkelTie.SkelGpbft.skelTryQuality_expected, F3.SkelTie.SkelGpbft.skelTryConverge_expected, F3.SkelTie.SkelGpbft.skelTryPrepare_expected, F3.SkelTie.SkelGpbft.skelTryCommit_expected, F3.SkelTie.SkelGpbft.skelTryDecide_expected, F3.SkelTie.SkelGpbft.skelBeginDecide_expected, F3.SkelTie.SkelGpbft.skelSkipToRound_expected, F3.SkelTie.SkelGpbft.skelTryRebroadcast_expected, F3.SkelTie.SkelGpbft.skelReceiveEachPrefix_expected, F3.SkelTie.SkelGpbft.skelFindStrongQuorumFor_expected, F3.SkelTie.SkelGpbft.skelBeginInstance_expected, F3.SkelTie.SkelGpbft.skelReceiveAlarm_expected, F3.SkelTie.SkelGpbft.skelHasBase_expected, F3.SkelTie.SkelGpbft.skelTipSetEqual_expected, F3.SkelTie.SkelGpbft.skelChainEq_expected, F3.SkelTie.SkelGpbft.skelReceiveMany_expected, F3.SkelTie.SkelGpbft.skelShouldSkipToRound_expected⟩

end Skeletons
end F3.Props.C06
