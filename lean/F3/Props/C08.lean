import F3.Gen.Core
import F3.Model.Power
/-!
# C08 — Quorum arithmetic is exact and quorums intersect on the whole power domain

All theorems about `isStrongQuorum`, `hasWeakQuorum`, `couldReachStrongQuorum`, `divCeil` are
about the definitions in `F3/Gen/Core.lean`, which are regenerated from `/repo/gpbft/gpbft.go`
on every run by `tools/go2lean`.
-/
namespace F3.Props.C08
open F3.Gen F3.GoInt F3.Power

theorem divCeil3_nonneg (a : Int) (h : 0 ≤ a) :
    3 * divCeil a 3 ≥ a ∧ 3 * divCeil a 3 < a + 3 := by
  unfold divCeil
  simp only [Int.tdiv_eq_ediv_of_nonneg h, Int.tmod_eq_emod_of_nonneg h]
  by_cases hr : a % 3 = 0 <;> simp [hr] <;> omega

/-- A set counts as a strong quorum exactly when it holds at least two thirds of the total. -/
theorem strong_iff (p w : Int) (hw : 0 ≤ w) : isStrongQuorum p w = true ↔ 3 * p ≥ 2 * w := by
  have := divCeil3_nonneg (2 * w) (by omega)
  unfold isStrongQuorum
  simp only [decide_eq_true_eq]
  omega

/-- Any two strong quorums (weights `a`,`b` of subsets of a total `w`) overlap in at least one
third of the total: the overlap of two subsets weighs at least `a + b - w`. -/
theorem strong_inter (a b w : Int) (hw : 0 ≤ w)
    (ha : isStrongQuorum a w = true) (hb : isStrongQuorum b w = true) :
    3 * (a + b - w) ≥ w := by
  rw [strong_iff _ _ hw] at ha hb; omega

/-- …which is more than any tolerated faulty coalition (`3·f < w`). -/
theorem strong_inter_exceeds_faulty (a b w f : Int) (hw : 0 ≤ w) (hf : 3 * f < w)
    (ha : isStrongQuorum a w = true) (hb : isStrongQuorum b w = true) :
    a + b - w > f := by
  have := strong_inter a b w hw ha hb; omega

/-- Anything counted as a weak quorum strictly exceeds one third. -/
theorem weak_gt_third (p w : Int) (hw : 0 ≤ w) (h : hasWeakQuorum p w = true) : 3 * p > w := by
  have := divCeil3_nonneg w hw
  unfold hasWeakQuorum at h
  simp only [decide_eq_true_eq] at h
  omega

/-- A weak quorum and a strong quorum intersect (so a weak quorum contains an honest member
whenever `3·f < w`; and a strong quorum's complement is never a weak quorum). -/
theorem weak_not_complement_of_strong (p s w : Int) (hw : 0 ≤ w)
    (hp : hasWeakQuorum p w = true) (hs : isStrongQuorum s w = true) : p + s > w := by
  have := weak_gt_third p w hw hp
  rw [strong_iff _ _ hw] at hs; omega

/-- A value reported as unable to reach a strong quorum indeed cannot reach one given the votes
already cast: whatever additional support `extra` comes from not-yet-voted power (plus, with the
adversary flag, up to ⌊w/3⌋ double-voted power), the support stays below a strong quorum. -/
theorem could_reach_sound (adv : Bool) (w voted support extra : Int) (hw : 0 ≤ w)
    (hsv : support ≤ voted) (_hvw : voted ≤ w) (_hs : 0 ≤ support)
    (hextra : extra ≤ (w - voted) + (if adv then Int.tdiv w 3 else 0))
    (hcap : support + extra ≤ w)
    (h : couldReachStrongQuorum adv w voted support = false) :
    isStrongQuorum (support + extra) w = false := by
  have h2 := divCeil3_nonneg (2 * w) (by omega)
  unfold couldReachStrongQuorum at h
  unfold isStrongQuorum at *
  simp only [decide_eq_false_iff_not, Int.not_le, ge_iff_le] at *
  cases adv <;> simp at h hextra <;> omega

/-- Conversely the report is exact: if it says "could reach", the remaining power suffices. -/
theorem could_reach_complete (w voted support : Int) (hw : 0 ≤ w)
    (hsv : support ≤ voted) (_hvw : voted ≤ w)
    (h : couldReachStrongQuorum false w voted support = true) :
    isStrongQuorum (support + (w - voted)) w = true := by
  have h2 := divCeil3_nonneg (2 * w) (by omega)
  unfold couldReachStrongQuorum at h
  unfold isStrongQuorum at *
  simp only [decide_eq_true_eq, ge_iff_le] at *
  simp at h
  omega

/-- No intermediate of the quorum computations leaves int64 on the power domain (and far beyond:
any total up to 2^61). The intermediates are: `2*whole`, the quotient, remainder and `quo+1` of
`divCeil`, `unvoted`, `whole/3`, the three-term sum and the `min`. -/
theorem no_overflow (p w voted support : Int) (hw0 : 0 ≤ w) (hw : w ≤ 2 ^ 61)
    (hp0 : 0 ≤ p) (hp : p ≤ w) (hv0 : 0 ≤ voted) (hv : voted ≤ w) (hs0 : 0 ≤ support)
    (hs : support ≤ voted) :
    fits64 (2 * w) ∧ fits64 (Int.tdiv (2 * w) 3) ∧ fits64 (Int.tmod (2 * w) 3) ∧
    fits64 (Int.tdiv (2 * w) 3 + 1) ∧ fits64 (Int.tdiv w 3 + 1) ∧
    fits64 (w - voted) ∧ fits64 (support + (w - voted) + Int.tdiv w 3) ∧
    fits64 (divCeil (2 * w) 3) ∧ fits64 (divCeil w 3) := by
  have a := divCeil3_nonneg (2 * w) (by omega)
  have b := divCeil3_nonneg w hw0
  have h2 : (0:Int) ≤ 2 * w := by omega
  simp only [Int.tdiv_eq_ediv_of_nonneg h2, Int.tmod_eq_emod_of_nonneg h2,
    Int.tdiv_eq_ediv_of_nonneg hw0]
  unfold fits64
  refine ⟨?_, ?_, ?_, ?_, ?_, ?_, ?_, ?_, ?_⟩ <;> omega

/-- The threshold call sites (extracted from the source on this run): the certificate validator,
message validator and tally all apply the same predicate `IsStrongQuorum` to a sum of scaled
powers and the scaled total of a power table. -/
theorem call_sites_agree :
    (callSites.filter (fun c => c.2.1 == "IsStrongQuorum")).map (fun c => (c.1, c.2.2)) =
      [("gpbft/gpbft.go", ["candidate.power", "q.powerTable.ScaledTotal"]),
       ("gpbft/gpbft.go", ["q.sendersTotalPower", "q.powerTable.ScaledTotal"]),
       ("gpbft/gpbft.go", ["possibleSupport", "q.powerTable.ScaledTotal"]),
       ("gpbft/gpbft.go", ["justificationPower", "q.powerTable.ScaledTotal"]),
       ("gpbft/validator.go", ["justificationPower", "comt.PowerTable.ScaledTotal"]),
       ("certs/certs.go", ["signerPowers", "totalScaled"])] := by
  decide

/-! ## Scaled powers (hand model `F3.Power`, tied by correspondence) -/

theorem scalePower_le (p t : Nat) (h : p ≤ t) (_ht : 0 < t) : scalePower p t ≤ 65535 := by
  unfold scalePower maxPower
  apply Nat.div_le_of_le_mul
  have : 65535 * p ≤ 65535 * t := Nat.mul_le_mul_left _ h
  simpa [Nat.mul_comm] using this

theorem scalePower_mono (p q t : Nat) (h : p ≤ q) : scalePower p t ≤ scalePower q t := by
  unfold scalePower
  exact Nat.div_le_div_right (Nat.mul_le_mul_left _ h)

theorem sum_scaled_mul_le (ns : List Nat) (t : Nat) :
    sum (ns.map (fun p => scalePower p t)) * t ≤ maxPower * sum ns := by
  induction ns with
  | nil => simp [sum]
  | cons x xs ih =>
    simp only [List.map, sum]
    have hx : scalePower x t * t ≤ maxPower * x := by
      unfold scalePower; exact Nat.div_mul_le_self _ _
    rw [Nat.add_mul, Nat.mul_add]
    omega

/-- Scaled powers of any power table sum to at most 65 535. -/
theorem scaled_sum_le (ps : List Int) (sc : List Nat) (tot : Nat)
    (h : scaled ps = some (sc, tot)) : tot ≤ 65535 := by
  unfold scaled at h
  split at h
  · simp only [Option.some.injEq, Prod.mk.injEq] at h
    obtain ⟨_, h2⟩ := h
    subst h2
    have key := sum_scaled_mul_le (ps.map Int.toNat) (sum (ps.map Int.toNat))
    by_cases ht : sum (ps.map Int.toNat) = 0
    · -- total 0 ⇒ every scaled power is x/0 = 0
      have : ∀ ns : List Nat, sum (ns.map (fun p => scalePower p 0)) = 0 := by
        intro ns; induction ns with
        | nil => rfl
        | cons x xs ih =>
          simp only [List.map, sum, ih]; simp [scalePower]
      rw [ht, this]; omega
    · have hpos : 0 < sum (ps.map Int.toNat) := Nat.pos_of_ne_zero ht
      exact Nat.le_of_mul_le_mul_right key hpos
  · simp at h

theorem sum_ge_mem (ns : List Nat) (x : Nat) (h : x ∈ ns) : x ≤ sum ns := by
  induction ns with
  | nil => simp at h
  | cons y ys ih =>
    simp only [List.mem_cons] at h
    simp only [sum]
    rcases h with h | h
    · omega
    · have := ih h; omega

/-- Each scaled power is at most 65 535, and scaling preserves order. -/
theorem scaled_each_le (ps : List Int) (sc : List Nat) (tot : Nat)
    (h : scaled ps = some (sc, tot)) : ∀ s ∈ sc, s ≤ 65535 := by
  intro s hs
  have hle := scaled_sum_le ps sc tot h
  unfold scaled at h
  split at h
  · simp only [Option.some.injEq, Prod.mk.injEq] at h
    obtain ⟨h1, h2⟩ := h
    have : s ≤ sum sc := sum_ge_mem sc s hs
    rw [← h1] at this
    omega
  · simp at h

theorem scaled_order_preserving (ps : List Int) (sc : List Nat) (tot : Nat)
    (h : scaled ps = some (sc, tot)) (i j : Nat) (hi : i < ps.length) (hj : j < ps.length)
    (hij : ps[i] ≤ ps[j]) :
    sc[i]?.getD 0 ≤ sc[j]?.getD 0 := by
  unfold scaled at h
  split at h
  · simp only [Option.some.injEq, Prod.mk.injEq] at h
    obtain ⟨h1, _⟩ := h
    subst h1
    simp only [List.getElem?_map, List.getElem?_eq_getElem hi, List.getElem?_eq_getElem hj,
      Option.map_some, Option.getD_some]
    apply scalePower_mono
    omega
  · simp at h

/-- The domain the quorum functions are applied on is therefore `0 ≤ part ≤ whole ≤ 65535`,
inside the no-overflow range. -/
theorem power_domain_no_overflow (ps : List Int) (sc : List Nat) (tot : Nat)
    (h : scaled ps = some (sc, tot)) : (tot : Int) ≤ 2 ^ 61 := by
  have := scaled_sum_le ps sc tot h; omega

/-! ## Non-vacuity -/
example : isStrongQuorum 2 3 = true ∧ isStrongQuorum 1 3 = false ∧ hasWeakQuorum 2 3 = true
    ∧ hasWeakQuorum 1 3 = false := by decide
example : couldReachStrongQuorum false 30 25 5 = false ∧ couldReachStrongQuorum true 30 25 5 = true := by
  decide
example : scaled [10, 20, 30] = some ([10922, 21845, 32767], 65534) := by decide

end F3.Props.C08
