import F3.Proofs.SkelTiePower
import F3.Gen.Core
import F3.Model.Power
import F3.Spec.Quorum
import F3.Model.Instance
/-!
# C08 — Quorum arithmetic is exact and quorums intersect on the whole power domain

All theorems about `isStrongQuorum`, `hasWeakQuorum`, `couldReachStrongQuorum`, `divCeil` are
about the definitions in `F3/Gen/Core.lean`, which are regenerated from `/repo/gpbft/gpbft.go`
on every run by `tools/go2lean`.
-/
namespace F3.Props.C08
open F3.Gen F3.GoInt F3.Power

theorem divCeil3_nonneg (a : Int) (h : 0 ≤ a) :
    3 * divCeil a 3 ≥ a ∧ 3 * divCeil a 3 < a + 3 := by
  unfold divCeil
  simp only [Int.tdiv_eq_ediv_of_nonneg h, Int.tmod_eq_emod_of_nonneg h]
  by_cases hr : a % 3 = 0 <;> simp [hr] <;> omega

/-- A set counts as a strong quorum exactly when it holds at least two thirds of the total. -/
theorem strong_iff (p w : Int) (hw : 0 ≤ w) : isStrongQuorum p w = true ↔ 3 * p ≥ 2 * w := by
  have := divCeil3_nonneg (2 * w) (by omega)
  unfold isStrongQuorum
  simp only [decide_eq_true_eq]
  omega

/-- Any two strong quorums (weights `a`,`b` of subsets of a total `w`) overlap in at least one
third of the total: the overlap of two subsets weighs at least `a + b - w`. -/
theorem strong_inter (a b w : Int) (hw : 0 ≤ w)
    (ha : isStrongQuorum a w = true) (hb : isStrongQuorum b w = true) :
    3 * (a + b - w) ≥ w := by
  rw [strong_iff _ _ hw] at ha hb; omega

/-- …which is more than any tolerated faulty coalition (`3·f < w`). -/
theorem strong_inter_exceeds_faulty (a b w f : Int) (hw : 0 ≤ w) (hf : 3 * f < w)
    (ha : isStrongQuorum a w = true) (hb : isStrongQuorum b w = true) :
    a + b - w > f := by
  have := strong_inter a b w hw ha hb; omega

/-- Anything counted as a weak quorum strictly exceeds one third. -/
theorem weak_gt_third (p w : Int) (hw : 0 ≤ w) (h : hasWeakQuorum p w = true) : 3 * p > w := by
  have := divCeil3_nonneg w hw
  unfold hasWeakQuorum at h
  simp only [decide_eq_true_eq] at h
  omega

/-- A weak quorum and a strong quorum intersect (so a weak quorum contains an honest member
whenever `3·f < w`; and a strong quorum's complement is never a weak quorum). -/
theorem weak_not_complement_of_strong (p s w : Int) (hw : 0 ≤ w)
    (hp : hasWeakQuorum p w = true) (hs : isStrongQuorum s w = true) : p + s > w := by
  have := weak_gt_third p w hw hp
  rw [strong_iff _ _ hw] at hs; omega

/-- A value reported as unable to reach a strong quorum indeed cannot reach one given the votes
already cast: whatever additional support `extra` comes from not-yet-voted power (plus, with the
adversary flag, up to ⌊w/3⌋ double-voted power), the support stays below a strong quorum. -/
theorem could_reach_sound (adv : Bool) (w voted support extra : Int) (hw : 0 ≤ w)
    (hsv : support ≤ voted) (_hvw : voted ≤ w) (_hs : 0 ≤ support)
    (hextra : extra ≤ (w - voted) + (if adv then Int.tdiv w 3 else 0))
    (hcap : support + extra ≤ w)
    (h : couldReachStrongQuorum adv w voted support = false) :
    isStrongQuorum (support + extra) w = false := by
  have h2 := divCeil3_nonneg (2 * w) (by omega)
  unfold couldReachStrongQuorum at h
  unfold isStrongQuorum at *
  simp only [decide_eq_false_iff_not, Int.not_le, ge_iff_le] at *
  cases adv <;> simp at h hextra <;> omega

/-- Conversely the report is exact: if it says "could reach", the remaining power suffices. -/
theorem could_reach_complete (w voted support : Int) (hw : 0 ≤ w)
    (hsv : support ≤ voted) (_hvw : voted ≤ w)
    (h : couldReachStrongQuorum false w voted support = true) :
    isStrongQuorum (support + (w - voted)) w = true := by
  have h2 := divCeil3_nonneg (2 * w) (by omega)
  unfold couldReachStrongQuorum at h
  unfold isStrongQuorum at *
  simp only [decide_eq_true_eq, ge_iff_le] at *
  simp at h
  omega

/-- No intermediate of the quorum computations leaves int64 on the power domain (and far beyond:
any total up to 2^61). The intermediates are: `2*whole`, the quotient, remainder and `quo+1` of
`divCeil`, `unvoted`, `whole/3`, the three-term sum and the `min`. -/
theorem no_overflow (p w voted support : Int) (hw0 : 0 ≤ w) (hw : w ≤ 2 ^ 61)
    (hp0 : 0 ≤ p) (hp : p ≤ w) (hv0 : 0 ≤ voted) (hv : voted ≤ w) (hs0 : 0 ≤ support)
    (hs : support ≤ voted) :
    fits64 (2 * w) ∧ fits64 (Int.tdiv (2 * w) 3) ∧ fits64 (Int.tmod (2 * w) 3) ∧
    fits64 (Int.tdiv (2 * w) 3 + 1) ∧ fits64 (Int.tdiv w 3 + 1) ∧
    fits64 (w - voted) ∧ fits64 (support + (w - voted) + Int.tdiv w 3) ∧
    fits64 (divCeil (2 * w) 3) ∧ fits64 (divCeil w 3) := by
  have a := divCeil3_nonneg (2 * w) (by omega)
  have b := divCeil3_nonneg w hw0
  have h2 : (0:Int) ≤ 2 * w := by omega
  simp only [Int.tdiv_eq_ediv_of_nonneg h2, Int.tmod_eq_emod_of_nonneg h2,
    Int.tdiv_eq_ediv_of_nonneg hw0]
  unfold fits64
  refine ⟨?_, ?_, ?_, ?_, ?_, ?_, ?_, ?_, ?_⟩ <;> omega

/-- The threshold call sites (extracted from the source on this run): the certificate validator,
message validator and tally all apply the same predicate `IsStrongQuorum` to a sum of scaled
powers and the scaled total of a power table. -/
theorem call_sites_agree :
    (callSites.filter (fun c => c.2.1 == "IsStrongQuorum")).map (fun c => (c.1, c.2.2)) =
      [("gpbft/gpbft.go", ["candidate.power", "q.powerTable.ScaledTotal"]),
       ("gpbft/gpbft.go", ["q.sendersTotalPower", "q.powerTable.ScaledTotal"]),
       ("gpbft/gpbft.go", ["possibleSupport", "q.powerTable.ScaledTotal"]),
       ("gpbft/gpbft.go", ["justificationPower", "q.powerTable.ScaledTotal"]),
       ("gpbft/validator.go", ["justificationPower", "comt.PowerTable.ScaledTotal"]),
       ("certs/certs.go", ["signerPowers", "totalScaled"])] := by
  decide

/-! ## Scaled powers (hand model `F3.Power`, tied by correspondence) -/

theorem scalePower_le (p t : Nat) (h : p ≤ t) (_ht : 0 < t) : scalePower p t ≤ 65535 := by
  unfold scalePower maxPower
  apply Nat.div_le_of_le_mul
  have : 65535 * p ≤ 65535 * t := Nat.mul_le_mul_left _ h
  simpa [Nat.mul_comm] using this

theorem scalePower_mono (p q t : Nat) (h : p ≤ q) : scalePower p t ≤ scalePower q t := by
  unfold scalePower
  exact Nat.div_le_div_right (Nat.mul_le_mul_left _ h)

theorem sum_scaled_mul_le (ns : List Nat) (t : Nat) :
    sum (ns.map (fun p => scalePower p t)) * t ≤ maxPower * sum ns := by
  induction ns with
  | nil => simp [sum]
  | cons x xs ih =>
    simp only [List.map, sum]
    have hx : scalePower x t * t ≤ maxPower * x := by
      unfold scalePower; exact Nat.div_mul_le_self _ _
    rw [Nat.add_mul, Nat.mul_add]
    omega

/-- Scaled powers of any power table sum to at most 65 535. -/
theorem scaled_sum_le (ps : List Int) (sc : List Nat) (tot : Nat)
    (h : scaled ps = some (sc, tot)) : tot ≤ 65535 := by
  unfold scaled at h
  split at h
  · simp only [Option.some.injEq, Prod.mk.injEq] at h
    obtain ⟨_, h2⟩ := h
    subst h2
    have key := sum_scaled_mul_le (ps.map Int.toNat) (sum (ps.map Int.toNat))
    by_cases ht : sum (ps.map Int.toNat) = 0
    · -- total 0 ⇒ every scaled power is x/0 = 0
      have : ∀ ns : List Nat, sum (ns.map (fun p => scalePower p 0)) = 0 := by
        intro ns; induction ns with
        | nil => rfl
        | cons x xs ih =>
          simp only [List.map, sum, ih]; simp [scalePower]
      rw [ht, this]; omega
    · have hpos : 0 < sum (ps.map Int.toNat) := Nat.pos_of_ne_zero ht
      exact Nat.le_of_mul_le_mul_right key hpos
  · simp at h

theorem sum_ge_mem (ns : List Nat) (x : Nat) (h : x ∈ ns) : x ≤ sum ns := by
  induction ns with
  | nil => simp at h
  | cons y ys ih =>
    simp only [List.mem_cons] at h
    simp only [sum]
    rcases h with h | h
    · omega
    · have := ih h; omega

/-- Each scaled power is at most 65 535, and scaling preserves order. -/
theorem scaled_each_le (ps : List Int) (sc : List Nat) (tot : Nat)
    (h : scaled ps = some (sc, tot)) : ∀ s ∈ sc, s ≤ 65535 := by
  intro s hs
  have hle := scaled_sum_le ps sc tot h
  unfold scaled at h
  split at h
  · simp only [Option.some.injEq, Prod.mk.injEq] at h
    obtain ⟨h1, h2⟩ := h
    have : s ≤ sum sc := sum_ge_mem sc s hs
    rw [← h1] at this
    omega
  · simp at h

theorem scaled_order_preserving (ps : List Int) (sc : List Nat) (tot : Nat)
    (h : scaled ps = some (sc, tot)) (i j : Nat) (hi : i < ps.length) (hj : j < ps.length)
    (hij : ps[i] ≤ ps[j]) :
    sc[i]?.getD 0 ≤ sc[j]?.getD 0 := by
  unfold scaled at h
  split at h
  · simp only [Option.some.injEq, Prod.mk.injEq] at h
    obtain ⟨h1, _⟩ := h
    subst h1
    simp only [List.getElem?_map, List.getElem?_eq_getElem hi, List.getElem?_eq_getElem hj,
      Option.map_some, Option.getD_some]
    apply scalePower_mono
    omega
  · simp at h

/-- The domain the quorum functions are applied on is therefore `0 ≤ part ≤ whole ≤ 65535`,
inside the no-overflow range. -/
theorem power_domain_no_overflow (ps : List Int) (sc : List Nat) (tot : Nat)
    (h : scaled ps = some (sc, tot)) : (tot : Int) ≤ 2 ^ 61 := by
  have := scaled_sum_le ps sc tot h; omega

/-! ## Non-vacuity -/
example : isStrongQuorum 2 3 = true ∧ isStrongQuorum 1 3 = false ∧ hasWeakQuorum 2 3 = true
    ∧ hasWeakQuorum 1 3 = false := by decide
example : couldReachStrongQuorum false 30 25 5 = false ∧ couldReachStrongQuorum true 30 25 5 = true := by
  decide
example : scaled [10, 20, 30] = some ([10922, 21845, 32767], 65534) := by decide

/-! ## The predicates the tally executes are the code's

The instance model's tally (`F3.Instance.weakQ`, `Tally.couldReach`, `strongQ`) and the quorum driver
evaluate the hand-written `F3.Spec.Quorum.{strong, weak, couldReach}`; the theorems above are about the
definitions regenerated from `gpbft/gpbft.go`. They are the same functions wherever the total is
non-negative (`whole` is a sum of scaled powers) — for EVERY part / voted / support, not only inside
the power domain `0 ≤ support ≤ voted ≤ w ≤ 65535`. Exact domains of agreement:
* `couldReach`: all integers (for a negative total both are constantly `false`: the `min … w` caps);
* `weak`: exactly the totals with `0 ≤ w ∨ w % 3 = 0` (`weak_agreement_domain`); below zero Go's
  truncating `/` makes `divCeil` overshoot by one;
* `strong`: proved for `0 ≤ w` (`strong_iff`); it differs below zero for the same reason (example below).
Inside the power domain `0 ≤ support ≤ voted ≤ w ≤ 65535` there is therefore NO disagreement. -/
section Bridges

theorem divCeil3_neg (a : Int) (h : a < 0) :
    divCeil a 3 = -((-a) / 3) + (if (-a) % 3 = 0 then 0 else 1) := by
  obtain ⟨n, rfl⟩ : ∃ n, a = -n := ⟨-a, by omega⟩
  have hn : 0 ≤ n := by omega
  unfold divCeil
  simp only [Int.neg_tdiv, Int.neg_tmod, Int.tdiv_eq_ediv_of_nonneg hn, Int.tmod_eq_emod_of_nonneg hn,
    Int.neg_neg]
  by_cases hr : n % 3 = 0 <;> simp [hr]

/-- (already used by C04 and C03 through `strong_iff`) -/
theorem strong_is_the_codes_predicate (p w : Int) (hw : 0 ≤ w) :
    F3.Spec.Quorum.strong p w = isStrongQuorum p w := by
  rw [Bool.eq_iff_iff, strong_iff p w hw]
  simp [F3.Spec.Quorum.strong]

/-- The weak-quorum rule the model's tally evaluates is `hasWeakQuorum` of `gpbft/gpbft.go`. -/
theorem weak_is_the_codes_predicate (p w : Int) (hw : 0 ≤ w) :
    F3.Spec.Quorum.weak p w = hasWeakQuorum p w := by
  have h := divCeil3_nonneg w hw
  have : divCeil w 3 = (w + 2) / 3 := by omega
  unfold F3.Spec.Quorum.weak hasWeakQuorum
  rw [this]

/-- `0 ≤ w` (or a multiple of 3) is exactly where the two weak-quorum rules agree. -/
theorem weak_agreement_domain (w : Int) :
    (∀ p, F3.Spec.Quorum.weak p w = hasWeakQuorum p w) ↔ (0 ≤ w ∨ w % 3 = 0) := by
  constructor
  · intro h
    by_cases hw : 0 ≤ w
    · exact Or.inl hw
    · refine Or.inr ?_
      have hd := divCeil3_neg w (by omega)
      have := h (divCeil w 3)
      unfold F3.Spec.Quorum.weak hasWeakQuorum at this
      simp only [gt_iff_lt, Int.lt_irrefl, decide_false, decide_eq_false_iff_not, Int.not_lt] at this
      by_cases hr : (-w) % 3 = 0
      · omega
      · rw [if_neg hr] at hd; omega
  · rintro (hw | hw) p
    · exact weak_is_the_codes_predicate p w hw
    · by_cases hw0 : 0 ≤ w
      · exact weak_is_the_codes_predicate p w hw0
      · have hd := divCeil3_neg w (by omega)
        rw [if_pos (by omega)] at hd
        have : divCeil w 3 = (w + 2) / 3 := by omega
        unfold F3.Spec.Quorum.weak hasWeakQuorum
        rw [this]

/-- The "could still reach a strong quorum" rule the model's tally evaluates is
`quorumState.CouldReachStrongQuorumFor` of `gpbft/gpbft.go` (arguments in the order of the generated
definition: adversary flag, scaled total, power of the senders seen, power supporting the value) —
for all integers: no domain restriction is needed. -/
theorem could_reach_is_the_codes_predicate (adv : Bool) (w voted support : Int) :
    F3.Spec.Quorum.couldReach adv w voted support = couldReachStrongQuorum adv w voted support := by
  by_cases hw : 0 ≤ w
  · unfold F3.Spec.Quorum.couldReach couldReachStrongQuorum
    rw [strong_is_the_codes_predicate _ _ hw]
    cases adv
    · rfl
    · simp only [if_true, Int.tdiv_eq_ediv_of_nonneg hw]
  · -- a negative total: whatever is added, `min … w ≤ w` is below both thresholds
    have hd := divCeil3_neg (2 * w) (by omega)
    have hge : w < divCeil (2 * w) 3 := by
      by_cases hr : (-(2 * w)) % 3 = 0
      · rw [if_pos hr] at hd; omega
      · rw [if_neg hr] at hd; omega
    have hl : ∀ x : Int, F3.Spec.Quorum.strong (min x w) w = false := by
      intro x
      unfold F3.Spec.Quorum.strong
      simp only [decide_eq_false_iff_not]
      omega
    have hr : ∀ x : Int, isStrongQuorum (min x w) w = false := by
      intro x
      unfold isStrongQuorum
      simp only [decide_eq_false_iff_not]
      omega
    unfold F3.Spec.Quorum.couldReach couldReachStrongQuorum
    simp only [hl, hr]

/-- `weakQ`, which the instance model's tally runs (`Tally.fromWeak`: the round-skip rule), is the code's
`hasWeakQuorum` on the table's scaled total -/
theorem weakQ_is_the_codes_predicate (t : F3.Instance.Table) (p : Nat) :
    F3.Instance.weakQ t p = hasWeakQuorum (p : Int) (t.total : Int) :=
  weak_is_the_codes_predicate _ _ (by omega)

/-- `Tally.couldReach` of the instance model is the code's `CouldReachStrongQuorumFor` applied to the
table's scaled total, the power of the senders seen and the power recorded for the value (0 if none) -/
theorem couldReach_is_the_codes_predicate (t : F3.Instance.Table) (q : F3.Instance.Tally)
    (c : F3.Instance.Chain) (adv : Bool) :
    q.couldReach t c adv =
      couldReachStrongQuorum adv (t.total : Int) (q.sendersPower : Int)
        (match q.findSupport c with | some s => (s.power : Int) | none => 0) := by
  unfold F3.Instance.Tally.couldReach
  exact could_reach_is_the_codes_predicate adv _ _ _

/-- hence the facts proved above about the regenerated predicates hold of what the tally executes:
a power the tally counts as a weak quorum strictly exceeds a third of the table … -/
theorem weakQ_gt_third (t : F3.Instance.Table) (p : Nat) (h : F3.Instance.weakQ t p = true) :
    3 * p > t.total := by
  rw [weakQ_is_the_codes_predicate] at h
  have := weak_gt_third _ _ (by omega) h
  omega

/-- … and a value the tally reports as unable to reach a strong quorum cannot reach one: whatever power
`extra` of members that have not voted yet is added to its support, `strongQ` stays false -/
theorem couldReach_false_sound (t : F3.Instance.Table) (q : F3.Instance.Tally) (c : F3.Instance.Chain)
    (sup : F3.Instance.Support) (hs : q.findSupport c = some sup) (hsv : sup.power ≤ q.sendersPower)
    (hvw : q.sendersPower ≤ t.total) (extra : Nat) (hextra : extra + q.sendersPower ≤ t.total)
    (h : q.couldReach t c false = false) : F3.Instance.strongQ t (sup.power + extra) = false := by
  rw [couldReach_is_the_codes_predicate, hs] at h
  have := could_reach_sound false (t.total : Int) (q.sendersPower : Int) (sup.power : Int) (extra : Int)
    (by omega) (by omega) (by omega) (by omega) (by simp; omega) (by omega) h
  unfold F3.Instance.strongQ
  rw [strong_is_the_codes_predicate _ _ (by omega)]
  simpa using this

-- non-vacuity, and the domain is exact: below a zero total the hand-written and the generated
-- weak rules differ (never reached: totals are sums of scaled powers)
example : F3.Spec.Quorum.weak 1 (-1) = true ∧ hasWeakQuorum 1 (-1) = false := by decide
example : F3.Spec.Quorum.strong (-1) (-1) = false ∧ isStrongQuorum 0 (-1) = false ∧
    F3.Spec.Quorum.strong 0 (-1) = true := by decide
example : F3.Instance.weakQ { entries := [(1, 3), (2, 3), (3, 3)] } 4 = true ∧
    F3.Instance.weakQ { entries := [(1, 3), (2, 3), (3, 3)] } 3 = false := by decide
example : F3.Spec.Quorum.couldReach false 30 25 5 = false ∧ F3.Spec.Quorum.couldReach true 30 25 5 = true := by
  decide

end Bridges

end F3.Props.C08

namespace F3.Props.C08
section Skeletons

/-- **The Go functions this property's models mirror still have the statement structure the models were written
against**: each regenerated skeleton (pre-order list of statement kinds, `tools/go2lean/skel.go`) equals the pinned
expectation of `F3/Proofs/SkelTie*.lean`. An added early return, cap, loop or dropped branch in one of these functions
breaks this obligation even when no regenerated *expression* changes. -/
theorem code_structure_as_modelled :
    F3.Gen.SkelPower.skelScalePower = F3.SkelTie.SkelPower.skelScalePowerExpected ∧
    F3.Gen.SkelPower.skelPowerTableCopy = F3.SkelTie.SkelPower.skelPowerTableCopyExpected ∧
    F3.Gen.SkelPower.skelRescale = F3.SkelTie.SkelPower.skelRescaleExpected :=
  ⟨F3.SkelTie.SkelPower.skelScalePower_expected, F3.SkelTie.SkelPower.skelPowerTableCopy_expected, F3.SkelTie.SkelPower.skelRescale_expected⟩

end Skeletons
end F3.Props.C08
